(* ReaderMemFail.v -- the ownership ledger ReaderMem.v with failing allocations
   (second half of property C20): the k-th allocation REQUEST of a run fails,
   exactly as harness/c/verif_alloc.c makes it fail for the C, and every
   ledger operation follows the C's error path from there.

   Requests are counted in the C's order.  The sites (lib/ at /repo HEAD ae1151d):

     lha_input_stream.c:67   calloc  LHAInputStream              (driver: "ERR stream")
     lha_reader.c:184        calloc  LHAReader                   (driver: "ERR reader")
     lha_basic_reader.c:41   calloc  LHABasicReader, else free(reader)
     lha_file_header.c:933   calloc  LHAFileHeader + COMMON_HEADER_LEN      [parse: first request]
     lha_file_header.c:361   realloc in extend_raw_data (levels 0/1: once; level 1: once per
                             extended header; level 2: once, twice for OS-9/68k; level 3: twice) [HS_realloc]
     lha_file_header.c:323   malloc  filename in process_level0_path        [HS_l0_path]
     lha_file_header.c:105   strdup  in split_header_filename               [HS_l0_path / HS_symlink, split]
     ext_header.c:128        malloc  file name header 0x01                  [HS_ext F_fn]
     ext_header.c:172        malloc  path header 0x02                       [HS_ext F_path]
     ext_header.c:282        malloc  user name header 0x53                  [HS_ext F_un]
     ext_header.c:315        malloc  group header 0x52                      [HS_ext F_ug]
     lha_file_header.c:75    malloc  lha_file_header_full_path in parse_symlink   [HS_symlink]
     lha_file_header.c:283   strdup  symlink_target in parse_symlink        [HS_symlink]
     lha_decoder.c:80        calloc  LHADecoder: the inner decoder (lha_basic_reader_decode) and
                             the MacBinary pass-through (macbinary.c: lha_macbinary_passthrough)
     lha_file_header.c:75    malloc  tmp_filename in extract_file / extract_symlink
     lha_arch_unix.c         fdopen  in lha_arch_fopen, after open() has succeeded
   Any failure inside lha_file_header_read ends in `goto fail`: lha_file_header_free
   releases the struct and every field that is set, lha_basic_reader_next_file sets
   eof.  The fields of the header under construction are tracked one by one
   (Null / Live / Dangling pointer), so that freeing an old value before the
   allocation of its replacement has succeeded would be a fault here.

   Definitions only. *)
From Coq Require Import List Arith Bool.
From Lhasa Require Import Base Loop DecBase Generated InputStream Header BasicReader AnyDecoder Decoder
  MacBinary Fs FsRun Reader ReaderMem.
Import ListNotations.

(* ================================================================== *)
(* Part 1a: a header under construction                                *)

Inductive slot : Type := SNull | SLive | SDangling.
Inductive field : Type := F_fn | F_path | F_un | F_ug.

Inductive hstep : Type :=
| HS_realloc                          (* extend_raw_data *)
| HS_l0_path (split : bool)           (* process_level0_path; split: the name contains a '/' *)
| HS_ext (f : field)                  (* one of the four string-valued extended headers *)
| HS_symlink (bar split : bool).      (* parse_symlink; bar: the full path contains '|' *)

Record pstate := {
  p_fn : slot; p_path : slot; p_tgt : slot; p_un : slot; p_ug : slot;
  p_tmp : bool;      (* parse_symlink's fullpath *)
  p_lost : nat       (* blocks whose only pointer was overwritten *)
}.
Definition pstate0 : pstate :=
  {| p_fn := SNull; p_path := SNull; p_tgt := SNull; p_un := SNull; p_ug := SNull; p_tmp := false; p_lost := 0 |}.

(* free(p): harmless on NULL, a double free on a pointer to a freed block *)
Definition sfree (site : N) (s : slot) : outcome slot :=
  match s with
  | SNull => Ok SNull
  | SLive => Ok SDangling
  | SDangling => Fault site
  end.
(* the pointer is overwritten: a live block it was the only pointer to is lost *)
Definition lost_by (old : slot) : nat := match old with SLive => 1 | _ => 0 end.
Definition live_slot (s : slot) : nat := match s with SLive => 1 | _ => 0 end.

Definition get_field (p : pstate) (f : field) : slot :=
  match f with F_fn => p_fn p | F_path => p_path p | F_un => p_un p | F_ug => p_ug p end.
Definition set_field (p : pstate) (f : field) (s : slot) : pstate :=
  match f with
  | F_fn => {| p_fn := s; p_path := p_path p; p_tgt := p_tgt p; p_un := p_un p; p_ug := p_ug p; p_tmp := p_tmp p; p_lost := p_lost p |}
  | F_path => {| p_fn := p_fn p; p_path := s; p_tgt := p_tgt p; p_un := p_un p; p_ug := p_ug p; p_tmp := p_tmp p; p_lost := p_lost p |}
  | F_un => {| p_fn := p_fn p; p_path := p_path p; p_tgt := p_tgt p; p_un := s; p_ug := p_ug p; p_tmp := p_tmp p; p_lost := p_lost p |}
  | F_ug => {| p_fn := p_fn p; p_path := p_path p; p_tgt := p_tgt p; p_un := p_un p; p_ug := s; p_tmp := p_tmp p; p_lost := p_lost p |}
  end.
Definition add_lost (p : pstate) (n : nat) : pstate :=
  {| p_fn := p_fn p; p_path := p_path p; p_tgt := p_tgt p; p_un := p_un p; p_ug := p_ug p; p_tmp := p_tmp p;
     p_lost := p_lost p + n |}.
Definition set_tgt_tmp (p : pstate) (t : slot) (tmp : bool) : pstate :=
  {| p_fn := p_fn p; p_path := p_path p; p_tgt := t; p_un := p_un p; p_ug := p_ug p; p_tmp := tmp; p_lost := p_lost p |}.

(* the request counter: the k-th request fails *)
Definition req_fails (rq k : nat) : bool := Nat.eqb (S rq) k.

(* split_header_filename once its strdup has succeeded:
   header->path = header->filename; header->filename = new_filename *)
Definition do_split (p : pstate) : pstate :=
  let p1 := add_lost (set_field p F_path (p_fn p)) (lost_by (p_path p)) in
  set_field p1 F_fn SLive.

(* one step; result: (the step succeeded, state, requests made so far) *)
Definition hstep_run (k : nat) (st : hstep) (p : pstate) (rq : nat) : outcome (bool * pstate * nat) :=
  match st with
  | HS_realloc => Ok (negb (req_fails rq k), p, S rq)
  | HS_ext f =>
    (* new = malloc(); if (new == NULL) return 0; ...; free(header->f); header->f = new; *)
    if req_fails rq k then Ok (false, p, S rq) else
    old <- sfree 1601%N (get_field p f) ;;
    Ok (true, set_field (set_field p f old) f SLive, S rq)
  | HS_l0_path split =>
    (* header->filename = malloc(); then split_header_filename *)
    if req_fails rq k then Ok (false, p, S rq) else
    let p1 := add_lost (set_field p F_fn SLive) (lost_by (p_fn p)) in
    if split then
      if req_fails (S rq) k then Ok (false, p1, S (S rq)) else Ok (true, do_split p1, S (S rq))
    else Ok (true, p1, S rq)
  | HS_symlink bar split =>
    (* fullpath = lha_file_header_full_path() *)
    if req_fails rq k then Ok (false, p, S rq) else
    let p1 := set_tgt_tmp p (p_tgt p) true in
    if negb bar then Ok (false, set_tgt_tmp p1 (p_tgt p1) false, S rq) else       (* free(fullpath); return 0 *)
    (* header->symlink_target = strdup(p + 1) *)
    if req_fails (S rq) k then Ok (false, set_tgt_tmp p1 (p_tgt p1) false, S (S rq)) else
    let p2 := add_lost (set_tgt_tmp p1 SLive true) (lost_by (p_tgt p1)) in
    (* free(header->path); free(header->filename); header->path = NULL; header->filename = fullpath *)
    pa <- sfree 1602%N (p_path p2) ;;
    fn <- sfree 1603%N (p_fn p2) ;;
    let p3 := set_tgt_tmp (set_field (set_field p2 F_path SNull) F_fn SLive) (p_tgt p2) false in
    if split then
      if req_fails (S (S rq)) k then Ok (false, p3, S (S (S rq))) else Ok (true, do_split p3, S (S (S rq)))
    else Ok (true, p3, S (S rq))
  end.

Fixpoint hsteps_run (k : nat) (l : list hstep) (p : pstate) (rq : nat) : outcome (bool * pstate * nat) :=
  match l with
  | [] => Ok (true, p, rq)
  | st :: r =>
    '(ok, p1, rq1) <- hstep_run k st p rq ;;
    if ok then hsteps_run k r p1 rq1 else Ok (false, p1, rq1)
  end.

(* lha_file_header_free at refcount 1: free() of the five fields and of the struct *)
Definition pfree (p : pstate) : outcome nat :=          (* returns the blocks that stay lost *)
  _ <- sfree 1604%N (p_fn p) ;; _ <- sfree 1605%N (p_path p) ;; _ <- sfree 1606%N (p_tgt p) ;;
  _ <- sfree 1607%N (p_un p) ;; _ <- sfree 1608%N (p_ug p) ;;
  Ok (p_lost p + (if p_tmp p then 1 else 0)).

Definition pblocks (p : pstate) : nat :=
  1 + live_slot (p_fn p) + live_slot (p_path p) + live_slot (p_tgt p) + live_slot (p_un p) + live_slot (p_ug p).

(* lha_file_header_read.  steps: what the parse does on this input; natural_ok: it
   returns a header when no allocation fails.  Result: the blocks of the header
   returned (None = NULL), blocks lost for good, the request counter. *)
Definition parse_run (k : nat) (steps : list hstep) (natural_ok : bool) (rq : nat)
  : outcome (option nat * nat * nat) :=
  if req_fails rq k then Ok (None, 0, S rq) else                  (* header = calloc() *)
  '(ok, p, rq1) <- hsteps_run k steps pstate0 (S rq) ;;
  if ok && natural_ok then Ok (Some (pblocks p), p_lost p + (if p_tmp p then 1 else 0), rq1)
  else lost <- pfree p ;; Ok (None, lost, rq1).

(* the steps in the order the C can produce them: reallocs, at most one in-header
   name (levels 0/1) before any extended header, at most one parse_symlink, last *)
Fixpoint wf_steps_tail (l : list hstep) : bool :=
  match l with
  | [] => true
  | [HS_symlink _ _] => true
  | HS_realloc :: r => wf_steps_tail r
  | HS_ext _ :: r => wf_steps_tail r
  | _ => false
  end.
Fixpoint wf_steps (l : list hstep) : bool :=
  match l with
  | HS_realloc :: r => wf_steps r
  | HS_l0_path _ :: r => wf_steps_tail r
  | _ => wf_steps_tail l
  end.

(* ================================================================== *)
(* Part 1b: the reader ledger with a request counter                   *)

Record fmem := {
  f_m : mem;
  f_rq : nat;          (* allocation requests so far *)
  f_k : nat;           (* the request that fails; 0 = none *)
  f_lost : nat         (* blocks lost while a header was under construction *)
}.

Record fdecision := {
  fd_dc : decision;            (* as in ReaderMem; dc_fopen_ok: lha_arch_fopen's open() succeeds,
                                  dc_header: the header lha_file_header_read returns when nothing fails *)
  fd_parses : bool;            (* lha_basic_reader_next_file calls lha_file_header_read (not at eof) *)
  fd_steps : list hstep        (* what that parse does *)
}.

(* what a call reports *)
Inductive result : Type :=
| R_next_none | R_next_fake | R_next_normal
| R_read_zero | R_read_any
| R_false | R_bool_any.

Definition failure_value (r : result) : bool :=
  match r with R_next_none | R_next_fake | R_read_zero | R_false => true | _ => false end.

Definition with_m (s : fmem) (m : mem) : fmem := {| f_m := m; f_rq := f_rq s; f_k := f_k s; f_lost := f_lost s |}.
Definition with_rq (s : fmem) (rq : nat) : fmem := {| f_m := f_m s; f_rq := rq; f_k := f_k s; f_lost := f_lost s |}.

(* lha_input_stream_new, lha_reader_new: three requests.  None: the driver got NULL
   (everything allocated so far has been freed again). *)
Definition fmem_new (plain : bool) (k : nat) : option fmem :=
  if Nat.leb 1 k && Nat.leb k 3 then None
  else Some {| f_m := mem_new plain; f_rq := 3; f_k := k; f_lost := 0 |}.

Definition set_header (dc : decision) (h : option hinfo) : decision :=
  {| dc_header := h; dc_pop := dc_pop dc; dc_pt_ok := dc_pt_ok dc; dc_explicit := dc_explicit dc;
     dc_mkdir_ok := dc_mkdir_ok dc; dc_fopen_ok := dc_fopen_ok dc; dc_pos := dc_pos dc |}.
Definition set_blocks (inf : hinfo) (b : nat) : hinfo :=
  {| hi_blocks := b; hi_kind := hi_kind inf; hi_known := hi_known inf; hi_mac := hi_mac inf |}.

Definition next_result (m : mem) : result :=
  match h_type (m_h m) with
  | CT_NORMAL => R_next_normal
  | CT_FAKE_DIR | CT_DEFERRED_SYMLINK => R_next_fake
  | _ => R_next_none
  end.

(* lha_reader_next_file *)
Definition f_next (s : fmem) (fd : fdecision) : outcome (result * fmem) :=
  let advances := match h_type (m_h (f_m s)) with CT_START | CT_NORMAL => true | _ => false end in
  if advances && fd_parses fd then
    '(hdr, lost, rq1) <- parse_run (f_k s) (fd_steps fd)
                           (match dc_header (fd_dc fd) with Some _ => true | None => false end) (f_rq s) ;;
    let h := match hdr, dc_header (fd_dc fd) with
             | Some b, Some inf => Some (set_blocks inf b)
             | _, _ => None
             end in
    m1 <- m_next (f_m s) (set_header (fd_dc fd) h) ;;
    Ok (next_result m1, {| f_m := m1; f_rq := rq1; f_k := f_k s; f_lost := f_lost s + lost |})
  else
    m1 <- m_next (f_m s) (set_header (fd_dc fd) None) ;;
    Ok (next_result m1, with_m s m1).

Definition set_pt (dc : decision) (b : bool) : decision :=
  {| dc_header := dc_header dc; dc_pop := dc_pop dc; dc_pt_ok := b; dc_explicit := dc_explicit dc;
     dc_mkdir_ok := dc_mkdir_ok dc; dc_fopen_ok := dc_fopen_ok dc; dc_pos := dc_pos dc |}.
Definition set_known (inf : hinfo) (b : bool) : hinfo :=
  {| hi_blocks := hi_blocks inf; hi_kind := hi_kind inf; hi_known := b; hi_mac := hi_mac inf |}.

(* open_decoder: lha_decoder_new for the inner decoder (request), for the
   pass-through (request); a failed request is the path of an unknown method,
   respectively of a pass-through that cannot be created *)
Definition f_open (s : fmem) (dc : decision) : outcome (bool * fmem) :=
  match h_type (m_h (f_m s)) with
  | CT_NORMAL =>
    '(_, inf) <- curr_info 1630%N (f_m s) ;;
    if negb (hi_known inf) then
      '(ok, d1) <- open_decoder_m (m_d (f_m s)) inf dc ;;
      Ok (ok, with_m s (mk (f_m s) (m_h (f_m s)) d1 (m_tmp (f_m s)) (m_files (f_m s))))
    else
      let fi := req_fails (f_rq s) (f_k s) in
      let rq1 := S (f_rq s) in
      if fi then
        '(ok, d1) <- open_decoder_m (m_d (f_m s)) (set_known inf false) dc ;;
        Ok (ok, with_rq (with_m s (mk (f_m s) (m_h (f_m s)) d1 (m_tmp (f_m s)) (m_files (f_m s)))) rq1)
      else if hi_mac inf then
        let fo := req_fails rq1 (f_k s) in
        '(ok, d1) <- open_decoder_m (m_d (f_m s)) inf (set_pt dc (dc_pt_ok dc && negb fo)) ;;
        Ok (ok, with_rq (with_m s (mk (f_m s) (m_h (f_m s)) d1 (m_tmp (f_m s)) (m_files (f_m s)))) (S rq1))
      else
        '(ok, d1) <- open_decoder_m (m_d (f_m s)) inf dc ;;
        Ok (ok, with_rq (with_m s (mk (f_m s) (m_h (f_m s)) d1 (m_tmp (f_m s)) (m_files (f_m s)))) rq1)
  | _ => Ok (false, s)
  end.

(* lha_reader_read *)
Definition f_read (s : fmem) (fd : fdecision) : outcome (result * fmem) :=
  match d_decoder (m_d (f_m s)) with
  | Some a => if mem_id (d_live (m_d (f_m s))) a then Ok (R_read_any, s) else Fault 1631%N
  | None => '(ok, s1) <- f_open s (fd_dc fd) ;; Ok (if ok then R_read_any else R_read_zero, s1)
  end.

(* lha_reader_check *)
Definition f_check (s : fmem) (fd : fdecision) : outcome (result * fmem) :=
  match h_type (m_h (f_m s)) with
  | CT_NORMAL =>
    '(_, inf) <- curr_info 1632%N (f_m s) ;;
    match hi_kind inf with
    | K_file => '(ok, s1) <- f_open s (fd_dc fd) ;; Ok (if ok then R_bool_any else R_false, s1)
    | _ => Ok (R_bool_any, s)
    end
  | _ => Ok (R_false, s)
  end.

(* tmp_filename = lha_file_header_full_path(): a request unless a name was passed *)
Definition tmp_request (s : fmem) (dc : decision) : bool * fmem :=
  if dc_explicit dc then (false, s)
  else (req_fails (f_rq s) (f_k s), with_rq s (S (f_rq s))).

(* lha_reader_extract *)
Definition f_extract (s : fmem) (fd : fdecision) : outcome (result * fmem) :=
  let dc := fd_dc fd in
  match h_type (m_h (f_m s)) with
  | CT_NORMAL =>
    '(c, inf) <- curr_info 1633%N (f_m s) ;;
    match hi_kind inf with
    | K_file =>
      let '(tf, s0) := tmp_request s dc in
      if tf then Ok (R_false, s0) else
      let s1 := with_m s0 (tmp_alloc (f_m s0) dc) in
      '(ok, s2) <- f_open s1 dc ;;
      (* lha_arch_fopen: open(), then fdopen (a request) *)
      let opened := ok && dc_fopen_ok dc in
      let ff := opened && req_fails (f_rq s2) (f_k s2) in
      let s3 := if opened then with_rq s2 (S (f_rq s2)) else s2 in
      let m3 := f_m s3 in
      let m4 := if opened && negb ff then mk m3 (m_h m3) (m_d m3) (m_tmp m3) (pred (S (m_files m3))) else m3 in
      Ok (if opened && negb ff then R_bool_any else R_false, with_m s3 (tmp_free m4 dc))
    | K_link dangerous =>
      let '(tf, s0) := tmp_request s dc in
      if tf then Ok (R_false, s0) else
      let m1 := tmp_alloc (f_m s0) dc in
      if dangerous then
        if dc_fopen_ok dc then
          let ff := req_fails (f_rq s0) (f_k s0) in
          let s1 := with_rq s0 (S (f_rq s0)) in
          if ff then Ok (R_false, with_m s1 (tmp_free m1 dc)) else
          h1 <- hlink 1611%N (m_h m1) c (h_stack (m_h m1)) (insert_at (h_deferred (m_h m1)) (dc_pos dc) c) ;;
          Ok (R_bool_any, with_m s1 (tmp_free (mk m1 h1 (m_d m1) (m_tmp m1) (m_files m1)) dc))
        else Ok (R_false, with_m s0 (tmp_free m1 dc))
      else Ok (R_bool_any, with_m s0 (tmp_free m1 dc))
    | K_dir =>
      let m := f_m s in
      if dc_mkdir_ok dc && negb (m_plain m) then
        h1 <- hlink 1613%N (m_h m) c (c :: h_stack (m_h m)) (h_deferred (m_h m)) ;;
        Ok (R_bool_any, with_m s (mk m h1 (m_d m) (m_tmp m) (m_files m)))
      else Ok (R_bool_any, s)
    end
  | CT_FAKE_DIR =>
    '(_, _) <- curr_info 1634%N (f_m s) ;; Ok (R_bool_any, s)
  | CT_DEFERRED_SYMLINK =>
    '(_, _) <- curr_info 1635%N (f_m s) ;;
    let '(tf, s0) := tmp_request s dc in
    if tf then Ok (R_false, s0) else Ok (R_bool_any, with_m s0 (tmp_free (tmp_alloc (f_m s0) dc) dc))
  | _ => Ok (R_false, s)
  end.

Definition f_step (s : fmem) (o : op) (fd : fdecision) : outcome (result * fmem) :=
  match o with
  | ONext => f_next s fd
  | ORead => f_read s fd
  | OCheck => f_check s fd
  | OExtract => f_extract s fd
  end.

Fixpoint f_run (s : fmem) (l : list (op * fdecision)) : outcome fmem :=
  match l with
  | [] => Ok s
  | (o, fd) :: r => '(_, s') <- f_step s o fd ;; f_run s' r
  end.

Definition f_free_reader (s : fmem) : outcome fmem := m' <- m_free_reader (f_m s) ;; Ok (with_m s m').
Definition f_free_stream (s : fmem) : fmem := with_m s (m_free_stream (f_m s)).

Definition f_live_blocks (s : fmem) : nat := live_blocks (f_m s) + f_lost s.
Definition fledger_empty (s : fmem) : Prop := ledger_empty (f_m s) /\ f_lost s = 0.

(* ================================================================== *)
(* Part 2: lock step with the concrete model                           *)
(* The concrete Reader.v has no failing allocations.  The decisions -- in
   particular what lha_file_header_read would request on the bytes that come
   next -- are computed from the concrete state before the call; when the
   ledger says that the failing request falls in this call, the concrete state
   after the call is the one the C is left in (see the fls_ functions). *)

Local Open Scope N_scope.

Section Shadow.
  Variable mktime : N -> N -> N -> N -> Z -> N -> N.
  Variable junk : N.

  Definition has47 (l : list N) : bool := existsb (N.eqb 47) l.

  (* the extended headers whose decoder allocates *)
  Definition ext_alloc_field (num data_len : N) : option field :=
    match find_ext ext_header_nums ext_header_min_lens ext_header_decoder_ids num with
    | Some (min_len, id) =>
      if data_len <? min_len then None else
      match id with 1 => Some F_fn | 2 => Some F_path | 5 => Some F_un | 6 => Some F_ug | _ => None end
    | None => None
    end.

  (* decode_extended_headers, recording the allocating decoders *)
  Definition ext_shadow_step (fs : N) (s : header * N * N * list hstep)
    : outcome ((header * N * N * list hstep) + (bool * header * list hstep)) :=
    let '(h, offset, available, acc) := s in
    let raw := h_raw h in
    st <- (if offset <=? usub64 (nlen raw) fs then
             len <- (if fs =? 4 then dec_u32 1217 raw offset else dec_u16 1218 raw offset) ;;
             if len =? 0 then Ok None
             else if (len <? fs + 1) || (available <? len) then Ok None
             else num <- raw_at 1219 raw (offset + fs) ;; Ok (ext_alloc_field num (len - fs - 1))
           else Ok None) ;;
    r <- ext_step fs (h, offset, available) ;;
    match r with
    | inl s' => Ok (inl (s', acc ++ match st with Some f => [HS_ext f] | None => [] end))
    | inr (ok, h') => Ok (inr (ok, h', acc))
    end.

  Definition ext_shadow (h : header) (offset : N) : outcome (bool * header * list hstep) :=
    let fs := if h_level h =? 3 then 4 else 2 in
    let available := usub64 (usub64 (nlen (h_raw h)) offset) fs in
    loop (ext_shadow_step fs) 22 (h, offset, available, []).

  (* read_l1_extended_headers, counting the extend_raw_data calls *)
  Definition l1_shadow_step (s : header * istream * list hstep)
    : outcome ((header * istream * list hstep) + (bool * header * istream * list hstep)) :=
    let '(h, st, acc) := s in
    len <- dec_u16 1220 (h_raw h) (usub64 (nlen (h_raw h)) 2) ;;
    let acc' := if len =? 0 then acc else acc ++ [HS_realloc] in
    r <- l1_step (h, st) ;;
    match r with
    | inl (h', st') => Ok (inl (h', st', acc'))
    | inr (ok, h', st') => Ok (inr (ok, h', st', acc'))
    end.

  Definition level01_shadow (h : header) (st : istream) : outcome (bool * header * istream * list hstep) :=
    header_len <- raw_at 1234 (h_raw h) 0 ;;
    let min_len := if h_level h =? 0 then hdr_LEVEL_0_MIN_HEADER_LEN else hdr_LEVEL_1_MIN_HEADER_LEN in
    '(ok, h1, st1) <- decode_level0_header mktime h st ;;
    if negb ((h_level h =? 0) || (h_level h =? 1)) || (header_len <? min_len) then Ok (false, h1, st1, []) else
    if negb ok then Ok (false, h1, st1, [HS_realloc]) else
    path_len <- raw_at 1241 (h_raw h1) 21 ;;
    pdata <- raw_slice 1243 (h_raw h1) 22 path_len ;;
    let name := cstr (map (fun b => if b =? 92 then 47 else b) pdata) in
    Ok (true, h1, st1, HS_realloc :: match pdata with [] => [] | _ => [HS_l0_path (has47 name)] end).

  Definition level1_shadow (h : header) (st : istream) : outcome (bool * header * list hstep) :=
    '(ok, h1, st1, s1) <- level01_shadow h st ;;
    if negb ok then Ok (false, h1, s1) else
    let ext_start := u32 (usub64 (nlen (h_raw h1)) 2) in
    '(ok2, h2, st2, s2) <- loop l1_shadow_step 40 (h1, st1, s1) ;;
    if negb ok2 then Ok (false, h2, s2) else
    '(ok3, h3, s3) <- ext_shadow h2 ext_start ;;
    Ok (ok3, h3, s2 ++ s3).

  Definition level2_shadow (h : header) (st : istream) : outcome (bool * header * list hstep) :=
    header_len <- dec_u16 1251 (h_raw h) 0 ;;
    if header_len <? hdr_LEVEL_2_HEADER_LEN then Ok (false, h, []) else
    '(r, st1) <- extend_raw_data h st (usub64 header_len (nlen (h_raw h))) ;;
    match r with
    | None => Ok (false, h, [HS_realloc])
    | Some h1 =>
      h2 <- decode_l23_fields h1 ;;
      let os9 := h_os_type h2 =? OS_TYPE_OS9_68K in
      '(r3, st3) <- (if os9 then extend_raw_data h2 st1 2 else Ok (Some h2, st1)) ;;
      let s1 := HS_realloc :: (if os9 then [HS_realloc] else []) in
      match r3 with
      | None => Ok (false, h2, s1)
      | Some h3 => '(ok, h4, s2) <- ext_shadow h3 24 ;; Ok (ok, h4, s1 ++ s2)
      end
    end.

  Definition level3_shadow (h : header) (st : istream) : outcome (bool * header * list hstep) :=
    ws <- dec_u16 1252 (h_raw h) 0 ;;
    if negb (ws =? 4) then Ok (false, h, []) else
    '(r, st1) <- extend_raw_data h st (usub64 hdr_LEVEL_3_HEADER_LEN (nlen (h_raw h))) ;;
    match r with
    | None => Ok (false, h, [HS_realloc])
    | Some h1 =>
      header_len <- dec_u32 1253 (h_raw h1) 24 ;;
      if (hdr_LEVEL_3_MAX_HEADER_LEN <? header_len) || (header_len <? nlen (h_raw h1)) then Ok (false, h1, [HS_realloc]) else
      '(r2, st2) <- extend_raw_data h1 st1 (header_len - nlen (h_raw h1)) ;;
      match r2 with
      | None => Ok (false, h1, [HS_realloc; HS_realloc])
      | Some h2 =>
        h3 <- decode_l23_fields h2 ;;
        '(ok, h4, s2) <- ext_shadow h3 28 ;; Ok (ok, h4, [HS_realloc; HS_realloc] ++ s2)
      end
    end.

  (* the allocation requests of lha_file_header_read on this stream, after the first calloc *)
  Definition parse_steps (st : istream) : outcome (list hstep) :=
    '(r, st1) <- lha_input_stream_read st hdr_COMMON_HEADER_LEN ;;
    match r with
    | None => Ok []
    | Some raw =>
      lvl <- raw_at 1260 raw 20 ;;
      let h := set_level (header0 raw) lvl in
      '(ok, h1, s1) <-
         (if lvl =? 0 then '(ok, h1, _, s1) <- level01_shadow h st1 ;; Ok (ok, h1, s1)
          else if lvl =? 1 then level1_shadow h st1
          else if lvl =? 2 then level2_shadow h st1
          else if lvl =? 3 then level3_shadow h st1
          else Ok (false, h, [])) ;;
      if negb ok then Ok s1 else
      let h2 := if (h_os_type h1 =? OS_TYPE_AMIGA) && method_is h1 [45; 108; 104; 48; 45]
                   && (h_length h1 =? 0) && (match h_filename h1 with None => true | _ => false end)
                then set_method h1 COMPRESS_TYPE_DIR else h1 in
      if negb (method_is h2 COMPRESS_TYPE_DIR) then Ok s1
      else if have_extra h2 FILE_UNIX_PERMS
              && (match h_path h2, h_filename h2 with None, None => false | _, _ => true end)
              && (N.land (h_unix_perms h2) 61440 =? 40960) then
        let full := full_path h2 in
        match first_index full 124 0 with
        | None => Ok (s1 ++ [HS_symlink false false])
        | Some p => Ok (s1 ++ [HS_symlink true (has47 (firstn_N p full))])
        end
      else Ok s1
    end.

  Definition set_eof (r : reader) : reader :=
    let b := rd_br r in
    {| rd_br := {| br_stream := br_stream b; br_curr := br_curr b; br_remaining := br_remaining b; br_eof := true |};
       rd_curr := rd_curr r; rd_type := rd_type r; rd_decoder := rd_decoder r; rd_inner := rd_inner r;
       rd_policy := rd_policy r; rd_dir_stack := rd_dir_stack r; rd_deferred := rd_deferred r;
       rd_linked := rd_linked r |}.

  Definition fails_in (s s' : fmem) : bool :=
    negb (Nat.eqb (f_k s) 0) && Nat.ltb (f_rq s) (f_k s) && Nat.leb (f_k s) (f_rq s').

  (* lha_reader_next_file *)
  Definition fls_next (s : reader * fmem) : outcome (option header * (reader * fmem)) :=
    let '(r, m) := s in
    '(h, r') <- lha_reader_next_file mktime r ;;
    '(parses, steps) <-
       (match rd_type r with
        | CT_START | CT_NORMAL =>
          let b := rd_br r in
          '(eof, st') <- (match br_curr b with
                          | Some _ => '(ok, st') <- lha_input_stream_skip (br_stream b) (br_remaining b) ;;
                                      Ok (if ok then br_eof b else true, st')
                          | None => Ok (br_eof b, br_stream b)
                          end) ;;
          if eof then Ok (false, []) else st <- parse_steps st' ;; Ok (true, st)
        | _ => Ok (false, [])
        end) ;;
    let fd := {| fd_dc := decide ONext false r r'; fd_parses := parses; fd_steps := steps |} in
    '(_, m') <- f_step m ONext fd ;;
    if fails_in m m' then
      (* the header read failed: the basic reader is at its end *)
      '(h2, r2) <- lha_reader_next_file mktime (set_eof r) ;;
      Ok (h2, (r2, m'))
    else Ok (h, (r', m')).

  Definition plain_fd (dc : decision) : fdecision := {| fd_dc := dc; fd_parses := false; fd_steps := [] |}.

  (* lha_reader_read: a failing request is one of open_decoder's; the call returns 0 and
     nothing has been read from the member *)
  Definition fls_read (s : reader * fmem) (n : N) : outcome (list N * list (N * N) * (reader * fmem)) :=
    let '(r, m) := s in
    '(o, ev, r') <- lha_reader_read junk r n ;;
    '(_, m') <- f_step m ORead (plain_fd (decide ORead false r r')) ;;
    if fails_in m m' then Ok ([], [], (r, m')) else Ok (o, ev, (r', m')).

  Definition fls_check (s : reader * fmem) (monitor : bool) : outcome (bool * list (N * N) * (reader * fmem)) :=
    let '(r, m) := s in
    '(ok, ev, r') <- lha_reader_check junk r monitor ;;
    '(_, m') <- f_step m OCheck (plain_fd (decide OCheck false r r')) ;;
    if fails_in m m' then Ok (false, [], (r, m')) else Ok (ok, ev, (r', m')).

  Definition set_fopen (dc : decision) (b : bool) : decision :=
    {| dc_header := dc_header dc; dc_pop := dc_pop dc; dc_pt_ok := dc_pt_ok dc; dc_explicit := dc_explicit dc;
       dc_mkdir_ok := dc_mkdir_ok dc; dc_fopen_ok := b; dc_pos := dc_pos dc |}.

  (* lha_reader_extract.  When the failing request is lha_arch_fopen's fdopen, the file has
     been created and is removed again (and for a regular file the decoder is open) *)
  Definition fls_extract (s : reader * fmem) (f : fs) (filename : option (list N)) (monitor : bool)
    : outcome (bool * list (N * N) * (reader * fmem) * fs) :=
    let '(r, m) := s in
    '(ok, ev, r', f') <- lha_reader_extract junk r f filename monitor ;;
    let explicit := match filename with Some _ => true | None => false end in
    (* does lha_arch_fopen's open() succeed? *)
    let '(fname, perms, is_file) :=
      match rd_curr r with
      | Some h => (match filename with Some n => n | None => full_path h end,
                   if is_dir_method h then Some 384 else if have_extra h FILE_UNIX_PERMS then Some (h_unix_perms h) else None,
                   negb (is_dir_method h))
      | None => ([], None, false)
      end in
    let opened := match arch_fopen f fname perms with (Some _, _) => true | (None, _) => false end in
    let dc := set_fopen (decide OExtract explicit r r') opened in
    '(_, m') <- f_step m OExtract (plain_fd dc) ;;
    if fails_in m m' then
      (* was it the fdopen?  For a regular file: the ledger's decoder is open (a failed tmp_filename
         or decoder request leaves reader->decoder NULL); for a placeholder: it was not tmp_filename *)
      let normal := match rd_type r with CT_NORMAL => true | _ => false end in
      let fdopen_failed :=
        normal &&
        (if is_file then match d_decoder (m_d (f_m m')) with Some _ => true | None => false end
         else explicit || negb (Nat.eqb (f_k m) (S (f_rq m)))) in
      if fdopen_failed then
        let f2 := match arch_fopen f fname perms with
                  | (Some _, f1) => snd (fs_remove f1 fname)
                  | (None, f1) => f1
                  end in
        if is_file then
          '(_, _, r2) <- lha_reader_read junk r 0 ;;       (* open_decoder has happened *)
          Ok (false, [], (r2, m'), f2)
        else Ok (false, [], (r, m'), f2)
      else Ok (false, [], (r, m'), f)
    else Ok (ok, ev, (r', m'), f').
End Shadow.

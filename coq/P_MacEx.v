(* P_MacEx.v -- non-vacuity of P_MacContent.mac_extract_content: the MacLHA
   member of P_ReaderCheck.mac_archive (hello.txt inside a MacBinary envelope,
   256 stored bytes) is extracted; the theorem applies, and mac_out of its inner
   stream is the 11 bytes of the data fork. *)
From Lhasa Require Import Base ListN DecBase Loop Generated Crc16 InputStream Header BasicReader
  AnyDecoder Decoder MacBinary Fs FsRun Reader P_ReaderCheck P_DecoderTrace P_MacContent.
Import P_ReaderCheck.Example.
Local Open Scope N_scope.

Definition mac_r : reader :=
  match mac_reader with Ok (_, r) => r | _ => lha_reader_new (lha_input_stream_new (mk_source KFile [])) end.
Definition mac_h : header := match mac_reader with Ok (Some h, _) => h | _ => header0 [] end.
Definition mac_fs : fs := {| fs_root := Dir true 493 0 []; fs_cwd := []; fs_uid0 := false; fs_umask := 18; fs_trace := [] |}.
Definition mac_name : list N := [104; 101; 108; 108; 111; 46; 116; 120; 116].
Definition mac_inner : list N := firstn 256 (skipn 59 mac_archive).       (* the stored (-lh0-) member: envelope ++ fork ++ padding *)
Definition hello_world : list N := [104; 101; 108; 108; 111; 32; 119; 111; 114; 108; 100].

Example mac_out_is_data_fork :
  nlen mac_inner = h_length mac_h /\ lha_crc16_buf 0 mac_inner = h_crc mac_h /\
  firstn_N (h_length mac_h) (mac_out mac_h mac_inner) = hello_world.
Proof. repeat split; vm_compute; reflexivity. Qed.

Example mac_instance :
  exists ev r' f', extract_file ex_junk mac_r mac_fs (Some mac_name) true = Ok (true, ev, r', f') /\
    file_data f' [mac_name] = Some hello_world /\
    exists chunks ibs, nlen ibs = h_length mac_h /\ lha_crc16_buf 0 ibs = h_crc mac_h /\
      concat chunks = firstn_N (h_length mac_h) (mac_out mac_h ibs).
Proof.
  destruct (extract_file ex_junk mac_r mac_fs (Some mac_name) true) as [[[[res ev] r'] f']| |] eqn:E.
  2,3: vm_compute in E; discriminate.
  assert (Hres : res = true /\ file_data f' [mac_name] = Some hello_world).
  { vm_compute in E. inversion E; subst. split; vm_compute; reflexivity. }
  destruct Hres as [-> Hfd].
  exists ev, r', f'. split; [reflexivity|]. split; [exact Hfd|].
  destruct (mac_extract_content ex_junk mac_r mac_fs (Some mac_name) true ev r' f' mac_h E)
    as (hd & f1 & chunks & ibs & _ & _ & A & B & C); [vm_compute; reflexivity|vm_compute; reflexivity|].
  exists chunks, ibs. auto.
Qed.

Print Assumptions mac_instance.

(* P_CliPath.v -- C10, path construction (src/extract.c file_full_path).

   For a header that satisfies C11's invariant (Properties_C11.returned_names_ok:
   the file name has no '/', the '/'-terminated components of the path are real
   names) and options whose w= argument, if any, is a non-empty relative path
   without ".." components, the path the tool hands to the library is
     - relative,
     - made of the components of w=DIR, then the real names of the header's path
       (unless option i), then the header's file name: every '/'-terminated
       component is a component of w=DIR or a real name; in particular none is "..".
   The LAST component (the file name, which the archive chooses freely apart from
   '/') may be "..", "." or empty: the statement "no '..' component" is false for
   it, e.g. a member named "..".  (P_FsConfine shows that this is harmless: such a
   path never resolves to a name, so nothing is created through it.)
   The same holds for every parent path that make_parent_directories checks. *)
From Lhasa Require Import Base Header Fs FsRun ListOut CliExtract P_Path P_FsConfine.
From Coq Require Import Lia.
Local Open Scope N_scope.

(* C11's invariant for one header *)
Definition hdr_c11 (h : header) : Prop :=
  (forall n, h_filename h = Some n -> name_ok n) /\ (forall p, h_path h = Some p -> path_ok p).

(* the w= argument: absent, or a non-empty relative path without ".." *)
Definition good_w (o : lha_options) : Prop :=
  match o_extract_path o with None => True | Some e => e <> [] /\ strict_path e end.

Definition ndd (c : list N) : Prop := c <> [46; 46].

(* a relative string none of whose '/'-terminated components is ".." *)
Definition good_str (s : list N) : Prop := is_absolute s = false /\ Forall ndd (slash_components s []).

Lemma nodd_ndd c : nodd c -> ndd c.
Proof. unfold nodd, ndd. intros H ->. discriminate. Qed.
Lemma ndd_nodd c : ndd c -> nodd c.
Proof. apply nodd_ne. Qed.

(* ------------------------------------------------------------------ *)
(* split_path (the kernel's view) against slash_components (C11's view) *)

Lemma sc_cons' c r cur : slash_components (c :: r) cur =
  if c =? 47 then rev cur :: slash_components r [] else slash_components r (c :: cur).
Proof. reflexivity. Qed.

Lemma spa_cons c r cur : split_path_aux (c :: r) cur =
  if c =? 47 then (match cur with [] => split_path_aux r [] | _ => rev cur :: split_path_aux r [] end)
  else split_path_aux r (c :: cur).
Proof. reflexivity. Qed.

Lemma rev_nil_iff {A} (l : list A) : rev l = [] -> l = [].
Proof. intros H. apply (f_equal (@rev A)) in H. rewrite rev_involutive in H. exact H. Qed.

(* the components that split_path yields, except the last one, are '/'-terminated
   components of the string *)
Lemma spa_removelast l : forall cur, Forall ndd (slash_components l cur) ->
  Forall nodd (removelast (split_path_aux l cur)).
Proof.
  induction l as [|c r IH]; intros cur H.
  - cbn [split_path_aux]. destruct cur; constructor.
  - rewrite spa_cons. rewrite sc_cons' in H. destruct (c =? 47).
    + inversion H as [|? ? Hc Hr]; subst. specialize (IH [] Hr).
      destruct cur as [|a cur']; [exact IH|].
      destruct (split_path_aux r []) as [|x l'] eqn:E; [constructor|].
      rewrite removelast_cons_ne by discriminate. constructor; [apply ndd_nodd; exact Hc|exact IH].
    + apply IH. exact H.
Qed.

(* every component of a prefix that ends where a '/' follows *)
Lemma spa_prefix a : forall b cur, Forall ndd (slash_components (a ++ 47 :: b) cur) ->
  Forall nodd (split_path_aux a cur).
Proof.
  induction a as [|c r IH]; intros b cur H.
  - cbn [app] in H. rewrite sc_cons' in H. change (47 =? 47) with true in H. cbv iota in H.
    inversion H as [|? ? Hc Hr]; subst. cbn [split_path_aux].
    destruct cur; [constructor|]. constructor; [apply ndd_nodd; exact Hc|constructor].
  - cbn [app] in H. rewrite sc_cons' in H. rewrite spa_cons. destruct (c =? 47).
    + inversion H as [|? ? Hc Hr]; subst. specialize (IH b [] Hr).
      destruct cur; [exact IH|]. constructor; [apply ndd_nodd; exact Hc|exact IH].
    + eapply IH. exact H.
Qed.

Lemma sc_prefix (P : list N -> Prop) x : forall y cur,
  Forall P (slash_components (x ++ y) cur) -> Forall P (slash_components x cur).
Proof.
  induction x as [|c r IH]; intros y cur H; [constructor|].
  cbn [app] in H. rewrite sc_cons' in *. destruct (c =? 47).
  - inversion H as [|? ? Hc Hr]; subst. constructor; [exact Hc|eapply IH; exact Hr].
  - eapply IH. exact H.
Qed.

Lemma sc_app_noslash x : forall f cur, ~ In 47 f -> slash_components (x ++ f) cur = slash_components x cur.
Proof.
  induction x as [|c r IH]; intros f cur Hf.
  - cbn [app]. rewrite sc_noslash by exact Hf. reflexivity.
  - cbn [app]. rewrite !sc_cons'. destruct (c =? 47); rewrite IH by exact Hf; reflexivity.
Qed.

Lemma sc_app_slash a : forall b cur,
  slash_components (a ++ 47 :: b) cur = slash_components (a ++ [47]) cur ++ slash_components b [].
Proof.
  induction a as [|c r IH]; intros b cur.
  - cbn [app]. rewrite !sc_cons'. change (47 =? 47) with true. cbv iota. reflexivity.
  - cbn [app]. rewrite !sc_cons'. destruct (c =? 47); rewrite IH; reflexivity.
Qed.

(* the components of w=DIR, seen as '/'-terminated components of "DIR/" *)
Lemma sc_of_split e : forall cur, Forall nodd (split_path_aux e cur) -> Forall ndd (slash_components (e ++ [47]) cur).
Proof.
  induction e as [|c r IH]; intros cur H.
  - cbn [app]. rewrite sc_cons'. change (47 =? 47) with true. cbv iota. cbn [split_path_aux] in H.
    constructor; [|constructor]. destruct cur as [|a cur'].
    + cbn. unfold ndd. discriminate.
    + inversion H; subst. apply nodd_ndd. assumption.
  - cbn [app]. rewrite sc_cons'. rewrite spa_cons in H. destruct (c =? 47).
    + destruct cur as [|a cur'].
      * constructor; [cbn; unfold ndd; discriminate|apply IH; exact H].
      * inversion H; subst. constructor; [apply nodd_ndd; assumption|apply IH; assumption].
    + apply IH. exact H.
Qed.

(* ------------------------------------------------------------------ *)
(* skip_slashes                                                          *)

Lemma skip_slashes_rel p : is_absolute (skip_slashes p) = false.
Proof.
  induction p as [|c r IH]; [reflexivity|]. cbn [skip_slashes]. destruct (N.eqb_spec c 47) as [->|Hc]; [exact IH|].
  cbn [is_absolute]. destruct c as [|q]; [reflexivity|]. repeat (destruct q as [q|q|]; try reflexivity). congruence.
Qed.

Lemma is_absolute_cons c r : is_absolute (c :: r) = (c =? 47).
Proof.
  cbn [is_absolute]. destruct c as [|q]; [reflexivity|]. repeat (destruct q as [q|q|]; try reflexivity).
Qed.

Lemma is_absolute_app a b : a <> [] -> is_absolute (a ++ b) = is_absolute a.
Proof. destruct a as [|c r]; [congruence|]. intros _. cbn [app]. rewrite !is_absolute_cons. reflexivity. Qed.

Lemma skip_slashes_noslash f : ~ In 47 f -> skip_slashes f = f.
Proof.
  destruct f as [|c r]; [reflexivity|]. intros H. cbn [skip_slashes].
  destruct (N.eqb_spec c 47) as [->|Hc]; [exfalso; apply H; left; reflexivity|reflexivity].
Qed.

(* under C11's invariant the path has at most one leading '/' *)
Lemma skip_slashes_path p : path_ok p -> skip_slashes p = strip_lead p.
Proof.
  unfold path_ok. intros H.
  assert (G : forall q, Forall real_name (slash_components q []) -> skip_slashes q = q).
  { intros [|c r] Hq; [reflexivity|]. cbn [skip_slashes]. destruct (N.eqb_spec c 47) as [->|Hc]; [|reflexivity].
    rewrite sc_cons' in Hq. change (47 =? 47) with true in Hq. cbv iota in Hq.
    inversion Hq as [|? ? [Hne _] _]; subst. exfalso. apply Hne. reflexivity. }
  destruct p as [|c r]; [reflexivity|]. destruct (N.eqb_spec c 47) as [->|Hc].
  - rewrite strip_lead_47 in *. cbn [skip_slashes]. change (47 =? 47) with true. cbv iota. apply G. exact H.
  - rewrite strip_lead_other in * by exact Hc. apply G. exact H.
Qed.

Lemma real_name_ndd c : real_name c -> ndd c.
Proof. intros (_ & _ & H). exact H. Qed.

(* ------------------------------------------------------------------ *)
(* file_full_path                                                       *)

Theorem file_full_path_good h o : hdr_c11 h -> good_w o -> good_str (file_full_path h o).
Proof.
  intros [Hn Hp] Hw. unfold file_full_path.
  set (P := if o_use_path o then match h_path h with Some p => skip_slashes p | None => [] end else []).
  set (F := match h_filename h with Some f => skip_slashes f | None => [] end).
  assert (HF : ~ In 47 F).
  { unfold F. destruct (h_filename h) as [f|]; [|intros []]. rewrite skip_slashes_noslash; apply (Hn f eq_refl). }
  assert (HFa : is_absolute F = false).
  { destruct F as [|c r]; [reflexivity|]. rewrite is_absolute_cons. destruct (N.eqb_spec c 47) as [->|]; [|reflexivity].
    exfalso. apply HF. left. reflexivity. }
  assert (HP : is_absolute (P ++ F) = false /\ Forall ndd (slash_components P [])).
  { unfold P. destruct (o_use_path o); [|split; [exact HFa|constructor]].
    destruct (h_path h) as [p|] eqn:Ep; [|split; [exact HFa|constructor]]. split.
    - destruct (skip_slashes p) eqn:E; [exact HFa|]. rewrite is_absolute_app by discriminate.
      rewrite <- E. apply skip_slashes_rel.
    - rewrite (skip_slashes_path p (Hp p eq_refl)). eapply Forall_impl; [exact real_name_ndd|apply (Hp p eq_refl)]. }
  destruct HP as [HPa HPc].
  unfold good_w in Hw. destruct (o_extract_path o) as [e|].
  - destruct Hw as [Hne [Hea Hec]]. split.
    + rewrite <- app_assoc. rewrite is_absolute_app by exact Hne. exact Hea.
    + rewrite app_assoc. rewrite sc_app_noslash by exact HF. rewrite <- app_assoc. cbn [app].
      rewrite sc_app_slash. apply Forall_app. split; [apply sc_of_split; exact Hec|exact HPc].
  - cbn [app]. split; [exact HPa|]. rewrite sc_app_noslash by exact HF. exact HPc.
Qed.

(* what the library gets *)
Corollary file_full_path_rel h o : hdr_c11 h -> good_w o -> rel_path (file_full_path h o).
Proof.
  intros A B. destruct (file_full_path_good h o A B) as [Ha Hc]. split; [exact Ha|].
  apply spa_removelast. exact Hc.
Qed.

(* ------------------------------------------------------------------ *)
(* the parent paths of make_parent_directories                          *)

Lemma skip_slashes_decomp l : exists y, l = y ++ skip_slashes l.
Proof.
  induction l as [|c r [y Hy]]; [exists []; reflexivity|]. cbn [skip_slashes]. destruct (c =? 47).
  - exists (c :: y). cbn [app]. f_equal. exact Hy.
  - exists []. reflexivity.
Qed.

Lemma strip_trailing_decomp s : exists y, s = strip_trailing_slashes s ++ y.
Proof.
  unfold strip_trailing_slashes. destruct (skip_slashes_decomp (rev s)) as [y Hy].
  exists (rev y). rewrite <- rev_app_distr, <- Hy, rev_involutive. reflexivity.
Qed.

(* every proper prefix before a '/' of the stripped path is a path without ".." *)
Theorem parent_prefix_strict s a b : good_str s -> strip_trailing_slashes s = a ++ 47 :: b -> a <> [] ->
  strict_path a.
Proof.
  intros [Ha Hc] E Hne. destruct (strip_trailing_decomp s) as [y Hy]. rewrite E in Hy. split.
  - rewrite Hy in Ha. rewrite <- app_assoc in Ha. rewrite is_absolute_app in Ha by exact Hne. exact Ha.
  - rewrite Hy in Hc. apply sc_prefix in Hc. eapply spa_prefix. exact Hc.
Qed.

Lemma good_str_strip_rel s : good_str s -> is_absolute (strip_trailing_slashes s) = false.
Proof.
  intros [Ha _]. destruct (strip_trailing_decomp s) as [y Hy].
  destruct (strip_trailing_slashes s) as [|c r] eqn:E; [reflexivity|].
  rewrite Hy in Ha. rewrite is_absolute_app in Ha by discriminate. exact Ha.
Qed.

Print Assumptions file_full_path_good.
Print Assumptions file_full_path_rel.
Print Assumptions parent_prefix_strict.

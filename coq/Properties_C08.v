(* Properties_C08.v -- C08: no archive bytes can make the library touch invalid
   memory.  In the model every index into raw header data, extended-header
   payloads and the 24-byte lead-in buffer is a checked access yielding [Fault];
   the theorems say [Fault] is unreachable for EVERY input.  Statements only;
   proofs in P_HeaderSafe.v (parser, stream, basic reader) and, for the
   decompressors, Properties_C09.v.  The command-line tool and the
   reader/extraction layer are covered by the correspondence run and the
   sanitizer oracle of this check, not yet by theorems. *)
From Lhasa Require Import Base DecBase Generated InputStream Header BasicReader Reader P_HeaderSafe P_BitReader P_AnyDecoder P_ReaderSafe.
From Lhasa Require P_Lh1 P_CliNoFault.
Local Open Scope N_scope.

(* the only well-formedness needed: the lead-in buffer holds at most 24 bytes *)
Example fresh_stream_wf : forall k data, wf (lha_input_stream_new (mk_source k data)).
Proof. intros k data. unfold wf. cbn. lia. Qed.

(* The header parser never performs an out-of-range access, whatever the bytes,
   the stream kind and mktime. *)
Theorem header_parser_never_faults : forall mktime st, wf st -> no_fault (lha_file_header_read mktime st).
Proof. exact lha_file_header_read_no_fault. Qed.

(* ... and it returns (does not run away) on every stream shorter than 12 MiB
   (the bound comes from the model's fuel for the level-1 extended-header walk;
   levels 0, 2, 3 need no bound). *)
Theorem header_parser_returns : forall mktime st, wf st -> avail st < EXT_LIMIT ->
  exists r st', lha_file_header_read mktime st = Ok (r, st') /\ wf st' /\ avail st' <= avail st.
Proof. exact lha_file_header_read_total. Qed.

(* The self-extractor scan and the stream read/skip functions, all four kinds. *)
Theorem sfx_scan_returns : forall st, wf st ->
  exists ok st', skip_sfx st = Ok (ok, st') /\ wf st' /\ avail st' <= avail st /\ is_state st' = is_state st.
Proof. exact skip_sfx_total. Qed.

Theorem stream_read_returns : forall st n, wf st ->
  exists r st', lha_input_stream_read st n = Ok (r, st') /\ wf st' /\ avail st' <= avail st /\
    match r with Some bytes => nlen bytes = n /\ avail st' + n <= avail st | None => True end.
Proof. exact lha_input_stream_read_total. Qed.

Theorem stream_skip_returns : forall st bytes, wf st ->
  bytes < 1099511627776 \/ nlen (so_data (is_src st)) < 1099511627776 ->
  exists ok st', lha_input_stream_skip st bytes = Ok (ok, st') /\ wf st' /\ avail st' <= avail st.
Proof. exact lha_input_stream_skip_total. Qed.

(* Iterating over ANY byte string presented as an archive, through any of the four
   stream kinds, any number of times, never faults. *)
Theorem archive_iteration_no_fault : forall mktime k data n,
  no_fault (iterate_next_file mktime n (lha_basic_reader_new (lha_input_stream_new (mk_source k data)))).
Proof. exact P_HeaderSafe.archive_iteration_no_fault. Qed.

Theorem archive_iteration_returns : forall mktime k data n, nlen data < EXT_LIMIT ->
  exists r, iterate_next_file mktime n (lha_basic_reader_new (lha_input_stream_new (mk_source k data))) = Ok r /\ wf_reader r.
Proof. exact P_HeaderSafe.archive_iteration_never_faults. Qed.

(* ---- the reader layer (lha_reader.c, macbinary.c, the decoders[] table) ----
   For EVERY byte string, stream kind, directory policy and call history inside the
   API protocol (a check or an extract only as the first decode operation of its
   entry, reads in any sizes, policy changes anywhere; any filesystem state and any
   explicit name for extract) no call reaches an invalid access: none of the sites
   1301-1314 (macbinary.c), 1401-1415 (lha_reader.c), 501 (lha_decoder.c) nor any
   decoder site (all fourteen decoders discharged: null, lz5, lzs, lh1, the six lh_new,
   pm1, pm2).  A call may run out of the
   model's fuel on endless input (OutOfFuel), it never faults. *)
Theorem reader_history_never_faults :
  forall mktime junk data k pol (l : list rop), rprotocol l = true ->
  forall site,
    run_ops mktime junk (lha_reader_set_dir_policy (lha_reader_new (lha_input_stream_new (mk_source k data))) pol) l
    <> Fault site.
Proof. exact (P_ReaderSafe.reader_history_never_faults_len P_Lh1.lh1_inv_len P_Lh1.lh1_read_total_len P_Lh1.lh1_init_ok_len). Qed.

(* the decoder input callback of the basic reader never returns more than asked, in
   every reader state (it is not byte-bounded in every state: a model stream may hold
   numbers >= 256, so the decoder theorems are used in their length-only forms) *)
Theorem decoder_callback_never_overfills : cb_len_bounded decoder_callback.
Proof. exact decoder_callback_len_bounded. Qed.

(* ---- the tool (src/main.c, extract.c, filter.c, list.c over the library) ----
   lha_main never reaches an invalid access, for ANY command line, archive bytes, standard
   input and initial filesystem.  The tool layer has no access of its own that could fail
   (file_full_path tests path and filename for NULL as the C does); it drives the reader
   inside the API protocol (one check or extract per entry), so the reader theorem applies.
   lt_ok localtime: the month number libc's localtime returns is 0..11 (ISO C) -- needed only
   by the list commands (months[tm_mon] in src/list.c); without it:
   lha_main_never_faults_no_clock for t, x, e, p and the help page. *)
Theorem lha_main_never_faults : ltac:(let t := type of P_CliNoFault.lha_main_never_faults in exact t).
Proof. exact P_CliNoFault.lha_main_never_faults. Qed.
Theorem lha_main_never_faults_no_clock : ltac:(let t := type of P_CliNoFault.lha_main_never_faults_no_clock in exact t).
Proof. exact P_CliNoFault.lha_main_never_faults_no_clock. Qed.
Theorem cli_run_never_faults : ltac:(let t := type of P_CliNoFault.cli_run_never_faults in exact t).
Proof. exact P_CliNoFault.cli_run_never_faults. Qed.

Print Assumptions header_parser_never_faults.
Print Assumptions header_parser_returns.
Print Assumptions sfx_scan_returns.
Print Assumptions stream_read_returns.
Print Assumptions stream_skip_returns.
Print Assumptions archive_iteration_no_fault.
Print Assumptions archive_iteration_returns.
Print Assumptions reader_history_never_faults.
Print Assumptions decoder_callback_never_overfills.
Print Assumptions lha_main_never_faults.
Print Assumptions lha_main_never_faults_no_clock.
Print Assumptions cli_run_never_faults.

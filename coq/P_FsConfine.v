(* P_FsConfine.v -- C10, the filesystem side of confinement (Fs.v / FsRun.v).

   R is the physical location of the extraction root (the current directory).
   [safe_at root R]: every symbolic link in the subtree at R has a SAFE target:
   relative and without a ".." component.  Then
     - resolving a relative path whose components -- all but possibly the last --
       are not ".." from a directory below R ends below R, whatever links it
       goes through (walk_confined / resolve_confined);
     - hence each operation of lha_arch_unix.c given such a path logs only
       operations whose physical location is below R, and keeps safe_at
       (creating a link keeps it when the new link's target is safe);
     - unlink / create / symlink never follow a link at the final component:
       the logged location is (where the walk of the other components ended) ++
       [the final component], whatever is there (final_component_not_followed). *)
From Lhasa Require Import Base Fs FsRun Reader P_CliOrder.
From Coq Require Import Lia.
Local Open Scope N_scope.

(* ------------------------------------------------------------------ *)
(* names, locations                                                     *)

Lemma name_eqb_refl a : name_eqb a a = true.
Proof. induction a as [|x a IH]; [reflexivity|]. cbn [name_eqb]. rewrite N.eqb_refl. exact IH. Qed.

Lemma name_eqb_eq a : forall b, name_eqb a b = true -> a = b.
Proof.
  induction a as [|x a IH]; intros [|y b] H; try reflexivity; try discriminate.
  cbn [name_eqb] in H. apply andb_prop in H. destruct H as [H1 H2].
  apply N.eqb_eq in H1. subst y. f_equal. apply IH. exact H2.
Qed.

Definition below (R loc : phys) : Prop := exists suf, loc = R ++ suf.

Lemma below_refl R : below R R.
Proof. exists []. rewrite app_nil_r. reflexivity. Qed.
Lemma below_snoc R loc c : below R loc -> below R (loc ++ [c]).
Proof. intros [suf ->]. exists (suf ++ [c]). rewrite app_assoc. reflexivity. Qed.

(* not the name ".." *)
Definition nodd (c : name) : Prop := name_eqb c dotdot = false.

Lemma nodd_ne c : c <> dotdot -> nodd c.
Proof.
  intros H. unfold nodd. destruct (name_eqb c dotdot) eqn:E; [|reflexivity].
  apply name_eqb_eq in E. contradiction.
Qed.

(* ------------------------------------------------------------------ *)
(* safe targets                                                         *)

(* the negation of is_dangerous_symlink (Reader.v) on the target: it does not start with '/'
   and has no ".." component *)
Definition safe_target (t : list N) : bool := negb (is_absolute t) && negb (has_dotdot t []).

Lemma dd_match_ne {T : Type} (cur : list N) (x y : T) :
  cur <> [46; 46] -> (match cur with [46; 46] => x | _ => y end) = y.
Proof.
  intros Hne. destruct cur as [|a [|b [|c d]]]; try reflexivity.
  - destruct a as [|p]; [reflexivity|]. repeat (destruct p as [p|p|]; try reflexivity).
  - destruct a as [|p]; [reflexivity|]. repeat (destruct p as [p|p|]; try reflexivity).
    destruct b as [|q]; [reflexivity|]. repeat (destruct q as [q|q|]; try reflexivity).
    exfalso. apply Hne. reflexivity.
  - destruct a as [|p]; [reflexivity|]. repeat (destruct p as [p|p|]; try reflexivity).
    destruct b as [|q]; [reflexivity|]. repeat (destruct q as [q|q|]; try reflexivity).
Qed.

Lemma has_dotdot_split l : forall cur, has_dotdot l cur = false -> Forall nodd (split_path_aux l (rev cur)).
Proof.
  induction l as [|c r IH]; intros cur H; cbn [has_dotdot split_path_aux] in *.
  - assert (Hc : cur <> [46; 46]) by (intros ->; discriminate).
    destruct (rev cur) eqn:E; [constructor|].
    rewrite <- E, rev_involutive. constructor; [apply nodd_ne; exact Hc|constructor].
  - destruct (c =? 47).
    + assert (Hc : cur <> [46; 46]) by (intros ->; discriminate).
      rewrite (dd_match_ne cur _ _ Hc) in H.
      specialize (IH [] H). cbn [rev] in IH.
      destruct (rev cur) eqn:E; [exact IH|].
      rewrite <- E, rev_involutive. constructor; [apply nodd_ne; exact Hc|exact IH].
    + specialize (IH (cur ++ [c]) H). rewrite rev_app_distr in IH. exact IH.
Qed.

Lemma safe_target_split t : safe_target t = true -> is_absolute t = false /\ Forall nodd (split_path t).
Proof.
  unfold safe_target. intros H. apply andb_prop in H. destruct H as [A B].
  apply Bool.negb_true_iff in A, B. split; [exact A|]. apply (has_dotdot_split t [] B).
Qed.

(* ------------------------------------------------------------------ *)
(* trees in which every link is safe                                    *)

Fixpoint safe_tree (n : node) : Prop :=
  match n with
  | Dir _ _ _ ents =>
    (fix go (l : list (name * node)) : Prop :=
       match l with [] => True | kv :: r => safe_tree (snd kv) /\ go r end) ents
  | File _ _ _ _ => True
  | Link t => safe_target t = true
  end.

Definition safe_ents (l : list (name * node)) : Prop := Forall (fun kv => safe_tree (snd kv)) l.

Lemma safe_tree_dir o p t ents : safe_tree (Dir o p t ents) <-> safe_ents ents.
Proof.
  cbn [safe_tree]. induction ents as [|kv r IH].
  - split; intros _; [constructor|exact I].
  - split.
    + intros [A B]. constructor; [exact A|]. apply IH. exact B.
    + intros H. inversion H as [|? ? A B]; subst. split; [exact A|]. apply IH. exact B.
Qed.

Lemma lookup_safe ents c m : safe_ents ents -> lookup ents c = Some m -> safe_tree m.
Proof.
  induction ents as [|[k v] r IH]; intros H E; [discriminate|].
  inversion H as [|? ? A B]; subst. cbn [lookup] in E. destruct (name_eqb k c).
  - injection E as <-. exact A.
  - apply IH; assumption.
Qed.

Lemma lookup_set_ent ents c v : lookup (set_ent ents c v) c = Some v.
Proof.
  unfold set_ent. destruct (lookup ents c) eqn:E.
  - induction ents as [|[k w] r IH]; [discriminate|]. cbn [lookup map fst] in *.
    destruct (name_eqb k c) eqn:Ek.
    + cbn [lookup]. rewrite name_eqb_refl. reflexivity.
    + cbn [lookup]. rewrite Ek. apply IH. exact E.
  - induction ents as [|[k w] r IH]; cbn [lookup app] in *.
    + rewrite name_eqb_refl. reflexivity.
    + destruct (name_eqb k c); [discriminate|]. apply IH. exact E.
Qed.

Lemma safe_set_ent ents c v : safe_ents ents -> safe_tree v -> safe_ents (set_ent ents c v).
Proof.
  intros H Hv. unfold set_ent. destruct (lookup ents c).
  - unfold safe_ents in *. rewrite Forall_map. eapply Forall_impl; [|exact H].
    intros [k w] Hw. cbn [fst snd] in *. destruct (name_eqb k c); [exact Hv|exact Hw].
  - apply Forall_app. split; [exact H|]. constructor; [exact Hv|constructor].
Qed.

Lemma safe_remove_ent ents c : safe_ents ents -> safe_ents (remove_ent ents c).
Proof.
  induction ents as [|[k w] r IH]; intros H; [constructor|].
  inversion H as [|? ? A B]; subst. cbn [remove_ent]. destruct (name_eqb k c); [exact B|].
  constructor; [exact A|apply IH; exact B].
Qed.

Lemma remove_ent_absent ents c : lookup ents c = None -> remove_ent ents c = ents.
Proof.
  induction ents as [|[k w] r IH]; intros H; [reflexivity|]. cbn [lookup remove_ent] in *.
  destruct (name_eqb k c); [discriminate|]. rewrite IH by exact H. reflexivity.
Qed.

(* a function on optional nodes that yields safe nodes from safe nodes *)
Definition fgood (f : option node -> option node) : Prop :=
  forall o y, (forall x, o = Some x -> safe_tree x) -> f o = Some y -> safe_tree y.
(* a function that neither deletes nor creates *)
Definition fkeeps (f : option node -> option node) : Prop :=
  (forall x, f (Some x) <> None) /\ f None = None.

Lemma update_at_safe f : fgood f -> forall loc n, safe_tree n -> safe_tree (update_at n loc f).
Proof.
  intros Hf. induction loc as [|c r IH]; intros n Hn.
  - cbn [update_at]. destruct (f (Some n)) as [m|] eqn:E; [|exact Hn].
    eapply Hf; [|exact E]. intros x Hx. injection Hx as <-. exact Hn.
  - destruct r as [|c' r'].
    + cbn [update_at]. destruct n as [o p t ents| |]; try exact Hn.
      apply safe_tree_dir in Hn.
      destruct (f (lookup ents c)) as [m|] eqn:E; apply safe_tree_dir.
      * apply safe_set_ent; [exact Hn|]. eapply Hf; [|exact E]. intros x Hx. eapply lookup_safe; eauto.
      * apply safe_remove_ent. exact Hn.
    + change (update_at n (c :: c' :: r') f) with
        (match n with
         | Dir o p t ents => match lookup ents c with
                             | Some m => Dir o p t (set_ent ents c (update_at m (c' :: r') f))
                             | None => n
                             end
         | _ => n
         end).
      destruct n as [o p t ents| |]; try exact Hn.
      destruct (lookup ents c) as [m|] eqn:E; [|exact Hn].
      apply safe_tree_dir in Hn. apply safe_tree_dir. apply safe_set_ent; [exact Hn|].
      apply IH. eapply lookup_safe; eauto.
Qed.

(* every link below R is safe *)
Fixpoint safe_at (n : node) (R : phys) : Prop :=
  match R with
  | [] => safe_tree n
  | c :: r => match n with
              | Dir _ _ _ ents => match lookup ents c with Some m => safe_at m r | None => True end
              | _ => True
              end
  end.

Lemma safe_at_node R : forall n nR, safe_at n R -> node_at n R = Some nR -> safe_tree nR.
Proof.
  induction R as [|c r IH]; intros n nR H E.
  - injection E as <-. exact H.
  - cbn [node_at safe_at] in *. destruct n as [o p t ents| |]; try discriminate.
    destruct (lookup ents c) as [m|]; [|discriminate]. eapply IH; eauto.
Qed.

Lemma node_at_app a : forall n b, node_at n (a ++ b) = match node_at n a with Some m => node_at m b | None => None end.
Proof.
  induction a as [|c r IH]; intros n b; [reflexivity|].
  cbn [app node_at]. destruct n as [o p t ents| |]; try reflexivity.
  destruct (lookup ents c); [apply IH|reflexivity].
Qed.

Lemma node_at_safe loc : forall n m, safe_tree n -> node_at n loc = Some m -> safe_tree m.
Proof.
  induction loc as [|c r IH]; intros n m H E.
  - injection E as <-. exact H.
  - cbn [node_at] in E. destruct n as [o p t ents| |]; try discriminate.
    destruct (lookup ents c) as [x|] eqn:El; [|discriminate].
    apply safe_tree_dir in H. eapply IH; [|exact E]. eapply lookup_safe; eauto.
Qed.

(* the node at a location below R is safe *)
Lemma safe_below root R suf m : safe_at root R -> node_at root (R ++ suf) = Some m -> safe_tree m.
Proof.
  intros H E. rewrite node_at_app in E. destruct (node_at root R) as [nR|] eqn:ER; [|discriminate].
  eapply node_at_safe; [|exact E]. eapply safe_at_node; eauto.
Qed.

(* an update below R keeps safe_at *)
Lemma update_at_safe_at f suf : fgood f -> (suf = [] -> fkeeps f) ->
  forall R n, safe_at n R -> safe_at (update_at n (R ++ suf) f) R.
Proof.
  intros Hf Hk. induction R as [|c r IH]; intros n Hn.
  - cbn [app safe_at] in *. apply update_at_safe; assumption.
  - cbn [app]. destruct (r ++ suf) as [|c' l'] eqn:El.
    + apply app_eq_nil in El. destruct El as [-> ->]. destruct (Hk eq_refl) as [K1 K2].
      cbn [update_at]. destruct n as [o p t ents| |]; try exact Hn.
      cbn [safe_at] in Hn. destruct (lookup ents c) as [m|] eqn:E.
      * destruct (f (Some m)) as [m'|] eqn:Ef; [|exfalso; eapply K1; eauto].
        cbn [safe_at]. rewrite lookup_set_ent. eapply Hf; [|exact Ef]. intros x Hx. injection Hx as <-. exact Hn.
      * rewrite K2. cbn [safe_at]. rewrite remove_ent_absent by exact E. rewrite E. exact I.
    + change (update_at n (c :: c' :: l') f) with
        (match n with
         | Dir o p t ents => match lookup ents c with
                             | Some m => Dir o p t (set_ent ents c (update_at m (c' :: l') f))
                             | None => n
                             end
         | _ => n
         end).
      destruct n as [o p t ents| |]; try exact Hn.
      destruct (lookup ents c) as [m|] eqn:E; [|exact Hn].
      cbn [safe_at] in *. rewrite E in Hn. rewrite lookup_set_ent. apply IH. exact Hn.
Qed.

(* ------------------------------------------------------------------ *)
(* path resolution                                                      *)

Lemma walk_nil links root uid0 cur fl md : walk links root uid0 cur [] fl md = WDir cur.
Proof. destruct links; reflexivity. Qed.

Lemma walk_cons links root uid0 cur c rest fl md :
  walk links root uid0 cur (c :: rest) fl md =
  let is_last := match rest with [] => true | _ => false end in
  match node_at root cur with
  | None => WFail true
  | Some (Dir _ _ _ ents as d) =>
    if negb (can_search uid0 d) then WFail false
    else if name_max <? nlen c then WFail false
    else if name_eqb c dot then walk links root uid0 cur rest fl md
    else if name_eqb c dotdot then walk links root uid0 (removelast cur) rest fl md
    else
      match lookup ents c with
      | None => if is_last then WOk cur c None else WFail true
      | Some (Dir _ _ _ _ as m) =>
        if is_last then WOk cur c (Some m) else walk links root uid0 (cur ++ [c]) rest fl md
      | Some (File _ _ _ _ as m) =>
        if is_last && negb md then WOk cur c (Some m) else WFail false
      | Some (Link tgt as m) =>
        if is_last && negb (fl || md) then WOk cur c (Some m)
        else
          match links with
          | O => WFail false
          | S links' =>
            walk links' root uid0 (if is_absolute tgt then [] else cur)
                 (split_path tgt ++ rest) fl (md || (is_last && trailing_slash tgt))
          end
      end
  | Some _ => WFail false
  end.
Proof. destruct links; reflexivity. Qed.

Lemma removelast_cons_ne {A} (c : A) rest : rest <> [] -> removelast (c :: rest) = c :: removelast rest.
Proof. destruct rest; [congruence|reflexivity]. Qed.

Lemma Forall_removelast_app {A} (P : A -> Prop) l1 l2 :
  Forall P l1 -> Forall P (removelast l2) -> Forall P (removelast (l1 ++ l2)).
Proof.
  intros H1 H2. destruct l2 as [|x l2'].
  - rewrite app_nil_r. clear H2. induction H1 as [|a l Ha Hl IH]; [constructor|].
    destruct l; [constructor|]. cbn [removelast] in *. constructor; [exact Ha|exact IH].
  - rewrite removelast_app by discriminate. apply Forall_app. split; assumption.
Qed.

(* the result of a walk that starts below R, in a tree whose links below R are safe *)
Definition confined (R : phys) (comps : list name) (w : walk_res) : Prop :=
  match w with
  | WOk parent _ _ => below R parent
  | WDir loc => Forall nodd comps -> below R loc
  | _ => True
  end.

Theorem walk_confined root uid0 R : safe_at root R ->
  forall links comps cur fl md, below R cur -> Forall nodd (removelast comps) ->
  confined R comps (walk links root uid0 cur comps fl md).
Proof.
  intros Hsafe. induction links as [|links IHl].
  all: induction comps as [|c rest IHc]; intros cur fl md Hcur Hcomps;
    [rewrite walk_nil; intros _; exact Hcur|].
  all: rewrite walk_cons; cbv zeta.
  all: destruct (node_at root cur) as [[o p t ents| |]|] eqn:En; try exact I.
  all: destruct (negb (can_search uid0 (Dir o p t ents))); [exact I|].
  all: destruct (name_max <? nlen c); [exact I|].
  all: assert (Hrest : Forall nodd (removelast rest))
         by (destruct rest as [|c2 r2]; [constructor|rewrite removelast_cons_ne in Hcomps by discriminate;
                                                    inversion Hcomps; assumption]).
  all: assert (Hall : forall w, confined R rest w -> confined R (c :: rest) w)
         by (intros [pp ll ff| |loc|e] Hw; try exact Hw; intros Hf; apply Hw; inversion Hf; assumption).
  all: destruct (name_eqb c dot); [apply Hall; apply IHc; assumption|].
  all: destruct (name_eqb c dotdot) eqn:Edd;
    [ destruct rest as [|c2 r2];
      [ rewrite walk_nil; intros Hf; inversion Hf as [|? ? Hc ?]; subst; unfold nodd in Hc; congruence
      | rewrite removelast_cons_ne in Hcomps by discriminate; inversion Hcomps as [|? ? Hc ?]; subst;
        unfold nodd in Hc; congruence ] |].
  all: destruct (lookup ents c) as [[o2 p2 t2 e2|o2 p2 t2 d2|tgt]|] eqn:El.
  (* directory *)
  1,5: destruct rest as [|c2 r2]; [exact Hcur|]; apply Hall; apply IHc; [apply below_snoc; exact Hcur|exact Hrest].
  (* file *)
  1,4: destruct (match rest with [] => true | _ => false end && negb md); [exact Hcur|exact I].
  (* nothing *)
  2,4: destruct rest; [exact Hcur|exact I].
  (* link *)
  all: destruct (match rest with [] => true | _ => false end && negb (fl || md)); [exact Hcur|].
  - exact I.
  - assert (Ht : safe_target tgt = true).
    { destruct Hcur as [suf ->]. pose proof (safe_below root R suf _ Hsafe En) as Hd.
      apply safe_tree_dir in Hd. exact (lookup_safe _ _ _ Hd El). }
    apply safe_target_split in Ht. destruct Ht as [Habs Hsp]. rewrite Habs.
    pose proof (IHl (split_path tgt ++ rest) cur fl
                    (md || (match rest with [] => true | _ => false end && trailing_slash tgt)) Hcur
                    (Forall_removelast_app _ _ _ Hsp Hrest)) as Hw.
    destruct (walk links root uid0 cur (split_path tgt ++ rest) fl _) as [pp ll ff| |loc|e]; try exact Hw.
    intros Hf. apply Hw. apply Forall_app. split; [exact Hsp|]. inversion Hf; assumption.
Qed.

(* ------------------------------------------------------------------ *)
(* the final component is never followed by a no-follow resolution      *)

Lemma last_cons_ne {A} (c : A) rest d : rest <> [] -> last (c :: rest) d = last rest d.
Proof. destruct rest; [congruence|reflexivity]. Qed.

Lemma last_app_ne {A} (l1 l2 : list A) d : l2 <> [] -> last (l1 ++ l2) d = last l2 d.
Proof.
  intros H. induction l1 as [|a l1 IH]; [reflexivity|].
  cbn [app]. rewrite last_cons_ne; [exact IH|]. destruct l1; [exact H|discriminate].
Qed.

(* follow_last = false, no trailing slash: the name in the result is the path's own final
   component, it is not "..", and what is reported as found there is the directory entry
   itself -- a symbolic link is reported, not followed, wherever it points *)
Theorem walk_nofollow_last root uid0 : forall links comps cur parent lst found,
  walk links root uid0 cur comps false false = WOk parent lst found ->
  lst = last comps [] /\ nodd lst /\
  exists o p t ents, node_at root parent = Some (Dir o p t ents) /\ lookup ents lst = found.
Proof.
  induction links as [|links IHl].
  all: induction comps as [|c rest IHc]; intros cur parent lst found H;
    [rewrite walk_nil in H; discriminate|].
  all: rewrite walk_cons in H; cbv zeta in H.
  all: destruct (node_at root cur) as [[o p t ents| |]|] eqn:En; try discriminate.
  all: destruct (negb (can_search uid0 (Dir o p t ents))); [discriminate|].
  all: destruct (name_max <? nlen c); [discriminate|].
  all: assert (Hrec : forall cur', walk _ root uid0 cur' rest false false = WOk parent lst found ->
                      lst = last (c :: rest) [] /\ nodd lst /\
                      exists o p t ents, node_at root parent = Some (Dir o p t ents) /\ lookup ents lst = found)
         by (intros cur' Hw; destruct rest as [|c2 r2]; [rewrite walk_nil in Hw; discriminate|];
             rewrite last_cons_ne by discriminate; eapply IHc; exact Hw).
  all: destruct (name_eqb c dot); [eapply Hrec; exact H|].
  all: destruct (name_eqb c dotdot) eqn:Edd; [eapply Hrec; exact H|].
  all: assert (Hhere : forall f, lookup ents c = f -> rest = [] ->
                       c = last (c :: rest) [] /\ nodd c /\
                       exists o p t ents, node_at root cur = Some (Dir o p t ents) /\ lookup ents c = f)
         by (intros f Hf ->; split; [reflexivity|]; split; [exact Edd|]; exists o, p, t, ents; split; [exact En|exact Hf]).
  all: destruct (lookup ents c) as [[o2 p2 t2 e2|o2 p2 t2 d2|tgt]|] eqn:El.
  1,5: destruct rest as [|c2 r2]; [injection H as <- <- <-; apply Hhere; reflexivity|eapply Hrec; exact H].
  1,4: destruct rest as [|c2 r2]; [injection H as <- <- <-; apply Hhere; reflexivity|discriminate].
  2,4: destruct rest as [|c2 r2]; [injection H as <- <- <-; apply Hhere; reflexivity|discriminate].
  all: destruct rest as [|c2 r2]; [injection H as <- <- <-; apply Hhere; reflexivity|].
  - discriminate.
  - cbn [andb orb negb] in H. apply IHl in H. destruct H as (A & B & C).
    rewrite last_app_ne in A by discriminate. rewrite last_cons_ne by discriminate.
    split; [exact A|]. split; [exact B|exact C].
Qed.

(* ------------------------------------------------------------------ *)
(* the operations                                                       *)

Definition op_loc (o : fsop) : phys :=
  match o with
  | OpMkdir l _ | OpCreate l | OpUnlink l | OpSymlink l _ | OpChmod l _ | OpChown l | OpUtime l _ | OpWrite l _ => l
  end.
Definition below_op (R : phys) (o : fsop) : Prop := below R (op_loc o).

(* the process is in R and every link below R is safe *)
Definition fs_ok (R : phys) (s : fs) : Prop := fs_cwd s = R /\ safe_at (fs_root s) R.

(* paths: relative, no component but possibly the last is ".." / no component at all is *)
Definition rel_path (p : list N) : Prop := is_absolute p = false /\ Forall nodd (removelast (split_path p)).
Definition strict_path (p : list N) : Prop := is_absolute p = false /\ Forall nodd (split_path p).

Lemma strict_rel p : strict_path p -> rel_path p.
Proof.
  intros [A B]. split; [exact A|]. destruct (split_path p) as [|x l] eqn:E; [constructor|].
  rewrite (app_removelast_last x (l := x :: l)) in B by discriminate. apply Forall_app in B. apply B.
Qed.

Lemma resolve_confined R s p fl md : fs_ok R s -> rel_path p ->
  confined R (split_path p) (resolve_gen s p fl md).
Proof.
  intros [Hc Hs] [Ha Hp]. unfold resolve_gen. destruct p as [|x p']; [exact I|].
  destruct (path_max <? nlen (x :: p')); [exact I|]. rewrite Ha, Hc.
  apply walk_confined; [exact Hs|apply below_refl|exact Hp].
Qed.

(* a successful no-follow resolution: the path has no ".." component at all *)
Lemma resolve_nofollow_strict s p parent lst found :
  rel_path p -> resolve_gen s p false false = WOk parent lst found -> strict_path p.
Proof.
  intros [Ha Hp] H. split; [exact Ha|]. unfold resolve_gen in H. destruct p as [|x p']; [discriminate|].
  destruct (path_max <? nlen (x :: p')); [discriminate|].
  destruct (split_path (x :: p')) as [|c l] eqn:E; [rewrite walk_nil in H; discriminate|].
  apply walk_nofollow_last in H. destruct H as (A & B & _).
  rewrite (app_removelast_last [] (l := c :: l)) by discriminate.
  apply Forall_app. split; [exact Hp|]. constructor; [rewrite <- A; exact B|constructor].
Qed.

Lemma fs_ok_log R s o root' : fs_ok R s -> safe_at root' R -> fs_ok R (log s o root').
Proof. intros [A _] H. split; [exact A|exact H]. Qed.

Definition touchf (o : option node) : option node :=
  match o with Some (Dir own p _ e) => Some (Dir own p now e) | x => x end.

Lemma touch_dir_eq root loc : touch_dir root loc = update_at root loc touchf.
Proof. reflexivity. Qed.

Lemma fgood_touchf : fgood touchf.
Proof.
  intros o y Ho E. destruct o as [[own p t e| |]|]; cbn [touchf] in E; try discriminate; injection E as <-.
  - apply safe_tree_dir. eapply safe_tree_dir. apply Ho. reflexivity.
  - apply Ho. reflexivity.
  - apply Ho. reflexivity.
Qed.

Lemma fkeeps_touchf : fkeeps touchf.
Proof. split; [intros [own p t e| |]; discriminate|reflexivity]. Qed.

Lemma set_entry_safe R s parent lst n :
  safe_at (fs_root s) R -> below R parent -> (forall x, n = Some x -> safe_tree x) ->
  safe_at (set_entry s parent lst n) R.
Proof.
  intros Hs [suf ->] Hn. unfold set_entry. rewrite touch_dir_eq.
  apply update_at_safe_at; [exact fgood_touchf|intros _; exact fkeeps_touchf|].
  rewrite <- app_assoc. apply update_at_safe_at.
  - intros o y _ E. apply Hn. exact E.
  - intros E. apply app_eq_nil in E. destruct E as [_ E]. discriminate.
  - exact Hs.
Qed.

(* mkdir *)
Lemma fs_mkdir_conf R s p m : fs_ok R s -> rel_path p ->
  fs_ok R (snd (fs_mkdir s p m)) /\ kinds (below_op R) s (snd (fs_mkdir s p m)) /\
  (fst (fs_mkdir s p m) = true -> strict_path p).
Proof.
  intros Hok Hp. pose proof (resolve_confined R s p false false Hok Hp) as Hc.
  pose proof (resolve_nofollow_strict s p) as Hstrict.
  unfold fs_mkdir. destruct (resolve_gen s p false false) as [parent lst [n|]| | |]; cbn [fst snd];
    try (split; [exact Hok|split; [apply kinds_refl|discriminate]]).
  cbn [confined] in Hc.
  destruct (node_at (fs_root s) parent) as [[o pp t e| |]|]; cbn [fst snd];
    try (split; [exact Hok|split; [apply kinds_refl|discriminate]]).
  destruct (can_write_dir (fs_uid0 s) (Dir o pp t e)); cbn [fst snd];
    try (split; [exact Hok|split; [apply kinds_refl|discriminate]]).
  split; [|split].
  - apply fs_ok_log; [exact Hok|]. apply set_entry_safe; [apply Hok|exact Hc|].
    intros x Hx. injection Hx as <-. exact I.
  - apply kinds_log. apply below_snoc. exact Hc.
  - intros _. eapply Hstrict; [exact Hp|reflexivity].
Qed.

(* unlink *)
Lemma fs_unlink_conf R s p : fs_ok R s -> rel_path p ->
  fs_ok R (snd (fs_unlink s p)) /\ kinds (below_op R) s (snd (fs_unlink s p)).
Proof.
  intros Hok Hp. pose proof (resolve_confined R s p false (trailing_slash p) Hok Hp) as Hc.
  unfold fs_unlink. destruct (trailing_slash p) eqn:Ets; [split; [exact Hok|apply kinds_refl]|].
  unfold resolve. rewrite Ets in *.
  destruct (resolve_gen s p false false) as [parent lst [n|]| | |]; cbn [fst snd];
    try (split; [exact Hok|apply kinds_refl]).
  cbn [confined] in Hc.
  assert (G : forall victim, fs_ok R (snd (match node_at (fs_root s) parent with
                | Some d => if can_delete (fs_uid0 s) d victim
                            then (true, log s (OpUnlink (parent ++ [lst])) (set_entry s parent lst None))
                            else (false, s)
                | None => (false, s) end)) /\
              kinds (below_op R) s (snd (match node_at (fs_root s) parent with
                | Some d => if can_delete (fs_uid0 s) d victim
                            then (true, log s (OpUnlink (parent ++ [lst])) (set_entry s parent lst None))
                            else (false, s)
                | None => (false, s) end))).
  { intros victim. destruct (node_at (fs_root s) parent) as [d|]; [|split; [exact Hok|apply kinds_refl]].
    destruct (can_delete (fs_uid0 s) d victim); [|split; [exact Hok|apply kinds_refl]].
    cbn [snd]. split.
    - apply fs_ok_log; [exact Hok|]. apply set_entry_safe; [apply Hok|exact Hc|]. intros x Hx. discriminate.
    - apply kinds_log. apply below_snoc. exact Hc. }
  destruct n as [o pp t e|o pp t d|tgt]; [split; [exact Hok|apply kinds_refl]|apply G|apply G].
Qed.

(* open(O_CREAT|O_EXCL) *)
Lemma fs_create_excl_conf R s p m : fs_ok R s -> rel_path p ->
  fs_ok R (snd (fs_create_excl s p m)) /\ kinds (below_op R) s (snd (fs_create_excl s p m)) /\
  (forall h, fst (fs_create_excl s p m) = Some h -> below R h /\ strict_path p).
Proof.
  intros Hok Hp. pose proof (resolve_confined R s p false (trailing_slash p) Hok Hp) as Hc.
  pose proof (resolve_nofollow_strict s p) as Hstrict.
  unfold fs_create_excl. destruct (trailing_slash p) eqn:Ets;
    [split; [exact Hok|split; [apply kinds_refl|discriminate]]|].
  unfold resolve. rewrite Ets in *.
  destruct (resolve_gen s p false false) as [parent lst [n|]| | |]; cbn [fst snd];
    try (split; [exact Hok|split; [apply kinds_refl|discriminate]]).
  cbn [confined] in Hc.
  destruct (parent_writable s parent); cbn [fst snd];
    try (split; [exact Hok|split; [apply kinds_refl|discriminate]]).
  split; [|split].
  - apply fs_ok_log; [exact Hok|]. apply set_entry_safe; [apply Hok|exact Hc|].
    intros x Hx. injection Hx as <-. exact I.
  - apply kinds_log. apply below_snoc. exact Hc.
  - intros h Hh. injection Hh as <-. split; [apply below_snoc; exact Hc|].
    eapply Hstrict; [exact Hp|reflexivity].
Qed.

(* symlink: the new link is below R whatever its target; the tree stays safe if the target is *)
Lemma fs_symlink_conf R s t p : fs_ok R s -> rel_path p ->
  kinds (below_op R) s (snd (fs_symlink s t p)) /\
  (safe_target t = true -> fs_ok R (snd (fs_symlink s t p))).
Proof.
  intros Hok Hp. pose proof (resolve_confined R s p false (trailing_slash p) Hok Hp) as Hc.
  unfold fs_symlink. destruct (trailing_slash p) eqn:Ets; [split; [apply kinds_refl|intros _; exact Hok]|].
  destruct t as [|t0 t']; [split; [apply kinds_refl|intros _; exact Hok]|].
  destruct (path_max <? nlen (t0 :: t')); [split; [apply kinds_refl|intros _; exact Hok]|].
  unfold resolve. rewrite Ets in *.
  destruct (resolve_gen s p false false) as [parent lst [n|]| | |]; cbn [fst snd];
    try (split; [apply kinds_refl|intros _; exact Hok]).
  cbn [confined] in Hc.
  destruct (parent_writable s parent); cbn [fst snd]; try (split; [apply kinds_refl|intros _; exact Hok]).
  split.
  - apply kinds_log. apply below_snoc. exact Hc.
  - intros Ht. apply fs_ok_log; [exact Hok|]. apply set_entry_safe; [apply Hok|exact Hc|].
    intros x Hx. injection Hx as <-. exact Ht.
Qed.

(* operations on a handle below R *)
Definition keeps_kind (f : option node -> option node) : Prop :=
  fkeeps f /\ forall x y, f (Some x) = Some y ->
     match x, y with
     | Dir _ _ _ e, Dir _ _ _ e' => e' = e
     | File _ _ _ _, File _ _ _ _ => True
     | Link t, Link t' => t' = t
     | _, _ => False
     end.

Lemma keeps_kind_good f : keeps_kind f -> fgood f /\ fkeeps f.
Proof.
  intros [K1 K2]. split; [|exact K1]. intros o y Ho E. destruct o as [x|].
  - specialize (K2 x y E). specialize (Ho x eq_refl).
    destruct x as [o1 p1 t1 e1|o1 p1 t1 d1|t1], y as [o2 p2 t2 e2|o2 p2 t2 d2|t2]; try contradiction.
    + subst e2. apply safe_tree_dir. eapply safe_tree_dir. exact Ho.
    + exact I.
    + subst t2. exact Ho.
  - destruct K1 as [_ K1]. rewrite K1 in E. discriminate.
Qed.

Lemma update_below_safe R root loc f : safe_at root R -> below R loc -> keeps_kind f ->
  safe_at (update_at root loc f) R.
Proof.
  intros Hs [suf ->] Hk. apply keeps_kind_good in Hk. destruct Hk as [A B].
  apply update_at_safe_at; [exact A|intros _; exact B|exact Hs].
Qed.

Ltac kk := split; [split; [intros [? ? ? ?|? ? ? ?|?]; discriminate|reflexivity]|
                   intros [? ? ? ?|? ? ? ?|?] y E; cbn in E; injection E as <-; auto].

Lemma fs_fchmod_conf R s h m : fs_ok R s -> below R h ->
  fs_ok R (snd (fs_fchmod s h m)) /\ kinds (below_op R) s (snd (fs_fchmod s h m)).
Proof.
  intros Hok Hh. unfold fs_fchmod. cbn [snd]. split.
  - apply fs_ok_log; [exact Hok|]. apply update_below_safe; [apply Hok|exact Hh|]. kk.
  - apply kinds_log. exact Hh.
Qed.

Lemma fs_write_conf R s h b : fs_ok R s -> below R h ->
  fs_ok R (fs_write s h b) /\ kinds (below_op R) s (fs_write s h b).
Proof.
  intros Hok Hh. unfold fs_write. split.
  - apply fs_ok_log; [exact Hok|]. apply update_below_safe; [apply Hok|exact Hh|]. kk.
  - apply kinds_log. exact Hh.
Qed.

(* chmod / chown / utime by path (they follow links): no ".." component at all *)
Lemma with_target_conf R s p (k : phys -> node -> bool * fs) : fs_ok R s -> strict_path p ->
  (forall loc n, below R loc -> fs_ok R (snd (k loc n)) /\ kinds (below_op R) s (snd (k loc n))) ->
  fs_ok R (snd (with_target s p k)) /\ kinds (below_op R) s (snd (with_target s p k)).
Proof.
  intros Hok Hp Hk. pose proof (resolve_confined R s p true (trailing_slash p) Hok (strict_rel p Hp)) as Hc.
  unfold with_target, resolve.
  destruct (resolve_gen s p true (trailing_slash p)) as [parent lst [n|]| |loc|e]; cbn [snd confined] in *;
    try (split; [exact Hok|apply kinds_refl]).
  - apply Hk. apply below_snoc. exact Hc.
  - destruct (node_at (fs_root s) loc) as [n|]; [|split; [exact Hok|apply kinds_refl]].
    apply Hk. apply Hc. apply Hp.
Qed.

Lemma fs_chmod_conf R s p m : fs_ok R s -> strict_path p ->
  fs_ok R (snd (fs_chmod s p m)) /\ kinds (below_op R) s (snd (fs_chmod s p m)).
Proof.
  intros Hok Hp. unfold fs_chmod. apply with_target_conf; [exact Hok|exact Hp|].
  intros loc n Hl. destruct (owned s n); [|split; [exact Hok|apply kinds_refl]]. cbn [snd]. split.
  - apply fs_ok_log; [exact Hok|]. apply update_below_safe; [apply Hok|exact Hl|]. kk.
  - apply kinds_log. exact Hl.
Qed.

Lemma fs_chown_conf R s p : fs_ok R s -> strict_path p ->
  fs_ok R (snd (fs_chown s p)) /\ kinds (below_op R) s (snd (fs_chown s p)).
Proof.
  intros Hok Hp. unfold fs_chown. apply with_target_conf; [exact Hok|exact Hp|].
  intros loc n Hl. destruct (fs_uid0 s); [|split; [exact Hok|apply kinds_refl]]. cbn [snd]. split.
  - apply fs_ok_log; [exact Hok|]. apply update_below_safe; [apply Hok|exact Hl|]. kk.
  - apply kinds_log. exact Hl.
Qed.

Lemma fs_utime_conf R s p t : fs_ok R s -> strict_path p ->
  fs_ok R (snd (fs_utime s p t)) /\ kinds (below_op R) s (snd (fs_utime s p t)).
Proof.
  intros Hok Hp. unfold fs_utime. apply with_target_conf; [exact Hok|exact Hp|].
  intros loc n Hl. destruct (owned s n); [|split; [exact Hok|apply kinds_refl]]. cbn [snd]. split.
  - apply fs_ok_log; [exact Hok|]. apply update_below_safe; [apply Hok|exact Hl|]. kk.
  - apply kinds_log. exact Hl.
Qed.

(* ---- lha_arch_unix.c ---- *)
Lemma arch_mkdir_conf R s p m : fs_ok R s -> rel_path p ->
  fs_ok R (snd (arch_mkdir s p m)) /\ kinds (below_op R) s (snd (arch_mkdir s p m)) /\
  (fst (arch_mkdir s p m) = true -> strict_path p).
Proof. apply fs_mkdir_conf. Qed.

Lemma arch_fopen_conf R s p perms : fs_ok R s -> rel_path p ->
  fs_ok R (snd (arch_fopen s p perms)) /\ kinds (below_op R) s (snd (arch_fopen s p perms)) /\
  (forall h, fst (arch_fopen s p perms) = Some h -> below R h /\ strict_path p).
Proof.
  intros Hok Hp. unfold arch_fopen.
  destruct (fs_unlink_conf R s p Hok Hp) as [O1 K1]. destruct (fs_unlink s p) as [b s1]. cbn [snd] in O1, K1.
  destruct (fs_create_excl_conf R s1 p 384 O1 Hp) as (O2 & K2 & H2).
  destruct (fs_create_excl s1 p 384) as [[h|] s2]; cbn [fst snd] in O2, K2, H2.
  - destruct (H2 h eq_refl) as [Hh Hs]. destruct perms as [m|]; cbn [fst snd].
    + destruct (fs_fchmod_conf R s2 h m O2 Hh) as [O3 K3]. unfold fs_fchmod in *. cbn [fst snd] in *.
      split; [exact O3|]. split; [eapply kinds_trans; [exact K1|eapply kinds_trans; [exact K2|exact K3]]|].
      intros h' E. injection E as <-. split; assumption.
    + split; [exact O2|]. split; [eapply kinds_trans; eassumption|].
      intros h' E. injection E as <-. split; assumption.
  - cbn [fst snd]. split; [exact O2|]. split; [eapply kinds_trans; eassumption|discriminate].
Qed.

Lemma arch_symlink_conf R s p t : fs_ok R s -> rel_path p ->
  kinds (below_op R) s (snd (arch_symlink s p t)) /\
  (safe_target t = true -> fs_ok R (snd (arch_symlink s p t))).
Proof.
  intros Hok Hp. unfold arch_symlink.
  destruct (fs_unlink_conf R s p Hok Hp) as [O1 K1]. destruct (fs_unlink s p) as [b s1]. cbn [snd] in O1, K1.
  destruct (fs_symlink_conf R s1 t p O1 Hp) as [K2 O2].
  split; [eapply kinds_trans; eassumption|exact O2].
Qed.

(* "replaced, never followed": unlink and symlink/create at a path whose final component is
   an existing symbolic link act on that link's own directory entry; where it points is
   irrelevant.  (resolve _ _ false with no trailing slash.) *)
Theorem final_component_not_followed s p parent lst found :
  trailing_slash p = false -> resolve s p false = WOk parent lst found ->
  lst = last (split_path p) [] /\ nodd lst /\
  exists o pm t ents, node_at (fs_root s) parent = Some (Dir o pm t ents) /\ lookup ents lst = found.
Proof.
  unfold resolve, resolve_gen. intros -> H. destruct p as [|x p']; [discriminate|].
  destruct (path_max <? nlen (x :: p')); [discriminate|].
  eapply walk_nofollow_last. exact H.
Qed.

Print Assumptions walk_confined.
Print Assumptions final_component_not_followed.
Print Assumptions arch_fopen_conf.
Print Assumptions arch_symlink_conf.
Print Assumptions arch_mkdir_conf.
Print Assumptions fs_utime_conf.
Print Assumptions fs_chmod_conf.
Print Assumptions fs_chown_conf.

(* Base.v -- outcome monad, checked arrays, small helpers.
   Definitions and their characterising lemmas only; no property proofs. *)
From Coq Require Export NArith ZArith List Bool Lia.
From Coq Require Import FMapPositive ZifyBool ZifyN ZifyNat.
Export ListNotations.
Local Open Scope N_scope.

(* ------------------------------------------------------------------ *)
(* Outcomes: the C call returned normally / touched invalid memory /   *)
(* ran longer than its stated bound.                                   *)

Inductive outcome (A : Type) : Type :=
| Ok (a : A)
| Fault (site : N)
| OutOfFuel.
Arguments Ok {A} a.
Arguments Fault {A} site.
Arguments OutOfFuel {A}.

Definition bind {A B} (m : outcome A) (f : A -> outcome B) : outcome B :=
  match m with
  | Ok a => f a
  | Fault s => Fault s
  | OutOfFuel => OutOfFuel
  end.

Notation "x <- m ;; k" := (bind m (fun x => k))
  (at level 61, m at next level, right associativity).
Notation "' p <- m ;; k" := (bind m (fun p => k))
  (at level 61, p pattern, m at next level, right associativity).

Definition is_ok {A} (m : outcome A) : bool :=
  match m with Ok _ => true | _ => false end.
Definition is_fault {A} (m : outcome A) : bool :=
  match m with Fault _ => true | _ => false end.
Definition no_fault {A} (m : outcome A) : Prop :=
  forall s, m <> Fault s.

Lemma bind_ok {A B} (m : outcome A) (f : A -> outcome B) b :
  bind m f = Ok b -> exists a, m = Ok a /\ f a = Ok b.
Proof. destruct m; simpl; intros H; try discriminate. eauto. Qed.

(* ------------------------------------------------------------------ *)
(* Arrays of a fixed length with a default value, backed by a          *)
(* positive-indexed trie.  Every access from data goes through the     *)
(* checked rd / wr.                                                    *)

Record arr : Type := { alen : N; adef : N; amap : PositiveMap.t N }.

Definition mk_arr (len def : N) : arr :=
  {| alen := len; adef := def; amap := PositiveMap.empty N |}.

Definition aget (a : arr) (i : N) : N :=
  match PositiveMap.find (N.succ_pos i) (amap a) with
  | Some v => v
  | None => adef a
  end.

Definition aset (a : arr) (i v : N) : arr :=
  {| alen := alen a; adef := adef a;
     amap := PositiveMap.add (N.succ_pos i) v (amap a) |}.

Definition rd (site : N) (a : arr) (i : N) : outcome N :=
  if i <? alen a then Ok (aget a i) else Fault site.

Definition wr (site : N) (a : arr) (i v : N) : outcome arr :=
  if i <? alen a then Ok (aset a i v) else Fault site.

Lemma succ_pos_inj i j : N.succ_pos i = N.succ_pos j -> i = j.
Proof.
  intros H. apply (f_equal Npos) in H. rewrite !N.succ_pos_spec in H. lia.
Qed.

Lemma aget_aset_eq a i v : aget (aset a i v) i = v.
Proof. unfold aget, aset; simpl. now rewrite PositiveMap.gss. Qed.

Lemma aget_aset_ne a i j v : i <> j -> aget (aset a i v) j = aget a j.
Proof.
  intros H. unfold aget, aset; simpl. rewrite PositiveMap.gso; auto.
  intros E. apply succ_pos_inj in E. congruence.
Qed.

Lemma aget_aset a i j v :
  aget (aset a i v) j = if N.eqb i j then v else aget a j.
Proof.
  destruct (N.eqb_spec i j) as [->|H]; [apply aget_aset_eq|now apply aget_aset_ne].
Qed.

Lemma alen_aset a i v : alen (aset a i v) = alen a.
Proof. reflexivity. Qed.

Lemma aget_mk len def i : aget (mk_arr len def) i = def.
Proof. unfold aget, mk_arr; simpl. now rewrite PositiveMap.gempty. Qed.

Lemma rd_ok site a i : i < alen a -> rd site a i = Ok (aget a i).
Proof. intros H. unfold rd. destruct (N.ltb_spec i (alen a)); [reflexivity|lia]. Qed.

Lemma wr_ok site a i v : i < alen a -> wr site a i v = Ok (aset a i v).
Proof. intros H. unfold wr. destruct (N.ltb_spec i (alen a)); [reflexivity|lia]. Qed.

Lemma rd_inv site a i v : rd site a i = Ok v -> i < alen a /\ v = aget a i.
Proof.
  unfold rd. destruct (N.ltb_spec i (alen a)); intros E; inversion E. auto.
Qed.

Lemma wr_inv site a i v a' : wr site a i v = Ok a' -> i < alen a /\ a' = aset a i v.
Proof.
  unfold wr. destruct (N.ltb_spec i (alen a)); intros E; inversion E. auto.
Qed.

(* Array contents as a list (for printing and for abstraction functions). *)
Fixpoint aslice_from (a : arr) (i : N) (n : nat) : list N :=
  match n with
  | O => []
  | S k => aget a i :: aslice_from a (i + 1) k
  end.
Definition alist (a : arr) : list N := aslice_from a 0 (N.to_nat (alen a)).

(* Initialise an array from a list. *)
Fixpoint aset_list (a : arr) (i : N) (l : list N) : arr :=
  match l with
  | [] => a
  | x :: r => aset_list (aset a i x) (i + 1) r
  end.
Definition arr_of_list (def : N) (l : list N) : arr :=
  aset_list (mk_arr (N.of_nat (length l)) def) 0 l.

(* ------------------------------------------------------------------ *)
(* Small helpers                                                       *)

Definition nlen {A} (l : list A) : N := N.of_nat (length l).

Definition nth_N {A} (l : list A) (i : N) : option A := nth_error l (N.to_nat i).

(* firstn / skipn with a binary count (no unary conversion of the count, so
   asking for 2^20 bytes of a 17-byte list costs 17 steps) *)
Fixpoint firstn_N {A} (n : N) (l : list A) : list A :=
  match l with
  | [] => []
  | x :: r => if n =? 0 then [] else x :: firstn_N (N.pred n) r
  end.
Fixpoint skipn_N {A} (n : N) (l : list A) : list A :=
  match l with
  | [] => []
  | x :: r => if n =? 0 then l else skipn_N (N.pred n) r
  end.

Definition sum_N (l : list N) : N := fold_left N.add l 0.

(* fixed-width wrap-around *)
Definition u8 (x : N) : N := N.land x 255.
Definition u16 (x : N) : N := N.land x 65535.
Definition u32 (x : N) : N := N.land x 4294967295.

Lemma nlen_app {A} (a b : list A) : nlen (a ++ b) = nlen a + nlen b.
Proof. unfold nlen. rewrite app_length. lia. Qed.

Lemma nlen_cons {A} (x : A) l : nlen (x :: l) = nlen l + 1.
Proof. unfold nlen. simpl. lia. Qed.

Lemma nlen_nil {A} : nlen (@nil A) = 0.
Proof. reflexivity. Qed.

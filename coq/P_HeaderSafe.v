(* P_HeaderSafe.v -- the input stream, the header parser and the basic reader
   never fault on any input and always return (part of C08 and C13).

   Outcomes are described by [okp S P m]: m is [Ok a] with [P a], never
   [Fault _], and [OutOfFuel] only when the proposition S holds.  With
   S := False this is totality; for any S it implies [no_fault]. *)
From Lhasa Require Import Base ListN Loop Generated Crc16 InputStream Header BasicReader.
From Coq Require Import ZifyBool ZifyN ZifyNat.
Local Open Scope N_scope.

(* ------------------------------------------------------------------ *)
(* Outcome predicate                                                   *)

Definition okp {A} (S : Prop) (P : A -> Prop) (m : outcome A) : Prop :=
  match m with Ok a => P a | Fault _ => False | OutOfFuel => S end.

Lemma okp_bind {A B} (S : Prop) (P : A -> Prop) (Q : B -> Prop) m (f : A -> outcome B) :
  okp S P m -> (forall a, P a -> okp S Q (f a)) -> okp S Q (bind m f).
Proof. destruct m; cbn; auto. Qed.

Lemma okp_weaken {A} (S S' : Prop) (P P' : A -> Prop) m :
  okp S P m -> (S -> S') -> (forall a, P a -> P' a) -> okp S' P' m.
Proof. destruct m; cbn; auto. Qed.

Lemma okp_total {A} (P : A -> Prop) m : okp False P m -> exists a, m = Ok a /\ P a.
Proof. destruct m; cbn; intros H; try contradiction. eauto. Qed.

Lemma okp_of_eq {A} (S : Prop) (P : A -> Prop) m a : m = Ok a -> P a -> okp S P m.
Proof. intros -> H. exact H. Qed.

Lemma okp_no_fault {A} (S : Prop) (P : A -> Prop) m : okp S P m -> no_fault m.
Proof. intros H s E. rewrite E in H. exact H. Qed.

Lemma okp_decide {A} (S : Prop) (P : A -> Prop) m : okp S P m -> ~ S -> exists a, m = Ok a /\ P a.
Proof. destruct m; cbn; intros H N; try contradiction. eauto. Qed.

(* ------------------------------------------------------------------ *)
(* Loops: invariant + measure, with the fuel bound as the OutOfFuel     *)
(* condition.                                                          *)

Section LoopRes.
  Context {St R : Type}.
  Variable step : St -> outcome (St + R).
  Variable I : St -> Prop.
  Variable Q : R -> Prop.
  Variable m : St -> N.
  Hypothesis Hstep : forall s, I s ->
    okp False (fun x => match x with inl s' => I s' /\ m s' < m s | inr r => Q r end) (step s).

  Lemma step_ex s : I s -> exists x, step s = Ok x /\
        match x with inl s' => I s' /\ m s' < m s | inr r => Q r end.
  Proof. intros Hi. apply okp_total. apply Hstep. exact Hi. Qed.

  Lemma loops_inv n s r : loops step n s r -> I s -> Q r.
  Proof.
    intros L. induction L as [s r E0|n s s' r E0 L IH]; intros Hi.
    - destruct (step_ex s Hi) as [x [E Hx]]. rewrite E in E0. inversion E0; subst. exact Hx.
    - destruct (step_ex s Hi) as [x [E Hx]]. rewrite E in E0. inversion E0; subst. apply IH. apply Hx.
  Qed.

  Lemma loop_res k s : I s -> okp (2 ^ N.of_nat k <= m s) Q (loop step k s).
  Proof.
    intros Hi. destruct (N.lt_ge_cases (m s) (2 ^ N.of_nat k)) as [Hlt|Hge].
    - destruct (loop_total_ok step I Q m k step_ex s Hi Hlt) as [r [E Hq]]. rewrite E. exact Hq.
    - destruct (loop step k s) as [r|f|] eqn:E; cbn.
      + destruct (loop_sound step k s r E) as [n [L _]]. eapply loops_inv; eauto.
      + eapply (loop_no_fault step I k); [|exact Hi|exact E].
        intros s0 Hi0. destruct (step_ex s0 Hi0) as [x [Ex Hx]]. split.
        * intros f0 Hf. congruence.
        * intros s' Es'. rewrite Ex in Es'. inversion Es'; subst. apply Hx.
      + exact Hge.
  Qed.
End LoopRes.

(* ------------------------------------------------------------------ *)
(* 1. Input stream                                                     *)

Definition avail (st : istream) : N := nlen (is_leadin st) + nlen (so_data (is_src st)).
Definition wf (st : istream) : Prop := nlen (is_leadin st) <= 24.

Lemma nth_N_some {A} (l : list A) i : i < nlen l -> exists b, nth_N l i = Some b.
Proof.
  intros H. unfold nth_N. destruct (nth_error l (N.to_nat i)) eqn:E; [eauto|].
  apply nth_error_None in E. unfold nlen in H. lia.
Qed.

Lemma leadin_at_ok site l i : i < nlen l -> nlen l <= 24 -> exists b, leadin_at site l i = Ok b.
Proof.
  intros H H24. unfold leadin_at. change leadin_extent with 24.
  destruct (N.ltb_spec i 24); [|lia].
  destruct (nth_N_some l i H) as [b ->]. eauto.
Qed.

Lemma file_header_match_ok l i : i + 7 <= nlen l -> nlen l <= 24 ->
  exists m, file_header_match l i = Ok m.
Proof.
  intros H H24. unfold file_header_match.
  destruct (leadin_at_ok 1101 l (i + 2)) as [b2 ->]; try lia.
  destruct (leadin_at_ok 1102 l (i + 6)) as [b6 ->]; try lia. cbn [bind].
  destruct (negb ((b2 =? 45) && (b6 =? 45))); [eauto|].
  destruct (leadin_at_ok 1103 l (i + 3)) as [b3 ->]; try lia.
  destruct (leadin_at_ok 1104 l (i + 4)) as [b4 ->]; try lia.
  destruct (leadin_at_ok 1105 l (i + 5)) as [b5 ->]; try lia. cbn [bind].
  destruct ((b3 =? 108) && (b4 =? 104)); [eauto|].
  destruct ((b3 =? 108) && (b4 =? 122) && ((b5 =? 52) || (b5 =? 53) || (b5 =? 115))); [eauto|].
  destruct ((b3 =? 112) && (b4 =? 109) && negb (b5 =? 115)); eauto.
Qed.

Lemma memcmp_at_ok l : nlen l <= 24 -> forall id i, i + nlen id <= nlen l ->
  exists b, memcmp_at l i id = Ok b.
Proof.
  intros H24. induction id as [|c r IH]; intros i H; cbn [memcmp_at]; [eauto|].
  rewrite nlen_cons in H.
  destruct (leadin_at_ok 1106 l i) as [b ->]; try lia. cbn [bind].
  destruct (b =? c); [|eauto]. apply IH. lia.
Qed.

Lemma scan_leadin_spec l : nlen l <= 24 -> forall n i skip,
  exists found i' skip', scan_leadin n l i skip = Ok (found, i', skip') /\
    i <= i' /\ (i' = i \/ i' + 12 <= nlen l) /\
    match found with
    | Some _ => True
    | None => nlen l < i + 12 + N.of_nat n -> nlen l <= i' + 12
    end.
Proof.
  intros H24. induction n as [|k IH]; intros i skip; cbn [scan_leadin].
  - exists None, i, skip. split; [reflexivity|]. split; [lia|]. split; [auto|]. lia.
  - destruct (N.ltb_spec (i + 12) (nlen l)) as [Hlt|Hge].
    + destruct (file_header_match_ok l i) as [m ->]; try lia. cbn [bind].
      destruct (m && (skip =? 0)).
      * exists (Some i), i, skip. split; [reflexivity|]. split; [lia|]. split; auto.
      * assert (E7 : nlen DECLHA_SFX_ID = 7) by reflexivity.
        assert (E12 : nlen AMIGA_LHASFX_ID = 12) by reflexivity.
        destruct (memcmp_at_ok l H24 DECLHA_SFX_ID i) as [a ->]; try lia. cbn [bind].
        assert (Hb : exists b, (if a then Ok true else memcmp_at l i AMIGA_LHASFX_ID) = Ok b).
        { destruct a; [eauto|]. apply memcmp_at_ok; auto. lia. }
        destruct Hb as [b ->]. cbn [bind].
        destruct (IH (i + 1) (if b then 1 else if m then skip - 1 else skip))
          as (found & i' & skip' & E & Hle & Hor & Hf).
        rewrite E. exists found, i', skip'. split; [reflexivity|]. split; [lia|]. split; [lia|].
        destruct found; [exact I|]. intros Hn. apply Hf. lia.
    + exists None, i, skip. split; [reflexivity|]. split; [lia|]. split; [auto|]. lia.
Qed.

Definition sfx_inv (A : N) (s : sfx_st) : Prop :=
  nlen (sx_leadin s) <= 24 /\ nlen (sx_leadin s) + nlen (so_data (sx_src s)) <= A.
Definition sfx_post (A : N) (r : bool * source * list N) : Prop :=
  let '(_, src, l) := r in nlen l <= 24 /\ nlen l + nlen (so_data src) <= A.
Definition sfx_meas (s : sfx_st) : N :=
  (MAX_SFX_HEADER_LEN - sx_filepos s) * 25 + (24 - nlen (sx_leadin s)).

Lemma sfx_step_ok A s : sfx_inv A s ->
  okp False (fun x => match x with
                      | inl s' => sfx_inv A s' /\ sfx_meas s' < sfx_meas s
                      | inr r => sfx_post A r end) (sfx_step s).
Proof.
  intros [H24 HA]. unfold sfx_step.
  destruct (N.ltb_spec (sx_filepos s) MAX_SFX_HEADER_LEN) as [Hpos|Hpos].
  2:{ cbn [okp sfx_post]. split; assumption. }
  unfold raw_read. cbv beta iota.
  change LEADIN_BUFFER_LEN with 24.
  pose proof (nlen_firstn_N (24 - nlen (sx_leadin s)) (so_data (sx_src s))) as Hgot.
  pose proof (nlen_skipn_N (24 - nlen (sx_leadin s)) (so_data (sx_src s))) as Hrest.
  destruct (firstn_N (24 - nlen (sx_leadin s)) (so_data (sx_src s))) as [|g gs] eqn:Eg.
  - cbn [okp sfx_post so_data]. split; [assumption|]. lia.
  - set (got := g :: gs) in *.
    assert (Hg1 : 1 <= nlen got) by (unfold got; rewrite nlen_cons; lia).
    set (l := sx_leadin s ++ got).
    assert (Hl : nlen l = nlen (sx_leadin s) + nlen got) by (unfold l; apply nlen_app).
    change leadin_extent with 24.
    destruct (N.ltb_spec 24 (nlen l)) as [Hbad|Hok]; [lia|].
    destruct (scan_leadin_spec l Hok 30 0 (sx_skip s)) as (found & i & skip' & E & Hle & Hor & Hf).
    rewrite E. cbn [bind]. cbv beta iota.
    destruct found as [i0|].
    + cbn [okp sfx_post so_data]. rewrite nlen_skipn_N. split; lia.
    + cbn [okp]. unfold sfx_inv, sfx_meas. cbn [sx_leadin sx_src sx_filepos so_data].
      rewrite nlen_skipn_N.
      assert (Hfin : nlen l <= i + 12) by (apply Hf; lia).
      unfold MAX_SFX_HEADER_LEN in *.
      split; [split; lia|].
      destruct (N.le_gt_cases (nlen l) 12); lia.
Qed.

Theorem skip_sfx_total st : wf st ->
  exists ok st', skip_sfx st = Ok (ok, st') /\ wf st' /\ avail st' <= avail st /\
                 is_state st' = is_state st.
Proof.
  intros Hwf. unfold skip_sfx.
  set (s0 := {| sx_src := is_src st; sx_leadin := is_leadin st; sx_filepos := 0; sx_skip := 0 |}).
  assert (Hi : sfx_inv (avail st) s0) by (split; [exact Hwf|unfold avail, s0; cbn [sx_leadin sx_src]; lia]).
  pose proof (loop_res sfx_step (sfx_inv (avail st)) (sfx_post (avail st)) sfx_meas
                       (sfx_step_ok (avail st)) 24 s0 Hi) as H.
  destruct (loop sfx_step 24 s0) as [[[ok src'] l]|f|].
  - cbn [okp sfx_post] in H. destruct H as [H24 HA]. cbn [bind]. cbv beta iota.
    eexists _, _. split; [reflexivity|]. unfold wf, avail. cbn [is_leadin is_src is_state].
    split; [exact H24|]. split; [exact HA|reflexivity].
  - contradiction.
  - exfalso. cbn [okp] in H. unfold sfx_meas, s0, MAX_SFX_HEADER_LEN in H. cbn [sx_filepos sx_leadin] in H.
    change (2 ^ N.of_nat 24) with 16777216 in H. lia.
Qed.

Lemma read_ready_spec st1 n : wf st1 ->
  let '(r, st') := read_ready st1 n in
  wf st' /\ avail st' <= avail st1 /\ is_state st' = is_state st1 /\
  match r with Some bytes => nlen bytes = n /\ avail st' + n <= avail st1 | None => True end.
Proof.
  intros Hwf. unfold read_ready.
  assert (Hgen :
    let '(r, st') :=
      (let from_leadin := firstn_N n (is_leadin st1) in
       let l' := skipn_N n (is_leadin st1) in
       let total := nlen from_leadin in
       if total <? n
       then
        let '(got, src') := raw_read (is_src st1) (n - total) in
        let st2 := {| is_src := src'; is_state := is_state st1; is_leadin := l' |} in
        if total + nlen got =? n then (Some (from_leadin ++ got), st2) else (None, st2)
       else
        (Some from_leadin,
         {| is_src := is_src st1; is_state := is_state st1; is_leadin := l' |})) in
    wf st' /\ avail st' <= avail st1 /\ is_state st' = is_state st1 /\
    match r with Some bytes => nlen bytes = n /\ avail st' + n <= avail st1 | None => True end).
  { cbv zeta. unfold raw_read. cbv beta iota.
    pose proof (nlen_firstn_N n (is_leadin st1)) as H1.
    pose proof (nlen_skipn_N n (is_leadin st1)) as H2.
    unfold wf in Hwf.
    destruct (N.ltb_spec (nlen (firstn_N n (is_leadin st1))) n) as [Hlt|Hge].
    - pose proof (nlen_firstn_N (n - nlen (firstn_N n (is_leadin st1))) (so_data (is_src st1))) as H3.
      pose proof (nlen_skipn_N (n - nlen (firstn_N n (is_leadin st1))) (so_data (is_src st1))) as H4.
      destruct (N.eqb_spec (nlen (firstn_N n (is_leadin st1)) +
                            nlen (firstn_N (n - nlen (firstn_N n (is_leadin st1))) (so_data (is_src st1)))) n) as [He|Hne];
        unfold wf, avail; cbn [is_leadin is_src is_state so_data]; rewrite ?nlen_app;
        (split; [lia|]); (split; [lia|]); (split; [reflexivity|]); try exact I.
      split; lia.
    - unfold wf, avail; cbn [is_leadin is_src is_state so_data].
      split; [lia|]. split; [lia|]. split; [reflexivity|]. split; lia. }
  destruct (is_state st1) eqn:Es; try exact Hgen.
  clear Hgen. unfold wf in *. split; [exact Hwf|]. split; [lia|]. split; [exact Es|exact I].
Qed.

Theorem lha_input_stream_read_total st n : wf st ->
  exists r st', lha_input_stream_read st n = Ok (r, st') /\ wf st' /\ avail st' <= avail st /\
    match r with Some bytes => nlen bytes = n /\ avail st' + n <= avail st | None => True end.
Proof.
  intros Hwf. unfold lha_input_stream_read.
  assert (Hst1 : exists st1, match is_state st with
         | IS_INIT =>
           '(ok, st') <- skip_sfx st ;;
           Ok {| is_src := is_src st'; is_state := if ok then IS_READING else IS_FAIL;
                 is_leadin := is_leadin st' |}
         | _ => Ok st
         end = Ok st1 /\ wf st1 /\ avail st1 <= avail st).
  { destruct (is_state st).
    - destruct (skip_sfx_total st Hwf) as (ok & st' & E & Hwf' & Hav & _). rewrite E. cbn [bind]. cbv beta iota.
      eexists. split; [reflexivity|]. unfold wf, avail in *. cbn [is_leadin is_src]. split; assumption.
    - exists st. split; [reflexivity|]. split; [assumption|lia].
    - exists st. split; [reflexivity|]. split; [assumption|lia]. }
  destruct Hst1 as (st1 & E & Hwf1 & Hav1). rewrite E. cbn [bind].
  pose proof (read_ready_spec st1 n Hwf1) as H.
  destruct (read_ready st1 n) as [r st2]. destruct H as (Hwf2 & Hav2 & _ & Hr).
  exists r, st2. split; [reflexivity|]. split; [assumption|]. split; [lia|].
  destruct r; [|exact I]. lia.
Qed.

(* ---- skipping ---- *)

Definition skip_meas (s : source * N) : N := N.min (snd s) (nlen (so_data (fst s))).

Lemma fallback_step_ok D s : nlen (so_data (fst s)) <= D ->
  okp False (fun x => match x with
                      | inl s' => nlen (so_data (fst s')) <= D /\ skip_meas s' < skip_meas s
                      | inr r => nlen (so_data (snd r)) <= D end) (fallback_step s).
Proof.
  destruct s as [s bytes]. cbn [fst snd]. intros HD. unfold fallback_step.
  destruct (N.ltb_spec 0 bytes) as [Hpos|Hz]; [|exact HD].
  unfold raw_read. cbv beta iota.
  set (len := if 32 <? bytes then 32 else bytes).
  assert (Hlen : 1 <= len /\ len <= bytes) by (unfold len; destruct (N.ltb_spec 32 bytes); lia).
  pose proof (nlen_firstn_N len (so_data s)) as H1.
  pose proof (nlen_skipn_N len (so_data s)) as H2.
  destruct (N.eqb_spec (nlen (firstn_N len (so_data s))) len) as [He|Hne]; cbn [okp fst snd so_data].
  - unfold skip_meas. cbn [fst snd so_data]. split; lia.
  - lia.
Qed.

Lemma noskip_step_ok D s : nlen (so_data (fst s)) <= D ->
  okp False (fun x => match x with
                      | inl s' => nlen (so_data (fst s')) <= D /\ skip_meas s' < skip_meas s
                      | inr r => nlen (so_data (snd r)) <= D end) (noskip_step s).
Proof.
  destruct s as [s bytes]. cbn [fst snd]. intros HD. unfold noskip_step.
  destruct (N.ltb_spec 0 bytes) as [Hpos|Hz]; [|exact HD].
  unfold raw_read. cbv beta iota.
  set (len := if 32 <? bytes then 32 else bytes).
  assert (Hlen : 1 <= len /\ len <= bytes) by (unfold len; destruct (N.ltb_spec 32 bytes); lia).
  pose proof (nlen_firstn_N len (so_data s)) as H1.
  pose proof (nlen_skipn_N len (so_data s)) as H2.
  destruct (firstn_N len (so_data s)) as [|g gs] eqn:Eg; cbn [okp fst snd so_data].
  - lia.
  - rewrite nlen_cons in H1. unfold skip_meas. cbn [fst snd so_data]. rewrite nlen_cons. split; lia.
Qed.

(* OutOfFuel only when both the amount to skip and the data left are >= 2^40 *)
Theorem lha_input_stream_skip_okp st bytes : wf st ->
  okp (1099511627776 <= N.min bytes (nlen (so_data (is_src st))))
      (fun '(_, st') => wf st' /\ avail st' <= avail st)
      (lha_input_stream_skip st bytes).
Proof.
  intros Hwf. unfold lha_input_stream_skip.
  set (D := nlen (so_data (is_src st))).
  assert (Hfin : forall (m : outcome (bool * source)),
    okp (1099511627776 <= N.min bytes D) (fun r => nlen (so_data (snd r)) <= D) m ->
    okp (1099511627776 <= N.min bytes D) (fun '(_, st') => wf st' /\ avail st' <= avail st)
      ('(ok, src') <- m ;;
       Ok (ok, {| is_src := src'; is_state := is_state st; is_leadin := is_leadin st |}))).
  { intros m Hm. eapply okp_bind; [exact Hm|]. intros [ok src'] Hs. cbn [snd] in Hs. cbn [okp].
    unfold wf, avail in *. cbn [is_leadin is_src]. fold D. split; [assumption|lia]. }
  apply Hfin.
  destruct (so_kind (is_src st)) eqn:Ek.
  - unfold raw_skip. rewrite Ek. cbn [okp snd so_data so_kind so_reads so_skips]. rewrite nlen_skipn_N. fold D. lia.
  - unfold raw_skip. rewrite Ek.
    eapply okp_weaken;
      [apply (loop_res fallback_step (fun s => nlen (so_data (fst s)) <= D)
                       (fun r => nlen (so_data (snd r)) <= D) skip_meas (fallback_step_ok D))| |].
    + cbn [fst so_data]. fold D. lia.
    + unfold skip_meas. cbn [fst snd so_data]. fold D.
      change (2 ^ N.of_nat 40) with 1099511627776. auto.
    + auto.
  - unfold raw_skip. rewrite Ek. cbn [so_data so_kind so_reads so_skips]. fold D.
    destruct (N.leb_spec bytes D); cbn [okp snd so_data]; rewrite ?nlen_skipn_N; fold D; try lia.
    unfold nlen; cbn [length]; lia.
  - eapply okp_weaken;
      [apply (loop_res noskip_step (fun s => nlen (so_data (fst s)) <= D)
                       (fun r => nlen (so_data (snd r)) <= D) skip_meas (noskip_step_ok D))| |].
    + cbn [fst]. fold D. lia.
    + unfold skip_meas. cbn [fst snd]. fold D.
      change (2 ^ N.of_nat 40) with 1099511627776. auto.
    + auto.
Qed.

Theorem lha_input_stream_skip_total st bytes : wf st ->
  bytes < 1099511627776 \/ nlen (so_data (is_src st)) < 1099511627776 ->
  exists ok st', lha_input_stream_skip st bytes = Ok (ok, st') /\ wf st' /\ avail st' <= avail st.
Proof.
  intros Hwf Hb.
  destruct (okp_decide _ _ _ (lha_input_stream_skip_okp st bytes Hwf)) as [[ok st'] [E H]]; [lia|].
  exists ok, st'. split; [exact E|exact H].
Qed.

(* ------------------------------------------------------------------ *)
(* 2. Header parser                                                    *)

(* the setters other than set_raw keep the raw data; all but set_level keep the level *)

Lemma raw_set_method h v : h_raw (set_method h v) = h_raw h. Proof. reflexivity. Qed.
Lemma level_set_method h v : h_level (set_method h v) = h_level h. Proof. reflexivity. Qed.
Lemma raw_set_clen h v : h_raw (set_clen h v) = h_raw h. Proof. reflexivity. Qed.
Lemma level_set_clen h v : h_level (set_clen h v) = h_level h. Proof. reflexivity. Qed.
Lemma raw_set_length h v : h_raw (set_length h v) = h_raw h. Proof. reflexivity. Qed.
Lemma level_set_length h v : h_level (set_length h v) = h_level h. Proof. reflexivity. Qed.
Lemma raw_set_timestamp h v : h_raw (set_timestamp h v) = h_raw h. Proof. reflexivity. Qed.
Lemma level_set_timestamp h v : h_level (set_timestamp h v) = h_level h. Proof. reflexivity. Qed.
Lemma raw_set_os_type h v : h_raw (set_os_type h v) = h_raw h. Proof. reflexivity. Qed.
Lemma level_set_os_type h v : h_level (set_os_type h v) = h_level h. Proof. reflexivity. Qed.
Lemma raw_set_crc h v : h_raw (set_crc h v) = h_raw h. Proof. reflexivity. Qed.
Lemma level_set_crc h v : h_level (set_crc h v) = h_level h. Proof. reflexivity. Qed.
Lemma raw_set_filename h v : h_raw (set_filename h v) = h_raw h. Proof. reflexivity. Qed.
Lemma level_set_filename h v : h_level (set_filename h v) = h_level h. Proof. reflexivity. Qed.
Lemma raw_set_path h v : h_raw (set_path h v) = h_raw h. Proof. reflexivity. Qed.
Lemma level_set_path h v : h_level (set_path h v) = h_level h. Proof. reflexivity. Qed.
Lemma raw_set_symlink_target h v : h_raw (set_symlink_target h v) = h_raw h. Proof. reflexivity. Qed.
Lemma level_set_symlink_target h v : h_level (set_symlink_target h v) = h_level h. Proof. reflexivity. Qed.
Lemma raw_set_extra_flags h v : h_raw (set_extra_flags h v) = h_raw h. Proof. reflexivity. Qed.
Lemma level_set_extra_flags h v : h_level (set_extra_flags h v) = h_level h. Proof. reflexivity. Qed.
Lemma raw_set_unix_perms h v : h_raw (set_unix_perms h v) = h_raw h. Proof. reflexivity. Qed.
Lemma level_set_unix_perms h v : h_level (set_unix_perms h v) = h_level h. Proof. reflexivity. Qed.
Lemma raw_set_unix_uid h v : h_raw (set_unix_uid h v) = h_raw h. Proof. reflexivity. Qed.
Lemma level_set_unix_uid h v : h_level (set_unix_uid h v) = h_level h. Proof. reflexivity. Qed.
Lemma raw_set_unix_gid h v : h_raw (set_unix_gid h v) = h_raw h. Proof. reflexivity. Qed.
Lemma level_set_unix_gid h v : h_level (set_unix_gid h v) = h_level h. Proof. reflexivity. Qed.
Lemma raw_set_os9_perms h v : h_raw (set_os9_perms h v) = h_raw h. Proof. reflexivity. Qed.
Lemma level_set_os9_perms h v : h_level (set_os9_perms h v) = h_level h. Proof. reflexivity. Qed.
Lemma raw_set_unix_username h v : h_raw (set_unix_username h v) = h_raw h. Proof. reflexivity. Qed.
Lemma level_set_unix_username h v : h_level (set_unix_username h v) = h_level h. Proof. reflexivity. Qed.
Lemma raw_set_unix_group h v : h_raw (set_unix_group h v) = h_raw h. Proof. reflexivity. Qed.
Lemma level_set_unix_group h v : h_level (set_unix_group h v) = h_level h. Proof. reflexivity. Qed.
Lemma raw_set_common_crc h v : h_raw (set_common_crc h v) = h_raw h. Proof. reflexivity. Qed.
Lemma level_set_common_crc h v : h_level (set_common_crc h v) = h_level h. Proof. reflexivity. Qed.
Lemma raw_set_level h v : h_raw (set_level h v) = h_raw h. Proof. reflexivity. Qed.
Lemma level_set_level h v : h_level (set_level h v) = v. Proof. reflexivity. Qed.
Lemma raw_set_raw h v : h_raw (set_raw h v) = v. Proof. reflexivity. Qed.
Lemma level_set_raw h v : h_level (set_raw h v) = h_level h. Proof. reflexivity. Qed.
Lemma raw_set_win_times h a b c : h_raw (set_win_times h a b c) = h_raw h. Proof. reflexivity. Qed.
Lemma level_set_win_times h a b c : h_level (set_win_times h a b c) = h_level h. Proof. reflexivity. Qed.
Lemma raw_add_flag h v : h_raw (add_flag h v) = h_raw h. Proof. reflexivity. Qed.
Lemma level_add_flag h v : h_level (add_flag h v) = h_level h. Proof. reflexivity. Qed.
#[local] Hint Rewrite raw_set_method level_set_method raw_set_clen level_set_clen raw_set_length level_set_length raw_set_timestamp level_set_timestamp raw_set_os_type level_set_os_type raw_set_crc level_set_crc raw_set_filename level_set_filename raw_set_path level_set_path raw_set_symlink_target level_set_symlink_target raw_set_extra_flags level_set_extra_flags raw_set_unix_perms level_set_unix_perms raw_set_unix_uid level_set_unix_uid raw_set_unix_gid level_set_unix_gid raw_set_os9_perms level_set_os9_perms raw_set_unix_username level_set_unix_username raw_set_unix_group level_set_unix_group raw_set_common_crc level_set_common_crc raw_set_level level_set_level raw_set_raw level_set_raw raw_set_win_times level_set_win_times raw_add_flag level_add_flag : hdr.

Ltac hsimp := autorewrite with hdr.

Lemma split_header_filename_raw h : h_raw (split_header_filename h) = h_raw h /\
                                    h_level (split_header_filename h) = h_level h.
Proof.
  unfold split_header_filename. destruct (h_filename h) as [f|]; [|auto].
  destruct (last_index f 47 0 None); auto.
Qed.

Lemma process_level0_path_raw h d : h_raw (process_level0_path h d) = h_raw h /\
                                    h_level (process_level0_path h d) = h_level h.
Proof.
  unfold process_level0_path. destruct d as [|x r]; [auto|].
  destruct (split_header_filename_raw (set_filename h (Some (cstr (map (fun b => if b =? 92 then 47 else b) (x :: r))))))
    as [E1 E2]. rewrite E1, E2. auto.
Qed.

(* ---- checked accessors succeed within bounds ---- *)
Lemma raw_at_ok site raw i : i < nlen raw -> exists b, raw_at site raw i = Ok b.
Proof. intros H. unfold raw_at. destruct (nth_N_some raw i H) as [b ->]. eauto. Qed.

Lemma u16_lt x : u16 x < 65536.
Proof.
  unfold u16. change 65535 with (N.ones 16). rewrite N.land_ones.
  apply N.mod_lt. discriminate.
Qed.

Lemma u32_le x : u32 x <= x.
Proof.
  unfold u32. change 4294967295 with (N.ones 32). rewrite N.land_ones.
  apply N.mod_le. discriminate.
Qed.

Lemma dec_u16_ok site raw i : i + 2 <= nlen raw -> exists v, dec_u16 site raw i = Ok v /\ v < 65536.
Proof.
  intros H. unfold dec_u16.
  destruct (raw_at_ok site raw i) as [b0 ->]; [lia|].
  destruct (raw_at_ok site raw (i + 1)) as [b1 ->]; [lia|]. cbn [bind].
  eexists. split; [reflexivity|apply u16_lt].
Qed.

Lemma dec_u32_ok site raw i : i + 4 <= nlen raw -> exists v, dec_u32 site raw i = Ok v.
Proof.
  intros H. unfold dec_u32.
  destruct (raw_at_ok site raw i) as [b0 ->]; [lia|].
  destruct (raw_at_ok site raw (i + 1)) as [b1 ->]; [lia|].
  destruct (raw_at_ok site raw (i + 2)) as [b2 ->]; [lia|].
  destruct (raw_at_ok site raw (i + 3)) as [b3 ->]; [lia|]. cbn [bind]. eauto.
Qed.

Lemma dec_u64_ok site raw i : i + 8 <= nlen raw -> exists v, dec_u64 site raw i = Ok v.
Proof.
  intros H. unfold dec_u64.
  destruct (dec_u32_ok site raw i) as [lo ->]; [lia|].
  destruct (dec_u32_ok site raw (i + 4)) as [hi ->]; [lia|]. cbn [bind]. eauto.
Qed.

Lemma raw_slice_ok site raw i len : i + len <= nlen raw ->
  raw_slice site raw i len = Ok (firstn_N len (skipn_N i raw)).
Proof. intros H. unfold raw_slice. destruct (N.leb_spec (i + len) (nlen raw)); [reflexivity|lia]. Qed.

Lemma nlen_list_set l : forall i v, nlen (list_set l i v) = nlen l.
Proof.
  induction l as [|b r IH]; intros i v; cbn [list_set]; [reflexivity|].
  destruct (i =? 0); rewrite !nlen_cons; [reflexivity|]. rewrite IH. reflexivity.
Qed.

Lemma usub64_le a b : b <= a -> usub64 a b = a - b.
Proof. intros H. unfold usub64. destruct (N.leb_spec b a); [reflexivity|lia]. Qed.

(* one checked access at the head of the computation *)
Ltac raw_step :=
  lazymatch goal with
  | |- okp _ _ (bind (raw_at ?s ?r ?i) _) =>
    let b := fresh "b" in let E := fresh "E" in
    destruct (raw_at_ok s r i) as [b E]; [try lia|rewrite E; clear E; cbn [bind]]
  | |- okp _ _ (bind (dec_u16 ?s ?r ?i) _) =>
    let b := fresh "w" in let E := fresh "E" in let Hb := fresh "Hw" in
    destruct (dec_u16_ok s r i) as [b [E Hb]]; [try lia|rewrite E; clear E; cbn [bind]]
  | |- okp _ _ (bind (dec_u32 ?s ?r ?i) _) =>
    let b := fresh "d" in let E := fresh "E" in
    destruct (dec_u32_ok s r i) as [b E]; [try lia|rewrite E; clear E; cbn [bind]]
  | |- okp _ _ (bind (dec_u64 ?s ?r ?i) _) =>
    let b := fresh "q" in let E := fresh "E" in
    destruct (dec_u64_ok s r i) as [b E]; [try lia|rewrite E; clear E; cbn [bind]]
  | |- okp _ _ (bind (raw_slice ?s ?r ?i ?n) _) =>
    rewrite (raw_slice_ok s r i n) by lia; cbn [bind]
  end.

(* ---- ext_header.c ---- *)
Lemma find_ext_in : forall nums mins ids num m id,
  find_ext nums mins ids num = Some (m, id) -> In (m, id) (combine mins ids).
Proof.
  induction nums as [|n nr IH]; intros mins ids num m id H; cbn [find_ext] in H; [discriminate|].
  destruct mins as [|m0 mr]; [discriminate|]. destruct ids as [|i0 ir]; [discriminate|].
  cbn [combine In]. destruct (n =? num).
  - inversion H; subst. left. reflexivity.
  - right. eapply IH; eauto.
Qed.

Definition hdr_keeps (h h' : header) : Prop :=
  nlen (h_raw h') = nlen (h_raw h) /\ h_level h' = h_level h.

Lemma ext_decode_ok h m id start data_len :
  In (m, id) (combine ext_header_min_lens ext_header_decoder_ids) ->
  m <= data_len -> start + data_len <= nlen (h_raw h) ->
  okp False (hdr_keeps h) (ext_decode h id start data_len).
Proof.
  intros Hin Hm Hb.
  unfold ext_header_min_lens, ext_header_decoder_ids in Hin. cbn [combine In] in Hin.
  unfold ext_decode.
  repeat (destruct Hin as [Hin|Hin]; [inversion Hin; subst m id; clear Hin; cbv beta iota zeta|]);
    try contradiction.
  - raw_step.
    destruct (N.ltb_spec (start + 1) (nlen (h_raw h))) as [Hlt|Hge]; [|lia].
    cbn [okp]. unfold hdr_keeps. hsimp. rewrite !nlen_list_set. auto.
  - raw_step. cbn [okp]. unfold hdr_keeps. hsimp. auto.
  - raw_step. raw_step. cbn [okp]. unfold hdr_keeps. hsimp. auto.
  - raw_step. cbn [okp]. unfold hdr_keeps. hsimp. auto.
  - raw_step. raw_step. cbn [okp]. unfold hdr_keeps. hsimp. auto.
  - raw_step. cbn [okp]. unfold hdr_keeps. hsimp. auto.
  - raw_step. cbn [okp]. unfold hdr_keeps. hsimp. auto.
  - raw_step. cbn [okp]. unfold hdr_keeps. hsimp. auto.
  - raw_step. raw_step. raw_step. cbn [okp]. unfold hdr_keeps. hsimp. auto.
  - raw_step. cbn [okp]. unfold hdr_keeps. hsimp. auto.
Qed.

Lemma lha_ext_header_decode_ok h num start data_len :
  start + data_len <= nlen (h_raw h) ->
  okp False (hdr_keeps h) (lha_ext_header_decode h num start data_len).
Proof.
  intros Hb. unfold lha_ext_header_decode.
  destruct (find_ext ext_header_nums ext_header_min_lens ext_header_decoder_ids num) as [[m id]|] eqn:E.
  - apply find_ext_in in E.
    destruct (N.ltb_spec data_len m); [cbn [okp]; split; reflexivity|].
    eapply ext_decode_ok; eauto.
  - cbn [okp]. split; reflexivity.
Qed.

(* ---- decode_extended_headers ---- *)
Definition ext_inv (fs L : N) (s : header * N * N) : Prop :=
  let '(h, off, av) := s in nlen (h_raw h) = L /\ off + fs + av <= L.
Definition ext_meas (s : header * N * N) : N := snd s / 3.

Lemma div3_lt av len : 3 <= len -> len <= av -> (av - len) / 3 < av / 3.
Proof.
  intros H1 H2.
  pose proof (N.div_mod av 3) as E1. pose proof (N.mod_lt av 3) as M1.
  pose proof (N.div_mod (av - len) 3) as E2. pose proof (N.mod_lt (av - len) 3) as M2.
  lia.
Qed.

Lemma ext_step_ok fs L s : fs = 2 \/ fs = 4 -> ext_inv fs L s ->
  okp False (fun x => match x with
                      | inl s' => ext_inv fs L s' /\ ext_meas s' < ext_meas s
                      | inr _ => True end) (ext_step fs s).
Proof.
  intros Hfs. destruct s as [[h off] av]. intros [HL Hinv]. unfold ext_step.
  destruct (N.leb_spec off (usub64 (nlen (h_raw h)) fs)) as [Hle|Hgt]; [|exact I].
  assert (Hlen : okp False (fun len => True)
                   (if fs =? 4 then dec_u32 1217 (h_raw h) off else dec_u16 1218 (h_raw h) off)).
  { destruct Hfs; subst fs.
    - change (2 =? 4) with false. cbv iota.
      destruct (dec_u16_ok 1218 (h_raw h) off) as [v [-> _]]; [lia|]. exact I.
    - change (4 =? 4) with true. cbv iota.
      destruct (dec_u32_ok 1217 (h_raw h) off) as [v ->]; [lia|]. exact I. }
  eapply okp_bind; [exact Hlen|]. intros len _. cbv beta.
  destruct (N.eqb_spec len 0) as [Hz|Hnz]; [exact I|].
  destruct (N.ltb_spec len (fs + 1)) as [Hshort|Hlong]; cbn [orb]; [exact I|].
  destruct (N.ltb_spec av len) as [Hbig|Hfit]; [exact I|].
  raw_step.
  eapply okp_bind; [apply lha_ext_header_decode_ok; lia|].
  intros h' [Hr Hlv]. cbn [okp]. unfold ext_inv, ext_meas. cbn [snd].
  pose proof (u32_le (off + len)) as Hu.
  rewrite (usub64_le av len) by lia.
  split; [split; lia|]. apply div3_lt; lia.
Qed.

Definition EXT_LIMIT : N := 12582912.   (* 3 * 2^22 *)

(* OutOfFuel only when the extended-header area is at least 12 MiB *)
Lemma decode_extended_headers_okp h off :
  off + (if h_level h =? 3 then 4 else 2) <= nlen (h_raw h) ->
  okp (EXT_LIMIT <= nlen (h_raw h) - off - (if h_level h =? 3 then 4 else 2))
      (fun _ => True) (decode_extended_headers h off).
Proof.
  intros Hoff. unfold decode_extended_headers.
  set (fs := if h_level h =? 3 then 4 else 2) in *.
  assert (Hfs : fs = 2 \/ fs = 4) by (unfold fs; destruct (h_level h =? 3); auto).
  rewrite (usub64_le (nlen (h_raw h)) off) by lia.
  rewrite (usub64_le (nlen (h_raw h) - off) fs) by lia.
  eapply okp_weaken;
    [apply (loop_res (ext_step fs) (ext_inv fs (nlen (h_raw h))) (fun _ => True) ext_meas
                     (fun s => ext_step_ok fs (nlen (h_raw h)) s Hfs))| |auto].
  - unfold ext_inv. split; [reflexivity|lia].
  - unfold ext_meas, EXT_LIMIT. cbn [snd]. change (2 ^ N.of_nat 22) with 4194304.
    intros H.
    pose proof (N.div_mod (nlen (h_raw h) - off - fs) 3) as E1.
    pose proof (N.mod_lt (nlen (h_raw h) - off - fs) 3) as M1. lia.
Qed.

(* ---- extend_raw_data ---- *)
Lemma extend_raw_data_ok h st n : wf st ->
  okp False (fun '(r, st') => wf st' /\ avail st' <= avail st /\
               match r with
               | Some h' => exists bytes, h' = set_raw h (h_raw h ++ bytes) /\ nlen bytes = n /\
                                          avail st' + n <= avail st
               | None => True end)
      (extend_raw_data h st n).
Proof.
  intros Hwf. unfold extend_raw_data.
  destruct (hdr_LEVEL_3_MAX_HEADER_LEN <? n).
  - cbn [okp]. split; [assumption|]. split; [lia|exact I].
  - destruct (lha_input_stream_read_total st n Hwf) as (r & st' & E & Hwf' & Hav & Hr).
    rewrite E. cbn [bind]. cbv beta iota. destruct r as [bytes|]; cbn [okp].
    + split; [assumption|]. split; [assumption|]. exists bytes. split; [reflexivity|exact Hr].
    + split; [assumption|]. split; [assumption|exact I].
Qed.

(* ---- level 0 / 1 ---- *)
Lemma process_level0_unix_area_ok h start len :
  start + len <= nlen (h_raw h) ->
  okp False (hdr_keeps h) (process_level0_unix_area h start len).
Proof.
  intros Hb. unfold process_level0_unix_area. cbv zeta.
  change hdr_LEVEL_0_UNIX_EXTENDED_LEN with 12.
  destruct (N.ltb_spec len 12) as [Hs|Hl]; [cbn [okp]; split; reflexivity|].
  raw_step. destruct (negb (b =? 0)); [cbn [okp]; split; reflexivity|].
  raw_step. raw_step. raw_step. raw_step. raw_step.
  cbn [okp]. unfold hdr_keeps. hsimp. auto.
Qed.

Lemma process_level0_os9_area_ok h start len :
  start + len <= nlen (h_raw h) ->
  okp False (hdr_keeps h) (process_level0_os9_area h start len).
Proof.
  intros Hb. unfold process_level0_os9_area. cbv zeta.
  change hdr_LEVEL_0_OS9_EXTENDED_LEN with 22.
  destruct (N.ltb_spec len 22) as [Hs|Hl]; [cbn [okp]; split; reflexivity|].
  raw_step. raw_step. raw_step. raw_step. raw_step.
  destruct (negb (b =? 204) || negb (b0 =? b1) || negb (b2 =? b3)); [cbn [okp]; split; reflexivity|].
  raw_step. cbn [okp]. unfold hdr_keeps. hsimp. auto.
Qed.

Lemma process_level0_extended_area_ok h start len :
  1 <= len -> start + len <= nlen (h_raw h) ->
  okp False (hdr_keeps h) (process_level0_extended_area h start len).
Proof.
  intros H1 Hb. unfold process_level0_extended_area.
  destruct (bytes_eqb (firstn 3 (cstr (h_method h))) [45; 112; 109]); [cbn [okp]; split; reflexivity|].
  raw_step.
  destruct ((b =? OS_TYPE_UNIX) || (b =? OS_TYPE_OS9_68K)); [apply process_level0_unix_area_ok; assumption|].
  destruct (b =? OS_TYPE_OS9); [apply process_level0_os9_area_ok; assumption|].
  cbn [okp]; split; reflexivity.
Qed.

Definition l0_post (h : header) (st : istream) (r : bool * header * istream) : Prop :=
  let '(ok, h', st') := r in
  wf st' /\ avail st' + nlen (h_raw h') <= avail st + nlen (h_raw h) /\
  (ok = true -> h_level h' = h_level h /\ 2 <= nlen (h_raw h')).

Lemma decode_level0_header_ok mktime h st :
  nlen (h_raw h) = 22 -> wf st ->
  okp False (l0_post h st) (decode_level0_header mktime h st).
Proof.
  intros H22 Hwf. unfold decode_level0_header.
  raw_step. raw_step. rename b into header_len. rename b0 into header_csum.
  assert (Hfail : forall st', wf st' -> avail st' <= avail st -> l0_post h st (false, h, st')).
  { intros st' Hw Ha. unfold l0_post. split; [assumption|]. split; [lia|discriminate]. }
  destruct (N.eqb_spec (h_level h) 0) as [Hl0|Hn0].
  - (* level 0 *)
    rewrite Hl0. change (0 =? 0) with true. cbv iota. cbn [orb negb].
    change hdr_LEVEL_0_MIN_HEADER_LEN with 22.
    destruct (N.ltb_spec header_len 22) as [Hs|Hmin]; [apply Hfail; [assumption|lia]|].
    eapply okp_bind; [apply extend_raw_data_ok; exact Hwf|].
    intros [r st1] (Hwf1 & Hav1 & Hr). cbv beta iota.
    destruct r as [h1|]; [|apply Hfail; assumption].
    destruct Hr as (bytes & -> & Hnb & Hav). rewrite usub64_le in Hnb, Hav by lia.
    cbv zeta. hsimp. set (raw := h_raw h ++ bytes).
    assert (HL : nlen raw = header_len + 2) by (unfold raw; rewrite nlen_app; lia).
    rewrite (usub64_le (nlen raw) 2) by lia.
    assert (Hfail1 : forall h', nlen (h_raw h') = nlen raw -> l0_post h st (false, h', st1)).
    { intros h' Hh'. unfold l0_post. split; [assumption|]. split; [lia|discriminate]. }
    raw_step.
    destruct (negb (check_l0_checksum (firstn_N (nlen raw - 2) (skipn_N 2 raw)) header_csum));
      [apply Hfail1; reflexivity|].
    raw_step. raw_step. raw_step. raw_step. raw_step. rename b into path_len.
    destruct (N.ltb_spec header_len (22 + path_len)) as [Hp|Hp]; [apply Hfail1; reflexivity|].
    hsimp. rewrite Hl0. change (0 =? 0) with true. cbv iota. cbn [bind].
    raw_step. raw_step.
    match goal with |- context [process_level0_path ?hh ?dd] =>
      destruct (process_level0_path_raw hh dd) as [Ep1 Ep2]; revert Ep1 Ep2; hsimp; intros Ep1 Ep2;
      set (h4 := process_level0_path hh dd) in * end.
    hsimp. rewrite Ep2, Hl0. change (0 =? 0) with true. cbn [andb].
    destruct (N.ltb_spec (22 + path_len) header_len) as [Hext|Hnoext].
    + eapply okp_bind.
      * apply process_level0_extended_area_ok; [lia|hsimp; rewrite Ep1; fold raw; lia].
      * intros h6 [Hk1 Hk2]. revert Hk1 Hk2. hsimp. rewrite Ep1, Ep2. fold raw. intros Hk1 Hk2.
        cbn [okp]. unfold l0_post. split; [assumption|]. split; [lia|]. intros _. split; [congruence|lia].
    + cbn [okp]. unfold l0_post. hsimp. rewrite Ep1, Ep2. fold raw.
      split; [assumption|]. split; [lia|]. intros _. split; [reflexivity|lia].
  - destruct (N.eqb_spec (h_level h) 1) as [Hl1|Hn1].
    + (* level 1 *)
      cbv iota. cbn [orb negb].
      change hdr_LEVEL_1_MIN_HEADER_LEN with 25.
      destruct (N.ltb_spec header_len 25) as [Hs|Hmin]; [apply Hfail; [assumption|lia]|].
      eapply okp_bind; [apply extend_raw_data_ok; exact Hwf|].
      intros [r st1] (Hwf1 & Hav1 & Hr). cbv beta iota.
      destruct r as [h1|]; [|apply Hfail; assumption].
      destruct Hr as (bytes & -> & Hnb & Hav). rewrite usub64_le in Hnb, Hav by lia.
      cbv zeta. hsimp. set (raw := h_raw h ++ bytes).
      assert (HL : nlen raw = header_len + 2) by (unfold raw; rewrite nlen_app; lia).
      rewrite (usub64_le (nlen raw) 2) by lia.
      assert (Hfail1 : forall h', nlen (h_raw h') = nlen raw -> l0_post h st (false, h', st1)).
      { intros h' Hh'. unfold l0_post. split; [assumption|]. split; [lia|discriminate]. }
      raw_step.
      destruct (negb (check_l0_checksum (firstn_N (nlen raw - 2) (skipn_N 2 raw)) header_csum));
        [apply Hfail1; reflexivity|].
      raw_step. raw_step. raw_step. raw_step. raw_step. rename b into path_len.
      destruct (N.ltb_spec header_len (25 + path_len)) as [Hp|Hp]; [apply Hfail1; reflexivity|].
      hsimp. rewrite Hl1. change (1 =? 0) with false. cbv iota.
      raw_step. raw_step. raw_step.
      match goal with |- context [process_level0_path ?hh ?dd] =>
        destruct (process_level0_path_raw hh dd) as [Ep1 Ep2]; revert Ep1 Ep2; hsimp; intros Ep1 Ep2;
        set (h4 := process_level0_path hh dd) in * end.
      hsimp. rewrite Ep2, Hl1. change (1 =? 0) with false. cbn [andb]. cbv iota.
      cbn [okp]. unfold l0_post. hsimp. rewrite Ep1, Ep2. fold raw.
      split; [assumption|]. split; [lia|]. intros _. split; [reflexivity|lia].
    + (* other levels *)
      replace (h_level h =? 0) with false by (symmetry; apply N.eqb_neq; assumption).
      replace (h_level h =? 1) with false by (symmetry; apply N.eqb_neq; assumption).
      cbn [orb negb]. cbv iota. apply Hfail; [assumption|lia].
Qed.

(* ---- read_l1_extended_headers ---- *)
Definition l1_inv (A L1 : N) (s : header * istream) : Prop :=
  let '(h, st) := s in
  wf st /\ avail st + nlen (h_raw h) <= A /\ h_level h = 1 /\ L1 <= nlen (h_raw h).
Definition l1_post (A L1 : N) (r : bool * header * istream) : Prop :=
  let '(_, h, st) := r in
  wf st /\ avail st + nlen (h_raw h) <= A /\ h_level h = 1 /\ L1 <= nlen (h_raw h).
Definition l1_meas (s : header * istream) : N := avail (snd s).

Lemma l1_step_ok A L1 s : 2 <= L1 -> l1_inv A L1 s ->
  okp False (fun x => match x with
                      | inl s' => l1_inv A L1 s' /\ l1_meas s' < l1_meas s
                      | inr r => l1_post A L1 r end) (l1_step s).
Proof.
  intros H2. destruct s as [h st]. intros (Hwf & HA & Hlv & HL). unfold l1_step.
  rewrite (usub64_le (nlen (h_raw h)) 2) by lia.
  raw_step. rename w into len.
  destruct (N.eqb_spec len 0) as [Hz|Hnz].
  { cbn [okp]. unfold l1_post. auto. }
  eapply okp_bind; [apply extend_raw_data_ok; exact Hwf|].
  intros [r st'] (Hwf' & Hav' & Hr). cbv beta iota.
  destruct r as [h1|].
  2:{ cbn [okp]. unfold l1_post. split; [assumption|]. split; [lia|]. auto. }
  destruct Hr as (bytes & -> & Hnb & Hav).
  assert (HR : nlen (h_raw h ++ bytes) = nlen (h_raw h) + len) by (rewrite nlen_app; lia).
  destruct (h_compressed_length (set_raw h (h_raw h ++ bytes)) <? len).
  { cbn [okp]. unfold l1_post. hsimp. split; [assumption|]. split; [lia|]. split; [assumption|lia]. }
  destruct (N.ltb_spec len 3) as [Hs|Hl]; cbn [okp].
  - unfold l1_post. hsimp. split; [assumption|]. split; [lia|]. split; [assumption|lia].
  - unfold l1_inv, l1_meas. cbn [snd]. hsimp.
    split; [|lia]. split; [assumption|]. split; [lia|]. split; [assumption|lia].
Qed.

(* OutOfFuel only when at least 2^40 bytes are left in the stream *)
Lemma read_l1_extended_headers_okp A h st :
  2 <= nlen (h_raw h) -> wf st -> avail st + nlen (h_raw h) <= A -> h_level h = 1 ->
  okp (1099511627776 <= avail st) (l1_post A (nlen (h_raw h))) (read_l1_extended_headers h st).
Proof.
  intros H2 Hwf HA Hlv. unfold read_l1_extended_headers.
  eapply okp_weaken;
    [apply (loop_res l1_step (l1_inv A (nlen (h_raw h))) (l1_post A (nlen (h_raw h))) l1_meas
                     (fun s => l1_step_ok A (nlen (h_raw h)) s H2))| |auto].
  - unfold l1_inv. split; [assumption|]. split; [assumption|]. split; [assumption|lia].
  - unfold l1_meas. cbn [snd]. change (2 ^ N.of_nat 40) with 1099511627776. auto.
Qed.

Definition hdr_post (A : N) (r : bool * header * istream) : Prop :=
  let '(_, _, st') := r in wf st' /\ avail st' <= A.

(* Level 1.  OutOfFuel only when the stream holds at least EXT_LIMIT (12 MiB) *)
Lemma decode_level1_header_okp mktime A h st :
  nlen (h_raw h) = 22 -> h_level h = 1 -> wf st -> avail st + 22 <= A ->
  okp (EXT_LIMIT <= A) (hdr_post A) (decode_level1_header mktime h st).
Proof.
  intros H22 Hlv Hwf HA. unfold decode_level1_header.
  eapply okp_bind.
  { eapply okp_weaken; [apply decode_level0_header_ok; assumption|contradiction|].
    intros a Ha. exact Ha. }
  intros [[ok h1] st1] (Hwf1 & Hav1 & Hok). cbv beta iota.
  destruct ok; cbn [negb]; cbv iota.
  2:{ cbn [okp hdr_post]. split; [assumption|lia]. }
  destruct (Hok eq_refl) as [Hlv1 HL1]. rewrite Hlv in Hlv1.
  eapply okp_bind.
  { eapply okp_weaken; [apply (read_l1_extended_headers_okp A h1 st1); try assumption; lia| |].
    - unfold EXT_LIMIT. lia.
    - intros a Ha. exact Ha. }
  intros [[ok2 h2] st2] (Hwf2 & Hav2 & Hlv2 & HL2). cbv beta iota.
  destruct ok2; cbn [negb]; cbv iota.
  2:{ cbn [okp hdr_post]. split; [assumption|lia]. }
  pose proof (u32_le (usub64 (nlen (h_raw h1)) 2)) as Hu.
  rewrite (usub64_le (nlen (h_raw h1)) 2) in Hu by lia.
  eapply okp_bind.
  { eapply okp_weaken; [apply decode_extended_headers_okp| |].
    - rewrite Hlv2. change (1 =? 3) with false. cbv iota.
      rewrite (usub64_le (nlen (h_raw h1)) 2) by lia. lia.
    - unfold EXT_LIMIT. lia.
    - intros a Ha. exact Ha. }
  intros [ok3 h3] _. cbn [okp hdr_post]. split; [assumption|lia].
Qed.

(* ---- levels 2 and 3 ---- *)
Lemma decode_l23_fields_ok h : 24 <= nlen (h_raw h) ->
  okp False (fun h' => h_raw h' = h_raw h /\ h_level h' = h_level h) (decode_l23_fields h).
Proof.
  intros H. unfold decode_l23_fields. cbv zeta.
  raw_step. raw_step. raw_step. raw_step. raw_step. raw_step.
  cbn [okp]. hsimp. auto.
Qed.

Lemma decode_level2_header_ok h st :
  nlen (h_raw h) = 22 -> h_level h = 2 -> wf st ->
  okp False (hdr_post (avail st)) (decode_level2_header h st).
Proof.
  intros H22 Hlv Hwf. unfold decode_level2_header.
  raw_step. rename w into header_len. change hdr_LEVEL_2_HEADER_LEN with 26.
  destruct (N.ltb_spec header_len 26) as [Hs|Hmin].
  { cbn [okp hdr_post]. split; [assumption|lia]. }
  eapply okp_bind; [apply extend_raw_data_ok; exact Hwf|].
  intros [r st1] (Hwf1 & Hav1 & Hr). cbv beta iota.
  destruct r as [h1|].
  2:{ cbn [okp hdr_post]. split; [assumption|lia]. }
  destruct Hr as (bytes & -> & Hnb & Hav). rewrite usub64_le in Hnb, Hav by lia.
  set (raw := h_raw h ++ bytes).
  assert (HL : nlen raw = header_len) by (unfold raw; rewrite nlen_app; lia).
  eapply okp_bind; [apply decode_l23_fields_ok; hsimp; lia|].
  intros h2. hsimp. intros [Hr2 Hlv2].
  assert (Hext : okp False
            (fun '(r3, st3) => wf st3 /\ avail st3 <= avail st /\
               match r3 with
               | Some h3 => h_level h3 = 2 /\ 26 <= nlen (h_raw h3) /\ nlen (h_raw h3) <= 65537
               | None => True end)
            (if h_os_type h2 =? OS_TYPE_OS9_68K then extend_raw_data h2 st1 2 else Ok (Some h2, st1))).
  { destruct (h_os_type h2 =? OS_TYPE_OS9_68K).
    - eapply okp_weaken; [apply extend_raw_data_ok; exact Hwf1|auto|].
      intros [r3 st3] (Hwf3 & Hav3 & Hr3). split; [assumption|]. split; [lia|].
      destruct r3 as [h3|]; [|exact I]. destruct Hr3 as (b2 & -> & Hnb2 & _). hsimp.
      rewrite nlen_app, Hr2. split; [congruence|]. lia.
    - cbn [okp]. split; [assumption|]. split; [lia|]. rewrite Hr2. split; [congruence|]. lia. }
  eapply okp_bind; [exact Hext|].
  intros [r3 st3] (Hwf3 & Hav3 & Hr3). cbv beta iota.
  destruct r3 as [h3|].
  2:{ cbn [okp hdr_post]. split; [assumption|lia]. }
  destruct Hr3 as (Hlv3 & Hlo & Hhi).
  eapply okp_bind.
  { eapply okp_weaken; [apply (decode_extended_headers_okp h3 24)| |].
    - rewrite Hlv3. change (2 =? 3) with false. cbv iota. lia.
    - unfold EXT_LIMIT. rewrite Hlv3. change (2 =? 3) with false. cbv iota. lia.
    - intros a Ha. exact Ha. }
  intros [ok h4] _. cbn [okp hdr_post]. split; [assumption|lia].
Qed.

Lemma decode_level3_header_ok h st :
  nlen (h_raw h) = 22 -> h_level h = 3 -> wf st ->
  okp False (hdr_post (avail st)) (decode_level3_header h st).
Proof.
  intros H22 Hlv Hwf. unfold decode_level3_header.
  raw_step. rename w into ws.
  destruct (negb (ws =? 4)).
  { cbn [okp hdr_post]. split; [assumption|lia]. }
  eapply okp_bind; [apply extend_raw_data_ok; exact Hwf|].
  intros [r st1] (Hwf1 & Hav1 & Hr). cbv beta iota.
  destruct r as [h1|].
  2:{ cbn [okp hdr_post]. split; [assumption|lia]. }
  destruct Hr as (bytes & -> & Hnb & Hav).
  change hdr_LEVEL_3_HEADER_LEN with 32 in *. rewrite usub64_le in Hnb, Hav by lia.
  hsimp. set (raw := h_raw h ++ bytes).
  assert (HL : nlen raw = 32) by (unfold raw; rewrite nlen_app; lia).
  raw_step. rename d into header_len.
  change hdr_LEVEL_3_MAX_HEADER_LEN with 1048576.
  destruct (N.ltb_spec 1048576 header_len) as [Hbig|Hmax]; cbn [orb].
  { cbn [okp hdr_post]. split; [assumption|lia]. }
  destruct (N.ltb_spec header_len (nlen raw)) as [Hsm|Hmin].
  { cbn [okp hdr_post]. split; [assumption|lia]. }
  eapply okp_bind; [apply extend_raw_data_ok; exact Hwf1|].
  intros [r2 st2] (Hwf2 & Hav2 & Hr2). cbv beta iota.
  destruct r2 as [h2|].
  2:{ cbn [okp hdr_post]. split; [assumption|lia]. }
  destruct Hr2 as (bytes2 & -> & Hnb2 & Hav2'). revert Hnb2 Hav2'. hsimp. intros Hnb2 Hav2'.
  set (raw2 := raw ++ bytes2).
  assert (HL2 : nlen raw2 = header_len) by (unfold raw2; rewrite nlen_app; lia).
  eapply okp_bind; [apply decode_l23_fields_ok; hsimp; lia|].
  intros h3. hsimp. intros [Hr3 Hlv3].
  eapply okp_bind.
  { eapply okp_weaken; [apply (decode_extended_headers_okp h3 28)| |].
    - rewrite Hlv3, Hlv. change (3 =? 3) with true. cbv iota. rewrite Hr3. lia.
    - unfold EXT_LIMIT. rewrite Hlv3, Hlv. change (3 =? 3) with true. cbv iota. rewrite Hr3. lia.
    - intros a Ha. exact Ha. }
  intros [ok h4] _. cbn [okp hdr_post]. split; [assumption|lia].
Qed.

(* ---- lha_file_header_read ---- *)

(* everything after the level decoders is pure and leaves the stream alone *)
Lemma header_post_processing (ok : bool) (h1 : header) (st2 : istream) :
  exists r,
    (if negb ok then Ok (None, st2) else
      let h2 := if (h_os_type h1 =? OS_TYPE_AMIGA) && method_is h1 [45; 108; 104; 48; 45]
                   && (h_length h1 =? 0) && (match h_filename h1 with None => true | _ => false end)
                then set_method h1 COMPRESS_TYPE_DIR else h1 in
      let is_dir := method_is h2 COMPRESS_TYPE_DIR in
      let r3 :=
        if negb is_dir then
          match h_filename h2 with None => None | Some _ => Some h2 end
        else if have_extra h2 FILE_UNIX_PERMS
                && (match h_path h2, h_filename h2 with None, None => false | _, _ => true end)
                && (N.land (h_unix_perms h2) 61440 =? 40960) then parse_symlink h2
        else match h_path h2 with None => None | Some _ => Some h2 end in
      match r3 with
      | None => Ok (None, st2)
      | Some h3 =>
        let os := h_os_type h3 in
        let h4 := if (os =? OS_TYPE_UNKNOWN) || (os =? OS_TYPE_MSDOS) || (os =? OS_TYPE_ATARI)
                     || (os =? OS_TYPE_LHARK) || (os =? OS_TYPE_OS2) then fix_msdos_allcaps h3 else h3 in
        let h5 := set_path h4 (option_map collapse_path (h_path h4)) in
        let h6 := if (h_os_type h5 =? OS_TYPE_OS9_68K) && have_extra h5 FILE_UNIX_PERMS
                  then add_flag (set_os9_perms h5 (h_unix_perms h5)) FILE_OS9_PERMS else h5 in
        let h7 := if have_extra h6 FILE_OS9_PERMS then os9_to_unix_permissions h6 else h6 in
        if have_extra h7 FILE_COMMON_CRC && negb (lha_crc16_buf 0 (h_raw h7) =? h_common_crc h7) then Ok (None, st2) else
        let h8 := if (h_level h7 =? 1) && (h_os_type h7 =? OS_TYPE_LHARK)
                     && bytes_eqb (firstn 5 (cstr (h_method h7))) [45; 108; 104; 55; 45]
                  then set_method h7 (list_set (h_method h7) 2 107) else h7 in
        Ok (Some h8, st2)
      end) = Ok (r, st2).
Proof.
  destruct (negb ok); [eexists; reflexivity|].
  cbv zeta.
  match goal with |- exists r, match ?r3 with Some _ => _ | None => _ end = _ => destruct r3 as [h3|] end;
    [|eexists; reflexivity].
  match goal with |- exists r, (if ?c then _ else _) = _ => destruct c end; eexists; reflexivity.
Qed.

(* Main theorem.  A := avail st bounds what the stream still holds; OutOfFuel
   (the model's fuel for the extended-header loops running out) is possible
   only for streams of at least EXT_LIMIT = 12 MiB. *)
Theorem lha_file_header_read_okp mktime st : wf st ->
  okp (EXT_LIMIT <= avail st) (fun '(_, st') => wf st' /\ avail st' <= avail st)
      (lha_file_header_read mktime st).
Proof.
  intros Hwf. unfold lha_file_header_read. change hdr_COMMON_HEADER_LEN with 22.
  destruct (lha_input_stream_read_total st 22 Hwf) as (r & st1 & E & Hwf1 & Hav1 & Hr).
  rewrite E. cbn [bind]. cbv beta iota.
  destruct r as [raw|].
  2:{ cbn [okp]. split; assumption. }
  destruct Hr as [H22 Hav].
  raw_step. rename b into lvl.
  set (h := set_level (header0 raw) lvl).
  assert (Hraw : nlen (h_raw h) = 22) by exact H22.
  assert (Hlvl : h_level h = lvl) by reflexivity.
  eapply okp_bind with (P := hdr_post (avail st)).
  { destruct (N.eqb_spec lvl 0) as [E0|N0].
    { eapply okp_weaken; [apply decode_level0_header_ok; assumption|contradiction|].
      intros [[ok h1] st2] (Hw & Ha & _). cbn [hdr_post]. split; [assumption|lia]. }
    destruct (N.eqb_spec lvl 1) as [E1|N1].
    { apply decode_level1_header_okp; try assumption; congruence. }
    destruct (N.eqb_spec lvl 2) as [E2|N2].
    { eapply okp_weaken; [apply decode_level2_header_ok; try assumption; congruence|contradiction|].
      intros [[ok h1] st2] [Hw Ha]. cbn [hdr_post]. split; [assumption|lia]. }
    destruct (N.eqb_spec lvl 3) as [E3|N3].
    { eapply okp_weaken; [apply decode_level3_header_ok; try assumption; congruence|contradiction|].
      intros [[ok h1] st2] [Hw Ha]. cbn [hdr_post]. split; [assumption|lia]. }
    cbn [okp hdr_post]. split; [assumption|lia]. }
  intros [[ok h1] st2] [Hw Ha]. cbv beta iota.
  destruct (header_post_processing ok h1 st2) as [r Er].
  eapply okp_of_eq; [exact Er|]. split; assumption.
Qed.

Theorem lha_file_header_read_no_fault mktime st : wf st ->
  no_fault (lha_file_header_read mktime st).
Proof. intros Hwf. eapply okp_no_fault. apply lha_file_header_read_okp. exact Hwf. Qed.

Theorem lha_file_header_read_total mktime st : wf st -> avail st < EXT_LIMIT ->
  exists r st', lha_file_header_read mktime st = Ok (r, st') /\ wf st' /\ avail st' <= avail st.
Proof.
  intros Hwf Hsmall.
  destruct (okp_decide _ _ _ (lha_file_header_read_okp mktime st Hwf)) as [[r st'] [E H]]; [lia|].
  exists r, st'. split; [exact E|exact H].
Qed.

(* ------------------------------------------------------------------ *)
(* 3. Basic reader                                                     *)

Definition wf_reader (r : breader) : Prop := wf (br_stream r).
Definition ravail (r : breader) : N := avail (br_stream r).

Theorem lha_basic_reader_next_file_okp mktime r : wf_reader r ->
  okp (EXT_LIMIT <= ravail r) (fun '(_, r') => wf_reader r' /\ ravail r' <= ravail r)
      (lha_basic_reader_next_file mktime r).
Proof.
  intros Hwf. unfold lha_basic_reader_next_file.
  eapply okp_bind with (P := fun r1 => wf_reader r1 /\ ravail r1 <= ravail r).
  { destruct (br_curr r) as [hd|].
    - eapply okp_bind.
      + eapply okp_weaken; [apply lha_input_stream_skip_okp; exact Hwf| |intros a Ha; exact Ha].
        unfold ravail, avail, EXT_LIMIT. lia.
      + intros [ok st'] [Hw Ha]. cbn [okp]. unfold wf_reader, ravail. cbn [br_stream]. split; assumption.
    - cbn [okp]. split; [assumption|lia]. }
  intros r1 [Hw1 Ha1]. cbv beta.
  destruct (br_eof r1).
  { cbn [okp]. split; assumption. }
  eapply okp_bind.
  { eapply okp_weaken; [apply lha_file_header_read_okp; exact Hw1| |intros a Ha; exact Ha].
    unfold ravail in *. lia. }
  intros [hh st2] [Hw2 Ha2]. cbv beta iota.
  destruct hh as [hd|]; cbn [okp]; unfold wf_reader, ravail in *; cbn [br_stream]; split; try assumption; lia.
Qed.

Theorem lha_basic_reader_next_file_no_fault mktime r : wf_reader r ->
  no_fault (lha_basic_reader_next_file mktime r).
Proof. intros Hwf. eapply okp_no_fault. apply lha_basic_reader_next_file_okp. exact Hwf. Qed.

Theorem lha_basic_reader_next_file_total mktime r : wf_reader r -> ravail r < EXT_LIMIT ->
  exists h r', lha_basic_reader_next_file mktime r = Ok (h, r') /\ wf_reader r' /\ ravail r' <= ravail r.
Proof.
  intros Hwf Hsmall.
  destruct (okp_decide _ _ _ (lha_basic_reader_next_file_okp mktime r Hwf)) as [[h r'] [E H]]; [lia|].
  exists h, r'. split; [exact E|exact H].
Qed.

(* ------------------------------------------------------------------ *)
(* 4. Iterating over an archive                                        *)

Fixpoint iterate_next_file (mktime : N -> N -> N -> N -> Z -> N -> N) (n : nat) (r : breader)
  : outcome breader :=
  match n with
  | O => Ok r
  | S k => '(_, r') <- lha_basic_reader_next_file mktime r ;; iterate_next_file mktime k r'
  end.

Lemma iterate_next_file_okp mktime n : forall r, wf_reader r ->
  okp (EXT_LIMIT <= ravail r) (fun r' => wf_reader r' /\ ravail r' <= ravail r)
      (iterate_next_file mktime n r).
Proof.
  induction n as [|k IH]; intros r Hwf; cbn [iterate_next_file].
  - cbn [okp]. split; [assumption|lia].
  - eapply okp_bind; [apply lha_basic_reader_next_file_okp; exact Hwf|].
    intros [hh r'] [Hw Ha]. cbv beta iota.
    eapply okp_weaken; [apply IH; exact Hw|lia|].
    intros r'' [Hw' Ha']. split; [assumption|lia].
Qed.

Lemma new_reader_wf k data :
  wf_reader (lha_basic_reader_new (lha_input_stream_new (mk_source k data))) /\
  ravail (lha_basic_reader_new (lha_input_stream_new (mk_source k data))) = nlen data.
Proof.
  unfold wf_reader, ravail, wf, avail. cbn [lha_basic_reader_new br_stream lha_input_stream_new is_leadin is_src mk_source so_data].
  rewrite nlen_nil. split; lia.
Qed.

(* No out-of-range access, for any source kind, any data of any length, any number of calls. *)
Theorem archive_iteration_no_fault mktime k data n :
  no_fault (iterate_next_file mktime n (lha_basic_reader_new (lha_input_stream_new (mk_source k data)))).
Proof.
  destruct (new_reader_wf k data) as [Hwf _].
  eapply okp_no_fault. apply iterate_next_file_okp. exact Hwf.
Qed.

(* Every call returns: for archives below 12 MiB the model's loop bounds are never reached. *)
Theorem archive_iteration_never_faults mktime k data n : nlen data < EXT_LIMIT ->
  exists r, iterate_next_file mktime n (lha_basic_reader_new (lha_input_stream_new (mk_source k data))) = Ok r
            /\ wf_reader r.
Proof.
  intros Hsmall. destruct (new_reader_wf k data) as [Hwf Hav].
  destruct (okp_decide _ _ _ (iterate_next_file_okp mktime n _ Hwf)) as [r [E [H _]]]; [lia|].
  exists r. split; [exact E|exact H].
Qed.

(* The bound is about the model's fuel, not about the C: with fuel k the
   extended-header loop handles fewer than 2^k headers.  Scaled-down witness
   (fuel 3, 8 three-byte headers of an unknown type after 25 bytes). *)
Example ext_loop_fuel_is_tight :
  let raw := repeat 0 23 ++ [3; 0] ++ concat (repeat [255; 3; 0] 7) ++ [255; 0; 0] in
  let h := set_level (header0 raw) 1 in
  loop (ext_step 2) 3 (h, 23, nlen raw - 25) = OutOfFuel /\
  exists r, loop (ext_step 2) 4 (h, 23, nlen raw - 25) = Ok r.
Proof. vm_compute. split; [reflexivity|eexists; reflexivity]. Qed.

Print Assumptions skip_sfx_total.
Print Assumptions lha_input_stream_read_total.
Print Assumptions lha_input_stream_skip_okp.
Print Assumptions lha_input_stream_skip_total.
Print Assumptions decode_level0_header_ok.
Print Assumptions decode_level1_header_okp.
Print Assumptions decode_level2_header_ok.
Print Assumptions decode_level3_header_ok.
Print Assumptions lha_file_header_read_okp.
Print Assumptions lha_file_header_read_no_fault.
Print Assumptions lha_file_header_read_total.
Print Assumptions lha_basic_reader_next_file_okp.
Print Assumptions lha_basic_reader_next_file_no_fault.
Print Assumptions lha_basic_reader_next_file_total.
Print Assumptions archive_iteration_no_fault.
Print Assumptions archive_iteration_never_faults.
Print Assumptions ext_loop_fuel_is_tight.

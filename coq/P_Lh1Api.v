(* P_Lh1Api.v -- C02 at the API level: decoding LZHUF's encoding of a command list
   through lha_decoder_read, with any read schedule, gives what the list denotes. *)
From Lhasa Require Import Base ListN DecBase BitReader Loop Generated Lh1 Lzhuf S_Larc Crc16 Decoder
  P_Decoder P_DecoderInv P_Null P_BitReader P_Lh1.
From Coq Require Import ZifyBool ZifyN ZifyNat.
Local Open Scope N_scope.

Lemma DS_inv_len s h win r : DS s h win r -> lh1_inv_len s.
Proof.
  intros [Dt Dm Dr Dp Dl Dr4 Dw Dlk Dln].
  split; [apply bsr_wf_ok; exact Dw|]. split; [rewrite Dr; exact Dl|]. split; [rewrite Dp; exact Dr4|].
  split; [exact Dt|]. split; assumption.
Qed.

Lemma expand_copy_length n : forall w r s a, length (snd (expand_copy n w r s a)) = (n + length a)%nat.
Proof.
  induction n as [|n IH]; intros w r s a; [reflexivity|].
  rewrite expand_copy_S, IH. cbn [length]. lia.
Qed.

(* a valid command denotes at least one byte *)
Lemma expand_one_nonempty cm win r : cmd_valid cm -> expand_cmds [cm] win r [] <> [].
Proof.
  intros Hv. destruct cm as [b|offset len]; cbn [expand_cmds]; [discriminate|].
  destruct Hv as (_ & H3 & _).
  match goal with |- context [expand_copy ?n ?w ?rr ?s ?a] =>
    pose proof (expand_copy_length n w rr s a) as L; destruct (expand_copy n w rr s a) as [[w' r'] o] end.
  cbn [snd length] in L. intros E. rewrite E in L. cbn [length] in L. lia.
Qed.

(* one chunk per command *)
Lemma lh1_chunks cmds : forall s h win r c acc tail, Forall cmd_valid cmds -> DS s h win r -> src_ok c ->
  pending (lh1_bsr s) c = stream_bits cmds h ++ tail ->
  exists chs, chunks_from (lh1_read src_cb) lh1_max_read s c chs /\
              expand_cmds cmds win r acc = rev (concat chs) ++ acc.
Proof.
  induction cmds as [|cm rest IH]; intros s h win r c acc tail Hv Hd Hs Hpe.
  - exists []. split; [constructor|reflexivity].
  - inversion Hv as [|? ? Hc Hr]; subst. cbn [stream_bits] in Hpe. rewrite <- app_assoc in Hpe.
    destruct (lh1_read_cmd s h win r cm _ c acc rest Hc Hd Hs Hpe) as (out & s1 & c1 & win1 & r1 & E1 & D1 & S1 & P1 & X1).
    destruct (lh1_read_cmd s h win r cm _ c [] [] Hc Hd Hs Hpe) as (out2 & s2 & c2 & win2 & r2 & E2 & _ & _ & _ & X2).
    rewrite E1 in E2. injection E2 as Eo _ _. subst out2.
    change (expand_cmds [] win2 r2 (rev out ++ [])) with (rev out ++ []) in X2. rewrite app_nil_r in X2.
    assert (Hne : out <> []).
    { intros ->. apply (expand_one_nonempty cm win r Hc). exact X2. }
    destruct (lh1_read_total_len src src_cb P_Null.src_cb_len_bounded s c (DS_inv_len _ _ _ _ Hd))
      as (ch & s' & c' & E3 & Hlen & _).
    rewrite E1 in E3. injection E3 as Eo _ _. subst ch.
    destruct (IH s1 _ win1 r1 c1 (rev out ++ acc) tail Hr D1 S1 P1) as (chs & Hch & X).
    exists (out :: chs). split; [econstructor; eassumption|].
    rewrite X1, X. cbn [concat]. rewrite rev_app_distr, <- app_assoc. reflexivity.
Qed.

Theorem lh1_roundtrip_api : forall cmds more s0 ks, Forall cmd_valid cmds -> Forall (fun x => x < 256) more ->
  lh1_init = Ok s0 ->
  let out := lz77_expand_4k cmds in nlen out <= sum_N ks -> sum_N ks < 2 ^ 62 ->
  exists os d', run_reads (lh1_read src_cb) lh1_max_read lh1_block_size
      (lha_decoder_new s0 {| src_data := bits_to_bytes (lzhuf_encode cmds) ++ more; src_chunks := [] |} (nlen out)) ks
      = Ok (os, d') /\ concat os = out.
Proof.
  intros cmds more s0 ks Hv Hm Hinit out HL Hs.
  rewrite lh1_init_eq in Hinit. injection Hinit as <-.
  destruct (bits_to_bytes_spec (lzhuf_encode cmds)) as [F (k & Hk & Ek)].
  set (c := {| src_data := bits_to_bytes (lzhuf_encode cmds) ++ more; src_chunks := [] |}).
  assert (Hsrc : src_ok c) by (split; [reflexivity|]; cbn [src_data]; apply Forall_app; split; assumption).
  assert (Hpe : pending (lh1_bsr lh1_s0) c = stream_bits cmds StartHuff ++ (repeat false k ++ bytes_bits more)).
  { change (lh1_bsr lh1_s0) with bsr_init. rewrite (pending_holds _ _ [] holds_init). cbn [src_data app c].
    rewrite bytes_bits_app, Ek, <- app_assoc. rewrite lzhuf_encode_bits by exact Hv. reflexivity. }
  destruct (lh1_chunks cmds lh1_s0 StartHuff (mk_arr lzhuf_N 32) 0 c [] _ Hv DS_init Hsrc Hpe) as (chs & Hch & X).
  assert (Eout : out = concat chs).
  { unfold out, lz77_expand_4k. rewrite rev_append_rev, app_nil_r, X, app_nil_r. apply rev_involutive. }
  assert (Hi : lh1_inv_len lh1_s0) by (apply (DS_inv_len _ _ _ _ DS_init)).
  destruct (run_reads_inv_ok (lh1_read src_cb) lh1_max_read lh1_block_size lh1_inv_len
              (lh1_read_total_len src src_cb P_Null.src_cb_len_bounded) ks lh1_s0 c (nlen out) Hi Hs) as (os & d' & E).
  exists os, d'. split; [exact E|].
  rewrite (decode_of_chunks_inv (lh1_read src_cb) lh1_max_read lh1_block_size lh1_inv_len
             (lh1_read_total_len src src_cb P_Null.src_cb_len_bounded) chs lh1_s0 c (nlen out) ks os d' Hi Hch); try assumption.
  - rewrite <- Eout. apply firstn_N_all. lia.
  - rewrite <- Eout. lia.
Qed.

(* ------------------------------------------------------------------ *)
(* non-vacuity: literals, an overlapping copy, a copy reaching before the start of
   the output (space fill), read in pieces of 5 and 100 bytes                       *)

Definition lh1_ex_cmds : list cmd :=
  [Lit 65; Lit 66; Lit 67; Copy 2 5; Lit 68; Copy 0 3; Copy 40 4].

Example lh1_roundtrip_api_ex :
  lz77_expand_4k lh1_ex_cmds = [65; 66; 67; 65; 66; 67; 65; 66; 68; 68; 68; 68; 32; 32; 32; 32] /\
  exists s0, lh1_init = Ok s0 /\
  exists os d',
    run_reads (lh1_read src_cb) lh1_max_read lh1_block_size
      (lha_decoder_new s0 {| src_data := bits_to_bytes (lzhuf_encode lh1_ex_cmds) ++ [255; 1]; src_chunks := [] |}
                       (nlen (lz77_expand_4k lh1_ex_cmds))) [5; 100] = Ok (os, d') /\
    concat os = lz77_expand_4k lh1_ex_cmds.
Proof.
  split; [vm_compute; reflexivity|].
  exists lh1_s0. split; [exact lh1_init_eq|].
  apply lh1_roundtrip_api.
  - repeat constructor; cbn; lia.
  - repeat constructor.
  - exact lh1_init_eq.
  - vm_compute. discriminate.
  - vm_compute. reflexivity.
Qed.

(* the same run, computed *)
Example lh1_roundtrip_api_ex_run :
  match run_reads (lh1_read src_cb) lh1_max_read lh1_block_size
          (lha_decoder_new lh1_s0 {| src_data := bits_to_bytes (lzhuf_encode lh1_ex_cmds) ++ [255; 1]; src_chunks := [] |} 16)
          [5; 100] with
  | Ok (os, _) => os
  | _ => []
  end = [[65; 66; 67; 65; 66]; [67; 65; 66; 68; 68; 68; 68; 32; 32; 32; 32]].
Proof. vm_compute. reflexivity. Qed.

Print Assumptions lh1_chunks.
Print Assumptions lh1_roundtrip_api.
Print Assumptions lh1_roundtrip_api_ex.
Print Assumptions lh1_roundtrip_api_ex_run.

(* P_KindIndepEx.v -- property C16, stream kinds: non-vacuity of P_KindIndep.v and
   P_KindIndepReader.v.  A two-member archive and a truncated one are run through
   the four kinds of source by vm_compute, and the theorems are instantiated on
   them.

   C16 (properties.jsonl): "The members an archive yields - headers, data and
   verdicts - are the same whether it is read from a seekable file, a
   non-seekable pipe (including '-' for standard input), or caller-supplied
   callbacks with or without skip support. [...]" *)
From Lhasa Require Import Base ListN Loop Generated Crc16 InputStream Header BasicReader AnyDecoder Decoder
  MacBinary Fs FsRun Reader P_HeaderSafe P_Intact P_StreamEquiv P_BasicReaderIndep P_ReaderIndep
  P_Sfx P_KindIndep P_KindIndepReader P_KindIndepSfx.
Local Open Scope N_scope.

(* member "a": 5 stored bytes 10..14, CRC-16 0x72DF; member "b": 2 stored bytes "hi", CRC-16 0xEEEF *)
Definition kx_member_a : list N :=
  [23; 59; 45; 108; 104; 48; 45;  5; 0; 0; 0;  5; 0; 0; 0;  0; 0; 0; 0;  32; 0;  1; 97;  223; 114].
Definition kx_member_b : list N :=
  [23; 194; 45; 108; 104; 48; 45;  2; 0; 0; 0;  2; 0; 0; 0;  0; 0; 0; 0;  32; 0;  1; 98;  239; 238].
Definition kx_archive : list N := kx_member_a ++ [10; 11; 12; 13; 14] ++ kx_member_b ++ [104; 105].
(* the data of the first member cut after 3 of its 5 bytes *)
Definition kx_truncated : list N := kx_member_a ++ [10; 11; 12].
(* the same archive behind a self-extractor stub *)
Definition kx_sfx : list N := repeat 0 40 ++ kx_archive.

Definition kx_fs : fs := {| fs_root := Dir true 493 0 []; fs_cwd := []; fs_uid0 := false; fs_umask := 0; fs_trace := [] |}.

Definition obs_view (x : obs) : option (list N) * list N * bool :=
  match x with
  | ObsEntry h fake => (option_map full_path h, [], fake)
  | ObsBytes l => (None, l, false)
  | ObsBool b => (None, [], b)
  end.

Definition kx_ops : list op := [OpNext; OpRead 3; OpRead 10; OpNext; OpCheck false; OpNext; OpNext].

(* two members, the four kinds: entries "a" and "b", the bytes of "a" in two
   reads, the verdict "intact" for "b", then the end, twice *)
Example kx_two_members : forall k,
  match observed (run_ops mktime_utc 0 (reader_on k kx_archive DIR_END_OF_DIR, kx_fs) kx_ops) with
  | Ok (xs, f) =>
    map obs_view xs = [(Some [97], [], false); (None, [10; 11; 12], false); (None, [13; 14], false);
                       (Some [98], [], false); (None, [], true); (None, [], false); (None, [], false)] /\ f = kx_fs
  | _ => False
  end.
Proof. intros k. destruct k; vm_compute; split; reflexivity. Qed.

(* the theorem on this instance *)
Example kx_two_members_thm : forall k1 k2 p l,
  observed (run_ops mktime_utc 0 (reader_on k1 kx_archive p, kx_fs) l) =
  observed (run_ops mktime_utc 0 (reader_on k2 kx_archive p, kx_fs) l).
Proof. intros. apply members_same_for_all_kinds. vm_compute. reflexivity. Qed.

(* extraction too: the same filesystem trace for the four kinds *)
Example kx_extract : forall k,
  observed (run_ops mktime_utc 0 (reader_on k kx_archive DIR_END_OF_DIR, kx_fs) [OpNext; OpExtract None false; OpNext; OpExtract None false; OpNext]) =
  observed (run_ops mktime_utc 0 (reader_on KFile kx_archive DIR_END_OF_DIR, kx_fs) [OpNext; OpExtract None false; OpNext; OpExtract None false; OpNext]) /\
  match observed (run_ops mktime_utc 0 (reader_on k kx_archive DIR_END_OF_DIR, kx_fs) [OpNext; OpExtract None false; OpNext; OpExtract None false; OpNext]) with
  | Ok (xs, f) => map obs_view xs = [(Some [97], [], false); (None, [], true); (Some [98], [], false); (None, [], true);
                                     (None, [], false)] /\ f <> kx_fs
  | _ => False
  end.
Proof.
  intros k. split; [apply members_same_for_all_kinds; vm_compute; reflexivity|].
  destruct k; vm_compute; (split; [reflexivity|discriminate]).
Qed.

(* behind a self-extractor stub: the same observations as without it, four kinds *)
Example kx_sfx_same : forall k,
  match observed (run_ops mktime_utc 0 (reader_on k kx_sfx DIR_END_OF_DIR, kx_fs) kx_ops),
        observed (run_ops mktime_utc 0 (reader_on k kx_archive DIR_END_OF_DIR, kx_fs) kx_ops) with
  | Ok (xs, f), Ok (ys, g) => xs = ys /\ f = g
  | _, _ => False
  end.
Proof. intros k. destruct k; vm_compute; split; reflexivity. Qed.

(* the truncated archive.  Without reading the member: the skip of its 5 bytes
   succeeds on the seekable file and fails on the other three kinds; the next
   entry is "no entry" for all four.  With reads: the first read fails (3 of 5
   bytes), nothing is delivered, and the verdict of a check is "damaged". *)
Example kx_truncated_next : forall k,
  match observed (run_ops mktime_utc 0 (reader_on k kx_truncated DIR_END_OF_DIR, kx_fs) [OpNext; OpNext; OpNext]) with
  | Ok (xs, f) => map obs_view xs = [(Some [97], [], false); (None, [], false); (None, [], false)] /\ f = kx_fs
  | _ => False
  end.
Proof. intros k. destruct k; vm_compute; split; reflexivity. Qed.

Example kx_truncated_read : forall k,
  match observed (run_ops mktime_utc 0 (reader_on k kx_truncated DIR_END_OF_DIR, kx_fs)
                    [OpNext; OpRead 10; OpCheck false; OpNext; OpNext]) with
  | Ok (xs, f) => map obs_view xs = [(Some [97], [], false); (None, [], false); (None, [], false);
                                     (None, [], false); (None, [], false)] /\ f = kx_fs
  | _ => False
  end.
Proof. intros k. destruct k; vm_compute; split; reflexivity. Qed.

(* the flag of the skip is where the kinds differ *)
Example kx_truncated_skip_flag : forall k,
  exists h r1 ok st',
    lha_basic_reader_next_file mktime_utc (lha_basic_reader_new (lha_input_stream_new (mk_source k kx_truncated)))
      = Ok (Some h, r1) /\
    lha_input_stream_skip (br_stream r1) (br_remaining r1) = Ok (ok, st') /\
    ok = is_file k /\ so_data (is_src st') = [].
Proof. intros k. destruct k; eexists _, _, _, _; (split; [vm_compute; reflexivity|]); vm_compute; auto. Qed.

(* ... and the theorem on this instance: both "no header", and they stay *)
Example kx_truncated_thm : forall k1 k2,
  exists h a1 a2,
    lha_basic_reader_next_file mktime_utc (lha_basic_reader_new (lha_input_stream_new (mk_source k1 kx_truncated)))
      = Ok (Some h, a1) /\
    lha_basic_reader_next_file mktime_utc (lha_basic_reader_new (lha_input_stream_new (mk_source k2 kx_truncated)))
      = Ok (Some h, a2) /\ br_rel a1 a2 /\
    exists b1 b2,
      lha_basic_reader_next_file mktime_utc a1 = Ok (None, b1) /\
      lha_basic_reader_next_file mktime_utc a2 = Ok (None, b2) /\ br_rel b1 b2 /\
      (forall n, next_file_n mktime_utc n b1 = Ok (None, b1)) /\
      (forall n, next_file_n mktime_utc n b2 = Ok (None, b2)).
Proof.
  intros k1 k2.
  assert (Hb : nlen kx_truncated < 1099511627776) by (vm_compute; reflexivity).
  pose proof (br_wf_new k1 kx_truncated Hb) as W1. pose proof (br_wf_new k2 kx_truncated Hb) as W2.
  assert (X : exists h a1,
    lha_basic_reader_next_file mktime_utc (lha_basic_reader_new (lha_input_stream_new (mk_source k1 kx_truncated)))
      = Ok (Some h, a1) /\ br_curr a1 = Some h /\
    nlen (so_data (is_src (br_stream a1))) < br_remaining a1).
  { destruct k1; eexists _, _; (split; [vm_compute; reflexivity|]); split; vm_compute; reflexivity. }
  destruct X as (h & a1 & E1 & C1 & Sh).
  destruct (orel_ok_l _ _ _ _ (next_file_kind mktime_utc _ _ W1 W2 (br_rel_new k1 k2 kx_truncated)) E1)
    as ([h2 a2] & E2 & Eh & Br).
  cbn [fst snd] in Eh, Br. subst h2.
  exists h, a1, a2. split; [exact E1|]. split; [exact E2|]. split; [exact Br|].
  pose proof (next_file_wf _ _ _ _ W1 E1) as Wa. pose proof (next_file_wf _ _ _ _ W2 E2) as Wb.
  destruct (next_file_kind_truncated mktime_utc a1 a2 h Wa Wb Br C1 Sh) as (b1 & b2 & F1 & F2 & Bb & S1 & S2).
  exists b1, b2. auto.
Qed.

(* the headers of the two-member archive by the basic reader, any two kinds *)
Example kx_headers : forall k1 k2,
  exists hs r1 r2,
    headers_n mktime_utc 3 (lha_basic_reader_new (lha_input_stream_new (mk_source k1 kx_archive))) = Ok (hs, r1) /\
    headers_n mktime_utc 3 (lha_basic_reader_new (lha_input_stream_new (mk_source k2 kx_archive))) = Ok (hs, r2) /\
    br_rel r1 r2 /\ map (option_map full_path) hs = [Some [97]; Some [98]; None].
Proof.
  intros k1 k2.
  assert (X : exists hs r1,
    headers_n mktime_utc 3 (lha_basic_reader_new (lha_input_stream_new (mk_source k1 kx_archive))) = Ok (hs, r1) /\
    map (option_map full_path) hs = [Some [97]; Some [98]; None]).
  { destruct k1; eexists _, _; (split; [vm_compute; reflexivity|]); vm_compute; reflexivity. }
  destruct X as (hs & r1 & E1 & V).
  destruct (headers_same_for_all_kinds_ok mktime_utc kx_archive k1 k2 3 hs r1) as (r2 & E2 & Br);
    [vm_compute; reflexivity|exact E1|].
  exists hs, r1, r2. auto.
Qed.

(* the self-extractor theorem on an instance: a quiet 1000-byte stub in front of
   the two-member archive, read through kind k1, against the bare archive
   through kind k2; every operation sequence, every policy *)
Example kx_sfx_thm : forall k1 k2 p l,
  observed (run_ops mktime_utc 0 (reader_on k1 (lcg_bytes 1000 1 ++ kx_archive) p, kx_fs) l) =
  observed (run_ops mktime_utc 0 (reader_on k2 kx_archive p, kx_fs) l).
Proof.
  intros. apply members_same_after_sfx_prefix.
  - vm_compute. reflexivity.
  - vm_compute. discriminate.
  - vm_compute. reflexivity.
  - apply quiet_prefix_ok. vm_compute. reflexivity.
  - vm_compute. reflexivity.
Qed.

(* and it is not vacuous: the run over the stub yields the members *)
Example kx_sfx_run : forall k,
  match observed (run_ops mktime_utc 0 (reader_on k (lcg_bytes 1000 1 ++ kx_archive) DIR_END_OF_DIR, kx_fs) kx_ops) with
  | Ok (xs, f) =>
    map obs_view xs = [(Some [97], [], false); (None, [10; 11; 12], false); (None, [13; 14], false);
                       (Some [98], [], false); (None, [], true); (None, [], false); (None, [], false)] /\ f = kx_fs
  | _ => False
  end.
Proof. intros k. destruct k; vm_compute; split; reflexivity. Qed.

Print Assumptions kx_sfx_thm.
Print Assumptions kx_sfx_run.
Print Assumptions kx_two_members.
Print Assumptions kx_two_members_thm.
Print Assumptions kx_extract.
Print Assumptions kx_sfx_same.
Print Assumptions kx_truncated_next.
Print Assumptions kx_truncated_read.
Print Assumptions kx_truncated_skip_flag.
Print Assumptions kx_truncated_thm.
Print Assumptions kx_headers.

(* placeholder until the theorems are in place *)
From Lhasa Require Import Base Header.
Example collapse_example : collapse_path [97; 47; 46; 46; 47; 98; 47]%N = [98; 47]%N.
Proof. vm_compute. reflexivity. Qed.

(* Properties_C05.v -- C05: every well-formed level 0-3 header is returned with
   exactly its encoded fields.  Statements only; the specification (field record,
   encoder for the four levels, wf_fields, normalise) is S_Header.v, the proofs
   are in P_Header.v. *)
From Lhasa Require Import Base Generated InputStream Header S_Header P_Header.
Local Open Scope N_scope.

Section C05.
  (* libc mktime, applied to the fields of a DOS time stamp *)
  Variable mktime : N -> N -> N -> N -> Z -> N -> N.

  (* For every well-formed field record -- any level 0..3, any field values, any
     list of extended headers in any order (all known types, duplicates, unknown
     types), level-0 Unix / OS-9 extended areas, directories and symlinks -- and any
     following data: parsing the encoded header yields exactly normalise(fields)
     (separators normalised, DOS names folded, OS-9 permissions mapped, -lk7-
     renaming, level-1 compressed size reduced by the extended headers, later
     extended headers overriding earlier ones, path collapsed), and leaves the
     stream positioned at the member's data. *)
  Theorem header_roundtrip : forall f data, wf_fields f = true ->
    lha_file_header_read mktime (ready_stream (encode_header f ++ data)) =
    Ok (normalise mktime f, ready_stream_after f data).
  Proof. exact (P_Header.header_roundtrip mktime). Qed.

  Theorem header_roundtrip_data : forall f data, wf_fields f = true ->
    exists st, lha_file_header_read mktime (ready_stream (encode_header f ++ data)) = Ok (normalise mktime f, st)
               /\ so_data (is_src st) = data /\ is_leadin st = [] /\ is_state st = IS_READING.
  Proof. exact (P_Header.header_roundtrip_data mktime). Qed.
End C05.

(* the model's in-place path collapser is the stack-based specification *)
Theorem collapse_path_is_spec : forall p, collapse_path p = collapse p.
Proof. exact P_Header.collapse_path_is_collapse. Qed.

Print Assumptions header_roundtrip.
Print Assumptions header_roundtrip_data.
Print Assumptions collapse_path_is_spec.

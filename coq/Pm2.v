(* Pm2.v -- model of lib/pm2_decoder.c (PMarc -pm2-).
   Checked-access sites 930-999.  The tree functions are Tree.v instantiated
   with TreeElement = uint8_t (leaf = pm2_TREE_NODE_LEAF = 128). *)
From Lhasa Require Import Base DecBase BitReader Loop Tree PmaCommon Generated.
Local Open Scope N_scope.

(* typedef enum { PM2_REBUILD_UNBUILT, PM2_REBUILD_BUILD1, PM2_REBUILD_BUILD2,
                  PM2_REBUILD_BUILD3, PM2_REBUILD_CONTINUING } PM2RebuildState; *)
Inductive pm2_rebuild_state :=
| PM2_REBUILD_UNBUILT | PM2_REBUILD_BUILD1 | PM2_REBUILD_BUILD2
| PM2_REBUILD_BUILD3 | PM2_REBUILD_CONTINUING.

(* typedef struct {
       BitStreamReader bit_stream_reader;
       PM2RebuildState tree_state;
       size_t tree_rebuild_remaining;
       uint8_t ringbuf[RING_BUFFER_SIZE];
       unsigned int ringbuf_pos;
       HistoryLinkedList history_list;
       TreeElement code_tree[CODE_TREE_ELEMENTS];
       int need_offset_tree;
       TreeElement offset_tree[OFFSET_TREE_ELEMENTS];
   } LHAPM2Decoder; *)
Record pm2_state := {
  pm2_bsr : bsr;
  pm2_tree_state : pm2_rebuild_state;
  pm2_tree_rebuild_remaining : N;
  pm2_ringbuf : arr;
  pm2_ringbuf_pos : N;
  pm2_history_list : hlist;
  pm2_code_tree : arr;
  pm2_need_offset_tree : bool;
  pm2_offset_tree : arr
}.

Definition pm2_set_bsr (s : pm2_state) (r : bsr) : pm2_state :=
  {| pm2_bsr := r; pm2_tree_state := pm2_tree_state s;
     pm2_tree_rebuild_remaining := pm2_tree_rebuild_remaining s;
     pm2_ringbuf := pm2_ringbuf s; pm2_ringbuf_pos := pm2_ringbuf_pos s;
     pm2_history_list := pm2_history_list s; pm2_code_tree := pm2_code_tree s;
     pm2_need_offset_tree := pm2_need_offset_tree s; pm2_offset_tree := pm2_offset_tree s |}.

Definition pm2_set_tree_state (s : pm2_state) (ts : pm2_rebuild_state) (remaining : N) : pm2_state :=
  {| pm2_bsr := pm2_bsr s; pm2_tree_state := ts;
     pm2_tree_rebuild_remaining := remaining;
     pm2_ringbuf := pm2_ringbuf s; pm2_ringbuf_pos := pm2_ringbuf_pos s;
     pm2_history_list := pm2_history_list s; pm2_code_tree := pm2_code_tree s;
     pm2_need_offset_tree := pm2_need_offset_tree s; pm2_offset_tree := pm2_offset_tree s |}.

Definition pm2_set_code_tree (s : pm2_state) (t : arr) : pm2_state :=
  {| pm2_bsr := pm2_bsr s; pm2_tree_state := pm2_tree_state s;
     pm2_tree_rebuild_remaining := pm2_tree_rebuild_remaining s;
     pm2_ringbuf := pm2_ringbuf s; pm2_ringbuf_pos := pm2_ringbuf_pos s;
     pm2_history_list := pm2_history_list s; pm2_code_tree := t;
     pm2_need_offset_tree := pm2_need_offset_tree s; pm2_offset_tree := pm2_offset_tree s |}.

Definition pm2_set_need_offset_tree (s : pm2_state) (b : bool) : pm2_state :=
  {| pm2_bsr := pm2_bsr s; pm2_tree_state := pm2_tree_state s;
     pm2_tree_rebuild_remaining := pm2_tree_rebuild_remaining s;
     pm2_ringbuf := pm2_ringbuf s; pm2_ringbuf_pos := pm2_ringbuf_pos s;
     pm2_history_list := pm2_history_list s; pm2_code_tree := pm2_code_tree s;
     pm2_need_offset_tree := b; pm2_offset_tree := pm2_offset_tree s |}.

Definition pm2_set_offset_tree (s : pm2_state) (t : arr) : pm2_state :=
  {| pm2_bsr := pm2_bsr s; pm2_tree_state := pm2_tree_state s;
     pm2_tree_rebuild_remaining := pm2_tree_rebuild_remaining s;
     pm2_ringbuf := pm2_ringbuf s; pm2_ringbuf_pos := pm2_ringbuf_pos s;
     pm2_history_list := pm2_history_list s; pm2_code_tree := pm2_code_tree s;
     pm2_need_offset_tree := pm2_need_offset_tree s; pm2_offset_tree := t |}.

(* static const VariableLengthTable history_decode[] = {...};
   static const VariableLengthTable copy_decode[] = {...}; *)
Definition pm2_history_decode : vltable :=
  mk_vltable pm2_history_decode_offset pm2_history_decode_bits.
Definition pm2_copy_decode : vltable :=
  mk_vltable pm2_copy_decode_offset pm2_copy_decode_bits.

(* x % RING_BUFFER_SIZE; the comparison avoids a division in the common case
   (the result is x mod RING_BUFFER_SIZE either way). *)
Definition pm2_ring_mod (x : N) : N :=
  if x <? pm2_RING_BUFFER_SIZE then x else x mod pm2_RING_BUFFER_SIZE.

(* static int lha_pm2_decoder_init(void *data, LHADecoderCallback callback, void *callback_data)
   {
       bit_stream_reader_init(&decoder->bit_stream_reader, callback, callback_data);
       decoder->tree_state = PM2_REBUILD_UNBUILT;
       decoder->tree_rebuild_remaining = 0;
       memset(&decoder->ringbuf, ' ', RING_BUFFER_SIZE);
       decoder->ringbuf_pos = 0;
       init_history_list(&decoder->history_list);
       init_tree(decoder->code_tree, CODE_TREE_ELEMENTS);
       init_tree(decoder->offset_tree, OFFSET_TREE_ELEMENTS);
       return 1;
   }
   need_offset_tree is not assigned here: its value is the 0 of the calloc()
   in lha_decoder_new. *)
Definition pm2_init : outcome pm2_state :=
  if pm2_RING_BUFFER_SIZE <=? pm2_ringbuf_extent then
    h <- init_history_list ;;
    ct <- init_tree pm2_TREE_NODE_LEAF (mk_arr pm2_code_tree_extent 0) pm2_CODE_TREE_ELEMENTS ;;
    ot <- init_tree pm2_TREE_NODE_LEAF (mk_arr pm2_offset_tree_extent 0) pm2_OFFSET_TREE_ELEMENTS ;;
    Ok {| pm2_bsr := bsr_init;
          pm2_tree_state := PM2_REBUILD_UNBUILT;
          pm2_tree_rebuild_remaining := 0;
          pm2_ringbuf := mk_arr pm2_ringbuf_extent 32;
          pm2_ringbuf_pos := 0;
          pm2_history_list := h;
          pm2_code_tree := ct;
          pm2_need_offset_tree := false;
          pm2_offset_tree := ot |}
  else Fault 930.

Section Pm2.
  Context {cbs : Type}.
  Variable cb : callback cbs.

  (* for (i = 0; i < (unsigned int) num_codes; ++i) {
         val = read_bits(&decoder->bit_stream_reader, (unsigned int) length_bits);
         if (val < 0) return 0;
         else if (val == 0) code_lengths[i] = 0;
         else code_lengths[i] = (uint8_t) (min_code_length + val - 1);
     }
     [n] iterations left (num_codes <= 31); None = the "return 0". *)
  Fixpoint read_code_lengths (n : nat) (i : N) (code_lengths : arr) (min_code_length length_bits : N)
           (r : bsr) (c : cbs) : outcome (option arr * bsr * cbs) :=
    match n with
    | O => Ok (Some code_lengths, r, c)
    | S k =>
      '(val, r', c') <- read_bits cb r c length_bits ;;
      match val with
      | None => Ok (None, r', c')
      | Some v =>
        cl' <- wr 931 code_lengths i (if v =? 0 then 0 else u8 (min_code_length + v - 1)) ;;
        read_code_lengths k (i + 1) cl' min_code_length length_bits r' c'
      end
    end.

  (* static int read_code_tree(LHAPM2Decoder *decoder)
     {
         uint8_t code_lengths[31];
         num_codes = read_bits(&decoder->bit_stream_reader, 5);
         min_code_length = read_bits(&decoder->bit_stream_reader, 3);
         if (min_code_length < 0 || num_codes < 0) return 0;
         decoder->need_offset_tree = num_codes >= 10 && !(num_codes == 29 && min_code_length == 0);
         if (min_code_length == 0) {
             set_tree_single(decoder->code_tree, num_codes - 1);
             return 1;
         }
         length_bits = read_bits(&decoder->bit_stream_reader, 3);
         if (length_bits < 0) return 0;
         for (...) {...}
         build_tree(decoder->code_tree, sizeof(decoder->code_tree), code_lengths, (unsigned int) num_codes);
         return 1;
     }
     num_codes - 1 is converted to TreeElement (uint8_t): -1 becomes 255.
     sizeof(decoder->code_tree) is a byte count; it is the element count
     because sizeof(TreeElement) = 1 (pm2_tree_element_size).
     The result is the int returned (callers ignore it). *)
  Definition read_code_tree (s : pm2_state) (c : cbs) : outcome (bool * pm2_state * cbs) :=
    '(num_codes, r1, c1) <- read_bits cb (pm2_bsr s) c 5 ;;
    '(min_code_length, r2, c2) <- read_bits cb r1 c1 3 ;;
    let s2 := pm2_set_bsr s r2 in
    match min_code_length, num_codes with
    | Some mcl, Some nc =>
      let s3 := pm2_set_need_offset_tree s2
                  ((10 <=? nc) && negb ((nc =? 29) && (mcl =? 0))) in
      if mcl =? 0 then
        t <- set_tree_single pm2_TREE_NODE_LEAF (pm2_code_tree s3) (u8 (nc + 255)) ;;
        Ok (true, pm2_set_code_tree s3 t, c2)
      else
        '(length_bits, r3, c3) <- read_bits cb r2 c2 3 ;;
        let s4 := pm2_set_bsr s3 r3 in
        match length_bits with
        | None => Ok (false, s4, c3)
        | Some lb =>
          '(cl, r4, c4) <- read_code_lengths (N.to_nat nc) 0 (mk_arr pm2_code_lengths_extent 0)
                                             mcl lb r3 c3 ;;
          let s5 := pm2_set_bsr s4 r4 in
          match cl with
          | None => Ok (false, s5, c4)
          | Some code_lengths =>
            t <- build_tree pm2_TREE_NODE_LEAF (pm2_code_tree s5) pm2_code_tree_extent code_lengths nc ;;
            Ok (true, pm2_set_code_tree s5 t, c4)
          end
        end
    | _, _ => Ok (false, s2, c2)
    end.

  (* for (off = 0; off < num_offsets; ++off) {
         len = read_bits(&decoder->bit_stream_reader, 3);
         if (len < 0) return 0;
         offset_lengths[off] = (uint8_t) len;
         if (len != 0) { single_offset = off; ++num_codes; }
     }
     [n] iterations left (num_offsets <= 8); None = the "return 0". *)
  Fixpoint read_offset_lengths (n : nat) (off : N) (offset_lengths : arr) (single_offset num_codes : N)
           (r : bsr) (c : cbs) : outcome (option (arr * N * N) * bsr * cbs) :=
    match n with
    | O => Ok (Some (offset_lengths, single_offset, num_codes), r, c)
    | S k =>
      '(len, r', c') <- read_bits cb r c 3 ;;
      match len with
      | None => Ok (None, r', c')
      | Some l =>
        ol' <- wr 932 offset_lengths off (u8 l) ;;
        if l =? 0 then read_offset_lengths k (off + 1) ol' single_offset num_codes r' c'
        else read_offset_lengths k (off + 1) ol' off (u32 (num_codes + 1)) r' c'
      end
    end.

  (* static int read_offset_tree(LHAPM2Decoder *decoder, unsigned int num_offsets)
     {
         uint8_t offset_lengths[8];
         if (!decoder->need_offset_tree) return 1;
         num_codes = 0; single_offset = 0;
         for (...) {...}
         if (num_codes == 1) {
             set_tree_single(decoder->offset_tree, single_offset);
             return 1;
         }
         build_tree(decoder->offset_tree, sizeof(decoder->offset_tree), offset_lengths, num_offsets);
         return 1;
     } *)
  Definition read_offset_tree (s : pm2_state) (c : cbs) (num_offsets : N)
    : outcome (bool * pm2_state * cbs) :=
    if negb (pm2_need_offset_tree s) then Ok (true, s, c)
    else
      '(res, r1, c1) <- read_offset_lengths (N.to_nat num_offsets) 0
                          (mk_arr pm2_offset_lengths_extent 0) 0 0 (pm2_bsr s) c ;;
      let s1 := pm2_set_bsr s r1 in
      match res with
      | None => Ok (false, s1, c1)
      | Some (offset_lengths, single_offset, num_codes) =>
        if num_codes =? 1 then
          t <- set_tree_single pm2_TREE_NODE_LEAF (pm2_offset_tree s1) (u8 single_offset) ;;
          Ok (true, pm2_set_offset_tree s1 t, c1)
        else
          t <- build_tree pm2_TREE_NODE_LEAF (pm2_offset_tree s1) pm2_offset_tree_extent
                          offset_lengths num_offsets ;;
          Ok (true, pm2_set_offset_tree s1 t, c1)
      end.

  (* if (read_bit(&decoder->bit_stream_reader) == 1) *)
  Definition pm2_read_bit_is_1 (s : pm2_state) (c : cbs) : outcome (bool * pm2_state * cbs) :=
    '(bit, r, c') <- read_bit cb (pm2_bsr s) c ;;
    Ok (match bit with Some 1 => true | _ => false end, pm2_set_bsr s r, c').

  (* static void rebuild_tree(LHAPM2Decoder *decoder)
     {
         switch (decoder->tree_state) {
         case PM2_REBUILD_UNBUILT:
             read_code_tree(decoder); read_offset_tree(decoder, 5);
             decoder->tree_state = PM2_REBUILD_BUILD1; decoder->tree_rebuild_remaining = 1024; break;
         case PM2_REBUILD_BUILD1:
             read_offset_tree(decoder, 6);
             decoder->tree_state = PM2_REBUILD_BUILD2; decoder->tree_rebuild_remaining = 1024; break;
         case PM2_REBUILD_BUILD2:
             read_offset_tree(decoder, 7);
             decoder->tree_state = PM2_REBUILD_BUILD3; decoder->tree_rebuild_remaining = 2048; break;
         case PM2_REBUILD_BUILD3:
             if (read_bit(&decoder->bit_stream_reader) == 1) read_code_tree(decoder);
             read_offset_tree(decoder, 8);
             decoder->tree_state = PM2_REBUILD_CONTINUING; decoder->tree_rebuild_remaining = 4096; break;
         case PM2_REBUILD_CONTINUING:
             if (read_bit(&decoder->bit_stream_reader) == 1) { read_code_tree(decoder); read_offset_tree(decoder, 8); }
             decoder->tree_rebuild_remaining = 4096; break;
         }
     }
     The results of read_code_tree / read_offset_tree are ignored. *)
  Definition rebuild_tree (s : pm2_state) (c : cbs) : outcome (pm2_state * cbs) :=
    match pm2_tree_state s with
    | PM2_REBUILD_UNBUILT =>
      '(_, s1, c1) <- read_code_tree s c ;;
      '(_, s2, c2) <- read_offset_tree s1 c1 5 ;;
      Ok (pm2_set_tree_state s2 PM2_REBUILD_BUILD1 1024, c2)
    | PM2_REBUILD_BUILD1 =>
      '(_, s1, c1) <- read_offset_tree s c 6 ;;
      Ok (pm2_set_tree_state s1 PM2_REBUILD_BUILD2 1024, c1)
    | PM2_REBUILD_BUILD2 =>
      '(_, s1, c1) <- read_offset_tree s c 7 ;;
      Ok (pm2_set_tree_state s1 PM2_REBUILD_BUILD3 2048, c1)
    | PM2_REBUILD_BUILD3 =>
      '(one, s1, c1) <- pm2_read_bit_is_1 s c ;;
      '(s2, c2) <- (if one then '(_, s', c') <- read_code_tree s1 c1 ;; Ok (s', c')
                    else Ok (s1, c1)) ;;
      '(_, s3, c3) <- read_offset_tree s2 c2 8 ;;
      Ok (pm2_set_tree_state s3 PM2_REBUILD_CONTINUING 4096, c3)
    | PM2_REBUILD_CONTINUING =>
      '(one, s1, c1) <- pm2_read_bit_is_1 s c ;;
      '(s3, c3) <- (if one then
                      '(_, s2, c2) <- read_code_tree s1 c1 ;;
                      '(_, s3, c3) <- read_offset_tree s2 c2 8 ;;
                      Ok (s3, c3)
                    else Ok (s1, c1)) ;;
      Ok (pm2_set_tree_state s3 PM2_REBUILD_CONTINUING 4096, c3)
    end.

  (* static void output_byte(LHAPM2Decoder *decoder, uint8_t *buf, size_t *buf_len, uint8_t b)
     {
         decoder->ringbuf[decoder->ringbuf_pos] = b;
         decoder->ringbuf_pos = (decoder->ringbuf_pos + 1) % RING_BUFFER_SIZE;
         buf[*buf_len] = b;
         ++*buf_len;
         update_history_list(&decoder->history_list, b);
         --decoder->tree_rebuild_remaining;
         if (decoder->tree_rebuild_remaining == 0) rebuild_tree(decoder);
     }
     buf is the decoder's output buffer of max_read bytes; *buf_len is ob_len.
     tree_rebuild_remaining is a size_t: decrementing 0 gives SIZE_MAX. *)
  Definition output_byte (s : pm2_state) (c : cbs) (o : obuf) (b : N)
    : outcome (pm2_state * cbs * obuf) :=
    let b := u8 b in
    ring' <- wr 933 (pm2_ringbuf s) (pm2_ringbuf_pos s) b ;;
    let pos' := pm2_ring_mod (u32 (pm2_ringbuf_pos s + 1)) in
    o' <- ob_push 934 pm2_max_read o b ;;
    h' <- update_history_list (pm2_history_list s) b ;;
    let remaining := if pm2_tree_rebuild_remaining s =? 0 then pm2_SIZE_MAX
                     else pm2_tree_rebuild_remaining s - 1 in
    let s' := {| pm2_bsr := pm2_bsr s; pm2_tree_state := pm2_tree_state s;
                 pm2_tree_rebuild_remaining := remaining;
                 pm2_ringbuf := ring'; pm2_ringbuf_pos := pos';
                 pm2_history_list := h'; pm2_code_tree := pm2_code_tree s;
                 pm2_need_offset_tree := pm2_need_offset_tree s;
                 pm2_offset_tree := pm2_offset_tree s |} in
    if remaining =? 0 then
      '(s'', c') <- rebuild_tree s' c ;; Ok (s'', c', o')
    else Ok (s', c, o').

  (* static void read_single_byte(LHAPM2Decoder *decoder, unsigned int code, uint8_t *buf, size_t *buf_len)
     {
         offset = decode_variable_length(&decoder->bit_stream_reader, history_decode, code);
         if (offset < 0) return;
         b = find_in_history_list(&decoder->history_list, (uint8_t) offset);
         output_byte(decoder, buf, buf_len, b);
     } *)
  Definition read_single_byte (s : pm2_state) (c : cbs) (o : obuf) (code : N)
    : outcome (pm2_state * cbs * obuf) :=
    '(offset, r, c1) <- decode_variable_length cb pm2_history_decode (pm2_bsr s) c code ;;
    let s1 := pm2_set_bsr s r in
    match offset with
    | None => Ok (s1, c1, o)
    | Some off =>
      b <- find_in_history_list (pm2_history_list s1) (u8 off) ;;
      output_byte s1 c1 o b
    end.

  (* static int history_get_count(LHAPM2Decoder *decoder, unsigned int code)
     {
         if (code < 15) return (int) code + 2;
         else if (code - 15 >= sizeof(copy_decode) / sizeof( *copy_decode)) return -1;
         else return decode_variable_length(&decoder->bit_stream_reader, copy_decode, code - 15);
     } *)
  Definition history_get_count (s : pm2_state) (c : cbs) (code : N)
    : outcome (option N * pm2_state * cbs) :=
    if code <? 15 then Ok (Some (code + 2), s, c)
    else if pm2_copy_decode_offset_len <=? code - 15 then Ok (None, s, c)
    else
      '(v, r, c') <- decode_variable_length cb pm2_copy_decode (pm2_bsr s) c (code - 15) ;;
      Ok (v, pm2_set_bsr s r, c').

  (* static int history_get_offset(LHAPM2Decoder *decoder, unsigned int code)
     {
         result = 0;
         if (code == 0) bits = 6;
         else if (code < 20) {
             val = read_from_tree(&decoder->bit_stream_reader, decoder->offset_tree);
             if (val < 0) return -1;
             else if (val == 0) bits = 6;
             else { bits = (unsigned int) val + 5; result = 1 << bits; }
         }
         else return 0;
         val = read_bits(&decoder->bit_stream_reader, bits);
         if (val < 0) return -1;
         result += val;
         return result;
     }
     1 << bits is an int shift: undefined for bits >= 31 (site 935).  Tree
     leaves hold at most 127, so bits <= 132. *)
  (* the tail of history_get_offset:
         val = read_bits(&decoder->bit_stream_reader, bits);
         if (val < 0) return -1;
         result += val;
         return result; *)
  Definition history_get_offset_value (s : pm2_state) (c : cbs) (bits result : N)
    : outcome (option N * pm2_state * cbs) :=
    '(val, r, c') <- read_bits cb (pm2_bsr s) c bits ;;
    let s' := pm2_set_bsr s r in
    match val with
    | None => Ok (None, s', c')
    | Some v => Ok (Some (result + v), s', c')
    end.

  Definition history_get_offset (s : pm2_state) (c : cbs) (code : N)
    : outcome (option N * pm2_state * cbs) :=
    if code =? 0 then history_get_offset_value s c 6 0
    else if code <? 20 then
      '(val, r, c1) <- read_from_tree pm2_TREE_NODE_LEAF cb (pm2_offset_tree s) (pm2_bsr s) c ;;
      let s1 := pm2_set_bsr s r in
      match val with
      | None => Ok (None, s1, c1)
      | Some v =>
        if v =? 0 then history_get_offset_value s1 c1 6 0
        else
          let bits := v + 5 in
          if 31 <=? bits then Fault 935
          else history_get_offset_value s1 c1 bits (N.shiftl 1 bits)
      end
    else Ok (Some 0, s, c).

  (* for (i = 0; i < (unsigned int) to_copy; ++i) {
         pos = (start + i) % RING_BUFFER_SIZE;
         output_byte(decoder, buf, buf_len, decoder->ringbuf[pos]);
     }
     start, i, pos are unsigned int.  [n] iterations left (to_copy <= 256). *)
  Fixpoint copy_loop (n : nat) (i start : N) (s : pm2_state) (c : cbs) (o : obuf)
    : outcome (pm2_state * cbs * obuf) :=
    match n with
    | O => Ok (s, c, o)
    | S k =>
      let pos := pm2_ring_mod (u32 (start + i)) in
      b <- rd 936 (pm2_ringbuf s) pos ;;
      '(s', c', o') <- output_byte s c o b ;;
      copy_loop k (i + 1) start s' c' o'
    end.

  (* static void copy_from_history(LHAPM2Decoder *decoder, unsigned int code, uint8_t *buf, size_t *buf_len)
     {
         to_copy = history_get_count(decoder, code);
         offset = history_get_offset(decoder, code);
         if (to_copy < 0 || offset < 0) return;
         if (to_copy > OUTPUT_BUFFER_SIZE) return;
         start = decoder->ringbuf_pos + RING_BUFFER_SIZE - 1 - (unsigned int) offset;
         for (...) {...}
     }
     start is computed in unsigned int arithmetic (2^32 added so that the
     subtraction on N does not truncate; offset < 2^31). *)
  Definition copy_from_history (s : pm2_state) (c : cbs) (o : obuf) (code : N)
    : outcome (pm2_state * cbs * obuf) :=
    '(to_copy, s1, c1) <- history_get_count s c code ;;
    '(offset, s2, c2) <- history_get_offset s1 c1 code ;;
    match to_copy, offset with
    | Some n, Some off =>
      if pm2_OUTPUT_BUFFER_SIZE <? n then Ok (s2, c2, o)
      else
        let start := u32 (pm2_ringbuf_pos s2 + pm2_RING_BUFFER_SIZE + 4294967296 - 1 - off) in
        copy_loop (N.to_nat n) 0 start s2 c2 o
    | _, _ => Ok (s2, c2, o)
    end.

  (* static size_t lha_pm2_decoder_read(void *data, uint8_t *buf)
     {
         if (decoder->tree_state == PM2_REBUILD_UNBUILT) {
             read_bit(&decoder->bit_stream_reader);
             rebuild_tree(decoder);
         }
         result = 0;
         code = read_from_tree(&decoder->bit_stream_reader, decoder->code_tree);
         if (code < 0) return 0;
         if (code < 8) read_single_byte(decoder, (unsigned int) code, buf, &result);
         else copy_from_history(decoder, (unsigned int) code - 8, buf, &result);
         return result;
     } *)
  Definition pm2_read (s : pm2_state) (c : cbs) : outcome (list N * pm2_state * cbs) :=
    '(s1, c1) <- (match pm2_tree_state s with
                  | PM2_REBUILD_UNBUILT =>
                    '(_, r, c') <- read_bit cb (pm2_bsr s) c ;;
                    rebuild_tree (pm2_set_bsr s r) c'
                  | _ => Ok (s, c)
                  end) ;;
    '(code, r2, c2) <- read_from_tree pm2_TREE_NODE_LEAF cb (pm2_code_tree s1) (pm2_bsr s1) c1 ;;
    let s2 := pm2_set_bsr s1 r2 in
    match code with
    | None => Ok ([], s2, c2)
    | Some cv =>
      '(s3, c3, o) <- (if cv <? 8 then read_single_byte s2 c2 ob_empty cv
                       else copy_from_history s2 c2 ob_empty (cv - 8)) ;;
      Ok (ob_bytes o, s3, c3)
    end.
End Pm2.

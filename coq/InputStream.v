(* InputStream.v -- model of lib/lha_input_stream.c over four kinds of byte
   source: seekable FILE, non-seekable FILE (pipe), callbacks with a skip
   function, callbacks without one. *)
From Lhasa Require Import Base Loop Generated.
Local Open Scope N_scope.

Inductive skind : Type := KFile | KPipe | KCbSkip | KCbNoSkip.

(* The raw source: bytes not yet consumed; counters of the requests made to it
   (what "work" means for C13). *)
Record source := { so_kind : skind; so_data : list N; so_reads : N; so_skips : N }.

Definition mk_source (k : skind) (data : list N) : source :=
  {| so_kind := k; so_data := data; so_reads := 0; so_skips := 0 |}.

(* type->read: fread / the harness callbacks deliver min(n, remaining) bytes;
   0 = end of input. *)
Definition raw_read (s : source) (n : N) : list N * source :=
  (firstn_N n (so_data s),
   {| so_kind := so_kind s; so_data := skipn_N n (so_data s);
      so_reads := so_reads s + 1; so_skips := so_skips s |}).

(* file_source_skip_fallback: read 32 bytes at a time; a short read is failure *)
Definition fallback_step (st : source * N) : outcome ((source * N) + (bool * source)) :=
  let '(s, bytes) := st in
  if 0 <? bytes then
    let len := if 32 <? bytes then 32 else bytes in
    let '(got, s') := raw_read s len in
    if nlen got =? len then Ok (inl (s', bytes - len)) else Ok (inr (false, s'))
  else Ok (inr (true, s)).

(* type->skip for the three kinds that have one *)
Definition raw_skip (s : source) (bytes : N) : outcome (bool * source) :=
  let s1 := {| so_kind := so_kind s; so_data := so_data s; so_reads := so_reads s;
               so_skips := so_skips s + 1 |} in
  match so_kind s with
  | KFile =>
    (* fseek(SEEK_CUR) succeeds also beyond the end of the file *)
    Ok (true, {| so_kind := KFile; so_data := skipn_N bytes (so_data s1);
                 so_reads := so_reads s1; so_skips := so_skips s1 |})
  | KPipe => loop fallback_step 40 (s1, bytes)
  | KCbSkip =>
    (* the harness's skip callback: fails when fewer bytes remain *)
    if bytes <=? nlen (so_data s1) then
      Ok (true, {| so_kind := KCbSkip; so_data := skipn_N bytes (so_data s1);
                   so_reads := so_reads s1; so_skips := so_skips s1 |})
    else Ok (false, {| so_kind := KCbSkip; so_data := []; so_reads := so_reads s1;
                       so_skips := so_skips s1 |})
  | KCbNoSkip => Ok (false, s)       (* not used: type->skip == NULL *)
  end.

(* ---- LHAInputStream ---- *)
Inductive istate : Type := IS_INIT | IS_READING | IS_FAIL.
Record istream := { is_src : source; is_state : istate; is_leadin : list N }.

Definition lha_input_stream_new (s : source) : istream :=
  {| is_src := s; is_state := IS_INIT; is_leadin := [] |}.

(* checked access to leadin[i] (the valid part is leadin_len bytes of a 24-byte array) *)
Definition leadin_at (site : N) (l : list N) (i : N) : outcome N :=
  if i <? leadin_extent then
    match nth_N l i with Some b => Ok b | None => Fault site (* beyond leadin_len: stale *) end
  else Fault site.

(* file_header_match(buf = leadin + i) *)
Definition file_header_match (l : list N) (i : N) : outcome bool :=
  b2 <- leadin_at 1101 l (i + 2) ;;
  b6 <- leadin_at 1102 l (i + 6) ;;
  if negb ((b2 =? 45) && (b6 =? 45)) then Ok false else
  b3 <- leadin_at 1103 l (i + 3) ;;
  b4 <- leadin_at 1104 l (i + 4) ;;
  b5 <- leadin_at 1105 l (i + 5) ;;
  if (b3 =? 108) && (b4 =? 104) then Ok true                                   (* -lh?- *)
  else if (b3 =? 108) && (b4 =? 122) && ((b5 =? 52) || (b5 =? 53) || (b5 =? 115)) then Ok true  (* -lz4/5/s- *)
  else if (b3 =? 112) && (b4 =? 109) && negb (b5 =? 115) then Ok true           (* -pm?-, not -pms- *)
  else Ok false.

(* memcmp(leadin + i, id, strlen(id)) == 0 *)
Fixpoint memcmp_at (l : list N) (i : N) (id : list N) : outcome bool :=
  match id with
  | [] => Ok true
  | c :: r =>
    b <- leadin_at 1106 l i ;;
    if b =? c then memcmp_at l (i + 1) r else Ok false
  end.

(* for (i = 0; i + 12 < leadin_len; ++i): returns Some i' when a header was found
   (skip_files = 0), otherwise the final i and the skip_files flag *)
Fixpoint scan_leadin (n : nat) (l : list N) (i : N) (skip_files : N) : outcome (option N * N * N) :=
  match n with
  | O => Ok (None, i, skip_files)
  | S k =>
    if i + 12 <? nlen l then
      m <- file_header_match l i ;;
      if m && (skip_files =? 0) then Ok (Some i, i, skip_files)
      else
        let skip_files := if m then skip_files - 1 else skip_files in
        a <- memcmp_at l i DECLHA_SFX_ID ;;
        b <- (if a then Ok true else memcmp_at l i AMIGA_LHASFX_ID) ;;
        scan_leadin k l (i + 1) (if b then 1 else skip_files)
    else Ok (None, i, skip_files)
  end.

Record sfx_st := { sx_src : source; sx_leadin : list N; sx_filepos : N; sx_skip : N }.

(* one iteration of while (filepos < MAX_SFX_HEADER_LEN) *)
Definition sfx_step (s : sfx_st) : outcome (sfx_st + (bool * source * list N)) :=
  if sx_filepos s <? MAX_SFX_HEADER_LEN then
    let '(got, src') := raw_read (sx_src s) (LEADIN_BUFFER_LEN - nlen (sx_leadin s)) in
    match got with
    | [] => Ok (inr (false, src', sx_leadin s))
    | _ =>
      let l := sx_leadin s ++ got in
      if leadin_extent <? nlen l then Fault 1107 else
      '(found, i, skip') <- scan_leadin 30 l 0 (sx_skip s) ;;
      match found with
      | Some i0 => Ok (inr (true, src', skipn_N i0 l))
      | None => Ok (inl {| sx_src := src'; sx_leadin := skipn_N i l;
                           sx_filepos := sx_filepos s + i; sx_skip := skip' |})
      end
    end
  else Ok (inr (false, sx_src s, sx_leadin s)).

Definition skip_sfx (st : istream) : outcome (bool * istream) :=
  '(ok, src', l) <- loop sfx_step 24
      {| sx_src := is_src st; sx_leadin := is_leadin st; sx_filepos := 0; sx_skip := 0 |} ;;
  Ok (ok, {| is_src := src'; is_state := is_state st; is_leadin := l |}).

(* The part of lha_input_stream_read after the self-extractor scan (states
   READING / FAIL): drain the lead-in buffer, then the source.
   Some bytes = the buffer was filled completely. *)
Definition read_ready (st1 : istream) (buf_len : N) : option (list N) * istream :=
  match is_state st1 with
  | IS_FAIL => (None, st1)
  | _ =>
    let from_leadin := firstn_N buf_len (is_leadin st1) in
    let l' := skipn_N buf_len (is_leadin st1) in
    let total := nlen from_leadin in
    if total <? buf_len then
      let '(got, src') := raw_read (is_src st1) (buf_len - total) in
      let st2 := {| is_src := src'; is_state := is_state st1; is_leadin := l' |} in
      if total + nlen got =? buf_len then (Some (from_leadin ++ got), st2) else (None, st2)
    else (Some from_leadin, {| is_src := is_src st1; is_state := is_state st1; is_leadin := l' |})
  end.

Definition lha_input_stream_read (st : istream) (buf_len : N) : outcome (option (list N) * istream) :=
  st1 <- match is_state st with
         | IS_INIT =>
           '(ok, st') <- skip_sfx st ;;
           Ok {| is_src := is_src st'; is_state := if ok then IS_READING else IS_FAIL;
                 is_leadin := is_leadin st' |}
         | _ => Ok st
         end ;;
  Ok (read_ready st1 buf_len).

(* the read-based fallback inside lha_input_stream_skip (type->skip == NULL), after
   the fix: a read of 0 bytes is failure *)
Definition noskip_step (st : source * N) : outcome ((source * N) + (bool * source)) :=
  let '(s, bytes) := st in
  if 0 <? bytes then
    let len := if 32 <? bytes then 32 else bytes in
    let '(got, s') := raw_read s len in
    match got with
    | [] => Ok (inr (false, s'))
    | _ => Ok (inl (s', bytes - nlen got))
    end
  else Ok (inr (true, s)).

Definition lha_input_stream_skip (st : istream) (bytes : N) : outcome (bool * istream) :=
  '(ok, src') <- match so_kind (is_src st) with
                 | KCbNoSkip => loop noskip_step 40 (is_src st, bytes)
                 | _ => raw_skip (is_src st) bytes
                 end ;;
  Ok (ok, {| is_src := src'; is_state := is_state st; is_leadin := is_leadin st |}).

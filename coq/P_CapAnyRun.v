(* P_CapAnyRun.v -- the run of "lha x" on archive_of ds when the symbolic links of
   the description may point anywhere (S_CapAny.wf_descs_any).

   P_CliTree.forest_run once more, with the dangerous links: such a link gets a
   placeholder (an empty file, mode 0600) and goes to the reader's deferred list;
   after the last member the deferred links are presented again, one iteration
   each.  Result (any_run): extract_archive returns (no fault, within the loop
   bound), and every header the loop obtains from lha_filter_next_file -- the
   members as parsed, the directories presented again, the deferred links -- is
   the header of a member of the description.  The final phase is followed for
   its control flow only: whether an operation of it succeeds is not needed here
   (it may fail: a directory whose recorded mode is read-only has been closed by
   then). *)
From Lhasa Require Import Base ListN DecBase Loop Generated Crc16 P_Crc16 InputStream Header S_Header BasicReader
  AnyDecoder Decoder MacBinary Fs FsRun Reader P_Header
  P_ReaderCheck P_ReaderExtract Glob ListOut CliFilter CliExtract CliMain P_FsExtract P_CliExtract P_CliTree
  S_Capstone P_CapHeader P_CapItems P_CapMember P_CapReader P_Capstone P_CapCli S_CapAny.
From Coq Require Import ZifyBool ZifyN ZifyNat.
Local Open Scope N_scope.

Set Default Timeout 300.

(* ------------------------------------------------------------------ *)
(* 1. the bytes: the reader delivers the members, whatever the targets  *)

Lemma wf_desc_any_all uid0 dl : forall l,
  (fix all (l : list desc) : Prop := match l with [] => True | x :: r => wf_desc_any uid0 dl x /\ all r end) l <->
  Forall (wf_desc_any uid0 dl) l.
Proof.
  induction l as [|x r IH].
  - split; intros H; [constructor|exact I].
  - split; intros H.
    + destruct H as [H1 H2]. constructor; [exact H1|apply IH; exact H2].
    + inversion H; subst. split; [assumption|]. apply IH. assumption.
Qed.

(* the safe descriptions are among them *)
Lemma wf_desc_is_any uid0 : forall d dl, wf_desc uid0 dl d -> wf_desc_any uid0 dl d.
Proof.
  induction d as [c m t bs|c t tgt|c m t sub IH] using desc_ind'; intros dl H; cbn [wf_desc wf_desc_any] in *.
  - exact H.
  - destruct H as (A & B & C & D & E & F & _). repeat (split; [assumption|]). assumption.
  - destruct H as (A & B & C & D & E & Hall). repeat (split; [assumption|]).
    apply wf_desc_all in Hall. apply wf_desc_any_all. rewrite Forall_forall in *. intros x Hx. apply IH; auto.
Qed.

Lemma wf_descs_is_any uid0 ds : wf_descs uid0 ds -> wf_descs_any uid0 ds.
Proof.
  intros [H Hnd]. split; [|exact Hnd]. rewrite Forall_forall in *. intros d Hd. apply wf_desc_is_any. apply H. exact Hd.
Qed.

Section Bytes.
  Variable mktime : N -> N -> N -> N -> Z -> N -> N.
  Variable junk : N.

  Lemma segs_ok_any uid0 : forall d dl, Forall name_ok dl -> wf_desc_any uid0 dl d -> Forall (seg_ok mktime) (segs_of dl d).
  Proof.
    induction d as [c m t bs|c t tgt|c m t sub IH] using desc_ind'; intros dl Hdl H; cbn [wf_desc_any segs_of] in *.
    - destruct H as (Hc & Hlen & Hm & Ht & Hbl & Hb & _). constructor; [|constructor].
      unfold seg_ok. cbn [sg_f sg_h sg_data].
      split; [apply wf_file_fields; assumption|]. split; [apply norm_file; assumption|].
      split; [reflexivity|]. split; [left; reflexivity|]. split; [reflexivity|].
      split; [reflexivity|]. split; [reflexivity|]. split; [reflexivity|].
      split; [|exact Hbl]. cbn [h_crc file_header mk_header file_fields mk_fields f_crc].
      apply crc16_is_arc_proof; [lia|exact Hb].
    - destruct H as (Hc & Hlen & Ht & Hne & Htl & Htb). constructor; [|constructor].
      unfold seg_ok. cbn [sg_f sg_h sg_data].
      split; [apply wf_link_fields; assumption|]. split; [apply norm_link; assumption|].
      split; [reflexivity|]. split; [right; reflexivity|]. split; [reflexivity|exact I].
    - destruct H as (Hc & Hlen & Hm & Ht & _ & Hall). apply wf_desc_any_all in Hall. constructor.
      + unfold seg_ok. cbn [sg_f sg_h sg_data].
        split; [apply wf_dir_fields; assumption|]. split; [apply norm_dir; assumption|].
        split; [reflexivity|]. split; [right; reflexivity|]. split; [reflexivity|exact I].
      + assert (Hdl' : Forall name_ok (dl ++ [c])) by (apply Forall_app; split; [exact Hdl|constructor; [exact Hc|constructor]]).
        apply Forall_forall. intros s Hin. apply in_flat_map in Hin. destruct Hin as (d & Hd & Hs).
        rewrite Forall_forall in IH, Hall.
        pose proof (IH d Hd (dl ++ [c]) Hdl' (Hall d Hd)) as Hok. rewrite Forall_forall in Hok. apply Hok. exact Hs.
  Qed.

  (* the headers survive: each encoded header is parsed back to the header of the description *)
  Theorem headers_any uid0 d dl : Forall name_ok dl -> wf_desc_any uid0 dl d ->
    Forall (fun s => wf_fields (sg_f s) = true /\ normalise mktime (sg_f s) = Some (sg_h s)) (segs_of dl d).
  Proof.
    intros Hdl H. pose proof (segs_ok_any uid0 d dl Hdl H) as Hok.
    eapply Forall_impl; [|exact Hok]. intros s (H1 & H2 & _). split; assumption.
  Qed.

  Theorem upcoming_archive_any k uid0 ds : Forall (wf_desc_any uid0 []) ds ->
    upcoming mktime junk (lha_reader_new (lha_input_stream_new (mk_source k (archive_of ds)))) (flat_map ser (items_of ds)).
  Proof.
    intros H. rewrite <- archive_of_segs, <- ser_items_segs. apply upcoming_segs.
    rewrite Forall_forall in *. intros s Hin. apply in_flat_map in Hin. destruct Hin as (d & Hd & Hs).
    pose proof (segs_ok_any uid0 d [] (Forall_nil _) (H d Hd)) as Hok. rewrite Forall_forall in Hok. apply Hok. exact Hs.
  Qed.
End Bytes.

(* the headers of the members are the headers of the description *)
Lemma ser_hdrs : forall d dl, map hdr (ser (item_of dl d)) = hdrs_of dl d.
Proof.
  induction d as [c m t bs|c t tgt|c m t sub IH] using desc_ind'; intros dl; cbn [item_of ser hdrs_of map hdr]; try reflexivity.
  f_equal. rewrite map_flat_map, flat_map_map. apply flat_map_ext_in. intros d Hin. rewrite Forall_forall in IH. apply IH. exact Hin.
Qed.

Lemma ser_items_hdrs ds : map hdr (flat_map ser (items_of ds)) = headers_of ds.
Proof.
  unfold items_of, headers_of. rewrite map_flat_map, flat_map_map. apply flat_map_ext_in. intros d _. apply ser_hdrs.
Qed.

(* ------------------------------------------------------------------ *)
(* 2. items whose links may be dangerous                                *)

Definition link_hdr_any (dl : list name) (c : name) (h : header) (tgt : list N) : Prop :=
  opt_str (h_path h) = dirstr dl /\ h_filename h = Some c /\ is_dir_method h = true /\
  h_symlink_target h = Some tgt /\ tgt <> [] /\ nlen tgt <= 4095.

Fixpoint wf_item_any (u : N) (uid0 : bool) (dl : list name) (it : item) : Prop :=
  match it with
  | IFile c h bs => good_name c /\ nlen (dirstr dl ++ c) <= 4095 /\ file_hdr dl c h /\
                    (uid0 = true \/ drop_setid (fmode u h) = fmode u h)
  | ILink c h tgt => good_name c /\ nlen (dirstr dl ++ c) <= 4095 /\ link_hdr_any dl c h tgt
  | IDir c h sub => good_name c /\ nlen (dirstr (dl ++ [c])) <= 4095 /\ dir_hdr dl c h /\
                    NoDup (map iname sub) /\
                    (fix all (l : list item) : Prop :=
                       match l with [] => True | x :: r => wf_item_any u uid0 (dl ++ [c]) x /\ all r end) sub
  end.

Lemma wf_any_all u uid0 dl : forall l,
  (fix all (l : list item) : Prop := match l with [] => True | x :: r => wf_item_any u uid0 dl x /\ all r end) l <->
  Forall (wf_item_any u uid0 dl) l.
Proof.
  induction l as [|x r IH].
  - split; intros H; [constructor|exact I].
  - split; intros H.
    + destruct H as [H1 H2]. constructor; [exact H1|apply IH; exact H2].
    + inversion H; subst. split; [assumption|]. apply IH. assumption.
Qed.

(* the placeholder of a dangerous link: an empty file, mode 0600 *)
Definition placeholder : node := File true 384 now [].

(* the node an item is after the main phase *)
Fixpoint build1 (u : N) (it : item) : node :=
  match it with
  | IFile _ h bs => File true (fmode u h) (h_timestamp h) bs
  | ILink _ h tgt => if is_dangerous_symlink h then placeholder else Link tgt
  | IDir _ h sub => Dir true (dir_final_mode u h) (h_timestamp h) (map (fun x => (iname x, build1 u x)) sub)
  end.
Definition builds1 (u : N) (its : list item) : list (name * node) := map (fun x => (iname x, build1 u x)) its.

Lemma link_hdr_any_ok dl c t tgt : tgt <> [] -> nlen tgt <= 4095 -> link_hdr_any dl c (link_header dl c t tgt) tgt.
Proof.
  intros Hne Hl. unfold link_hdr_any, link_header. cbn [h_path h_filename h_symlink_target mk_header].
  rewrite opt_str_opt_of. split; [reflexivity|]. split; [reflexivity|]. split; [reflexivity|]. split; [reflexivity|].
  split; assumption.
Qed.

Theorem wf_item_any_of u uid0 : forall d dl, wf_desc_any uid0 dl d -> wf_item_any u uid0 dl (item_of dl d).
Proof.
  induction d as [c m t bs|c t tgt|c m t sub IH] using desc_ind'; intros dl H; cbn [wf_desc_any item_of wf_item_any] in *.
  - destruct H as (Hc & Hlen & Hm & Ht & Hbl & Hb & Hsid).
    split; [apply Hc|]. split; [exact Hlen|]. split; [apply file_hdr_ok|].
    rewrite (fmode_file u dl c m t bs Hm). exact Hsid.
  - destruct H as (Hc & Hlen & Ht & Hne & Htl & Htb).
    split; [apply Hc|]. split; [exact Hlen|]. apply link_hdr_any_ok; assumption.
  - destruct H as (Hc & Hlen & Hm & Ht & Hnd & Hall). apply wf_desc_any_all in Hall.
    split; [apply Hc|]. split; [exact Hlen|]. split; [apply dir_hdr_ok|].
    split; [rewrite map_iname_items; exact Hnd|].
    apply wf_any_all. rewrite Forall_forall in *. intros it Hin. apply in_map_iff in Hin. destruct Hin as (d & <- & Hin).
    apply IH; [exact Hin|]. apply Hall. exact Hin.
Qed.

Corollary wf_items_any_of u uid0 ds : wf_descs_any uid0 ds ->
  Forall (wf_item_any u uid0 []) (items_of ds) /\ NoDup (map iname (items_of ds)).
Proof.
  intros [H Hnd]. split.
  - unfold items_of. rewrite Forall_forall in *. intros it Hin. apply in_map_iff in Hin. destruct Hin as (d & <- & Hin).
    apply wf_item_any_of. apply H. exact Hin.
  - unfold items_of. rewrite map_iname_items. exact Hnd.
Qed.

Lemma ser_head_pstr_any u uid0 dl it : wf_item_any u uid0 dl it ->
  exists m tl, ser it = m :: tl /\ hdr m = ihdr it /\
    (pstr m = dirstr dl \/ pstr m = dirstr (dl ++ [iname it])).
Proof.
  destruct it as [c h bs|c h tgt|c h sub]; cbn [wf_item_any ser].
  - intros (_ & _ & (Hp & _) & _). eexists _, _. split; [reflexivity|]. split; [reflexivity|]. left. exact Hp.
  - intros (_ & _ & (Hp & _)). eexists _, _. split; [reflexivity|]. split; [reflexivity|]. left. exact Hp.
  - intros (_ & _ & (Hp & _) & _). eexists _, _. split; [reflexivity|]. split; [reflexivity|]. right.
    unfold pstr. cbn [hdr iname]. rewrite Hp. reflexivity.
Qed.

(* ------------------------------------------------------------------ *)
(* 3. the placeholder of a dangerous link                               *)

Section DLink.
  Variable junk : N.

  Theorem cli_extract_dlink h st dl c o pm t ents tgt :
    let s := cs_fs st in
    let r := cs_reader st in
    plain_opts (cs_opts st) -> dir_ready s dl o pm t ents -> good_name c -> nlen (dirstr dl ++ c) <= 4095 ->
    lookup ents c = None -> link_hdr_any dl c h tgt -> is_dangerous_symlink h = true ->
    rd_type r = CT_NORMAL -> rd_curr r = Some h -> rd_linked r = false ->
    exists st', extract_archived_file junk h st = Ok (RVal true, st') /\
      cs_opts st' = cs_opts st /\ same_env s (cs_fs st') /\
      cs_reader st' = {| rd_br := rd_br r; rd_curr := rd_curr r; rd_type := rd_type r; rd_decoder := rd_decoder r;
                         rd_inner := rd_inner r; rd_policy := rd_policy r; rd_dir_stack := rd_dir_stack r;
                         rd_deferred := insert_deferred (rd_deferred r) h; rd_linked := true |} /\
      fs_root (cs_fs st') = update_at (fs_root s) (fs_cwd s ++ dl) (const_some (Dir o pm now (ents ++ [(c, placeholder)]))).
  Proof.
    intros s r Hopts Hready Hc Hlen Hfresh (Hp & Hf & Hdm & Hsl & Htne & Htlen) Hdang Hty Hcur Hlk.
    pose proof Hready as (Hg & Hch & Hn & Hw).
    assert (Hfn : file_full_path h (cs_opts st) = dirstr dl ++ c).
    { rewrite (full_path_eq h _ dl Hopts Hg Hp), Hf, (skip_slashes_name c Hc). reflexivity. }
    assert (Hat : at_path s (dirstr dl ++ c) dl c) by (eapply at_path_in_dir; eauto).
    assert (Hnone : node_at (fs_root s) ((fs_cwd s ++ dl) ++ [c]) = None).
    { rewrite (child_lookup _ _ _ _ _ _ c Hn). exact Hfresh. }
    assert (Hts : trailing_slash (dirstr dl ++ c) = false) by (apply trailing_slash_file; exact Hc).
    destruct (fs_file_extracted s (dirstr dl ++ c) dl c (Some 384) [] 0 o pm t ents Hat Hts Hnone Hn Hw)
      as (s1 & _ & Hop & _ & _ & _ & Henv & Hroot); [right; reflexivity|].
    cbn [write_chunks fold_left concat] in Henv, Hroot.
    unfold extract_archived_file. rewrite Hfn, Hsl.
    change (is_dir_type h) with (is_dir_method h). rewrite Hdm. cbn [andb negb cbind].
    destruct Hopts as (Hu & He & Hd). rewrite Hu. cbn [negb andb].
    rewrite (mpd_file dl c st Hg Hc).
    2:{ eapply parents_exist; [exact Hready|]. rewrite nlen_app in Hlen. eapply N.le_trans; [apply N.le_add_r|exact Hlen]. }
    cbn [negb]. fold s r. unfold lha_reader_extract. rewrite Hty, Hcur, Hdm, Hsl. cbn [negb].
    unfold extract_symlink. rewrite Hcur, Hty, Hdang. cbn [andb].
    unfold extract_placeholder_symlink. rewrite Hop, Hcur. unfold link_curr. rewrite Hlk. cbn [bind].
    unfold lha_reader_current_is_fake. cbn [rd_type]. rewrite Hty. cbn [negb andb invoked].
    destruct (o_quiet (cs_opts st) <? 2); (eexists; split; [reflexivity|]);
      cbn [cs_reader cs_opts cs_fs put_out set_fs set_reader];
      (split; [reflexivity|]; split; [exact Henv|]; split; [rewrite Hcur; reflexivity|exact Hroot]).
  Qed.
End DLink.

(* ------------------------------------------------------------------ *)
(* 4. the deferred list                                                 *)

Definition has_target (h : header) : Prop := exists t, h_symlink_target h = Some t.

Lemma insert_deferred_Forall (P : header -> Prop) l h : Forall P l -> P h -> Forall P (insert_deferred l h).
Proof.
  induction 1 as [|x r Hx Hr IH]; intros Hh; cbn [insert_deferred].
  - constructor; [exact Hh|constructor].
  - destruct (file_header_path_len h <? file_header_path_len x).
    + constructor; [exact Hx|apply IH; exact Hh].
    + constructor; [exact Hh|constructor; assumption].
Qed.

Lemma insert_deferred_length l h : length (insert_deferred l h) = S (length l).
Proof.
  induction l as [|x r IH]; cbn [insert_deferred]; [reflexivity|].
  destruct (file_header_path_len h <? file_header_path_len x); cbn [length]; [rewrite IH|]; reflexivity.
Qed.

(* ------------------------------------------------------------------ *)
(* 5. the main phase                                                    *)

Section TreeA.
  Variable mktime : N -> N -> N -> N -> Z -> N -> N.
  Variable junk : N.
  Variable f : lha_filter.
  Hypothesis Hnofilter : f_filters f = [].
  Variable H : header -> Prop.                   (* the members *)

  Notation step := (extract_archive_step mktime junk f).
  Notation upcoming := (upcoming mktime junk).
  Notation positioned := (positioned mktime junk).

  (* P_CliTree.rinv without "the deferred list is empty" *)
  Definition rinvA (r : reader) (stk : list header) : Prop :=
    rd_policy r = DIR_END_OF_DIR /\ rd_dir_stack r = stk /\ rd_type r <> CT_EOF.

  Definition mkr (br : breader) (c : option header) (ty : curr_type) (stk dfr : list header) (lk : bool) : reader :=
    {| rd_br := br; rd_curr := c; rd_type := ty; rd_decoder := None; rd_inner := IR_null;
       rd_policy := DIR_END_OF_DIR; rd_dir_stack := stk; rd_deferred := dfr; rd_linked := lk |}.

  Lemma present_entryA r stk dl ms m ip :
    rinvA r stk -> stack_ok stk dl -> upcoming r (m :: ms) ->
    (h_path (hdr m) = Some ip \/ dl = []) -> pstr m = ip -> is_prefix (dirstr dl) ip = true ->
    exists br1, positioned br1 (m :: ms) /\
      lha_reader_next_file mktime r = Ok (Some (hdr m), mkr br1 (Some (hdr m)) CT_NORMAL stk (rd_deferred r) false).
  Proof.
    intros (Hpol & Hstk & Hty) Hso (br1 & Hf & Hpos) Hp Hs Hpre.
    exists br1. split; [exact Hpos|].
    rewrite (next_file_eq mktime r Hty), Hf. cbn [bind].
    assert (Hcur : br_curr br1 = Some (hdr m)) by (inversion Hpos; subst; assumption).
    rewrite (present_real r br1 false (hdr m) stk Hpol Hstk Hcur (nopop_in_dir stk dl (hdr m) ip Hso Hp Hs Hpre)).
    reflexivity.
  Qed.

  Lemma present_fakeA r h stk dl c ms :
    rinvA r (h :: stk) -> h_path h = Some (dirstr (dl ++ [c])) -> upcoming r ms -> outside (dl ++ [c]) ms ->
    exists br1, positioned br1 ms /\
      lha_reader_next_file mktime r = Ok (Some h, mkr br1 (Some h) CT_FAKE_DIR stk (rd_deferred r) false).
  Proof.
    intros (Hpol & Hstk & Hty) Hp (br1 & Hf & Hpos) Hout.
    exists br1. split; [exact Hpos|].
    rewrite (next_file_eq mktime r Hty), Hf. cbn [bind].
    rewrite (present_pop r br1 false h stk (dirstr (dl ++ [c])) Hpol Hstk Hp).
    - reflexivity.
    - destruct ms as [|m ms']; [left; inversion Hpos; subst; assumption|right].
      exists (hdr m). split; [inversion Hpos; subst; assumption|exact Hout].
  Qed.

  Lemma upcoming_mkr br1 c stk dfr ms : positioned br1 ms -> upcoming (mkr br1 c CT_FAKE_DIR stk dfr false) ms.
  Proof. intros Hp. exists br1. split; [reflexivity|exact Hp]. Qed.

  (* iterations whose headers are members *)
  Inductive piters : nat -> bool * cli_state -> bool * cli_state -> Prop :=
  | pi_0 s : piters O s s
  | pi_S n b st h st1 s' s'' : next_header mktime f st = Ok (Some h, st1) -> H h ->
      step (b, st) = Ok (inl s') -> piters n s' s'' -> piters (S n) (b, st) s''.

  Lemma piters_app n1 : forall n2 s s' s'', piters n1 s s' -> piters n2 s' s'' -> piters (n1 + n2) s s''.
  Proof.
    induction n1 as [|n1 IH]; intros n2 s s' s'' H1 H2.
    - inversion H1; subst. exact H2.
    - inversion H1; subst. cbn [Nat.add]. econstructor; eauto.
  Qed.

  Lemma piters_iters n s s' : piters n s s' -> iters step n s s'.
  Proof. induction 1; econstructor; eauto. Qed.

  (* one iteration: the reader presents h, the tool extracts it *)
  Lemma piters_entry b st h r' ok st2 :
    lha_reader_next_file mktime (cs_reader st) = Ok (Some h, r') -> H h ->
    extract_archived_file junk h (set_reader st r') = Ok (RVal ok, st2) ->
    piters 1 (b, st) (if ok then b else false, st2).
  Proof.
    intros Hn Hh He. pose proof (next_header_eq mktime f Hnofilter st _ _ Hn) as Hnh.
    econstructor; [exact Hnh|exact Hh| |constructor].
    unfold extract_archive_step. rewrite Hnh. cbn [bind]. rewrite He. reflexivity.
  Qed.

  Lemma piters_entry_true b st h r' st2 :
    lha_reader_next_file mktime (cs_reader st) = Ok (Some h, r') -> H h ->
    extract_archived_file junk h (set_reader st r') = Ok (RVal true, st2) ->
    piters 1 (b, st) (b, st2).
  Proof. intros Hn Hh He. exact (piters_entry b st h r' true st2 Hn Hh He). Qed.

  (* every header obtained along such a run, up to and including the end, is a member *)
  Lemma piters_presents n s s' x st1e : piters n s s' ->
    next_header mktime f (snd s') = Ok (None, st1e) -> step s' = Ok (inr x) ->
    forall k b st hd st1, iters step k s (b, st) -> next_header mktime f st = Ok (Some hd, st1) -> H hd.
  Proof.
    intros Hp Hend Hstop. induction Hp as [s|n b0 st0 h st1' s' s'' Hnh Hh Hst Hp IH]; intros k b st hd st1 Hit Hn.
    - inversion Hit as [s0|m s0 s1 s2 E Hit']; subst.
      + cbn [snd] in Hend. rewrite Hend in Hn. discriminate.
      + rewrite Hstop in E. discriminate.
    - inversion Hit as [s0|m s0 s1 s2 E Hit']; subst.
      + rewrite Hnh in Hn. injection Hn as <- _. exact Hh.
      + rewrite Hst in E. injection E as <-. eapply IH; eauto.
  Qed.

  Variables (u : N) (uid0 : bool).
  Hypothesis Humask : umask_ok u.

  Lemma outside_childA dl c more rest :
    good_name c -> Forall (wf_item_any u uid0 dl) more -> ~ In c (map iname more) -> outside dl rest ->
    outside (dl ++ [c]) (flat_map ser more ++ rest).
  Proof.
    intros Hc Hwf Hnin Hout. destruct more as [|x more'].
    - cbn [flat_map app]. destruct rest as [|m rest']; [exact I|]. cbn [outside] in *.
      destruct (is_prefix (dirstr (dl ++ [c])) (pstr m)) eqn:E; [|reflexivity].
      rewrite dirstr_app in E. apply is_prefix_weaken in E. congruence.
    - inversion Hwf as [|x0 m0 Hx Hm]; subst x0 m0.
      destruct (ser_head_pstr_any u uid0 dl x Hx) as (m & tl & Es & _ & Hps).
      cbn [flat_map]. rewrite Es. cbn [app outside].
      rewrite dirstr_snoc. destruct Hps as [Hps|Hps]; rewrite Hps.
      + rewrite <- (app_nil_r (dirstr dl)) at 2. rewrite is_prefix_cancel. apply is_prefix_nil_r.
        destruct c; discriminate.
      + rewrite dirstr_snoc, is_prefix_cancel.
        destruct (is_prefix (c ++ [47]) (iname x ++ [47])) eqn:E; [|reflexivity].
        exfalso. apply Hnin. left. symmetry. apply is_prefix_names; [apply Hc| |exact E].
        destruct x as [c' h' bs'|c' h' t'|c' h' sub']; cbn [wf_item_any iname] in *; apply Hx.
  Qed.

  (* what is on the deferred list: links that are members *)
  Definition dok (h : header) : Prop := has_target h /\ H h.

  Lemma forest_runA : forall n its, (sizes its <= n)%nat -> forall dl rest st b o pm t ents stk,
    Forall (wf_item_any u uid0 dl) its -> NoDup (map iname its) -> (forall c, In c (map iname its) -> lookup ents c = None) ->
    (forall m, In m (flat_map ser its) -> H (hdr m)) ->
    plain_opts (cs_opts st) -> fs_umask (cs_fs st) = u -> fs_uid0 (cs_fs st) = uid0 ->
    dir_ready (cs_fs st) dl o pm t ents -> N.land pm 1024 = 0 ->
    rinvA (cs_reader st) stk -> stack_ok stk dl -> Forall dok (rd_deferred (cs_reader st)) ->
    upcoming (cs_reader st) (flat_map ser its ++ rest) -> outside dl rest ->
    exists st', piters (sizes its) (b, st) (b, st') /\
      cs_opts st' = cs_opts st /\ same_env (cs_fs st) (cs_fs st') /\
      rinvA (cs_reader st') stk /\ Forall dok (rd_deferred (cs_reader st')) /\
      (length (rd_deferred (cs_reader st')) <= length (rd_deferred (cs_reader st)) + sizes its)%nat /\
      upcoming (cs_reader st') rest /\
      match its with
      | [] => st' = st
      | _ => fs_root (cs_fs st') = update_at (fs_root (cs_fs st)) (fs_cwd (cs_fs st) ++ dl)
                                     (const_some (Dir o pm now (ents ++ builds1 u its)))
      end.
  Proof.
    induction n as [|n IHn]; intros its Hsz dl rest st b o pm t ents stk Hwf Hnd Hfresh HH Hopts Hum Huid Hready Hsg Hrinv Hso Hdf Hup Hout.
    - destruct its as [|it more].
      + exists st. split; [constructor|]. split; [reflexivity|]. split; [apply same_env_refl|].
        split; [exact Hrinv|]. split; [exact Hdf|]. split; [lia|]. split; [exact Hup|reflexivity].
      + exfalso. cbn [sizes fold_right] in Hsz. destruct it; cbn [size] in Hsz; lia.
    - destruct its as [|it more].
      + exists st. split; [constructor|]. split; [reflexivity|]. split; [apply same_env_refl|].
        split; [exact Hrinv|]. split; [exact Hdf|]. split; [lia|]. split; [exact Hup|reflexivity].
      + inversion Hwf as [|it0 more0 Hit Hmore]; subst it0 more0. cbn [map] in Hnd. inversion Hnd as [|c0 l0 Hnin Hnd']; subst c0 l0.
        assert (Hsz1 : (1 <= size it)%nat) by (destruct it; cbn [size]; lia).
        assert (Hszs : sizes (it :: more) = (size it + sizes more)%nat) by reflexivity.
        assert (HHit : forall m, In m (ser it) -> H (hdr m)).
        { intros m Hm. apply HH. cbn [flat_map]. apply in_or_app. left. exact Hm. }
        assert (HHmore : forall m, In m (flat_map ser more) -> H (hdr m)).
        { intros m Hm. apply HH. cbn [flat_map]. apply in_or_app. right. exact Hm. }
        (* after the head item, the tail *)
        assert (Htail : forall st1, piters (size it) (b, st) (b, st1) ->
                  cs_opts st1 = cs_opts st -> same_env (cs_fs st) (cs_fs st1) -> rinvA (cs_reader st1) stk ->
                  Forall dok (rd_deferred (cs_reader st1)) ->
                  (length (rd_deferred (cs_reader st1)) <= length (rd_deferred (cs_reader st)) + size it)%nat ->
                  upcoming (cs_reader st1) (flat_map ser more ++ rest) ->
                  fs_root (cs_fs st1) = update_at (fs_root (cs_fs st)) (fs_cwd (cs_fs st) ++ dl)
                                          (const_some (Dir o pm now (ents ++ [(iname it, build1 u it)]))) ->
                  exists st', piters (sizes (it :: more)) (b, st) (b, st') /\
                    cs_opts st' = cs_opts st /\ same_env (cs_fs st) (cs_fs st') /\
                    rinvA (cs_reader st') stk /\ Forall dok (rd_deferred (cs_reader st')) /\
                    (length (rd_deferred (cs_reader st')) <= length (rd_deferred (cs_reader st)) + sizes (it :: more))%nat /\
                    upcoming (cs_reader st') rest /\
                    fs_root (cs_fs st') = update_at (fs_root (cs_fs st)) (fs_cwd (cs_fs st) ++ dl)
                                            (const_some (Dir o pm now (ents ++ builds1 u (it :: more))))).
        { intros st1 Hit1 Hopts1 Henv1 Hrinv1 Hdf1 Hlen1 Hup1 Hroot1.
          assert (Hready1 : dir_ready (cs_fs st1) dl o pm now (ents ++ [(iname it, build1 u it)])).
          { eapply dir_ready_update; eauto. }
          destruct (IHn more ltac:(lia) dl rest st1 b o pm now (ents ++ [(iname it, build1 u it)]) stk) as
              (st' & Hit' & Hopts' & Henv' & Hrinv' & Hdf' & Hlen' & Hup' & Hroot'); auto.
          { intros c Hin. rewrite lookup_app_none by (apply Hfresh; right; exact Hin). cbn [lookup].
            rewrite name_eqb_neq; [reflexivity|]. intros E. subst c. contradiction. }
          { rewrite Hopts1. exact Hopts. }
          { destruct Henv1 as (_ & _ & E). congruence. }
          { destruct Henv1 as (_ & E & _). congruence. }
          exists st'. split; [rewrite Hszs; eapply piters_app; eauto|].
          split; [congruence|]. split; [exact (same_env_trans _ _ _ Henv1 Henv')|].
          split; [exact Hrinv'|]. split; [exact Hdf'|]. split; [rewrite Hszs; lia|]. split; [exact Hup'|].
          destruct more as [|x more'].
          - subst st'. rewrite Hroot1. reflexivity.
          - rewrite Hroot', Hroot1. destruct Henv1 as (Ec & _ & _). rewrite Ec, update_const_twice.
            cbn [builds1 map]. rewrite <- app_assoc. reflexivity. }
        pose proof Hrinv as (Hpol & Hstk & Htyne).
        destruct it as [c h bs|c h tgt|c h sub]; cbn [wf_item_any] in Hit; cbn [iname build1] in Htail; cbn [iname] in Hnin;
          cbn [flat_map ser app] in Hup.
        * (* a regular file *)
          destruct Hit as (Hc & Hlen & Hfh & Hmode). pose proof Hfh as (Hp & _).
          destruct (present_entryA (cs_reader st) stk dl _ (MFile h bs) (dirstr dl) Hrinv Hso Hup)
            as (br1 & Hpos & Hnext); [apply hpath_some; exact Hp|exact Hp|apply is_prefix_refl|].
          cbn [hdr] in Hnext. set (r1 := mkr br1 (Some h) CT_NORMAL stk (rd_deferred (cs_reader st)) false) in *.
          inversion Hpos as [|br0 h0 bs0 ms0 Hcur Hdec|]; subst br0 h0 bs0 ms0.
          destruct (Hdec r1 eq_refl eq_refl eq_refl) as (r2 & Hmem & x & br' & Hbn & Hpos').
          assert (Hl0 : lookup ents c = None) by (apply Hfresh; left; reflexivity).
          assert (Hmode' : fs_uid0 (cs_fs st) = true \/ drop_setid (file_mode (cs_fs st) h) = file_mode (cs_fs st) h).
          { rewrite file_mode_fmode, Hum. destruct Hmode as [Hm|Hm]; [left; congruence|right; exact Hm]. }
          destruct (cli_extract_file junk h (set_reader st r1) dl c o pm t ents bs r2) as (st2 & Hex & Hrd2 & Hopts2 & Henv2 & Hroot2); auto.
          cbn [cs_fs set_reader cs_opts] in *.
          pose proof (member_ok_book junk r1 h bs r2 Hmem) as Hbook. unfold book in Hbook.
          cbn [r1 mkr rd_curr rd_type rd_policy rd_dir_stack rd_deferred rd_linked] in Hbook.
          injection Hbook as B1 B2 B3 B4 B5 B6.
          apply (Htail st2).
          { eapply piters_entry_true; eauto. apply (HHit (MFile h bs)). left. reflexivity. }
          { exact Hopts2. } { exact Henv2. }
          { rewrite Hrd2. split; [exact B3|]. split; [exact B4|]. rewrite B2. discriminate. }
          { rewrite Hrd2, B5. exact Hdf. }
          { rewrite Hrd2, B5. lia. }
          { rewrite Hrd2. exists br'. split; [|exact Hpos']. unfold fetch. rewrite B2, Hbn. reflexivity. }
          { rewrite Hroot2, file_mode_fmode, Hum. reflexivity. }
        * (* a symbolic link *)
          destruct Hit as (Hc & Hlen & Hlh). pose proof Hlh as (Hp & Hfl & Hdm & Hsl & Htne & Htlen).
          destruct (present_entryA (cs_reader st) stk dl _ (MOther h) (dirstr dl) Hrinv Hso Hup)
            as (br1 & Hpos & Hnext); [apply hpath_some; exact Hp|exact Hp|apply is_prefix_refl|].
          cbn [hdr] in Hnext. set (r1 := mkr br1 (Some h) CT_NORMAL stk (rd_deferred (cs_reader st)) false) in *.
          inversion Hpos as [| |br0 h0 ms0 x br' Hcur Hbn Hpos']; subst br0 h0 ms0.
          assert (Hl0 : lookup ents c = None) by (apply Hfresh; left; reflexivity).
          assert (HHh : H h) by (apply (HHit (MOther h)); left; reflexivity).
          destruct (is_dangerous_symlink h) eqn:Hdang.
          -- (* dangerous: placeholder, deferred *)
             destruct (cli_extract_dlink junk h (set_reader st r1) dl c o pm t ents tgt) as (st2 & Hex & Hopts2 & Henv2 & Hrd2 & Hroot2); auto.
             cbn [cs_fs set_reader cs_opts cs_reader r1 mkr rd_br rd_curr rd_type rd_decoder rd_inner rd_policy rd_dir_stack rd_deferred] in *.
             apply (Htail st2).
             { eapply piters_entry_true; eauto. }
             { exact Hopts2. } { exact Henv2. }
             { rewrite Hrd2. repeat split; discriminate. }
             { rewrite Hrd2. cbn [rd_deferred]. apply insert_deferred_Forall; [exact Hdf|]. split; [exists tgt; exact Hsl|exact HHh]. }
             { rewrite Hrd2. cbn [rd_deferred]. rewrite insert_deferred_length. lia. }
             { rewrite Hrd2. exists br'. split; [|exact Hpos']. unfold fetch. cbn [rd_type rd_br]. rewrite Hbn. reflexivity. }
             { exact Hroot2. }
          -- (* safe: made at once *)
             destruct (cli_extract_link junk h (set_reader st r1) dl c o pm t ents tgt) as (st2 & Hex & Hopts2 & Hrd2 & Henv2 & Hroot2); auto.
             { repeat (split; [assumption|]). assumption. }
             cbn [cs_fs set_reader cs_opts cs_reader] in *.
             apply (Htail st2).
             { eapply piters_entry_true; eauto. }
             { exact Hopts2. } { exact Henv2. }
             { rewrite Hrd2. repeat split; discriminate. }
             { rewrite Hrd2. exact Hdf. }
             { rewrite Hrd2. cbn [r1 mkr rd_deferred]. lia. }
             { rewrite Hrd2. exists br'. split; [|exact Hpos']. unfold fetch. cbn [r1 mkr rd_type rd_br]. rewrite Hbn. reflexivity. }
             { exact Hroot2. }
        * (* a directory, its contents, its fake entry *)
          destruct Hit as (Hc & Hlen & Hdh & Hndsub & Hwfsub). apply wf_any_all in Hwfsub. pose proof Hdh as (Hp & _).
          assert (Hps : opt_str (h_path h) = dirstr (dl ++ [c])) by (rewrite Hp; reflexivity).
          assert (HHh : H h) by (apply (HHit (MOther h)); left; reflexivity).
          assert (HHsub : forall m, In m (flat_map ser sub) -> H (hdr m)).
          { intros m Hm. apply HHit. cbn [ser]. right. exact Hm. }
          destruct (present_entryA (cs_reader st) stk dl _ (MOther h) (dirstr (dl ++ [c])) Hrinv Hso Hup)
            as (br1 & Hpos & Hnext); [left; exact Hp|exact Hps|rewrite dirstr_app; apply is_prefix_app|].
          cbn [hdr] in Hnext. set (r1 := mkr br1 (Some h) CT_NORMAL stk (rd_deferred (cs_reader st)) false) in *.
          inversion Hpos as [| |br0 h0 ms0 x br' Hcur Hbn Hpos']; subst br0 h0 ms0.
          assert (Hl0 : lookup ents c = None) by (apply Hfresh; left; reflexivity).
          destruct (cli_extract_dir junk h (set_reader st r1) dl c o pm t ents) as (st2 & Hex & Hopts2 & Henv2 & Hrd2 & Hroot2); auto.
          cbn [cs_fs set_reader cs_opts cs_reader r1 mkr rd_br rd_curr rd_type rd_decoder rd_inner rd_policy rd_dir_stack rd_deferred] in *.
          rewrite Hum in Hroot2. set (m := dir_first_mode u h) in *.
          assert (Hready2 : dir_ready (cs_fs st2) dl o pm now (ents ++ [(c, Dir true m now [])])).
          { eapply (dir_ready_update (cs_fs st) (cs_fs st2)); [exact Hready|exact Henv2|exact Hroot2]. }
          destruct (dir_req_bits h) as [R6 R7].
          destruct (mkdir_mode_owner u (dir_req h) (fs_uid0 (cs_fs st2)) now [] Humask R6 R7) as [Hsrch Hwrt].
          assert (Hready2' : dir_ready (cs_fs st2) (dl ++ [c]) true m now []).
          { eapply dir_ready_enter; eauto. }
          rewrite <- app_assoc in Hpos'.
          destruct (IHn sub ltac:(cbn [sizes fold_right size] in Hsz; unfold sizes; lia) (dl ++ [c]) (flat_map ser more ++ rest) st2 b
                        true m now [] (h :: stk)) as (st3 & Hit3 & Hopts3 & Henv3 & Hrinv3 & Hdf3 & Hlen3 & Hup3 & Hroot3); auto.
          { rewrite Hopts2. exact Hopts. }
          { destruct Henv2 as (_ & _ & E). congruence. }
          { destruct Henv2 as (_ & E & _). congruence. }
          { apply mkdir_mode_nosgid. }
          { rewrite Hrd2. repeat split; discriminate. }
          { right. split; [destruct dl; discriminate|]. exists h, stk. split; [reflexivity|exact Hp]. }
          { rewrite Hrd2. exact Hdf. }
          { rewrite Hrd2. exists br'. split; [|exact Hpos']. unfold fetch. cbn [rd_type rd_br]. rewrite Hbn. reflexivity. }
          { apply outside_childA; auto. }
          assert (Hlen3' : (length (rd_deferred (cs_reader st3)) <= length (rd_deferred (cs_reader st)) + sizes sub)%nat).
          { rewrite Hrd2 in Hlen3. exact Hlen3. }
          (* the state after the contents, in terms of the state before the directory entry *)
          assert (Hcwd2 : fs_cwd (cs_fs st2) = fs_cwd (cs_fs st)) by apply Henv2.
          assert (Hroot3' : fs_root (cs_fs st3) = update_at (fs_root (cs_fs st)) (fs_cwd (cs_fs st) ++ dl)
                              (const_some (Dir o pm now (ents ++ [(c, Dir true m now (builds1 u sub))])))).
          { destruct sub as [|y sub'].
            - subst st3. exact Hroot2.
            - rewrite Hroot3, Hcwd2, app_assoc.
              destruct Hready2 as (_ & _ & Hn2 & _). rewrite Hcwd2 in Hn2.
              rewrite (update_loc_to_parent _ _ o pm now _ c _ Hn2), (set_ent_last _ _ _ _ Hl0), Hroot2.
              apply update_const_twice. }
          assert (Henv23 : same_env (cs_fs st) (cs_fs st3)) by exact (same_env_trans _ _ _ Henv2 Henv3).
          assert (Hready3 : dir_ready (cs_fs st3) dl o pm now (ents ++ [(c, Dir true m now (builds1 u sub))])).
          { eapply (dir_ready_update (cs_fs st) (cs_fs st3)); [exact Hready|exact Henv23|exact Hroot3']. }
          (* the fake entry *)
          destruct (present_fakeA (cs_reader st3) h stk dl c (flat_map ser more ++ rest) Hrinv3 Hp Hup3)
            as (br3 & Hpos3 & Hnext3); [apply outside_childA; auto|].
          set (r4 := mkr br3 (Some h) CT_FAKE_DIR stk (rd_deferred (cs_reader st3)) false) in *.
          destruct (cli_extract_fake junk h (set_reader st3 r4) dl c o pm now (ents ++ [(c, Dir true m now (builds1 u sub))]) m (builds1 u sub))
            as (st5 & Hex5 & Hopts5 & Hrd5 & Hmeta); auto.
          { cbn [cs_opts set_reader]. rewrite Hopts3, Hopts2. exact Hopts. }
          { apply lookup_last. exact Hl0. }
          cbn [cs_fs set_reader cs_opts cs_reader] in *.
          destruct Hmeta as (Henv5 & _ & ents5 & Hn5 & Hl5 & Hcase).
          apply (Htail st5).
          { replace (size (IDir c h sub)) with (1 + (sizes sub + 1))%nat by (cbn [size]; unfold sizes; lia).
            eapply piters_app; [eapply piters_entry_true; eauto|].
            eapply piters_app; [exact Hit3|]. eapply piters_entry_true; eauto. }
          { congruence. }
          { exact (same_env_trans _ _ _ Henv23 Henv5). }
          { rewrite Hrd5. repeat split; discriminate. }
          { rewrite Hrd5. cbn [r4 mkr rd_deferred]. exact Hdf3. }
          { rewrite Hrd5. cbn [r4 mkr rd_deferred size]. unfold sizes in Hlen3'. lia. }
          { rewrite Hrd5. apply upcoming_mkr. exact Hpos3. }
          { assert (Hcwd3 : fs_cwd (cs_fs st3) = fs_cwd (cs_fs st)) by apply Henv23.
            unfold dir_final_mode. fold m.
            destruct Hcase as [[Hr5 He5]|[Hr5 He5]].
            - subst ents5. rewrite (lookup_last _ _ _ Hl0) in Hl5. injection Hl5 as E1 E2.
              rewrite Hr5, Hroot3'. unfold builds1. congruence.
            - rewrite Hr5, Hcwd3, Hroot3', update_const_twice, (set_ent_last _ _ _ _ Hl0). reflexivity. }
  Qed.
End TreeA.

(* ------------------------------------------------------------------ *)
(* 6. the final phase: one iteration for each deferred link             *)

Lemma check_parent_directory_reader path st : cs_reader (snd (check_parent_directory path st)) = cs_reader st.
Proof.
  unfold check_parent_directory. destruct (arch_exists (cs_fs st) path); cbn [snd]; try reflexivity.
  destruct (arch_mkdir (cs_fs st) path 493) as [ok f1]. destruct (negb ok); reflexivity.
Qed.

Lemma mpd_loop_reader rest : forall pre st, cs_reader (snd (mpd_loop pre rest st)) = cs_reader st.
Proof.
  induction rest as [|c r IH]; intros pre st; cbn [mpd_loop]; [reflexivity|].
  destruct (c =? 47); [|apply IH].
  pose proof (check_parent_directory_reader (rev pre) st) as K.
  destruct (check_parent_directory (rev pre) st) as [ok st1]. cbn [snd] in K.
  destruct (negb ok); cbn [snd]; [exact K|]. rewrite IH. exact K.
Qed.

Lemma make_parent_directories_reader path st : cs_reader (snd (make_parent_directories path st)) = cs_reader st.
Proof.
  unfold make_parent_directories. destruct (leading_slashes (strip_trailing_slashes path)) as [lead rest].
  apply mpd_loop_reader.
Qed.

Section FinalA.
  Variable mktime : N -> N -> N -> N -> Z -> N -> N.
  Variable junk : N.
  Variable f : lha_filter.
  Hypothesis Hnofilter : f_filters f = [].
  Variable H : header -> Prop.

  Notation step := (extract_archive_step mktime junk f).
  Notation piters := (piters mktime junk f H).

  (* a deferred link: the call returns (whether the link could be made or not), the reader stays *)
  Lemma eaf_deferred h st : rd_type (cs_reader st) = CT_DEFERRED_SYMLINK -> rd_curr (cs_reader st) = Some h ->
    has_target h ->
    exists ok st', extract_archived_file junk h st = Ok (RVal ok, st') /\ cs_reader st' = cs_reader st.
  Proof.
    intros Et Ec [t Etg]. unfold extract_archived_file. rewrite Etg. cbn [negb]. rewrite !Bool.andb_false_r. cbn [cbind].
    pose proof (make_parent_directories_reader (file_full_path h (cs_opts st)) st) as Er.
    destruct (make_parent_directories (file_full_path h (cs_opts st)) st) as [okp st2]. cbn [snd] in Er.
    rewrite ?Bool.andb_false_r.
    destruct (negb okp); [exists false, st2; split; [reflexivity|exact Er]|].
    unfold lha_reader_extract. rewrite Er, Et, Ec. unfold extract_symlink. rewrite Ec, Et, Etg. cbn [andb].
    destruct (arch_symlink (cs_fs st2) (file_full_path h (cs_opts st)) t) as [oks f2]. cbn [bind].
    exists oks. eexists. split; [reflexivity|].
    destruct (negb (lha_reader_current_is_fake (cs_reader st)) && (o_quiet (cs_opts st) <? 2)); [cbn [invoked]|]; reflexivity.
  Qed.

  Lemma present_deferred r br1 lk l rest :
    rd_dir_stack r = [] -> rd_deferred r = l :: rest -> br_curr br1 = None ->
    present r br1 lk =
    Ok (Some l, {| rd_br := br1; rd_curr := Some l; rd_type := CT_DEFERRED_SYMLINK; rd_decoder := None; rd_inner := IR_null;
                   rd_policy := rd_policy r; rd_dir_stack := []; rd_deferred := rest; rd_linked := lk |}).
  Proof.
    intros Hstk Hdef Hcur. unfold present, end_of_top_dir.
    cbn [rd_dir_stack rd_br rd_policy rd_deferred rd_curr]. rewrite Hstk. cbn [bind rd_curr rd_deferred rd_policy rd_dir_stack].
    rewrite Hcur, Hdef. reflexivity.
  Qed.

  (* the archive is exhausted, the directory stack is empty *)
  Definition fin_ready (r : reader) (br1 : breader) (lk : bool) : Prop :=
    rd_type r <> CT_EOF /\ rd_dir_stack r = [] /\ fetch mktime r = Ok (br1, lk) /\ br_curr br1 = None.

  Lemma final_run : forall D st b br1 lk,
    fin_ready (cs_reader st) br1 lk -> rd_deferred (cs_reader st) = D -> Forall (dok H) D ->
    exists b' st' st1e x, piters (length D) (b, st) (b', st') /\
      next_header mktime f st' = Ok (None, st1e) /\ step (b', st') = Ok (inr (RVal b', x)).
  Proof.
    induction D as [|l rest IH]; intros st b br1 lk (Hty & Hstk & Hf & Hcur) Hd Hok.
    - assert (Hn : exists r', lha_reader_next_file mktime (cs_reader st) = Ok (None, r')).
      { rewrite (next_file_eq mktime _ Hty), Hf. cbn [bind]. rewrite (present_end _ br1 lk Hstk Hd Hcur). eauto. }
      destruct Hn as [r' Hn].
      exists b, st, (set_reader st r'), (set_reader st r'). split; [constructor|].
      split; [exact (next_header_eq mktime f Hnofilter st _ _ Hn)|exact (step_end mktime junk f Hnofilter b st r' Hn)].
    - inversion Hok as [|l0 rest0 (Hlt & Hlh) Hrest]; subst l0 rest0.
      set (r1 := {| rd_br := br1; rd_curr := Some l; rd_type := CT_DEFERRED_SYMLINK; rd_decoder := None; rd_inner := IR_null;
                    rd_policy := rd_policy (cs_reader st); rd_dir_stack := []; rd_deferred := rest; rd_linked := lk |}).
      assert (Hn : lha_reader_next_file mktime (cs_reader st) = Ok (Some l, r1)).
      { rewrite (next_file_eq mktime _ Hty), Hf. cbn [bind]. exact (present_deferred _ br1 lk l rest Hstk Hd Hcur). }
      destruct (eaf_deferred l (set_reader st r1) eq_refl eq_refl Hlt) as (ok & st2 & Hex & Hrd2).
      cbn [cs_reader set_reader] in Hrd2.
      pose proof (piters_entry mktime junk f Hnofilter H b st l r1 ok st2 Hn Hlh Hex) as Hp1.
      destruct (IH st2 (if ok then b else false) br1 lk) as (b' & st' & st1e & x & Hp & Hnh & Hst).
      + rewrite Hrd2. split; [discriminate|]. split; [reflexivity|]. split; [reflexivity|exact Hcur].
      + rewrite Hrd2. reflexivity.
      + exact Hrest.
      + exists b', st', st1e, x. split; [|split; assumption].
        change (length (l :: rest)) with (1 + length rest)%nat. eapply piters_app; eauto.
  Qed.
End FinalA.

(* ------------------------------------------------------------------ *)
(* 7. the whole loop                                                    *)

Section WholeA.
  Variable mktime : N -> N -> N -> N -> Z -> N -> N.
  Variable junk : N.
  Variable f : lha_filter.
  Hypothesis Hnofilter : f_filters f = [].
  Variable H : header -> Prop.
  Variables (u : N) (uid0 : bool).
  Hypothesis Humask : umask_ok u.

  Notation step := (extract_archive_step mktime junk f).

  Theorem any_run its st o pm t ents :
    let s := cs_fs st in
    Forall (wf_item_any u uid0 []) its -> NoDup (map iname its) ->
    (forall c, In c (map iname its) -> lookup ents c = None) ->
    (forall m, In m (flat_map ser its) -> H (hdr m)) ->
    plain_opts (cs_opts st) -> fs_umask s = u -> fs_uid0 s = uid0 ->
    dir_ready s [] o pm t ents -> N.land pm 1024 = 0 ->
    rinvA (cs_reader st) [] -> rd_deferred (cs_reader st) = [] -> upcoming mktime junk (cs_reader st) (flat_map ser its) ->
    N.of_nat (2 * sizes its) < 2 ^ 40 ->
    exists b st', extract_archive mktime junk f st = Ok (RVal b, st') /\
      forall k b0 st0 hd st1, iters step k (true, st) (b0, st0) -> next_header mktime f st0 = Ok (Some hd, st1) -> H hd.
  Proof.
    intros s Hwf Hnd Hfresh HH Hopts Hum Huid Hready Hsg Hrinv Hdef Hup Hsz.
    rewrite <- (app_nil_r (flat_map ser its)) in Hup.
    destruct (forest_runA mktime junk f Hnofilter H u uid0 Humask (sizes its) its (le_n _) [] [] st true o pm t ents []
                Hwf Hnd Hfresh HH Hopts Hum Huid Hready Hsg Hrinv (or_introl eq_refl) ltac:(rewrite Hdef; constructor) Hup I)
      as (st1 & Hit & Hopts1 & Henv1 & Hrinv1 & Hdf1 & Hlen1 & Hup1 & _).
    destruct Hrinv1 as (Hpol1 & Hstk1 & Hty1). destruct Hup1 as (br1 & Hf1 & Hpos1).
    assert (Hcur1 : br_curr br1 = None) by (inversion Hpos1; assumption).
    destruct (final_run mktime junk f Hnofilter H (rd_deferred (cs_reader st1)) st1 true br1 false)
      as (b' & st' & st1e & x & Hp & Hnh & Hst); [repeat split; assumption|reflexivity|exact Hdf1|].
    pose proof (piters_app mktime junk f H _ _ _ _ _ Hit Hp) as Hall.
    exists b', x. split.
    - unfold extract_archive. destruct Hopts as (_ & _ & Hd). rewrite Hd.
      eapply (loop_complete_N step 40 (sizes its + length (rd_deferred (cs_reader st1)) + 0)).
      + eapply loops_after_iters; [exact (piters_iters mktime junk f H _ _ _ Hall)|]. constructor. exact Hst.
      + rewrite Hdef in Hlen1. cbn [length] in Hlen1. lia.
    - intros k b0 st0 hd st1' Hk Hn.
      exact (piters_presents mktime junk f H _ _ _ _ _ Hall Hnh Hst k b0 st0 hd st1' Hk Hn).
  Qed.
End WholeA.

(* ------------------------------------------------------------------ *)
(* 8. the tool: lha x /arc/a.lzh                                        *)

(* the process as do_command starts the extraction loop *)
Definition x_state (uid0 : bool) (A : list N) (mt : N) : cli_state :=
  {| cs_fs := fs0 uid0 A mt; cs_reader := lha_reader_new (lha_input_stream_new (mk_source KFile A));
     cs_opts := x_opts; cs_stdin := []; cs_stdin_shared := false; cs_out := []; cs_err := [] |}.
Definition x_filter : lha_filter := lha_filter_init [].

Section CliA.
  Variable mktime : N -> N -> N -> N -> Z -> N -> N.
  Variable localtime : N -> tm.
  Variable strerror : bool -> list N.

  Lemma cli_run_x uid0 tnow mt A :
    cli_run mktime localtime strerror uid0 tnow mt argv_x A [] [] =
    (r <- extract_archive mktime 0 x_filter (x_state uid0 A mt) ;;
     let '(v, st) := r in
     Ok {| cr_stdout := stdout_bytes st; cr_stderr := stderr_bytes st;
           cr_exit := match v with RVal true => 0 | RVal false => 1 | RExit c => c end;
           cr_fs := cs_fs st |}).
  Proof.
    unfold cli_run, lha_main. rewrite parse_x.
    fold (fs0 uid0 A mt). set (s0 := fs0 uid0 A mt).
    unfold do_command. change (is_dash arc_path) with false. cbv iota.
    change (cs_fs (start_state s0 [] x_opts)) with s0. unfold s0 at 1. rewrite open_arc. cbn [cbind].
    cbv beta iota zeta. cbn [cs_fs cs_opts cs_stdin cs_out cs_err start_state]. reflexivity.
  Qed.

  (* from the BYTES: the run returns, and the headers it extracts are the members' *)
  Theorem cli_run_any uid0 tnow mt ds :
    wf_descs_any uid0 ds -> N.of_nat (2 * dsizes ds) < 2 ^ 40 ->
    exists r b st',
      cli_run mktime localtime strerror uid0 tnow mt argv_x (archive_of ds) [] [] = Ok r /\
      extract_archive mktime 0 x_filter (x_state uid0 (archive_of ds) mt) = Ok (RVal b, st') /\
      cr_fs r = cs_fs st' /\ cr_exit r = (if b then 0 else 1) /\
      forall k b0 st0 hd st1,
        iters (extract_archive_step mktime 0 x_filter) k (true, x_state uid0 (archive_of ds) mt) (b0, st0) ->
        next_header mktime x_filter st0 = Ok (Some hd, st1) -> member_of ds hd.
  Proof.
    intros Hwf Hsz. destruct (wf_items_any_of 18 uid0 ds Hwf) as [Hit Hnd].
    destruct (any_run mktime 0 x_filter eq_refl (member_of ds) 18 uid0 ltac:(split; reflexivity) (items_of ds)
                (x_state uid0 (archive_of ds) mt) true 493 0 []) as (b & st' & Hex & Hpres);
      try assumption; cbn [cs_fs cs_reader cs_opts x_state].
    - intros c _. reflexivity.
    - intros m Hm. unfold member_of. rewrite <- ser_items_hdrs. apply in_map. exact Hm.
    - repeat split.
    - apply fs0_umask.
    - apply fs0_uid0.
    - apply fs0_ready.
    - reflexivity.
    - repeat split. discriminate.
    - reflexivity.
    - apply (upcoming_archive_any mktime 0 KFile uid0). apply Hwf.
    - rewrite sizes_items_of. exact Hsz.
    - rewrite cli_run_x, Hex. cbn [bind]. eexists. exists b, st'. split; [reflexivity|].
      split; [reflexivity|]. split; [reflexivity|]. split; [destruct b; reflexivity|exact Hpres].
  Qed.
End CliA.

Print Assumptions upcoming_archive_any.
Print Assumptions forest_runA.
Print Assumptions any_run.
Print Assumptions cli_run_any.

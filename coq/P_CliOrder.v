(* P_CliOrder.v -- C10, ordering of the operations of an extraction.

   The reader (Reader.v) presents the deferred symbolic links only when the
   basic reader has reached the end and no directory is waiting for its
   metadata; from then on the library performs nothing but unlink + symlink,
   and the tool (CliExtract.v) nothing but the mkdir of missing parent
   directories in addition.  Before that, no symbolic link with a dangerous
   target (absolute, or with a ".." component) is ever created.  The deferred
   links are presented longest path first.

   NOTE (finding, see ordering_mkdir_witness at the end): "once a dangerous
   link exists only symlink/unlink operations follow" is FALSE for the tool:
   make_parent_directories runs for deferred links too, and its mkdir can go
   through a dangerous link created just before.  What holds is proved here:
   the later operations are symlink, unlink or mkdir. *)
From Lhasa Require Import Base Loop Generated InputStream Header BasicReader AnyDecoder Decoder MacBinary
  Fs FsRun Reader Glob ListOut CliFilter CliExtract CliMain P_CliSafe.
From Coq Require Import Lia.
Local Open Scope N_scope.

(* ------------------------------------------------------------------ *)
(* 1. which operations a call appends to the trace                      *)

Definition kinds (K : fsop -> Prop) (s s' : fs) : Prop :=
  exists new, fs_trace s' = new ++ fs_trace s /\ Forall K new.

Lemma kinds_refl K s : kinds K s s.
Proof. exists []. split; [reflexivity|constructor]. Qed.

Lemma kinds_trans K s1 s2 s3 : kinds K s1 s2 -> kinds K s2 s3 -> kinds K s1 s3.
Proof.
  intros (n1 & E1 & F1) (n2 & E2 & F2). exists (n2 ++ n1). split.
  - rewrite E2, E1, app_assoc. reflexivity.
  - apply Forall_app. split; assumption.
Qed.

Lemma kinds_weaken (K K' : fsop -> Prop) s s' : (forall o, K o -> K' o) -> kinds K s s' -> kinds K' s s'.
Proof. intros H (n & E & F). exists n. split; [exact E|]. eapply Forall_impl; eauto. Qed.

Lemma kinds_log (K : fsop -> Prop) s o root' : K o -> kinds K s (log s o root').
Proof. intros H. exists [o]. split; [reflexivity|]. constructor; [exact H|constructor]. Qed.

Definition is_mkdir (o : fsop) : Prop := match o with OpMkdir _ _ => True | _ => False end.
Definition is_unlink (o : fsop) : Prop := match o with OpUnlink _ => True | _ => False end.
Definition is_create (o : fsop) : Prop := match o with OpCreate _ => True | _ => False end.
Definition is_symlink_to (t : list N) (o : fsop) : Prop := match o with OpSymlink _ t' => t' = t | _ => False end.
Definition is_meta (o : fsop) : Prop :=
  match o with OpChmod _ _ | OpChown _ | OpUtime _ _ | OpWrite _ _ => True | _ => False end.

Ltac break_match :=
  repeat match goal with
         | |- context [match ?x with _ => _ end] => destruct x
         end.

Lemma fs_mkdir_kinds s p m : kinds is_mkdir s (snd (fs_mkdir s p m)).
Proof. unfold fs_mkdir. break_match; cbn [snd]; try apply kinds_refl; apply kinds_log; exact I. Qed.

Lemma fs_unlink_kinds s p : kinds is_unlink s (snd (fs_unlink s p)).
Proof. unfold fs_unlink. break_match; cbn [snd]; try apply kinds_refl; apply kinds_log; exact I. Qed.

Lemma fs_create_excl_kinds s p m : kinds is_create s (snd (fs_create_excl s p m)).
Proof. unfold fs_create_excl. break_match; cbn [snd]; try apply kinds_refl; apply kinds_log; exact I. Qed.

Lemma fs_symlink_kinds s t p : kinds (is_symlink_to t) s (snd (fs_symlink s t p)).
Proof. unfold fs_symlink. break_match; cbn [snd]; try apply kinds_refl; apply kinds_log; reflexivity. Qed.

Lemma fs_fchmod_kinds s h m : kinds is_meta s (snd (fs_fchmod s h m)).
Proof. unfold fs_fchmod. cbn [snd]. apply kinds_log. exact I. Qed.

Lemma fs_write_kinds s h b : kinds is_meta s (fs_write s h b).
Proof. unfold fs_write. apply kinds_log. exact I. Qed.

Lemma fs_chmod_kinds s p m : kinds is_meta s (snd (fs_chmod s p m)).
Proof. unfold fs_chmod, with_target. break_match; cbn [snd]; try apply kinds_refl; apply kinds_log; exact I. Qed.

Lemma fs_chown_kinds s p : kinds is_meta s (snd (fs_chown s p)).
Proof. unfold fs_chown, with_target. break_match; cbn [snd]; try apply kinds_refl; apply kinds_log; exact I. Qed.

Lemma fs_utime_kinds s p t : kinds is_meta s (snd (fs_utime s p t)).
Proof. unfold fs_utime, with_target. break_match; cbn [snd]; try apply kinds_refl; apply kinds_log; exact I. Qed.

(* lha_arch_unix.c *)
Definition fopen_op (o : fsop) : Prop := is_unlink o \/ is_create o \/ is_meta o.
Definition symlink_op (t : list N) (o : fsop) : Prop := is_unlink o \/ is_symlink_to t o.

Lemma arch_mkdir_kinds s p m : kinds is_mkdir s (snd (arch_mkdir s p m)).
Proof. apply fs_mkdir_kinds. Qed.

Lemma arch_fopen_kinds s p perms : kinds fopen_op s (snd (arch_fopen s p perms)).
Proof.
  unfold arch_fopen.
  pose proof (fs_unlink_kinds s p) as K1. destruct (fs_unlink s p) as [b s1]. cbn [snd] in K1.
  apply (kinds_weaken _ fopen_op) in K1; [|intros o Ho; left; exact Ho].
  pose proof (fs_create_excl_kinds s1 p 384) as K2. destruct (fs_create_excl s1 p 384) as [[h|] s2]; cbn [snd] in K2;
    apply (kinds_weaken _ fopen_op) in K2; try (intros o Ho; right; left; exact Ho).
  - destruct perms as [m|]; cbn [snd].
    + unfold fs_fchmod. cbn [snd]. eapply kinds_trans; [exact K1|]. eapply kinds_trans; [exact K2|].
      apply kinds_log. right; right; exact I.
    + eapply kinds_trans; eassumption.
  - cbn [snd]. eapply kinds_trans; eassumption.
Qed.

Lemma arch_symlink_kinds s p t : kinds (symlink_op t) s (snd (arch_symlink s p t)).
Proof.
  unfold arch_symlink.
  pose proof (fs_unlink_kinds s p) as K1. destruct (fs_unlink s p) as [b s1]. cbn [snd] in K1.
  eapply kinds_trans.
  - eapply kinds_weaken; [|exact K1]. intros o Ho; left; exact Ho.
  - eapply kinds_weaken; [|apply fs_symlink_kinds]. intros o Ho; right; exact Ho.
Qed.

(* ------------------------------------------------------------------ *)
(* 2. dangerous targets, the two classes of operations                  *)

Definition dangerous_target (t : list N) : bool :=
  match t with 47 :: _ => true | _ => has_dotdot t [] end.

Lemma is_dangerous_target h t : h_symlink_target h = Some t -> is_dangerous_symlink h = dangerous_target t.
Proof. unfold is_dangerous_symlink. intros ->. reflexivity. Qed.

(* the creation of a symbolic link with a dangerous target *)
Definition dangerous_op (o : fsop) : Prop :=
  match o with OpSymlink _ t => dangerous_target t = true | _ => False end.
Definition early_op (o : fsop) : Prop := ~ dangerous_op o.

(* what the library does once the deferred links are being made *)
Definition late_lib_op (o : fsop) : Prop :=
  match o with OpSymlink _ _ | OpUnlink _ => True | _ => False end.
(* what the tool does then *)
Definition late_op (o : fsop) : Prop :=
  match o with OpSymlink _ _ | OpUnlink _ | OpMkdir _ _ => True | _ => False end.

Lemma late_lib_late o : late_lib_op o -> late_op o.
Proof. destruct o; cbn; auto. Qed.

Lemma mkdir_early o : is_mkdir o -> early_op o.
Proof. destruct o; cbn; try contradiction. intros _ H. exact H. Qed.
Lemma mkdir_late o : is_mkdir o -> late_op o.
Proof. destruct o; cbn; auto. Qed.
Lemma meta_early o : is_meta o -> early_op o.
Proof. destruct o; cbn; try contradiction; intros _ H; exact H. Qed.
Lemma fopen_early o : fopen_op o -> early_op o.
Proof. intros [H|[H|H]]; destruct o; cbn in *; try contradiction; intros X; exact X. Qed.
Lemma symlink_early t o : dangerous_target t = false -> symlink_op t o -> early_op o.
Proof.
  intros Ht [H|H]; destruct o; cbn in *; try contradiction; intros X; try exact X. subst. congruence.
Qed.
Lemma symlink_late_lib t o : symlink_op t o -> late_lib_op o.
Proof. intros [H|H]; destruct o; cbn in *; try contradiction; exact I. Qed.

(* ------------------------------------------------------------------ *)
(* 3. the reader                                                        *)

(* the main phase: members of the archive and the directories waiting for their metadata *)
Definition phase1 (r : reader) : Prop :=
  rd_type r = CT_START \/ rd_type r = CT_NORMAL \/ rd_type r = CT_FAKE_DIR.
(* the final phase: the basic reader is at the end, no directory is waiting *)
Definition phase2 (r : reader) : Prop :=
  (rd_type r = CT_DEFERRED_SYMLINK \/ rd_type r = CT_EOF) /\ rd_dir_stack r = [] /\ br_curr (rd_br r) = None.

(* longest path first *)
Fixpoint longest_first (l : list header) : Prop :=
  match l with
  | [] => True
  | x :: r => (match r with [] => True | y :: _ => file_header_path_len y <= file_header_path_len x end) /\ longest_first r
  end.

Lemma insert_longest_first : forall l h, longest_first l -> longest_first (insert_deferred l h).
Proof.
  induction l as [|x r IH]; intros h Hs.
  - cbn. split; exact I.
  - cbn [insert_deferred]. destruct (file_header_path_len h <? file_header_path_len x) eqn:E.
    + destruct Hs as [Hx Hr]. specialize (IH h Hr). cbn [longest_first]. split; [|exact IH].
      destruct r as [|y r'].
      * cbn. apply N.ltb_lt in E. apply N.lt_le_incl. exact E.
      * cbn [insert_deferred] in *. destruct (file_header_path_len h <? file_header_path_len y).
        -- exact Hx.
        -- apply N.ltb_lt in E. apply N.lt_le_incl. exact E.
    + cbn [longest_first]. split; [|exact Hs]. apply N.ltb_ge in E. exact E.
Qed.

(* the deferred links still to be presented, the current one included *)
Definition pending (r : reader) : list header :=
  match rd_type r, rd_curr r with
  | CT_DEFERRED_SYMLINK, Some h => h :: rd_deferred r
  | _, _ => rd_deferred r
  end.

Definition reader_ok (r : reader) : Prop := (phase1 r \/ phase2 r) /\ longest_first (pending r).

Ltac rsimp := cbn [rd_br rd_curr rd_type rd_decoder rd_inner rd_policy rd_dir_stack rd_deferred rd_linked
                   set_decoders close_decoder lha_reader_set_dir_policy lha_reader_new] in *.

Lemma reader_new_ok st : reader_ok (lha_reader_new st) /\ phase1 (lha_reader_new st).
Proof. split; [split|]; try (left; left; reflexivity); try (left; reflexivity). exact I. Qed.

(* the parts of the reader that only next_file and extract change *)
Definition same_shape (r r' : reader) : Prop :=
  rd_type r' = rd_type r /\ rd_curr r' = rd_curr r /\ rd_dir_stack r' = rd_dir_stack r /\
  rd_deferred r' = rd_deferred r /\ rd_policy r' = rd_policy r.

Lemma same_shape_refl r : same_shape r r.
Proof. repeat split. Qed.
Lemma same_shape_trans a b c : same_shape a b -> same_shape b c -> same_shape a c.
Proof. intros (A1 & A2 & A3 & A4 & A5) (B1 & B2 & B3 & B4 & B5). repeat split; congruence. Qed.
Lemma same_shape_set_decoders r br d i : same_shape r (set_decoders r br d i).
Proof. repeat split. Qed.

Lemma same_shape_phase1 r r' : same_shape r r' -> phase1 r -> phase1 r'.
Proof. intros (A & _) H. unfold phase1 in *. rewrite A. exact H. Qed.
Lemma same_shape_pending r r' : same_shape r r' -> pending r' = pending r.
Proof. intros (A & B & _ & D & _). unfold pending. rewrite A, B, D. reflexivity. Qed.

Section Order.
  Variable mktime : N -> N -> N -> N -> Z -> N -> N.
  Variable junk : N.

  (* ---- lha_reader_next_file ---- *)
  Lemma end_of_top_dir_none r top rest :
    rd_dir_stack r = top :: rest -> br_curr (rd_br r) = None -> end_of_top_dir r = Ok true.
  Proof. unfold end_of_top_dir. intros -> ->. reflexivity. Qed.

  Lemma end_of_top_dir_nil r : rd_dir_stack r = [] -> end_of_top_dir r = Ok false.
  Proof. unfold end_of_top_dir. intros ->. reflexivity. Qed.

  Definition mk_reader br cur ty pol stack deferred linked : reader :=
    {| rd_br := br; rd_curr := cur; rd_type := ty; rd_decoder := None; rd_inner := IR_null; rd_policy := pol;
       rd_dir_stack := stack; rd_deferred := deferred; rd_linked := linked |}.

  (* the four things lha_reader_next_file can do *)
  Lemma next_file_cases r0 h r' :
    lha_reader_next_file mktime r0 = Ok (h, r') ->
    (rd_type r0 = CT_EOF /\ h = None /\ r' = close_decoder r0) \/
    (rd_type r0 <> CT_EOF /\ exists br1 linked,
       (((rd_type r0 = CT_START \/ rd_type r0 = CT_NORMAL) /\
         exists x, lha_basic_reader_next_file mktime (rd_br r0) = Ok (x, br1)) \/
        ((rd_type r0 = CT_FAKE_DIR \/ rd_type r0 = CT_DEFERRED_SYMLINK) /\ br1 = rd_br r0)) /\
       ((exists top rest, rd_dir_stack r0 = top :: rest /\ h = Some top /\
           r' = mk_reader br1 (Some top) CT_FAKE_DIR (rd_policy r0) rest (rd_deferred r0) linked) \/
        (exists hc, br_curr br1 = Some hc /\ h = Some hc /\
           r' = mk_reader br1 (Some hc) CT_NORMAL (rd_policy r0) (rd_dir_stack r0) (rd_deferred r0) linked) \/
        (br_curr br1 = None /\ rd_dir_stack r0 = [] /\ exists l rest, rd_deferred r0 = l :: rest /\ h = Some l /\
           r' = mk_reader br1 (Some l) CT_DEFERRED_SYMLINK (rd_policy r0) [] rest linked) \/
        (br_curr br1 = None /\ rd_dir_stack r0 = [] /\ rd_deferred r0 = [] /\ h = None /\
           r' = mk_reader br1 None CT_EOF (rd_policy r0) [] [] linked))).
  Proof.
    unfold lha_reader_next_file. cbv zeta. rsimp. intros H.
    destruct (rd_type r0) eqn:Et; rsimp.
    5:{ left. injection H as <- <-. repeat split. }
    all: right; split; [discriminate|].
    all: apply bind_ok in H; destruct H as ([br1 linked] & Hb & H); cbv beta iota in H;
      apply bind_ok in H; destruct H as (pop & Hpop & H); exists br1, linked.
    all: split;
      [first [ right; split; [first [left; reflexivity|right; reflexivity]|injection Hb as <- _; reflexivity]
             | left; split; [first [left; reflexivity|right; reflexivity]|];
               apply bind_ok in Hb; destruct Hb as ([x br'] & Hb & Hb2); cbv beta iota in Hb2;
               injection Hb2 as <- _; exists x; exact Hb ]|].
    all: destruct (rd_dir_stack r0) as [|top rest] eqn:Es;
      [ unfold end_of_top_dir in Hpop; cbn [rd_dir_stack] in Hpop; injection Hpop as <-; cbv iota in H; rsimp
      | destruct pop; cbv iota in H; rsimp ].
    (* empty stack *)
    1,4,7,10: destruct (br_curr br1) as [hc|] eqn:Ec;
      [ right; left; exists hc; injection H as <- <-; repeat split
      | destruct (rd_deferred r0) as [|l lrest] eqn:Ed; injection H as <- <-;
        [ right; right; right; repeat split | right; right; left; repeat split; exists l, lrest; repeat split ] ].
    (* pop *)
    1,3,5,7: left; exists top, rest; injection H as <- <-; repeat split.
    (* no pop: the basic reader has a current member *)
    all: destruct (br_curr br1) as [hc|] eqn:Ec;
      [ right; left; exists hc; injection H as <- <-; repeat split
      | exfalso; unfold end_of_top_dir in Hpop; cbn [rd_dir_stack rd_br] in Hpop; rewrite Ec in Hpop; discriminate ].
  Qed.

  Theorem next_file_ok r0 h r' :
    lha_reader_next_file mktime r0 = Ok (h, r') -> reader_ok r0 ->
    reader_ok r' /\ (phase2 r0 -> phase2 r') /\
    (* in the final phase each link presented is no longer than the one before *)
    (forall h0 h1, rd_type r0 = CT_DEFERRED_SYMLINK -> rd_curr r0 = Some h0 -> h = Some h1 ->
                   rd_type r' = CT_DEFERRED_SYMLINK /\ file_header_path_len h1 <= file_header_path_len h0) /\
    (* a link is presented as deferred only in the final phase *)
    (rd_type r' = CT_DEFERRED_SYMLINK -> phase2 r' /\ rd_curr r' = h /\ exists l, h = Some l /\ In l (rd_deferred r0)) /\
    (* until then the deferred list is untouched *)
    (phase1 r' -> rd_deferred r' = rd_deferred r0).
  Proof.
    intros H [Hph Hsort]. apply next_file_cases in H.
    destruct H as [(Et & -> & ->)|(Et & br1 & linked & Hbr & H)].
    - (* EOF *)
      assert (P2 : phase2 r0 -> phase2 (close_decoder r0)).
      { intros (A & B & C). split; [|split]; rsimp; assumption. }
      split; [split|].
      + destruct Hph as [[X|[X|X]]|X]; try congruence. right. apply P2. exact X.
      + unfold pending in *. rsimp. exact Hsort.
      + split; [exact P2|]. split; [intros; congruence|]. split; [rsimp; congruence|].
        intros [X|[X|X]]; rsimp; congruence.
    - assert (Hp2 : phase2 r0 -> br_curr br1 = None /\ rd_dir_stack r0 = [] /\ rd_type r0 = CT_DEFERRED_SYMLINK).
      { intros ([X|X] & B & C); [|congruence]. destruct Hbr as [[[Y|Y] _]|[_ Y]]; try congruence. subst br1. auto. }
      assert (Hdef : longest_first (rd_deferred r0)).
      { unfold pending in Hsort. destruct (rd_type r0); try exact Hsort. destruct (rd_curr r0); [|exact Hsort].
        destruct Hsort as [_ X]. exact X. }
      destruct H as [(top & rest & Es & -> & ->)|[(hc & Ec & -> & ->)|[(Ec & Es & l & lrest & Ed & -> & ->)|(Ec & Es & Ed & -> & ->)]]];
        unfold reader_ok, phase1, phase2, pending, mk_reader; rsimp.
      + split; [split; [left; right; right; reflexivity|exact Hdef]|].
        split; [intros X; destruct (Hp2 X) as (_ & Y & _); congruence|].
        split; [intros h0 h1 X; exfalso; assert (P : phase2 r0);
                [destruct Hph as [[Y|[Y|Y]]|Y]; [congruence|congruence|congruence|exact Y]|
                 destruct (Hp2 P) as (_ & Y & _); congruence]|].
        split; [discriminate|reflexivity].
      + split; [split; [left; right; left; reflexivity|exact Hdef]|].
        split; [intros X; destruct (Hp2 X) as (Y & _); congruence|].
        split; [intros h0 h1 X; exfalso; assert (P : phase2 r0);
                [destruct Hph as [[Y|[Y|Y]]|Y]; [congruence|congruence|congruence|exact Y]|
                 destruct (Hp2 P) as (Y & _); congruence]|].
        split; [discriminate|reflexivity].
      + assert (Q : ((CT_DEFERRED_SYMLINK = CT_DEFERRED_SYMLINK \/ CT_DEFERRED_SYMLINK = CT_EOF) /\
                     @nil header = [] /\ br_curr br1 = None)) by (repeat split; auto).
        rewrite Ed in Hdef.
        split; [split; [right; exact Q|exact Hdef]|].
        split; [intros _; exact Q|].
        split.
        { intros h0 h1 X Y Z. injection Z as <-. split; [reflexivity|].
          unfold pending in Hsort. rewrite X, Y, Ed in Hsort. destruct Hsort as [A _]. exact A. }
        split; [intros _; split; [exact Q|split; [reflexivity|exists l; split; [reflexivity|rewrite Ed; left; reflexivity]]]|].
        intros [X|[X|X]]; discriminate.
      + assert (Q : ((CT_EOF = CT_DEFERRED_SYMLINK \/ CT_EOF = CT_EOF) /\
                     @nil header = [] /\ br_curr br1 = None)) by (repeat split; auto).
        split; [split; [right; exact Q|exact I]|].
        split; [intros _; exact Q|].
        split; [intros h0 h1 _ _ Z; discriminate|].
        split; [discriminate|]. intros [X|[X|X]]; discriminate.
  Qed.

  (* ---- decoding changes neither the reader's position nor its lists ---- *)
  Lemma open_decoder_shape r monitor ok ev r1 :
    open_decoder junk r monitor = Ok (ok, ev, r1) -> same_shape r r1.
  Proof.
    unfold open_decoder. intros H.
    destruct (rd_type r); try (injection H as _ _ <-; apply same_shape_refl).
    apply bind_ok in H. destruct H as (inner & _ & H).
    destruct inner as [d0|]; [|injection H as _ _ <-; apply same_shape_set_decoders].
    destruct (if monitor then _ else _) as [d1 ev0].
    destruct (rd_curr r) as [ch|]; [|discriminate].
    destruct (h_os_type ch =? OS_TYPE_MACOS).
    - apply bind_ok in H. destruct H as ([ms w] & _ & H). cbv beta iota in H.
      destruct ms; injection H as _ _ <-; apply same_shape_set_decoders.
    - injection H as _ _ <-. apply same_shape_set_decoders.
  Qed.

  Lemma decoder_read_shape r n o ev r' : decoder_read junk r n = Ok (o, ev, r') -> same_shape r r'.
  Proof.
    unfold decoder_read. intros H. destruct (rd_decoder r) as [[d|od]|]; [| |discriminate].
    - apply bind_ok in H. destruct H as ([[o1 ev1] d'] & _ & H). cbv beta iota in H.
      injection H as _ _ <-. apply same_shape_set_decoders.
    - apply bind_ok in H. destruct H as ([[o1 ev1] o'] & _ & H). cbv beta iota in H.
      injection H as _ _ <-. apply same_shape_set_decoders.
  Qed.

  Lemma reader_read_shape r n o ev r' : lha_reader_read junk r n = Ok (o, ev, r') -> same_shape r r'.
  Proof.
    unfold lha_reader_read. intros H. destruct (rd_decoder r); [eapply decoder_read_shape; exact H|].
    apply bind_ok in H. destruct H as ([[ok ev1] r1] & Ho & H). cbv beta iota in H.
    apply open_decoder_shape in Ho. destruct ok.
    - apply bind_ok in H. destruct H as ([[o2 ev2] r2] & Hr & H). cbv beta iota in H.
      apply decoder_read_shape in Hr. injection H as _ _ <-. eapply same_shape_trans; eassumption.
    - injection H as _ _ <-. exact Ho.
  Qed.

  Lemma do_decode_shape r f out res evs r1 f1 :
    do_decode junk r f out = Ok (res, evs, r1, f1) -> same_shape r r1 /\ kinds is_meta f f1.
  Proof.
    unfold do_decode. intros H. apply bind_ok in H. destruct H as ([[r2 f2] evs2] & Hl & H). cbv beta iota in H.
    assert (G : same_shape r r2 /\ kinds is_meta f f2).
    { apply (loop_inv (dd_step junk out)
               (fun s => same_shape r (fst (fst s)) /\ kinds is_meta f (snd (fst s)))
               (fun s => same_shape r (fst (fst s)) /\ kinds is_meta f (snd (fst s)))) in Hl.
      - exact Hl.
      - clear. intros [[ra fa] ea] x [Hs Hk]. cbn [fst snd] in Hs, Hk. unfold dd_step. intros H.
        apply bind_ok in H. destruct H as ([[o ev] rb] & Hr & H). cbv beta iota in H.
        apply reader_read_shape in Hr.
        assert (Hs' : same_shape r rb) by (eapply same_shape_trans; eassumption).
        destruct o as [|b o']; injection H as <-; cbn [fst snd]; (split; [exact Hs'|]).
        + destruct out; exact Hk.
        + destruct out; [|exact Hk]. eapply kinds_trans; [exact Hk|apply fs_write_kinds].
      - cbn [fst snd]. split; [apply same_shape_refl|apply kinds_refl]. }
    destruct (inner_len_crc r2) as [[len crc]|]; [|discriminate].
    destruct (rd_curr r2); [|discriminate]. injection H as _ _ <- <-. exact G.
  Qed.

  Lemma set_timestamps_kinds f path h : kinds is_meta f (snd (set_timestamps_from_header f path h)).
  Proof.
    unfold set_timestamps_from_header. destruct (negb (h_timestamp h =? 0)); [apply fs_utime_kinds|apply kinds_refl].
  Qed.

  Lemma set_directory_metadata_kinds f h path : kinds is_meta f (snd (set_directory_metadata f h path)).
  Proof.
    unfold set_directory_metadata.
    pose proof (set_timestamps_kinds f path h) as K1. destruct (set_timestamps_from_header f path h) as [b f1].
    cbn [snd] in K1.
    assert (K2 : kinds is_meta f (if have_extra h FILE_UNIX_UID_GID then snd (fs_chown f1 path) else f1)).
    { destruct (have_extra h FILE_UNIX_UID_GID); [|exact K1]. eapply kinds_trans; [exact K1|apply fs_chown_kinds]. }
    destruct (have_extra h FILE_UNIX_PERMS); [|exact K2].
    eapply kinds_trans; [exact K2|apply fs_chmod_kinds].
  Qed.

  (* ---- the extraction functions ---- *)
  Lemma extract_file_order r f filename monitor ok ev r' f' :
    extract_file junk r f filename monitor = Ok (ok, ev, r', f') -> same_shape r r' /\ kinds early_op f f'.
  Proof.
    unfold extract_file. intros H. destruct (rd_curr r) as [h|]; [|discriminate].
    apply bind_ok in H. destruct H as ([[ok1 ev1] r1] & Ho & H). cbv beta iota in H.
    apply open_decoder_shape in Ho.
    destruct ok1; cbn [negb] in H; [|injection H as _ _ <- <-; split; [exact Ho|apply kinds_refl]].
    match type of H with context [arch_fopen f ?n ?p] =>
      pose proof (arch_fopen_kinds f n p) as K1; destruct (arch_fopen f n p) as [[hd|] f1] end; cbn [snd] in K1;
      apply (kinds_weaken _ early_op) in K1; try exact fopen_early.
    - apply bind_ok in H. destruct H as ([[[res ev2] r2] f2] & Hd & H). cbv beta iota in H.
      apply do_decode_shape in Hd. destruct Hd as [Hs Hk].
      injection H as _ _ <- <-. split; [eapply same_shape_trans; eassumption|].
      eapply kinds_trans; [exact K1|]. apply (kinds_weaken _ _ _ _ meta_early).
      destruct res; [|exact Hk]. eapply kinds_trans; [exact Hk|apply set_timestamps_kinds].
    - injection H as _ _ <- <-. split; [exact Ho|exact K1].
  Qed.

  (* the reader after an extraction call that is not next_file: position unchanged *)
  Definition same_pos (r r' : reader) : Prop :=
    rd_type r' = rd_type r /\ rd_curr r' = rd_curr r /\ rd_br r' = rd_br r.

  Lemma link_curr_pos site r stack deferred r' :
    link_curr site r stack deferred = Ok r' ->
    rd_type r' = rd_type r /\ rd_curr r' = rd_curr r /\ rd_dir_stack r' = stack /\ rd_deferred r' = deferred /\
    rd_br r' = rd_br r /\ rd_policy r' = rd_policy r.
  Proof. unfold link_curr. destruct (rd_linked r); [discriminate|]. intros H. injection H as <-. repeat split. Qed.

  Lemma extract_directory_order r f path ok r' f' :
    extract_directory r f path = Ok (ok, r', f') ->
    rd_type r' = rd_type r /\ rd_curr r' = rd_curr r /\ rd_deferred r' = rd_deferred r /\ kinds early_op f f'.
  Proof.
    unfold extract_directory. intros H. destruct (rd_curr r) as [h|] eqn:Ec; [|discriminate].
    destruct (match path with Some p => Some p | None => h_path h end) as [p|]; [|discriminate].
    match type of H with context [arch_mkdir f p ?m] =>
      pose proof (arch_mkdir_kinds f p m) as K1; destruct (arch_mkdir f p m) as [okm f1] end. cbn [snd] in K1.
    apply (kinds_weaken _ _ _ _ mkdir_early) in K1.
    destruct okm; cbn [negb] in H.
    - destruct (rd_policy r).
      + pose proof (set_directory_metadata_kinds f1 h p) as K2. destruct (set_directory_metadata f1 h p) as [b f2].
        cbn [snd] in K2. injection H as _ <- <-. split; [|split; [|split]]; auto.
        eapply kinds_trans; [exact K1|]. eapply kinds_weaken; [exact meta_early|exact K2].
      + apply bind_ok in H. destruct H as (r1 & Hl & H). apply link_curr_pos in Hl.
        destruct Hl as (A & B & C & D & E & F). injection H as _ <- <-. split; [|split; [|split]]; try congruence; try exact K1.
      + apply bind_ok in H. destruct H as (r1 & Hl & H). apply link_curr_pos in Hl.
        destruct Hl as (A & B & C & D & E & F). injection H as _ <- <-. split; [|split; [|split]]; try congruence; try exact K1.
    - injection H as _ <- <-. split; [|split; [|split]]; auto.
  Qed.

  Lemma extract_placeholder_order r f filename ok r' f' :
    extract_placeholder_symlink r f filename = Ok (ok, r', f') ->
    rd_type r' = rd_type r /\ rd_curr r' = rd_curr r /\ kinds early_op f f' /\
    (rd_deferred r' = rd_deferred r \/ exists h, rd_deferred r' = insert_deferred (rd_deferred r) h).
  Proof.
    unfold extract_placeholder_symlink. intros H.
    pose proof (arch_fopen_kinds f filename (Some 384)) as K1.
    destruct (arch_fopen f filename (Some 384)) as [[hd|] f1]; cbn [snd] in K1;
      apply (kinds_weaken _ _ _ _ fopen_early) in K1.
    - destruct (rd_curr r) as [h|] eqn:Ec; [|discriminate].
      apply bind_ok in H. destruct H as (r1 & Hl & H). apply link_curr_pos in Hl.
      destruct Hl as (A & B & C & D & E & F). injection H as _ <- <-. split; [|split; [|split]]; try congruence.
      right. exists h. exact D.
    - injection H as _ <- <-. split; [|split; [|split]]; auto.
  Qed.

  Lemma extract_symlink_order r f filename ok r' f' :
    extract_symlink r f filename = Ok (ok, r', f') ->
    rd_type r' = rd_type r /\ rd_curr r' = rd_curr r /\
    (rd_type r = CT_NORMAL -> kinds early_op f f' /\
       (rd_deferred r' = rd_deferred r \/ exists h, rd_deferred r' = insert_deferred (rd_deferred r) h)) /\
    (rd_type r <> CT_NORMAL -> r' = r /\ kinds late_lib_op f f').
  Proof.
    unfold extract_symlink. intros H. destruct (rd_curr r) as [h|] eqn:Ec; [|discriminate].
    destruct ((match rd_type r with CT_NORMAL => true | _ => false end) && is_dangerous_symlink h) eqn:Ed.
    - apply extract_placeholder_order in H. destruct H as (A & B & C & D).
      split; [exact A|]. split; [congruence|]. split; [intros _; split; assumption|].
      intros Hn. destruct (rd_type r); try congruence; discriminate.
    - destruct (h_symlink_target h) as [t|] eqn:Et; [|discriminate].
      match type of H with context [arch_symlink f ?n t] =>
        pose proof (arch_symlink_kinds f n t) as K1; destruct (arch_symlink f n t) as [oks f1] end. cbn [snd] in K1.
      injection H as _ <- <-. split; [reflexivity|]. split; [exact Ec|]. split.
      + intros Hn. rewrite Hn in Ed. cbn [andb] in Ed. rewrite (is_dangerous_target h t Et) in Ed.
        split; [|left; reflexivity]. eapply kinds_weaken; [intros o; apply (symlink_early t o Ed)|exact K1].
      + intros _. split; [reflexivity|]. eapply kinds_weaken; [intros o; apply (symlink_late_lib t o)|exact K1].
  Qed.

  (* lha_reader_extract *)
  Theorem reader_extract_order r f filename monitor ok ev r' f' :
    lha_reader_extract junk r f filename monitor = Ok (ok, ev, r', f') -> reader_ok r ->
    reader_ok r' /\ rd_type r' = rd_type r /\ rd_curr r' = rd_curr r /\
    (phase1 r -> kinds early_op f f') /\
    (phase2 r -> r' = r /\ kinds late_lib_op f f').
  Proof.
    unfold lha_reader_extract. intros H [Hph Hsort].
    assert (Triv : r' = r -> f' = f -> reader_ok r' /\ rd_type r' = rd_type r /\ rd_curr r' = rd_curr r /\
                   (phase1 r -> kinds early_op f f') /\ (phase2 r -> r' = r /\ kinds late_lib_op f f')).
    { intros -> ->. split; [split; assumption|]. split; [reflexivity|]. split; [reflexivity|].
      split; [intros _; apply kinds_refl|]. intros _. split; [reflexivity|apply kinds_refl]. }
    assert (P1 : forall r', rd_type r = CT_NORMAL -> rd_type r' = rd_type r -> rd_curr r' = rd_curr r ->
                 kinds early_op f f' ->
                 (rd_deferred r' = rd_deferred r \/ exists h, rd_deferred r' = insert_deferred (rd_deferred r) h) ->
                 reader_ok r' /\ rd_type r' = rd_type r /\ rd_curr r' = rd_curr r /\
                 (phase1 r -> kinds early_op f f') /\ (phase2 r -> r' = r /\ kinds late_lib_op f f')).
    { intros r1 Et A B K D. split; [split|].
      - left. right. left. congruence.
      - unfold pending in *. rewrite A, Et in *. destruct D as [->|(h & ->)]; [exact Hsort|].
        apply insert_longest_first. exact Hsort.
      - split; [exact A|]. split; [exact B|]. split; [intros _; exact K|].
        intros ([X|X] & _); congruence. }
    destruct (rd_type r) eqn:Et; try (injection H as _ _ <- <-; apply Triv; reflexivity).
    - (* CT_NORMAL *)
      destruct (rd_curr r) as [h|] eqn:Ec; [|discriminate].
      destruct (negb (is_dir_method h)).
      + apply extract_file_order in H. destruct H as [(A & B & C & D & E) K].
        apply P1; try congruence. left. exact D.
      + destruct (h_symlink_target h).
        * apply bind_ok in H. destruct H as ([[ok1 r1] f1] & Hx & H). cbv beta iota in H. injection H as _ _ <- <-.
          apply extract_symlink_order in Hx. destruct Hx as (A & B & C & _). destruct (C Et) as [K D].
          apply P1; try congruence.
        * apply bind_ok in H. destruct H as ([[ok1 r1] f1] & Hx & H). cbv beta iota in H. injection H as _ _ <- <-.
          apply extract_directory_order in Hx. destruct Hx as (A & B & C & K).
          apply P1; try congruence. left. exact C.
    - (* CT_FAKE_DIR *)
      destruct (rd_curr r) as [h|] eqn:Ec; [|injection H as _ _ <- <-; apply Triv; reflexivity].
      destruct (match filename with Some n => Some n | None => h_path h end) as [p|]; [|discriminate].
      pose proof (set_directory_metadata_kinds f h p) as K. destruct (set_directory_metadata f h p) as [b f1].
      cbn [snd] in K. injection H as _ _ <- <-.
      split; [split; assumption|]. split; [auto|]. split; [auto|].
      split; [intros _; eapply kinds_weaken; [exact meta_early|exact K]|].
      intros ([X|X] & _); congruence.
    - (* CT_DEFERRED_SYMLINK *)
      destruct (rd_curr r) as [h|] eqn:Ec; [|injection H as _ _ <- <-; apply Triv; reflexivity].
      apply bind_ok in H. destruct H as ([[ok1 r1] f1] & Hx & H). cbv beta iota in H. injection H as _ _ <- <-.
      apply extract_symlink_order in Hx. destruct Hx as (A & B & _ & C).
      destruct C as [-> K]; [congruence|].
      split; [split; assumption|]. split; [auto|]. split; [auto|].
      split; [intros [X|[X|X]]; congruence|]. intros _. split; [reflexivity|exact K].
  Qed.

  (* ------------------------------------------------------------------ *)
  (* 4. the tool                                                          *)

  (* the trace since f0: operations of the main phase, then operations of the final phase *)
  Definition two_phase (f0 f : fs) : Prop :=
    exists late early, fs_trace f = late ++ early ++ fs_trace f0 /\ Forall late_op late /\ Forall early_op early.

  Lemma two_phase_of_early f0 f : kinds early_op f0 f -> two_phase f0 f.
  Proof. intros (n & E & F). exists [], n. split; [exact E|]. split; [constructor|exact F]. Qed.

  Lemma two_phase_late f0 f f' : two_phase f0 f -> kinds late_op f f' -> two_phase f0 f'.
  Proof.
    intros (late & early & E & Fl & Fe) (n & E' & Fn). exists (n ++ late), early. split.
    - rewrite E', E, app_assoc. reflexivity.
    - split; [apply Forall_app; split; assumption|exact Fe].
  Qed.

  (* readers that differ in the decoders or in the bytes of the source only *)
  Definition req (r r' : reader) : Prop :=
    rd_type r' = rd_type r /\ rd_curr r' = rd_curr r /\ rd_dir_stack r' = rd_dir_stack r /\
    rd_deferred r' = rd_deferred r /\ br_curr (rd_br r') = br_curr (rd_br r).

  Lemma req_refl r : req r r. Proof. repeat split. Qed.
  Lemma req_trans a b c : req a b -> req b c -> req a c.
  Proof. intros (A1 & A2 & A3 & A4 & A5) (B1 & B2 & B3 & B4 & B5). repeat split; congruence. Qed.
  Lemma req_set_src r d : req r (reader_set_src_data r d). Proof. repeat split. Qed.

  Lemma req_phase1 r r' : req r r' -> phase1 r -> phase1 r'.
  Proof. intros (A & _) H. unfold phase1 in *. rewrite A. exact H. Qed.
  Lemma req_phase2 r r' : req r r' -> phase2 r -> phase2 r'.
  Proof. intros (A & B & C & D & E) H. unfold phase2 in *. rewrite A, C, E. exact H. Qed.
  Lemma req_reader_ok r r' : req r r' -> reader_ok r -> reader_ok r'.
  Proof.
    intros Hq [Hp Hs]. split.
    - destruct Hp as [Hp|Hp]; [left; eapply req_phase1; eauto|right; eapply req_phase2; eauto].
    - destruct Hq as (A & B & C & D & E). unfold pending in *. rewrite A, B, D. exact Hs.
  Qed.

  Definition cli_ok (f0 : fs) (st : cli_state) : Prop :=
    reader_ok (cs_reader st) /\
    ((phase1 (cs_reader st) /\ kinds early_op f0 (cs_fs st)) \/
     (phase2 (cs_reader st) /\ two_phase f0 (cs_fs st))).

  (* steps that touch neither the filesystem nor the position of the reader, nor w= / i *)
  Definition cli_same (st st' : cli_state) : Prop :=
    cs_fs st' = cs_fs st /\ req (cs_reader st) (cs_reader st') /\
    o_extract_path (cs_opts st') = o_extract_path (cs_opts st) /\ o_use_path (cs_opts st') = o_use_path (cs_opts st).

  Lemma cli_same_refl st : cli_same st st.
  Proof. split; [reflexivity|]. split; [apply req_refl|]. split; reflexivity. Qed.
  Lemma cli_same_trans a b c : cli_same a b -> cli_same b c -> cli_same a c.
  Proof.
    intros (A1 & A2 & A3 & A4) (B1 & B2 & B3 & B4). split; [congruence|]. split; [eapply req_trans; eauto|].
    split; congruence.
  Qed.
  Lemma cli_same_put_out st b : cli_same st (put_out st b).
  Proof. split; [reflexivity|]. split; [exact (req_refl _)|]. split; reflexivity. Qed.
  Lemma cli_same_put_err st b : cli_same st (put_err st b).
  Proof. split; [reflexivity|]. split; [exact (req_refl _)|]. split; reflexivity. Qed.
  Lemma cli_same_set_overwrite st p : cli_same st (set_opts st (set_overwrite (cs_opts st) p)).
  Proof. split; [reflexivity|]. split; [exact (req_refl _)|]. split; reflexivity. Qed.
  Lemma cli_same_set_stdin_data st d : cli_same st (set_stdin_data st d).
  Proof.
    unfold set_stdin_data. destruct (cs_stdin_shared st).
    - split; [reflexivity|]. split; [apply req_set_src|]. split; reflexivity.
    - split; [reflexivity|]. split; [exact (req_refl _)|]. split; reflexivity.
  Qed.

  Lemma cli_ok_same f0 st st' : cli_same st st' -> cli_ok f0 st -> cli_ok f0 st'.
  Proof.
    intros (A & B & _) [Hr H]. split; [eapply req_reader_ok; eauto|]. rewrite A.
    destruct H as [[P K]|[P K]]; [left|right]; (split; [|exact K]).
    - eapply req_phase1; eauto.
    - eapply req_phase2; eauto.
  Qed.

  Lemma cbind_ok {A B} (m : outcome (res A * cli_state)) (k : A -> cli_state -> outcome (res B * cli_state)) x st' :
    cbind m k = Ok (x, st') ->
    (exists c, m = Ok (RExit c, st') /\ x = RExit c) \/
    (exists a st1, m = Ok (RVal a, st1) /\ k a st1 = Ok (x, st')).
  Proof.
    unfold cbind. destruct m as [[[a|c] st1]| |]; try discriminate.
    - intros H. right. exists a, st1. split; [reflexivity|exact H].
    - intros H. injection H as <- <-. left. exists c. split; reflexivity.
  Qed.

  Lemma file_exists_same filename st v st' : file_exists filename st = Ok (v, st') -> cli_same st st'.
  Proof.
    unfold file_exists. destruct (arch_exists (cs_fs st) filename); intros H; injection H as _ <-;
      first [apply cli_same_refl | apply cli_same_put_err].
  Qed.

  Lemma prompt_user_same msg st v st' : prompt_user msg st = Ok (v, st') -> cli_same st st'.
  Proof.
    unfold prompt_user. destruct (prompt_read _ 0) as [[c rest]|]; intros H; injection H as _ <-;
      (eapply cli_same_trans; [apply (cli_same_put_err st msg)|apply cli_same_set_stdin_data]).
  Qed.

  Lemma confirm_file_overwrite_same filename st v st' :
    confirm_file_overwrite filename st = Ok (v, st') -> cli_same st st'.
  Proof.
    unfold confirm_file_overwrite. destruct (o_overwrite_policy (cs_opts st)).
    - intros H.
      apply (loop_inv (confirm_step filename) (fun s => cli_same st s) (fun r => cli_same st (snd r))) in H.
      + exact H.
      + clear. intros s x Hi. unfold confirm_step. intros H.
        apply bind_ok in H. destruct H as ([r st2] & Hp & H). apply prompt_user_same in Hp.
        assert (S2 : cli_same st st2).
        { eapply cli_same_trans; [exact Hi|]. eapply cli_same_trans; [|exact Hp]. apply cli_same_put_err. }
        destruct r as [response|c]; [|injection H as <-; exact S2].
        destruct (tolower response =? 121); [injection H as <-; exact S2|].
        destruct ((tolower response =? 110) || (tolower response =? 10)); [injection H as <-; exact S2|].
        destruct (tolower response =? 97);
          [injection H as <-; cbn [snd]; eapply cli_same_trans; [exact S2|apply cli_same_set_overwrite]|].
        destruct (tolower response =? 115);
          [injection H as <-; cbn [snd]; eapply cli_same_trans; [exact S2|apply cli_same_set_overwrite]|].
        injection H as <-. exact S2.
      + apply cli_same_refl.
    - intros H. injection H as _ <-. apply cli_same_refl.
    - intros H. injection H as _ <-. apply cli_same_refl.
  Qed.

  (* the decision whether to skip an existing file *)
  Definition skip_block (filename : list N) (cond : bool) (st : cli_state) : outcome (res bool * cli_state) :=
    if cond then
      LET ex, sta <== file_exists filename st ;;
      if ex then LET yes, stb <== confirm_file_overwrite filename sta ;; Ok (RVal (negb yes), stb)
      else Ok (RVal false, sta)
    else Ok (RVal false, st).

  Lemma skip_block_same filename cond st v st' : skip_block filename cond st = Ok (v, st') -> cli_same st st'.
  Proof.
    unfold skip_block. destruct cond; [|intros H; injection H as _ <-; apply cli_same_refl].
    intros H. apply cbind_ok in H. destruct H as [(c & H & _)|(ex & sta & He & H)].
    - eapply file_exists_same; exact H.
    - apply file_exists_same in He. destruct ex; [|injection H as _ <-; exact He].
      apply cbind_ok in H. destruct H as [(c & H & _)|(yes & stb & Hc & H)].
      + eapply cli_same_trans; [exact He|]. eapply confirm_file_overwrite_same; exact H.
      + injection H as _ <-. eapply cli_same_trans; [exact He|]. eapply confirm_file_overwrite_same; exact Hc.
  Qed.

  (* make_parent_directories: mkdir only *)
  Definition mpd_same (st st' : cli_state) : Prop :=
    kinds is_mkdir (cs_fs st) (cs_fs st') /\ cs_reader st' = cs_reader st /\ cs_opts st' = cs_opts st.

  Lemma check_parent_directory_mkdir path st : mpd_same st (snd (check_parent_directory path st)).
  Proof.
    unfold check_parent_directory. destruct (arch_exists (cs_fs st) path); cbn [snd];
      try (split; [apply kinds_refl|split; reflexivity]).
    pose proof (arch_mkdir_kinds (cs_fs st) path 493) as K. destruct (arch_mkdir (cs_fs st) path 493) as [ok f1].
    cbn [snd] in K. destruct (negb ok); cbn [snd]; (split; [exact K|split; reflexivity]).
  Qed.

  Lemma mpd_loop_mkdir rest : forall pre st, mpd_same st (snd (mpd_loop pre rest st)).
  Proof.
    induction rest as [|c r IH]; intros pre st; cbn [mpd_loop].
    - cbn [snd]. split; [apply kinds_refl|split; reflexivity].
    - destruct (c =? 47); [|apply IH].
      pose proof (check_parent_directory_mkdir (rev pre) st) as K.
      destruct (check_parent_directory (rev pre) st) as [ok st1]. cbn [snd] in K.
      destruct (negb ok); cbn [snd]; [exact K|].
      destruct K as (K1 & K2 & K3). destruct (IH (c :: pre) st1) as (J1 & J2 & J3).
      split; [eapply kinds_trans; eassumption|]. split; congruence.
  Qed.

  Lemma make_parent_directories_mkdir path st : mpd_same st (snd (make_parent_directories path st)).
  Proof.
    unfold make_parent_directories. destruct (leading_slashes (strip_trailing_slashes path)) as [lead rest].
    apply mpd_loop_mkdir.
  Qed.

  Lemma extract_archived_file_unfold h st :
    extract_archived_file junk h st =
    let filename := file_full_path h (cs_opts st) in
    let is_symlink := match h_symlink_target h with Some _ => true | None => false end in
    let is_dir := is_dir_type h && negb is_symlink in
    LET skip, st1 <== skip_block filename (negb is_dir && negb is_symlink) st ;;
    if skip then
      let st2 := if is_skip (o_overwrite_policy (cs_opts st1))
                 then put_out st1 (safe_printf (filename ++ s_skipped) ++ [10]) else st1 in
      Ok (RVal true, st2)
    else
    let o := cs_opts st1 in
    if negb (o_use_path o) && is_dir then Ok (RVal true, st1) else
    let '(ok, st2) := make_parent_directories filename st1 in
    if negb ok then Ok (RVal false, st2) else
    '(success, evs, r', f') <- lha_reader_extract junk (cs_reader st2) (cs_fs st2) (Some filename) true ;;
    let st3 := put_out (set_fs (set_reader st2 r') f') (progress_output o filename s_melting evs) in
    let st4 :=
      if negb (lha_reader_current_is_fake r') && (o_quiet o <? 2) then
        if invoked evs then put_out st3 (print_filename filename (if success then s_melted else s_failure) ++ [10])
        else match h_symlink_target h with
             | Some t => put_out st3 (print_symlink_line filename t)
             | None => st3
             end
      else st3 in
    Ok (RVal success, st4).
  Proof. reflexivity. Qed.

  Lemma extract_archived_file_order f0 h st v st' :
    extract_archived_file junk h st = Ok (v, st') -> cli_ok f0 st -> cli_ok f0 st'.
  Proof.
    rewrite extract_archived_file_unfold. cbv zeta. intros H Hok.
    apply cbind_ok in H. destruct H as [(c & H & _)|(skip & st1 & Hs & H)].
    { apply skip_block_same in H. eapply cli_ok_same; eauto. }
    apply skip_block_same in Hs. apply (cli_ok_same f0 _ _ Hs) in Hok. clear Hs.
    destruct skip.
    { injection H as _ <-. destruct (is_skip _); [eapply cli_ok_same; [apply cli_same_put_out|exact Hok]|exact Hok]. }
    destruct (negb (o_use_path (cs_opts st1)) && _); [injection H as _ <-; exact Hok|].
    pose proof (make_parent_directories_mkdir (file_full_path h (cs_opts st)) st1) as Km.
    destruct (make_parent_directories (file_full_path h (cs_opts st)) st1) as [okp st2]. cbn [snd] in Km.
    destruct Km as (Km & Er & Eo).
    assert (Hok2 : cli_ok f0 st2).
    { destruct Hok as [Hr Hk]. unfold cli_ok. rewrite Er. split; [exact Hr|].
      destruct Hk as [[P K]|[P K]]; [left|right]; (split; [exact P|]).
      - eapply kinds_trans; [exact K|]. eapply kinds_weaken; [exact mkdir_early|exact Km].
      - eapply two_phase_late; [exact K|]. eapply kinds_weaken; [exact mkdir_late|exact Km]. }
    destruct (negb okp); [injection H as _ <-; exact Hok2|].
    apply bind_ok in H. destruct H as ([[[success evs] r'] f'] & Hx & H). cbv beta iota in H.
    destruct Hok2 as [Hr Hk].
    apply reader_extract_order in Hx; [|exact Hr]. destruct Hx as (Hr' & Et & Ec & X1 & X2).
    assert (G : cli_ok f0 (set_fs (set_reader st2 r') f')).
    { split; [exact Hr'|]. cbn [cs_reader cs_fs set_fs set_reader].
      destruct Hk as [[P K]|[P K]].
      - left. split; [unfold phase1 in *; rewrite Et; exact P|]. eapply kinds_trans; [exact K|apply X1; exact P].
      - right. destruct (X2 P) as [-> K2]. split; [exact P|].
        eapply two_phase_late; [exact K|]. eapply kinds_weaken; [exact late_lib_late|exact K2]. }
    injection H as _ <-.
    match goal with |- cli_ok f0 (if ?c then _ else _) => destruct c end;
      [|eapply cli_ok_same; [apply cli_same_put_out|exact G]].
    destruct (invoked evs).
    - eapply cli_ok_same; [|exact G]. eapply cli_same_trans; apply cli_same_put_out.
    - destruct (h_symlink_target h).
      + eapply cli_ok_same; [|exact G]. eapply cli_same_trans; apply cli_same_put_out.
      + eapply cli_ok_same; [apply cli_same_put_out|exact G].
  Qed.

  (* the final phase is never left *)
  Lemma extract_archived_file_phase2 h st v st' :
    extract_archived_file junk h st = Ok (v, st') -> reader_ok (cs_reader st) ->
    phase2 (cs_reader st) -> phase2 (cs_reader st').
  Proof.
    rewrite extract_archived_file_unfold. cbv zeta. intros H Hr Hp.
    apply cbind_ok in H. destruct H as [(c & H & _)|(skip & st1 & Hs & H)].
    { apply skip_block_same in H. destruct H as (_ & Q & _). eapply req_phase2; eauto. }
    apply skip_block_same in Hs. destruct Hs as (_ & Q & _).
    apply (req_phase2 _ _ Q) in Hp. apply (req_reader_ok _ _ Q) in Hr. clear Q.
    destruct skip.
    { injection H as _ <-. destruct (is_skip _); exact Hp. }
    destruct (negb (o_use_path (cs_opts st1)) && _); [injection H as _ <-; exact Hp|].
    pose proof (make_parent_directories_mkdir (file_full_path h (cs_opts st)) st1) as Km.
    destruct (make_parent_directories (file_full_path h (cs_opts st)) st1) as [okp st2]. cbn [snd] in Km.
    destruct Km as (_ & Er & _). rewrite <- Er in Hp, Hr.
    destruct (negb okp); [injection H as _ <-; exact Hp|].
    apply bind_ok in H. destruct H as ([[[success evs] r'] f'] & Hx & H). cbv beta iota in H.
    apply reader_extract_order in Hx; [|exact Hr]. destruct Hx as (_ & _ & _ & _ & X2).
    destruct (X2 Hp) as [-> _].
    injection H as _ <-.
    match goal with |- phase2 (cs_reader (if ?c then _ else _)) => destruct c end; [|exact Hp].
    destruct (invoked evs); [exact Hp|]. destruct (h_symlink_target h); exact Hp.
  Qed.

  (* lha_filter_next_file *)
  Lemma filter_next_file_ok flt r h r' :
    filter_next_file mktime flt r = Ok (h, r') -> reader_ok r -> reader_ok r' /\ (phase2 r -> phase2 r').
  Proof.
    unfold filter_next_file. intros H Hok.
    apply (loop_inv (filter_step mktime flt) (fun s => reader_ok s /\ (phase2 r -> phase2 s))
                    (fun x => reader_ok (snd x) /\ (phase2 r -> phase2 (snd x)))) in H.
    - exact H.
    - clear. intros s x [Hi Hp]. unfold filter_step. intros H.
      apply bind_ok in H. destruct H as ([h r1] & Hn & H). cbv beta iota in H.
      apply next_file_ok in Hn; [|exact Hi]. destruct Hn as (A & B & _).
      destruct h as [hd|]; [destruct (matches_filter flt hd)|]; injection H as <-; cbn [snd]; auto.
    - split; [exact Hok|auto].
  Qed.

  Lemma next_header_order f0 flt st h st1 :
    next_header mktime flt st = Ok (h, st1) -> cli_ok f0 st -> cli_ok f0 st1.
  Proof.
    unfold next_header. intros H [Hr Hk]. apply bind_ok in H. destruct H as ([h' r'] & Hf & H).
    cbv beta iota in H. injection H as _ <-. apply filter_next_file_ok in Hf; [|exact Hr].
    destruct Hf as [Hr' Hp]. split; [exact Hr'|]. cbn [cs_reader cs_fs set_reader].
    destruct Hk as [[P K]|[P K]].
    - destruct Hr' as [[P1|P2] _]; [left; split; assumption|right; split; [exact P2|apply two_phase_of_early; exact K]].
    - right. split; [apply Hp; exact P|exact K].
  Qed.

  Lemma extract_archive_step_order f0 flt result st x :
    extract_archive_step mktime junk flt (result, st) = Ok x -> cli_ok f0 st ->
    match x with inl s' => cli_ok f0 (snd s') | inr r => cli_ok f0 (snd r) end.
  Proof.
    unfold extract_archive_step. intros H Hok.
    apply bind_ok in H. destruct H as ([h st1] & Hn & H). cbv beta iota in H.
    apply (next_header_order f0) in Hn; [|exact Hok].
    destruct h as [hd|]; [|injection H as <-; exact Hn].
    apply bind_ok in H. destruct H as ([r st2] & Hx & H). apply (extract_archived_file_order f0) in Hx; [|exact Hn].
    destruct r; injection H as <-; exact Hx.
  Qed.

  Lemma cli_ok_two_phase f0 st : cli_ok f0 st -> two_phase f0 (cs_fs st).
  Proof. intros [_ [[_ K]|[_ K]]]; [apply two_phase_of_early; exact K|exact K]. Qed.

  (* extract_archive, started with a reader in its main phase (a new reader is) *)
  Theorem extract_archive_order flt st0 v st :
    reader_ok (cs_reader st0) -> phase1 (cs_reader st0) ->
    extract_archive mktime junk flt st0 = Ok (v, st) -> two_phase (cs_fs st0) (cs_fs st).
  Proof.
    intros Hr Hp. unfold extract_archive. destruct (o_dry_run (cs_opts st0)).
    - intros H. apply extract_archive_dry_run_fs in H. rewrite H. apply two_phase_of_early, kinds_refl.
    - intros H. apply cli_ok_two_phase.
      apply (loop_inv (extract_archive_step mktime junk flt)
               (fun s => cli_ok (cs_fs st0) (snd s)) (fun r => cli_ok (cs_fs st0) (snd r))) in H.
      + exact H.
      + clear. intros [result s] x Hi Hx. cbn [snd] in Hi.
        apply (extract_archive_step_order (cs_fs st0)) in Hx; [|exact Hi]. exact Hx.
      + cbn [snd]. split; [exact Hr|]. left. split; [exact Hp|apply kinds_refl].
  Qed.

  (* the same for every prefix of the run: after any number of entries *)
  Theorem extract_archive_prefix_order flt st0 n b st :
    reader_ok (cs_reader st0) -> phase1 (cs_reader st0) ->
    iters (extract_archive_step mktime junk flt) n (true, st0) (b, st) ->
    two_phase (cs_fs st0) (cs_fs st) /\
    (phase1 (cs_reader st) -> kinds early_op (cs_fs st0) (cs_fs st)).
  Proof.
    intros Hr Hp H.
    apply (iters_inv (extract_archive_step mktime junk flt) (fun s => cli_ok (cs_fs st0) (snd s))) in H.
    - cbn [snd] in H. split; [apply cli_ok_two_phase; exact H|].
      intros P. destruct H as [_ [[_ K]|[([X|X] & _) _]]]; [exact K| |]; destruct P as [Y|[Y|Y]]; congruence.
    - clear. intros [result s] s' Hi Hx. cbn [snd] in Hi.
      apply (extract_archive_step_order (cs_fs st0)) in Hx; [|exact Hi]. exact Hx.
    - cbn [snd]. split; [exact Hr|]. left. split; [exact Hp|apply kinds_refl].
  Qed.

  (* ---- the statement about traces: once the creation of a dangerous link has
     been logged, everything logged later is symlink, unlink or mkdir ---- *)
  Definition ordered_since (f0 f : fs) : Prop :=
    exists new, fs_trace f = new ++ fs_trace f0 /\
      forall a o b, new = a ++ o :: b -> dangerous_op o -> Forall late_op a.

  Lemma two_phase_ordered f0 f : two_phase f0 f -> ordered_since f0 f.
  Proof.
    intros (late & early & E & Fl & Fe). exists (late ++ early). split; [rewrite E, app_assoc; reflexivity|].
    intros a o b Hn Hd. apply app_eq_app in Hn. destruct Hn as (l & [[E1 E2]|[E1 E2]]).
    - subst late. apply Forall_app in Fl. destruct Fl as [Fa _]. exact Fa.
    - exfalso. subst early. apply Forall_app in Fe. destruct Fe as [_ Fe].
      apply Forall_inv in Fe. exact (Fe Hd).
  Qed.

  Variable localtime : N -> tm.
  Variable now : N.
  Variable stdin_kind : skind.
  Variable strerror : bool -> list N.

  (* do_command, any command *)
  Theorem do_command_order mode filename filters st0 v st :
    do_command mktime junk localtime now stdin_kind strerror mode filename filters st0 = Ok (v, st) ->
    two_phase (cs_fs st0) (cs_fs st).
  Proof.
    destruct (read_only_command mode (cs_opts st0)) eqn:Ero.
    { intros H. apply do_command_read_only in H; [|exact Ero]. rewrite H. apply two_phase_of_early, kinds_refl. }
    destruct mode; try discriminate. clear Ero.
    unfold do_command.
    match goal with |- cbind ?m _ = _ -> _ => destruct m as [[[[[src mt] shared]|c] sta]| |] eqn:Eo end;
      cbn [cbind]; try discriminate.
    2:{ intros H. injection H as _ <-.
        destruct (is_dash filename); [discriminate|].
        destruct (fs_fopen_rb (cs_fs st0) filename); try discriminate.
        injection Eo as _ <-. apply two_phase_of_early, kinds_refl. }
    assert (Ea : sta = st0).
    { destruct (is_dash filename); [injection Eo as _ _ _ <-; reflexivity|].
      destruct (fs_fopen_rb (cs_fs st0) filename); try discriminate; injection Eo as _ _ _ <-; reflexivity. }
    subst sta. clear Eo.
    intros H. apply extract_archive_order in H; [exact H| |]; apply reader_new_ok.
  Qed.

  (* the whole program, any arguments *)
  Theorem lha_main_order argv stdin s r :
    lha_main mktime junk localtime now stdin_kind strerror argv stdin s = Ok r ->
    two_phase s (cr_fs r) /\ ordered_since s (cr_fs r).
  Proof.
    unfold lha_main. intros H.
    apply bind_ok in H. destruct H as ([v st] & Hc & H). cbv beta iota in H. injection H as <-. cbn [cr_fs].
    assert (G : two_phase s (cs_fs st)).
    { destruct (parse_main (tl argv)) as [[[[mode o] file] filters]|].
      - apply do_command_order in Hc. exact Hc.
      - unfold help_page in Hc. injection Hc as _ <-. apply two_phase_of_early, kinds_refl. }
    split; [exact G|apply two_phase_ordered; exact G].
  Qed.
End Order.

(* ------------------------------------------------------------------ *)
(* 5. finding: the mkdir of a parent directory after a dangerous link   *)

(* directories t/ and t/q/, link s -> t, link s/q/p -> /x (placeholder t/q/p),
   link uuuuuuuu -> /outside, link s -> uuuuuuuu.  In the final phase uuuuuuuu (the
   longer path) is made first; then make_parent_directories("s/q/p") finds that
   "s/q" does not exist and creates it -- through s -> uuuuuuuu -> /outside. *)
Definition mkdir_archive : list N :=
  [36;0;45;108;104;100;45;0;0;0;0;0;0;0;0;133;226;1;32;32;2;0;0;85;5;0;2;116;255;5;0;80;237;65;0;0;38;
     0;45;108;104;100;45;0;0;0;0;0;0;0;0;133;226;1;32;32;2;0;0;85;7;0;2;116;255;113;255;5;0;80;237;65;
     0;0;37;0;45;108;104;100;45;0;0;0;0;0;0;0;0;133;226;1;32;32;2;0;0;85;6;0;1;115;124;116;5;0;80;255;
     161;0;0;45;0;45;108;104;100;45;0;0;0;0;0;0;0;0;133;226;1;32;32;2;0;0;85;4;0;1;120;10;0;2;115;255;
     113;255;112;124;255;5;0;80;255;161;0;0;54;0;45;108;104;100;45;0;0;0;0;0;0;0;0;133;226;1;32;32;2;
     0;0;85;10;0;1;111;117;116;115;105;100;101;13;0;2;117;117;117;117;117;117;117;117;124;255;5;0;80;
     255;161;0;0;44;0;45;108;104;100;45;0;0;0;0;0;0;0;0;133;226;1;32;32;2;0;0;85;13;0;1;115;124;117;
     117;117;117;117;117;117;117;5;0;80;255;161;0;0;0].

Definition mkdir_argv : list (list N) :=
  [[108;104;97]; [120;102]; [47;97;114;99;47;97;46;108;122;104]].      (* lha xf /arc/a.lzh *)

Definition mkdir_run : outcome cli_result :=
  cli_run mktime_utc gmtime_utc (fun _ => []) false 1300000000 1200000000 mkdir_argv mkdir_archive [] [].

Definition is_mkdir_outside (o : fsop) : bool :=
  match o with
  | OpMkdir (n :: _) _ => negb (name_eqb n bytes_root)
  | _ => false
  end.
Definition is_dangerous_op (o : fsop) : bool :=
  match o with OpSymlink _ t => dangerous_target t | _ => false end.

(* a mkdir outside the extraction directory is logged AFTER the creation of a dangerous link
   (the trace is newest first): "once a dangerous link exists, only symlink operations
   follow" does not hold of the tool; see lha_main_order for what does *)
Theorem ordering_mkdir_witness :
  exists r a o b, mkdir_run = Ok r /\ fs_trace (cr_fs r) = a ++ o :: b /\
                  is_dangerous_op o = true /\ existsb is_mkdir_outside a = true.
Proof.
  eexists. exists [OpSymlink [bytes_outside; [113]; [112]] [47; 120]; OpMkdir [bytes_outside; [113]] 493].
  eexists. eexists. split; [vm_compute; reflexivity|]. split; [vm_compute; reflexivity|].
  split; vm_compute; reflexivity.
Qed.

Print Assumptions next_file_ok.
Print Assumptions reader_extract_order.
Print Assumptions extract_archive_order.
Print Assumptions extract_archive_prefix_order.
Print Assumptions do_command_order.
Print Assumptions lha_main_order.
Print Assumptions ordering_mkdir_witness.

(* S_Capstone.v -- the end-to-end statement's vocabulary: a tree description
   [desc] (file with mode, time and bytes / symbolic link with its target /
   directory with mode, time and its entries), its serialisation into archive
   BYTES [archive_of] (level-2 headers built by the reference encoder
   S_Header.encode_header, Unix OS, names in the file-name / path extended
   headers, mode in the Unix-permission header, directory before its contents,
   links as -lhd- entries "name|target", file data stored as -lh0-, end marker
   0), the headers the parser is expected to return for them, the items
   (P_CliTree.item) they describe, and the nodes of the extracted tree.
   Definitions only. *)
From Lhasa Require Import Base ListN Generated Crc16 InputStream Header S_Header Fs Reader
  P_ReaderCheck P_FsExtract P_CliExtract P_CliTree.
Local Open Scope N_scope.

Inductive desc :=
| DFile (c : name) (mode time : N) (bs : list N)
| DLink (c : name) (time : N) (tgt : list N)
| DDir (c : name) (mode time : N) (sub : list desc).

Definition dname (d : desc) : name :=
  match d with DFile c _ _ _ => c | DLink c _ _ => c | DDir c _ _ _ => c end.

(* ---- field records ---- *)
Definition lh0 : list N := [45; 108; 104; 48; 45].          (* "-lh0-" *)

Definition to255 (p : list N) : list N := replace_byte 47 255 p.
Definition opt_of (l : list N) : option (list N) := match l with [] => None | _ => Some l end.
Definition name_ext (fn : list N) : list (N * list N) := match fn with [] => [] | _ => [(1, fn)] end.
Definition path_ext (p : list N) : list (N * list N) := match p with [] => [] | _ => [(2, to255 p)] end.

(* level 2, Unix; [fn] goes to the file-name header, [p] (ending in '/') to the
   path header with 0xFF separators, [mode] to the Unix-permission header *)
Definition mk_fields (method : list N) (len crc time : N) (fn p : list N) (mode : N) : fields :=
  {| f_level := 2; f_method := method; f_clen := len; f_length := len; f_time := time; f_attr := 32;
     f_os := 85; f_crc := crc; f_name := [];
     f_exts := name_ext fn ++ path_ext p ++ [(80, le_bytes 2 mode)]; f_area := [] |}.

Definition S_IFREG : N := 32768.
Definition S_IFDIR : N := 16384.
Definition LINK_MODE : N := 41471.                           (* 0120777 *)

Definition file_fields (dl : list name) (c : name) (mode time : N) (bs : list N) : fields :=
  mk_fields lh0 (nlen bs) (crc_bitwise 0 bs) time c (dirstr dl) (S_IFREG + mode).
Definition dir_fields (dl : list name) (c : name) (mode time : N) : fields :=
  mk_fields lhd 0 0 time [] (dirstr (dl ++ [c])) (S_IFDIR + mode).
(* "dir/.../name|target", cut after its last '/' as LHa for UNIX does *)
Definition link_full (dl : list name) (c : name) (tgt : list N) : list N := dirstr dl ++ c ++ 124 :: tgt.
Definition link_fields (dl : list name) (c : name) (time : N) (tgt : list N) : fields :=
  let s := S_Header.split_name (link_full dl c tgt) in
  mk_fields lhd 0 0 time (snd s) (opt_str (fst s)) LINK_MODE.

(* ---- the headers the parser returns ---- *)
Definition mk_header (f : fields) (fn p tgt : option (list N)) (mode : N) : header :=
  {| h_raw := encode_zeroed f; h_level := 2; h_method := f_method f;
     h_compressed_length := f_clen f; h_length := f_length f; h_timestamp := f_time f;
     h_os_type := 85; h_crc := f_crc f; h_filename := fn; h_path := p; h_symlink_target := tgt;
     h_extra_flags := 1; h_unix_perms := mode; h_unix_uid := 0; h_unix_gid := 0; h_os9_perms := 0;
     h_unix_username := None; h_unix_group := None; h_common_crc := 0;
     h_win_creation_time := 0; h_win_modification_time := 0; h_win_access_time := 0 |}.

Definition file_header (dl : list name) (c : name) (mode time : N) (bs : list N) : header :=
  mk_header (file_fields dl c mode time bs) (Some c) (opt_of (dirstr dl)) None (S_IFREG + mode).
Definition dir_header (dl : list name) (c : name) (mode time : N) : header :=
  mk_header (dir_fields dl c mode time) None (Some (dirstr (dl ++ [c]))) None (S_IFDIR + mode).
Definition link_header (dl : list name) (c : name) (time : N) (tgt : list N) : header :=
  mk_header (link_fields dl c time tgt) (Some c) (opt_of (dirstr dl)) (Some tgt) LINK_MODE.

(* ---- the archive ---- *)
Fixpoint enc (dl : list name) (d : desc) : list N :=
  match d with
  | DFile c m t bs => encode_header (file_fields dl c m t bs) ++ bs
  | DLink c t tgt => encode_header (link_fields dl c t tgt)
  | DDir c m t sub => encode_header (dir_fields dl c m t) ++ flat_map (enc (dl ++ [c])) sub
  end.

Definition archive_of (ds : list desc) : list N := flat_map (enc []) ds ++ [0].

(* ---- the items described (P_CliTree) and the nodes of the tree ---- *)
Fixpoint item_of (dl : list name) (d : desc) : item :=
  match d with
  | DFile c m t bs => IFile c (file_header dl c m t bs) bs
  | DLink c t tgt => ILink c (link_header dl c t tgt) tgt
  | DDir c m t sub => IDir c (dir_header dl c m t) (map (item_of (dl ++ [c])) sub)
  end.

Definition items_of (ds : list desc) : list item := map (item_of []) ds.

(* what "lha x" must leave: owned nodes with the recorded mode and time *)
Fixpoint tree_of (d : desc) : node :=
  match d with
  | DFile _ m t bs => File true m t bs
  | DLink _ _ tgt => Link tgt
  | DDir _ m t sub => Dir true m t (map (fun x => (dname x, tree_of x)) sub)
  end.
Definition trees_of (ds : list desc) : list (name * node) := map (fun x => (dname x, tree_of x)) ds.

(* ---- the descriptions covered ---- *)
(* a byte a name may contain: not NUL (C strings), not 0xFF (the path header's
   separator), not '|' (the link separator); '/' is excluded by good_name *)
Definition name_byte (b : N) : Prop := 0 < b /\ b < 255 /\ b <> 124.
Definition name_ok (c : name) : Prop := good_name c /\ Forall name_byte c.
Definition tgt_byte (b : N) : Prop := 0 < b /\ b < 255.

(* relative, without a ".." component (Reader.is_dangerous_symlink) *)
Definition safe_target (t : list N) : bool :=
  match t with 47 :: _ => false | _ => negb (has_dotdot t []) end.

Fixpoint wf_desc (uid0 : bool) (dl : list name) (d : desc) : Prop :=
  match d with
  | DFile c m t bs =>
      name_ok c /\ nlen (dirstr dl ++ c) <= 4095 /\ m < 4096 /\ t < 4294967296 /\
      nlen bs < 4294967296 /\ Forall (fun b => b < 256) bs /\
      (uid0 = true \/ drop_setid m = m)
  | DLink c t tgt =>
      name_ok c /\ nlen (dirstr dl ++ c) <= 4095 /\ t < 4294967296 /\
      tgt <> [] /\ nlen tgt <= 4095 /\ Forall tgt_byte tgt /\ safe_target tgt = true
  | DDir c m t sub =>
      name_ok c /\ nlen (dirstr (dl ++ [c])) <= 4095 /\ m < 4096 /\ t < 4294967296 /\
      NoDup (map dname sub) /\
      (fix all (l : list desc) : Prop :=
         match l with [] => True | x :: r => wf_desc uid0 (dl ++ [c]) x /\ all r end) sub
  end.

Definition wf_descs (uid0 : bool) (ds : list desc) : Prop :=
  Forall (wf_desc uid0 []) ds /\ NoDup (map dname ds).

(* P_CliRetReader.v -- C13 at the level of the tool, part 2: every call of the
   reader API that the tool makes RETURNS (outcome [Ok _]), with the facts the
   command loops need to end:

   - lha_reader_next_file decreases a measure [rmeas] built from the bytes left in
     the archive, the directories and symbolic links waiting for their second
     pass, and the kind of the current entry;
   - lha_reader_check / _extract / _read do not increase it (an extraction may
     defer one directory or link, which is paid by the 22 bytes its header took);
   - the decode loops end because every non-empty read moves the decoder towards
     the declared length, which is below 2^32 for a header made of bytes.

   The archive is bounded by [A < EXT_LIMIT] (12 MiB: the model's fuel for the
   extended-header walk of level-1 headers; the -lh4-..-lh7- decoders' fuel covers
   2^27 bytes, everything else 2^40 and more).

   The proofs follow P_ReaderSafe.v / P_MacBinarySafe.v / P_AnyDecoder.v step by
   step with [okp False] (P_HeaderSafe.v: [Ok a] with [P a], nothing else) in place
   of [okp True].  Lemmas and theorems only. *)
From Lhasa Require Import Base ListN DecBase Loop Generated InputStream Header BasicReader BitReader
  Null Lzs Lz5 Lh1 LhNew Pm1 Pm2 AnyDecoder Decoder MacBinary Fs FsRun Reader
  P_HeaderSafe P_BitReader P_Null P_Lz5 P_Lzs P_LhNew P_Pm1 P_Pm2 P_AnyParam P_AnyDecoder
  P_MacBinarySafe P_ReaderSafe P_Intact P_CliRetBytes.
From Coq Require Import ZifyBool ZifyN ZifyNat.
Local Open Scope N_scope.

(* ------------------------------------------------------------------ *)
(* 0. okp False                                                         *)

Lemma okpF_bind {A B} (P : A -> Prop) (Q : B -> Prop) m (f : A -> outcome B) :
  okp False P m -> (forall a, P a -> okp False Q (f a)) -> okp False Q (bind m f).
Proof. apply okp_bind. Qed.

Lemma okpF_imp {A} (P Q : A -> Prop) m : okp False P m -> (forall a, P a -> Q a) -> okp False Q m.
Proof. intros H HI. eapply okp_weaken; [exact H|auto|exact HI]. Qed.

Lemma okpF_of_ex {A} (P : A -> Prop) m : (exists a, m = Ok a /\ P a) -> okp False P m.
Proof. intros (a & -> & H). exact H. Qed.

(* what is known of the result when it exists (okp True) + it exists *)
Lemma okp_both {A} (P Q : A -> Prop) m : okp True P m -> okp False Q m -> okp False (fun a => P a /\ Q a) m.
Proof. destruct m; cbn; auto. Qed.

Lemma okpF_ok {A} (P : A -> Prop) m : okp False P m -> exists a, m = Ok a /\ P a.
Proof. apply okp_total. Qed.

(* loops: invariant + measure below the fuel *)
Lemma loop_okpF {St R} (step : St -> outcome (St + R)) (Iv : St -> Prop) (Q : R -> Prop) (m : St -> N) k :
  (forall s, Iv s -> okp False (fun x => match x with inl s' => Iv s' /\ m s' < m s | inr r => Q r end) (step s)) ->
  forall s, Iv s -> m s < 2 ^ N.of_nat k -> okp False Q (loop step k s).
Proof.
  intros Hstep s Hi Hm.
  pose proof (loop_res step Iv Q m Hstep k s Hi) as H.
  eapply okp_weaken; [exact H|lia|auto].
Qed.

(* ------------------------------------------------------------------ *)
(* 1. lha_decoder_read over an inner decoder that returns on an           *)
(*    invariant of (decoder state, callback state)                        *)

Section WrapTot.
  Context {cbs st : Type}.
  Variable dread : st -> cbs -> outcome (list N * st * cbs).
  Variable max_read block_size : N.
  Variable J : st -> cbs -> Prop.
  Hypothesis Hd : forall s c, J s c ->
    okp False (fun '(ch, s', c') => nlen ch <= max_read /\ J s' c') (dread s c).

  Notation dec := (@decoder cbs st).

  Definition rl_measure (B : N) (s : @rl cbs st) : N :=
    2 * (B - rl_filled s) + (match d_outbuf (rl_d s) with [] => 1 | _ => 0 end) + 1.

  Lemma read_step_okpF d0 B s : rl_ok J d0 B s ->
    okp False (fun x => match x with
                        | inl s' => rl_ok J d0 B s' /\ rl_measure B s' < rl_measure B s
                        | inr r => rl_ok J d0 B r end)
        (read_step dread max_read B s).
  Proof.
    intros (Hj & Hf & Hb & Hl & Hp & Hm). unfold read_step.
    destruct (N.ltb_spec (rl_filled s) B) as [Hlt|Hge]; [|cbn [okp]; repeat split; assumption].
    pose proof (nlen_firstn_N (B - rl_filled s) (d_outbuf (rl_d s))) as Ht.
    pose proof (nlen_skipn_N (B - rl_filled s) (d_outbuf (rl_d s))) as Ls.
    assert (Hout : rl_filled s + nlen (firstn_N (B - rl_filled s) (d_outbuf (rl_d s))) =
                   nlen (rev_append (firstn_N (B - rl_filled s) (d_outbuf (rl_d s))) (rl_out_rev s))).
    { rewrite nlen_rev_append. lia. }
    assert (Hle : rl_filled s + nlen (firstn_N (B - rl_filled s) (d_outbuf (rl_d s))) <= B) by lia.
    destruct (d_failed (rl_d s)).
    { cbn [okp]. unfold rl_ok. cbn [rl_d rl_out_rev rl_filled set_buf d_inner d_cb d_stream_length d_stream_pos d_monitor].
      repeat split; assumption. }
    destruct (skipn_N (B - rl_filled s) (d_outbuf (rl_d s))) as [|y ys] eqn:Er.
    - eapply okpF_bind; [apply Hd; exact Hj|].
      intros [[chunk inner'] c'] [Hc Hj']. cbv beta iota.
      destruct (N.ltb_spec max_read (nlen chunk)) as [Hbad|_]; [lia|].
      destruct chunk as [|z zs]; cbn [okp]; unfold rl_ok;
        cbn [rl_d rl_out_rev rl_filled set_buf d_inner d_cb d_stream_length d_stream_pos d_monitor].
      + repeat split; assumption.
      + split; [repeat split; assumption|].
        unfold rl_measure. cbn [rl_filled rl_d set_buf d_outbuf].
        assert (nlen (d_outbuf (rl_d s)) <= B - rl_filled s) by (apply skipn_N_nil_iff; exact Er).
        destruct (d_outbuf (rl_d s)) as [|q qs] eqn:Eo.
        * rewrite (@nlen_nil N) in *. lia.
        * rewrite nlen_cons in *. lia.
    - cbn [okp]. unfold rl_ok. cbn [rl_d rl_out_rev rl_filled set_buf d_inner d_cb d_stream_length d_stream_pos d_monitor].
      split; [repeat split; assumption|].
      unfold rl_measure. cbn [rl_filled rl_d set_buf d_outbuf].
      rewrite nlen_cons in Ls.
      destruct (d_outbuf (rl_d s)) as [|q qs] eqn:Eo; [rewrite (@nlen_nil N) in Ls; lia|].
      rewrite nlen_cons in *. lia.
  Qed.

  Definition read_postF (d : dec) (n : N) (r : list N * list (N * N) * dec) : Prop :=
    let '(o, ev, d') := r in
    J (d_inner d') (d_cb d') /\ nlen o <= n /\ d_stream_length d' = d_stream_length d /\
    d_stream_pos d' = d_stream_pos d + nlen o /\
    (d_stream_pos d <= d_stream_length d -> d_stream_pos d' <= d_stream_length d').

  Theorem lha_decoder_read_okpF (d : dec) n : J (d_inner d) (d_cb d) -> n < 2 ^ 62 ->
    okp False (read_postF d n) (lha_decoder_read dread max_read block_size d n).
  Proof.
    intros Hj Hn. unfold lha_decoder_read.
    set (B := if d_stream_length d <? d_stream_pos d + n then d_stream_length d - d_stream_pos d else n).
    assert (HB : B <= n) by (unfold B; destruct (N.ltb_spec (d_stream_length d) (d_stream_pos d + n)); lia).
    assert (HB2 : d_stream_pos d <= d_stream_length d -> d_stream_pos d + B <= d_stream_length d)
      by (unfold B; destruct (N.ltb_spec (d_stream_length d) (d_stream_pos d + n)); lia).
    eapply okpF_bind.
    - apply (loop_okpF (read_step dread max_read B) (rl_ok J d B) (rl_ok J d B) (rl_measure B)).
      + intros s Hs. apply read_step_okpF. exact Hs.
      + unfold rl_ok. cbn [rl_d rl_out_rev rl_filled]. split; [exact Hj|]. split; [reflexivity|]. split; [lia|]. repeat split.
      + unfold rl_measure. cbn [rl_filled rl_d]. change (N.of_nat 64) with 64.
        assert (2 ^ 64 = 4 * 2 ^ 62) by reflexivity.
        destruct (d_outbuf d); lia.
    - intros s (Hjs & Hf & Hb & Hl & Hp & Hm). cbv zeta. cbn [d_monitor].
      assert (Ho : nlen (rev_append (rl_out_rev s) []) = rl_filled s).
      { rewrite nlen_rev_append, nlen_nil. lia. }
      destruct (d_monitor (rl_d s)).
      + unfold check_progress. cbn [okp read_postF d_inner d_cb d_stream_length d_stream_pos].
        rewrite Ho. repeat split; try assumption; lia.
      + cbn [okp read_postF d_inner d_cb d_stream_length d_stream_pos].
        rewrite Ho. repeat split; try assumption; lia.
  Qed.
End WrapTot.

(* ------------------------------------------------------------------ *)
(* 2. The callback of the basic reader: bytes left                      *)

Lemma read_ready_avail st n :
  avail (snd (read_ready st n)) + match fst (read_ready st n) with Some b => nlen b | None => 0 end <= avail st.
Proof.
  unfold read_ready.
  assert (G : forall s0,
    avail (snd (let from_leadin := firstn_N n (is_leadin st) in
       let l' := skipn_N n (is_leadin st) in
       let total := nlen from_leadin in
       if total <? n
       then
        let '(got, src') := raw_read (is_src st) (n - total) in
        let st2 := {| is_src := src'; is_state := s0; is_leadin := l' |} in
        if total + nlen got =? n then (Some (from_leadin ++ got), st2) else (None, st2)
       else
        (Some from_leadin,
         {| is_src := is_src st; is_state := s0; is_leadin := l' |}))) +
    match fst (let from_leadin := firstn_N n (is_leadin st) in
       let l' := skipn_N n (is_leadin st) in
       let total := nlen from_leadin in
       if total <? n
       then
        let '(got, src') := raw_read (is_src st) (n - total) in
        let st2 := {| is_src := src'; is_state := s0; is_leadin := l' |} in
        if total + nlen got =? n then (Some (from_leadin ++ got), st2) else (None, st2)
       else
        (Some from_leadin,
         {| is_src := is_src st; is_state := s0; is_leadin := l' |})) with Some b => nlen b | None => 0 end
    <= avail st).
  { intros s0. cbv zeta. unfold raw_read. cbv beta iota.
    pose proof (nlen_firstn_N n (is_leadin st)) as H1.
    pose proof (nlen_skipn_N n (is_leadin st)) as H2.
    destruct (N.ltb_spec (nlen (firstn_N n (is_leadin st))) n) as [Hlt|Hge].
    - pose proof (nlen_firstn_N (n - nlen (firstn_N n (is_leadin st))) (so_data (is_src st))) as H3.
      pose proof (nlen_skipn_N (n - nlen (firstn_N n (is_leadin st))) (so_data (is_src st))) as H4.
      destruct (nlen (firstn_N n (is_leadin st)) +
                nlen (firstn_N (n - nlen (firstn_N n (is_leadin st))) (so_data (is_src st))) =? n);
        cbn [fst snd]; unfold avail; cbn [is_leadin is_src so_data]; rewrite ?nlen_app; lia.
    - cbn [fst snd]. unfold avail; cbn [is_leadin is_src so_data]. lia. }
  destruct (is_state st); [apply G|apply G|cbn [fst snd]; lia].
Qed.

Lemma decoder_callback_finite : cb_finite decoder_callback ravail.
Proof.
  intros c n. unfold decoder_callback, lha_basic_reader_read_compressed.
  destruct (br_eof c || (br_remaining c =? 0)); [cbn [fst snd]; rewrite nlen_nil; lia|].
  set (bytes := if br_remaining c <? n then br_remaining c else n).
  pose proof (read_ready_avail (br_stream c) bytes) as H.
  destruct (is_state (br_stream c)); [cbn [fst snd]; rewrite nlen_nil; lia| |];
    destruct (read_ready (br_stream c) bytes) as [res st']; cbn [fst snd] in H;
    destruct res as [bs|]; cbn [fst snd]; unfold ravail; cbn [br_stream]; rewrite ?nlen_nil; lia.
Qed.

Section RetDec.
  Variable lh1_inv : lh1_state -> Prop.
  Hypothesis Hlh1 : forall s c, lh1_inv s ->
    exists ch s' c', lh1_read decoder_callback s c = Ok (ch, s', c') /\ nlen ch <= lh1_max_read /\ lh1_inv s'.
  Variable junk : N.
  (* the size of the archive *)
  Variable A : N.
  Hypothesis HA : A < EXT_LIMIT.

  Notation any_inv := (any_inv lh1_inv).
  Notation idec_ok := (idec_ok lh1_inv).
  Notation mw_ok := (mw_ok lh1_inv).
  Notation JJ := (JJ lh1_inv).

  (* the basic reader holds bytes, at most A of them *)
  Definition BRA (c : breader) : Prop := SB (br_stream c) /\ ravail c <= A.

  Lemma decoder_callback_BRA c n : BRA c -> BRA (snd (decoder_callback c n)).
  Proof.
    intros [Hs Ha]. pose proof (decoder_callback_finite c n) as Hf. split; [|lia].
    unfold decoder_callback, lha_basic_reader_read_compressed.
    destruct (br_eof c || (br_remaining c =? 0)); [exact Hs|].
    set (bytes := if br_remaining c <? n then br_remaining c else n).
    pose proof (read_ready_SB (br_stream c) bytes Hs) as [H _].
    destruct (is_state (br_stream c)); [exact Hs| |];
      destruct (read_ready (br_stream c) bytes) as [res st']; cbn [snd] in H;
      destruct res as [bs|]; cbn [snd br_stream]; exact H.
  Qed.

  (* every decoder of the table returns: the -lh4-..-lh7- decoders because the input ends *)
  Lemma any_read_ex s c : any_inv s -> ravail c <= A ->
    exists r, any_read decoder_callback junk s c = Ok r.
  Proof.
    intros Hi Hc. destruct s as [s0|s0|s0|s0|p s0|s0|s0]; cbn [any_read P_AnyDecoder.any_inv] in *.
    - destruct (null_read_total_len breader decoder_callback decoder_callback_len s0 c) as (ch & s' & c' & E & Hl).
      rewrite E. cbn [bind]. eauto.
    - destruct (lz5_read_total_gen decoder_callback junk s0 c Hi) as (ch & s' & c' & E & Hl & Hi').
      rewrite E. cbn [bind]. eauto.
    - destruct (lzs_read_total_len breader decoder_callback decoder_callback_len s0 c Hi) as (ch & s' & c' & E & Hl & Hi').
      rewrite E. cbn [bind]. eauto.
    - destruct (Hlh1 s0 c Hi) as (ch & s' & c' & E & Hl & Hi').
      rewrite E. cbn [bind]. eauto.
    - destruct Hi as [Hp Hi].
      destruct (lhnew_read_total_len p Hp breader decoder_callback ravail decoder_callback_len decoder_callback_finite s0 c Hi)
        as (ch & s' & c' & E & _).
      + destruct Hi as [[Hb _] _]. unfold EXT_LIMIT in HA. change (2 ^ 30) with 1073741824. lia.
      + rewrite E. cbn [bind]. eauto.
    - destruct (pm1_read_total_len breader decoder_callback decoder_callback_len s0 c Hi) as (ch & s' & c' & E & Hl & Hi').
      rewrite E. cbn [bind]. eauto.
    - destruct (pm2_never_faults_len breader decoder_callback decoder_callback_len s0 c Hi) as (ch & s' & c' & E & Hl & Hi').
      rewrite E. cbn [bind]. eauto.
  Qed.

  Definition JT (X : option header) (mr : N) (s : dstate) (c : breader) : Prop := JJ X mr s c /\ BRA c.

  Lemma any_read_JT X mr s c : JT X mr s c ->
    okp False (fun '(ch, s', c') => nlen ch <= mr /\ JT X mr s' c') (any_read decoder_callback junk s c).
  Proof.
    intros [Hj Hb].
    pose proof (any_read_JJ lh1_inv Hlh1 junk X mr s c Hj) as H1.
    pose proof (any_read_frame breader decoder_callback BRA decoder_callback_BRA junk s c) as Hf.
    destruct Hj as (Hi & _). destruct (any_read_ex s c Hi (proj2 Hb)) as [[[ch s'] c'] E].
    rewrite E in *. cbn [okp] in *. destruct H1 as [A1 A2]. split; [exact A1|]. split; [exact A2|].
    apply (Hf ch s' c' Hb eq_refl).
  Qed.

  (* ---------------------------------------------------------------- *)
  (* 3. An LHADecoder over the basic reader                            *)

  (* L: the declared length *)
  Definition idec_tot (X : option header) (L : N) (d : idec) : Prop :=
    idec_ok X d /\ BRA (d_cb (id_dec d)) /\ d_stream_length (id_dec d) = L /\ d_stream_pos (id_dec d) <= L.

  Definition inner_postF (X : option header) (L : N) (d : idec) (n : N) (r : list N * list (N * N) * idec) : Prop :=
    let '(o, ev, d') := r in
    idec_tot X L d' /\ nlen o <= n /\ id_max_read d' = id_max_read d /\ id_block_size d' = id_block_size d /\
    d_stream_pos (id_dec d') = d_stream_pos (id_dec d) + nlen o.

  Theorem inner_read_okpF X L d n : idec_tot X L d -> n < 2 ^ 62 ->
    okp False (inner_postF X L d n) (inner_read junk d n).
  Proof.
    intros ((Hi & Hm & Hk) & Hb & Hl & Hp) Hn. unfold inner_read.
    eapply okpF_bind.
    - apply (lha_decoder_read_okpF (any_read decoder_callback junk) (id_max_read d) (id_block_size d)
               (JT X (id_max_read d)) (any_read_JT X (id_max_read d)) (id_dec d) n); [|exact Hn].
      split; [split; [exact Hi|split; [exact Hm|exact Hk]]|exact Hb].
    - intros [[o ev] d'] (((Hi' & Hm' & Hk') & Hb') & Hn' & Hl' & Hp' & Hle). cbn [okp inner_postF].
      unfold idec_tot, P_MacBinarySafe.idec_ok, with_dec. cbn [id_dec id_max_read id_block_size].
      split; [|split; [exact Hn'|split; [reflexivity|split; [reflexivity|exact Hp']]]].
      split; [split; [exact Hi'|split; [exact Hm'|exact Hk']]|].
      split; [exact Hb'|]. split; [congruence|]. rewrite Hl', Hl in Hle. apply Hle. exact Hp.
  Qed.

  (* ---------------------------------------------------------------- *)
  (* 4. macbinary.c                                                    *)

  Definition mw_tot (X : option header) (L : N) (w : mb_world) : Prop := idec_tot X L (mw_dec w).

  Lemma mw_tot_ok X L w : mw_tot X L w -> mw_ok X w.
  Proof. intros [H _]. exact H. Qed.

  Lemma rmh_step_okpF X L s : mw_tot X L (fst s) /\ nlen (snd s) <= 128 ->
    okp False (fun x => match x with
                        | inl s' => (mw_tot X L (fst s') /\ nlen (snd s') <= 128) /\ 128 - nlen (snd s') < 128 - nlen (snd s)
                        | inr (ok, w, got) => mw_tot X L w /\ (ok = true -> nlen got = 128)
                        end) (rmh_step junk s).
  Proof.
    destruct s as [w got]. cbn [fst snd]. intros [Hw Hg]. unfold rmh_step. change mb_MBHDR_SIZE with 128.
    destruct (N.ltb_spec (nlen got) 128) as [Hlt|Hge].
    - eapply okpF_bind; [apply (inner_read_okpF X L (mw_dec w) (128 - nlen got)); [exact Hw|]|].
      { change (2 ^ 62) with 4611686018427387904. lia. }
      intros [[o ev] d'] (Hd & Hn & _). cbv beta iota zeta.
      destruct o as [|b o']; cbn [okp fst snd]; unfold mw_tot; cbn [mw_dec].
      + split; [exact Hd|discriminate].
      + rewrite nlen_app. rewrite nlen_cons in *. split; [split; [exact Hd|lia]|lia].
    - cbn [okp]. split; [exact Hw|]. intros _. lia.
  Qed.

  Definition init_postF (X : option header) (L : N) (r : option mb_state * mb_world) : Prop :=
    let '(ms, w') := r in mw_tot X L w' /\ match ms with Some m => mb_ok m | None => True end.

  Theorem macbinary_init_okpF X L w h : mw_tot X L w -> h_filename h <> None ->
    okp False (init_postF X L) (macbinary_init junk w h).
  Proof.
    intros Hw Hf. unfold macbinary_init. change mb_MBHDR_SIZE with 128. cbv zeta.
    destruct (h_length h <? 128).
    { cbn [okp init_postF]. split; [exact Hw|]. unfold mb_ok. cbn [mb_header]. rewrite nlen_nil. lia. }
    eapply okpF_bind.
    - apply (loop_okpF (rmh_step junk)
               (fun s => mw_tot X L (fst s) /\ nlen (snd s) <= 128)
               (fun r => let '(ok, w1, got) := r in mw_tot X L w1 /\ (ok = true -> nlen got = 128))
               (fun s => 128 - nlen (snd s))).
      + intros s Hs. eapply okpF_imp; [apply rmh_step_okpF; exact Hs|].
        intros [s'|[[ok w1] got]] Hx; exact Hx.
      + cbn [fst snd]. split; [exact Hw|]. rewrite nlen_nil. lia.
      + cbn [snd]. change (2 ^ N.of_nat 10) with 1024. lia.
    - intros [[ok w1] got] [Hw1 Hg]. cbv beta iota.
      destruct ok; cbn [negb]; [|cbn [okp init_postF]; split; [exact Hw1|exact I]].
      specialize (Hg eq_refl). change mb_header_extent with 128.
      destruct (N.ltb_spec 128 (nlen got)) as [Hbad|_]; [lia|].
      destruct (is_macbinary_header_ok got h Hg Hf) as [is_mb Emb]. rewrite Emb. cbn [bind].
      destruct is_mb; cbn [negb].
      + change mb_MBHDR_OFF_DATA_FORK_LEN with 83. change mb_MBHDR_OFF_RES_FORK_LEN with 87.
        destruct (be32_ok 1312 got 83 Hg) as [dfl Ed]; [lia|]. rewrite Ed. cbn [bind].
        destruct (be32_ok 1313 got 87 Hg) as [rfl Erf]; [lia|]. rewrite Erf. cbn [bind].
        cbn [okp init_postF]. split; [exact Hw1|]. unfold mb_ok. cbn [mb_header]. lia.
      + cbn [okp init_postF]. split; [exact Hw1|]. unfold mb_ok. cbn [mb_header]. lia.
  Qed.

  (* decode_to_end: every non-empty read moves the inner decoder towards L *)
  Definition mw_rem (w : mb_world) : N :=
    d_stream_length (id_dec (mw_dec w)) - d_stream_pos (id_dec (mw_dec w)).

  Lemma dte_step_okpF X L w : mw_tot X L w ->
    okp False (fun x => match x with inl w' => mw_tot X L w' /\ mw_rem w' < mw_rem w | inr w' => mw_tot X L w' end)
        (dte_step junk w).
  Proof.
    intros Hw. unfold dte_step.
    eapply okpF_bind; [apply (inner_read_okpF X L (mw_dec w) 128); [exact Hw|reflexivity]|].
    intros [[o ev] d'] (Hd & _ & _ & _ & Hp). cbv beta iota zeta.
    destruct o as [|b o']; cbn [okp]; unfold mw_tot; cbn [mw_dec]; [exact Hd|].
    split; [exact Hd|]. unfold mw_rem. cbn [mw_dec].
    destruct Hd as (_ & _ & Hl' & Hp'). destruct Hw as (_ & _ & Hl & Hp0).
    rewrite nlen_cons in Hp. lia.
  Qed.

  Definition mread_postF (X : option header) (L : N) (r : list N * mb_state * mb_world) : Prop :=
    let '(o, s', w') := r in nlen o <= macbinary_max_read /\ mb_ok s' /\ mw_tot X L w'.

  Theorem macbinary_read_okpF X L s w : L < LEN32 -> mb_ok s -> mw_tot X L w ->
    okp False (mread_postF X L) (macbinary_read junk s w).
  Proof.
    intros HL Hs Hw. unfold macbinary_read. change mb_OUTPUT_BUFFER_SIZE with 4096.
    set (pre := if 0 <? mb_header_bytes s then firstn_N (mb_header_bytes s) (mb_header s) else []).
    assert (Hpre : nlen pre <= 128).
    { unfold pre. destruct (0 <? mb_header_bytes s); [|rewrite nlen_nil; lia].
      rewrite nlen_firstn_N. unfold mb_ok in Hs. lia. }
    cbv zeta. destruct (N.ltb_spec 4096 (nlen pre)) as [Hbad|_]; [lia|].
    set (to_read := if mb_remaining s <? 4096 - nlen pre then mb_remaining s else 4096 - nlen pre).
    assert (Htr : to_read <= 4096 - nlen pre).
    { unfold to_read. destruct (N.ltb_spec (mb_remaining s) (4096 - nlen pre)); lia. }
    eapply okpF_bind; [apply (inner_read_okpF X L (mw_dec w) to_read); [exact Hw|]|].
    { change (2 ^ 62) with 4611686018427387904. lia. }
    intros [[o ev] d1] (Hd & Hn & _). cbv beta iota zeta.
    assert (Hout : nlen (pre ++ o) <= macbinary_max_read).
    { rewrite nlen_app. change macbinary_max_read with 4096. lia. }
    destruct (mb_remaining s - nlen o =? 0).
    - eapply okpF_bind.
      + apply (loop_okpF (dte_step junk) (mw_tot X L) (mw_tot X L) mw_rem).
        * intros w0 Hw0. apply dte_step_okpF. exact Hw0.
        * unfold mw_tot. cbn [mw_dec]. exact Hd.
        * unfold mw_rem. cbn [mw_dec]. destruct Hd as (_ & _ & Hl' & _).
          change (2 ^ N.of_nat 64) with 18446744073709551616. lia.
      + intros w2 Hw2. cbn [okp mread_postF]. split; [exact Hout|]. split; [exact Hs|exact Hw2].
    - cbn [okp mread_postF]. split; [exact Hout|]. split; [exact Hs|]. unfold mw_tot. cbn [mw_dec]. exact Hd.
  Qed.

  (* the pass-through decoder behind lha_decoder_read *)
  Definition odec_tot (X : option header) (L : N) (o : @decoder mb_world mb_state) : Prop :=
    mb_ok (d_inner o) /\ mw_tot X L (d_cb o).

  Theorem outer_read_okpF X L (o : @decoder mb_world mb_state) n : L < LEN32 -> odec_tot X L o -> n < 2 ^ 62 ->
    okp False (fun '(out, ev, o') => odec_tot X L o' /\ nlen out <= n /\
                 d_stream_length o' = d_stream_length o /\ d_stream_pos o' = d_stream_pos o + nlen out /\
                 (d_stream_pos o <= d_stream_length o -> d_stream_pos o' <= d_stream_length o'))
        (lha_decoder_read (macbinary_read junk) macbinary_max_read macbinary_block_size o n).
  Proof.
    intros HL [Hs Hw] Hn.
    eapply okpF_imp.
    - apply (lha_decoder_read_okpF (macbinary_read junk) macbinary_max_read macbinary_block_size
               (fun s w => mb_ok s /\ mw_tot X L w)).
      + intros s w [Hs0 Hw0]. eapply okpF_imp; [apply (macbinary_read_okpF X L s w HL Hs0 Hw0)|].
        intros [[ch s'] w'] (A1 & B1 & C1). split; [exact A1|]. split; assumption.
      + split; assumption.
      + exact Hn.
    - intros [[out ev] o'] (Hj & Hn' & Hl & Hp & Hle). split; [exact Hj|]. repeat split; assumption.
  Qed.
End RetDec.


(* ------------------------------------------------------------------ *)
(* 5. The reader: decoders                                              *)

Lemma BRA_le a b c : a <= b -> BRA a c -> BRA b c.
Proof. intros H [S1 S2]. split; [exact S1|lia]. Qed.

(* position and declared length of an LHADecoder *)
Definition DL {cbs st : Type} (d : @decoder cbs st) : Prop :=
  d_stream_pos d <= d_stream_length d /\ d_stream_length d < LEN32.

Definition dec_len (d : option dec_obj) : Prop :=
  match d with
  | None => True
  | Some (DO_plain d0) => DL (id_dec d0)
  | Some (DO_mac o) => DL o /\ DL (id_dec (mw_dec (d_cb o)))
  end.

(* what is left to decode of the current member (before the first read: anything below 2^32) *)
Definition drem (r : reader) : N :=
  match rd_decoder r with
  | None => LEN32 + 1
  | Some (DO_plain d) => d_stream_length (id_dec d) - d_stream_pos (id_dec d)
  | Some (DO_mac o) => d_stream_length o - d_stream_pos o
  end.

(* a decode operation leaves the entry, the lists and the current header alone and does not
   put bytes back *)
Definition keeps (r r' : reader) : Prop :=
  rd_type r' = rd_type r /\ rd_dir_stack r' = rd_dir_stack r /\ rd_deferred r' = rd_deferred r /\
  br_curr (rd_br r') = br_curr (rd_br r) /\ ravail (rd_br r') <= ravail (rd_br r).

Lemma keeps_refl r : keeps r r.
Proof. unfold keeps. repeat split; lia. Qed.

Lemma keeps_trans a b c : keeps a b -> keeps b c -> keeps a c.
Proof. intros (A1 & A2 & A3 & A4 & A5) (B1 & B2 & B3 & B4 & B5). unfold keeps. repeat split; try congruence. lia. Qed.

Record TInv (A : N) (r : reader) : Prop := {
  ti_bra : BRA A (rd_br r);
  ti_len : forall h, br_curr (rd_br r) = Some h -> h_length h < LEN32;
  ti_dec : dec_len (rd_decoder r)
}.

Lemma drem_lt A r : has_dec r -> TInv A r -> drem r < LEN32.
Proof.
  intros Hd [_ _ Hl]. unfold has_dec in Hd. unfold drem.
  destruct (rd_decoder r) as [[d|o]|]; [| |contradiction Hd; reflexivity]; cbn [dec_len] in Hl.
  - destruct Hl. lia.
  - destruct Hl as [[? ?] _]. lia.
Qed.

Lemma nonempty_len (o : list N) : o <> [] -> 0 < nlen o.
Proof. destruct o; [intros H; contradiction H; reflexivity|intros _; rewrite nlen_cons; lia]. Qed.

(* ---------------------------------------------------------------- *)
(* 7. The measure of the loops over the members                      *)

(* a header that may still be pushed onto the directory stack or the deferred list:
   the fresh current entry, or the one waiting in the basic reader behind a fake entry *)
Definition cred (f : bool) (r : reader) : N :=
  match rd_type r with
  | CT_NORMAL => if f then 1 else 0
  | CT_FAKE_DIR | CT_DEFERRED_SYMLINK => match br_curr (rd_br r) with Some _ => 1 | None => 0 end
  | _ => 0
  end.
Definition tflag (r : reader) : N :=
  match rd_type r with CT_FAKE_DIR | CT_DEFERRED_SYMLINK => 1 | _ => 0 end.
Definition pending (r : reader) : N := nlen (rd_dir_stack r) + nlen (rd_deferred r).
(* every pending entry was paid with the 22 bytes of its header *)
Definition rpot (f : bool) (r : reader) : N := 22 * (pending r + cred f r) + ravail (rd_br r).
Definition rmeas (f : bool) (r : reader) : N := ravail (rd_br r) + 2 * pending r + 3 * cred f r + tflag r.

Lemma cred_le f r : cred false r <= cred f r.
Proof. unfold cred. destruct (rd_type r); destruct f; try lia; destruct (br_curr (rd_br r)); lia. Qed.

Lemma cred_le1 f r : cred f r <= 1.
Proof. unfold cred. destruct (rd_type r); destruct f; try lia; destruct (br_curr (rd_br r)); lia. Qed.

Lemma rmeas_bound A f r : A < EXT_LIMIT -> rpot f r <= A -> rmeas f r < 2 ^ N.of_nat 40.
Proof.
  unfold rpot, rmeas. intros HA H. pose proof (cred_le1 f r).
  assert (tflag r <= 1) by (unfold tflag; destruct (rd_type r); lia).
  unfold EXT_LIMIT in HA. change (2 ^ N.of_nat 40) with 1099511627776. lia.
Qed.

Lemma keeps_cred f r r' : keeps r r' -> cred f r' = cred f r /\ tflag r' = tflag r /\ pending r' = pending r.
Proof. intros (K1 & K2 & K3 & K4 & K5). unfold cred, tflag, pending. rewrite K1, K2, K3, K4. auto. Qed.

Lemma keeps_pot f r r' : keeps r r' ->
  rpot false r' <= rpot f r /\ rmeas false r' <= rmeas f r /\ rpot f r' <= rpot f r /\ rmeas f r' <= rmeas f r.
Proof.
  intros K. destruct (keeps_cred f r r' K) as (C1 & C2 & C3). destruct (keeps_cred false r r' K) as (D1 & _).
  destruct K as (_ & _ & _ & _ & K5). pose proof (cred_le f r).
  unfold rpot, rmeas. rewrite C1, C2, C3, D1. lia.
Qed.

Definition c0 (br : breader) : N := match br_curr br with Some _ => 1 | None => 0 end.


(* an extraction is a decode operation, or defers the fresh current entry *)
Definition pk (r r' : reader) : Prop :=
  rd_type r' = rd_type r /\ br_curr (rd_br r') = br_curr (rd_br r) /\ ravail (rd_br r') <= ravail (rd_br r) /\
  (pending r' = pending r \/ (rd_type r = CT_NORMAL /\ pending r' = pending r + 1)).

Lemma keeps_pk r r' : keeps r r' -> pk r r'.
Proof.
  intros K. destruct (keeps_cred false r r' K) as (_ & _ & P). destruct K as (K1 & _ & _ & K4 & K5).
  split; [exact K1|]. split; [exact K4|]. split; [exact K5|]. left. exact P.
Qed.

Lemma pk_refl r : pk r r.
Proof. apply keeps_pk, keeps_refl. Qed.

Lemma pk_pot r r' : pk r r' -> rpot false r' <= rpot true r /\ rmeas false r' <= rmeas true r.
Proof.
  intros (K1 & K2 & K3 & K4). unfold rpot, rmeas, cred, tflag. rewrite K1, K2.
  destruct (rd_type r); destruct K4 as [K4|[K4 K5]]; try discriminate; rewrite ?K4, ?K5;
    try (destruct (br_curr (rd_br r))); lia.
Qed.

Lemma TInv_same A r r' : TInv A r -> rd_br r' = rd_br r -> rd_decoder r' = rd_decoder r -> TInv A r'.
Proof. intros [T1 T2 T3] E1 E2. constructor; rewrite ?E1, ?E2; assumption. Qed.

Lemma nlen_insert_deferred l h : nlen (insert_deferred l h) = nlen l + 1.
Proof.
  induction l as [|x r IH]; cbn [insert_deferred]; [rewrite nlen_cons, !nlen_nil; lia|].
  destruct (file_header_path_len h <? file_header_path_len x); rewrite !nlen_cons; [rewrite IH|]; lia.
Qed.


Section RetReader.
  Variable lh1_inv : lh1_state -> Prop.
  Hypothesis Hlh1 : forall s c, lh1_inv s ->
    exists ch s' c', lh1_read decoder_callback s c = Ok (ch, s', c') /\ nlen ch <= lh1_max_read /\ lh1_inv s'.
  Hypothesis lh1_init_inv : exists s, lh1_init = Ok s /\ lh1_inv s.
  Variable mktime : N -> N -> N -> N -> Z -> N -> N.
  Variable junk : N.
  Variable A : N.
  Hypothesis HA : A < EXT_LIMIT.

  Notation RInv := (RInv lh1_inv).
  Notation idec_ok0 := (idec_ok0 lh1_inv).
  Notation dec_ok' := (dec_ok' lh1_inv).
  Notation TInv := (TInv A).

  (* lha_decoder_read(reader->decoder, ...) *)
  Lemma decoder_read_okpF f r n : RInv f r -> TInv r -> has_dec r -> n < 2 ^ 62 ->
    okp False (fun '(o, ev, r') => RInv false r' /\ has_dec r' /\ TInv r' /\ keeps r r' /\
                                   (o <> [] -> drem r' < drem r))
        (decoder_read junk r n).
  Proof.
    intros Hi Ht Hd Hn. pose proof (ri_dec _ _ _ Hi) as G. pose proof (ri_wf _ _ _ Hi) as Hw.
    destruct Ht as [[Hsb Hav] Hlen Hdl].
    assert (Ha : ravail (rd_br r) < EXT_LIMIT) by lia.
    unfold decoder_read. unfold has_dec in Hd. unfold drem.
    destruct (rd_decoder r) as [[d|o]|] eqn:Ed; [| |contradiction Hd; reflexivity].
    - destruct (rd_inner r) eqn:Ei; cbn [P_ReaderSafe.dec_ok'] in G; try contradiction. destruct G as [Et G].
      cbn [dec_len] in Hdl. destruct Hdl as [Hpos Hl32].
      eapply okpF_bind.
      + apply (inner_read_okpF lh1_inv Hlh1 junk (ravail (rd_br r)) Ha (br_curr (rd_br r))
                 (d_stream_length (id_dec d)) (load_br d (rd_br r)) n); [|exact Hn].
        split; [apply idec_load; assumption|].
        unfold load_br. cbn [id_dec set_cb d_cb d_stream_length d_stream_pos].
        split; [split; [exact Hsb|lia]|]. split; [reflexivity|exact Hpos].
      + intros [[o ev] d'] ((Hd' & Hb' & Hl' & Hp') & _ & _ & _ & Hpe). cbv beta iota.
        unfold load_br in Hpe. cbn [id_dec set_cb d_stream_pos] in Hpe.
        destruct (idec_unload _ _ _ Hd') as (A1 & B1 & C1). cbn [okp].
        split; [apply (RInv_set_decoders _ f r _ _ _ Hi B1 C1); rewrite Et; cbn [P_ReaderSafe.dec_ok']; split; [reflexivity|exact A1]|].
        split; [unfold has_dec; rsimp; discriminate|].
        split; [constructor; rsimp|].
        * apply (BRA_le (ravail (rd_br r))); [lia|exact Hb'].
        * intros h Eh. apply Hlen. rewrite <- C1. exact Eh.
        * cbn [dec_len]. split; [rewrite Hl'; exact Hp'|rewrite Hl'; exact Hl32].
        * split; [unfold keeps; rsimp; repeat split; [exact C1|destruct Hb' as [_ X]; exact X]|].
          intros Ho. apply nonempty_len in Ho. rsimp. lia.
    - destruct (rd_inner r) eqn:Ei; cbn [P_ReaderSafe.dec_ok'] in G; try contradiction. destruct G as (Et & Gm & G).
      cbn [dec_len] in Hdl. destruct Hdl as [[Hpo Hlo] [Hpi Hli]].
      cbv zeta.
      eapply okpF_bind.
      + apply (outer_read_okpF lh1_inv Hlh1 junk (ravail (rd_br r)) Ha (br_curr (rd_br r))
                 (d_stream_length (id_dec (mw_dec (d_cb o))))
                 (set_world o {| mw_dec := load_br (mw_dec (d_cb o)) (rd_br r); mw_ev := [] |}) n); [exact Hli| |exact Hn].
        unfold odec_tot, set_world. cbn [d_inner d_cb]. split; [exact Gm|]. unfold mw_tot. cbn [mw_dec].
        split; [apply idec_load; assumption|].
        unfold load_br. cbn [id_dec set_cb d_cb d_stream_length d_stream_pos].
        split; [split; [exact Hsb|lia]|]. split; [reflexivity|exact Hpi].
      + intros [[out ev] o'] ((Hm & Hw') & _ & Hl' & Hp' & Hle). cbv beta iota.
        unfold set_world in Hl', Hp', Hle. cbn [d_stream_length d_stream_pos] in Hl', Hp', Hle.
        destruct Hw' as (Hok & Hb' & HlI & HpI).
        destruct (idec_unload _ _ _ Hok) as (A1 & B1 & C1). cbn [okp].
        split; [apply (RInv_set_decoders _ f r _ _ _ Hi B1 C1); rewrite Et; cbn [P_ReaderSafe.dec_ok'];
                split; [reflexivity|]; split; [exact Hm|exact A1]|].
        split; [unfold has_dec; rsimp; discriminate|].
        split; [constructor; rsimp|].
        * apply (BRA_le (ravail (rd_br r))); [lia|exact Hb'].
        * intros h Eh. apply Hlen. rewrite <- C1. exact Eh.
        * cbn [dec_len]. split; [split; [apply Hle; exact Hpo|rewrite Hl'; exact Hlo]|].
          split; [rewrite HlI; exact HpI|rewrite HlI; exact Hli].
        * split; [unfold keeps; rsimp; repeat split; [exact C1|destruct Hb' as [_ X]; exact X]|].
          intros Ho. apply nonempty_len in Ho. rsimp. specialize (Hle Hpo). lia.
  Qed.

  (* ---------------------------------------------------------------- *)
  (* open_decoder                                                      *)

  Lemma monitor_tot a X L (d0 : idec) (monitor : bool) :
    idec_tot lh1_inv a X L d0 ->
    idec_tot lh1_inv a X L (fst (if monitor
                    then (let '(d', e) := lha_decoder_monitor (id_block_size d0) (id_dec d0) in (with_dec d0 d', e))
                    else (d0, []))).
  Proof.
    intros Hd. destruct monitor; [|exact Hd].
    unfold lha_decoder_monitor, check_progress. cbn [fst]. exact Hd.
  Qed.

  Lemma open_decoder_okpF f r monitor : RInv f r -> TInv r -> rd_decoder r = None -> rd_inner r = IR_null ->
    okp False (fun '(ok, ev, r') => RInv false r' /\ (ok = true -> has_dec r') /\ TInv r' /\ keeps r r')
        (open_decoder junk r monitor).
  Proof.
    intros Hi Ht Ed Ei. pose proof (ri_typ _ _ _ Hi) as T. pose proof (ri_wf _ _ _ Hi) as Hw.
    pose proof Ht as [[Hsb Hav] Hlen Hdl].
    assert (Ha : ravail (rd_br r) < EXT_LIMIT) by lia.
    unfold open_decoder. destruct (rd_type r) eqn:Et;
      try (cbn [okp]; split; [apply (RInv_weaken _ f); exact Hi|split; [discriminate|split; [exact Ht|apply keeps_refl]]]).
    cbn [typ_ok] in T. destruct T as (h & Hc & Hb).
    unfold lha_basic_reader_decode. rewrite Hb.
    destruct (lha_decoder_for_name (cstr (h_method h))) as [dt|] eqn:Edt.
    2:{ cbn [bind okp]. split; [apply (RInv_set_decoders _ f r _ _ _ Hi Hw eq_refl); rewrite Ed; exact I|].
        split; [discriminate|]. split; [|unfold keeps; rsimp; repeat split; lia].
        constructor; rsimp; [split; assumption|exact Hlen|rewrite Ed; exact I]. }
    destruct (decoder_for_name_ok lh1_inv lh1_init_inv _ _ Edt) as (s0 & Es0 & Hs0 & Hm0).
    rewrite Es0. cbn [bind].
    set (d0 := {| id_max_read := dt_max_read dt; id_block_size := dt_block_size dt;
                  id_dec := lha_decoder_new s0 (rd_br r) (h_length h) |}).
    pose proof (Hlen h Hb) as HL.
    assert (Hd0 : idec_tot lh1_inv (ravail (rd_br r)) (br_curr (rd_br r)) (h_length h) d0).
    { unfold idec_tot, P_MacBinarySafe.idec_ok, d0, lha_decoder_new. cbn [id_dec id_max_read d_inner d_cb d_stream_length d_stream_pos].
      split; [split; [exact Hs0|split; [lia|split; [exact Hw|reflexivity]]]|].
      split; [split; [exact Hsb|lia]|]. split; [reflexivity|lia]. }
    pose proof (monitor_tot _ _ _ d0 monitor Hd0) as Hd1.
    destruct (if monitor
              then (let '(d', e) := lha_decoder_monitor (id_block_size d0) (id_dec d0) in (with_dec d0 d', e))
              else (d0, [])) as [d1 ev]. cbn [fst] in Hd1.
    rewrite Hc.
    destruct (h_os_type h =? OS_TYPE_MACOS).
    - assert (Hfn : h_filename h <> None).
      { destruct (ri_hdr _ _ _ Hi h Hb) as [Hf _]. apply Hf. unfold method_is. eapply decoder_not_dir. exact Edt. }
      eapply okpF_bind.
      + apply (macbinary_init_okpF lh1_inv Hlh1 junk (ravail (rd_br r)) Ha (br_curr (rd_br r)) (h_length h)
                 {| mw_dec := d1; mw_ev := [] |} h).
        * unfold mw_tot. cbn [mw_dec]. exact Hd1.
        * exact Hfn.
      + intros [ms w] [Hw' Hms]. cbv beta iota.
        destruct Hw' as (Hok & Hb' & HlI & HpI).
        destruct (idec_unload _ _ _ Hok) as (A1 & B1 & C1).
        assert (Hk : keeps r (set_decoders r (idec_br (mw_dec w)) None IR_null) /\
                     BRA A (idec_br (mw_dec w))).
        { split; [unfold keeps; rsimp; repeat split; [exact C1|destruct Hb' as [_ X]; exact X]|].
          apply (BRA_le (ravail (rd_br r))); [lia|exact Hb']. }
        destruct Hk as [Hk HbA].
        destruct ms as [m|]; cbn [okp].
        * split; [apply (RInv_set_decoders _ f r _ _ _ Hi B1 C1); rewrite Et; cbn [P_ReaderSafe.dec_ok']; unfold lha_decoder_new;
                  cbn [d_inner d_cb mw_dec]; split; [reflexivity|]; split; [exact Hms|exact A1]|].
          split; [intros _; unfold has_dec; rsimp; discriminate|].
          split; [|exact Hk].
          constructor; rsimp; [exact HbA|intros h0 Eh; apply Hlen; rewrite <- C1; exact Eh|].
          cbn [dec_len]. unfold lha_decoder_new, DL. cbn [d_stream_pos d_stream_length d_cb mw_dec].
          split; [split; lia|]. rewrite HlI. split; [exact HpI|exact HL].
        * split; [apply (RInv_set_decoders _ f r _ _ _ Hi B1 C1); exact I|].
          split; [discriminate|]. split; [|exact Hk].
          constructor; rsimp; [exact HbA|intros h0 Eh; apply Hlen; rewrite <- C1; exact Eh|exact I].
    - cbn [okp].
      destruct Hd1 as (Hok & Hb' & HlI & HpI).
      destruct (idec_unload _ _ _ Hok) as (A1 & _).
      split; [apply (RInv_set_decoders _ f r _ _ _ Hi Hw eq_refl); rewrite Et; cbn [P_ReaderSafe.dec_ok']; split; [reflexivity|exact A1]|].
      split; [intros _; unfold has_dec; rsimp; discriminate|].
      split; [|unfold keeps; rsimp; repeat split; lia].
      constructor; rsimp; [split; assumption|exact Hlen|].
      cbn [dec_len]. unfold DL. rewrite HlI. split; [exact HpI|exact HL].
  Qed.

  (* ---------------------------------------------------------------- *)
  (* lha_reader_read                                                   *)

  Theorem reader_read_okpF f r n : RInv f r -> TInv r -> n < 2 ^ 62 ->
    okp False (fun '(o, ev, r') => RInv false r' /\ (has_dec r -> has_dec r') /\ TInv r' /\ keeps r r' /\
                                   (o <> [] -> drem r' < drem r))
        (lha_reader_read junk r n).
  Proof.
    intros Hi Ht Hn. unfold lha_reader_read. destruct (rd_decoder r) as [d|] eqn:Ed.
    - eapply okpF_imp; [apply (decoder_read_okpF f r n Hi Ht); [unfold has_dec; rewrite Ed; discriminate|exact Hn]|].
      intros [[o ev] r'] (A1 & B1 & C1 & D1 & E1). split; [exact A1|]. split; [intros _; exact B1|].
      split; [exact C1|]. split; [exact D1|exact E1].
    - assert (Ei : rd_inner r = IR_null).
      { pose proof (ri_dec _ _ _ Hi) as G. rewrite Ed in G. cbn [P_ReaderSafe.dec_ok'] in G.
        destruct (rd_inner r); [reflexivity|contradiction|contradiction]. }
      assert (Edr : drem r = LEN32 + 1) by (unfold drem; rewrite Ed; reflexivity).
      eapply okpF_bind; [apply (open_decoder_okpF f r false Hi Ht Ed Ei)|].
      intros [[ok ev] r1] (Hi1 & Hd1 & Ht1 & Hk1). cbv beta iota.
      destruct ok.
      + eapply okpF_bind; [apply (decoder_read_okpF false r1 n Hi1 Ht1 (Hd1 eq_refl) Hn)|].
        intros [[o ev2] r2] (A1 & B1 & C1 & D1 & E1). cbn [okp]. split; [exact A1|].
        split; [intros _; exact B1|]. split; [exact C1|]. split; [eapply keeps_trans; eauto|].
        intros Ho. specialize (E1 Ho). pose proof (drem_lt A r1 (Hd1 eq_refl) Ht1). lia.
      + cbn [okp]. split; [exact Hi1|]. split; [unfold has_dec; rewrite Ed; intros X; contradiction X; reflexivity|].
        split; [exact Ht1|]. split; [exact Hk1|]. intros X. contradiction X. reflexivity.
  Qed.

  (* ---------------------------------------------------------------- *)
  (* do_decode: reads of 64 bytes until one returns nothing            *)

  Lemma do_decode_okpF f r fs0 out : RInv f r -> TInv r -> has_dec r ->
    okp False (fun '(res, evs, r', fs') => RInv false r' /\ TInv r' /\ keeps r r') (do_decode junk r fs0 out).
  Proof.
    intros Hi Ht Hd. unfold do_decode.
    eapply okpF_bind.
    - apply (loop_okpF (dd_step junk out)
               (fun s => RInv false (fst (fst s)) /\ has_dec (fst (fst s)) /\ TInv (fst (fst s)) /\ keeps r (fst (fst s)))
               (fun s => RInv false (fst (fst s)) /\ has_dec (fst (fst s)) /\ TInv (fst (fst s)) /\ keeps r (fst (fst s)))
               (fun s => drem (fst (fst s)))).
      + intros [[r0 f0] evs] (Hi0 & Hd0 & Ht0 & Hk0). cbn [fst] in *. unfold dd_step.
        eapply okpF_bind; [apply (reader_read_okpF false r0 64 Hi0 Ht0); reflexivity|].
        intros [[o ev] r'] (A1 & B1 & C1 & D1 & E1). cbv beta iota zeta.
        destruct o as [|b o']; cbn [okp fst].
        * split; [exact A1|]. split; [exact (B1 Hd0)|]. split; [exact C1|eapply keeps_trans; eauto].
        * split; [|apply E1; discriminate].
          split; [exact A1|]. split; [exact (B1 Hd0)|]. split; [exact C1|eapply keeps_trans; eauto].
      + cbn [fst]. split; [apply (RInv_weaken _ f); exact Hi|]. split; [exact Hd|]. split; [exact Ht|apply keeps_refl].
      + cbn [fst]. pose proof (drem_lt A r Hd Ht). change (2 ^ N.of_nat 64) with 18446744073709551616. lia.
    - intros [[r1 f1] evs] (Hi1 & Hd1 & Ht1 & Hk1). cbn [fst] in *. cbv beta iota.
      pose proof (ri_dec _ _ _ Hi1) as G. pose proof (ri_typ _ _ _ Hi1) as T.
      unfold has_dec in Hd1. unfold inner_len_crc.
      destruct (rd_decoder r1) as [[d|o]|] eqn:Ed; [| |contradiction Hd1; reflexivity].
      + destruct (rd_inner r1); cbn [P_ReaderSafe.dec_ok'] in G; try contradiction. destruct G as [Et _].
        rewrite Et in T. cbn [typ_ok] in T. destruct T as (h & Hc & _). rewrite Hc. cbn [okp]. auto.
      + destruct (rd_inner r1); cbn [P_ReaderSafe.dec_ok'] in G; try contradiction. destruct G as [Et _].
        rewrite Et in T. cbn [typ_ok] in T. destruct T as (h & Hc & _). rewrite Hc. cbn [okp]. auto.
  Qed.

  (* ---------------------------------------------------------------- *)
  (* lha_reader_check                                                  *)

  Theorem reader_check_okpF r monitor : RInv true r -> TInv r ->
    okp False (fun '(res, ev, r') => RInv false r' /\ TInv r' /\ keeps r r') (lha_reader_check junk r monitor).
  Proof.
    intros Hi Ht. pose proof (RInv_weaken _ _ _ Hi) as Hw. pose proof (ri_typ _ _ _ Hi) as T.
    destruct (ri_fresh _ _ _ Hi eq_refl) as [Ed Ei].
    assert (Hsame : RInv false r /\ TInv r /\ keeps r r) by (split; [exact Hw|split; [exact Ht|apply keeps_refl]]).
    unfold lha_reader_check. destruct (rd_type r) eqn:Et; try (destruct (rd_curr r); exact Hsame).
    cbn [typ_ok] in T. destruct T as (h & Hc & _). rewrite Hc.
    destruct (is_dir_method h); [exact Hsame|].
    eapply okpF_bind; [apply (open_decoder_okpF true r monitor Hi Ht Ed Ei)|].
    intros [[ok ev] r1] (Hi1 & Hd1 & Ht1 & Hk1). cbv beta iota.
    destruct ok; [|cbn [okp]; auto].
    eapply okpF_bind; [apply (do_decode_okpF false r1 _ None Hi1 Ht1 (Hd1 eq_refl))|].
    intros [[[res ev2] r2] f2] (Hi2 & Ht2 & Hk2). cbn [okp]. split; [exact Hi2|]. split; [exact Ht2|eapply keeps_trans; eauto].
  Qed.

  (* ---------------------------------------------------------------- *)
  (* 6. lha_basic_reader_next_file: a header takes 22 bytes or more    *)

  Lemma basic_next_facts br oh br' : wf_reader br -> BRA A br ->
    lha_basic_reader_next_file mktime br = Ok (oh, br') ->
    wf_reader br' /\ BRA A br' /\ ravail br' <= ravail br /\
    (forall h, br_curr br' = Some h -> h_length h < LEN32) /\
    match oh with
    | Some h => br_curr br' = Some h /\ ravail br' + 22 <= ravail br
    | None => br_curr br' = None
    end.
  Proof.
    rewrite basic_next_file_unfold. intros Hw [Hs Ha] H.
    bind_inv H as r1 H1.
    assert (G1 : wf_reader r1 /\ SB (br_stream r1) /\ ravail r1 <= ravail br /\ br_curr r1 = None).
    { destruct (br_curr br) eqn:Ec.
      - bind_inv H1 as [ok st'] Ek. inversion H1; subst r1. clear H1.
        unfold wf_reader, ravail. cbn [br_stream br_curr].
        assert (Hb : br_remaining br < 1099511627776 \/ nlen (so_data (is_src (br_stream br))) < 1099511627776).
        { right. unfold ravail, avail, EXT_LIMIT in *. lia. }
        pose proof (stream_skip_SB _ _ _ _ Hb Hs Ek) as Hs'.
        destruct (lha_input_stream_skip_total (br_stream br) (br_remaining br) Hw Hb) as (ok0 & st0 & E0 & Hw0 & Ha0).
        rewrite E0 in Ek. inversion Ek; subst. auto.
      - inversion H1; subst r1. split; [exact Hw|]. split; [exact Hs|]. split; [lia|exact Ec]. }
    destruct G1 as (Hw1 & Hs1 & Ha1 & Hc1).
    destruct (br_eof r1).
    { inversion H; subst. split; [exact Hw1|]. split; [split; [exact Hs1|lia]|]. split; [exact Ha1|].
      split; [intros h Eh; congruence|exact Hc1]. }
    bind_inv H as [hh st2] Hh.
    apply header_read_SW in Hh; [|exact Hs1|exact Hw1]. destruct Hh as (Hs2 & Hw2 & Ha2 & Hh).
    unfold ravail in *.
    destruct hh as [hd|]; inversion H; subst; unfold wf_reader, BRA, ravail; cbn [br_stream br_curr].
    - destruct (Hh hd eq_refl) as [Hl H22].
      split; [exact Hw2|]. split; [split; [exact Hs2|lia]|]. split; [lia|].
      split; [intros h Eh; inversion Eh; subst; exact Hl|]. split; [reflexivity|lia].
    - split; [exact Hw2|]. split; [split; [exact Hs2|lia]|]. split; [lia|].
      split; [intros h Eh; discriminate|reflexivity].
  Qed.

  Lemma basic_next_okpF br : wf_reader br -> BRA A br ->
    okp False (fun '(oh, br') =>
        wf_reader br' /\ BRA A br' /\ ravail br' <= ravail br /\
        (forall h, br_curr br' = Some h -> h_length h < LEN32 /\ hdr_ok h) /\
        match oh with
        | Some h => br_curr br' = Some h /\ ravail br' + 22 <= ravail br
        | None => br_curr br' = None
        end) (lha_basic_reader_next_file mktime br).
  Proof.
    intros Hw Hb.
    destruct (okp_decide _ _ _ (lha_basic_reader_next_file_okp mktime br Hw)) as [[oh br'] [E _]].
    { destruct Hb as [_ Hb]. lia. }
    rewrite E. cbn [okp].
    destruct (basic_next_facts br oh br' Hw Hb E) as (A1 & A2 & A3 & A4 & A5).
    split; [exact A1|]. split; [exact A2|]. split; [exact A3|]. split; [|exact A5].
    intros h Eh. split; [apply A4; exact Eh|]. eapply basic_next_file_curr; eauto.
  Qed.

  (* ---------------------------------------------------------------- *)
  (* 8. lha_reader_next_file                                           *)

  Lemma next_tail_okpF (cur : option header) (t : curr_type) pol stack deferred br1 linked :
    wf_reader br1 -> (forall h, br_curr br1 = Some h -> hdr_ok h) -> linked = false ->
    Forall has_path stack -> Forall has_target deferred ->
    okp False (fun '(oh, r') => RInv true r' /\ rd_br r' = br1 /\ rd_decoder r' = None /\
                 rpot true r' <= 22 * (nlen stack + nlen deferred + c0 br1) + ravail br1 /\
                 (oh <> None -> rmeas true r' + 1 <= ravail br1 + 2 * (nlen stack + nlen deferred) + 4 * c0 br1))
      (let r1 := {| rd_br := br1; rd_curr := cur; rd_type := t; rd_decoder := None; rd_inner := IR_null;
                    rd_policy := pol; rd_dir_stack := stack; rd_deferred := deferred;
                    rd_linked := linked |} in
       pop <- end_of_top_dir r1 ;;
       let r2 :=
         if pop then
           match rd_dir_stack r1 with
           | top :: rest =>
             {| rd_br := br1; rd_curr := Some top; rd_type := CT_FAKE_DIR; rd_decoder := None; rd_inner := IR_null;
                rd_policy := rd_policy r1; rd_dir_stack := rest; rd_deferred := rd_deferred r1; rd_linked := linked |}
           | [] => r1
           end
         else
           {| rd_br := br1; rd_curr := br_curr br1; rd_type := CT_NORMAL; rd_decoder := None; rd_inner := IR_null;
              rd_policy := rd_policy r1; rd_dir_stack := rd_dir_stack r1; rd_deferred := rd_deferred r1;
              rd_linked := linked |} in
       match rd_curr r2 with
       | Some h => Ok (Some h, r2)
       | None =>
         match rd_deferred r2 with
         | l :: rest =>
           Ok (Some l, {| rd_br := br1; rd_curr := Some l; rd_type := CT_DEFERRED_SYMLINK; rd_decoder := None;
                          rd_inner := IR_null; rd_policy := rd_policy r2; rd_dir_stack := rd_dir_stack r2;
                          rd_deferred := rest; rd_linked := linked |})
         | [] =>
           Ok (None, {| rd_br := br1; rd_curr := None; rd_type := CT_EOF; rd_decoder := None; rd_inner := IR_null;
                        rd_policy := rd_policy r2; rd_dir_stack := rd_dir_stack r2; rd_deferred := [];
                        rd_linked := linked |})
         end
       end).
  Proof.
    intros Hw Hh -> Hs Hd. cbv zeta.
    eapply okpF_bind.
    { eapply (okp_both _ (fun _ : bool => True)); [apply end_of_top_dir_okp; rsimp; exact Hs|].
      apply okpF_of_ex. unfold end_of_top_dir. rsimp.
      destruct stack as [|top rest]; [eexists; split; [reflexivity|exact I]|].
      destruct (br_curr br1) as [input|]; [|eexists; split; [reflexivity|exact I]].
      destruct pol; try (eexists; split; [reflexivity|exact I]).
      destruct (h_path input); [|eexists; split; [reflexivity|exact I]].
      inversion Hs as [|x l9 Hp Hr]; subst. unfold has_path in Hp.
      destruct (h_path top); [eexists; split; [reflexivity|exact I]|contradiction Hp; reflexivity]. }
    intros pop [Hp _]. rsimp. destruct pop.
    - specialize (Hp eq_refl). destruct stack as [|top rest]; [contradiction Hp; reflexivity|].
      rsimp. cbn [okp]. inversion Hs as [|x l9 Hpt Hr]; subst.
      split; [constructor; rsimp; try assumption; try discriminate; try exact I;
              [exists top; split; [reflexivity|exact Hpt]|intros _; split; reflexivity]|].
      split; [reflexivity|]. split; [reflexivity|].
      unfold rpot, rmeas, cred, tflag, pending, c0. rsimp. rewrite nlen_cons.
      destruct (br_curr br1); (split; [lia|intros _; lia]).
    - rsimp. destruct (br_curr br1) as [h|] eqn:Eb.
      + cbn [okp].
        split; [constructor; rsimp; try assumption; try discriminate; try exact I;
                [intros h0 E0; apply Hh; congruence|exists h; split; [reflexivity|exact Eb]|intros _; split; reflexivity]|].
        split; [reflexivity|]. split; [reflexivity|].
        unfold rpot, rmeas, cred, tflag, pending, c0. rsimp. rewrite Eb. split; [lia|intros _; lia].
      + destruct deferred as [|l rest]; cbn [okp].
        * split; [constructor; rsimp; try assumption; try discriminate; try exact I;
                  [intros h0 E0; apply Hh; congruence|intros _; split; reflexivity]|].
          split; [reflexivity|]. split; [reflexivity|].
          unfold rpot, rmeas, cred, tflag, pending, c0. rsimp. rewrite Eb. rewrite !nlen_nil.
          split; [lia|]. intros X. contradiction X. reflexivity.
        * inversion Hd as [|x l0 Ht Hr]; subst.
          split; [constructor; rsimp; try assumption; try discriminate; try exact I;
                  [intros h0 E0; apply Hh; congruence|exists l; split; [reflexivity|exact Ht]|intros _; split; reflexivity]|].
          split; [reflexivity|]. split; [reflexivity|].
          unfold rpot, rmeas, cred, tflag, pending, c0. rsimp. rewrite Eb. rewrite !nlen_cons.
          split; [lia|intros _; lia].
  Qed.

  Theorem reader_next_file_okpF f r0 : RInv f r0 -> TInv r0 -> rpot f r0 <= A ->
    okp False (fun '(oh, r') => RInv true r' /\ TInv r' /\ rpot true r' <= A /\
                                (oh <> None -> rmeas true r' < rmeas f r0))
        (lha_reader_next_file mktime r0).
  Proof.
    intros Hi Ht Hpot. pose proof Hi as [HA1 HB HC HD HE HF HG HH].
    destruct Ht as [Hbra Hlen Hdl].
    assert (Hl : rd_type r0 <> CT_NORMAL -> rd_linked r0 = false).
    { intros Hn. destruct (rd_linked r0); [|reflexivity]. destruct (HF eq_refl) as [T _]. contradiction. }
    (* from the facts about the tail to the statement *)
    assert (Fin : forall br1 linked cur t,
      wf_reader br1 -> (forall h, br_curr br1 = Some h -> h_length h < LEN32 /\ hdr_ok h) -> linked = false ->
      BRA A br1 ->
      22 * (pending r0 + c0 br1) + ravail br1 <= A ->
      ravail br1 + 2 * pending r0 + 4 * c0 br1 <= rmeas f r0 ->
      okp False (fun '(oh, r') => RInv true r' /\ TInv r' /\ rpot true r' <= A /\
                                  (oh <> None -> rmeas true r' < rmeas f r0))
        (let r1 := {| rd_br := br1; rd_curr := cur; rd_type := t; rd_decoder := None; rd_inner := IR_null;
                      rd_policy := rd_policy r0; rd_dir_stack := rd_dir_stack r0; rd_deferred := rd_deferred r0;
                      rd_linked := linked |} in
         pop <- end_of_top_dir r1 ;;
         let r2 :=
           if pop then
             match rd_dir_stack r1 with
             | top :: rest =>
               {| rd_br := br1; rd_curr := Some top; rd_type := CT_FAKE_DIR; rd_decoder := None; rd_inner := IR_null;
                  rd_policy := rd_policy r1; rd_dir_stack := rest; rd_deferred := rd_deferred r1; rd_linked := linked |}
             | [] => r1
             end
           else
             {| rd_br := br1; rd_curr := br_curr br1; rd_type := CT_NORMAL; rd_decoder := None; rd_inner := IR_null;
                rd_policy := rd_policy r1; rd_dir_stack := rd_dir_stack r1; rd_deferred := rd_deferred r1;
                rd_linked := linked |} in
         match rd_curr r2 with
         | Some h => Ok (Some h, r2)
         | None =>
           match rd_deferred r2 with
           | l :: rest =>
             Ok (Some l, {| rd_br := br1; rd_curr := Some l; rd_type := CT_DEFERRED_SYMLINK; rd_decoder := None;
                            rd_inner := IR_null; rd_policy := rd_policy r2; rd_dir_stack := rd_dir_stack r2;
                            rd_deferred := rest; rd_linked := linked |})
           | [] =>
             Ok (None, {| rd_br := br1; rd_curr := None; rd_type := CT_EOF; rd_decoder := None; rd_inner := IR_null;
                          rd_policy := rd_policy r2; rd_dir_stack := rd_dir_stack r2; rd_deferred := [];
                          rd_linked := linked |})
           end
         end)).
    { intros br1 linked cur t W Hh L Hb1 P1 M1.
      eapply okpF_imp; [apply next_tail_okpF; try assumption; intros h Eh; apply (Hh h Eh)|].
      intros [oh r'] (R1 & R2 & R3 & R4 & R5).
      split; [exact R1|]. split; [constructor; [rewrite R2; exact Hb1|rewrite R2; intros h Eh; apply (Hh h Eh)|rewrite R3; exact I]|].
      unfold pending in *. split; [lia|]. intros Ho. specialize (R5 Ho). lia. }
    assert (Hcur : forall h, br_curr (rd_br r0) = Some h -> h_length h < LEN32 /\ hdr_ok h).
    { intros h Eh. split; [apply Hlen; exact Eh|apply HB; exact Eh]. }
    assert (Hc01 : forall br, c0 br <= 1) by (intros br; unfold c0; destruct (br_curr br); lia).
    (* a call that reads the next header *)
    assert (Rd : rd_type r0 = CT_START \/ rd_type r0 = CT_NORMAL ->
      okp False (fun p : breader * bool => let '(br1, linked) := p in
                   wf_reader br1 /\ (forall h, br_curr br1 = Some h -> h_length h < LEN32 /\ hdr_ok h) /\
                   linked = false /\ BRA A br1 /\
                   22 * (pending r0 + c0 br1) + ravail br1 <= A /\
                   ravail br1 + 2 * pending r0 + 4 * c0 br1 <= rmeas f r0)
        ('(_, br') <- lha_basic_reader_next_file mktime (rd_br r0) ;; Ok (br', false))).
    { intros Ty. eapply okpF_bind; [apply basic_next_okpF; [exact HA1|exact Hbra]|].
      intros [oh br'] (W & B1 & L1 & H1 & M1). cbn [okp].
      split; [exact W|]. split; [exact H1|]. split; [reflexivity|]. split; [exact B1|].
      assert (Hstrict : c0 br' = 1 -> ravail br' + 22 <= ravail (rd_br r0)).
      { unfold c0. destruct oh as [h|]; [intros _; apply M1|rewrite M1; discriminate]. }
      specialize (Hc01 br'). unfold rpot, rmeas in *. pose proof (cred_le false r0).
      assert (Hc : c0 br' = 0 \/ c0 br' = 1) by lia.
      destruct Hc as [Hc|Hc]; [rewrite Hc; lia|specialize (Hstrict Hc); rewrite Hc; lia]. }
    unfold lha_reader_next_file. cbv zeta. rsimp.
    destruct (rd_type r0) eqn:Et.
    - (* START *)
      eapply okpF_bind; [apply Rd; left; reflexivity|].
      intros [br1 linked] (W & Hh & L & B1 & P1 & M1). apply Fin; assumption.
    - (* NORMAL *)
      eapply okpF_bind; [apply Rd; right; reflexivity|].
      intros [br1 linked] (W & Hh & L & B1 & P1 & M1). apply Fin; assumption.
    - (* FAKE_DIR *)
      cbn [bind]. apply Fin; try assumption.
      + apply Hl. discriminate.
      + unfold rpot, cred in Hpot. rewrite Et in Hpot. exact Hpot.
      + unfold rmeas, cred, tflag. rewrite Et. fold (c0 (rd_br r0)). specialize (Hc01 (rd_br r0)). lia.
    - (* DEFERRED_SYMLINK *)
      cbn [bind]. apply Fin; try assumption.
      + apply Hl. discriminate.
      + unfold rpot, cred in Hpot. rewrite Et in Hpot. exact Hpot.
      + unfold rmeas, cred, tflag. rewrite Et. fold (c0 (rd_br r0)). specialize (Hc01 (rd_br r0)). lia.
    - (* EOF *)
      cbn [okp].
      split; [constructor; rsimp; try assumption; try exact I;
              [try rewrite Et; exact I|intros L; rewrite Hl in L; [discriminate|try rewrite Et; discriminate]|intros _; split; reflexivity]|].
      split; [constructor; rsimp; [exact Hbra|exact Hlen|exact I]|].
      split; [|intros X; contradiction X; reflexivity].
      unfold rpot, cred, pending in *. rsimp. try rewrite Et in *. exact Hpot.
  Qed.

  (* ---------------------------------------------------------------- *)
  (* 9. lha_reader_extract                                             *)

  Lemma link_curr_okpF site r stack deferred : RInv true r -> rd_type r = CT_NORMAL ->
    Forall has_path stack -> Forall has_target deferred ->
    okp False (fun r' => RInv false r' /\ rd_br r' = rd_br r /\ rd_decoder r' = rd_decoder r /\
                         rd_type r' = rd_type r /\ rd_dir_stack r' = stack /\ rd_deferred r' = deferred)
        (link_curr site r stack deferred).
  Proof.
    intros Hi Et Hs Hd.
    eapply okp_both; [apply (link_curr_okp lh1_inv site r stack deferred Hi Et Hs Hd)|].
    unfold link_curr. destruct (rd_linked r) eqn:L.
    - destruct (ri_linked _ _ _ Hi L) as [_ X]. discriminate.
    - cbn [okp]. rsimp. repeat split.
  Qed.

  Lemma extract_directory_okpF r f path h : RInv true r -> TInv r -> rd_type r = CT_NORMAL -> rd_curr r = Some h ->
    has_path h ->
    okp False (fun '(ok, r', f') => RInv false r' /\ TInv r' /\ pk r r') (extract_directory r f path).
  Proof.
    intros Hi Ht Et Hc Hp. pose proof (RInv_weaken _ _ _ Hi) as Hw.
    assert (Hsame : RInv false r /\ TInv r /\ pk r r) by (split; [exact Hw|split; [exact Ht|apply pk_refl]]).
    unfold extract_directory. rewrite Hc.
    assert (Hpo : (match path with Some p => Some p | None => h_path h end) <> None).
    { destruct path; [discriminate|exact Hp]. }
    destruct (match path with Some p => Some p | None => h_path h end) as [p|]; [|contradiction Hpo; reflexivity].
    destruct (arch_mkdir f p (if have_extra h FILE_UNIX_PERMS then 448 else 511)) as [ok f1].
    destruct ok; cbn [negb]; [|exact Hsame].
    assert (Push : okp False (fun '(ok, r', f') => RInv false r' /\ TInv r' /\ pk r r')
                     (r' <- link_curr 1411 r (h :: rd_dir_stack r) (rd_deferred r) ;; Ok (true, r', f1))).
    { eapply okpF_bind.
      - apply (link_curr_okpF 1411 r _ _ Hi Et); [constructor; [exact Hp|apply (ri_stack _ _ _ Hi)]|apply (ri_deferred _ _ _ Hi)].
      - intros r' (R1 & R2 & R3 & R4 & R5 & R6). cbn [okp]. split; [exact R1|]. split; [eapply TInv_same; eauto|].
        unfold pk, pending. rewrite R2, R4, R5, R6, nlen_cons. split; [reflexivity|]. split; [reflexivity|].
        split; [lia|]. right. split; [exact Et|lia]. }
    destruct (rd_policy r).
    - destruct (set_directory_metadata f1 h p) as [x f2]. exact Hsame.
    - exact Push.
    - exact Push.
  Qed.

  Lemma extract_symlink_okpF r f filename h : RInv true r -> TInv r -> rd_curr r = Some h -> has_target h ->
    okp False (fun '(ok, r', f') => RInv false r' /\ TInv r' /\ pk r r') (extract_symlink r f filename).
  Proof.
    intros Hi Ht Hc Htg. pose proof (RInv_weaken _ _ _ Hi) as Hw.
    assert (Hsame : RInv false r /\ TInv r /\ pk r r) by (split; [exact Hw|split; [exact Ht|apply pk_refl]]).
    unfold extract_symlink. rewrite Hc.
    destruct ((match rd_type r with CT_NORMAL => true | _ => false end) && is_dangerous_symlink h) eqn:Ec.
    - apply andb_true_iff in Ec. destruct Ec as [Ec _].
      assert (Et : rd_type r = CT_NORMAL) by (destruct (rd_type r); try discriminate; reflexivity).
      unfold extract_placeholder_symlink.
      destruct (arch_fopen f (match filename with Some n => n | None => full_path h end) (Some 384)) as [[hd|] f1];
        [|exact Hsame].
      rewrite Hc. eapply okpF_bind.
      + apply (link_curr_okpF 1414 r _ _ Hi Et); [apply (ri_stack _ _ _ Hi)|].
        apply insert_deferred_target; [apply (ri_deferred _ _ _ Hi)|exact Htg].
      + intros r' (R1 & R2 & R3 & R4 & R5 & R6). cbn [okp]. split; [exact R1|]. split; [eapply TInv_same; eauto|].
        unfold pk, pending. rewrite R2, R4, R5, R6, nlen_insert_deferred. split; [reflexivity|]. split; [reflexivity|].
        split; [lia|]. right. split; [exact Et|lia].
    - unfold has_target in Htg. destruct (h_symlink_target h) as [t|]; [|contradiction Htg; reflexivity].
      destruct (arch_symlink f (match filename with Some n => n | None => full_path h end) t) as [ok f1]. exact Hsame.
  Qed.

  Lemma extract_file_okpF r f filename monitor h : RInv true r -> TInv r -> rd_curr r = Some h ->
    okp False (fun '(ok, ev, r', f') => RInv false r' /\ TInv r' /\ pk r r') (extract_file junk r f filename monitor).
  Proof.
    intros Hi Ht Hc. destruct (ri_fresh _ _ _ Hi eq_refl) as [Ed Ei].
    unfold extract_file. rewrite Hc. cbv zeta.
    eapply okpF_bind; [apply (open_decoder_okpF true r monitor Hi Ht Ed Ei)|].
    intros [[ok ev] r1] (Hi1 & Hd1 & Ht1 & Hk1). cbv beta iota.
    destruct ok; cbn [negb]; [|cbn [okp]; split; [exact Hi1|split; [exact Ht1|apply keeps_pk; exact Hk1]]].
    destruct (arch_fopen f (match filename with Some n => n | None => full_path h end)
                (if have_extra h FILE_UNIX_PERMS then Some (h_unix_perms h) else None)) as [[hd|] f1];
      [|cbn [okp]; split; [exact Hi1|split; [exact Ht1|apply keeps_pk; exact Hk1]]].
    eapply okpF_bind; [apply (do_decode_okpF false r1 f1 (Some hd) Hi1 Ht1 (Hd1 eq_refl))|].
    intros [[[res ev2] r2] f2] (Hi2 & Ht2 & Hk2). cbn [okp]. split; [exact Hi2|]. split; [exact Ht2|].
    apply keeps_pk. eapply keeps_trans; eauto.
  Qed.

  Theorem reader_extract_okpF r f filename monitor : RInv true r -> TInv r ->
    okp False (fun '(ok, ev, r', f') => RInv false r' /\ TInv r' /\ pk r r')
        (lha_reader_extract junk r f filename monitor).
  Proof.
    intros Hi Ht. pose proof (RInv_weaken _ _ _ Hi) as Hw. pose proof (ri_typ _ _ _ Hi) as T.
    assert (Hsame : RInv false r /\ TInv r /\ pk r r) by (split; [exact Hw|split; [exact Ht|apply pk_refl]]).
    unfold lha_reader_extract. destruct (rd_type r) eqn:Et; cbn [typ_ok] in T.
    - destruct (rd_curr r); exact Hsame.
    - (* NORMAL *)
      destruct T as (h & Hc & Hb). rewrite Hc.
      destruct (ri_hdr _ _ _ Hi h Hb) as [_ HB].
      destruct (is_dir_method h) eqn:Edir; cbn [negb].
      + destruct (h_symlink_target h) as [t|] eqn:Etg.
        * eapply okpF_bind; [apply (extract_symlink_okpF r f filename h Hi Ht Hc); unfold has_target; congruence|].
          intros [[ok r1] f1] Hr. exact Hr.
        * eapply okpF_bind; [apply (extract_directory_okpF r f filename h Hi Ht Et Hc); apply (HB Edir eq_refl)|].
          intros [[ok r1] f1] Hr. exact Hr.
      + eapply okpF_imp; [apply (extract_file_okpF r f filename monitor h Hi Ht Hc)|].
        intros [[[ok ev] r1] f1] Hr. exact Hr.
    - (* FAKE_DIR *)
      destruct T as (h & Hc & Hp). rewrite Hc.
      assert (Hpo : (match filename with Some n => Some n | None => h_path h end) <> None).
      { destruct filename; [discriminate|exact Hp]. }
      destruct (match filename with Some n => Some n | None => h_path h end) as [p|]; [|contradiction Hpo; reflexivity].
      destruct (set_directory_metadata f h p) as [x f1]. exact Hsame.
    - (* DEFERRED_SYMLINK *)
      destruct T as (h & Hc & Htg). rewrite Hc.
      eapply okpF_bind; [apply (extract_symlink_okpF r f filename h Hi Ht Hc Htg)|].
      intros [[ok r1] f1] Hr. exact Hr.
    - destruct (rd_curr r); exact Hsame.
  Qed.

  (* a new reader over an archive of at most A bytes *)
  Lemma new_reader_TInv k data : bytes_ok data -> nlen data <= A ->
    TInv (lha_reader_new (lha_input_stream_new (mk_source k data))) /\
    rpot true (lha_reader_new (lha_input_stream_new (mk_source k data))) <= A.
  Proof.
    intros Hb Hn. destruct (new_reader_wf k data) as [_ Hav].
    split.
    - constructor; rsimp.
      + split; [apply new_stream_SB; exact Hb|]. rewrite Hav. exact Hn.
      + intros h Eh. discriminate.
      + exact I.
    - unfold rpot, cred, pending. rsimp. rewrite Hav, (@nlen_nil header). lia.
  Qed.
End RetReader.

Print Assumptions reader_next_file_okpF.
Print Assumptions reader_check_okpF.
Print Assumptions reader_extract_okpF.
Print Assumptions reader_read_okpF.

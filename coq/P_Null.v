(* P_Null.v -- proofs about the model of lib/null_decoder.c (Null.v):
   the stored methods -lh0-/-lz4-/-pm0- never fault, and through the
   lha_decoder_read wrapper they return the input unchanged. *)
From Lhasa Require Import Base ListN DecBase Loop Generated Null Crc16 P_Crc16 Decoder P_Decoder.
From Coq Require Import ZifyBool ZifyN ZifyNat.
Local Open Scope N_scope.

(* ------------------------------------------------------------------ *)
(* A.1  null_read always returns, and its chunk fits the output buffer *)

(* only the length half of cb_bounded is needed *)
Definition cb_len_bounded {cbs} (cb : callback cbs) : Prop :=
  forall s n, nlen (fst (cb s n)) <= n.

Lemma cb_bounded_len {cbs} (cb : callback cbs) : cb_bounded cb -> cb_len_bounded cb.
Proof. intros H s n. apply (H s n). Qed.

Lemma null_read_total_len : forall cbs (cb : callback cbs),
  cb_len_bounded cb -> dread_total (null_read cb) null_max_read.
Proof.
  intros cbs cb Hb s c. unfold null_read.
  pose proof (Hb c null_BLOCK_READ_SIZE) as Hl.
  destruct (cb c null_BLOCK_READ_SIZE) as [bs c'] eqn:E. cbn [fst] in Hl.
  assert (Hm : nlen bs <= null_max_read) by (unfold null_max_read, null_BLOCK_READ_SIZE in *; lia).
  destruct (N.leb_spec (nlen bs) null_max_read); [|lia]. eauto.
Qed.

Theorem null_read_total : forall cbs (cb : callback cbs),
  cb_bounded cb -> dread_total (null_read cb) null_max_read.
Proof. intros cbs cb Hb. apply null_read_total_len. apply cb_bounded_len. exact Hb. Qed.

Corollary null_read_no_fault : forall cbs (cb : callback cbs) s c,
  cb_bounded cb -> no_fault (null_read cb s c).
Proof.
  intros cbs cb s c Hb f Hf. destruct (null_read_total cbs cb Hb s c) as (ch & s' & c' & E & _).
  congruence.
Qed.

(* the list source never hands out more than asked, whatever the schedule *)
Lemma src_cb_len_bounded : cb_len_bounded src_cb.
Proof.
  intros s n. unfold src_cb. destruct (src_chunks s) as [|c cs]; cbn [fst]; rewrite nlen_firstn_N; lia.
Qed.

Lemma null_src_total : dread_total (null_read src_cb) null_max_read.
Proof. apply null_read_total_len. apply src_cb_len_bounded. Qed.

(* ------------------------------------------------------------------ *)
(* Generic: an inner decoder whose chunk sequence is known up to and
   including the empty chunk that signals the end of the input.         *)

Section ChunksEnd.
  Context {cbs st : Type}.
  Variable dread : st -> cbs -> outcome (list N * st * cbs).
  Variable max_read block_size : N.
  Hypothesis Hd : dread_total dread max_read.

  Notation dec := (@decoder cbs st).

  Inductive chunks_to_end : st -> cbs -> list (list N) -> Prop :=
  | cte_nil s c s' c' : dread s c = Ok ([], s', c') -> chunks_to_end s c []
  | cte_cons s c ch s' c' rest :
      dread s c = Ok (ch, s', c') -> ch <> [] -> nlen ch <= max_read ->
      chunks_to_end s' c' rest -> chunks_to_end s c (ch :: rest).

  Lemma chunks_to_end_from s c chs : chunks_to_end s c chs -> chunks_from dread max_read s c chs.
  Proof. induction 1; econstructor; eauto. Qed.

  Lemma pull_chunks_end chs : forall s c (d : dec) w,
    chunks_to_end s c chs -> d_inner d = s -> d_cb d = c -> d_failed d = false ->
    nlen (d_outbuf d ++ concat chs) < w ->
    exists k d', pull dread max_read k w d = Some (d_outbuf d ++ concat chs, d') /\ d_failed d' = true.
  Proof.
    induction chs as [|ch rest IH]; intros s c d w Hc Hi Hcb Hf Hw.
    - cbn [concat] in *. rewrite app_nil_r in *.
      assert (E0 : (w =? 0) = false) by (apply N.eqb_neq; lia).
      assert (Es : skipn_N w (d_outbuf d) = []) by (apply skipn_N_nil_iff; lia).
      inversion Hc as [? ? s' c' Edr|]; subst.
      exists 1%nat. eexists. rewrite pull_S. cbv zeta. rewrite E0, Hf, Es, Edr.
      replace (max_read <? nlen (@nil N)) with false by (symmetry; apply N.ltb_ge; unfold nlen; simpl; lia).
      rewrite firstn_N_all by lia. split; reflexivity.
    - inversion Hc as [|? ? ? s' c' ? Edr Hne Hlen Hrest]; subst.
      cbn [concat] in *.
      assert (E0 : (w =? 0) = false) by (apply N.eqb_neq; lia).
      assert (Lo : nlen (d_outbuf d) <= w) by (rewrite !nlen_app in Hw; lia).
      assert (Es : skipn_N w (d_outbuf d) = []) by (apply skipn_N_nil_iff; exact Lo).
      assert (Em : (max_read <? nlen ch) = false) by (apply N.ltb_ge; exact Hlen).
      destruct (IH s' c' (set_buf d s' c' ch false) (w - nlen (d_outbuf d)) Hrest) as (k & d' & P & F);
        try reflexivity.
      { cbn [set_buf d_outbuf]. rewrite !nlen_app in *. lia. }
      cbn [set_buf d_outbuf] in P.
      exists (S k), d'. rewrite pull_S. cbv zeta. rewrite E0, Hf, Es, Edr, Em.
      destruct ch as [|z zs]; [congruence|].
      rewrite (firstn_N_all w (d_outbuf d)) by lia. rewrite P. split; [reflexivity|exact F].
  Qed.

  (* If the input ends before the declared length L, the API returns all the
     chunks and the decoder is then in the failed state. *)
  Theorem decode_to_end_proof : forall chs s c L ks os d',
    chunks_to_end s c chs -> nlen (concat chs) < L -> L <= sum_N ks -> sum_N ks < 2 ^ 62 ->
    run_reads dread max_read block_size (lha_decoder_new s c L) ks = Ok (os, d') ->
    concat os = concat chs /\ d_failed d' = true.
  Proof.
    intros chs s c L ks os d' Hc HL Hk Hs Hr.
    set (d0 := lha_decoder_new s c L) in *.
    assert (Hp : pos_ok d0) by (unfold pos_ok; cbn; lia).
    destruct (reads_compose_proof dread max_read block_size Hd ks d0 Hp eq_refl Hs) as (os0 & d0' & R0 & Rs & _).
    rewrite Hr in R0. inversion R0; subst os0 d0'; clear R0.
    destruct (read_spec_off dread max_read block_size Hd d0 (sum_N ks) Hs eq_refl) as (k & o & d1 & P & R).
    rewrite Rs in R. inversion R; subst; clear R.
    assert (Ec : clamp d0 (sum_N ks) = L).
    { unfold clamp, d0. cbn [lha_decoder_new d_stream_length d_stream_pos].
      destruct (N.ltb_spec L (0 + sum_N ks)); lia. }
    rewrite Ec in P.
    destruct (pull_chunks_end chs s c d0 L Hc eq_refl eq_refl eq_refl) as (k2 & d2 & P2 & F2).
    { cbn. exact HL. }
    cbn [d0 lha_decoder_new d_outbuf app] in P2.
    pose proof (pull_det _ _ _ _ _ _ _ _ P P2) as E. injection E as Eo Ed.
    split; [exact Eo|]. cbn [finish d_failed]. rewrite Ed. exact F2.
  Qed.
End ChunksEnd.

(* ------------------------------------------------------------------ *)
(* A.2  The list source without a chunk schedule: the chunks null_read
   yields are the input cut into pieces of 1024 bytes.                  *)

Fixpoint null_chop (fuel : nat) (l : list N) : list (list N) :=
  match fuel with
  | O => []
  | S f =>
    match l with
    | [] => []
    | _ => firstn_N null_BLOCK_READ_SIZE l :: null_chop f (skipn_N null_BLOCK_READ_SIZE l)
    end
  end.
Definition null_chunks (data : list N) : list (list N) := null_chop (length data) data.

(* every chunk but the last has exactly 1024 bytes; the last has 1..1024 *)
Fixpoint full_but_last (chs : list (list N)) : Prop :=
  match chs with
  | [] => True
  | ch :: rest =>
    match rest with
    | [] => 0 < nlen ch <= 1024
    | _ => nlen ch = 1024 /\ full_but_last rest
    end
  end.

Definition src_plain (data : list N) : src := {| src_data := data; src_chunks := [] |}.

Lemma null_read_src data :
  null_read src_cb tt (src_plain data) =
  Ok (firstn_N 1024 data, tt, src_plain (skipn_N 1024 data)).
Proof.
  unfold null_read, src_cb, src_plain. cbn [src_chunks src_data].
  change null_BLOCK_READ_SIZE with 1024. change null_max_read with 1024.
  destruct (N.leb_spec (nlen (firstn_N 1024 data)) 1024) as [_|H]; [reflexivity|].
  rewrite nlen_firstn_N in H. lia.
Qed.

Lemma null_chop_nil fuel : null_chop fuel [] = [].
Proof. destruct fuel; reflexivity. Qed.

Lemma null_chop_spec : forall fuel data, (length data <= fuel)%nat ->
  chunks_to_end (null_read src_cb) null_max_read tt (src_plain data) (null_chop fuel data) /\
  concat (null_chop fuel data) = data /\
  full_but_last (null_chop fuel data).
Proof.
  induction fuel as [|f IH]; intros data Hlen.
  - destruct data as [|x l]; [|simpl in Hlen; lia].
    cbn [null_chop concat full_but_last]. split; [|auto].
    eapply cte_nil. rewrite null_read_src. reflexivity.
  - destruct data as [|x l].
    { cbn [null_chop concat full_but_last]. split; [|auto].
      eapply cte_nil. rewrite null_read_src. reflexivity. }
    cbn [null_chop]. change null_BLOCK_READ_SIZE with 1024.
    set (data := x :: l) in *.
    pose proof (nlen_firstn_N 1024 data) as Lf.
    pose proof (nlen_skipn_N 1024 data) as Ls.
    assert (Lp : 0 < nlen data) by (unfold data; rewrite nlen_cons; lia).
    destruct (IH (skipn_N 1024 data)) as (C & E & Sh).
    { unfold nlen in *. unfold data in *. simpl length in *. lia. }
    split; [|split].
    + eapply cte_cons; [apply null_read_src| | |exact C].
      * intros En. rewrite En in Lf. unfold nlen in Lf at 1. simpl in Lf. lia.
      * change null_max_read with 1024. lia.
    + cbn [concat]. rewrite E. apply firstn_skipn_N.
    + cbn [full_but_last].
      destruct (skipn_N_cases 1024 data) as [[L Es]|[L (y & ys & Es)]].
      * rewrite Es, null_chop_nil. lia.
      * rewrite Es in *. destruct f as [|f']; [simpl in Hlen; unfold nlen, data in *; simpl length in *; lia|].
        cbn [null_chop] in *. split; [lia|exact Sh].
Qed.

Lemma null_chunks_to_end data :
  chunks_to_end (null_read src_cb) null_max_read tt (src_plain data) (null_chunks data).
Proof. apply null_chop_spec. apply Nat.le_refl. Qed.

(* the chunk sequence of the stored decoder on the list source *)
Theorem null_chunks_spec data :
  chunks_from (null_read src_cb) null_max_read tt {| src_data := data; src_chunks := [] |} (null_chunks data) /\
  concat (null_chunks data) = data /\
  full_but_last (null_chunks data).
Proof.
  destruct (null_chop_spec (length data) data (Nat.le_refl _)) as (C & E & Sh).
  split; [|split; assumption]. apply chunks_to_end_from. exact C.
Qed.

(* Stored data come back unchanged (up to the declared length). *)
Theorem stored_identity : forall data L ks os d',
  sum_N ks < 2 ^ 62 -> L <= sum_N ks -> L <= nlen data ->
  run_reads (null_read src_cb) null_max_read null_block_size
    (lha_decoder_new tt {| src_data := data; src_chunks := [] |} L) ks = Ok (os, d') ->
  concat os = firstn_N L data.
Proof.
  intros data L ks os d' Hs Hk HL Hr.
  destruct (null_chunks_spec data) as (C & E & _).
  rewrite <- E.
  eapply (decode_of_chunks_proof (null_read src_cb) null_max_read null_block_size null_src_total);
    [exact C|rewrite E; exact HL|exact Hk|exact Hs|exact Hr].
Qed.

(* Declared length larger than the data: everything is returned, and the
   decoder is left in the failed state (the next read returns nothing). *)
Theorem stored_identity_short : forall data L ks os d',
  sum_N ks < 2 ^ 62 -> L <= sum_N ks -> nlen data < L ->
  run_reads (null_read src_cb) null_max_read null_block_size
    (lha_decoder_new tt {| src_data := data; src_chunks := [] |} L) ks = Ok (os, d') ->
  concat os = data /\ d_failed d' = true.
Proof.
  intros data L ks os d' Hs Hk HL Hr.
  destruct (null_chop_spec (length data) data (Nat.le_refl _)) as (C & E & _).
  fold (null_chunks data) in C, E.
  destruct (decode_to_end_proof (null_read src_cb) null_max_read null_block_size null_src_total
              (null_chunks data) tt (src_plain data) L ks os d' C) as [A B];
    [rewrite E; exact HL|exact Hk|exact Hs|exact Hr|].
  rewrite E in A. auto.
Qed.

(* the reads themselves always succeed (C14 instance), so the hypothesis
   "run_reads ... = Ok" above is not vacuous *)
Corollary stored_reads_ok : forall data L ks, sum_N ks < 2 ^ 62 ->
  exists os d', run_reads (null_read src_cb) null_max_read null_block_size
    (lha_decoder_new tt {| src_data := data; src_chunks := [] |} L) ks = Ok (os, d').
Proof.
  intros data L ks Hs.
  destruct (reads_compose_proof (null_read src_cb) null_max_read null_block_size null_src_total ks
              (lha_decoder_new tt {| src_data := data; src_chunks := [] |} L)) as (os & d' & A & _);
    [unfold pos_ok; cbn; lia|reflexivity|exact Hs|]. eauto.
Qed.

Print Assumptions null_read_total.
Print Assumptions null_chunks_spec.
Print Assumptions stored_identity.
Print Assumptions stored_identity_short.
Print Assumptions stored_reads_ok.

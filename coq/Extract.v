(* Extract.v -- extraction of the executable model and spec oracles to OCaml.
   ExtrOcamlBasic only; numbers stay the Coq datatypes. *)
From Coq Require Import Extraction ExtrOcamlBasic.
From Lhasa Require Import Base Generated Crc16.
Extraction Language OCaml.
Set Extraction Optimize.
Extraction "../harness/ml/model.ml"
  lha_crc16_buf crc_bitwise.

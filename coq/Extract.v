(* Extract.v -- extraction of the executable model and spec oracles to OCaml.
   ExtrOcamlBasic only; numbers stay the Coq datatypes. *)
From Coq Require Import Extraction ExtrOcamlBasic.
From Lhasa Require Import Base Generated Crc16 DecBase BitReader Null Lzs Lz5 Decoder S_Larc Lh1 Lzhuf PmaCommon Pm2 Pm1 LhNew InputStream Header BasicReader Fs FsRun AnyDecoder MacBinary Reader ReaderMem ReaderMemFail Printf Glob ListOut CliFilter CliExtract CliMain S_Pm S_LhNew XCheck.
Extraction Language OCaml.
Set Extraction Optimize.
Extraction "../harness/ml/model.ml"
  lha_crc16_buf crc_bitwise
  src_cb lha_decoder_new lha_decoder_monitor lha_decoder_read lha_decoder_get_crc lha_decoder_get_length
  null_init null_read null_max_read null_block_size
  lzs_init lzs_read lzs_max_read lzs_block_size
  lz5_init lz5_read lz5_max_read lz5_block_size
  lzs_expand lz5_expand lzs_serialise lz5_serialise lzs_wf_cmd lz5_wf_cmd
  lh1_init lh1_read lh1_max_read lh1_block_size
  StartHuff reconst update char_code EncodeChar EncodePosition lzhuf_encode bits_to_bytes lz77_expand_4k
  pm2_init pm2_read pm2_max_read pm2_block_size
  pm1_init pm1_read pm1_max_read pm1_block_size
  lh4_init lh4_read lh4_max_read lh4_block_size
  lh5_init lh5_read lh5_max_read lh5_block_size
  lh6_init lh6_read lh6_max_read lh6_block_size
  lh7_init lh7_read lh7_max_read lh7_block_size
  lhx_init lhx_read lhx_max_read lhx_block_size
  lk7_init lk7_read lk7_max_read lk7_block_size
  mk_source lha_input_stream_new lha_input_stream_read lha_input_stream_skip
  lha_file_header_read mktime_utc collapse_path full_path
  lha_basic_reader_new lha_basic_reader_next_file lha_basic_reader_read_compressed
  run_ops fs_init dump run_case
  lha_decoder_for_name lha_reader_new lha_reader_set_dir_policy lha_reader_next_file lha_reader_read lha_reader_check lha_reader_extract lha_reader_current_is_fake reader_br read_loses_decoder check_loses_decoder
  xcheck_all
  fmem_new f_live_blocks f_free_reader f_free_stream fls_next fls_read fls_check fls_extract
  filter_next_file file_full_path make_parent_directories extract_archive test_file_crc print_archive do_command lha_main cli_fs_init cli_run fs_fopen_rb
  mem_new live_blocks m_free_reader m_free_stream ls_next ls_read ls_check ls_extract blocks_of_header
  safe_output match_glob matches_filter lha_filter_next_file parse_command_line parse_main
  list_output list_output_cmd ratio_string compression_percent gmtime_utc
  fmt_s fmt_c fmt_u fmt_x fmt_d fmt_f1
  pm_expand pm2_auto pm2_serialise pm2_denote wf_pm2 pm1_auto pm1_pick_header pm1_serialise pm1_denote wf_pm1 pm1_zero_extended
  lhn_lit lhn_copy lz77_expand lz77_expand_ref canonical_code complete_code tab_code
  v_lh4 v_lh5 v_lh6 v_lh7 v_lhx v_lk7 wf_block wf_stream block_bits serialise_stream serialise_bytes denote auto_stream.

(* ListN.v -- lemmas about firstn_N / skipn_N / nlen *)
From Lhasa Require Import Base.
From Coq Require Import ZifyBool ZifyN ZifyNat.
Local Open Scope N_scope.

Lemma firstn_N_eq {A} (l : list A) : forall w, firstn_N w l = firstn (N.to_nat w) l.
Proof.
  induction l as [|x r IH]; intros w; cbn [firstn_N].
  - now rewrite firstn_nil.
  - destruct (N.eqb_spec w 0) as [->|H]; [reflexivity|].
    rewrite IH. replace (N.to_nat w) with (S (N.to_nat (N.pred w))) by lia. reflexivity.
Qed.

Lemma skipn_N_eq {A} (l : list A) : forall w, skipn_N w l = skipn (N.to_nat w) l.
Proof.
  induction l as [|x r IH]; intros w; cbn [skipn_N].
  - now rewrite skipn_nil.
  - destruct (N.eqb_spec w 0) as [->|H]; [reflexivity|].
    rewrite IH. replace (N.to_nat w) with (S (N.to_nat (N.pred w))) by lia. reflexivity.
Qed.

Lemma nlen_firstn_N {A} w (l : list A) : nlen (firstn_N w l) = N.min w (nlen l).
Proof. rewrite firstn_N_eq. unfold nlen. rewrite firstn_length. lia. Qed.

Lemma nlen_skipn_N {A} w (l : list A) : nlen (skipn_N w l) = nlen l - w.
Proof. rewrite skipn_N_eq. unfold nlen. rewrite skipn_length. lia. Qed.

Lemma firstn_skipn_N {A} w (l : list A) : firstn_N w l ++ skipn_N w l = l.
Proof. rewrite firstn_N_eq, skipn_N_eq. apply firstn_skipn. Qed.

Lemma nlen_zero_nil {A} (l : list A) : nlen l = 0 -> l = [].
Proof. destruct l; [reflexivity|]. unfold nlen; simpl; lia. Qed.

Lemma skipn_N_nil_iff {A} w (l : list A) : skipn_N w l = [] <-> nlen l <= w.
Proof.
  split; intros H.
  - pose proof (nlen_skipn_N w l) as E. rewrite H in E. unfold nlen in E at 1. simpl in E. lia.
  - apply nlen_zero_nil. rewrite nlen_skipn_N. lia.
Qed.

Lemma firstn_N_all {A} w (l : list A) : nlen l <= w -> firstn_N w l = l.
Proof. intros H. rewrite firstn_N_eq. apply firstn_all2. unfold nlen in H. lia. Qed.

Lemma firstn_N_0 {A} (l : list A) : firstn_N 0 l = [].
Proof. destruct l; reflexivity. Qed.

Lemma skipn_N_0 {A} (l : list A) : skipn_N 0 l = l.
Proof. destruct l; reflexivity. Qed.

Lemma firstn_N_nil {A} w : firstn_N w (@nil A) = [].
Proof. reflexivity. Qed.

Lemma skipn_N_nil {A} w : skipn_N w (@nil A) = [].
Proof. reflexivity. Qed.

Lemma skipn_skipn_nat {A} a : forall b (l : list A), skipn b (skipn a l) = skipn (a + b) l.
Proof.
  induction a as [|a IH]; intros b l; [reflexivity|].
  destruct l as [|x l]; simpl; [now destruct b|]. apply IH.
Qed.

Lemma skipn_N_add {A} a b (l : list A) : skipn_N (a + b) l = skipn_N b (skipn_N a l).
Proof. rewrite !skipn_N_eq. rewrite skipn_skipn_nat. f_equal. lia. Qed.

Lemma firstn_add_nat {A} a : forall b (l : list A), firstn (a + b) l = firstn a l ++ firstn b (skipn a l).
Proof.
  induction a as [|a IH]; intros b l; [reflexivity|].
  destruct l as [|x l]; simpl; [now destruct b|]. f_equal. apply IH.
Qed.

Lemma firstn_N_add {A} a b (l : list A) : firstn_N (a + b) l = firstn_N a l ++ firstn_N b (skipn_N a l).
Proof.
  rewrite !firstn_N_eq, skipn_N_eq. replace (N.to_nat (a + b)) with (N.to_nat a + N.to_nat b)%nat by lia.
  apply firstn_add_nat.
Qed.

Lemma nlen_rev {A} (l : list A) : nlen (rev l) = nlen l.
Proof. unfold nlen. now rewrite rev_length. Qed.

Lemma nlen_pos_cons {A} (l : list A) : 0 < nlen l -> exists x r, l = x :: r.
Proof. destruct l; [unfold nlen; simpl; lia|eauto]. Qed.

Lemma firstn_N_firstn_N {A} a b (l : list A) : firstn_N a (firstn_N b l) = firstn_N (N.min a b) l.
Proof. rewrite !firstn_N_eq. rewrite firstn_firstn. f_equal. lia. Qed.

Lemma fold_add_shift l : forall a, fold_left N.add l a = a + fold_left N.add l 0.
Proof.
  induction l as [|y l IH]; intros a; simpl; [lia|].
  rewrite IH. rewrite (IH y). lia.
Qed.

Lemma sum_N_cons x l : sum_N (x :: l) = x + sum_N l.
Proof. unfold sum_N. simpl. apply fold_add_shift. Qed.

Lemma skipn_N_cases {A} w (l : list A) :
  (nlen l <= w /\ skipn_N w l = []) \/ (w < nlen l /\ exists y ys, skipn_N w l = y :: ys).
Proof.
  destruct (N.le_gt_cases (nlen l) w) as [H|H].
  - left. split; [exact H|]. apply skipn_N_nil_iff. exact H.
  - right. split; [exact H|]. destruct (skipn_N w l) as [|y ys] eqn:E; [|eauto].
    apply skipn_N_nil_iff in E. lia.
Qed.

Lemma firstn_N_app_l {A} w (l1 l2 : list A) : w <= nlen l1 -> firstn_N w (l1 ++ l2) = firstn_N w l1.
Proof.
  intros H. rewrite !firstn_N_eq. rewrite firstn_app.
  replace (N.to_nat w - length l1)%nat with O by (unfold nlen in H; lia).
  simpl. apply app_nil_r.
Qed.

Lemma firstn_N_app_r {A} w (l1 l2 : list A) : nlen l1 <= w ->
  firstn_N w (l1 ++ l2) = l1 ++ firstn_N (w - nlen l1) l2.
Proof.
  intros H. rewrite !firstn_N_eq. rewrite firstn_app.
  rewrite firstn_all2 by (unfold nlen in H; lia).
  f_equal. f_equal. unfold nlen. lia.
Qed.

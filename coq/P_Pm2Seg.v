(* P_Pm2Seg.v -- segments of a -pm2- stream (C04).

   rebuild_hdr : rebuild_tree, run on the header bits of segment j
       (S_Pm.pm2_hdr_bits) in the rebuild state that belongs to j, consumes
       exactly them, leaves trees that decode the tables now in force
       (seg_ct / seg_ot), the next rebuild state and the segment's length as
       counter; ring, position and history list are untouched
   sim         : the simulation relation between a decoder state and a position
       of the specification inside segment k
   cmd_A / cmd_B / cmd_C : one pm2_read_body on the bits of one command
       A: the command ends inside segment k
       B: it reaches the end of segment k and the header of segment k + 1
          follows its bits (also in the middle of a copy)
       C: it reaches the end of segment k and nothing is known about what
          follows (the last command of a stream): the bytes are still right *)
From Lhasa Require Import Base ListN DecBase BitReader Loop Sweep Tree PmaCommon Generated Pm2
  S_Larc S_Pm P_BitReader P_Tree P_PmaCommon P_Pm2 P_Pm2Rt P_TreeCanonPm P_Pm2Lens P_Pm2Off P_Pm2Copy
  P_Pm2Cmd.
From Coq Require Import ZifyBool ZifyN ZifyNat.
Local Open Scope N_scope.

(* ------------------------------------------------------------------ *)
(* segments                                                            *)

(* the rebuild state in which the header of segment j is read *)
Definition st_of (j : N) : pm2_rebuild_state :=
  if j =? 0 then PM2_REBUILD_UNBUILT else if j =? 1 then PM2_REBUILD_BUILD1
  else if j =? 2 then PM2_REBUILD_BUILD2 else if j =? 3 then PM2_REBUILD_BUILD3
  else PM2_REBUILD_CONTINUING.

Definition seg_len (j : N) : N := if j <? 2 then 1024 else if j =? 2 then 2048 else 4096.

Lemma seg_end_len j : pm2_seg_end j = pm2_seg_start j + seg_len j.
Proof.
  unfold pm2_seg_end, pm2_seg_start, seg_len.
  destruct (N.eqb_spec j 0) as [->|H0]; [reflexivity|].
  destruct (N.eqb_spec j 1) as [->|H1]; [reflexivity|].
  destruct (N.eqb_spec j 2) as [->|H2]; [reflexivity|].
  destruct (N.eqb_spec j 3) as [->|H3]; [reflexivity|].
  destruct (N.eqb_spec (j + 1) 0); [lia|]. destruct (N.eqb_spec (j + 1) 1); [lia|].
  destruct (N.eqb_spec (j + 1) 2); [lia|]. destruct (N.eqb_spec (j + 1) 3); [lia|].
  destruct (N.ltb_spec j 2); lia.
Qed.

Lemma seg_len_ge j : 1024 <= seg_len j.
Proof. unfold seg_len. destruct (j <? 2); [lia|]. destruct (j =? 2); lia. Qed.

Lemma seg_start_next j : pm2_seg_start (j + 1) = pm2_seg_end j.
Proof. reflexivity. Qed.

Lemma st_of_not_unbuilt j : st_of (j + 1) <> PM2_REBUILD_UNBUILT.
Proof.
  unfold st_of. destruct (N.eqb_spec (j + 1) 0); [lia|].
  destruct (j + 1 =? 1); [discriminate|]. destruct (j + 1 =? 2); [discriminate|].
  destruct (j + 1 =? 3); discriminate.
Qed.

(* ------------------------------------------------------------------ *)
(* the table part of the state                                         *)

Definition tree_safe (s : pm2_state) : Prop :=
  closed 128 (pm2_code_tree s) pm2_code_tree_extent /\
  closed 128 (pm2_offset_tree s) pm2_offset_tree_extent /\
  leaves_lt (pm2_offset_tree s) 8.

Definition tabs_ok (s : pm2_state) (ct : option codetab) (ot : list N) : Prop :=
  match ct with
  | Some t => tree_decodes (pm2_code_tree s) t /\ pm2_need_offset_tree s = ct_need_off t
  | None => True
  end /\ off_decodes (pm2_offset_tree s) ot.

Definition trees_same (s s' : pm2_state) : Prop :=
  pm2_code_tree s' = pm2_code_tree s /\ pm2_need_offset_tree s' = pm2_need_offset_tree s /\
  pm2_offset_tree s' = pm2_offset_tree s /\ pm2_tree_state s' = pm2_tree_state s.

Lemma trees_same_bsr_frame s s' : bsr_frame s s' -> trees_same s s'.
Proof. intros (_ & A & B & C & D & _). repeat split; assumption. Qed.

Lemma trees_same_tabs_same s s' : tabs_same s s' -> trees_same s s'.
Proof. intros (_ & A & B & C & D). repeat split; assumption. Qed.

Lemma trees_same_trans a b c : trees_same a b -> trees_same b c -> trees_same a c.
Proof. intros (A1 & A2 & A3 & A4) (B1 & B2 & B3 & B4). repeat split; congruence. Qed.

Lemma tree_safe_same s s' : trees_same s s' -> tree_safe s -> tree_safe s'.
Proof. intros (A & _ & C & _) H. unfold tree_safe. rewrite A, C. exact H. Qed.

Lemma tabs_ok_same s s' ct ot : trees_same s s' -> tabs_ok s ct ot -> tabs_ok s' ct ot.
Proof. intros (A & B & C & _) H. unfold tabs_ok. rewrite A, B, C. exact H. Qed.

Lemma safe_of s st : data_ok s st -> bsr_wf (pm2_bsr s) -> tree_safe s -> pm2_safe bsr_ok s.
Proof.
  intros (A & B & _ & _ & E & _) Hr (T1 & T2 & T3). unfold pm2_safe.
  split; [exact A|]. split; [rewrite B; apply N.mod_lt; discriminate|].
  split; [apply bsr_wf_ok; exact Hr|]. split; [exact E|]. split; [exact T1|]. split; [exact T2|exact T3].
Qed.

Lemma src_read_bits_ok r (c : src) n : bsr_ok r -> n <= 32 ->
  exists res r' c', read_bits src_cb r c n = Ok (res, r', c') /\ bsr_ok r' /\ (forall v, res = Some v -> v < 2 ^ n).
Proof. apply (read_bits_ok src_cb src_cb_len_bounded_pm). Qed.

(* rebuild_tree is total and keeps the trees safe, whatever the input *)
Lemma rebuild_total s (c : src) : pm2_safe bsr_ok s ->
  exists s' c', rebuild_tree src_cb s c = Ok (s', c').
Proof.
  intros Hs. destruct (rebuild_tree_ok bsr_ok src_cb src_read_bits_ok s c Hs) as (s' & c' & E & _).
  exists s', c'. exact E.
Qed.

Lemma rebuild_tree_safe s (c : src) s' c' : pm2_safe bsr_ok s -> rebuild_tree src_cb s c = Ok (s', c') ->
  tree_safe s'.
Proof.
  intros Hs E. destruct (rebuild_tree_ok bsr_ok src_cb src_read_bits_ok s c Hs) as (s2 & c2 & E2 & [Hs2 _] & _).
  rewrite E in E2. injection E2 as <- <-. destruct Hs2 as (_ & _ & _ & _ & T1 & T2 & T3).
  split; [exact T1|]. split; [exact T2|exact T3].
Qed.

(* ------------------------------------------------------------------ *)
(* the two table steps of a header                                     *)

Lemma code_step t s (c : src) rest : wf_codetab t = true ->
  bsr_wf (pm2_bsr s) -> src_ok c -> tree_safe s -> pending (pm2_bsr s) c = ct_bits t ++ rest ->
  exists b s' c', read_code_tree src_cb s c = Ok (b, s', c') /\
    bsr_wf (pm2_bsr s') /\ src_ok c' /\ pending (pm2_bsr s') c' = rest /\
    tree_decodes (pm2_code_tree s') t /\ pm2_need_offset_tree s' = ct_need_off t /\
    pm2_offset_tree s' = pm2_offset_tree s.
Proof.
  intros Hwf Hr Hc (T1 & _) Hp.
  destruct (code_tree_ok_wf t Hwf s c rest Hr Hc T1 Hp) as (b & s' & c' & E & W & S & P & D & Nd & _ & _ & _ & Fo).
  exists b, s', c'. split; [exact E|]. split; [exact W|]. split; [exact S|]. split; [exact P|].
  split; [exact D|]. split; [exact Nd|exact Fo].
Qed.

Lemma off_step s (c : src) ot sg n rest :
  match sg_off sg with
  | Some ol => pm2_need_offset_tree s = true /\ nlen ol = n /\ wf_offtab ol = true
  | None => pm2_need_offset_tree s = false
  end -> n <= 8 ->
  bsr_wf (pm2_bsr s) -> src_ok c -> pm2_offset_tree_extent <= alen (pm2_offset_tree s) ->
  off_decodes (pm2_offset_tree s) ot ->
  pending (pm2_bsr s) c = (match sg_off sg with Some ol => off_bits ol | None => [] end) ++ rest ->
  exists b s' c', read_offset_tree src_cb s c n = Ok (b, s', c') /\
    bsr_wf (pm2_bsr s') /\ src_ok c' /\ pending (pm2_bsr s') c' = rest /\
    off_decodes (pm2_offset_tree s') (seg_ot ot sg) /\ pm2_code_tree s' = pm2_code_tree s /\
    pm2_need_offset_tree s' = pm2_need_offset_tree s.
Proof.
  intros Hoff Hn Hr Hc Hal Hdec Hp. unfold seg_ot. destruct (sg_off sg) as [ol|].
  - destruct Hoff as (Hneed & <- & Hwf).
    destruct (off_tree_ok s c ol rest Hneed Hr Hc Hal Hn Hwf Hp) as (b & s' & c' & E & W & S & P & D & Fr).
    destruct Fr as (_ & _ & _ & _ & _ & F1 & F2).
    exists b, s', c'. split; [exact E|]. split; [exact W|]. split; [exact S|]. split; [exact P|].
    split; [exact D|]. split; [exact F1|exact F2].
  - cbn [app] in Hp. rewrite read_offset_tree_none by exact Hoff.
    exists true, s, c. split; [reflexivity|]. split; [exact Hr|]. split; [exact Hc|]. split; [exact Hp|].
    split; [exact Hdec|]. split; reflexivity.
Qed.

(* what wf_pm2_hdr says about the offset table, given the code table in force *)
Lemma wf_hdr_off j ct sg t : wf_pm2_hdr j ct sg = true -> seg_ct ct sg = Some t ->
  (j <? 4) || is_some (sg_code sg) = true ->
  match sg_off sg with
  | Some ol => ct_need_off t = true /\ nlen ol = pm2_noffs j /\ wf_offtab ol = true
  | None => ct_need_off t = false
  end.
Proof.
  intros Hwf Et Hflag. unfold wf_pm2_hdr in Hwf. rewrite Et, Hflag, andb_true_r in Hwf.
  apply andb_true_iff in Hwf. destruct Hwf as [_ Hwf].
  destruct (sg_off sg) as [ol|].
  - apply andb_true_iff in Hwf. destruct Hwf as [Hwf H3]. apply andb_true_iff in Hwf. destruct Hwf as [H1 H2].
    apply N.eqb_eq in H2. auto.
  - apply negb_true_iff in Hwf. exact Hwf.
Qed.

Lemma wf_hdr_nooff j ct sg : wf_pm2_hdr j ct sg = true ->
  (j <? 4) || is_some (sg_code sg) = false -> sg_off sg = None.
Proof.
  intros Hwf Hflag. unfold wf_pm2_hdr in Hwf. rewrite Hflag in Hwf.
  apply andb_true_iff in Hwf. destruct Hwf as [_ Hwf].
  destruct (seg_ct ct sg) as [t|]; [|discriminate]. rewrite andb_false_r in Hwf.
  destruct (sg_off sg); [discriminate|reflexivity].
Qed.

Lemma wf_hdr_code j ct sg : wf_pm2_hdr j ct sg = true ->
  (j = 0 -> is_some (sg_code sg) = true) /\
  (1 <= j -> j < 3 -> sg_code sg = None) /\
  (forall t, sg_code sg = Some t -> wf_codetab t = true) /\
  exists t, seg_ct ct sg = Some t.
Proof.
  intros Hwf. unfold wf_pm2_hdr in Hwf.
  apply andb_true_iff in Hwf. destruct Hwf as [Hwf H3]. apply andb_true_iff in Hwf. destruct Hwf as [H1 H2].
  split; [intros ->; exact H1|]. split.
  { intros Hj1 Hj3. destruct (N.eqb_spec j 0); [lia|]. destruct (N.ltb_spec j 3); [|lia].
    destruct (sg_code sg); [discriminate|reflexivity]. }
  split; [intros t Et; rewrite Et in H2; exact H2|].
  destruct (seg_ct ct sg) as [t|]; [exists t; reflexivity|discriminate].
Qed.

(* ------------------------------------------------------------------ *)
(* rebuild_tree on a well-formed header                                *)

Theorem rebuild_hdr j ct ot sg s (c : src) st rest :
  data_ok s st -> tree_safe s -> bsr_wf (pm2_bsr s) -> src_ok c -> tabs_ok s ct ot ->
  pm2_tree_state s = st_of j -> wf_pm2_hdr j ct sg = true ->
  pending (pm2_bsr s) c = pm2_hdr_bits j sg ++ rest ->
  exists s' c' t, seg_ct ct sg = Some t /\ rebuild_tree src_cb s c = Ok (s', c') /\
    bsr_wf (pm2_bsr s') /\ src_ok c' /\ pending (pm2_bsr s') c' = rest /\
    tabs_ok s' (Some t) (seg_ot ot sg) /\ tree_safe s' /\
    pm2_tree_state s' = st_of (j + 1) /\ rem_of s' = seg_len j /\ data_frame s s'.
Proof.
  intros Hd Hts Hr Hc Htabs Hst Hwf Hp.
  pose proof (safe_of s st Hd Hr Hts) as Hsafe.
  destruct (wf_hdr_code j ct sg Hwf) as (Hc0 & Hc12 & Hcwf & t & Et).
  (* it is enough to run rebuild_tree and describe reader and trees *)
  enough (X : exists s' c', rebuild_tree src_cb s c = Ok (s', c') /\
            bsr_wf (pm2_bsr s') /\ src_ok c' /\ pending (pm2_bsr s') c' = rest /\
            tabs_ok s' (Some t) (seg_ot ot sg) /\
            pm2_tree_state s' = st_of (j + 1) /\ rem_of s' = seg_len j).
  { destruct X as (s' & c' & E & W & S & P & T & St & Rm).
    exists s', c', t. split; [exact Et|]. split; [exact E|]. split; [exact W|]. split; [exact S|].
    split; [exact P|]. split; [exact T|]. split; [apply (rebuild_tree_safe s c s' c' Hsafe E)|].
    split; [exact St|]. split; [exact Rm|]. apply (rebuild_frame src_cb s c s' c' E). }
  destruct Htabs as [Hct Hot]. pose proof Hts as (T1 & T2 & T3).
  pose proof (closed_alen _ _ _ T2) as Hoal.
  unfold pm2_hdr_bits in Hp. unfold rebuild_tree. rewrite Hst.
  (* the code-table step, when the header carries a table *)
  assert (Hcode : forall t0 s0 (c0 : src) rest0, sg_code sg = Some t0 -> bsr_wf (pm2_bsr s0) -> src_ok c0 ->
            trees_same s s0 -> pending (pm2_bsr s0) c0 = ct_bits t0 ++ rest0 ->
            exists b s' c', read_code_tree src_cb s0 c0 = Ok (b, s', c') /\
              bsr_wf (pm2_bsr s') /\ src_ok c' /\ pending (pm2_bsr s') c' = rest0 /\
              tree_decodes (pm2_code_tree s') t /\ pm2_need_offset_tree s' = ct_need_off t /\
              pm2_offset_tree s' = pm2_offset_tree s).
  { intros t0 s0 c0 rest0 E0 Hr0 Hc0' Hsame Hp0.
    assert (t0 = t) by (unfold seg_ct in Et; rewrite E0 in Et; congruence). subst t0.
    destruct (code_step t s0 c0 rest0 (Hcwf t E0) Hr0 Hc0' (tree_safe_same s s0 Hsame Hts) Hp0)
      as (b & s' & c' & E & W & S & P & D & Nd & Fo).
    exists b, s', c'. destruct Hsame as (_ & _ & So & _). rewrite So in Fo.
    split; [exact E|]. split; [exact W|]. split; [exact S|]. split; [exact P|].
    split; [exact D|]. split; [exact Nd|exact Fo]. }
  (* the offset-table step *)
  assert (Hoffs : forall s0 (c0 : src), (j <? 4) || is_some (sg_code sg) = true ->
            bsr_wf (pm2_bsr s0) -> src_ok c0 -> pm2_offset_tree s0 = pm2_offset_tree s ->
            tree_decodes (pm2_code_tree s0) t -> pm2_need_offset_tree s0 = ct_need_off t ->
            pending (pm2_bsr s0) c0 = (match sg_off sg with Some ol => off_bits ol | None => [] end) ++ rest ->
            exists b s' c', read_offset_tree src_cb s0 c0 (pm2_noffs j) = Ok (b, s', c') /\
              bsr_wf (pm2_bsr s') /\ src_ok c' /\ pending (pm2_bsr s') c' = rest /\
              tabs_ok s' (Some t) (seg_ot ot sg)).
  { intros s0 c0 Hflag Hr0 Hc0' Eo Hdec Hneed Hp0.
    pose proof (wf_hdr_off j ct sg t Hwf Et Hflag) as Hoff.
    destruct (off_step s0 c0 ot sg (pm2_noffs j) rest) as (b & s' & c' & E & W & S & P & D & F1 & F2);
      try assumption.
    - rewrite Hneed. destruct (sg_off sg); exact Hoff.
    - unfold pm2_noffs. destruct (N.ltb_spec j 3); lia.
    - rewrite Eo. exact Hoal.
    - rewrite Eo. exact Hot.
    - exists b, s', c'. split; [exact E|]. split; [exact W|]. split; [exact S|]. split; [exact P|].
      split; [|exact D]. rewrite F1, F2. split; assumption. }
  destruct (N.eq_dec j 0) as [Ej|Ej0].
  { (* segment 0: code table, offset table *)
    subst j. specialize (Hc0 eq_refl). destruct (sg_code sg) as [t0|] eqn:Ecode; [|discriminate].
    change (st_of 0) with PM2_REBUILD_UNBUILT. cbv iota.
    change (3 <=? 0) with false in Hp. cbn [app] in Hp. rewrite <- app_assoc in Hp.
    edestruct (Hcode t0 s c) as (b1 & s1 & c1 & E1 & W1 & S1 & P1 & D1 & N1 & O1);
      [reflexivity|exact Hr|exact Hc|repeat split|exact Hp|].
    rewrite E1. cbn [bind]. cbv beta iota.
    destruct (Hoffs s1 c1 eq_refl W1 S1 O1 D1 N1 P1) as (b2 & s2 & c2 & E2 & W2 & S2 & P2 & T2').
    change (pm2_noffs 0) with 5 in E2. rewrite E2. cbn [bind]. cbv beta iota.
    eexists _, c2. split; [reflexivity|]. split; [exact W2|]. split; [exact S2|]. split; [exact P2|]. split; [exact T2'|]. split; reflexivity. }
  destruct (N.eq_dec j 1) as [Ej|Ej1].
  { subst j. assert (Ecode : sg_code sg = None) by (apply Hc12; lia). rewrite Ecode in Hp. unfold seg_ct in Et. rewrite Ecode in Et.
    change (st_of 1) with PM2_REBUILD_BUILD1. cbv iota.
    change (3 <=? 1) with false in Hp. cbn [app] in Hp.
    subst ct. destruct Hct as [Hdec Hneed].
    destruct (Hoffs s c eq_refl Hr Hc eq_refl Hdec Hneed Hp) as (b2 & s2 & c2 & E2 & W2 & S2 & P2 & T2').
    change (pm2_noffs 1) with 6 in E2. rewrite E2. cbn [bind]. cbv beta iota.
    eexists _, c2. split; [reflexivity|]. split; [exact W2|]. split; [exact S2|]. split; [exact P2|]. split; [exact T2'|]. split; reflexivity. }
  destruct (N.eq_dec j 2) as [Ej|Ej2].
  { subst j. assert (Ecode : sg_code sg = None) by (apply Hc12; lia). rewrite Ecode in Hp. unfold seg_ct in Et. rewrite Ecode in Et.
    change (st_of 2) with PM2_REBUILD_BUILD2. cbv iota.
    change (3 <=? 2) with false in Hp. cbn [app] in Hp.
    subst ct. destruct Hct as [Hdec Hneed].
    destruct (Hoffs s c eq_refl Hr Hc eq_refl Hdec Hneed Hp) as (b2 & s2 & c2 & E2 & W2 & S2 & P2 & T2').
    change (pm2_noffs 2) with 7 in E2. rewrite E2. cbn [bind]. cbv beta iota.
    eexists _, c2. split; [reflexivity|]. split; [exact W2|]. split; [exact S2|]. split; [exact P2|]. split; [exact T2'|]. split; reflexivity. }
  (* j >= 3: the flag bit *)
  assert (Hj3 : (3 <=? j) = true) by (apply N.leb_le; lia). rewrite Hj3 in Hp. cbn [app] in Hp.
  assert (Hn8 : pm2_noffs j = 8) by (unfold pm2_noffs; destruct (N.ltb_spec j 3); [lia|reflexivity]).
  destruct (read_bit_src (pm2_bsr s) c _ _ Hr Hc Hp) as (r1 & c1 & Eb & W1 & S1 & P1).
  assert (Hbit : pm2_read_bit_is_1 src_cb s c = Ok (is_some (sg_code sg), pm2_set_bsr s r1, c1)).
  { unfold pm2_read_bit_is_1. rewrite Eb. cbn [bind]. cbv beta iota. destruct (sg_code sg); reflexivity. }
  destruct (N.eq_dec j 3) as [Ej|Ej3].
  { subst j. change (st_of 3) with PM2_REBUILD_BUILD3. cbv iota.
    rewrite Hbit. cbn [bind]. cbv beta iota.
    destruct (sg_code sg) as [t0|] eqn:Ecode; cbn [is_some].
    - rewrite <- app_assoc in P1.
      edestruct (Hcode t0 (pm2_set_bsr s r1) c1) as (b1 & s2 & c2 & E2 & W2 & S2 & P2 & D2 & N2 & O2);
        [reflexivity|exact W1|exact S1|repeat split|exact P1|].
      rewrite E2. cbn [bind]. cbv beta iota.
      destruct (Hoffs s2 c2 eq_refl W2 S2 O2 D2 N2 P2) as (b3 & s3 & c3 & E3 & W3 & S3 & P3 & T3').
      rewrite Hn8 in E3. rewrite E3. cbn [bind]. cbv beta iota.
      eexists _, c3. split; [reflexivity|]. split; [exact W3|]. split; [exact S3|]. split; [exact P3|]. split; [exact T3'|]. split; reflexivity.
    - cbn [app] in P1. cbn [bind]. cbv beta iota.
      assert (ct = Some t) by (unfold seg_ct in Et; rewrite Ecode in Et; exact Et). subst ct. destruct Hct as [Hdec Hneed].
      destruct (Hoffs (pm2_set_bsr s r1) c1 eq_refl W1 S1 eq_refl Hdec Hneed P1)
        as (b3 & s3 & c3 & E3 & W3 & S3 & P3 & T3').
      rewrite Hn8 in E3. rewrite E3. cbn [bind]. cbv beta iota.
      eexists _, c3. split; [reflexivity|]. split; [exact W3|]. split; [exact S3|]. split; [exact P3|]. split; [exact T3'|]. split; reflexivity. }
  (* j >= 4 *)
  assert (Hst4 : st_of j = PM2_REBUILD_CONTINUING).
  { unfold st_of. destruct (N.eqb_spec j 0); [lia|]. destruct (N.eqb_spec j 1); [lia|].
    destruct (N.eqb_spec j 2); [lia|]. destruct (N.eqb_spec j 3); [lia|reflexivity]. }
  assert (Hst5 : st_of (j + 1) = PM2_REBUILD_CONTINUING).
  { unfold st_of. destruct (N.eqb_spec (j + 1) 0); [lia|]. destruct (N.eqb_spec (j + 1) 1); [lia|].
    destruct (N.eqb_spec (j + 1) 2); [lia|]. destruct (N.eqb_spec (j + 1) 3); [lia|reflexivity]. }
  assert (Hlen4 : seg_len j = 4096).
  { unfold seg_len. destruct (N.ltb_spec j 2); [lia|]. destruct (N.eqb_spec j 2); [lia|reflexivity]. }
  rewrite Hst4, Hst5, Hlen4. cbv iota.
  rewrite Hbit. cbn [bind]. cbv beta iota.
  destruct (sg_code sg) as [t0|] eqn:Ecode; cbn [is_some].
  - rewrite <- app_assoc in P1.
    edestruct (Hcode t0 (pm2_set_bsr s r1) c1) as (b1 & s2 & c2 & E2 & W2 & S2 & P2 & D2 & N2 & O2);
      [reflexivity|exact W1|exact S1|repeat split|exact P1|].
    rewrite E2. cbn [bind]. cbv beta iota.
    destruct (Hoffs s2 c2) as (b3 & s3 & c3 & E3 & W3 & S3 & P3 & T3'); try assumption.
    { cbn [is_some]. apply orb_true_r. }
    rewrite Hn8 in E3. rewrite E3. cbn [bind]. cbv beta iota.
    eexists _, c3. split; [reflexivity|]. split; [exact W3|]. split; [exact S3|]. split; [exact P3|]. split; [exact T3'|]. split; reflexivity.
  - cbn [bind]. cbv beta iota.
    assert (Hoff : sg_off sg = None).
    { apply (wf_hdr_nooff j ct sg Hwf). rewrite Ecode. cbn [is_some]. rewrite orb_false_r. apply N.ltb_ge. lia. }
    rewrite Hoff in P1. cbn [app] in P1.
    assert (ct = Some t) by (unfold seg_ct in Et; rewrite Ecode in Et; exact Et). subst ct. destruct Hct as [Hdec Hneed].
    eexists _, c1. split; [reflexivity|].
    cbn [pm2_set_tree_state pm2_set_bsr pm2_bsr pm2_tree_state pm2_tree_rebuild_remaining].
    split; [exact W1|]. split; [exact S1|]. split; [exact P1|].
    split; [|split; reflexivity].
    unfold tabs_ok, seg_ot. rewrite Hoff.
    cbn [pm2_set_tree_state pm2_set_bsr pm2_code_tree pm2_need_offset_tree pm2_offset_tree].
    split; [split; assumption|exact Hot].
Qed.

Print Assumptions rebuild_hdr.

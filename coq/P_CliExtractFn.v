(* P_CliExtractFn.v -- C06: the per-entry lemmas once more, now for any path
   string fn that (i) splits into the components DL ++ [c], (ii) has no trailing
   slash (files, links), (iii) names parents that all exist; this covers paths
   with a doubled slash, as "w=DIR/" produces. *)
From Lhasa Require Import Base ListN DecBase Loop Generated Crc16 InputStream Header BasicReader
  AnyDecoder Decoder MacBinary Fs FsRun Reader Glob ListOut CliFilter CliExtract
  P_ReaderCheck P_FsExtract P_ReaderExtract P_CliExtract P_FsReplace P_CliOverwrite P_CliExtractGen.
From Coq Require Import ZifyBool ZifyN ZifyNat.
Local Open Scope N_scope.

Set Default Timeout 60.

Lemma at_path_of_rel s fn DL (c : name) o pm t ents : dir_ready s DL o pm t ents -> good_name c ->
  rel_path fn DL c -> at_path s fn DL c.
Proof.
  intros (Hg & Hch & _) Hc Hrel. split; [exact Hrel|]. split; [apply good_names_plain; exact Hg|]. split; [apply Hc|exact Hch].
Qed.

Section Fn.
  Variable junk : N.

  (* a regular member, nothing at its place *)
  Theorem fn_file h st (fn : list N) DL (c : name) o pm t ents bs r2 :
    let s := cs_fs st in
    file_full_path h (cs_opts st) = fn -> rel_path fn DL c -> trailing_slash fn = false ->
    make_parent_directories fn st = (true, st) ->
    dir_ready s DL o pm t ents -> good_name c -> lookup ents c = None ->
    is_dir_method h = false -> h_symlink_target h = None -> (h_os_type h =? OS_TYPE_MACOS) = false ->
    rd_type (cs_reader st) = CT_NORMAL -> rd_curr (cs_reader st) = Some h ->
    member_ok junk (cs_reader st) h bs r2 ->
    (fs_uid0 s = true \/ drop_setid (file_mode s h) = file_mode s h) ->
    exists st', extract_archived_file junk h st = Ok (RVal true, st') /\
      cs_reader st' = r2 /\ cs_opts st' = cs_opts st /\ same_env s (cs_fs st') /\
      fs_root (cs_fs st') = update_at (fs_root s) (fs_cwd s ++ DL)
        (const_some (Dir o pm now (ents ++ [(c, File true (file_mode s h) (h_timestamp h) bs)]))).
  Proof.
    intros s Hfn Hrel Hts Hmpd Hready Hc Hfresh Hdm Hsl Hos Hty Hcur Hmem Hmode.
    pose proof Hready as (Hg & Hch & Hn & Hw).
    assert (Hat : at_path s fn DL c) by (eapply at_path_of_rel; eauto).
    assert (Hnone : node_at (fs_root s) ((fs_cwd s ++ DL) ++ [c]) = None).
    { rewrite (child_lookup _ _ _ _ _ _ c Hn). exact Hfresh. }
    rewrite (eaf_eq junk h st), (decide_regular h st (conj Hdm Hsl)), Hfn.
    rewrite (file_exists_none _ st (exists_none s _ DL c Hat Hnone)). cbn [cbind].
    (* the tail, without the use_path test (not a directory) *)
    destruct (fs_file_extracted s (fn) DL c (ex_perms h)) with (ts := h_timestamp h) (chunks := @nil (list N))
      (po := o) (pp := pm) (pt := t) (pe := ents) as (s1 & _ & Hop & _); auto.
    destruct (extract_file_total junk (cs_reader st) s (fn) h bs r2 _ s1 Hcur Hos Hmem Hop)
      as (ev & chunks & Hbs & Hex).
    destruct (fs_file_extracted s (fn) DL c (ex_perms h) chunks (h_timestamp h) o pm t ents
                Hat Hts Hnone Hn Hw Hmode) as (s1' & s3 & Hop' & Hut & Henv & Hroot & Henv2 & Hroot2).
    rewrite Hop in Hop'. inversion Hop'; subst s1'. clear Hop'.
    unfold eaf_tail. rewrite Hsl. change (is_dir_type h) with (is_dir_method h). rewrite Hdm. cbn [andb negb].
    rewrite andb_false_r.
    rewrite Hmpd.
    cbn [negb]. fold s.
    rewrite (reader_extract_regular junk (cs_reader st) s (Some (fn)) true h Hty Hcur Hdm).
    rewrite Hex. cbn [bind].
    assert (Hfinal : exists s4, snd (set_timestamps_from_header (write_chunks ((fs_cwd s ++ DL) ++ [c]) chunks s1) (fn) h) = s4 /\
                     same_env s s4 /\
                     fs_root s4 = update_at (fs_root s) (fs_cwd s ++ DL)
                       (const_some (Dir o pm now (ents ++ [(c, File true (file_mode s h) (h_timestamp h) bs)])))).
    { unfold set_timestamps_from_header. destruct (h_timestamp h =? 0) eqn:Et; cbn [negb].
      - apply N.eqb_eq in Et. eexists. split; [reflexivity|]. split; [exact Henv2|]. cbn [snd]. rewrite Hroot2, Et, Hbs. reflexivity.
      - rewrite Hut. eexists. split; [reflexivity|]. split; [exact Henv|]. cbn [snd]. rewrite Hroot, Hbs. reflexivity. }
    destruct Hfinal as (s4 & Hs4 & Henv4 & Hroot4). rewrite Hs4.
    destruct (negb (lha_reader_current_is_fake r2) && (o_quiet (cs_opts st) <? 2)); [destruct (invoked ev)|];
      (eexists; split; [reflexivity|]; cbn [cs_reader cs_opts cs_fs put_out set_fs set_reader]; auto).
  Qed.

  (* a safe symbolic link *)
  Theorem fn_link h st (fn : list N) DL (c : name) o pm t ents tgt :
    let s := cs_fs st in
    let r := cs_reader st in
    file_full_path h (cs_opts st) = fn -> rel_path fn DL c -> trailing_slash fn = false ->
    make_parent_directories fn st = (true, st) ->
    dir_ready s DL o pm t ents -> good_name c -> lookup ents c = None ->
    is_dir_method h = true -> h_symlink_target h = Some tgt -> is_dangerous_symlink h = false ->
    tgt <> [] -> nlen tgt <= 4095 ->
    rd_type r = CT_NORMAL -> rd_curr r = Some h ->
    exists st', extract_archived_file junk h st = Ok (RVal true, st') /\
      cs_opts st' = cs_opts st /\ cs_reader st' = r /\ same_env s (cs_fs st') /\
      fs_root (cs_fs st') = update_at (fs_root s) (fs_cwd s ++ DL) (const_some (Dir o pm now (ents ++ [(c, Link tgt)]))).
  Proof.
    intros s r Hfn Hrel Hts Hmpd Hready Hc Hfresh Hdm Hsl Hsafe Htne Htlen Hty Hcur.
    pose proof Hready as (Hg & Hch & Hn & Hw).
    assert (Hat : at_path s fn DL c) by (eapply at_path_of_rel; eauto).
    assert (Hnone : node_at (fs_root s) ((fs_cwd s ++ DL) ++ [c]) = None).
    { rewrite (child_lookup _ _ _ _ _ _ c Hn). exact Hfresh. }
    destruct (symlink_fresh s _ DL c Hat tgt o pm t ents Hts Htne) as (s1 & Hsy & Henv & Hroot); auto.
    { unfold path_max. apply N.ltb_ge. exact Htlen. }
    rewrite (set_ent_fresh _ _ _ Hfresh) in Hroot.
    unfold extract_archived_file. rewrite Hfn, Hsl.
    change (is_dir_type h) with (is_dir_method h). rewrite Hdm. cbn [andb negb cbind]. rewrite andb_false_r.
    rewrite Hmpd.
    cbn [negb]. fold s r. unfold lha_reader_extract. rewrite Hty, Hcur, Hdm, Hsl. cbn [negb].
    unfold extract_symlink. rewrite Hcur, Hty, Hsafe, Hsl. cbn [andb]. rewrite Hsy. cbn [bind].
    unfold lha_reader_current_is_fake. rewrite Hty. cbn [negb andb invoked].
    destruct (o_quiet (cs_opts st) <? 2); (eexists; split; [reflexivity|]);
      cbn [cs_reader cs_opts cs_fs put_out set_fs set_reader]; auto.
  Qed.

  (* a directory entry *)
  Theorem fn_dir h st (fn : list N) DL (c : name) o pm t ents :
    let s := cs_fs st in
    let r := cs_reader st in
    file_full_path h (cs_opts st) = fn -> rel_path fn DL c -> make_parent_directories fn st = (true, st) ->
    o_use_path (cs_opts st) = true ->
    dir_ready s DL o pm t ents -> good_name c ->
    lookup ents c = None -> is_dir_method h = true -> h_symlink_target h = None -> N.land pm 1024 = 0 ->
    rd_type r = CT_NORMAL -> rd_curr r = Some h -> rd_policy r = DIR_END_OF_DIR -> rd_linked r = false ->
    exists st', extract_archived_file junk h st = Ok (RVal true, st') /\
      cs_opts st' = cs_opts st /\ same_env s (cs_fs st') /\
      cs_reader st' = {| rd_br := rd_br r; rd_curr := rd_curr r; rd_type := rd_type r; rd_decoder := rd_decoder r;
                         rd_inner := rd_inner r; rd_policy := rd_policy r; rd_dir_stack := h :: rd_dir_stack r;
                         rd_deferred := rd_deferred r; rd_linked := true |} /\
      fs_root (cs_fs st') = update_at (fs_root s) (fs_cwd s ++ DL)
        (const_some (Dir o pm now (ents ++ [(c, Dir true (dir_first_mode (fs_umask s) h) now [])]))).
  Proof.
    intros s r Hfn Hrel Hmpd Hu Hready Hc Hfresh Hdm Hsl Hsg Hty Hcur Hpol Hlk.
    pose proof Hready as (Hg & Hch & Hn & Hw).
    assert (Hat : at_path s (fn) DL c) by (eapply at_path_of_rel; eauto).
    assert (Hnone : node_at (fs_root s) ((fs_cwd s ++ DL) ++ [c]) = None).
    { rewrite (child_lookup _ _ _ _ _ _ c Hn). exact Hfresh. }
    destruct (mkdir_fresh s _ DL c Hat (dir_req h) o pm t ents Hnone Hn Hw) as (s1 & Hmk & Henv & Hroot).
    rewrite (mkdir_mode_eq s _ pm Hsg), (set_ent_fresh _ _ _ Hfresh) in Hroot.
    unfold extract_archived_file. rewrite Hfn, Hsl.
    change (is_dir_type h) with (is_dir_method h). rewrite Hdm. cbn [andb negb cbind].
    rewrite Hu. cbn [negb andb].
    rewrite Hmpd.
    cbn [negb]. fold s r. unfold lha_reader_extract. rewrite Hty, Hcur, Hdm, Hsl. cbn [negb].
    unfold extract_directory. rewrite Hcur. fold (dir_req h). rewrite Hmk. cbn [negb]. rewrite Hpol.
    unfold link_curr. rewrite Hlk. cbn [bind].
    rewrite Hty. cbn [lha_reader_current_is_fake rd_type negb andb invoked].
    rewrite if_same.
    eexists. split; [reflexivity|]. cbn [cs_reader cs_opts cs_fs put_out set_fs set_reader].
    split; [reflexivity|]. split; [exact Henv|]. split; [rewrite Hcur, Hpol; reflexivity|exact Hroot].
  Qed.

  (* the fake entry *)
  Theorem fn_fake h st (fn : list N) DL (c : name) o pm t ents m e :
    let s := cs_fs st in
    let r := cs_reader st in
    file_full_path h (cs_opts st) = fn -> rel_path fn DL c -> make_parent_directories fn st = (true, st) ->
    o_use_path (cs_opts st) = true ->
    dir_ready s DL o pm t ents -> good_name c ->
    lookup ents c = Some (Dir true m now e) -> is_dir_method h = true -> h_symlink_target h = None ->
    rd_type r = CT_FAKE_DIR -> rd_curr r = Some h ->
    let fm := if have_extra h FILE_UNIX_PERMS then N.land (h_unix_perms h) 4095 else m in
    exists st', extract_archived_file junk h st = Ok (RVal true, st') /\
      cs_opts st' = cs_opts st /\ cs_reader st' = r /\
      meta_state s (fn) DL c o pm t ents (cs_fs st') (Dir true fm (h_timestamp h) e).
  Proof.
    intros s r Hfn Hrel Hmpd Hu Hready Hc Hl Hdm Hsl Hty Hcur fm.
    pose proof Hready as (Hg & Hch & Hn & Hw).
    assert (Hat : at_path s (fn) DL c) by (eapply at_path_of_rel; eauto).
    pose proof (set_directory_metadata_at s (fn) DL c o pm t ents Hn h m e Hat Hl) as Hmeta.
    unfold extract_archived_file. rewrite Hfn, Hsl.
    change (is_dir_type h) with (is_dir_method h). rewrite Hdm. cbn [andb negb cbind].
    rewrite Hu. cbn [negb andb].
    rewrite Hmpd.
    cbn [negb]. fold s r. unfold lha_reader_extract. rewrite Hty, Hcur.
    destruct (set_directory_metadata s h (fn)) as [b f1]. cbn [snd] in Hmeta. cbn [bind].
    unfold lha_reader_current_is_fake. rewrite Hty. cbn [negb andb].
    eexists. split; [reflexivity|]. cbn [cs_reader cs_opts cs_fs put_out set_fs set_reader].
    split; [reflexivity|]. split; [reflexivity|exact Hmeta].
  Qed.

End Fn.

Print Assumptions fn_file.
Print Assumptions fn_dir.
Print Assumptions fn_fake.
Print Assumptions fn_link.

(* Properties_C17.v -- C17: the checksum routine is CRC-16/ARC for every
   buffer and every split of it.  Statements only; proofs are in P_Crc16. *)
From Lhasa Require Import Base Generated Crc16 P_Crc16.
Local Open Scope N_scope.

(* The table-driven routine of lib/crc16.c (over the table regenerated from the
   source) computes the bitwise CRC-16/ARC function of any byte sequence,
   from any 16-bit state. *)
Theorem crc16_is_arc : forall bs c, c < 65536 -> Forall (fun b => b < 256) bs ->
  lha_crc16_buf c bs = crc_bitwise c bs.
Proof. exact crc16_is_arc_proof. Qed.
Print Assumptions crc16_is_arc.

(* Feeding a sequence in two pieces gives the same value as feeding it whole. *)
Theorem crc16_split : forall c xs ys,
  lha_crc16_buf c (xs ++ ys) = lha_crc16_buf (lha_crc16_buf c xs) ys.
Proof. exact crc16_split_proof. Qed.
Print Assumptions crc16_split.

(* ... and in any number of pieces, empty ones included. *)
Theorem crc16_pieces : forall pieces c,
  fold_left lha_crc16_buf pieces c = lha_crc16_buf c (concat pieces).
Proof. exact crc16_pieces_proof. Qed.
Print Assumptions crc16_pieces.

(* Non-vacuity: the standard check value of CRC-16/ARC, "123456789" -> 0xBB3D. *)
Example crc16_check_value :
  lha_crc16_buf 0 [49;50;51;52;53;54;55;56;57] = 47933 /\
  crc_bitwise 0 [49;50;51;52;53;54;55;56;57] = 47933.
Proof. split; vm_compute; reflexivity. Qed.

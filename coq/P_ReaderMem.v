(* P_ReaderMem.v -- property C20 over the ownership ledger ReaderMem.v, for all
   decision sequences (hence all archives and all filesystem outcomes):
   a protocol-respecting sequence of next / read / check / extract calls never
   faults in the ledger (no released header freed or used, no freed decoder
   freed, no pointer to a live decoder overwritten), and lha_reader_free followed
   by freeing the stream after ANY such sequence -- i.e. abandoning the archive at
   any point, also while a re-presented directory or a deferred symlink is
   current -- leaves the ledger empty. *)
From Coq Require Import List Arith Lia Bool PeanoNat.
From Lhasa Require Import Base Reader ReaderMem.
Import ListNotations.

(* ------------------------------------------------------------------ *)
(* The protocol                                                        *)

(* exactly as the property states it: per entry (between two next calls) at most
   one decode operation -- reads in any piece sizes, OR one check, OR one
   extract -- hence at most one extract per entry *)
Inductive seg : Type := SegNone | SegReading | SegDone.
Fixpoint proto_strict (s : seg) (l : list op) : bool :=
  match l with
  | [] => true
  | ONext :: r => proto_strict SegNone r
  | ORead :: r => match s with SegDone => false | _ => proto_strict SegReading r end
  | (OCheck | OExtract) :: r => match s with SegNone => proto_strict SegDone r | _ => false end
  end.
Definition protocol_strict (l : list op) : bool := proto_strict SegNone l.

(* what the theorems need (weaker): a check or an extract is the first decode
   operation of its entry; reads are free *)
Fixpoint proto (fresh : bool) (l : list op) : bool :=
  match l with
  | [] => true
  | ONext :: r => proto true r
  | ORead :: r => proto false r
  | (OCheck | OExtract) :: r => fresh && proto false r
  end.
Definition protocol (l : list op) : bool := proto true l.

Lemma proto_strict_proto s l :
  proto_strict s l = true -> proto (match s with SegNone => true | _ => false end) l = true.
Proof.
  revert s. induction l as [|o r IH]; intros s Hs; [reflexivity|].
  destruct o; simpl in *.
  - apply (IH SegNone Hs).
  - destruct s; try discriminate; apply (IH SegReading Hs).
  - destruct s; try discriminate. simpl. apply (IH SegDone Hs).
  - destruct s; try discriminate. simpl. apply (IH SegDone Hs).
Qed.

Lemma protocol_strict_protocol l : protocol_strict l = true -> protocol l = true.
Proof. intros Hs. apply (proto_strict_proto SegNone l Hs). Qed.

(* abandoning at any point: every prefix of a protocol-respecting sequence is one *)
Lemma proto_prefix f a b : proto f (a ++ b) = true -> proto f a = true.
Proof.
  revert f. induction a as [|o r IH]; intros f Hp; [reflexivity|].
  destruct o; simpl in *.
  - apply (IH _ Hp).
  - apply (IH _ Hp).
  - apply andb_true_iff in Hp. destruct Hp as [Hf Hp]. rewrite Hf. apply (IH _ Hp).
  - apply andb_true_iff in Hp. destruct Hp as [Hf Hp]. rewrite Hf. apply (IH _ Hp).
Qed.

(* ------------------------------------------------------------------ *)
(* Reference counts of a raw heap                                      *)

Definition rcl (hp : list (nat * hinfo)) (i : nat) : nat := fst (nth i hp (0, hinfo0)).

Lemma rc_rcl h i : rc h i = rcl (h_heap h) i.
Proof. reflexivity. Qed.

Lemma rcl_nth_error hp i k :
  rcl hp i = S k -> exists inf, nth_error hp i = Some (S k, inf).
Proof.
  unfold rcl. intros Hr. destruct (nth_error hp i) as [[c inf]|] eqn:E.
  - apply (nth_error_nth _ _ (0, hinfo0)) in E. rewrite E in Hr. simpl in Hr. subst c. eauto.
  - apply nth_error_None in E. rewrite nth_overflow in Hr by exact E. discriminate.
Qed.

Lemma rcl_replace hp i x k inf j :
  nth_error hp i = Some x ->
  rcl (replace_nth hp i (k, inf)) j = if Nat.eqb j i then k else rcl hp j.
Proof.
  revert i j. induction hp as [|y r IH]; intros i j Hn.
  - destruct i; discriminate.
  - destruct i as [|i]; destruct j as [|j]; simpl; try reflexivity.
    simpl in Hn. unfold rcl in *. simpl. apply (IH i j Hn).
Qed.

Lemma rcl_new hp inf j :
  rcl (hp ++ [(1, inf)]) j = if Nat.eqb j (length hp) then 1 else rcl hp j.
Proof.
  unfold rcl. destruct (Nat.eqb j (length hp)) eqn:E.
  - apply Nat.eqb_eq in E. subst j. rewrite app_nth2 by lia. rewrite Nat.sub_diag. reflexivity.
  - apply Nat.eqb_neq in E. destruct (Nat.lt_ge_cases j (length hp)) as [Hlt|Hge].
    + rewrite app_nth1 by exact Hlt. reflexivity.
    + rewrite app_nth2 by lia. rewrite (nth_overflow hp) by lia.
      destruct (j - length hp) as [|d] eqn:Ed; [lia|]. simpl. destruct d; reflexivity.
Qed.

Lemma hfree_spec site h i k :
  rc h i = S k ->
  exists hp, hfree site h i = Ok (set_heap h hp) /\
             forall j, rcl hp j = if Nat.eqb j i then k else rc h j.
Proof.
  intros Hr. rewrite rc_rcl in Hr. destruct (rcl_nth_error _ _ _ Hr) as [inf Hn].
  unfold hfree. rewrite Hn. eexists. split; [reflexivity|].
  intros j. rewrite (rcl_replace _ _ _ _ _ _ Hn). reflexivity.
Qed.

Lemma haddref_spec site h i k :
  rc h i = S k ->
  exists hp, haddref site h i = Ok (set_heap h hp) /\
             forall j, rcl hp j = if Nat.eqb j i then S (S k) else rc h j.
Proof.
  intros Hr. rewrite rc_rcl in Hr. destruct (rcl_nth_error _ _ _ Hr) as [inf Hn].
  unfold haddref. rewrite Hn. eexists. split; [reflexivity|].
  intros j. rewrite (rcl_replace _ _ _ _ _ _ Hn). reflexivity.
Qed.

Lemma huse_spec site h i k : rc h i = S k -> exists inf, huse site h i = Ok inf.
Proof.
  intros Hr. rewrite rc_rcl in Hr. destruct (rcl_nth_error _ _ _ Hr) as [inf Hn].
  unfold huse. rewrite Hn. eauto.
Qed.

(* ------------------------------------------------------------------ *)
(* The header invariant: every count equals the number of references   *)

Definition cnt (o : option nat) (i : nat) : nat :=
  match o with Some j => if Nat.eqb i j then 1 else 0 | None => 0 end.
Definition occ (l : list nat) (i : nat) : nat := count_occ Nat.eq_dec l i.
Arguments occ : simpl never.
Lemma occ_nil i : occ [] i = 0.
Proof. reflexivity. Qed.

Definition is_fake (t : curr_type) : bool :=
  match t with CT_FAKE_DIR | CT_DEFERRED_SYMLINK => true | _ => false end.

(* references other than a fake current entry *)
Definition refs0 (h : hmem) (i : nat) : nat := cnt (h_br h) i + occ (h_stack h) i + occ (h_deferred h) i.
Definition refs (h : hmem) (i : nat) : nat := refs0 h i + (if is_fake (h_type h) then cnt (h_curr h) i else 0).

Record HInv (fresh : bool) (h : hmem) : Prop := {
  hi_rc : forall i, rc h i = refs h i;
  hi_normal : h_type h = CT_NORMAL -> exists c, h_curr h = Some c /\ h_br h = Some c;
  hi_fake : is_fake (h_type h) = true -> exists c, h_curr h = Some c;
  hi_linked : h_linked h = true -> h_type h = CT_NORMAL /\ fresh = false
}.

Lemma occ_cons x l i : occ (x :: l) i = (if Nat.eqb i x then 1 else 0) + occ l i.
Proof.
  unfold occ. simpl. destruct (Nat.eq_dec x i) as [E|E].
  - subst. rewrite Nat.eqb_refl. reflexivity.
  - destruct (Nat.eqb i x) eqn:E2; [apply Nat.eqb_eq in E2; congruence|reflexivity].
Qed.

Lemma occ_insert_at l n x i : occ (insert_at l n x) i = (if Nat.eqb i x then 1 else 0) + occ l i.
Proof.
  revert n. induction l as [|y r IH]; intros n.
  - destruct n; simpl insert_at; apply occ_cons.
  - destruct n as [|n]; simpl insert_at.
    + apply occ_cons.
    + rewrite !occ_cons, IH. lia.
Qed.

Lemma cnt_self c : cnt (Some c) c = 1.
Proof. simpl. rewrite Nat.eqb_refl. reflexivity. Qed.

(* draining a list of references *)
Lemma hfree_all_spec site l : forall h (g : nat -> nat),
  (forall i, rc h i = occ l i + g i) ->
  exists hp, hfree_all site h l = Ok (set_heap h hp) /\ forall i, rcl hp i = g i.
Proof.
  induction l as [|x r IH]; intros h g Hrc.
  - exists (h_heap h). split; [destruct h; reflexivity|]. intros i. rewrite <- rc_rcl, Hrc. reflexivity.
  - assert (Hx : rc h x = S (occ r x + g x)).
    { rewrite Hrc, occ_cons, Nat.eqb_refl. reflexivity. }
    destruct (hfree_spec site h x _ Hx) as [hp [Hf Hhp]].
    simpl. rewrite Hf. simpl.
    destruct (IH (set_heap h hp) g) as [hp2 [Hf2 Hhp2]].
    { intros i. rewrite rc_rcl. simpl. rewrite Hhp, Hrc, occ_cons.
      destruct (Nat.eqb i x) eqn:E; [apply Nat.eqb_eq in E; subst; lia|lia]. }
    exists hp2. split; [rewrite Hf2; destruct h; reflexivity|exact Hhp2].
Qed.

(* ---- lha_reader_next_file, header part ---- *)
Lemma basic_next_file_inv h dc :
  (forall i, rc h i = refs0 h i) ->
  exists h', basic_next_file h dc = Ok h' /\ (forall i, rc h' i = refs0 h' i) /\
             h_linked h' = false /\ h_stack h' = h_stack h /\ h_deferred h' = h_deferred h /\
             h_curr h' = h_curr h /\ h_type h' = h_type h.
Proof.
  intros Hrc. destruct h as [hp br cu ty st df lk]. unfold basic_next_file. simpl in *.
  assert (Hstep1 : exists hp1, (match br with
                     | Some i => h' <- hfree 1501%N (Build_hmem hp br cu ty st df lk) i ;; Ok (set_br h' None false)
                     | None => Ok (set_br (Build_hmem hp br cu ty st df lk) None false)
                     end) = Ok (Build_hmem hp1 None cu ty st df false)
                     /\ forall i, rcl hp1 i = occ st i + occ df i).
  { destruct br as [b|].
    - assert (Hb : rc (Build_hmem hp (Some b) cu ty st df lk) b = S (occ st b + occ df b)).
      { rewrite Hrc. unfold refs0. simpl h_br. rewrite cnt_self. reflexivity. }
      destruct (hfree_spec 1501%N _ _ _ Hb) as [hp1 [Hf Hhp1]]. rewrite Hf. simpl.
      exists hp1. split; [reflexivity|]. intros i. rewrite Hhp1, Hrc. unfold refs0. simpl.
      destruct (Nat.eqb i b) eqn:E; [apply Nat.eqb_eq in E; subst; reflexivity|reflexivity].
    - exists hp. split; [reflexivity|]. intros i. specialize (Hrc i). unfold rc, refs0 in Hrc. simpl in Hrc. exact Hrc. }
  destruct Hstep1 as [hp1 [E1 Hhp1]]. rewrite E1. simpl.
  destruct (dc_header dc) as [inf|]; simpl.
  - eexists. split; [reflexivity|]. simpl. repeat split; try reflexivity.
    intros i. unfold rc, refs0. simpl. fold (rcl (hp1 ++ [(1, inf)]) i). rewrite rcl_new, Hhp1.
    destruct (Nat.eqb i (length hp1)) eqn:E.
    + apply Nat.eqb_eq in E. subst i.
      (* the fresh id is not referenced: its old count is 0 *)
      specialize (Hhp1 (length hp1)). unfold rcl in Hhp1. rewrite nth_overflow in Hhp1 by lia. simpl in Hhp1. lia.
    + reflexivity.
  - eexists. split; [reflexivity|]. simpl. repeat split; try reflexivity.
    intros i. unfold rc, refs0. simpl. fold (rcl hp1 i). rewrite Hhp1. reflexivity.
Qed.

Lemma refs0_pos_rc h i : (forall j, rc h j = refs0 h j) -> 0 < refs0 h i -> exists k, rc h i = S k.
Proof. intros Hrc Hp. rewrite Hrc. destruct (refs0 h i); [lia|eauto]. Qed.

Lemma hnext_select_inv h2 dc :
  (forall i, rc h2 i = refs0 h2 i) -> h_linked h2 = false ->
  exists h', hnext_select h2 dc = Ok h' /\ HInv true h'.
Proof.
  intros Hrc Hl. destruct h2 as [hp br cu ty st df lk]. simpl in Hl. subst lk.
  unfold hnext_select. simpl h_stack. simpl h_br. simpl h_deferred.
  (* the value of pop *)
  assert (Hpop : exists pop, (match st with
            | [] => Ok false
            | top :: _ => match br with
                          | None => Ok true
                          | Some i => _ <- huse 1504%N (Build_hmem hp br cu ty st df false) top ;;
                                      _ <- huse 1505%N (Build_hmem hp br cu ty st df false) i ;; Ok (dc_pop dc)
                          end
            end) = Ok pop /\ (st = [] -> pop = false) /\ (br = None -> st <> [] -> pop = true)).
  { destruct st as [|top rest].
    - exists false. repeat split; intros; congruence.
    - destruct br as [b|].
      + destruct (refs0_pos_rc _ top Hrc) as [k Hk].
        { unfold refs0. simpl. rewrite occ_cons, Nat.eqb_refl. lia. }
        destruct (refs0_pos_rc _ b Hrc) as [k2 Hk2].
        { unfold refs0. simpl h_br. rewrite cnt_self. lia. }
        destruct (huse_spec 1504%N _ _ _ Hk) as [i1 E1]. destruct (huse_spec 1505%N _ _ _ Hk2) as [i2 E2].
        rewrite E1. simpl. rewrite E2. simpl. exists (dc_pop dc). repeat split; intros; congruence.
      + exists true. repeat split; intros; congruence. }
  destruct Hpop as [pop [Ep [Hp1 Hp2]]]. rewrite Ep. simpl.
  assert (Hrc' : forall i, rcl hp i = cnt br i + occ st i + occ df i).
  { intros i. specialize (Hrc i). unfold rc, refs0 in Hrc. simpl in Hrc. exact Hrc. }
  destruct pop.
  - (* a directory is popped *)
    destruct st as [|top rest]; [specialize (Hp1 eq_refl); discriminate|].
    simpl. eexists. split; [reflexivity|]. constructor; simpl.
    + intros i. unfold rc, refs, refs0. simpl. fold (rcl hp i). rewrite Hrc', occ_cons.
      destruct (Nat.eqb i top); lia.
    + intros Hn. discriminate.
    + intros _. eauto.
    + intros Hn. discriminate.
  - destruct br as [b|].
    + (* the input header becomes current *)
      simpl. eexists. split; [reflexivity|]. constructor; simpl.
      * intros i. unfold rc, refs, refs0. simpl. fold (rcl hp i). rewrite Hrc', ?occ_nil. simpl. lia.
      * intros _. eauto.
      * intros Hn. discriminate.
      * intros Hn. discriminate.
    + (* end of input: deferred symlinks, then EOF *)
      assert (Hst : st = []).
      { destruct st as [|x r]; [reflexivity|]. assert (Ht : false = true) by (apply Hp2; congruence). discriminate. }
      subst st. simpl. destruct df as [|l rest]; simpl.
      * eexists. split; [reflexivity|]. constructor; simpl.
        -- intros i. unfold rc, refs, refs0. simpl. fold (rcl hp i). rewrite Hrc', ?occ_nil. simpl. lia.
        -- intros Hn. discriminate.
        -- intros Hn. discriminate.
        -- intros Hn. discriminate.
      * eexists. split; [reflexivity|]. constructor; simpl.
        -- intros i. unfold rc, refs, refs0. simpl. fold (rcl hp i). rewrite Hrc', occ_cons, ?occ_nil. simpl.
           destruct (Nat.eqb i l); lia.
        -- intros Hn. discriminate.
        -- intros _. eauto.
        -- intros Hn. discriminate.
Qed.

Lemma hnext_inv fresh h dc : HInv fresh h -> exists h', hnext h dc = Ok h' /\ HInv true h'.
Proof.
  intros [Hrc Hnorm Hfake Hlink].
  assert (Hplain : is_fake (h_type h) = false -> forall i, rc h i = refs0 h i).
  { intros Hf i. rewrite Hrc. unfold refs. rewrite Hf. lia. }
  assert (Hfk : is_fake (h_type h) = true ->
                exists h', (h2 <- match h_curr h with Some c => hfree 1502%N h c | None => Fault 1503%N end ;;
                            hnext_select h2 dc) = Ok h' /\ HInv true h').
  { intros Hf. destruct (Hfake Hf) as [c Hc]. rewrite Hc.
    assert (Hcr : rc h c = S (refs0 h c)).
    { rewrite Hrc. unfold refs. rewrite Hf, Hc, cnt_self. lia. }
    destruct (hfree_spec 1502%N h c _ Hcr) as [hp [Ef Hhp]]. rewrite Ef. simpl.
    apply hnext_select_inv.
    - intros i. rewrite rc_rcl. simpl. rewrite Hhp. destruct h as [hp0 br cu ty st df lk]. simpl in *.
      unfold refs0. simpl. destruct (Nat.eqb i c) eqn:E.
      + apply Nat.eqb_eq in E. subst i. reflexivity.
      + specialize (Hrc i). unfold refs, refs0 in Hrc. simpl in Hrc. rewrite Hf in Hrc. subst cu.
        simpl in Hrc. rewrite E in Hrc. unfold rc in *. simpl in *. lia.
    - destruct h as [hp0 br cu ty st df lk]. simpl in *. destruct lk; [|reflexivity].
      destruct (Hlink eq_refl) as [Hn _]. subst ty. discriminate. }
  unfold hnext. destruct (h_type h) eqn:Ety.
  - destruct (basic_next_file_inv h dc (Hplain eq_refl)) as [h1 [E1 [Hrc1 [Hl1 _]]]].
    rewrite E1. simpl. apply (hnext_select_inv h1 dc Hrc1 Hl1).
  - destruct (basic_next_file_inv h dc (Hplain eq_refl)) as [h1 [E1 [Hrc1 [Hl1 _]]]].
    rewrite E1. simpl. apply (hnext_select_inv h1 dc Hrc1 Hl1).
  - apply (Hfk eq_refl).
  - apply (Hfk eq_refl).
  - exists h. split; [reflexivity|]. constructor.
    + exact Hrc.
    + intros Hn. rewrite Ety in Hn. discriminate.
    + intros Hn. rewrite Ety in Hn. discriminate.
    + intros Hl. destruct (Hlink Hl) as [Hn _]. discriminate.
Qed.

Lemma HInv_weaken f h : HInv f h -> HInv false h.
Proof.
  intros [Hrc Hn Hf Hl]. constructor; try assumption.
  intros Hlk. destruct (Hl Hlk) as [Ht _]. split; [exact Ht|reflexivity].
Qed.

Lemma HInv_fresh_unlinked h : HInv true h -> h_linked h = false.
Proof.
  intros [_ _ _ Hl]. destruct (h_linked h); [|reflexivity]. destruct (Hl eq_refl) as [_ Hc]. discriminate.
Qed.

(* reader->curr_file can be read: it is referenced *)
Lemma curr_rc f h :
  HInv f h -> (h_type h = CT_NORMAL \/ is_fake (h_type h) = true) ->
  exists c k, h_curr h = Some c /\ rc h c = S k.
Proof.
  intros [Hrc Hn Hf _] [Ht|Ht].
  - destruct (Hn Ht) as [c [Hc Hb]]. exists c. rewrite Hrc. unfold refs, refs0. rewrite Hb, cnt_self.
    eexists. split; [exact Hc|]. simpl. reflexivity.
  - destruct (Hf Ht) as [c Hc]. exists c. rewrite Hrc. unfold refs. rewrite Ht, Hc, cnt_self.
    eexists. split; [reflexivity|]. rewrite Nat.add_comm. simpl. reflexivity.
Qed.

Lemma curr_info_ok site f m :
  HInv f (m_h m) -> (h_type (m_h m) = CT_NORMAL \/ is_fake (h_type (m_h m)) = true) ->
  exists c inf k, curr_info site m = Ok (c, inf) /\ h_curr (m_h m) = Some c /\ rc (m_h m) c = S k.
Proof.
  intros Hi Ht. destruct (curr_rc f _ Hi Ht) as [c [k [Hc Hk]]].
  destruct (huse_spec site _ _ _ Hk) as [inf Hu].
  exists c, inf, k. unfold curr_info. rewrite Hc, Hu. simpl. auto.
Qed.

(* ------------------------------------------------------------------ *)
(* The decoder invariant                                               *)

Definition dclear (d : dmem) : Prop := d_decoder d = None /\ d_inner_p d = None /\ d_live d = [].

Definition DInv (fresh : bool) (d : dmem) : Prop :=
  d_overwrote d = false /\
  (dclear d \/
   (fresh = false /\
    ((exists a, d_decoder d = Some a /\ d_inner_p d = Some a /\ d_live d = [a]) \/
     (exists o i, Nat.eqb o i = false /\ d_decoder d = Some o /\ d_inner_p d = Some i /\ d_live d = [o; i])))).

Lemma DInv_weaken f d : DInv f d -> DInv false d.
Proof.
  intros [Ho [Hc|[_ Hs]]]; split; auto.
Qed.

Lemma DInv_fresh_clear d : DInv true d -> dclear d.
Proof. intros [_ [Hc|[Hf _]]]; [exact Hc|discriminate]. Qed.

Lemma close_decoder_inv f d : DInv f d -> exists d', close_decoder_m d = Ok d' /\ DInv true d'.
Proof.
  intros [Ho Hs]. destruct d as [dec inn live nx ow]. simpl in Ho. subst ow.
  destruct Hs as [[Hd [Hi Hl]]|[_ [[a [Hd [Hi Hl]]]|[o [i [Hne [Hd [Hi Hl]]]]]]]]; simpl in *; subst.
  - eexists. split; [reflexivity|]. split; [reflexivity|]. left. repeat split.
  - unfold close_decoder_m, dfree. simpl. repeat (rewrite ?Nat.eqb_refl; simpl).
    eexists. split; [reflexivity|]. split; [reflexivity|]. left. repeat split.
  - unfold close_decoder_m, dfree. simpl. repeat (rewrite ?Nat.eqb_refl, ?Hne; simpl).
    eexists. split; [reflexivity|]. split; [reflexivity|]. left. repeat split.
Qed.

Lemma eqb_succ_self n : Nat.eqb (S n) n = false.
Proof. apply Nat.eqb_neq. lia. Qed.

Lemma open_decoder_inv d inf dc :
  d_overwrote d = false -> dclear d ->
  exists ok d', open_decoder_m d inf dc = Ok (ok, d') /\ DInv false d'.
Proof.
  intros Ho [Hd [Hi Hl]]. destruct d as [dec inn live nx ow]. simpl in *. subst.
  unfold open_decoder_m, DInv, dclear. destruct (hi_known inf); simpl.
  - destruct (hi_mac inf); simpl.
    + destruct (dc_pt_ok dc); simpl.
      * eexists _, _. split; [reflexivity|]. simpl. repeat (rewrite ?Nat.eqb_refl; simpl).
        split; [reflexivity|]. right. split; [reflexivity|]. right.
        exists (S nx), nx. repeat split. apply eqb_succ_self.
      * unfold dfree. simpl. repeat (rewrite ?Nat.eqb_refl; simpl).
        eexists _, _. split; [reflexivity|]. simpl. split; [reflexivity|]. left. repeat split.
    + eexists _, _. split; [reflexivity|]. simpl. repeat (rewrite ?Nat.eqb_refl; simpl).
      split; [reflexivity|]. right. split; [reflexivity|]. left.
      exists nx. repeat split.
  - eexists _, _. split; [reflexivity|]. simpl. split; [reflexivity|]. left. repeat split.
Qed.

(* ------------------------------------------------------------------ *)
(* The invariant of the whole ledger                                   *)

Record Inv (fresh : bool) (m : mem) : Prop := {
  iv_h : HInv fresh (m_h m);
  iv_d : DInv fresh (m_d m);
  iv_tmp : m_tmp m = 0;
  iv_files : m_files m = 0;
  iv_structs : m_structs m = 3
}.

Lemma Inv_weaken f m : Inv f m -> Inv false m.
Proof.
  intros [Hh Hd Ht Hf Hs]. constructor; auto; [apply (HInv_weaken f _ Hh)|apply (DInv_weaken f _ Hd)].
Qed.

Lemma Inv_new plain : Inv true (mem_new plain).
Proof.
  constructor; simpl; auto.
  - constructor; simpl; try discriminate. intros i. unfold rc. simpl. destruct i; reflexivity.
  - split; [reflexivity|]. left. repeat split.
Qed.

Lemma m_next_inv f m dc : Inv f m -> exists m', m_next m dc = Ok m' /\ Inv true m'.
Proof.
  intros [Hh Hd Ht Hf Hs]. unfold m_next.
  destruct (close_decoder_inv f _ Hd) as [d1 [E1 Hd1]]. rewrite E1. simpl.
  destruct (hnext_inv f _ dc Hh) as [h1 [E2 Hh1]]. rewrite E2. simpl.
  eexists. split; [reflexivity|]. constructor; simpl; auto.
Qed.

(* open_decoder with both decoder pointers NULL *)
Lemma m_open_inv f m dc :
  HInv f (m_h m) -> d_overwrote (m_d m) = false -> dclear (m_d m) ->
  exists ok m', m_open m dc = Ok (ok, m') /\ m_h m' = m_h m /\ DInv false (m_d m') /\
                m_tmp m' = m_tmp m /\ m_files m' = m_files m /\ m_structs m' = m_structs m /\
                m_plain m' = m_plain m.
Proof.
  intros Hh Ho Hc. unfold m_open. destruct (h_type (m_h m)) eqn:Ety;
    try (exists false, m; split; [reflexivity|]; split; [reflexivity|];
         split; [split; [exact Ho|left; exact Hc]|]; repeat split; fail).
  destruct (curr_info_ok 1530%N f m Hh (or_introl Ety)) as [c [inf [k [Ei _]]]]. rewrite Ei. simpl.
  destruct (open_decoder_inv _ inf dc Ho Hc) as [ok [d1 [Eo Hd1]]]. rewrite Eo. simpl.
  exists ok. eexists. split; [reflexivity|]. simpl.
  split; [reflexivity|]. split; [exact Hd1|]. repeat split.
Qed.

Lemma m_read_inv f m dc : Inv f m -> exists m', m_read m dc = Ok m' /\ Inv false m'.
Proof.
  intros Hi. pose proof (Inv_weaken f m Hi) as Hw. destruct Hi as [Hh Hd Ht Hf Hs].
  unfold m_read. destruct Hd as [Ho [Hc|[_ [[a [Ea [Eb El]]]|[o [i [Hne [Ea [Eb El]]]]]]]]].
  - destruct Hc as [Ec1 [Ec2 Ec3]]. rewrite Ec1.
    destruct (m_open_inv f m dc Hh Ho (conj Ec1 (conj Ec2 Ec3))) as [ok [m1 [E1 [Eh [Hd1 [E2 [E3 [E4 E5]]]]]]]].
    rewrite E1. simpl. exists m1. split; [reflexivity|]. constructor; try congruence.
    rewrite Eh. apply (HInv_weaken f _ Hh).
  - rewrite Ea, El. simpl. rewrite Nat.eqb_refl. simpl. exists m. split; [reflexivity|exact Hw].
  - rewrite Ea, El. simpl. rewrite Nat.eqb_refl. simpl. exists m. split; [reflexivity|exact Hw].
Qed.

Lemma m_check_inv m dc : Inv true m -> exists m', m_check m dc = Ok m' /\ Inv false m'.
Proof.
  intros Hi. pose proof (Inv_weaken true m Hi) as Hw. destruct Hi as [Hh Hd Ht Hf Hs].
  pose proof (DInv_fresh_clear _ Hd) as Hc. destruct Hd as [Ho _].
  unfold m_check. destruct (h_type (m_h m)) eqn:Ety; try (exists m; split; [reflexivity|exact Hw]).
  destruct (curr_info_ok 1532%N true m Hh (or_introl Ety)) as [c [inf [k [Ei _]]]]. rewrite Ei. simpl.
  destruct (hi_kind inf); try (exists m; split; [reflexivity|exact Hw]).
  destruct (m_open_inv true m dc Hh Ho Hc) as [ok [m1 [E1 [Eh [Hd1 [E2 [E3 [E4 E5]]]]]]]].
  rewrite E1. simpl. exists m1. split; [reflexivity|]. constructor; try congruence.
  rewrite Eh. apply (HInv_weaken true _ Hh).
Qed.

(* curr_file->_next = ...; add_ref: the entry joins a list *)
Lemma hlink_inv site h c k st df :
  HInv true h -> h_type h = CT_NORMAL -> h_curr h = Some c -> rc h c = S k ->
  (forall i, occ st i + occ df i = (if Nat.eqb i c then 1 else 0) + occ (h_stack h) i + occ (h_deferred h) i) ->
  exists h', hlink site h c st df = Ok h' /\ HInv false h'.
Proof.
  intros Hh Ety Hc Hk Hocc. pose proof (HInv_fresh_unlinked _ Hh) as Hl.
  destruct Hh as [Hrc Hn Hf _]. unfold hlink. rewrite Hl.
  destruct (haddref_spec (site + 1)%N h c k Hk) as [hp [Ea Hhp]]. rewrite Ea. simpl.
  eexists. split; [reflexivity|].
  destruct h as [hp0 br cu ty st0 df0 lk]. simpl in *. subst ty cu.
  constructor; simpl.
  - intros i. unfold rc, refs, refs0. simpl. fold (rcl hp i). rewrite Hhp.
    specialize (Hrc i). unfold refs, refs0 in Hrc. simpl in Hrc. specialize (Hocc i).
    destruct (Nat.eqb i c) eqn:E.
    + apply Nat.eqb_eq in E. subst i. rewrite Hk in Hrc. lia.
    + lia.
  - intros _. apply Hn. reflexivity.
  - intros Hx. discriminate.
  - intros _. split; reflexivity.
Qed.

Lemma m_extract_inv m dc : Inv true m -> exists m', m_extract m dc = Ok m' /\ Inv false m'.
Proof.
  intros Hi. pose proof (Inv_weaken true m Hi) as Hw. destruct Hi as [Hh Hd Ht Hf Hs].
  pose proof (DInv_fresh_clear _ Hd) as Hc. pose proof Hd as [Ho _].
  unfold m_extract. destruct (h_type (m_h m)) eqn:Ety; try (exists m; split; [reflexivity|exact Hw]).
  - (* NORMAL *)
    destruct (curr_info_ok 1533%N true m Hh (or_introl Ety)) as [c [inf [k [Ei [Ecur Hk]]]]]. rewrite Ei. simpl.
    destruct (hi_kind inf) as [| |dangerous].
    + (* a file *)
      assert (Hopen : forall m0, m_h m0 = m_h m -> m_d m0 = m_d m -> m_files m0 = 0 -> m_structs m0 = 3 ->
                exists ok m1, m_open m0 dc = Ok (ok, m1) /\ m_h m1 = m_h m /\ DInv false (m_d m1) /\
                              m_tmp m1 = m_tmp m0 /\ m_files m1 = 0 /\ m_structs m1 = 3).
      { intros m0 E1 E2 E3 E4.
        destruct (m_open_inv true m0 dc) as [ok [m1 [Eo [Eh [Hd1 [F1 [F2 [F3 F4]]]]]]]];
          [rewrite E1; exact Hh|rewrite E2; exact Ho|rewrite E2; exact Hc|].
        exists ok, m1. split; [exact Eo|]. split; [congruence|]. split; [exact Hd1|]. repeat split; congruence. }
      unfold tmp_alloc, tmp_free. destruct (dc_explicit dc).
      * destruct (Hopen m eq_refl eq_refl Hf Hs) as [ok [m1 [Eo [Eh [Hd1 [F1 [F2 F3]]]]]]]. rewrite Eo. simpl.
        eexists. split; [reflexivity|].
        destruct (ok && dc_fopen_ok dc); constructor; simpl; try congruence;
          rewrite Eh; apply (HInv_weaken true _ Hh).
      * destruct (Hopen (mk m (m_h m) (m_d m) (S (m_tmp m)) (m_files m)) eq_refl eq_refl Hf Hs)
          as [ok [m1 [Eo [Eh [Hd1 [F1 [F2 F3]]]]]]]. rewrite Eo. simpl.
        eexists. split; [reflexivity|]. simpl in F1.
        destruct (ok && dc_fopen_ok dc); constructor; simpl; try congruence;
          try (rewrite Eh; apply (HInv_weaken true _ Hh)); rewrite F1, Ht; reflexivity.
    + (* a directory *)
      destruct (dc_mkdir_ok dc && negb (m_plain m)); [|exists m; split; [reflexivity|exact Hw]].
      destruct (hlink_inv 1513%N (m_h m) c k (c :: h_stack (m_h m)) (h_deferred (m_h m)) Hh Ety Ecur Hk)
        as [h1 [El Hh1]].
      { intros i. rewrite occ_cons. lia. }
      rewrite El. simpl. eexists. split; [reflexivity|]. constructor; simpl; auto. apply (DInv_weaken true _ Hd).
    + (* a symbolic link *)
      unfold tmp_alloc, tmp_free.
      assert (Hlk : forall m0, m_h m0 = m_h m ->
                exists h1, hlink 1511%N (m_h m0) c (h_stack (m_h m0)) (insert_at (h_deferred (m_h m0)) (dc_pos dc) c) = Ok h1
                           /\ HInv false h1).
      { intros m0 E0. rewrite E0. apply (hlink_inv 1511%N (m_h m) c k); auto.
        intros i. rewrite occ_insert_at. lia. }
      destruct dangerous; [destruct (dc_fopen_ok dc)|]; destruct (dc_explicit dc);
        try (eexists; split; [reflexivity|]; constructor; simpl; auto;
             [apply (HInv_weaken true _ Hh)|apply (DInv_weaken true _ Hd)]).
      * destruct (Hlk m eq_refl) as [h1 [El Hh1]]. rewrite El. simpl.
        eexists. split; [reflexivity|]. constructor; simpl; auto. apply (DInv_weaken true _ Hd).
      * destruct (Hlk (mk m (m_h m) (m_d m) (S (m_tmp m)) (m_files m)) eq_refl) as [h1 [El Hh1]].
        simpl in El. simpl. rewrite El. simpl.
        eexists. split; [reflexivity|]. constructor; simpl; auto. apply (DInv_weaken true _ Hd).
  - (* a re-presented directory *)
    destruct (curr_info_ok 1534%N true m Hh (or_intror (f_equal is_fake Ety))) as [c [inf [k [Ei _]]]].
    rewrite Ei. simpl. exists m. split; [reflexivity|exact Hw].
  - (* a deferred symbolic link *)
    destruct (curr_info_ok 1535%N true m Hh (or_intror (f_equal is_fake Ety))) as [c [inf [k [Ei _]]]].
    rewrite Ei. simpl. unfold tmp_alloc, tmp_free. destruct (dc_explicit dc).
    + exists m. split; [reflexivity|exact Hw].
    + eexists. split; [reflexivity|]. destruct Hw as [W1 W2 W3 W4 W5]. constructor; simpl; auto.
Qed.

(* ------------------------------------------------------------------ *)
(* lha_reader_free, lha_basic_reader_free, lha_input_stream_free       *)

Lemma hfree_reader_inv f h :
  HInv f h -> exists h', hfree_reader h = Ok h' /\ forall i, rc h' i = 0.
Proof.
  intros [Hrc Hn Hf _]. destruct h as [hp br cu ty st df lk]. unfold hfree_reader. simpl in *.
  set (fk := fun i => if is_fake ty then cnt cu i else 0).
  destruct (hfree_all_spec 1506%N st (Build_hmem hp br cu ty st df lk) (fun i => cnt br i + occ df i + fk i))
    as [hp1 [E1 H1]].
  { intros i. rewrite Hrc. unfold refs, refs0, fk. simpl. lia. }
  rewrite E1. unfold set_heap. simpl.
  destruct (hfree_all_spec 1507%N df (Build_hmem hp1 br cu ty st df lk) (fun i => cnt br i + fk i))
    as [hp2 [E2 H2]].
  { intros i. unfold rc. simpl. fold (rcl hp1 i). rewrite H1. lia. }
  rewrite E2. unfold set_heap. simpl.
  assert (E3 : exists hp3, (match ty with
                 | CT_FAKE_DIR | CT_DEFERRED_SYMLINK =>
                   match cu with Some c => hfree 1508 (Build_hmem hp2 br cu ty st df lk) c | None => Fault 1509 end
                 | _ => Ok (Build_hmem hp2 br cu ty st df lk)
                 end) = Ok (Build_hmem hp3 br cu ty st df lk) /\ forall i, rcl hp3 i = cnt br i).
  { assert (Hnf : is_fake ty = false -> forall i, rcl hp2 i = cnt br i).
    { intros Hx i. rewrite H2. unfold fk. rewrite Hx. lia. }
    assert (Hfk : is_fake ty = true -> exists hp3,
              match cu with Some c => hfree 1508 (Build_hmem hp2 br cu ty st df lk) c | None => Fault 1509 end
              = Ok (Build_hmem hp3 br cu ty st df lk) /\ forall i, rcl hp3 i = cnt br i).
    { intros Hx. destruct (Hf Hx) as [c Hc]. subst cu.
      assert (Hk : rc (Build_hmem hp2 br (Some c) ty st df lk) c = S (cnt br c)).
      { unfold rc. simpl. fold (rcl hp2 c). rewrite H2. unfold fk. rewrite Hx, cnt_self. lia. }
      destruct (hfree_spec 1508%N _ c _ Hk) as [hp3 [Ef H3]]. rewrite Ef. exists hp3. split; [reflexivity|].
      intros i. rewrite H3. unfold rc. simpl. fold (rcl hp2 i). rewrite H2. unfold fk. rewrite Hx. simpl.
      destruct (Nat.eqb i c) eqn:E; [apply Nat.eqb_eq in E; subst; reflexivity|lia]. }
    destruct ty; try (exists hp2; split; [reflexivity|apply Hnf; reflexivity]); apply Hfk; reflexivity. }
  destruct E3 as [hp3 [E3 H3]]. rewrite E3. simpl.
  destruct br as [b|]; simpl.
  - assert (Hk : rc (Build_hmem hp3 (Some b) cu ty st df lk) b = 1).
    { unfold rc. simpl. fold (rcl hp3 b). rewrite H3, cnt_self. reflexivity. }
    destruct (hfree_spec 1510%N _ b _ Hk) as [hp4 [Ef H4]]. rewrite Ef. simpl.
    eexists. split; [reflexivity|]. intros i. unfold rc. simpl. fold (rcl hp4 i). rewrite H4.
    destruct (Nat.eqb i b) eqn:E; [reflexivity|]. unfold rc. simpl. fold (rcl hp3 i). rewrite H3. simpl. rewrite E. reflexivity.
  - eexists. split; [reflexivity|]. intros i. unfold rc. simpl. fold (rcl hp3 i). rewrite H3. reflexivity.
Qed.

Lemma m_free_inv f m :
  Inv f m -> exists m', m_free_reader m = Ok m' /\ ledger_empty (m_free_stream m').
Proof.
  intros [Hh Hd Ht Hf Hs]. unfold m_free_reader.
  destruct (close_decoder_inv f _ Hd) as [d1 [E1 Hd1]]. rewrite E1. simpl.
  destruct (hfree_reader_inv f _ Hh) as [h1 [E2 Hh1]]. rewrite E2. simpl.
  eexists. split; [reflexivity|]. unfold ledger_empty. simpl.
  destruct (DInv_fresh_clear _ Hd1) as [_ [_ Hl]]. rewrite Hs. repeat split; auto.
Qed.

(* ------------------------------------------------------------------ *)
(* Property C20 over the ledger                                        *)

Lemma run_inv : forall (l : list (op * decision)) f m,
  Inv f m -> proto f (map fst l) = true ->
  exists f' m', m_run m l = Ok m' /\ Inv f' m'.
Proof.
  induction l as [|[o dc] r IH]; intros f m Hi Hp.
  - exists f, m. split; [reflexivity|exact Hi].
  - simpl in Hp. simpl m_run. destruct o; simpl m_step.
    + destruct (m_next_inv f m dc Hi) as [m1 [E1 Hi1]]. rewrite E1. simpl. apply (IH true m1 Hi1 Hp).
    + destruct (m_read_inv f m dc Hi) as [m1 [E1 Hi1]]. rewrite E1. simpl. apply (IH false m1 Hi1 Hp).
    + apply andb_true_iff in Hp. destruct Hp as [Hf Hp]. subst f.
      destruct (m_check_inv m dc Hi) as [m1 [E1 Hi1]]. rewrite E1. simpl. apply (IH false m1 Hi1 Hp).
    + apply andb_true_iff in Hp. destruct Hp as [Hf Hp]. subst f.
      destruct (m_extract_inv m dc Hi) as [m1 [E1 Hi1]]. rewrite E1. simpl. apply (IH false m1 Hi1 Hp).
Qed.

(* (a) A protocol-respecting sequence never faults in the ledger: no released
   header is freed or used, no freed decoder is freed, no pointer to a live
   decoder is overwritten, no entry is linked into a list twice -- whatever the
   archive and the filesystem decide. *)
Theorem C20_ledger_never_faults :
  forall (plain : bool) (l : list (op * decision)),
    protocol (map fst l) = true ->
    exists m, m_run (mem_new plain) l = Ok m /\ d_overwrote (m_d m) = false.
Proof.
  intros plain l Hp. destruct (run_inv l true (mem_new plain) (Inv_new plain) Hp) as [f [m [E Hi]]].
  exists m. split; [exact E|]. destruct Hi as [_ [Ho _] _ _ _]. exact Ho.
Qed.

(* (b) After lha_reader_free and lha_input_stream_free following ANY
   protocol-respecting sequence (every prefix of one is one: proto_prefix), the
   ledger is empty: every header released, no live decoder, no temporary string,
   no open file, no struct. *)
Theorem C20_everything_released :
  forall (plain : bool) (l : list (op * decision)),
    protocol (map fst l) = true ->
    exists m m', m_run (mem_new plain) l = Ok m /\ m_free_reader m = Ok m' /\
                 ledger_empty (m_free_stream m').
Proof.
  intros plain l Hp. destruct (run_inv l true (mem_new plain) (Inv_new plain) Hp) as [f [m [E Hi]]].
  destruct (m_free_inv f m Hi) as [m' [Ef He]]. exists m, m'. auto.
Qed.

(* the same for the protocol exactly as the property words it *)
Corollary C20_everything_released_strict :
  forall (plain : bool) (l : list (op * decision)),
    protocol_strict (map fst l) = true ->
    exists m m', m_run (mem_new plain) l = Ok m /\ m_free_reader m = Ok m' /\
                 ledger_empty (m_free_stream m').
Proof. intros plain l Hp. apply C20_everything_released. apply protocol_strict_protocol. exact Hp. Qed.

(* an empty ledger means the allocator holds nothing *)
Lemma header_blocks_zero hp : (forall i, rcl hp i = 0) -> fold_right (fun c acc => (match fst c with O => 0 | S _ => hi_blocks (snd c) end) + acc) 0 hp = 0.
Proof.
  induction hp as [|[c inf] r IH]; intros Hz; [reflexivity|].
  simpl. pose proof (Hz 0) as H0. unfold rcl in H0. simpl in H0. subst c. simpl.
  apply IH. intros i. apply (Hz (S i)).
Qed.

Theorem ledger_empty_no_blocks m : ledger_empty m -> live_blocks m = 0 /\ m_files m = 0.
Proof.
  intros [Hz [Hl [Ht [Hf Hs]]]]. unfold live_blocks, header_blocks. rewrite Hl, Ht, Hs.
  rewrite header_blocks_zero; [auto|]. intros i. apply (Hz i).
Qed.

(* ------------------------------------------------------------------ *)
(* (c) The hypotheses are satisfiable and the statement is not trivial *)

Definition ex_dc (h : option hinfo) (pop : bool) : decision :=
  {| dc_header := h; dc_pop := pop; dc_pt_ok := true; dc_explicit := false; dc_mkdir_ok := true;
     dc_fopen_ok := true; dc_pos := 0 |}.
Definition ex_dir : hinfo := {| hi_blocks := 2; hi_kind := K_dir; hi_known := false; hi_mac := false |}.
Definition ex_link : hinfo := {| hi_blocks := 4; hi_kind := K_link true; hi_known := false; hi_mac := false |}.
Definition ex_mac : hinfo := {| hi_blocks := 3; hi_kind := K_file; hi_known := true; hi_mac := true |}.

(* a directory, a dangerous symbolic link in it, a MacOS member in it; all three
   extracted, the member read on; then the directory is re-presented and its
   metadata set; then the deferred link is presented *)
Definition ex_seq : list (op * decision) :=
  [ (ONext, ex_dc (Some ex_dir) false); (OExtract, ex_dc None false);
    (ONext, ex_dc (Some ex_link) false); (OExtract, ex_dc None false);
    (ONext, ex_dc (Some ex_mac) false); (OExtract, ex_dc None false); (ORead, ex_dc None false);
    (ONext, ex_dc None true); (OExtract, ex_dc None false);
    (ONext, ex_dc None false) ].

(* abandoned while the member's two decoders live, the directory waits on the
   stack and the link in the deferred list: 3 structs + 2 + 4 + 3 header blocks
   + 2 decoders; each header is held once (by dir_stack, deferred_symlinks, the basic reader) *)
Example C20_nonvacuous_mid :
  protocol (map fst (firstn 7 ex_seq)) = true /\
  exists m, m_run (mem_new false) (firstn 7 ex_seq) = Ok m /\
            live_blocks m = 14 /\ rc (m_h m) 0 = 1 /\ rc (m_h m) 1 = 1 /\ rc (m_h m) 2 = 1 /\
            length (d_live (m_d m)) = 2 /\
            exists m', m_free_reader m = Ok m' /\ live_blocks (m_free_stream m') = 0.
Proof.
  split; [reflexivity|]. eexists. split; [vm_compute; reflexivity|].
  repeat split; try reflexivity. eexists. split; vm_compute; reflexivity.
Qed.

(* abandoned right after the dangerous link has been extracted: the basic reader and
   the deferred list both hold it *)
Example C20_nonvacuous_shared :
  exists m, m_run (mem_new false) (firstn 4 ex_seq) = Ok m /\ rc (m_h m) 1 = 2 /\ rc (m_h m) 0 = 1 /\
            exists m', m_free_reader m = Ok m' /\ live_blocks (m_free_stream m') = 0.
Proof.
  eexists. split; [vm_compute; reflexivity|]. repeat split; try reflexivity.
  eexists. split; vm_compute; reflexivity.
Qed.

(* abandoned while the deferred symbolic link is current (and, one step earlier,
   while the re-presented directory is) *)
Example C20_nonvacuous_fake_current :
  protocol (map fst ex_seq) = true /\
  (exists m, m_run (mem_new false) (firstn 9 ex_seq) = Ok m /\ h_type (m_h m) = CT_FAKE_DIR /\
             exists m', m_free_reader m = Ok m' /\ live_blocks (m_free_stream m') = 0) /\
  (exists m, m_run (mem_new false) ex_seq = Ok m /\ h_type (m_h m) = CT_DEFERRED_SYMLINK /\
             live_blocks m = 7 /\
             exists m', m_free_reader m = Ok m' /\ live_blocks (m_free_stream m') = 0).
Proof.
  split; [reflexivity|]. split.
  - eexists. split; [vm_compute; reflexivity|]. split; [reflexivity|]. eexists. split; vm_compute; reflexivity.
  - eexists. split; [vm_compute; reflexivity|]. split; [reflexivity|]. split; [reflexivity|].
    eexists. split; vm_compute; reflexivity.
Qed.

(* (d) The protocol is needed: a check after a read on the same member
   overwrites the pointer to the live decoder, which is never freed *)
Definition ex_file : hinfo := {| hi_blocks := 2; hi_kind := K_file; hi_known := true; hi_mac := false |}.
Definition ex_bad : list (op * decision) :=
  [ (ONext, ex_dc (Some ex_file) false); (ORead, ex_dc None false); (OCheck, ex_dc None false) ].

Example C20_protocol_needed_refuted :
  protocol (map fst ex_bad) = false /\
  exists m m', m_run (mem_new false) ex_bad = Ok m /\ d_overwrote (m_d m) = true /\
               m_free_reader m = Ok m' /\ live_blocks (m_free_stream m') = 1.
Proof.
  split; [reflexivity|]. eexists. eexists. split; [vm_compute; reflexivity|].
  split; [reflexivity|]. split; vm_compute; reflexivity.
Qed.

(* extracting one entry twice links it twice: a ledger fault (cf. Reader.v, Fault 1411 / 1414) *)
Example C20_double_extract_faults :
  protocol [ONext; OExtract; OExtract] = false /\
  m_run (mem_new false) [ (ONext, ex_dc (Some ex_link) false); (OExtract, ex_dc None false);
                          (OExtract, ex_dc None false) ] = Fault 1511.
Proof. split; [reflexivity|vm_compute; reflexivity]. Qed.

Print Assumptions C20_ledger_never_faults.
Print Assumptions C20_everything_released.
Print Assumptions C20_everything_released_strict.
Print Assumptions ledger_empty_no_blocks.
Print Assumptions C20_nonvacuous_mid.
Print Assumptions C20_nonvacuous_fake_current.
Print Assumptions C20_protocol_needed_refuted.

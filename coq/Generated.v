(* Generated.v -- REGENERATED from /repo's C sources on every run by
   tools/gen_constants.py.  Do not edit. *)
From Coq Require Import NArith List.
Import ListNotations.
Local Open Scope N_scope.

Definition null_BLOCK_READ_SIZE : N := 1024.
Definition null_max_read : N := 1024.
Definition null_block_size : N := 2048.
Definition null_extra_size : N := 16.
Definition lzs_RING_BUFFER_SIZE : N := 2048.
Definition lzs_START_OFFSET : N := 17.
Definition lzs_THRESHOLD : N := 2.
Definition lzs_OUTPUT_BUFFER_SIZE : N := 17.
Definition lzs_ringbuf_extent : N := 2048.
Definition lzs_max_read : N := 17.
Definition lzs_block_size : N := 2048.
Definition lzs_extra_size : N := 2080.
Definition lz5_RING_BUFFER_SIZE : N := 4096.
Definition lz5_START_OFFSET : N := 18.
Definition lz5_THRESHOLD : N := 3.
Definition lz5_OUTPUT_BUFFER_SIZE : N := 144.
Definition lz5_ringbuf_extent : N := 4096.
Definition lz5_max_read : N := 144.
Definition lz5_block_size : N := 4096.
Definition lz5_extra_size : N := 4120.
Definition lh5_HISTORY_BITS : N := 14.
Definition lh5_OFFSET_BITS : N := 4.
Definition lh5_RING_BUFFER_SIZE : N := 16384.
Definition lh5_NUM_CODES : N := 510.
Definition lh5_MAX_TEMP_CODES : N := 31.
Definition lh5_COPY_THRESHOLD : N := 3.
Definition lh5_OUTPUT_BUFFER_SIZE : N := 16384.
Definition lh5_ringbuf_extent : N := 16384.
Definition lh5_code_tree_extent : N := 1020.
Definition lh5_offset_tree_extent : N := 30.
Definition lh5_tree_element_size : N := 2.
Definition lh5_TREE_NODE_LEAF : N := 32768.
Definition lh5_TEMP_CODE_BITS : N := 5.
Definition lh5_MAX_OFFSET_CODES : N := 15.
Definition lh5_temp_tree_extent : N := 62.
Definition lh4_max_read : N := 16384.
Definition lh4_block_size : N := 4096.
Definition lh4_extra_size : N := 18640.
Definition lh5_max_read : N := 16384.
Definition lh5_block_size : N := 8192.
Definition lh5_extra_size : N := 18640.
Definition lh6_HISTORY_BITS : N := 16.
Definition lh6_OFFSET_BITS : N := 5.
Definition lh6_RING_BUFFER_SIZE : N := 65536.
Definition lh6_NUM_CODES : N := 510.
Definition lh6_MAX_TEMP_CODES : N := 31.
Definition lh6_COPY_THRESHOLD : N := 3.
Definition lh6_OUTPUT_BUFFER_SIZE : N := 65536.
Definition lh6_ringbuf_extent : N := 65536.
Definition lh6_code_tree_extent : N := 1020.
Definition lh6_offset_tree_extent : N := 62.
Definition lh6_tree_element_size : N := 2.
Definition lh6_TREE_NODE_LEAF : N := 32768.
Definition lh6_TEMP_CODE_BITS : N := 5.
Definition lh6_MAX_OFFSET_CODES : N := 31.
Definition lh6_temp_tree_extent : N := 62.
Definition lh6_max_read : N := 65536.
Definition lh6_block_size : N := 32768.
Definition lh6_extra_size : N := 67856.
Definition lh7_HISTORY_BITS : N := 17.
Definition lh7_OFFSET_BITS : N := 5.
Definition lh7_RING_BUFFER_SIZE : N := 131072.
Definition lh7_NUM_CODES : N := 510.
Definition lh7_MAX_TEMP_CODES : N := 31.
Definition lh7_COPY_THRESHOLD : N := 3.
Definition lh7_OUTPUT_BUFFER_SIZE : N := 131072.
Definition lh7_ringbuf_extent : N := 131072.
Definition lh7_code_tree_extent : N := 1020.
Definition lh7_offset_tree_extent : N := 62.
Definition lh7_tree_element_size : N := 2.
Definition lh7_TREE_NODE_LEAF : N := 32768.
Definition lh7_TEMP_CODE_BITS : N := 5.
Definition lh7_MAX_OFFSET_CODES : N := 31.
Definition lh7_temp_tree_extent : N := 62.
Definition lh7_max_read : N := 131072.
Definition lh7_block_size : N := 65536.
Definition lh7_extra_size : N := 133392.
Definition lhx_HISTORY_BITS : N := 20.
Definition lhx_OFFSET_BITS : N := 5.
Definition lhx_RING_BUFFER_SIZE : N := 1048576.
Definition lhx_NUM_CODES : N := 510.
Definition lhx_MAX_TEMP_CODES : N := 31.
Definition lhx_COPY_THRESHOLD : N := 3.
Definition lhx_OUTPUT_BUFFER_SIZE : N := 1048576.
Definition lhx_ringbuf_extent : N := 1048576.
Definition lhx_code_tree_extent : N := 1020.
Definition lhx_offset_tree_extent : N := 62.
Definition lhx_tree_element_size : N := 2.
Definition lhx_TREE_NODE_LEAF : N := 32768.
Definition lhx_TEMP_CODE_BITS : N := 5.
Definition lhx_MAX_OFFSET_CODES : N := 31.
Definition lhx_temp_tree_extent : N := 62.
Definition lhx_max_read : N := 1048576.
Definition lhx_block_size : N := 524288.
Definition lhx_extra_size : N := 1050896.
Definition lk7_HISTORY_BITS : N := 16.
Definition lk7_OFFSET_BITS : N := 6.
Definition lk7_RING_BUFFER_SIZE : N := 65536.
Definition lk7_NUM_CODES : N := 289.
Definition lk7_MAX_TEMP_CODES : N := 31.
Definition lk7_COPY_THRESHOLD : N := 3.
Definition lk7_OUTPUT_BUFFER_SIZE : N := 65536.
Definition lk7_ringbuf_extent : N := 65536.
Definition lk7_code_tree_extent : N := 578.
Definition lk7_offset_tree_extent : N := 126.
Definition lk7_tree_element_size : N := 2.
Definition lk7_TREE_NODE_LEAF : N := 32768.
Definition lk7_TEMP_CODE_BITS : N := 5.
Definition lk7_MAX_OFFSET_CODES : N := 63.
Definition lk7_temp_tree_extent : N := 62.
Definition lk7_max_read : N := 65536.
Definition lk7_block_size : N := 32768.
Definition lk7_extra_size : N := 67104.
Definition lh1_RING_BUFFER_SIZE : N := 4096.
Definition lh1_COPY_THRESHOLD : N := 3.
Definition lh1_OUTPUT_BUFFER_SIZE : N := 4096.
Definition lh1_NUM_CODES : N := 314.
Definition lh1_NUM_TREE_NODES : N := 627.
Definition lh1_NUM_OFFSETS : N := 64.
Definition lh1_MIN_OFFSET_LENGTH : N := 3.
Definition lh1_TREE_REORDER_LIMIT : N := 32768.
Definition lh1_nodes_extent : N := 627.
Definition lh1_leaf_nodes_extent : N := 314.
Definition lh1_groups_extent : N := 627.
Definition lh1_group_leader_extent : N := 627.
Definition lh1_offset_lookup_extent : N := 256.
Definition lh1_offset_lengths_extent : N := 64.
Definition lh1_ringbuf_extent : N := 4096.
Definition lh1_max_read : N := 4096.
Definition lh1_block_size : N := 4096.
Definition lh1_extra_size : N := 12608.
Definition pm2_RING_BUFFER_SIZE : N := 8192.
Definition pm2_OUTPUT_BUFFER_SIZE : N := 256.
Definition pm2_ringbuf_extent : N := 8192.
Definition pm2_code_tree_extent : N := 65.
Definition pm2_offset_tree_extent : N := 17.
Definition pm2_TREE_NODE_LEAF : N := 128.
Definition pm2_CODE_TREE_ELEMENTS : N := 65.
Definition pm2_OFFSET_TREE_ELEMENTS : N := 17.
Definition pm2_tree_element_size : N := 1.
Definition pm2_SIZE_MAX : N := 18446744073709551615.
Definition pma_history_extent : N := 256.
Definition pm2_max_read : N := 256.
Definition pm2_block_size : N := 8192.
Definition pm2_extra_size : N := 8840.
Definition pm2_code_lengths_extent : N := 31.
Definition pm2_offset_lengths_extent : N := 8.
Definition pm1_RING_BUFFER_SIZE : N := 16384.
Definition pm1_MAX_BYTE_BLOCK_LEN : N := 216.
Definition pm1_MAX_COPY_BLOCK_LEN : N := 244.
Definition pm1_OUTPUT_BUFFER_SIZE : N := 460.
Definition pm1_ringbuf_extent : N := 16384.
Definition pm1_byte_decode_tree_row : N := 5.
Definition pm1_max_read : N := 460.
Definition pm1_block_size : N := 2048.
Definition pm1_extra_size : N := 16960.
Definition hdr_COMMON_HEADER_LEN : N := 22.
Definition hdr_LEVEL_0_MIN_HEADER_LEN : N := 22.
Definition hdr_LEVEL_1_MIN_HEADER_LEN : N := 25.
Definition hdr_LEVEL_2_HEADER_LEN : N := 26.
Definition hdr_LEVEL_3_HEADER_LEN : N := 32.
Definition hdr_LEVEL_3_MAX_HEADER_LEN : N := 1048576.
Definition hdr_LEVEL_0_UNIX_EXTENDED_LEN : N := 12.
Definition hdr_LEVEL_0_OS9_EXTENDED_LEN : N := 22.
Definition OS_TYPE_UNKNOWN : N := 0.
Definition OS_TYPE_MSDOS : N := 77.
Definition OS_TYPE_WIN95 : N := 119.
Definition OS_TYPE_WINNT : N := 87.
Definition OS_TYPE_UNIX : N := 85.
Definition OS_TYPE_OS2 : N := 50.
Definition OS_TYPE_MACOS : N := 109.
Definition OS_TYPE_AMIGA : N := 65.
Definition OS_TYPE_ATARI : N := 97.
Definition OS_TYPE_JAVA : N := 74.
Definition OS_TYPE_CPM : N := 67.
Definition OS_TYPE_FLEX : N := 70.
Definition OS_TYPE_RUNSER : N := 82.
Definition OS_TYPE_TOWNSOS : N := 84.
Definition OS_TYPE_OS9 : N := 57.
Definition OS_TYPE_OS9_68K : N := 75.
Definition OS_TYPE_OS386 : N := 51.
Definition OS_TYPE_HUMAN68K : N := 72.
Definition OS_TYPE_LHARK : N := 32.
Definition FILE_UNIX_PERMS : N := 1.
Definition FILE_UNIX_UID_GID : N := 2.
Definition FILE_COMMON_CRC : N := 4.
Definition FILE_WINDOWS_TIMESTAMPS : N := 8.
Definition FILE_OS9_PERMS : N := 16.
Definition hdr_compress_method_extent : N := 6.
Definition sizeof_LHAFileHeader : N := 160.
Definition MAX_SFX_HEADER_LEN : N := 262144.
Definition LEADIN_BUFFER_LEN : N := 24.
Definition leadin_extent : N := 24.
Definition sizeof_LHAInputStream : N := 56.
Definition sizeof_LHABasicReader : N := 32.
Definition sizeof_LHAReader : N := 64.
Definition sizeof_LHADecoder : N := 72.
Definition decoders_count : N := 14.
Definition decoder_max_read_0 : N := 1024.
Definition decoder_block_size_0 : N := 2048.
Definition decoder_extra_size_0 : N := 16.
Definition decoder_max_read_1 : N := 144.
Definition decoder_block_size_1 : N := 4096.
Definition decoder_extra_size_1 : N := 4120.
Definition decoder_max_read_2 : N := 17.
Definition decoder_block_size_2 : N := 2048.
Definition decoder_extra_size_2 : N := 2080.
Definition decoder_max_read_3 : N := 1024.
Definition decoder_block_size_3 : N := 2048.
Definition decoder_extra_size_3 : N := 16.
Definition decoder_max_read_4 : N := 4096.
Definition decoder_block_size_4 : N := 4096.
Definition decoder_extra_size_4 : N := 12608.
Definition decoder_max_read_5 : N := 16384.
Definition decoder_block_size_5 : N := 4096.
Definition decoder_extra_size_5 : N := 18640.
Definition decoder_max_read_6 : N := 16384.
Definition decoder_block_size_6 : N := 8192.
Definition decoder_extra_size_6 : N := 18640.
Definition decoder_max_read_7 : N := 65536.
Definition decoder_block_size_7 : N := 32768.
Definition decoder_extra_size_7 : N := 67856.
Definition decoder_max_read_8 : N := 131072.
Definition decoder_block_size_8 : N := 65536.
Definition decoder_extra_size_8 : N := 133392.
Definition decoder_max_read_9 : N := 1048576.
Definition decoder_block_size_9 : N := 524288.
Definition decoder_extra_size_9 : N := 1050896.
Definition decoder_max_read_10 : N := 65536.
Definition decoder_block_size_10 : N := 32768.
Definition decoder_extra_size_10 : N := 67104.
Definition decoder_max_read_11 : N := 1024.
Definition decoder_block_size_11 : N := 2048.
Definition decoder_extra_size_11 : N := 16.
Definition decoder_max_read_12 : N := 460.
Definition decoder_block_size_12 : N := 2048.
Definition decoder_extra_size_12 : N := 16960.
Definition decoder_max_read_13 : N := 256.
Definition decoder_block_size_13 : N := 8192.
Definition decoder_extra_size_13 : N := 8840.
Definition mb_OUTPUT_BUFFER_SIZE : N := 4096.
Definition mb_MAC_TIME_OFFSET : N := 2082844800.
Definition mb_MBHDR_SIZE : N := 128.
Definition mb_MBHDR_OFF_VERSION : N := 0.
Definition mb_MBHDR_OFF_FILENAME_LEN : N := 1.
Definition mb_MBHDR_OFF_FILENAME : N := 2.
Definition mb_MBHDR_LEN_FILENAME : N := 63.
Definition mb_MBHDR_OFF_ZERO_COMPAT1 : N := 74.
Definition mb_MBHDR_OFF_ZERO_COMPAT2 : N := 82.
Definition mb_MBHDR_OFF_DATA_FORK_LEN : N := 83.
Definition mb_MBHDR_OFF_RES_FORK_LEN : N := 87.
Definition mb_MBHDR_OFF_FILE_MOD_DATE : N := 95.
Definition mb_MBHDR_OFF_COMMENT_LEN : N := 99.
Definition mb_MBHDR_OFF_MACBINARY2_DATA : N := 101.
Definition mb_MBHDR_LEN_MACBINARY2_DATA : N := 27.
Definition mb_header_extent : N := 128.
Definition sizeof_MacBinaryDecoder : N := 152.
Definition macbinary_max_read : N := 4096.
Definition macbinary_block_size : N := 0.
Definition macbinary_extra_size : N := 152.
Definition list_cols_l_count : N := 6.
Definition list_cols_lv_count : N := 7.
Definition list_cols_v_count : N := 8.
Definition list_cols_vv_count : N := 9.
Definition MAX_PROGRESS_LEN : N := 58.

Definition crc16_table : list N :=
  [0; 49345; 49537; 320; 49921; 960; 640; 49729; 50689; 1728; 1920; 51009;
   1280; 50625; 50305; 1088; 52225; 3264; 3456; 52545; 3840; 53185; 52865; 3648;
   2560; 51905; 52097; 2880; 51457; 2496; 2176; 51265; 55297; 6336; 6528; 55617;
   6912; 56257; 55937; 6720; 7680; 57025; 57217; 8000; 56577; 7616; 7296; 56385;
   5120; 54465; 54657; 5440; 55041; 6080; 5760; 54849; 53761; 4800; 4992; 54081;
   4352; 53697; 53377; 4160; 61441; 12480; 12672; 61761; 13056; 62401; 62081; 12864;
   13824; 63169; 63361; 14144; 62721; 13760; 13440; 62529; 15360; 64705; 64897; 15680;
   65281; 16320; 16000; 65089; 64001; 15040; 15232; 64321; 14592; 63937; 63617; 14400;
   10240; 59585; 59777; 10560; 60161; 11200; 10880; 59969; 60929; 11968; 12160; 61249;
   11520; 60865; 60545; 11328; 58369; 9408; 9600; 58689; 9984; 59329; 59009; 9792;
   8704; 58049; 58241; 9024; 57601; 8640; 8320; 57409; 40961; 24768; 24960; 41281;
   25344; 41921; 41601; 25152; 26112; 42689; 42881; 26432; 42241; 26048; 25728; 42049;
   27648; 44225; 44417; 27968; 44801; 28608; 28288; 44609; 43521; 27328; 27520; 43841;
   26880; 43457; 43137; 26688; 30720; 47297; 47489; 31040; 47873; 31680; 31360; 47681;
   48641; 32448; 32640; 48961; 32000; 48577; 48257; 31808; 46081; 29888; 30080; 46401;
   30464; 47041; 46721; 30272; 29184; 45761; 45953; 29504; 45313; 29120; 28800; 45121;
   20480; 37057; 37249; 20800; 37633; 21440; 21120; 37441; 38401; 22208; 22400; 38721;
   21760; 38337; 38017; 21568; 39937; 23744; 23936; 40257; 24320; 40897; 40577; 24128;
   23040; 39617; 39809; 23360; 39169; 22976; 22656; 38977; 34817; 18624; 18816; 35137;
   19200; 35777; 35457; 19008; 19968; 36545; 36737; 20288; 36097; 19904; 19584; 35905;
   17408; 33985; 34177; 17728; 34561; 18368; 18048; 34369; 33281; 17088; 17280; 33601;
   16640; 33217; 32897; 16448].
Definition crc16_table_len : N := 256.
Definition lh1_offset_fdist : list N :=
  [1; 3; 8; 12; 24; 16].
Definition lh1_offset_fdist_len : N := 6.
Definition pm2_history_decode_offset : list N :=
  [0; 8; 16; 32; 64; 96; 128; 192].
Definition pm2_history_decode_offset_len : N := 8.
Definition pm2_history_decode_bits : list N :=
  [3; 3; 4; 5; 5; 5; 6; 6].
Definition pm2_history_decode_bits_len : N := 8.
Definition pm2_copy_decode_offset : list N :=
  [17; 25; 33; 65; 129; 256].
Definition pm2_copy_decode_offset_len : N := 6.
Definition pm2_copy_decode_bits : list N :=
  [3; 3; 5; 6; 7; 0].
Definition pm2_copy_decode_bits_len : N := 6.
Definition pm1_copy_ranges_offset : list N :=
  [0; 64; 0; 64; 576; 2624; 64; 576; 576; 576; 2624; 2624;
   2624; 2624; 2624].
Definition pm1_copy_ranges_offset_len : N := 15.
Definition pm1_copy_ranges_bits : list N :=
  [6; 8; 6; 9; 11; 13; 8; 8; 9; 10; 8; 9;
   10; 11; 12].
Definition pm1_copy_ranges_bits_len : N := 15.
Definition pm1_byte_ranges_offset : list N :=
  [0; 16; 32; 64; 128; 192].
Definition pm1_byte_ranges_offset_len : N := 6.
Definition pm1_byte_ranges_bits : list N :=
  [4; 4; 5; 6; 6; 6].
Definition pm1_byte_ranges_bits_len : N := 6.
Definition pm1_byte_decode_trees : list N :=
  [18; 45; 239; 28; 171; 18; 35; 222; 171; 207; 18; 44;
   210; 171; 239; 18; 162; 210; 188; 239; 18; 162; 194; 189;
   239; 18; 162; 205; 177; 239; 18; 171; 18; 205; 239; 18;
   171; 29; 193; 239; 18; 171; 193; 209; 239; 161; 18; 44;
   222; 191; 161; 29; 28; 177; 239; 161; 18; 45; 239; 188;
   161; 18; 178; 222; 207; 161; 18; 188; 209; 239; 161; 28;
   177; 209; 239; 161; 177; 18; 205; 239; 161; 177; 193; 209;
   239; 18; 28; 222; 171; 0; 18; 162; 205; 190; 0; 18;
   171; 193; 222; 0; 161; 29; 28; 190; 0; 161; 18; 188;
   222; 0; 161; 28; 177; 222; 0; 161; 177; 193; 222; 0;
   29; 28; 171; 0; 0; 28; 161; 189; 0; 0; 18; 171;
   205; 0; 0; 161; 28; 189; 0; 0; 161; 177; 205; 0;
   0; 161; 188; 0; 0; 0; 171; 0; 0; 0; 0; 0;
   0; 0; 0; 0].
Definition pm1_byte_decode_trees_len : N := 160.
Definition COMPRESS_TYPE_DIR : list N :=
  [45; 108; 104; 100; 45].
Definition COMPRESS_TYPE_DIR_len : N := 5.
Definition ext_header_nums : list N :=
  [0; 1; 2; 80; 81; 83; 82; 84; 65; 204].
Definition ext_header_nums_len : N := 10.
Definition ext_header_min_lens : list N :=
  [2; 1; 1; 2; 4; 1; 1; 4; 24; 12].
Definition ext_header_min_lens_len : N := 10.
Definition ext_header_decoder_ids : list N :=
  [0; 1; 2; 3; 4; 5; 6; 7; 8; 9].
Definition ext_header_decoder_ids_len : N := 10.
Definition AMIGA_LHASFX_ID : list N :=
  [76; 104; 65; 83; 70; 88; 32; 86; 49; 46; 50; 44].
Definition AMIGA_LHASFX_ID_len : N := 12.
Definition DECLHA_SFX_ID : list N :=
  [76; 72; 65; 45; 83; 70; 88].
Definition DECLHA_SFX_ID_len : N := 7.
Definition decoder_name_0 : list N :=
  [45; 108; 122; 52; 45].
Definition decoder_name_0_len : N := 5.
Definition decoder_name_1 : list N :=
  [45; 108; 122; 53; 45].
Definition decoder_name_1_len : N := 5.
Definition decoder_name_2 : list N :=
  [45; 108; 122; 115; 45].
Definition decoder_name_2_len : N := 5.
Definition decoder_name_3 : list N :=
  [45; 108; 104; 48; 45].
Definition decoder_name_3_len : N := 5.
Definition decoder_name_4 : list N :=
  [45; 108; 104; 49; 45].
Definition decoder_name_4_len : N := 5.
Definition decoder_name_5 : list N :=
  [45; 108; 104; 52; 45].
Definition decoder_name_5_len : N := 5.
Definition decoder_name_6 : list N :=
  [45; 108; 104; 53; 45].
Definition decoder_name_6_len : N := 5.
Definition decoder_name_7 : list N :=
  [45; 108; 104; 54; 45].
Definition decoder_name_7_len : N := 5.
Definition decoder_name_8 : list N :=
  [45; 108; 104; 55; 45].
Definition decoder_name_8_len : N := 5.
Definition decoder_name_9 : list N :=
  [45; 108; 104; 120; 45].
Definition decoder_name_9_len : N := 5.
Definition decoder_name_10 : list N :=
  [45; 108; 107; 55; 45].
Definition decoder_name_10_len : N := 5.
Definition decoder_name_11 : list N :=
  [45; 112; 109; 48; 45].
Definition decoder_name_11_len : N := 5.
Definition decoder_name_12 : list N :=
  [45; 112; 109; 49; 45].
Definition decoder_name_12_len : N := 5.
Definition decoder_name_13 : list N :=
  [45; 112; 109; 50; 45].
Definition decoder_name_13_len : N := 5.
Definition decoder_names_flat : list N :=
  [45; 108; 122; 52; 45; 45; 108; 122; 53; 45; 45; 108;
   122; 115; 45; 45; 108; 104; 48; 45; 45; 108; 104; 49;
   45; 45; 108; 104; 52; 45; 45; 108; 104; 53; 45; 45;
   108; 104; 54; 45; 45; 108; 104; 55; 45; 45; 108; 104;
   120; 45; 45; 108; 107; 55; 45; 45; 112; 109; 48; 45;
   45; 112; 109; 49; 45; 45; 112; 109; 50; 45].
Definition decoder_names_flat_len : N := 70.
Definition decoder_name_lens : list N :=
  [5; 5; 5; 5; 5; 5; 5; 5; 5; 5; 5; 5;
   5; 5].
Definition decoder_name_lens_len : N := 14.
Definition decoder_type_ids : list N :=
  [0; 1; 2; 0; 3; 4; 5; 6; 7; 8; 9; 0;
   10; 11].
Definition decoder_type_ids_len : N := 14.
Definition list_cols_l_widths : list N :=
  [10; 11; 7; 6; 12; 20].
Definition list_cols_l_widths_len : N := 6.
Definition list_cols_l_handlers : list N :=
  [0; 1; 3; 4; 6; 8].
Definition list_cols_l_handlers_len : N := 6.
Definition list_cols_l_footers : list N :=
  [0; 1; 3; 4; 6; 98].
Definition list_cols_l_footers_len : N := 6.
Definition list_cols_l_ids : list N :=
  [0; 1; 3; 4; 6; 8].
Definition list_cols_l_ids_len : N := 6.
Definition list_cols_l_name_0 : list N :=
  [32; 80; 69; 82; 77; 83; 83; 78].
Definition list_cols_l_name_0_len : N := 8.
Definition list_cols_l_name_1 : list N :=
  [32; 85; 73; 68; 32; 32; 71; 73; 68].
Definition list_cols_l_name_1_len : N := 9.
Definition list_cols_l_name_2 : list N :=
  [32; 32; 32; 83; 73; 90; 69].
Definition list_cols_l_name_2_len : N := 7.
Definition list_cols_l_name_3 : list N :=
  [32; 82; 65; 84; 73; 79].
Definition list_cols_l_name_3_len : N := 6.
Definition list_cols_l_name_4 : list N :=
  [32; 32; 32; 32; 83; 84; 65; 77; 80].
Definition list_cols_l_name_4_len : N := 9.
Definition list_cols_l_name_5 : list N :=
  [32; 32; 32; 32; 32; 32; 32; 78; 65; 77; 69].
Definition list_cols_l_name_5_len : N := 11.
Definition list_cols_lv_widths : list N :=
  [0; 10; 11; 7; 6; 12; 3].
Definition list_cols_lv_widths_len : N := 7.
Definition list_cols_lv_handlers : list N :=
  [9; 0; 1; 3; 4; 6; 10].
Definition list_cols_lv_handlers_len : N := 7.
Definition list_cols_lv_footers : list N :=
  [98; 0; 1; 3; 4; 6; 98].
Definition list_cols_lv_footers_len : N := 7.
Definition list_cols_lv_ids : list N :=
  [10; 0; 1; 3; 4; 6; 11].
Definition list_cols_lv_ids_len : N := 7.
Definition list_cols_lv_name_0 : list N :=
  [].
Definition list_cols_lv_name_0_len : N := 0.
Definition list_cols_lv_name_1 : list N :=
  [32; 80; 69; 82; 77; 83; 83; 78].
Definition list_cols_lv_name_1_len : N := 8.
Definition list_cols_lv_name_2 : list N :=
  [32; 85; 73; 68; 32; 32; 71; 73; 68].
Definition list_cols_lv_name_2_len : N := 9.
Definition list_cols_lv_name_3 : list N :=
  [32; 32; 32; 83; 73; 90; 69].
Definition list_cols_lv_name_3_len : N := 7.
Definition list_cols_lv_name_4 : list N :=
  [32; 82; 65; 84; 73; 79].
Definition list_cols_lv_name_4_len : N := 6.
Definition list_cols_lv_name_5 : list N :=
  [32; 32; 32; 32; 83; 84; 65; 77; 80].
Definition list_cols_lv_name_5_len : N := 9.
Definition list_cols_lv_name_6 : list N :=
  [32; 76; 86].
Definition list_cols_lv_name_6_len : N := 3.
Definition list_cols_v_widths : list N :=
  [10; 11; 7; 7; 6; 10; 12; 13].
Definition list_cols_v_widths_len : N := 8.
Definition list_cols_v_handlers : list N :=
  [0; 1; 2; 3; 4; 5; 6; 8].
Definition list_cols_v_handlers_len : N := 8.
Definition list_cols_v_footers : list N :=
  [0; 1; 2; 3; 4; 98; 6; 98].
Definition list_cols_v_footers_len : N := 8.
Definition list_cols_v_ids : list N :=
  [0; 1; 2; 3; 4; 5; 6; 9].
Definition list_cols_v_ids_len : N := 8.
Definition list_cols_v_name_0 : list N :=
  [32; 80; 69; 82; 77; 83; 83; 78].
Definition list_cols_v_name_0_len : N := 8.
Definition list_cols_v_name_1 : list N :=
  [32; 85; 73; 68; 32; 32; 71; 73; 68].
Definition list_cols_v_name_1_len : N := 9.
Definition list_cols_v_name_2 : list N :=
  [32; 80; 65; 67; 75; 69; 68].
Definition list_cols_v_name_2_len : N := 7.
Definition list_cols_v_name_3 : list N :=
  [32; 32; 32; 83; 73; 90; 69].
Definition list_cols_v_name_3_len : N := 7.
Definition list_cols_v_name_4 : list N :=
  [32; 82; 65; 84; 73; 79].
Definition list_cols_v_name_4_len : N := 6.
Definition list_cols_v_name_5 : list N :=
  [77; 69; 84; 72; 79; 68; 32; 67; 82; 67].
Definition list_cols_v_name_5_len : N := 10.
Definition list_cols_v_name_6 : list N :=
  [32; 32; 32; 32; 83; 84; 65; 77; 80].
Definition list_cols_v_name_6_len : N := 9.
Definition list_cols_v_name_7 : list N :=
  [32; 32; 32; 32; 32; 32; 78; 65; 77; 69].
Definition list_cols_v_name_7_len : N := 10.
Definition list_cols_vv_widths : list N :=
  [0; 10; 11; 7; 7; 6; 10; 19; 3].
Definition list_cols_vv_widths_len : N := 9.
Definition list_cols_vv_handlers : list N :=
  [9; 0; 1; 2; 3; 4; 5; 7; 10].
Definition list_cols_vv_handlers_len : N := 9.
Definition list_cols_vv_footers : list N :=
  [98; 0; 1; 2; 3; 4; 98; 7; 98].
Definition list_cols_vv_footers_len : N := 9.
Definition list_cols_vv_ids : list N :=
  [10; 0; 1; 2; 3; 4; 5; 7; 11].
Definition list_cols_vv_ids_len : N := 9.
Definition list_cols_vv_name_0 : list N :=
  [].
Definition list_cols_vv_name_0_len : N := 0.
Definition list_cols_vv_name_1 : list N :=
  [32; 80; 69; 82; 77; 83; 83; 78].
Definition list_cols_vv_name_1_len : N := 8.
Definition list_cols_vv_name_2 : list N :=
  [32; 85; 73; 68; 32; 32; 71; 73; 68].
Definition list_cols_vv_name_2_len : N := 9.
Definition list_cols_vv_name_3 : list N :=
  [32; 80; 65; 67; 75; 69; 68].
Definition list_cols_vv_name_3_len : N := 7.
Definition list_cols_vv_name_4 : list N :=
  [32; 32; 32; 83; 73; 90; 69].
Definition list_cols_vv_name_4_len : N := 7.
Definition list_cols_vv_name_5 : list N :=
  [32; 82; 65; 84; 73; 79].
Definition list_cols_vv_name_5_len : N := 6.
Definition list_cols_vv_name_6 : list N :=
  [77; 69; 84; 72; 79; 68; 32; 67; 82; 67].
Definition list_cols_vv_name_6_len : N := 10.
Definition list_cols_vv_name_7 : list N :=
  [32; 32; 32; 32; 83; 84; 65; 77; 80].
Definition list_cols_vv_name_7_len : N := 9.
Definition list_cols_vv_name_8 : list N :=
  [32; 76; 86].
Definition list_cols_vv_name_8_len : N := 3.
Definition list_os_name_default : list N :=
  [91; 117; 110; 107; 110; 111; 119; 110; 93].
Definition list_os_name_default_len : N := 9.
Definition list_os_known : list N :=
  [0; 32; 50; 51; 57; 65; 67; 70; 72; 74; 75; 77;
   82; 84; 85; 87; 97; 109; 119].
Definition list_os_known_len : N := 19.
Definition list_os_name_0 : list N :=
  [91; 103; 101; 110; 101; 114; 105; 99; 93].
Definition list_os_name_0_len : N := 9.
Definition list_os_name_32 : list N :=
  [91; 76; 72; 65; 82; 75; 93].
Definition list_os_name_32_len : N := 7.
Definition list_os_name_50 : list N :=
  [91; 79; 83; 47; 50; 93].
Definition list_os_name_50_len : N := 6.
Definition list_os_name_51 : list N :=
  [91; 79; 83; 45; 51; 56; 54; 93].
Definition list_os_name_51_len : N := 8.
Definition list_os_name_57 : list N :=
  [91; 79; 83; 45; 57; 93].
Definition list_os_name_57_len : N := 6.
Definition list_os_name_65 : list N :=
  [91; 65; 109; 105; 103; 97; 93].
Definition list_os_name_65_len : N := 7.
Definition list_os_name_67 : list N :=
  [91; 67; 80; 47; 77; 93].
Definition list_os_name_67_len : N := 6.
Definition list_os_name_70 : list N :=
  [91; 70; 76; 69; 88; 93].
Definition list_os_name_70_len : N := 6.
Definition list_os_name_72 : list N :=
  [91; 72; 117; 109; 97; 110; 54; 56; 75; 93].
Definition list_os_name_72_len : N := 10.
Definition list_os_name_74 : list N :=
  [91; 74; 97; 118; 97; 93].
Definition list_os_name_74_len : N := 6.
Definition list_os_name_75 : list N :=
  [91; 79; 83; 45; 57; 47; 54; 56; 75; 93].
Definition list_os_name_75_len : N := 10.
Definition list_os_name_77 : list N :=
  [91; 77; 83; 45; 68; 79; 83; 93].
Definition list_os_name_77_len : N := 8.
Definition list_os_name_82 : list N :=
  [91; 82; 117; 110; 115; 101; 114; 93].
Definition list_os_name_82_len : N := 8.
Definition list_os_name_84 : list N :=
  [91; 84; 111; 119; 110; 115; 79; 83; 93].
Definition list_os_name_84_len : N := 9.
Definition list_os_name_85 : list N :=
  [91; 85; 110; 105; 120; 93].
Definition list_os_name_85_len : N := 6.
Definition list_os_name_87 : list N :=
  [91; 87; 105; 110; 78; 84; 93].
Definition list_os_name_87_len : N := 7.
Definition list_os_name_97 : list N :=
  [91; 65; 116; 97; 114; 105; 93].
Definition list_os_name_97_len : N := 7.
Definition list_os_name_109 : list N :=
  [91; 77; 97; 99; 32; 79; 83; 93].
Definition list_os_name_109_len : N := 8.
Definition list_os_name_119 : list N :=
  [91; 87; 105; 110; 57; 120; 93].
Definition list_os_name_119_len : N := 7.
Definition list_month_0 : list N :=
  [74; 97; 110].
Definition list_month_0_len : N := 3.
Definition list_month_1 : list N :=
  [70; 101; 98].
Definition list_month_1_len : N := 3.
Definition list_month_2 : list N :=
  [77; 97; 114].
Definition list_month_2_len : N := 3.
Definition list_month_3 : list N :=
  [65; 112; 114].
Definition list_month_3_len : N := 3.
Definition list_month_4 : list N :=
  [77; 97; 121].
Definition list_month_4_len : N := 3.
Definition list_month_5 : list N :=
  [74; 117; 110].
Definition list_month_5_len : N := 3.
Definition list_month_6 : list N :=
  [74; 117; 108].
Definition list_month_6_len : N := 3.
Definition list_month_7 : list N :=
  [65; 117; 103].
Definition list_month_7_len : N := 3.
Definition list_month_8 : list N :=
  [83; 101; 112].
Definition list_month_8_len : N := 3.
Definition list_month_9 : list N :=
  [79; 99; 116].
Definition list_month_9_len : N := 3.
Definition list_month_10 : list N :=
  [78; 111; 118].
Definition list_month_10_len : N := 3.
Definition list_month_11 : list N :=
  [68; 101; 99].
Definition list_month_11_len : N := 3.
Definition PACKAGE_NAME : list N :=
  [76; 104; 97; 115; 97].
Definition PACKAGE_NAME_len : N := 5.
Definition PACKAGE_VERSION : list N :=
  [48; 46; 52; 46; 48].
Definition PACKAGE_VERSION_len : N := 5.

(* P_KindIndep.v -- property C16, input stream / header parser / basic reader:
   the whole iteration over an archive does not depend on the kind of byte
   source (seekable file, pipe, callbacks with or without a skip function).

   C16 (properties.jsonl): "The members an archive yields - headers, data and
   verdicts - are the same whether it is read from a seekable file, a
   non-seekable pipe (including '-' for standard input), or caller-supplied
   callbacks with or without skip support.  They are also unchanged when the
   first header is preceded by up to 255 KiB of bytes that contain neither an
   archive-method signature nor a self-extractor marker, as in self-extracting
   executables, and when such a stub embeds one decoy header after an 'LHA-SFX'
   or 'LhASFX V1.2,' marker."

   [kind_rel]: two input-stream states with the same state, the same lead-in
   buffer and the same bytes left in the source; the KINDS of the two sources
   are arbitrary and the request counters are forgotten.

   1. lha_input_stream_read respects kind_rel (same bytes, related streams);
      lha_input_stream_skip leaves related streams in every case; its success
      flag is the same when the bytes are there, and when they are not it is
      "true" on a seekable file (fseek beyond the end) and "false" on the three
      read-based kinds -- and then the next header read is "no header" on both.
   2. lha_file_header_read respects kind_rel.
   3. lha_basic_reader_next_file respects [br_rel] (kind_rel streams, all other
      fields equal) -- in the truncated case both calls return "no header" and
      both readers have eof set afterwards, so the difference in the flag of the
      skip is absorbed inside the call.  Hence n calls of next_file return the
      same list of headers for any two kinds [headers_same_for_all_kinds].
   4. lha_basic_reader_read_compressed (the decoders' callback) respects br_rel.

   The decoders and the reader layer are in P_KindIndepReader.v.
   The bound 2^40 on the data is the model's fuel for the read-based skip loops.

   Lemmas and theorems only. *)
From Lhasa Require Import Base ListN Loop Generated Crc16 InputStream Header BasicReader
  P_HeaderSafe P_Intact P_StreamEquiv P_BasicReaderIndep.
From Coq Require Import ZifyBool ZifyN ZifyNat.
Local Open Scope N_scope.

(* ------------------------------------------------------------------ *)
(* The relation                                                        *)

Definition kind_rel (a b : istream) : Prop :=
  is_state a = is_state b /\ is_leadin a = is_leadin b /\ so_data (is_src a) = so_data (is_src b).

Lemma kind_rel_refl a : kind_rel a a.
Proof. repeat split. Qed.

Lemma kind_rel_sym a b : kind_rel a b -> kind_rel b a.
Proof. intros (S & L & D). repeat split; congruence. Qed.

Lemma kind_rel_trans a b c : kind_rel a b -> kind_rel b c -> kind_rel a c.
Proof. intros (S & L & D) (S' & L' & D'). repeat split; congruence. Qed.

(* the streams made for the same data are related, whatever the kinds *)
Lemma kind_rel_new k1 k2 data :
  kind_rel (lha_input_stream_new (mk_source k1 data)) (lha_input_stream_new (mk_source k2 data)).
Proof. repeat split. Qed.

(* results of stream operations: same value, related streams *)
Definition rel_k {A} (x y : A * istream) : Prop := fst x = fst y /\ kind_rel (snd x) (snd y).

(* ------------------------------------------------------------------ *)
(* 1a. Reading                                                         *)

Lemma read_ready_kind a b n : kind_rel a b -> rel_k (read_ready a n) (read_ready b n).
Proof.
  destruct a as [sa ta la], b as [sb tb lb]. unfold kind_rel. cbn [is_state is_leadin is_src].
  intros (-> & -> & D). unfold read_ready, rel_k, kind_rel. cbn [is_state is_leadin is_src].
  assert (G : forall t,
    fst (if nlen (firstn_N n lb) <? n
         then let '(got, src') := raw_read sa (n - nlen (firstn_N n lb)) in
              let st2 := {| is_src := src'; is_state := t; is_leadin := skipn_N n lb |} in
              if nlen (firstn_N n lb) + nlen got =? n then (Some (firstn_N n lb ++ got), st2) else (None, st2)
         else (Some (firstn_N n lb), {| is_src := sa; is_state := t; is_leadin := skipn_N n lb |})) =
    fst (if nlen (firstn_N n lb) <? n
         then let '(got, src') := raw_read sb (n - nlen (firstn_N n lb)) in
              let st2 := {| is_src := src'; is_state := t; is_leadin := skipn_N n lb |} in
              if nlen (firstn_N n lb) + nlen got =? n then (Some (firstn_N n lb ++ got), st2) else (None, st2)
         else (Some (firstn_N n lb), {| is_src := sb; is_state := t; is_leadin := skipn_N n lb |})) /\
    kind_rel
     (snd (if nlen (firstn_N n lb) <? n
         then let '(got, src') := raw_read sa (n - nlen (firstn_N n lb)) in
              let st2 := {| is_src := src'; is_state := t; is_leadin := skipn_N n lb |} in
              if nlen (firstn_N n lb) + nlen got =? n then (Some (firstn_N n lb ++ got), st2) else (None, st2)
         else (Some (firstn_N n lb), {| is_src := sa; is_state := t; is_leadin := skipn_N n lb |})))
     (snd (if nlen (firstn_N n lb) <? n
         then let '(got, src') := raw_read sb (n - nlen (firstn_N n lb)) in
              let st2 := {| is_src := src'; is_state := t; is_leadin := skipn_N n lb |} in
              if nlen (firstn_N n lb) + nlen got =? n then (Some (firstn_N n lb ++ got), st2) else (None, st2)
         else (Some (firstn_N n lb), {| is_src := sb; is_state := t; is_leadin := skipn_N n lb |})))).
  { intros t. unfold raw_read. cbv beta iota zeta. rewrite D.
    destruct (nlen (firstn_N n lb) <? n).
    - destruct (nlen (firstn_N n lb) + nlen (firstn_N (n - nlen (firstn_N n lb)) (so_data sb)) =? n);
        cbn [fst snd]; (split; [reflexivity|]); unfold kind_rel; cbn [is_state is_leadin is_src so_data]; auto.
    - cbn [fst snd]. split; [reflexivity|]. unfold kind_rel. cbn [is_state is_leadin is_src]. auto. }
  unfold kind_rel in G. destruct tb.
  - exact (G IS_INIT).
  - exact (G IS_READING).
  - cbn [fst snd is_state is_leadin is_src]. auto.
Qed.

Definition sfx_rel_k (s t : sfx_st) : Prop :=
  so_data (sx_src s) = so_data (sx_src t) /\ sx_leadin s = sx_leadin t /\
  sx_filepos s = sx_filepos t /\ sx_skip s = sx_skip t.
Definition sfx_res_k (x y : bool * source * list N) : Prop :=
  fst (fst x) = fst (fst y) /\ so_data (snd (fst x)) = so_data (snd (fst y)) /\ snd x = snd y.

Lemma sfx_step_kind_rel s t : sfx_rel_k s t -> orel (sum_rel sfx_rel_k sfx_res_k) (sfx_step s) (sfx_step t).
Proof.
  destruct s as [ss sl sp sk], t as [ts tl tp tk]. unfold sfx_rel_k. cbn [sx_src sx_leadin sx_filepos sx_skip].
  intros (D & -> & -> & ->). unfold sfx_step. cbn [sx_src sx_leadin sx_filepos sx_skip].
  destruct (tp <? MAX_SFX_HEADER_LEN).
  2:{ cbn [orel sum_rel]. unfold sfx_res_k. cbn [fst snd]. auto. }
  unfold raw_read. cbv beta iota. rewrite D.
  destruct (firstn_N (LEADIN_BUFFER_LEN - nlen tl) (so_data ts)) as [|g gs].
  { cbn [orel sum_rel]. unfold sfx_res_k. cbn [fst snd so_data]. auto. }
  destruct (leadin_extent <? nlen (tl ++ g :: gs)); [cbn [orel]; reflexivity|].
  apply orel_bind_same. intros [[found i] skip']. cbv beta iota.
  destruct found as [i0|]; cbn [orel sum_rel]; unfold sfx_res_k, sfx_rel_k;
    cbn [fst snd so_data sx_src sx_leadin sx_filepos sx_skip]; auto.
Qed.

(* the self-extractor scan: same verdict, related streams, for any two kinds *)
Theorem skip_sfx_kind_rel a b : kind_rel a b -> orel rel_k (skip_sfx a) (skip_sfx b).
Proof.
  intros (S & L & D). unfold skip_sfx.
  eapply orel_bind.
  - apply (orel_loop sfx_step sfx_step sfx_rel_k sfx_res_k sfx_step_kind_rel).
    unfold sfx_rel_k. cbn [sx_src sx_leadin sx_filepos sx_skip]. auto.
  - intros [[ok s1] l1] [[ok' s2] l2] (H1 & H2 & H3). cbn [fst snd] in *. subst.
    cbn [orel]. unfold rel_k, kind_rel. cbn [fst snd is_leadin is_src is_state]. auto.
Qed.

(* lha_input_stream_read: the same bytes (or the same failure, Fault, OutOfFuel)
   and related streams, whatever the two kinds of source *)
Theorem lha_input_stream_read_kind a b n : kind_rel a b ->
  orel rel_k (lha_input_stream_read a n) (lha_input_stream_read b n).
Proof.
  intros H. unfold lha_input_stream_read.
  eapply orel_bind with (R := kind_rel).
  - pose proof H as (S & L & D). rewrite <- S. destruct (is_state a) eqn:Ea.
    + eapply orel_bind; [apply skip_sfx_kind_rel; exact H|].
      intros [ok a'] [ok' b'] (H1 & H2 & H3 & H4). cbn [fst snd] in *. subst ok'.
      cbn [orel]. unfold kind_rel. cbn [is_src is_state is_leadin]. auto.
    + cbn [orel]. exact H.
    + cbn [orel]. exact H.
  - intros a1 b1 H1. cbn [orel]. apply read_ready_kind. exact H1.
Qed.

(* ------------------------------------------------------------------ *)
(* 1b. Skipping                                                        *)

(* Every case at once.  The streams left behind are related whether or not the
   bytes were there; only the flag depends on the kind. *)
Theorem lha_input_stream_skip_kind a b m : kind_rel a b ->
  m < 1099511627776 \/ nlen (so_data (is_src a)) < 1099511627776 ->
  let D := so_data (is_src a) in
  exists a' b',
    lha_input_stream_skip a m = Ok (skip_succeeds (so_kind (is_src a)) m (nlen D), a') /\
    lha_input_stream_skip b m = Ok (skip_succeeds (so_kind (is_src b)) m (nlen D), b') /\
    kind_rel a' b' /\
    so_data (is_src a') = skipn_N m D /\ is_state a' = is_state a /\ is_leadin a' = is_leadin a.
Proof.
  intros (S & L & Dd) Hb D.
  destruct (lha_input_stream_skip_spec a m Hb) as (sa & Ea & Ka & Da).
  destruct (lha_input_stream_skip_spec b m) as (sb & Eb & Kb & Db); [rewrite <- Dd; exact Hb|].
  eexists _, _. split; [exact Ea|]. split; [rewrite Eb, <- Dd; reflexivity|].
  unfold kind_rel. cbn [is_src is_state is_leadin]. rewrite Da, Db, <- Dd. repeat split; auto.
Qed.

(* the bytes are there: the skip succeeds for all four kinds *)
Corollary lha_input_stream_skip_kind_present a b m : kind_rel a b ->
  m <= nlen (so_data (is_src a)) -> nlen (so_data (is_src a)) < 1099511627776 ->
  exists a' b', lha_input_stream_skip a m = Ok (true, a') /\ lha_input_stream_skip b m = Ok (true, b') /\
                kind_rel a' b'.
Proof.
  intros H Le Hb.
  destruct (lha_input_stream_skip_kind a b m H (or_intror Hb)) as (a' & b' & Ea & Eb & K & _). cbv zeta in *.
  assert (T : forall k, skip_succeeds k m (nlen (so_data (is_src a))) = true).
  { intros k. unfold skip_succeeds. destruct k; auto; apply N.leb_le; exact Le. }
  rewrite T in Ea, Eb. exists a', b'. auto.
Qed.

Definition is_file (k : skind) : bool := match k with KFile => true | _ => false end.

(* The truncated case: fewer than m bytes remain.  The difference between the
   kinds is the flag: a seekable file reports success (fseek beyond the end),
   the three read-based kinds report failure.  No byte is left in either
   stream, the streams are still related, and a header read that follows
   reports "no header" on both (lead-in buffer shorter than a header, which is
   the case whenever a member is current: [br_wf]). *)
Theorem lha_input_stream_skip_kind_truncated mktime a b m : kind_rel a b ->
  nlen (so_data (is_src a)) < m -> nlen (so_data (is_src a)) < 1099511627776 ->
  exists a' b',
    lha_input_stream_skip a m = Ok (is_file (so_kind (is_src a)), a') /\
    lha_input_stream_skip b m = Ok (is_file (so_kind (is_src b)), b') /\
    kind_rel a' b' /\ so_data (is_src a') = [] /\ so_data (is_src b') = [] /\
    (is_state a <> IS_INIT -> nlen (is_leadin a) < 22 ->
     (exists a'', lha_file_header_read mktime a' = Ok (None, a'')) /\
     (exists b'', lha_file_header_read mktime b' = Ok (None, b''))).
Proof.
  intros H Short Hb.
  destruct (lha_input_stream_skip_kind a b m H (or_intror Hb)) as (a' & b' & Ea & Eb & K & Da & Sa & La).
  cbv zeta in *.
  assert (T : forall k, skip_succeeds k m (nlen (so_data (is_src a))) = is_file k).
  { intros k. unfold skip_succeeds, is_file. destruct k; auto; apply N.leb_gt; exact Short. }
  rewrite T in Ea, Eb.
  assert (Da' : so_data (is_src a') = []) by (rewrite Da; apply skipn_N_all; lia).
  assert (Db' : so_data (is_src b') = []) by (destruct K as (_ & _ & Dk); rewrite <- Dk; exact Da').
  exists a', b'. repeat (split; [assumption|]).
  intros NI Ls. destruct K as (Sk & Lk & Dk).
  split; apply header_read_short; try congruence; unfold remaining;
    rewrite ?Da', ?Db', <- ?Lk, ?La, app_nil_r; exact Ls.
Qed.

(* ------------------------------------------------------------------ *)
(* 2. The header parser respects kind_rel                              *)

Ltac kw_leaf := cbn [orel]; unfold rel_k; cbn [fst snd]; split; [reflexivity|assumption].
Ltac kw := repeat first
  [ progress cbv beta iota
  | match goal with
    | |- orel _ (bind ?m _) (bind ?m _) => apply orel_bind_same; intro
    | |- orel _ (if ?c then _ else _) (if ?c then _ else _) => destruct c
    | |- orel _ (match ?x with _ => _ end) (match ?x with _ => _ end) => destruct x
    | |- orel _ (Ok _) (Ok _) => kw_leaf
    | |- orel _ (Fault _) (Fault _) => cbn [orel]; reflexivity
    end ].

Lemma extend_raw_data_kind h a b n : kind_rel a b ->
  orel rel_k (extend_raw_data h a n) (extend_raw_data h b n).
Proof.
  intros H. unfold extend_raw_data.
  destruct (hdr_LEVEL_3_MAX_HEADER_LEN <? n); [kw_leaf|].
  eapply orel_bind; [apply lha_input_stream_read_kind; exact H|].
  intros [r a'] [r' b'] [E S]. cbn [fst snd] in E, S. subst r'. kw.
Qed.

Definition l1_rel_k (s t : header * istream) : Prop := fst s = fst t /\ kind_rel (snd s) (snd t).

Lemma l1_step_kind s t : l1_rel_k s t -> orel (sum_rel l1_rel_k rel_k) (l1_step s) (l1_step t).
Proof.
  destruct s as [h a], t as [h' b]. intros [E S]. cbn [fst snd] in E, S. subst h'. unfold l1_step.
  apply orel_bind_same. intros len.
  destruct (len =? 0).
  { cbn [orel sum_rel]. unfold rel_k. cbn [fst snd]. auto. }
  eapply orel_bind; [apply extend_raw_data_kind; exact S|].
  intros [r a'] [r' b'] [E S']. cbn [fst snd] in E, S'. subst r'. cbv beta iota.
  destruct r as [h1|].
  2:{ cbn [orel sum_rel]. unfold rel_k. cbn [fst snd]. auto. }
  destruct (h_compressed_length h1 <? len).
  { cbn [orel sum_rel]. unfold rel_k. cbn [fst snd]. auto. }
  cbv zeta. destruct (len <? 3); cbn [orel sum_rel]; unfold rel_k, l1_rel_k; cbn [fst snd]; auto.
Qed.

Lemma read_l1_extended_headers_kind h a b : kind_rel a b ->
  orel rel_k (read_l1_extended_headers h a) (read_l1_extended_headers h b).
Proof.
  intros S. unfold read_l1_extended_headers.
  apply (orel_loop l1_step l1_step l1_rel_k rel_k l1_step_kind). split; [reflexivity|exact S].
Qed.

Lemma decode_level0_header_kind mktime h a b : kind_rel a b ->
  orel rel_k (decode_level0_header mktime h a) (decode_level0_header mktime h b).
Proof.
  intros S. unfold decode_level0_header.
  apply orel_bind_same. intros header_len. apply orel_bind_same. intros header_csum. cbv zeta.
  destruct (negb ((h_level h =? 0) || (h_level h =? 1))); [kw_leaf|].
  match goal with |- orel _ (if ?c then _ else _) _ => destruct c end; [kw_leaf|].
  eapply orel_bind; [apply extend_raw_data_kind; exact S|].
  intros [r a'] [r' b'] [E S']. cbn [fst snd] in E, S'. subst r'. cbv beta iota.
  destruct r as [h1|]; [|kw_leaf].
  kw.
Qed.

Lemma decode_level1_header_kind mktime h a b : kind_rel a b ->
  orel rel_k (decode_level1_header mktime h a) (decode_level1_header mktime h b).
Proof.
  intros S. unfold decode_level1_header.
  eapply orel_bind; [apply decode_level0_header_kind; exact S|].
  intros [[ok h1] a1] [[ok' h1'] b1] [E S1]. cbn [fst snd] in E, S1. inversion E; subst ok' h1'. clear E.
  cbv beta iota. destruct (negb ok); [kw_leaf|]. cbv zeta.
  eapply orel_bind; [apply read_l1_extended_headers_kind; exact S1|].
  intros [[ok2 h2] a2] [[ok2' h2'] b2] [E S2]. cbn [fst snd] in E, S2. inversion E; subst ok2' h2'. clear E.
  cbv beta iota. destruct (negb ok2); [kw_leaf|].
  kw.
Qed.

Lemma decode_level2_header_kind h a b : kind_rel a b ->
  orel rel_k (decode_level2_header h a) (decode_level2_header h b).
Proof.
  intros S. unfold decode_level2_header.
  apply orel_bind_same. intros header_len.
  destruct (header_len <? hdr_LEVEL_2_HEADER_LEN); [kw_leaf|].
  eapply orel_bind; [apply extend_raw_data_kind; exact S|].
  intros [r a'] [r' b'] [E S']. cbn [fst snd] in E, S'. subst r'. cbv beta iota.
  destruct r as [h1|]; [|kw_leaf].
  apply orel_bind_same. intros h2.
  eapply orel_bind with (R := rel_k).
  { destruct (h_os_type h2 =? OS_TYPE_OS9_68K); [apply extend_raw_data_kind; exact S'|kw_leaf]. }
  intros [r3 a3] [r3' b3] [E S3]. cbn [fst snd] in E, S3. subst r3'. cbv beta iota.
  destruct r3 as [h3|]; [|kw_leaf].
  kw.
Qed.

Lemma decode_level3_header_kind h a b : kind_rel a b ->
  orel rel_k (decode_level3_header h a) (decode_level3_header h b).
Proof.
  intros S. unfold decode_level3_header.
  apply orel_bind_same. intros ws.
  destruct (negb (ws =? 4)); [kw_leaf|].
  eapply orel_bind; [apply extend_raw_data_kind; exact S|].
  intros [r a'] [r' b'] [E S']. cbn [fst snd] in E, S'. subst r'. cbv beta iota.
  destruct r as [h1|]; [|kw_leaf].
  apply orel_bind_same. intros header_len.
  match goal with |- orel _ (if ?c then _ else _) _ => destruct c end; [kw_leaf|].
  eapply orel_bind; [apply extend_raw_data_kind; exact S'|].
  intros [r2 a2] [r2' b2] [E S2]. cbn [fst snd] in E, S2. subst r2'. cbv beta iota.
  destruct r2 as [h2|]; [|kw_leaf].
  kw.
Qed.

(* lha_file_header_read does not depend on the kind of source: the same outcome
   (header, "no header", or the same Fault / OutOfFuel) and related streams *)
Theorem lha_file_header_read_kind mktime a b : kind_rel a b ->
  orel rel_k (lha_file_header_read mktime a) (lha_file_header_read mktime b).
Proof.
  intros S. unfold lha_file_header_read.
  eapply orel_bind; [apply lha_input_stream_read_kind; exact S|].
  intros [r a1] [r' b1] [E S1]. cbn [fst snd] in E, S1. subst r'. cbv beta iota.
  destruct r as [raw|]; [|kw_leaf].
  apply orel_bind_same. intros lvl. cbv zeta.
  eapply orel_bind with (R := rel_k).
  { destruct (lvl =? 0); [apply decode_level0_header_kind; exact S1|].
    destruct (lvl =? 1); [apply decode_level1_header_kind; exact S1|].
    destruct (lvl =? 2); [apply decode_level2_header_kind; exact S1|].
    destruct (lvl =? 3); [apply decode_level3_header_kind; exact S1|].
    kw_leaf. }
  intros [[ok h1] a2] [[ok' h1'] b2] [E S2]. cbn [fst snd] in E, S2. inversion E; subst ok' h1'. clear E.
  cbv beta iota.
  destruct (header_post_processing_indep ok h1) as [r Hr].
  eapply orel_of_eqs; [exact (Hr a2)|exact (Hr b2)|]. kw_leaf.
Qed.

(* a header read with nothing left: "no header", and nothing is left afterwards *)
Lemma header_read_empty mktime st :
  is_state st = IS_READING -> is_leadin st = [] -> so_data (is_src st) = [] ->
  exists st', lha_file_header_read mktime st = Ok (None, st') /\ kind_rel st st'.
Proof.
  intros S L D. unfold lha_file_header_read.
  rewrite stream_read_not_init by congruence. cbn [bind].
  destruct st as [src t l]. cbn [is_state is_leadin is_src] in *. subst t l.
  unfold read_ready. cbn [is_state is_leadin is_src]. unfold raw_read. rewrite D.
  rewrite !firstn_N_nil, !skipn_N_nil. change (nlen (@nil N)) with 0. change hdr_COMMON_HEADER_LEN with 22.
  change (0 <? 22) with true. change (0 + 0 =? 22) with false. cbv beta iota zeta. eexists. split; [reflexivity|]. unfold kind_rel. cbn [is_state is_leadin is_src so_data]. auto.
Qed.

(* ------------------------------------------------------------------ *)
(* 3. The basic reader                                                 *)

Definition br_rel (a b : breader) : Prop :=
  kind_rel (br_stream a) (br_stream b) /\ br_curr a = br_curr b /\
  br_remaining a = br_remaining b /\ br_eof a = br_eof b.

Lemma br_rel_refl a : br_rel a a.
Proof. split; [apply kind_rel_refl|]. auto. Qed.

Lemma br_rel_sym a b : br_rel a b -> br_rel b a.
Proof. intros (K & C & R & E). split; [apply kind_rel_sym; exact K|]. auto. Qed.

Lemma br_rel_trans a b c : br_rel a b -> br_rel b c -> br_rel a c.
Proof.
  intros (K & C & R & E) (K' & C' & R' & E'). split; [eapply kind_rel_trans; eauto|].
  repeat split; congruence.
Qed.

Lemma br_rel_new k1 k2 data :
  br_rel (lha_basic_reader_new (lha_input_stream_new (mk_source k1 data)))
         (lha_basic_reader_new (lha_input_stream_new (mk_source k2 data))).
Proof. split; [apply kind_rel_new|]. auto. Qed.

Definition nfk_rel (x y : option header * breader) : Prop := fst x = fst y /\ br_rel (snd x) (snd y).

(* the part of next_file after the skip *)
Lemma nf_tail_kind mktime r1 r2 : br_rel r1 r2 -> br_curr r1 = None ->
  orel nfk_rel (nf_tail mktime r1) (nf_tail mktime r2).
Proof.
  intros (K & C & R & E) C1. unfold nf_tail. rewrite <- E. destruct (br_eof r1) eqn:E1.
  - cbn [orel]. unfold nfk_rel, br_rel. cbn [fst snd]. rewrite <- E. repeat split; try assumption; apply K.
  - eapply orel_bind; [apply lha_file_header_read_kind; exact K|].
    intros [h a'] [h' b'] [Eh S']. cbn [fst snd] in Eh, S'. subst h'. cbv beta iota.
    destruct h as [hd|]; cbn [orel]; unfold nfk_rel, br_rel; cbn [fst snd br_curr br_eof br_stream br_remaining];
      repeat split; try assumption; apply S'.
Qed.

(* nf_tail of a reader at the end of its data *)
Lemma nf_tail_empty mktime st rem (eof : bool) :
  is_state st = IS_READING -> is_leadin st = [] -> so_data (is_src st) = [] ->
  exists st', nf_tail mktime {| br_stream := st; br_curr := None; br_remaining := rem; br_eof := eof |} =
              Ok (None, {| br_stream := st'; br_curr := None; br_remaining := rem; br_eof := true |}) /\
              kind_rel st st'.
Proof.
  intros S L D. unfold nf_tail. cbn [br_eof br_stream br_remaining]. destruct eof.
  - exists st. split; [reflexivity|apply kind_rel_refl].
  - destruct (header_read_empty mktime st S L D) as (st' & E & K). rewrite E. cbn [bind].
    exists st'. split; [reflexivity|exact K].
Qed.

(* lha_basic_reader_next_file does not depend on the kind of source: the same
   header / "no header" / Fault / OutOfFuel, and related readers.  When the
   current member's data is truncated, the skip succeeds on a seekable file and
   fails on the other kinds: the file's reader goes on to read a header from
   the empty stream and sets eof then, the others set eof at once; both return
   "no header" and the readers left behind are related again. *)
Theorem next_file_kind mktime r1 r2 : br_wf r1 -> br_wf r2 -> br_rel r1 r2 ->
  orel nfk_rel (lha_basic_reader_next_file mktime r1) (lha_basic_reader_next_file mktime r2).
Proof.
  intros W1 W2 B. pose proof B as (K & C & R & E).
  destruct (br_curr r1) as [hd|] eqn:C1.
  2:{ rewrite (next_file_none mktime r1 C1), (next_file_none mktime r2) by congruence.
      apply nf_tail_kind; assumption. }
  destruct (next_file_some mktime r1 hd W1 C1) as (s1 & K1 & D1 & ->).
  destruct (next_file_some mktime r2 hd W2) as (s2 & K2 & D2 & ->); [congruence|].
  destruct K as (Sk & Lk & Dk). rewrite <- Dk, <- R in D2. rewrite <- Dk, <- R, <- E.
  set (D := so_data (is_src (br_stream r1))) in *. set (m := br_remaining r1) in *.
  destruct (N.leb_spec m (nlen D)) as [Le|Gt].
  - (* the data is there: the flag is true for every kind *)
    assert (T : forall k, skip_succeeds k m (nlen D) = true).
    { intros k. unfold skip_succeeds. destruct k; auto; apply N.leb_le; exact Le. }
    rewrite !T. apply nf_tail_kind; [|reflexivity].
    unfold br_rel, kind_rel. cbn [br_stream br_curr br_remaining br_eof is_state is_leadin is_src].
    rewrite D1, D2. repeat split; reflexivity.
  - (* truncated *)
    assert (E1 : so_data s1 = []) by (rewrite D1; apply skipn_N_all; lia).
    assert (E2 : so_data s2 = []) by (rewrite D2; apply skipn_N_all; lia).
    destruct (nf_tail_empty mktime {| is_src := s1; is_state := IS_READING; is_leadin := [] |} m
                (if skip_succeeds (so_kind (is_src (br_stream r1))) m (nlen D) then br_eof r1 else true))
      as (t1 & F1 & (S1 & L1 & X1)); [reflexivity|reflexivity|exact E1|].
    destruct (nf_tail_empty mktime {| is_src := s2; is_state := IS_READING; is_leadin := [] |} m
                (if skip_succeeds (so_kind (is_src (br_stream r2))) m (nlen D) then br_eof r1 else true))
      as (t2 & F2 & (S2 & L2 & X2)); [reflexivity|reflexivity|exact E2|].
    rewrite F1, F2. cbn [orel]. unfold nfk_rel, br_rel, kind_rel.
    cbn [fst snd br_stream br_curr br_remaining br_eof is_state is_leadin is_src] in *.
    split; [reflexivity|]. rewrite <- S1, <- S2, <- L1, <- L2, <- X1, <- X2, E1, E2. auto 10.
Qed.

(* ---- n calls of next_file: the headers returned ---- *)
Fixpoint headers_n (mktime : N -> N -> N -> N -> Z -> N -> N) (n : nat) (r : breader)
  : outcome (list (option header) * breader) :=
  match n with
  | O => Ok ([], r)
  | S k => '(h, r1) <- lha_basic_reader_next_file mktime r ;;
           '(l, r2) <- headers_n mktime k r1 ;;
           Ok (h :: l, r2)
  end.

Definition hn_rel (x y : list (option header) * breader) : Prop := fst x = fst y /\ br_rel (snd x) (snd y).

(* an orel together with properties of the two results *)
Lemma orel_with_inv {A B} (R : A -> B -> Prop) (P : A -> Prop) (Q : B -> Prop) x y :
  orel R x y -> (forall a, x = Ok a -> P a) -> (forall b, y = Ok b -> Q b) ->
  orel (fun a b => R a b /\ P a /\ Q b) x y.
Proof. destruct x, y; cbn [orel]; auto. Qed.

Lemma headers_n_kind mktime n : forall r1 r2, br_wf r1 -> br_wf r2 -> br_rel r1 r2 ->
  orel hn_rel (headers_n mktime n r1) (headers_n mktime n r2).
Proof.
  induction n as [|n IH]; intros r1 r2 W1 W2 B; cbn [headers_n].
  - cbn [orel]. split; [reflexivity|exact B].
  - eapply orel_bind.
    + apply (orel_with_inv nfk_rel (fun x => br_wf (snd x)) (fun x => br_wf (snd x))).
      * apply next_file_kind; assumption.
      * intros [h r'] Ex. cbn [snd]. eapply next_file_wf; [|exact Ex]; assumption.
      * intros [h r'] Ex. cbn [snd]. eapply next_file_wf; [|exact Ex]; assumption.
    + intros [h1 a1] [h2 b1] ([Eh Bh] & Wa & Wb). cbn [fst snd] in *. subst h2. cbv beta iota.
      eapply orel_bind; [apply IH; assumption|].
      intros [l1 a2] [l2 b2] [El Bl]. cbn [fst snd] in *. subst l2. cbv beta iota.
      cbn [orel]. split; [reflexivity|exact Bl].
Qed.

(* For every archive, every two kinds of source and every n: the n first calls
   of lha_basic_reader_next_file return the same headers (and end in the same
   way: same Fault, same OutOfFuel), and leave related readers. *)
Theorem headers_same_for_all_kinds mktime data k1 k2 n : nlen data < 1099511627776 ->
  orel hn_rel
    (headers_n mktime n (lha_basic_reader_new (lha_input_stream_new (mk_source k1 data))))
    (headers_n mktime n (lha_basic_reader_new (lha_input_stream_new (mk_source k2 data)))).
Proof.
  intros Hb. apply headers_n_kind; [apply br_wf_new; exact Hb|apply br_wf_new; exact Hb|apply br_rel_new].
Qed.

(* the form with an equation *)
Corollary headers_same_for_all_kinds_ok mktime data k1 k2 n hs r1 : nlen data < 1099511627776 ->
  headers_n mktime n (lha_basic_reader_new (lha_input_stream_new (mk_source k1 data))) = Ok (hs, r1) ->
  exists r2, headers_n mktime n (lha_basic_reader_new (lha_input_stream_new (mk_source k2 data))) = Ok (hs, r2) /\
             br_rel r1 r2.
Proof.
  intros Hb H. pose proof (headers_same_for_all_kinds mktime data k1 k2 n Hb) as O. rewrite H in O.
  destruct (headers_n mktime n (lha_basic_reader_new (lha_input_stream_new (mk_source k2 data)))) as [[hs2 r2]| |];
    cbn [orel] in O; try contradiction.
  destruct O as [E1 E2]. cbn [fst snd] in E1, E2. subst hs2. exists r2. auto.
Qed.

(* the truncated case, spelled out: both return "no header", and stay there *)
Theorem next_file_kind_truncated mktime r1 r2 hd : br_wf r1 -> br_wf r2 -> br_rel r1 r2 ->
  br_curr r1 = Some hd -> nlen (so_data (is_src (br_stream r1))) < br_remaining r1 ->
  exists r1' r2',
    lha_basic_reader_next_file mktime r1 = Ok (None, r1') /\
    lha_basic_reader_next_file mktime r2 = Ok (None, r2') /\ br_rel r1' r2' /\
    (forall n, next_file_n mktime n r1' = Ok (None, r1')) /\
    (forall n, next_file_n mktime n r2' = Ok (None, r2')).
Proof.
  intros W1 W2 B C1 Short.
  pose proof (next_file_kind mktime r1 r2 W1 W2 B) as O.
  assert (N1 : exists r1', lha_basic_reader_next_file mktime r1 = Ok (None, r1')).
  { destruct (next_file_some mktime r1 hd W1 C1) as (s1 & K1 & D1 & ->).
    destruct (nf_tail_empty mktime {| is_src := s1; is_state := IS_READING; is_leadin := [] |} (br_remaining r1)
                (if skip_succeeds (so_kind (is_src (br_stream r1))) (br_remaining r1)
                      (nlen (so_data (is_src (br_stream r1)))) then br_eof r1 else true))
      as (t1 & F1 & _); [reflexivity|reflexivity|cbn [is_src]; rewrite D1; apply skipn_N_all; lia|].
    eexists. exact F1. }
  destruct N1 as (r1' & E1). rewrite E1 in O.
  destruct (lha_basic_reader_next_file mktime r2) as [[h2 r2']| |] eqn:E2; cbn [orel] in O; try contradiction.
  destruct O as [Eh Br]. cbn [fst snd] in Eh, Br. subst h2.
  exists r1', r2'. split; [exact E1|]. split; [reflexivity|]. split; [exact Br|].
  split; [eapply iteration_stops; exact E1|eapply iteration_stops; exact E2].
Qed.

(* ------------------------------------------------------------------ *)
(* 4. The decoders' callback                                           *)

Theorem read_compressed_kind r1 r2 n : br_rel r1 r2 ->
  fst (lha_basic_reader_read_compressed r1 n) = fst (lha_basic_reader_read_compressed r2 n) /\
  br_rel (snd (lha_basic_reader_read_compressed r1 n)) (snd (lha_basic_reader_read_compressed r2 n)).
Proof.
  intros B. pose proof B as (K & C & R & E). unfold lha_basic_reader_read_compressed.
  rewrite <- E, <- R. destruct (br_eof r1 || (br_remaining r1 =? 0)); [cbn [fst snd]; auto|].
  pose proof K as (Sk & _). rewrite <- Sk.
  destruct (is_state (br_stream r1)); [cbn [fst snd]; auto| |].
  - pose proof (read_ready_kind (br_stream r1) (br_stream r2)
                  (if br_remaining r1 <? n then br_remaining r1 else n) K) as [F S].
    destruct (read_ready (br_stream r1) _) as [res1 st1], (read_ready (br_stream r2) _) as [res2 st2].
    cbn [fst snd] in F, S. subst res2.
    destruct res1; cbn [fst snd]; (split; [reflexivity|]); unfold br_rel;
      cbn [br_stream br_curr br_remaining br_eof]; auto.
  - pose proof (read_ready_kind (br_stream r1) (br_stream r2)
                  (if br_remaining r1 <? n then br_remaining r1 else n) K) as [F S].
    destruct (read_ready (br_stream r1) _) as [res1 st1], (read_ready (br_stream r2) _) as [res2 st2].
    cbn [fst snd] in F, S. subst res2.
    destruct res1; cbn [fst snd]; (split; [reflexivity|]); unfold br_rel;
      cbn [br_stream br_curr br_remaining br_eof]; auto.
Qed.

Print Assumptions lha_input_stream_read_kind.
Print Assumptions lha_input_stream_skip_kind.
Print Assumptions lha_input_stream_skip_kind_present.
Print Assumptions lha_input_stream_skip_kind_truncated.
Print Assumptions lha_file_header_read_kind.
Print Assumptions next_file_kind.
Print Assumptions headers_same_for_all_kinds.
Print Assumptions headers_same_for_all_kinds_ok.
Print Assumptions next_file_kind_truncated.
Print Assumptions read_compressed_kind.

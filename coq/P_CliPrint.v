(* P_CliPrint.v -- C06, the p command (src/extract.c: print_archive,
   print_archived_file): standard output receives, for every member in archive
   order, a regular file's banner  "::::::::\n" <safe name> "\n::::::::\n"
   (unless quiet >= 2) followed by exactly its decoded bytes, copied in 512-byte
   reads; a symbolic link's "Symbolic Link a -> b" line; nothing for a
   directory.  The filesystem is not touched, nothing is pushed on the
   directory stack. *)
From Lhasa Require Import Base ListN DecBase Loop Generated Crc16 InputStream Header BasicReader
  AnyDecoder Decoder MacBinary Fs FsRun Reader Glob ListOut CliFilter CliExtract
  P_ReaderCheck P_FsExtract P_ReaderExtract P_CliExtract P_CliTree.
From Coq Require Import ZifyBool ZifyN ZifyNat.
Local Open Scope N_scope.

Set Default Timeout 120.

Section Print.
  Variable mktime : N -> N -> N -> N -> Z -> N -> N.
  Variable junk : N.
  Variable f : lha_filter.
  Hypothesis Hnofilter : f_filters f = [].

  (* the reads of print_archived_file: non-empty pieces, then an empty one *)
  Inductive rd512 : reader -> list (list N) -> reader -> Prop :=
  | rl_last r ev r' : lha_reader_read junk r 512 = Ok ([], ev, r') -> rd512 r [] r'
  | rl_more r o ev r1 chunks r' : o <> [] -> lha_reader_read junk r 512 = Ok (o, ev, r1) ->
      rd512 r1 chunks r' -> rd512 r (o :: chunks) r'.

  Lemma rd512_book r chunks r' : rd512 r chunks r' -> book r' = book r.
  Proof.
    induction 1 as [r ev r' E|r o ev r1 chunks r' Hne E _ IH].
    - eapply reader_read_book; eauto.
    - apply reader_read_book in E. congruence.
  Qed.

  (* the state after the pieces have been written to stdout *)
  Definition printed (st : cli_state) (chunks : list (list N)) (r2 : reader) : cli_state :=
    {| cs_fs := cs_fs st; cs_reader := r2; cs_opts := cs_opts st; cs_stdin := cs_stdin st;
       cs_stdin_shared := cs_stdin_shared st; cs_out := rev chunks ++ cs_out st; cs_err := cs_err st |}.

  Lemma print_file_loops r chunks r2 : rd512 r chunks r2 -> forall st, cs_reader st = r ->
    loops (print_file_step junk) (length chunks) st (printed st chunks r2).
  Proof.
    induction 1 as [r ev r' E|r o ev r1 chunks r' Hne E _ IH]; intros st Hr.
    - constructor. unfold print_file_step. rewrite Hr, E. reflexivity.
    - cbn [length]. econstructor.
      + unfold print_file_step. rewrite Hr, E. cbn [bind]. destruct o as [|b o]; [contradiction Hne; reflexivity|]. reflexivity.
      + specialize (IH (put_out (set_reader st r1) o) eq_refl).
        replace (printed st (o :: chunks) r') with (printed (put_out (set_reader st r1) o) chunks r'); [exact IH|].
        unfold printed. cbn [cs_fs cs_opts cs_stdin cs_stdin_shared cs_out cs_err put_out set_reader rev].
        rewrite <- app_assoc. reflexivity.
  Qed.

  Lemma stdout_printed st chunks r2 : stdout_bytes (printed st chunks r2) = stdout_bytes st ++ concat chunks.
  Proof.
    unfold stdout_bytes, printed. cbn [cs_out]. rewrite rev_app_distr, rev_involutive, concat_app. reflexivity.
  Qed.

  (* the archive as the p command reads it *)
  Inductive positionedP : breader -> list member -> Prop :=
  | ppos_end br : br_curr br = None -> positionedP br []
  | ppos_file br h bs ms : br_curr br = Some h -> is_dir_method h = false -> h_symlink_target h = None ->
      (forall r, rd_br r = br -> rd_type r = CT_NORMAL -> rd_curr r = Some h -> rd_decoder r = None ->
         exists chunks r2, rd512 r chunks r2 /\ concat chunks = bs /\ N.of_nat (length chunks) < 2 ^ 40 /\
           exists x br', lha_basic_reader_next_file mktime (rd_br r2) = Ok (x, br') /\ positionedP br' ms) ->
      positionedP br (MFile h bs :: ms)
  | ppos_other br h ms x br' : br_curr br = Some h -> is_dir_method h = true ->
      lha_basic_reader_next_file mktime br = Ok (x, br') -> positionedP br' ms ->
      positionedP br (MOther h :: ms).

  Definition upcomingP (r : reader) (ms : list member) : Prop :=
    exists br1, fetch mktime r = Ok (br1, false) /\ positionedP br1 ms.

  (* what one member contributes to standard output *)
  Definition pout (o : lha_options) (m : member) : list N :=
    match m with
    | MFile h bs =>
      (if o_quiet o <? 2 then s_banner_top ++ safe_printf (file_full_path h o) ++ s_banner_bottom else []) ++ bs
    | MOther h =>
      if o_quiet o <? 2 then
        match h_symlink_target h with Some t => print_symlink_line (file_full_path h o) t | None => [] end
      else []
    end.

  Notation pstep := (print_archive_step mktime junk f).

  Lemma next_entry r br1 h : rinv r [] -> fetch mktime r = Ok (br1, false) -> br_curr br1 = Some h ->
    lha_reader_next_file mktime r = Ok (Some h, mk_reader br1 (Some h) CT_NORMAL [] false).
  Proof.
    intros (Hpol & Hdef & Hstk & Hty) Hf Hcur. rewrite (next_file_eq mktime r Hty), Hf. cbn [bind].
    rewrite (present_real r br1 false h [] Hpol Hstk Hcur (or_introl eq_refl)), Hdef. reflexivity.
  Qed.

  Lemma print_run : forall ms st,
    rinv (cs_reader st) [] -> upcomingP (cs_reader st) ms ->
    exists st', iters pstep (length ms) st st' /\
      cs_fs st' = cs_fs st /\ cs_opts st' = cs_opts st /\
      rinv (cs_reader st') [] /\ upcomingP (cs_reader st') [] /\
      stdout_bytes st' = stdout_bytes st ++ concat (map (pout (cs_opts st)) ms).
  Proof.
    induction ms as [|m ms IH]; intros st Hrinv Hup.
    - exists st. split; [constructor|]. split; [reflexivity|]. split; [reflexivity|]. split; [exact Hrinv|]. split; [exact Hup|].
      cbn [map concat]. rewrite app_nil_r. reflexivity.
    - destruct Hup as (br1 & Hf & Hpos).
      assert (Hstep : exists st1, pstep st = Ok (inl st1) /\ cs_fs st1 = cs_fs st /\ cs_opts st1 = cs_opts st /\
                        rinv (cs_reader st1) [] /\ upcomingP (cs_reader st1) ms /\
                        stdout_bytes st1 = stdout_bytes st ++ pout (cs_opts st) m).
      { inversion Hpos as [|br0 h bs ms0 Hcur Hdm Hsl Hdec|br0 h ms0 x br' Hcur Hdm Hbn Hpos']; subst br0 ms0; subst m.
        - (* a regular file *)
          pose proof (next_entry _ br1 h Hrinv Hf Hcur) as Hnext. set (r1 := mk_reader br1 (Some h) CT_NORMAL [] false) in *.
          destruct (Hdec r1 eq_refl eq_refl eq_refl eq_refl) as (chunks & r2 & Hrd & Hbs & Hlen & x & br' & Hbn & Hpos').
          unfold print_archive_step. rewrite (next_header_eq mktime f Hnofilter st _ _ Hnext). cbn [bind].
          change (is_dir_type h) with (is_dir_method h). rewrite Hdm. cbn [negb cs_opts set_reader].
          set (st2 := if o_quiet (cs_opts st) <? 2 then _ else _).
          assert (Hst2 : cs_reader st2 = r1 /\ cs_fs st2 = cs_fs st /\ cs_opts st2 = cs_opts st /\
                         stdout_bytes st2 = stdout_bytes st ++
                           (if o_quiet (cs_opts st) <? 2 then s_banner_top ++ safe_printf (file_full_path h (cs_opts st)) ++ s_banner_bottom else [])).
          { unfold st2. rewrite Hsl. destruct (o_quiet (cs_opts st) <? 2).
            - split; [reflexivity|]; split; [reflexivity|]; split; [reflexivity|].
              unfold stdout_bytes. cbn [cs_out put_out set_reader rev]. rewrite concat_app. cbn [concat]. rewrite app_nil_r. reflexivity.
            - split; [reflexivity|]. split; [reflexivity|]. split; [reflexivity|]. rewrite app_nil_r. reflexivity. }
          destruct Hst2 as (S1 & S2 & S3 & S4).
          unfold print_archived_file.
          rewrite (loop_complete_N (print_file_step junk) 40 _ _ _ (print_file_loops r1 chunks r2 Hrd st2 S1)) by exact Hlen.
          cbn [bind negb].
          eexists. split; [reflexivity|].
          pose proof (rd512_book _ _ _ Hrd) as Hbook. unfold book in Hbook.
          cbn [r1 mk_reader rd_curr rd_type rd_policy rd_dir_stack rd_deferred rd_linked] in Hbook.
          injection Hbook as B1 B2 B3 B4 B5 B6.
          cbn [printed cs_fs cs_opts cs_reader].
          split; [exact S2|]. split; [exact S3|].
          split; [split; [exact B3|]; split; [exact B5|]; split; [exact B4|]; rewrite B2; discriminate|].
          split; [exists br'; split; [unfold fetch; rewrite B2, Hbn; reflexivity|exact Hpos']|].
          rewrite stdout_printed, S4, Hbs, <- app_assoc. reflexivity.
        - (* a directory or a symbolic link *)
          pose proof (next_entry _ br1 h Hrinv Hf Hcur) as Hnext. set (r1 := mk_reader br1 (Some h) CT_NORMAL [] false) in *.
          unfold print_archive_step. rewrite (next_header_eq mktime f Hnofilter st _ _ Hnext). cbn [bind].
          change (is_dir_type h) with (is_dir_method h). rewrite Hdm. cbn [negb cs_opts set_reader].
          eexists. split; [reflexivity|].
          assert (Hup1 : upcomingP r1 ms) by (exists br'; split; [unfold fetch; cbn [r1 mk_reader rd_type rd_br]; rewrite Hbn; reflexivity|exact Hpos']).
          assert (Hri1 : rinv r1 []) by (repeat split; discriminate).
          cbn [pout]. destruct (o_quiet (cs_opts st) <? 2); [destruct (h_symlink_target h)|];
            cbn [cs_fs cs_opts cs_reader put_out set_reader];
            (split; [reflexivity|]; split; [reflexivity|]; split; [exact Hri1|]; split; [exact Hup1|]).
          + unfold stdout_bytes. cbn [cs_out put_out set_reader rev]. rewrite concat_app. cbn [concat]. rewrite app_nil_r. reflexivity.
          + rewrite app_nil_r. reflexivity.
          + rewrite app_nil_r. reflexivity. }
      destruct Hstep as (st1 & Hs & F1 & O1 & R1 & U1 & B1).
      destruct (IH st1 R1 U1) as (st' & Hit & F' & O' & R' & U' & B').
      exists st'. split; [cbn [length]; econstructor; eauto|].
      split; [congruence|]. split; [congruence|]. split; [exact R'|]. split; [exact U'|].
      rewrite B', B1, O1. cbn [map concat]. rewrite <- app_assoc. reflexivity.
  Qed.

  (* "lha p archive": exit value true, the filesystem untouched, stdout as described *)
  Theorem print_archive_output ms st :
    o_dry_run (cs_opts st) = false ->
    rinv (cs_reader st) [] -> upcomingP (cs_reader st) ms -> N.of_nat (length ms) < 2 ^ 40 ->
    exists st', print_archive mktime junk f st = Ok (RVal true, st') /\
      cs_fs st' = cs_fs st /\
      stdout_bytes st' = stdout_bytes st ++ concat (map (pout (cs_opts st)) ms).
  Proof.
    intros Hdry Hrinv Hup Hlen.
    destruct (print_run ms st Hrinv Hup) as (st1 & Hit & F1 & O1 & (Hpol1 & Hdef1 & Hstk1 & Hty1) & (br1 & Hf1 & Hpos1) & B1).
    assert (Hcur1 : br_curr br1 = None) by (inversion Hpos1; assumption).
    assert (Hnext : exists r', lha_reader_next_file mktime (cs_reader st1) = Ok (None, r')).
    { rewrite (next_file_eq mktime _ Hty1), Hf1. cbn [bind]. rewrite (present_end _ br1 false Hstk1 Hdef1 Hcur1). eauto. }
    destruct Hnext as [r' Hnext].
    assert (Hend : pstep st1 = Ok (inr (RVal true, set_reader st1 r'))).
    { unfold print_archive_step. rewrite (next_header_eq mktime f Hnofilter st1 _ _ Hnext). reflexivity. }
    exists (set_reader st1 r'). split.
    - unfold print_archive. rewrite Hdry.
      eapply loop_complete_N; [eapply loops_after_iters; [exact Hit|constructor; exact Hend]|].
      rewrite Nat.add_0_r. exact Hlen.
    - cbn [cs_fs set_reader]. split; [exact F1|]. exact B1.
  Qed.
End Print.

Print Assumptions print_archive_output.

(* P_CliReturns.v -- C13 at the level of the tool: lha_main RETURNS.

   For every argv, every standard input and every filesystem, if the archive that
   the command opens consists of bytes and is shorter than EXT_LIMIT (12 MiB: the
   model's fuel for the level-1 extended-header walk) and standard input is shorter
   than 2^40 bytes (the fuel of the overwrite-prompt loop), the run of the tool is
   [Ok _]: no loop of src/ or lib/ runs out of the model's fuel, and (C08) nothing
   faults.  The list commands need the C library's localtime to return a month in
   0..11, as for C08.  Only x / e can reach the prompt, so only they need the bound on
   standard input (Section variable [prompts]); [lha_main_ret_gen] is the statement
   with each hypothesis attached to the commands that need it.

   The three hypotheses are limits of the MODEL, not of the C:
   - EXT_LIMIT: decode_extended_headers has fuel 22 (2^22 extended headers of at least
     3 bytes); a level-1 header followed by 2^22 three-byte extended headers (12 MiB after
     the base header) makes the model answer OutOfFuel where the C walks on
     (scaled down: P_HeaderSafe.ext_loop_fuel_is_tight);
   - 2^40 bytes of standard input: the for (;;) of confirm_file_overwrite has fuel 40;
     2^40 answers that are none of y/n/a/s/newline (2^41 bytes) exhaust it
     (scaled down: P_CliReturnsEx.prompt_fuel_is_tight);
   - bytes: the model's byte type is N and dec_u32 does not mask, so an entry above 255
     in a length field declares more than 2^32 bytes; the decode loops have fuel for
     2^64 reads of a declared length below 2^32.

   Why each loop ends (reader level: P_CliRetReader.v):
   - lha_filter_next_file, and the command loops around it (l, v, t, p, x, e and the
     dry runs): every lha_reader_next_file decreases [rmeas], and what a command does
     with the entry (check, read, extract: it may defer one directory or link) does not
     bring it back up.  Directories and links waiting for their second pass are
     bounded by the bytes their headers took;
   - print_archived_file (512-byte reads) and do_decode (64-byte reads): a non-empty
     read moves the decoder towards the declared length (< 2^32);
   - the overwrite prompt: every answer consumes at least the newline that ends it;
     at the end of input the tool exits.  With the archive on standard input the
     bytes come out of the reader's own source, which only shrinks.

   Lemmas and theorems only. *)
From Lhasa Require Import Base ListN DecBase Loop Generated InputStream Header BasicReader
  Lh1 AnyDecoder Decoder MacBinary Fs FsRun Reader Glob ListOut CliFilter CliExtract CliMain
  P_HeaderSafe P_AnyDecoder P_ReaderSafe P_ListOut P_CliSafe P_CliOrder P_CliNoFault
  P_CliRetBytes P_CliRetReader.
From Coq Require Import ZifyBool ZifyN ZifyNat.
Local Open Scope N_scope.

Notation STDIN_LIMIT := 1099511627776.       (* 2^40 *)

(* what make_parent_directories and the printing steps leave alone *)
Definition same_io (st st' : cli_state) : Prop :=
  cs_reader st' = cs_reader st /\ cs_stdin st' = cs_stdin st /\ cs_stdin_shared st' = cs_stdin_shared st.

Lemma same_io_refl st : same_io st st.
Proof. repeat split. Qed.

Lemma same_io_trans a b c : same_io a b -> same_io b c -> same_io a c.
Proof. intros (A1 & A2 & A3) (B1 & B2 & B3). repeat split; congruence. Qed.

Lemma check_parent_directory_io path st : same_io st (snd (check_parent_directory path st)).
Proof.
  unfold check_parent_directory.
  destruct (arch_exists (cs_fs st) path);
    try (destruct (arch_mkdir (cs_fs st) path 493) as [ok f1]; destruct (negb ok)); cbn [snd]; repeat split.
Qed.

Lemma mpd_loop_io : forall rest pre st, same_io st (snd (mpd_loop pre rest st)).
Proof.
  induction rest as [|c r IH]; intros pre st; cbn [mpd_loop]; [apply same_io_refl|].
  destruct (c =? 47); [|apply IH].
  pose proof (check_parent_directory_io (rev pre) st) as H.
  destruct (check_parent_directory (rev pre) st) as [ok st1]. cbn [snd] in H.
  destruct (negb ok); [exact H|]. eapply same_io_trans; [exact H|apply IH].
Qed.

Lemma make_parent_directories_io path st : same_io st (snd (make_parent_directories path st)).
Proof.
  unfold make_parent_directories. destruct (leading_slashes (strip_trailing_slashes path)) as [lead rest].
  apply mpd_loop_io.
Qed.

(* the overwrite prompt: an answer takes at least its newline *)
Lemma prompt_read_shorter : forall inp res c rest, prompt_read inp res = Some (c, rest) ->
  nlen rest < nlen inp /\ (bytes_ok inp -> bytes_ok rest).
Proof.
  induction inp as [|b r IH]; intros res c rest H; cbn [prompt_read] in H; [discriminate|].
  rewrite nlen_cons. destruct (b =? 10).
  - injection H as _ <-. split; [lia|]. intros Hb. inversion Hb; assumption.
  - apply IH in H. destruct H as [H1 H2]. split; [lia|]. intros Hb. apply H2. inversion Hb; assumption.
Qed.

Lemma stdin_data_set st d : stdin_data (set_stdin_data st d) = d.
Proof. unfold stdin_data, set_stdin_data. destruct (cs_stdin_shared st) eqn:E; cbn [set_reader set_stdin cs_stdin_shared cs_reader cs_stdin]; rewrite E; reflexivity. Qed.

Section CliReturns.
  Variable mktime : N -> N -> N -> N -> Z -> N -> N.
  Variable junk : N.
  (* the size of the archive *)
  Variable A : N.
  Hypothesis HA : A < EXT_LIMIT.
  (* whether the command can reach the overwrite prompt (x, e): only then the
     length of standard input matters *)
  Variable prompts : bool.

  Notation TInv := (TInv A).

  (* the process invariant *)
  Definition PI (f : bool) (st : cli_state) : Prop :=
    RI f (cs_reader st) /\ TInv (cs_reader st) /\ rpot f (cs_reader st) <= A /\
    (prompts = true -> cs_stdin_shared st = false -> nlen (cs_stdin st) < STDIN_LIMIT).

  Definition pm (f : bool) (st : cli_state) : N := rmeas f (cs_reader st).

  Lemma PI_weaken f st : PI f st -> PI false st /\ pm false st <= pm f st.
  Proof.
    intros (H1 & H2 & H3 & H4). destruct (keeps_pot f _ _ (keeps_refl (cs_reader st))) as (K1 & K2 & _).
    split; [|exact K2]. split; [apply (RInv_weaken _ f); exact H1|]. split; [exact H2|]. split; [lia|exact H4].
  Qed.

  Lemma PI_same_io f st st' : same_io st st' -> PI f st -> PI f st' /\ pm f st' = pm f st.
  Proof. intros (E1 & E2 & E3). unfold PI, pm. rewrite E1, E2, E3. auto. Qed.

  Lemma pm_bound f st : PI f st -> pm f st < 2 ^ N.of_nat 40.
  Proof. intros (_ & _ & H & _). apply (rmeas_bound A f _ HA). exact H. Qed.

  (* a reader operation that does not defer anything *)
  Lemma PI_set_reader_keeps f st r' : PI f st -> RI false r' -> TInv r' -> keeps (cs_reader st) r' ->
    PI false (set_reader st r') /\ pm false (set_reader st r') <= pm f st.
  Proof.
    intros (H1 & H2 & H3 & H4) R T K. destruct (keeps_pot f _ _ K) as (K1 & K2 & _).
    unfold PI, pm. cbn [set_reader cs_reader cs_stdin cs_stdin_shared].
    split; [|exact K2]. split; [exact R|]. split; [exact T|]. split; [lia|exact H4].
  Qed.

  (* ---------------------------------------------------------------- *)
  (* 1. lha_filter_next_file                                           *)

  Lemma filter_next_file_ret flt f r : RI f r -> TInv r -> rpot f r <= A ->
    okp False (fun x => RI true (snd x) /\ TInv (snd x) /\ rpot true (snd x) <= A /\
                        (fst x <> None -> rmeas true (snd x) < rmeas f r))
        (filter_next_file mktime flt r).
  Proof.
    intros Hi Ht Hp. unfold filter_next_file.
    apply (loop_okpF (filter_step mktime flt)
             (fun r' => RI false r' /\ TInv r' /\ rpot false r' <= A /\ rmeas false r' <= rmeas f r)
             (fun x => RI true (snd x) /\ TInv (snd x) /\ rpot true (snd x) <= A /\
                       (fst x <> None -> rmeas true (snd x) < rmeas f r))
             (rmeas false)).
    - clear Hi Ht Hp. intros r' (Hi & Ht & Hp & Hm). unfold filter_step.
      eapply okpF_bind; [apply (reader_next_file_okpF LI LI_read mktime A HA false r' Hi Ht Hp)|].
      intros [h r''] (R1 & R2 & R3 & R4). cbv beta iota.
      destruct h as [hd|].
      + assert (Hlt : rmeas true r'' < rmeas false r') by (apply R4; discriminate).
        destruct (matches_filter flt hd); cbn [okp fst snd].
        * split; [exact R1|]. split; [exact R2|]. split; [exact R3|]. intros _. lia.
        * destruct (keeps_pot true _ _ (keeps_refl r'')) as (K1 & K2 & _).
          split; [|lia]. split; [apply (RInv_weaken _ true); exact R1|]. split; [exact R2|]. split; lia.
      + cbn [okp fst snd]. split; [exact R1|]. split; [exact R2|]. split; [exact R3|].
        intros X. contradiction X. reflexivity.
    - destruct (keeps_pot f _ _ (keeps_refl r)) as (K1 & K2 & _).
      split; [apply (RInv_weaken _ f); exact Hi|]. split; [exact Ht|]. split; lia.
    - destruct (keeps_pot f _ _ (keeps_refl r)) as (K1 & K2 & _).
      pose proof (rmeas_bound A false r HA). lia.
  Qed.

  Lemma next_header_ret flt f st : PI f st ->
    okp False (fun x => PI true (snd x) /\ (fst x <> None -> pm true (snd x) < pm f st))
        (next_header mktime flt st).
  Proof.
    intros (H1 & H2 & H3 & H4). unfold next_header.
    eapply okpF_bind; [apply (filter_next_file_ret flt f _ H1 H2 H3)|].
    intros [h r'] (R1 & R2 & R3 & R4). cbn [fst snd] in *. cbn [okp fst snd].
    unfold PI, pm. cbn [set_reader cs_reader cs_stdin cs_stdin_shared]. auto.
  Qed.

  (* ---------------------------------------------------------------- *)
  (* 2. test_archived_file_crc                                         *)

  Lemma test_archived_file_crc_ret h st : PI true st ->
    okp False (fun x => PI false (snd x) /\ pm false (snd x) <= pm true st) (test_archived_file_crc junk h st).
  Proof.
    intros Hi. unfold test_archived_file_crc.
    destruct (o_dry_run (cs_opts st)).
    - cbn [okp snd]. destruct (PI_weaken _ _ Hi) as [W1 W2].
      destruct (negb (is_dir_type h)); [|split; assumption].
      destruct (PI_same_io false st (put_out st (safe_printf (s_verify ++ file_full_path h (cs_opts st)) ++ [10]))
                  ltac:(repeat split) W1) as [P1 P2].
      split; [exact P1|lia].
    - destruct Hi as (H1 & H2 & H3 & H4).
      eapply okpF_bind; [apply (reader_check_okpF LI LI_read LI_init mktime junk A HA _ true H1 H2)|].
      intros [[success evs] r'] (R1 & R2 & R3). cbv beta iota. cbn [okp snd].
      destruct (PI_set_reader_keeps true st r' (conj H1 (conj H2 (conj H3 H4))) R1 R2 R3) as [P1 P2].
      match goal with |- PI false ?s /\ pm false ?s <= _ =>
        destruct (PI_same_io false (set_reader st r') s) as [Q1 Q2]; [|exact P1|split; [exact Q1|lia]] end.
      destruct (invoked evs && (o_quiet (cs_opts st) <? 2)); repeat split.
  Qed.

  (* ---------------------------------------------------------------- *)
  (* 3. The overwrite prompt                                           *)

  Lemma stdin_len f st : prompts = true -> PI f st -> nlen (stdin_data st) < STDIN_LIMIT.
  Proof.
    intros Hpr (H1 & H2 & H3 & H4). unfold stdin_data. destruct (cs_stdin_shared st); [|apply H4; [exact Hpr|reflexivity]].
    destruct H2 as [[_ Hb] _ _]. unfold reader_src_data, ravail, avail, EXT_LIMIT in *. lia.
  Qed.

  Lemma stdin_bytes f st : PI f st -> cs_stdin_shared st = true -> bytes_ok (stdin_data st).
  Proof.
    intros (H1 & H2 & H3 & H4) E. unfold stdin_data. rewrite E.
    destruct H2 as [[[_ Hb] _] _ _]. exact Hb.
  Qed.

  (* getchar() on the shared standard input: the reader's source shrinks *)
  Lemma set_src_keeps r d : nlen d <= nlen (reader_src_data r) -> keeps r (reader_set_src_data r d).
  Proof.
    intros H. unfold keeps, reader_set_src_data, reader_src_data, ravail, avail in *.
    cbn [rd_type rd_dir_stack rd_deferred rd_br br_curr br_stream is_leadin is_src so_data]. repeat split. lia.
  Qed.

  Lemma set_src_TInv r d : TInv r -> nlen d <= nlen (reader_src_data r) -> bytes_ok d -> TInv (reader_set_src_data r d).
  Proof.
    intros [[[Hl Hd] Ha] T2 T3] H Hb. unfold reader_src_data in H.
    constructor; unfold reader_set_src_data; cbn [rd_br rd_decoder br_curr]; [|exact T2|exact T3].
    unfold BRA, SB, ravail, avail in *. cbn [br_stream is_leadin is_src so_data]. split; [split; assumption|lia].
  Qed.

  Lemma PI_set_stdin_data f st d : PI f st -> nlen d <= nlen (stdin_data st) ->
    (cs_stdin_shared st = true -> bytes_ok d) ->
    PI f (set_stdin_data st d) /\ pm f (set_stdin_data st d) <= pm f st.
  Proof.
    intros (H1 & H2 & H3 & H4) Hn Hb. unfold set_stdin_data, stdin_data, PI, pm in *.
    destruct (cs_stdin_shared st) eqn:E; cbn [set_reader set_stdin cs_reader cs_stdin cs_stdin_shared].
    - destruct (keeps_pot f _ _ (set_src_keeps (cs_reader st) d Hn)) as (_ & _ & K3 & K4).
      split; [|exact K4]. split; [apply RI_set_src; exact H1|].
      split; [apply set_src_TInv; auto|]. split; [lia|]. rewrite E. intros _. discriminate.
    - split; [|lia]. split; [exact H1|]. split; [exact H2|]. split; [exact H3|]. intros Hpr _. specialize (H4 Hpr eq_refl). lia.
  Qed.

  Lemma prompt_user_ret f msg st : PI f st ->
    okp False (fun x => PI f (snd x) /\ pm f (snd x) <= pm f st /\
                        match fst x with
                        | RVal _ => nlen (stdin_data (snd x)) < nlen (stdin_data st)
                        | RExit _ => True
                        end) (prompt_user msg st).
  Proof.
    intros Hi. unfold prompt_user.
    assert (E0 : stdin_data (put_err st msg) = stdin_data st) by reflexivity.
    destruct (PI_same_io f st (put_err st msg) ltac:(repeat split) Hi) as [Hi1 Hm1].
    destruct (prompt_read (stdin_data (put_err st msg)) 0) as [[c rest]|] eqn:Ep; cbn [okp fst snd].
    - apply prompt_read_shorter in Ep. destruct Ep as [Ep1 Ep2]. rewrite E0 in *.
      destruct (PI_set_stdin_data f (put_err st msg) rest Hi1) as [P1 P2]; [rewrite E0; lia| |].
      { intros Es. apply Ep2. apply (stdin_bytes f st Hi Es). }
      split; [exact P1|]. split; [lia|]. rewrite stdin_data_set. exact Ep1.
    - destruct (PI_set_stdin_data f (put_err st msg) [] Hi1) as [P1 P2]; [rewrite nlen_nil; lia|intros _; apply bytes_ok_nil|].
      split; [exact P1|]. split; [lia|exact I].
  Qed.

  Lemma PI_set_opts f st o : PI f st -> PI f (set_opts st o) /\ pm f (set_opts st o) = pm f st /\
                                      stdin_data (set_opts st o) = stdin_data st.
  Proof. intros H. destruct (PI_same_io f st (set_opts st o) ltac:(repeat split) H) as [P1 P2]. auto. Qed.

  Lemma confirm_step_ret f fn st : PI f st ->
    okp False (fun x => match x with
                        | inl s => (PI f s /\ pm f s <= pm f st) /\ nlen (stdin_data s) < nlen (stdin_data st)
                        | inr r => PI f (snd r) /\ pm f (snd r) <= pm f st
                        end) (confirm_step fn st).
  Proof.
    intros Hi. unfold confirm_step.
    destruct (PI_same_io f st (put_err st (safe_printf (fn ++ [32]))) ltac:(repeat split) Hi) as [Hi1 Hm1].
    eapply okpF_bind; [apply (prompt_user_ret f s_overwrite_prompt _ Hi1)|].
    intros [[response|c] st2] (H2 & M2 & L2); cbn [fst snd] in *; [|cbn [okp snd]; split; [exact H2|lia]].
    change (stdin_data (put_err st (safe_printf (fn ++ [32])))) with (stdin_data st) in L2.
    destruct (PI_set_opts f st2 (set_overwrite (cs_opts st2) LHA_OVERWRITE_ALL) H2) as (A1 & A2 & _).
    destruct (PI_set_opts f st2 (set_overwrite (cs_opts st2) LHA_OVERWRITE_SKIP) H2) as (B1 & B2 & _).
    destruct (tolower response =? 121); [cbn [okp snd]; split; [exact H2|lia]|].
    destruct ((tolower response =? 110) || (tolower response =? 10)); [cbn [okp snd]; split; [exact H2|lia]|].
    destruct (tolower response =? 97); [cbn [okp snd]; split; [exact A1|lia]|].
    destruct (tolower response =? 115); [cbn [okp snd]; split; [exact B1|lia]|].
    cbn [okp]. split; [split; [exact H2|lia]|exact L2].
  Qed.

  Lemma confirm_file_overwrite_ret f fn st : prompts = true -> PI f st ->
    okp False (fun x => PI f (snd x) /\ pm f (snd x) <= pm f st) (confirm_file_overwrite fn st).
  Proof.
    intros Hpr Hi. unfold confirm_file_overwrite.
    destruct (o_overwrite_policy (cs_opts st)); [|cbn [okp snd]; split; [exact Hi|lia]|cbn [okp snd]; split; [exact Hi|lia]].
    apply (loop_okpF (confirm_step fn) (fun s => PI f s /\ pm f s <= pm f st)
             (fun x => PI f (snd x) /\ pm f (snd x) <= pm f st) (fun s => nlen (stdin_data s))).
    - intros s [Hs Hm]. eapply okpF_imp; [apply confirm_step_ret; exact Hs|].
      intros [s'|r]; [intros [[P1 P2] P3]; split; [split; [exact P1|lia]|exact P3]|intros [P1 P2]; split; [exact P1|lia]].
    - split; [exact Hi|lia].
    - pose proof (stdin_len f st Hpr Hi). change (2 ^ N.of_nat 40) with 1099511627776. lia.
  Qed.

  Lemma file_exists_ret f fn st : PI f st ->
    okp False (fun x => PI f (snd x) /\ pm f (snd x) <= pm f st) (file_exists fn st).
  Proof.
    intros H. unfold file_exists. destruct (arch_exists (cs_fs st) fn); cbn [okp snd]; try (split; [exact H|lia]).
    destruct (PI_same_io f st (put_err st (safe_printf (s_failed_file_type ++ fn ++ s_quote) ++ [10])) ltac:(repeat split) H) as [P1 P2].
    split; [exact P1|lia].
  Qed.

  (* sequencing of steps that may exit *)
  Lemma cbind_ret {X Y} (J J' : cli_state -> Prop) (m : outcome (res X * cli_state))
        (k : X -> cli_state -> outcome (res Y * cli_state)) :
    okp False (fun x => J (snd x)) m -> (forall st, J st -> J' st) ->
    (forall a st, J st -> okp False (fun x => J' (snd x)) (k a st)) ->
    okp False (fun x => J' (snd x)) (cbind m k).
  Proof. destruct m as [[[a|c] st]| |]; cbn [okp cbind snd]; auto. Qed.

  Lemma skip_block_ret f fn cond st : prompts = true -> PI f st ->
    okp False (fun x => PI f (snd x) /\ pm f (snd x) <= pm f st) (skip_block fn cond st).
  Proof.
    intros Hpr H. unfold skip_block. destruct cond; [|cbn [okp snd]; split; [exact H|lia]].
    eapply (cbind_ret (fun s => PI f s /\ pm f s <= pm f st) (fun s => PI f s /\ pm f s <= pm f st)); [apply (file_exists_ret f); exact H|auto|].
    intros ex sta [Ha Ma]. destruct ex; [|cbn [okp snd]; split; [exact Ha|lia]].
    eapply (cbind_ret (fun s => PI f s /\ pm f s <= pm f st) (fun s => PI f s /\ pm f s <= pm f st)).
    - eapply okpF_imp; [apply (confirm_file_overwrite_ret f); [exact Hpr|exact Ha]|]. intros x [P1 P2]. split; [exact P1|lia].
    - auto.
    - intros yes stb Hb. exact Hb.
  Qed.

  (* ---------------------------------------------------------------- *)
  (* 4. extract_archived_file                                          *)

  Lemma extract_archived_file_ret h st : prompts = true -> PI true st ->
    okp False (fun x => PI false (snd x) /\ pm false (snd x) <= pm true st) (extract_archived_file junk h st).
  Proof.
    intros Hpr Hi. rewrite extract_archived_file_unfold. cbv zeta.
    eapply (cbind_ret (fun s => PI true s /\ pm true s <= pm true st) (fun s => PI false s /\ pm false s <= pm true st)); [apply (skip_block_ret true); [exact Hpr|exact Hi]| |].
    { intros s [P1 P2]. destruct (PI_weaken _ _ P1) as [W1 W2]. split; [exact W1|lia]. }
    intros skip st1 [H1 M1]. destruct (PI_weaken _ _ H1) as [W1 W2].
    destruct skip.
    { cbn [okp snd]. destruct (is_skip (o_overwrite_policy (cs_opts st1))); [|split; [exact W1|lia]].
      match goal with |- PI false ?s /\ _ => destruct (PI_same_io false st1 s ltac:(repeat split) W1) as [Q1 Q2] end.
      split; [exact Q1|lia]. }
    match goal with |- okp False _ (if ?c then _ else _) => destruct c end.
    { cbn [okp snd]. split; [exact W1|lia]. }
    pose proof (make_parent_directories_io (file_full_path h (cs_opts st)) st1) as Km.
    destruct (make_parent_directories (file_full_path h (cs_opts st)) st1) as [okd st2]. cbn [snd] in Km.
    destruct (PI_same_io true st1 st2 Km H1) as [H2 M2].
    destruct (PI_weaken _ _ H2) as [W3 W4].
    destruct (negb okd).
    { cbn [okp snd]. split; [exact W3|lia]. }
    destruct H2 as (R1 & R2 & R3 & R4).
    eapply okpF_bind; [apply (reader_extract_okpF LI LI_read LI_init mktime junk A HA _ (cs_fs st2) (Some (file_full_path h (cs_opts st))) true R1 R2)|].
    intros [[[success evs] r'] f'] (E1 & E2 & E3). cbv beta iota. cbn [okp snd].
    destruct (pk_pot _ _ E3) as [K1 K2].
    assert (P3 : PI false (set_reader st2 r') /\ pm false (set_reader st2 r') <= pm true st).
    { unfold PI, pm in *. cbn [set_reader cs_reader cs_stdin cs_stdin_shared].
      split; [|lia]. split; [exact E1|]. split; [exact E2|]. split; [lia|exact R4]. }
    destruct P3 as [P3 P4].
    match goal with |- PI false ?s /\ _ => destruct (PI_same_io false (set_reader st2 r') s) as [Q1 Q2]; [|exact P3|split; [exact Q1|lia]] end.
    match goal with |- same_io _ (if ?c then _ else _) => destruct c end; [|repeat split].
    destruct (invoked evs); [repeat split|]. destruct (h_symlink_target h); repeat split.
  Qed.

  (* ---------------------------------------------------------------- *)
  (* 5. The command loops                                              *)

  Notation any_ret m := (okp False (fun _ => True) m).

  Theorem test_file_crc_ret flt st : PI false st -> any_ret (test_file_crc mktime junk flt st).
  Proof.
    intros Hi. unfold test_file_crc.
    apply (loop_okpF (test_file_crc_step mktime junk flt) (fun s => PI false (snd s)) (fun _ => True)
             (fun s => pm false (snd s))); [|exact Hi|apply pm_bound; exact Hi].
    clear Hi st. intros [result st] Hi. cbn [snd] in *. unfold test_file_crc_step.
    eapply okpF_bind; [apply (next_header_ret flt false st Hi)|].
    intros [h st1] [H1 M1]. cbn [fst snd] in *. cbv beta iota.
    destruct h as [hd|]; [|cbn [okp]; exact I].
    eapply okpF_bind; [apply (test_archived_file_crc_ret hd st1 H1)|].
    intros [[ok|c] st2] [H2 M2]; cbn [snd] in *; cbn [okp snd]; [|exact I].
    split; [exact H2|]. assert (pm true st1 < pm false st) by (apply M1; discriminate). lia.
  Qed.

  Lemma dry_run_step_ret flt result st : PI false st ->
    okp False (fun x => match x with
                        | inl s => PI false (snd s) /\ pm false (snd s) < pm false st
                        | inr _ => True
                        end) (dry_run_step mktime flt (result, st)).
  Proof.
    intros Hi. unfold dry_run_step.
    eapply okpF_bind; [apply (next_header_ret flt false st Hi)|].
    intros [h st1] [H1 M1]. cbn [fst snd] in *. cbv beta iota.
    destruct h as [hd|]; [|cbn [okp]; exact I].
    assert (Hlt : pm true st1 < pm false st) by (apply M1; discriminate).
    eapply (okpF_bind (fun x : res unit * cli_state => PI true (snd x) /\ pm true (snd x) <= pm true st1)).
    - match goal with |- context [put_out st1 ?b] =>
        destruct (PI_same_io true st1 (put_out st1 b) ltac:(repeat split) H1) as [H2 M2]; set (st2 := put_out st1 b) in * end.
      destruct (h_symlink_target hd) as [t|].
      { cbn [okp snd]. match goal with |- PI true ?s /\ _ =>
          destruct (PI_same_io true st2 s ltac:(repeat split) H2) as [Q1 Q2] end. split; [exact Q1|lia]. }
      destruct (is_dir_type hd).
      { cbn [okp snd]. match goal with |- PI true ?s /\ _ =>
          destruct (PI_same_io true st2 s ltac:(repeat split) H2) as [Q1 Q2] end. split; [exact Q1|lia]. }
      eapply (cbind_ret (fun s => PI true s /\ pm true s <= pm true st2) (fun s => PI true s /\ pm true s <= pm true st1));
        [apply (file_exists_ret true); exact H2|intros s [P1 P2]; split; [exact P1|lia]|].
      intros ex st3 [H3 M3]. cbn [okp snd]. destruct ex; [|split; [exact H3|lia]].
      match goal with |- PI true ?s /\ _ =>
        destruct (PI_same_io true st3 s ltac:(repeat split) H3) as [Q1 Q2] end. split; [exact Q1|lia].
    - intros [[u|c] st3] [H3 M3]; cbn [snd] in *; cbn [okp snd]; [|exact I].
      destruct (PI_weaken _ _ H3) as [W1 W2].
      destruct (PI_same_io false st3 (put_out st3 [10]) ltac:(repeat split) W1) as [Q1 Q2].
      split; [exact Q1|lia].
  Qed.

  Theorem extract_archive_dry_run_ret flt st : PI false st -> any_ret (extract_archive_dry_run mktime flt st).
  Proof.
    intros Hi. unfold extract_archive_dry_run.
    apply (loop_okpF (dry_run_step mktime flt) (fun s => PI false (snd s)) (fun _ => True)
             (fun s => pm false (snd s))); [|exact Hi|apply pm_bound; exact Hi].
    clear Hi st. intros [result st] Hi. apply dry_run_step_ret. exact Hi.
  Qed.

  Theorem extract_archive_ret flt st : prompts = true -> PI false st -> any_ret (extract_archive mktime junk flt st).
  Proof.
    intros Hpr Hi. unfold extract_archive. destruct (o_dry_run (cs_opts st)); [apply extract_archive_dry_run_ret; exact Hi|].
    apply (loop_okpF (extract_archive_step mktime junk flt) (fun s => PI false (snd s)) (fun _ => True)
             (fun s => pm false (snd s))); [|exact Hi|apply pm_bound; exact Hi].
    clear Hi st. intros [result st] Hi. cbn [snd] in *. unfold extract_archive_step.
    eapply okpF_bind; [apply (next_header_ret flt false st Hi)|].
    intros [h st1] [H1 M1]. cbn [fst snd] in *. cbv beta iota.
    destruct h as [hd|]; [|cbn [okp]; exact I].
    eapply okpF_bind; [apply (extract_archived_file_ret hd st1 Hpr H1)|].
    intros [[ok|c] st2] [H2 M2]; cbn [snd] in *; cbn [okp snd]; [|exact I].
    split; [exact H2|]. assert (pm true st1 < pm false st) by (apply M1; discriminate). lia.
  Qed.

  (* print_archived_file: reads of 512 bytes until one returns nothing *)
  Lemma drem_le r : TInv r -> drem r <= LEN32 + 1.
  Proof.
    intros [_ _ Hl]. unfold drem. destruct (rd_decoder r) as [[d|o]|]; cbn [dec_len] in Hl; [| |lia].
    - destruct Hl. lia.
    - destruct Hl as [[? ?] _]. lia.
  Qed.

  Lemma print_archived_file_ret f st : PI f st ->
    okp False (fun x => PI false (snd x) /\ pm false (snd x) <= pm f st) (print_archived_file junk st).
  Proof.
    intros Hi. destruct (PI_weaken _ _ Hi) as [W1 W2]. unfold print_archived_file.
    eapply okpF_bind.
    - apply (loop_okpF (print_file_step junk) (fun s => PI false s /\ pm false s <= pm f st)
               (fun s => PI false s /\ pm false s <= pm f st) (fun s => drem (cs_reader s))).
      + clear W1 W2 Hi. intros s [Hs Ms]. unfold print_file_step.
        pose proof Hs as (R1 & R2 & R3 & R4).
        eapply okpF_bind; [apply (reader_read_okpF LI LI_read LI_init mktime junk A HA false _ 512 R1 R2); reflexivity|].
        intros [[bytes ev] r'] (E1 & _ & E3 & E4 & E5). cbv beta iota.
        destruct (PI_set_reader_keeps false s r' Hs E1 E3 E4) as [P1 P2].
        destruct bytes as [|b bs]; cbn [okp].
        * split; [exact P1|lia].
        * destruct (PI_same_io false (set_reader s r') (put_out (set_reader s r') (b :: bs)) ltac:(repeat split) P1) as [Q1 Q2].
          split; [split; [exact Q1|lia]|]. cbn [put_out set_reader cs_reader]. apply E5. discriminate.
      + split; [exact W1|exact W2].
      + destruct W1 as (_ & T & _). pose proof (drem_le _ T). change (2 ^ N.of_nat 40) with 1099511627776. lia.
    - intros st' H'. cbn [okp snd]. exact H'.
  Qed.

  Theorem print_archive_ret flt st : PI false st -> any_ret (print_archive mktime junk flt st).
  Proof.
    intros Hi. unfold print_archive. destruct (o_dry_run (cs_opts st)); [apply extract_archive_dry_run_ret; exact Hi|].
    apply (loop_okpF (print_archive_step mktime junk flt) (PI false) (fun _ => True) (pm false));
      [|exact Hi|apply pm_bound; exact Hi].
    clear Hi st. intros st Hi. unfold print_archive_step.
    eapply okpF_bind; [apply (next_header_ret flt false st Hi)|].
    intros [h st1] [H1 M1]. cbn [fst snd] in *. cbv beta iota.
    destruct h as [hd|]; [|cbn [okp]; exact I].
    assert (Hlt : pm true st1 < pm false st) by (apply M1; discriminate).
    match goal with |- okp False _ (if negb (is_dir_type hd) then bind (print_archived_file junk ?s2) _ else _) =>
      assert (H2 : PI true s2 /\ pm true s2 = pm true st1); [|set (st2 := s2) in *] end.
    { destruct (o_quiet (cs_opts st1) <? 2); [|split; [exact H1|reflexivity]].
      destruct (h_symlink_target hd); [apply PI_same_io; [repeat split|exact H1]|].
      destruct (negb (is_dir_type hd)); [apply PI_same_io; [repeat split|exact H1]|split; [exact H1|reflexivity]]. }
    destruct H2 as [H2 M2].
    destruct (negb (is_dir_type hd)).
    - eapply okpF_bind; [apply (print_archived_file_ret true st2 H2)|].
      intros [ok st3] [H3 M3]. cbn [snd] in *. cbv beta iota. destruct (negb ok); cbn [okp]; [exact I|].
      split; [exact H3|lia].
    - cbn [okp]. destruct (PI_weaken _ _ H2) as [W1 W2]. split; [exact W1|lia].
  Qed.

  (* all_headers (the list commands) *)
  Theorem all_headers_ret f r : RI f r -> TInv r -> rpot f r <= A -> any_ret (all_headers mktime r).
  Proof.
    intros Hi Ht Hp. unfold all_headers.
    apply (loop_okpF (all_headers_step mktime)
             (fun s => RI false (fst s) /\ TInv (fst s) /\ rpot false (fst s) <= A) (fun _ => True)
             (fun s => rmeas false (fst s))).
    - clear Hi Ht Hp r f. intros [r acc] (Hi & Ht & Hp). cbn [fst] in *. unfold all_headers_step.
      eapply okpF_bind; [apply (reader_next_file_okpF LI LI_read mktime A HA false r Hi Ht Hp)|].
      intros [h r'] (R1 & R2 & R3 & R4). cbv beta iota. destruct h as [hd|]; cbn [okp fst]; [|exact I].
      destruct (keeps_pot true _ _ (keeps_refl r')) as (K1 & K2 & _).
      assert (rmeas true r' < rmeas false r) by (apply R4; discriminate).
      split; [|lia]. split; [apply (RInv_weaken _ true); exact R1|]. split; [exact R2|lia].
    - cbn [fst]. destruct (keeps_pot f _ _ (keeps_refl r)) as (K1 & K2 & _).
      split; [apply (RInv_weaken _ f); exact Hi|]. split; [exact Ht|lia].
    - cbn [fst]. destruct (keeps_pot f _ _ (keeps_refl r)) as (K1 & K2 & _).
      pose proof (rmeas_bound A false r HA). lia.
  Qed.

  (* ---------------------------------------------------------------- *)
  (* 6. do_command                                                     *)

  Variable localtime : N -> tm.
  Variable now : N.
  Variable stdin_kind : skind.
  Variable strerror : bool -> list N.

  Theorem run_mode_ret mode filters mtime st1 :
    (needs_clock mode -> lt_ok localtime) -> (mode = MODE_EXTRACT -> prompts = true) -> PI true st1 ->
    any_ret (run_mode mktime junk localtime now mode filters mtime st1).
  Proof.
    intros Hlt Hpr Hr. destruct (PI_weaken _ _ Hr) as [Hw _]. unfold run_mode. cbv zeta. destruct mode.
    - cbn [okp]. exact I.
    - destruct Hr as (R1 & R2 & R3 & _).
      eapply okpF_bind; [apply (all_headers_ret true _ R1 R2 R3)|].
      intros [r' hs] _. cbv beta iota.
      destruct (list_file_basic_ok localtime filters (cs_opts st1) now mtime hs (Hlt (or_introl eq_refl))) as [txt E].
      rewrite E. cbn [bind okp]. exact I.
    - destruct Hr as (R1 & R2 & R3 & _).
      eapply okpF_bind; [apply (all_headers_ret true _ R1 R2 R3)|].
      intros [r' hs] _. cbv beta iota.
      destruct (list_file_verbose_ok localtime filters (cs_opts st1) now mtime hs (Hlt (or_intror eq_refl))) as [txt E].
      rewrite E. cbn [bind okp]. exact I.
    - apply test_file_crc_ret. exact Hw.
    - apply extract_archive_ret; [apply Hpr; reflexivity|exact Hw].
    - apply print_archive_ret. exact Hw.
  Qed.

  (* the archive that the command opens: bytes, at most A of them *)
  Definition source_small (src : source) : Prop :=
    exists k data, src = mk_source k data /\ bytes_ok data /\ nlen data <= A.

  Theorem do_command_ret mode filename filters st0 :
    (needs_clock mode -> lt_ok localtime) -> (mode = MODE_EXTRACT -> prompts = true) ->
    (forall src mt shared st, open_archive now stdin_kind strerror filename st0 = Ok (RVal (src, mt, shared), st) ->
       source_small src /\ (prompts = true -> nlen (cs_stdin st) < STDIN_LIMIT)) ->
    any_ret (do_command mktime junk localtime now stdin_kind strerror mode filename filters st0).
  Proof.
    intros Hlt Hpr Hsrc. rewrite do_command_eq.
    destruct (open_archive_ok now stdin_kind strerror filename st0) as [[[[[src mt] shared]|c] st] E]; rewrite E; cbn [cbind].
    - destruct (Hsrc _ _ _ _ E) as [(k & data & -> & Hb & Hn) Hs].
      apply run_mode_ret; [exact Hlt|exact Hpr|].
      destruct (new_reader_TInv mktime A HA k data Hb Hn) as [T P].
      unfold PI, opened_state. cbn [cs_reader cs_stdin cs_stdin_shared].
      split; [apply new_reader_RI|]. split; [exact T|]. split; [exact P|].
      destruct shared; [intros _; discriminate|intros Hp' _; exact (Hs Hp')].
    - cbn [okp]. exact I.
  Qed.
End CliReturns.

(* ------------------------------------------------------------------ *)
(* 7. The tool                                                          *)

(* the bytes of the archive that the command opens: a file of the filesystem
   (nothing when the name is a directory, or cannot be opened), or standard input *)
Definition opened_bytes (file stdin : list N) (s : fs) : list N :=
  if is_dash file then stdin
  else match fs_fopen_rb s file with OpenFile data _ => data | _ => [] end.

Definition argv_mode (argv : list (list N)) : option program_mode :=
  match parse_main (tl argv) with Some (m, _, _, _) => Some m | None => None end.

Definition argv_file (argv : list (list N)) : option (list N) :=
  match parse_main (tl argv) with Some (_, _, file, _) => Some file | None => None end.

(* the archive consists of bytes and is shorter than 12 MiB *)
Definition archive_ok (argv : list (list N)) (stdin : list N) (s : fs) : Prop :=
  match argv_file argv with
  | Some file => bytes_ok (opened_bytes file stdin s) /\ nlen (opened_bytes file stdin s) < EXT_LIMIT
  | None => True
  end.

Lemma lha_main_ret_gen mktime junk localtime now stdin_kind strerror argv stdin s :
  (argv_needs_clock argv -> lt_ok localtime) ->
  archive_ok argv stdin s ->
  (argv_mode argv = Some MODE_EXTRACT -> nlen stdin < STDIN_LIMIT) ->
  exists r, lha_main mktime junk localtime now stdin_kind strerror argv stdin s = Ok r.
Proof.
  unfold lha_main, argv_needs_clock, archive_ok, argv_mode, argv_file.
  destruct (parse_main (tl argv)) as [[[[mode o] file] filters]|].
  2:{ intros _ _ _. unfold help_page. cbn [bind]. eexists. reflexivity. }
  intros Hlt [Hb Hn] Hst.
  set (A := nlen (opened_bytes file stdin s)) in *.
  set (prompts := match mode with MODE_EXTRACT => true | _ => false end).
  assert (Hpr : mode = MODE_EXTRACT -> prompts = true) by (intros ->; reflexivity).
  assert (Hsrc : forall src mt shared st,
            open_archive now stdin_kind strerror file (start_state s stdin o) = Ok (RVal (src, mt, shared), st) ->
            source_small A src /\ (prompts = true -> nlen (cs_stdin st) < STDIN_LIMIT)).
  { assert (Hs0 : prompts = true -> nlen (cs_stdin (start_state s stdin o)) < STDIN_LIMIT).
    { intros Hp. cbn [start_state cs_stdin]. apply Hst. destruct mode; try discriminate. reflexivity. }
    unfold open_archive, opened_bytes in *. cbn [start_state cs_fs cs_stdin] in *.
    intros src mt shared st. destruct (is_dash file).
    - intros E. inversion E; subst. split; [|exact Hs0].
      exists stdin_kind, stdin. split; [reflexivity|]. split; [exact Hb|]. unfold A. lia.
    - destruct (fs_fopen_rb s file) as [data m| |e]; intros E; inversion E; subst; (split; [|exact Hs0]).
      + exists KFile, data. split; [reflexivity|]. split; [exact Hb|]. unfold A. lia.
      + exists KFile, []. split; [reflexivity|]. split; [exact Hb|]. unfold A. lia. }
  destruct (okpF_ok _ _ (do_command_ret mktime junk A Hn prompts localtime now stdin_kind strerror mode file filters
                           (start_state s stdin o) Hlt Hpr Hsrc)) as [[v st] [E _]].
  rewrite E. cbn [bind]. eexists. reflexivity.
Qed.

(* A. the list commands (l, v, and the default when only an archive is named) *)
Theorem list_commands_return : forall mktime junk localtime now stdin_kind strerror argv stdin s,
  argv_mode argv = Some MODE_LIST \/ argv_mode argv = Some MODE_LIST_VERBOSE ->
  lt_ok localtime -> archive_ok argv stdin s ->
  exists r, lha_main mktime junk localtime now stdin_kind strerror argv stdin s = Ok r.
Proof.
  intros mktime junk localtime now stdin_kind strerror argv stdin s Hm Hlt Ha.
  apply lha_main_ret_gen; [intros _; exact Hlt|exact Ha|].
  intros E. destruct Hm as [Hm|Hm]; rewrite Hm in E; discriminate.
Qed.

(* B. test (t) and print (p): every member is decoded *)
Theorem test_and_print_return : forall mktime junk localtime now stdin_kind strerror argv stdin s,
  argv_mode argv = Some MODE_CRC_CHECK \/ argv_mode argv = Some MODE_PRINT ->
  archive_ok argv stdin s ->
  exists r, lha_main mktime junk localtime now stdin_kind strerror argv stdin s = Ok r.
Proof.
  intros mktime junk localtime now stdin_kind strerror argv stdin s Hm Ha.
  apply lha_main_ret_gen; [|exact Ha|].
  - unfold argv_needs_clock, argv_mode, needs_clock in *.
    destruct (parse_main (tl argv)) as [[[[mode o] file] filters]|]; [|contradiction].
    intros [X|X]; subst mode; destruct Hm as [Hm|Hm]; discriminate.
  - intros E. destruct Hm as [Hm|Hm]; rewrite Hm in E; discriminate.
Qed.

(* C. extract (x, e): the overwrite prompt reads standard input *)
Theorem extract_returns : forall mktime junk localtime now stdin_kind strerror argv stdin s,
  argv_mode argv = Some MODE_EXTRACT ->
  archive_ok argv stdin s -> nlen stdin < STDIN_LIMIT ->
  exists r, lha_main mktime junk localtime now stdin_kind strerror argv stdin s = Ok r.
Proof.
  intros mktime junk localtime now stdin_kind strerror argv stdin s Hm Ha Hs.
  apply lha_main_ret_gen; [|exact Ha|intros _; exact Hs].
  unfold argv_needs_clock, argv_mode, needs_clock in *.
  destruct (parse_main (tl argv)) as [[[[mode o] file] filters]|]; [|contradiction].
  intros [X|X]; subst mode; discriminate.
Qed.

(* D. any argv *)
Theorem lha_main_returns : forall mktime junk localtime now stdin_kind strerror argv stdin s,
  lt_ok localtime -> archive_ok argv stdin s -> nlen stdin < STDIN_LIMIT ->
  exists r, lha_main mktime junk localtime now stdin_kind strerror argv stdin s = Ok r.
Proof.
  intros mktime junk localtime now stdin_kind strerror argv stdin s Hlt Ha Hs.
  apply lha_main_ret_gen; [intros _; exact Hlt|exact Ha|intros _; exact Hs].
Qed.

(* ... in particular the outcome is neither OutOfFuel nor a Fault *)
Corollary lha_main_not_out_of_fuel : forall mktime junk localtime now stdin_kind strerror argv stdin s,
  lt_ok localtime -> archive_ok argv stdin s -> nlen stdin < STDIN_LIMIT ->
  lha_main mktime junk localtime now stdin_kind strerror argv stdin s <> OutOfFuel.
Proof.
  intros mktime junk localtime now stdin_kind strerror argv stdin s Hlt Ha Hs.
  destruct (lha_main_returns mktime junk localtime now stdin_kind strerror argv stdin s Hlt Ha Hs) as [r E].
  rewrite E. discriminate.
Qed.

(* the test case of the differential test (CliMain.cli_run: UTC clock, standard input a pipe) *)
Theorem cli_run_returns : forall mktime strerror uid0 now mtime argv archive stdin setup,
  archive_ok argv stdin (cli_fs_init uid0 archive mtime setup) -> nlen stdin < STDIN_LIMIT ->
  exists r, cli_run mktime gmtime_utc strerror uid0 now mtime argv archive stdin setup = Ok r.
Proof.
  intros. unfold cli_run. apply lha_main_returns; [exact gmtime_utc_ok|assumption|assumption].
Qed.

(* a byte list given as data *)
Lemma bytes_ok_forallb l : forallb (fun b => b <? 256) l = true -> bytes_ok l.
Proof.
  intros H. unfold bytes_ok. apply Forall_forall. intros x Hx.
  rewrite forallb_forall in H. apply H in Hx. apply N.ltb_lt. exact Hx.
Qed.

(* the usual test case: no set-up operations, the archive named as /arc/a.lzh *)
Definition arc_path : list N := [47; 97; 114; 99; 47; 97; 46; 108; 122; 104].

Lemma cli_fs_init_opens uid0 archive mtime :
  fs_fopen_rb (cli_fs_init uid0 archive mtime []) arc_path = OpenFile archive mtime.
Proof. destruct uid0; vm_compute; reflexivity. Qed.

Theorem cli_run_returns_plain : forall mktime strerror uid0 now mtime progname cmd filters archive stdin,
  bytes_ok archive -> nlen archive < EXT_LIMIT -> nlen stdin < STDIN_LIMIT ->
  exists r, cli_run mktime gmtime_utc strerror uid0 now mtime (progname :: cmd :: arc_path :: filters) archive stdin [] = Ok r.
Proof.
  intros mktime strerror uid0 now mtime progname cmd filters archive stdin Hb Hn Hs.
  apply cli_run_returns; [|exact Hs].
  unfold archive_ok, argv_file. cbn [tl parse_main].
  destruct (parse_command_line cmd) as [[mode o]|]; [|exact I].
  unfold opened_bytes. change (is_dash arc_path) with false. cbv iota.
  rewrite cli_fs_init_opens. split; assumption.
Qed.

Print Assumptions list_commands_return.
Print Assumptions test_and_print_return.
Print Assumptions extract_returns.
Print Assumptions lha_main_returns.
Print Assumptions lha_main_not_out_of_fuel.
Print Assumptions cli_run_returns.
Print Assumptions cli_run_returns_plain.

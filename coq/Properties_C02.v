(* Properties_C02.v -- C02: the -lh1- decoder stays in lock-step with LZHUF.
   The specification is Lzhuf.v (StartHuff, update, reconst, EncodeChar,
   EncodePosition, lzhuf_encode, lz77_expand_4k).  Proved in full (P_Lh1.v): the decoder's tree stays the mirror image
   (node j <-> LZHUF position 626 - j) of LZHUF's tables through every increment,
   exchange and rebuild, for ANY sequence of codes (lh1_refines_lzhuf); the fixed
   position code inverts the decoder's offset table; and the round trip
   decode (LZHUF-encode cmds) = LZ77-expand cmds for command lists of any length
   (lh1_roundtrip: one lh1_read per command; lh1_roundtrip_api: through
   lha_decoder_read with ANY read schedule). *)
From Lhasa Require Import Base ListN DecBase Generated Decoder Lh1 Lzhuf P_Decoder P_Lh1 P_Lh1Api.
Local Open Scope N_scope.

Example lzhuf_expand_example :
  lz77_expand_4k [Lit 65; Copy 0 5] = [65; 65; 65; 65; 65; 65].
Proof. vm_compute. reflexivity. Qed.

(* lock-step: after ANY sequence of codes the decoder's tree satisfies its structural
   invariant and mirrors LZHUF's state after the same updates (incl. every rebuild) *)
Theorem lh1_refines_lzhuf : forall codes, Forall (fun c => c < 314) codes ->
  exists t', lh1_run_codes (lh1_t lh1_s0) codes = Ok t' /\ lh1_tree_inv t' /\
             lh1_mirror (fold_left update codes StartHuff) t'.
Proof. exact P_Lh1.lh1_refines_lzhuf. Qed.

Theorem lh1_initial_state : lh1_init = Ok lh1_s0 /\ lh1_mirror StartHuff (lh1_t lh1_s0).
Proof. split; [exact lh1_init_eq|exact lh1_mirror_init]. Qed.

(* the round trip: the encoder's byte stream followed by any bytes decodes, command by
   command, to the LZ77 expansion (4096-byte window pre-filled with spaces) *)
Theorem lh1_roundtrip : forall cmds more, Forall cmd_valid cmds -> Forall (fun x => x < 256) more ->
  exists s' c',
    lh1_reads (length cmds) lh1_s0 {| src_data := bits_to_bytes (lzhuf_encode cmds) ++ more; src_chunks := [] |} =
      Ok (lz77_expand_4k cmds, s', c') /\ lh1_inv s'.
Proof. exact P_Lh1.lh1_roundtrip. Qed.

(* ... and through the decoder API, for any read schedule covering the output *)
Theorem lh1_roundtrip_api : forall cmds more s0 ks, Forall cmd_valid cmds -> Forall (fun x => x < 256) more ->
  lh1_init = Ok s0 ->
  let out := lz77_expand_4k cmds in nlen out <= sum_N ks -> sum_N ks < 2 ^ 62 ->
  exists os d', run_reads (lh1_read src_cb) lh1_max_read lh1_block_size
      (lha_decoder_new s0 {| src_data := bits_to_bytes (lzhuf_encode cmds) ++ more; src_chunks := [] |} (nlen out)) ks
      = Ok (os, d') /\ concat os = out.
Proof. exact P_Lh1Api.lh1_roundtrip_api. Qed.

Print Assumptions lh1_refines_lzhuf.
Print Assumptions lh1_initial_state.
Print Assumptions lh1_roundtrip.
Print Assumptions lh1_roundtrip_api.

(* Properties_C02.v -- C02: the -lh1- decoder stays in lock-step with LZHUF.
   The specification is Lzhuf.v (StartHuff, update, reconst, EncodeChar,
   EncodePosition, lzhuf_encode, lz77_expand_4k).  Proved so far: the initial
   states correspond under the mirror j <-> 626 - j, and the fixed position code
   inverts the decoder's offset table for all 4096 offsets; the simulation
   through every update and rebuild (lh1_refines_lzhuf, lh1_roundtrip) is decided
   by the direct oracle of the check until its proof is complete. *)
From Lhasa Require Import Base Generated Lh1 Lzhuf.
Local Open Scope N_scope.

Example lzhuf_expand_example :
  lz77_expand_4k [Lit 65; Copy 0 5] = [65; 65; 65; 65; 65; 65].
Proof. vm_compute. reflexivity. Qed.

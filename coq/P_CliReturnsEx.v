(* P_CliReturnsEx.v -- non-vacuity of P_CliReturns.v: the hypotheses of the theorems hold
   of concrete hostile inputs (a truncated archive, members whose data is garbage for the
   decoder the header names, random bytes, the archive on standard input, an overwrite
   prompt that never gets an answer), the theorems apply, and the runs (vm_compute) end
   with the exit statuses shown.  Also: scaled-down witnesses that the two explicit
   bounds are about the model's fuel. *)
From Lhasa Require Import Base ListN Loop Generated InputStream Header BasicReader Fs FsRun Reader
  Glob ListOut CliFilter CliExtract CliMain P_HeaderSafe P_ListOut P_CliNoFault P_CliRetBytes P_CliReturns.
From Lhasa Require P_ReaderCheck.
From Coq Require Import ZifyBool ZifyN ZifyNat.
Local Open Scope N_scope.

Module ReturnsExample.
  Import P_ReaderCheck.Example.

  (* a level-0 header like ex_header with another method name: the checksum moves with it *)
  Definition hdr (m3 m4 m5 sum : N) : list N :=
    [29; sum; 45; m3; m4; m5; 45; 90; 0; 0; 0; 90; 0; 0; 0; 0; 0; 33; 40; 32; 0; 7;
     102; 111; 120; 46; 116; 120; 116; 198; 203].

  Definition member_good : list N := ex_header 238 198 ++ ex_data.

  (* 1. a good member, then a member cut in the middle of its data *)
  Definition truncated_data : list N := member_good ++ firstn 70 member_good.
  (* 2. a good member, then a member cut in the middle of its header *)
  Definition truncated_header : list N := member_good ++ firstn 17 member_good.
  (* 3. the 90 bytes of English text handed to -lh5-, -lh1-, -lz5-, -pm2- and -lzs- as "compressed data" *)
  Definition garbage_members : list N :=
    hdr 108 104 53 243 ++ ex_data ++ hdr 108 104 49 239 ++ ex_data ++ hdr 108 122 53 5 ++ ex_data ++
    hdr 112 109 50 249 ++ ex_data ++ hdr 108 122 115 67 ++ ex_data ++ [0].
  (* 4. 600 pseudo-random bytes (a linear congruential generator) *)
  Fixpoint lcg (n : nat) (x : N) : list N :=
    match n with O => [] | S k => (x / 65536) mod 256 :: lcg k ((x * 1103515245 + 12345) mod 2147483648) end.
  Definition random_bytes : list N := lcg 600 20261001.
  (* 5. random bytes after a good member *)
  Definition good_then_random : list N := member_good ++ lcg 300 7.

  Definition archives : list (list N) :=
    [truncated_data; truncated_header; garbage_members; random_bytes; good_then_random].

  Definition commands : list (list N) :=
    [[108]; [118]; [116]; [112]; [120; 102]; [101; 102]; [120]; [116; 110]; [120; 110]; [112; 113; 50]; [118; 118]].
  (* l  v  t  p  xf  ef  x  tn  xn  pq2  vv *)

  Definition run (cmd archive stdin : list N) : outcome cli_result :=
    cli_run mktime_utc gmtime_utc (fun _ => []) false 1300000000 1200000000 [[108; 104; 97]; cmd; arc_path] archive stdin [].

  (* the hypotheses: bytes, shorter than 12 MiB *)
  Example archives_ok : forallb (fun a => forallb (fun b => b <? 256) a && (nlen a <? EXT_LIMIT)) archives = true.
  Proof. vm_compute. reflexivity. Qed.

  (* the theorem applies to every command on every one of them ... *)
  Example every_run_returns : forall cmd archive, In cmd commands -> In archive archives ->
    exists r, run cmd archive [] = Ok r.
  Proof.
    intros cmd archive _ Ha. unfold run. apply cli_run_returns_plain.
    - apply bytes_ok_forallb. pose proof archives_ok as H. rewrite forallb_forall in H. apply H in Ha.
      apply andb_true_iff in Ha. apply Ha.
    - pose proof archives_ok as H. rewrite forallb_forall in H. apply H in Ha.
      apply andb_true_iff in Ha. destruct Ha as [_ Ha]. apply N.ltb_lt. exact Ha.
    - rewrite nlen_nil. lia.
  Qed.

  (* ... and this is what the runs return: the exit statuses *)
  Definition exit_of (m : outcome cli_result) : option N := match m with Ok r => Some (cr_exit r) | _ => None end.

  Example runs_truncated_data :
    map (fun cmd => exit_of (run cmd truncated_data [])) commands =
    [Some 0; Some 0; Some 1; Some 0; Some 1; Some 1; Some 255; Some 0; Some 0; Some 0; Some 0].
  Proof. vm_compute. reflexivity. Qed.
  (* t, xf, ef: the truncated member fails; x: the second fox.txt meets the first, the prompt finds
     standard input empty and the tool exits with -1 *)

  Example runs_truncated_header :
    map (fun cmd => exit_of (run cmd truncated_header [])) commands =
    [Some 0; Some 0; Some 0; Some 0; Some 0; Some 0; Some 0; Some 0; Some 0; Some 0; Some 0].
  Proof. vm_compute. reflexivity. Qed.

  Example runs_garbage_members :
    map (fun cmd => exit_of (run cmd garbage_members [])) commands =
    [Some 0; Some 0; Some 1; Some 0; Some 1; Some 1; Some 255; Some 0; Some 0; Some 0; Some 0].
  Proof. vm_compute. reflexivity. Qed.

  (* the five headers are accepted (checksums), so the five decoders do run on the text *)
  Example garbage_has_five_members :
    match all_headers mktime_utc (lha_reader_new (lha_input_stream_new (mk_source KFile garbage_members))) with
    | Ok (_, hs) => map (fun h => cstr (h_method h)) hs
    | _ => []
    end = [[45; 108; 104; 53; 45]; [45; 108; 104; 49; 45]; [45; 108; 122; 53; 45]; [45; 112; 109; 50; 45]; [45; 108; 122; 115; 45]].
  Proof. vm_compute. reflexivity. Qed.

  Example runs_random_bytes :
    map (fun cmd => exit_of (run cmd random_bytes [])) commands =
    [Some 0; Some 0; Some 0; Some 0; Some 0; Some 0; Some 0; Some 0; Some 0; Some 0; Some 0].
  Proof. vm_compute. reflexivity. Qed.

  Example runs_good_then_random :
    map (fun cmd => exit_of (run cmd good_then_random [])) commands =
    [Some 0; Some 0; Some 0; Some 0; Some 0; Some 0; Some 0; Some 0; Some 0; Some 0; Some 0].
  Proof. vm_compute. reflexivity. Qed.

  (* ---- the archive on standard input ("-"): the prompt and the reader share the bytes ---- *)
  Definition run_dash (cmd stdin : list N) : outcome cli_result :=
    cli_run mktime_utc gmtime_utc (fun _ => []) false 1300000000 1200000000 [[108; 104; 97]; cmd; [45]] [] stdin [].

  Example dash_returns : forall cmd, In cmd commands -> exists r, run_dash cmd (member_good ++ truncated_data) = Ok r.
  Proof.
    intros cmd _. unfold run_dash. apply cli_run_returns.
    - unfold archive_ok, argv_file. cbn [tl parse_main].
      destruct (parse_command_line cmd) as [[mode o]|]; [|exact I].
      unfold opened_bytes. change (is_dash [45]) with true. cbv iota.
      split; [apply bytes_ok_forallb; vm_compute; reflexivity|vm_compute; reflexivity].
    - vm_compute. reflexivity.
  Qed.

  (* x: the second fox.txt meets the first; the answer to the prompt is whatever follows in the
     archive stream -- here the rest of the archive, which has no newline: the tool exits *)
  Example runs_dash :
    map (fun cmd => exit_of (run_dash cmd (member_good ++ truncated_data))) commands =
    [Some 0; Some 0; Some 1; Some 0; Some 1; Some 1; Some 255; Some 0; Some 0; Some 0; Some 0].
  Proof. vm_compute. reflexivity. Qed.

  (* ---- the overwrite prompt with answers that are none of y/n/a/s ---- *)
  Definition fox : list N := [102; 111; 120; 46; 116; 120; 116].
  Definition run_over (stdin : list N) : outcome cli_result :=
    cli_run mktime_utc gmtime_utc (fun _ => []) false 1300000000 1200000000 [[108; 104; 97]; [120]; arc_path]
      (member_good ++ [0]) stdin [OFopen fox None [1; 2; 3]].

  Example over_returns : forall stdin, nlen stdin < 1099511627776 -> exists r, run_over stdin = Ok r.
  Proof.
    intros stdin Hs. unfold run_over. apply cli_run_returns; [|exact Hs].
    unfold archive_ok, argv_file. cbn [tl parse_main].
    change (parse_command_line [120]) with (Some (MODE_EXTRACT, init_options)).
    split; [apply bytes_ok_forallb; vm_compute; reflexivity|vm_compute; reflexivity].
  Qed.

  Example runs_over :
    map (fun i => exit_of (run_over i))
        [ [];                                  (* end of input at once: exit(-1) *)
          [113; 10; 122; 10];                  (* "q\nz\n": two prompts, then end of input *)
          [113; 113; 113];                     (* no newline at all *)
          [113; 10; 89; 10];                   (* "q\nY\n": overwritten *)
          [10] ]                               (* "\n": No *)
    = [Some 255; Some 255; Some 255; Some 0; Some 0].
  Proof. vm_compute. reflexivity. Qed.

  (* ---- the two explicit bounds are the model's fuel, scaled down ---- *)
  (* the prompt loop has fuel 40 in the model (2^40 answers); with fuel 1 it handles two *)
  Example prompt_fuel_is_tight :
    let st := start_state (fs_init false) [113; 10; 113; 10; 113; 10] init_options in
    loop (confirm_step fox) 1 st = OutOfFuel /\ exists r, loop (confirm_step fox) 2 st = Ok r.
  Proof. vm_compute. split; [reflexivity|eexists; reflexivity]. Qed.
  (* the 12 MiB bound: P_HeaderSafe.ext_loop_fuel_is_tight *)
End ReturnsExample.

Print Assumptions ReturnsExample.every_run_returns.
Print Assumptions ReturnsExample.dash_returns.
Print Assumptions ReturnsExample.over_returns.

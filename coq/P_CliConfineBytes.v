(* P_CliConfineBytes.v -- C10: confinement of the whole run decided ON THE ARCHIVE BYTES.

   P_CliConfineLate.members_confined: every operation of an extraction, the final phase
   (deferred symbolic links) included, is below the extraction directory R PROVIDED the
   headers the loop obtains are all in a list ms that passes the test no_link_through_safe_b
   (no link member's path has the path of a SAFE link member as a proper prefix).
   P_CliMembers.presents_are_stream_headers: the headers the loop obtains are among
   stream_headers, a pure function of the stream.  Together:

     confinement_test o strm = no_link_through_safe_b (map (msum o) (stream_headers mktime strm))

   is a boolean computed from the archive bytes and the options (w=DIR, i) alone, and when it
   answers true every operation of extract_archive / lha_main / cli_run on ANY filesystem
   without symbolic links below R is below R.  (When it answers false nothing is claimed: the
   witness of the known finding F5 is such an archive, P_CliConfineBytesEx.v.)

   Lemmas and theorems only. *)
From Lhasa Require Import Base ListN Loop Generated InputStream Header BasicReader Fs FsRun Reader Glob ListOut
  CliFilter CliExtract CliMain P_HeaderSafe P_StreamEquiv P_BasicReaderIndep P_KindIndep P_CliSafe P_CliOrder P_FsConfine P_CliPath
  P_CliConfine P_CliConfineAll P_FsLinks P_CliPathLen P_CliConfineLate P_CliKindIndep P_CliMembers.
From Coq Require Import ZifyBool ZifyN ZifyNat.
Local Open Scope N_scope.


(* the stream do_command makes for an archive source *)
Definition stream_of (src : source) : istream := lha_input_stream_new src.

Lemma stream_of_wf src : wf (stream_of src).
Proof. unfold wf, stream_of. cbn [lha_input_stream_new is_leadin]. rewrite nlen_nil. lia. Qed.

Lemma stream_of_avail src : avail (stream_of src) = nlen (so_data src).
Proof. unfold avail, stream_of. cbn [lha_input_stream_new is_leadin is_src]. rewrite nlen_nil. lia. Qed.

Section Bytes.
  Variable mktime : N -> N -> N -> N -> Z -> N -> N.

  (* the members of the archive as the test sees them: extraction path, link target *)
  Definition members_of (o : lha_options) (strm : istream) : list minfo :=
    map (msum o) (stream_headers mktime strm).

  (* THE TEST, on the bytes *)
  Definition confinement_test (o : lha_options) (strm : istream) : bool :=
    no_link_through_safe_b (members_of o strm).

  (* the kind of the source does not matter *)
  Lemma bheaders_kind : forall fuel r1 r2, br_wf r1 -> br_wf r2 -> br_rel r1 r2 ->
    bheaders mktime fuel r1 = bheaders mktime fuel r2.
  Proof.
    induction fuel as [|k IH]; intros r1 r2 W1 W2 B; [reflexivity|]. cbn [bheaders].
    pose proof (next_file_kind mktime r1 r2 W1 W2 B) as O.
    destruct (lha_basic_reader_next_file mktime r1) as [[h1 a1]| |] eqn:E1,
             (lha_basic_reader_next_file mktime r2) as [[h2 a2]| |] eqn:E2; cbn [orel] in O; try contradiction;
      try reflexivity.
    destruct O as [Eh Bh]. cbn [fst snd] in Eh, Bh. subst h2. destruct h1 as [h|]; [|reflexivity].
    f_equal. apply IH; [exact (next_file_wf mktime _ _ _ W1 E1)|exact (next_file_wf mktime _ _ _ W2 E2)|exact Bh].
  Qed.

  Theorem stream_headers_kind k1 k2 data : nlen data < 1099511627776 ->
    stream_headers mktime (stream_of (mk_source k1 data)) = stream_headers mktime (stream_of (mk_source k2 data)).
  Proof.
    intros Hb. unfold stream_headers, stream_of. cbn [lha_input_stream_new is_leadin is_src mk_source so_data].
    apply bheaders_kind; [apply br_wf_new; exact Hb|apply br_wf_new; exact Hb|apply br_rel_new].
  Qed.

  Corollary confinement_test_kind o k1 k2 data : nlen data < 1099511627776 ->
    confinement_test o (stream_of (mk_source k1 data)) = confinement_test o (stream_of (mk_source k2 data)).
  Proof. intros Hb. unfold confinement_test, members_of. rewrite (stream_headers_kind k1 k2 data Hb). reflexivity. Qed.

  Variable junk : N.

  (* ---------------------------------------------------------------- *)
  (* the extraction loop                                               *)

  (* CONFINEMENT BY THE BYTES, for the loop started on a new reader over ANY stream *)
  Theorem confined_by_stream (R : phys) (o0 : lha_options) : good_w o0 ->
    forall (flt : lha_filter) (st0 : cli_state) (strm : istream) (v : res bool) (st : cli_state),
    fs_cwd (cs_fs st0) = R -> no_links_below R (fs_root (cs_fs st0)) ->
    cs_opts st0 = o0 -> cs_reader st0 = lha_reader_new strm ->
    wf strm -> avail strm < 1099511627776 -> no_shared_prompt st0 ->
    confinement_test o0 strm = true ->
    extract_archive mktime junk flt st0 = Ok (v, st) ->
    (exists new, fs_trace (cs_fs st) = new ++ fs_trace (cs_fs st0) /\ forall o, In o new -> below_op R o) /\
    links_are_members R o0 (fun h => In (msum o0 h) (members_of o0 strm)) (fs_root (cs_fs st)).
  Proof.
    intros Hw flt st0 strm v st Hc Hn Ho Er W A Np Ht H.
    apply (members_confined mktime junk R o0 Hw (members_of o0 strm) flt st0 strm v st Hc Hn Ho Er); [|exact Ht|exact H].
    intros hd Hp. unfold members_of. apply in_map.
    eapply presents_are_stream_headers; eauto.
  Qed.

  (* ... over archive bytes A (any kind of source) *)
  Theorem confined_by_bytes (R : phys) (o0 : lha_options) : good_w o0 ->
    forall (k : skind) (A : list N) (flt : lha_filter) (st0 : cli_state) (v : res bool) (st : cli_state),
    nlen A < 1099511627776 ->
    fs_cwd (cs_fs st0) = R -> no_links_below R (fs_root (cs_fs st0)) ->
    cs_opts st0 = o0 -> cs_reader st0 = lha_reader_new (lha_input_stream_new (mk_source k A)) ->
    no_shared_prompt st0 ->
    no_link_through_safe_b (map (msum o0) (stream_headers mktime (lha_input_stream_new (mk_source k A)))) = true ->
    extract_archive mktime junk flt st0 = Ok (v, st) ->
    exists new, fs_trace (cs_fs st) = new ++ fs_trace (cs_fs st0) /\ forall o, In o new -> below_op R o.
  Proof.
    intros Hw k A flt st0 v st Hb Hc Hn Ho Er Np Ht H.
    destruct (confined_by_stream R o0 Hw flt st0 (stream_of (mk_source k A)) v st Hc Hn Ho Er) as [X _];
      [apply stream_of_wf|rewrite stream_of_avail; exact Hb|exact Np|exact Ht|exact H|exact X].
  Qed.

  (* ---------------------------------------------------------------- *)
  (* the whole tool, from argv                                         *)

  Variable localtime : N -> tm.
  Variable now : N.
  Variable stdin_kind : skind.
  Variable strerror : bool -> list N.

  (* the source do_command opens for the archive argument *)
  Definition archive_source (s : fs) (stdin file : list N) : source :=
    if is_dash file then mk_source stdin_kind stdin
    else match fs_fopen_rb s file with
         | OpenFile data _ => mk_source KFile data
         | _ => mk_source KFile []
         end.

  (* any command line.  With the archive on standard input ("-") the overwrite prompt would take its
     answers from the archive bytes: the policy must not be "prompt" (option f, or q1 / q2) then. *)
  Theorem lha_main_confined_by_bytes (R : phys) argv stdin s r mode o file filters :
    lha_main mktime junk localtime now stdin_kind strerror argv stdin s = Ok r ->
    parse_main (tl argv) = Some (mode, o, file, filters) -> good_w o ->
    fs_cwd s = R -> no_links_below R (fs_root s) ->
    nlen (so_data (archive_source s stdin file)) < 1099511627776 ->
    (is_dash file = true -> o_overwrite_policy o <> LHA_OVERWRITE_PROMPT) ->
    confinement_test o (stream_of (archive_source s stdin file)) = true ->
    (exists new, fs_trace (cr_fs r) = new ++ fs_trace s /\ forall op, In op new -> below_op R op) /\
    links_are_members R o (fun h => In (msum o h) (members_of o (stream_of (archive_source s stdin file)))) (fs_root (cr_fs r)).
  Proof.
    unfold lha_main. intros H Hp Hw Hc Hn Hb Hd Ht. rewrite Hp in H.
    apply bind_ok in H. destruct H as ([v st] & Hdo & H). cbv beta iota in H. injection H as <-. cbn [cr_fs].
    set (Mem := fun h => In (msum o h) (members_of o (stream_of (archive_source s stdin file)))).
    assert (Same : cs_fs st = s ->
                   (exists new, fs_trace (cs_fs st) = new ++ fs_trace s /\ forall op, In op new -> below_op R op) /\
                   links_are_members R o Mem (fs_root (cs_fs st))).
    { intros ->. split; [exists []; split; [reflexivity|intros op []]|].
      intros suf t En. exfalso. apply (gtree_node_at _ _ _ _ Hn) in En. apply En. exists suf. reflexivity. }
    destruct (read_only_command mode (cs_opts (start_state s stdin o))) eqn:Ero.
    { apply do_command_read_only in Hdo; [|exact Ero]. apply Same. exact Hdo. }
    destruct mode; try discriminate. cbn [read_only_command start_state cs_opts] in Ero.
    rewrite do_command_eq in Hdo. unfold archive_source in *. unfold open_archive in Hdo.
    change (cs_fs (start_state s stdin o)) with s in Hdo. change (cs_stdin (start_state s stdin o)) with stdin in Hdo.
    assert (Go : forall src mt (shared : bool),
               (shared = true -> is_dash file = true) ->
               nlen (so_data src) < 1099511627776 -> confinement_test o (stream_of src) = true ->
               run_mode mktime junk localtime now MODE_EXTRACT filters mt (open_state src shared (start_state s stdin o)) = Ok (v, st) ->
               (exists new, fs_trace (cs_fs st) = new ++ fs_trace s /\ forall op, In op new -> below_op R op) /\
               links_are_members R o (fun h => In (msum o h) (members_of o (stream_of src))) (fs_root (cs_fs st))).
    { intros src mt shared Hsh Hb' Ht' Hr. unfold run_mode in Hr.
      exact (confined_by_stream R o Hw (lha_filter_init filters) (open_state src shared (start_state s stdin o))
               (stream_of src) v st Hc Hn eq_refl eq_refl (stream_of_wf src)
               (eq_ind_r (fun x => x < 1099511627776) Hb' (stream_of_avail src))
               (match shared as b return (b = true -> is_dash file = true) ->
                                         no_shared_prompt (open_state src b (start_state s stdin o)) with
                | true => fun Hs => or_intror (Hd (Hs eq_refl))
                | false => fun _ => or_introl eq_refl
                end Hsh)
               Ht' Hr). }
    destruct (is_dash file) eqn:Edash.
    - cbn [cbind fst snd] in Hdo. eapply Go; [| | |exact Hdo]; auto.
    - destruct (fs_fopen_rb s file) as [data mt0| |e] eqn:Eop.
      + cbn [cbind fst snd] in Hdo. eapply Go; [| | |exact Hdo]; [discriminate|exact Hb|exact Ht].
      + cbn [cbind fst snd] in Hdo. eapply Go; [| | |exact Hdo]; [discriminate|exact Hb|exact Ht].
      + cbn [cbind] in Hdo. injection Hdo as _ <-. apply Same. reflexivity.
  Qed.
End Bytes.

(* the differential-test form: `lha CMD /arc/a.lzh ...` or any other file argument that opens as a
   readable file with contents A, in the test filesystem after any set-up *)
Theorem cli_run_confined_by_bytes mktime localtime strerror uid0 now mtime argv archive stdin setup R r mode o file filters A mt :
  cli_run mktime localtime strerror uid0 now mtime argv archive stdin setup = Ok r ->
  parse_main (tl argv) = Some (mode, o, file, filters) -> good_w o ->
  fs_cwd (cli_fs_init uid0 archive mtime setup) = R ->
  no_links_below R (fs_root (cli_fs_init uid0 archive mtime setup)) ->
  is_dash file = false -> fs_fopen_rb (cli_fs_init uid0 archive mtime setup) file = OpenFile A mt ->
  nlen A < 1099511627776 ->
  confinement_test mktime o (stream_of (mk_source KFile A)) = true ->
  forall op, In op (fs_trace (cr_fs r)) -> below_op R op.
Proof.
  unfold cli_run. intros H Hp Hw Hc Hn Hd Ho Hb Ht.
  assert (Es : archive_source KPipe (cli_fs_init uid0 archive mtime setup) stdin file = mk_source KFile A).
  { unfold archive_source. rewrite Hd, Ho. reflexivity. }
  destruct (lha_main_confined_by_bytes mktime 0 localtime now KPipe strerror R argv stdin _ r mode o file filters
              H Hp Hw Hc Hn) as [(new & E & F) _].
  - rewrite Es. exact Hb.
  - rewrite Hd. discriminate.
  - rewrite Es. exact Ht.
  - rewrite cli_fs_init_trace, app_nil_r in E. rewrite E. exact F.
Qed.

(* `lha CMD /arc/a.lzh [file...]` in the clean test tree (no set-up operations; cwd /root, the
   archive bytes A in /arc/a.lzh): ANY command letter, options and filters, ANY archive bytes A
   below the size bound, any standard input.  If the test passes on A, every operation is below
   /root. *)
Definition bytes_arc_path : list N := [47; 97; 114; 99; 47; 97; 46; 108; 122; 104].       (* /arc/a.lzh *)

Lemma clean_open_arc uid0 A mt : fs_fopen_rb (cli_fs_init uid0 A mt []) bytes_arc_path = OpenFile A mt.
Proof. destruct uid0; vm_compute; reflexivity. Qed.

Lemma clean_cwd uid0 A mt : fs_cwd (cli_fs_init uid0 A mt []) = [bytes_root].
Proof. destruct uid0; vm_compute; reflexivity. Qed.

Lemma clean_no_links uid0 A mt : no_links_below [bytes_root] (fs_root (cli_fs_init uid0 A mt [])).
Proof.
  unfold no_links_below. apply gtree_of_links.
  assert (E : links_of [] (fs_root (cli_fs_init uid0 A mt [])) = []) by (destruct uid0; vm_compute; reflexivity).
  rewrite E. intros l t [].
Qed.

Theorem cli_arc_confined_by_bytes mktime localtime strerror uid0 now mt argv A stdin r mode o filters :
  parse_main (tl argv) = Some (mode, o, bytes_arc_path, filters) -> good_w o ->
  nlen A < 1099511627776 ->
  confinement_test mktime o (stream_of (mk_source KFile A)) = true ->
  cli_run mktime localtime strerror uid0 now mt argv A stdin [] = Ok r ->
  forall op, In op (fs_trace (cr_fs r)) -> below_op [bytes_root] op.
Proof.
  intros Hp Hw Hb Ht H.
  exact (cli_run_confined_by_bytes mktime localtime strerror uid0 now mt argv A stdin [] [bytes_root] r mode o
           bytes_arc_path filters A mt H Hp Hw (clean_cwd uid0 A mt) (clean_no_links uid0 A mt) eq_refl
           (clean_open_arc uid0 A mt) Hb Ht).
Qed.

Print Assumptions stream_headers_kind.
Print Assumptions confined_by_stream.
Print Assumptions confined_by_bytes.
Print Assumptions lha_main_confined_by_bytes.
Print Assumptions cli_run_confined_by_bytes.
Print Assumptions cli_arc_confined_by_bytes.

(* P_CliMembers.v -- C10: the members an extraction can meet are a pure function
   of the archive bytes.

   [stream_headers mktime strm]: the headers plain iteration with the basic
   reader yields (lha_basic_reader_next_file until it answers "no header" or
   fails), as a total function of the stream.  The fuel is the number of bytes
   of the source plus one: every header that is returned has taken at least two
   bytes of the stream (header_read_progress), so it is never exhausted
   (fut_in_bheaders).

   [presents_are_stream_headers]: every header the extraction loop of the tool
   obtains from lha_filter_next_file -- archive members, directories presented
   again after their contents (the tool runs under the policy END_OF_DIR),
   deferred symbolic links presented again at the end -- is one of
   [stream_headers].  The proof is an invariant of the reader [RI]: the current
   entry, the directory stack, the list of deferred links and everything the
   basic reader can still return are stream headers.  It is kept by
   lha_reader_next_file (P_ReaderIndep.next_file_presented) and by every
   operation that reaches the basic reader only through the decoder callback
   (C15: P_BasicReaderIndep.next_file_after_reads, next_file_equiv;
   P_KindIndepReader.lha_reader_extract_reach): what was done with a member
   does not change what comes after it.

   The one thing in the tool that does change it: with the archive on standard
   input ("-") the overwrite prompt takes its answer from the archive stream
   (CliExtract.stdin_data).  Hence the hypothesis [no_shared_prompt]: the
   archive is not standard input, or the overwrite policy is not "prompt" (it
   never becomes "prompt" again).

   Lemmas and theorems only. *)
From Lhasa Require Import Base ListN Loop Generated InputStream Header BasicReader AnyDecoder Decoder MacBinary
  Fs FsRun Reader Glob ListOut CliFilter CliExtract CliMain
  P_HeaderSafe P_Intact P_StreamEquiv P_BasicReaderIndep P_ReaderIndep P_ReaderIndepFull P_ReaderTwoHist
  P_KindIndepReader P_CliSafe P_CliOrder P_CliConfineLate.
From Coq Require Import ZifyBool ZifyN ZifyNat.
Local Open Scope N_scope.

Ltac binv H p E := apply bind_ok in H; destruct H as [p [E H]]; cbv beta iota in H.

(* ------------------------------------------------------------------ *)
(* 1. plain iteration with the basic reader                             *)

Section Members.
  Variable mktime : N -> N -> N -> N -> Z -> N -> N.

  Fixpoint bheaders (fuel : nat) (b : breader) : list header :=
    match fuel with
    | O => []
    | S k =>
      match lha_basic_reader_next_file mktime b with
      | Ok (Some h, b') => h :: bheaders k b'
      | _ => []
      end
    end.

  (* THE MEMBERS OF AN ARCHIVE STREAM *)
  Definition stream_headers (strm : istream) : list header :=
    bheaders (S (length (is_leadin strm) + length (so_data (is_src strm)))) (lha_basic_reader_new strm).

  (* h is among the headers the basic reader b can still return *)
  Inductive fut : breader -> header -> Prop :=
  | fut_here b h b' : lha_basic_reader_next_file mktime b = Ok (Some h, b') -> fut b h
  | fut_later b h h0 b' : lha_basic_reader_next_file mktime b = Ok (Some h0, b') -> fut b' h -> fut b h.

  Lemma fut_at_end b h : br_curr b = None -> br_eof b = true -> ~ fut b h.
  Proof.
    intros C E F.
    assert (N0 : lha_basic_reader_next_file mktime b = Ok (None, b)).
    { unfold lha_basic_reader_next_file. rewrite C. cbn [bind]. rewrite E. reflexivity. }
    inversion F; subst; congruence.
  Qed.

  (* equivalent basic readers have the same future *)
  Lemma fut_equiv a h : fut a h -> forall b, br_wf a -> br_wf b -> breader_equiv a b -> fut b h.
  Proof.
    induction 1 as [a h a' E|a h h0 a' E F IH]; intros b Wa Wb Q.
    - pose proof (next_file_equiv mktime a b Wa Wb Q) as O. rewrite E in O.
      destruct (lha_basic_reader_next_file mktime b) as [[h2 b2]| |] eqn:Eb; cbn [orel] in O; try contradiction.
      destruct O as [Eh _]. cbn [fst] in Eh. subst h2. eapply fut_here; exact Eb.
    - pose proof (next_file_equiv mktime a b Wa Wb Q) as O. rewrite E in O.
      destruct (lha_basic_reader_next_file mktime b) as [[h2 b2]| |] eqn:Eb; cbn [orel] in O; try contradiction.
      destruct O as [Eh Q2]. cbn [fst snd] in Eh, Q2. subst h2. eapply fut_later; [exact Eb|].
      apply IH; [exact (next_file_wf mktime _ _ _ Wa E)|exact (next_file_wf mktime _ _ _ Wb Eb)|exact Q2].
  Qed.

  (* C15 at this level: reads of the current member's data do not change the future *)
  Lemma fut_after_reads b sizes h : br_wf b -> fut (read_many b sizes) h -> fut b h.
  Proof.
    intros W F. pose proof (read_many_wf sizes b W) as W'.
    pose proof (next_file_after_reads mktime b sizes W) as O.
    inversion F as [a h1 a' E|a h1 h0 a' E F']; subst.
    - rewrite E in O.
      destruct (lha_basic_reader_next_file mktime b) as [[h2 b2]| |] eqn:Eb; cbn [orel] in O; try contradiction.
      destruct O as [Eh _]. cbn [fst] in Eh. subst h2. eapply fut_here; exact Eb.
    - rewrite E in O.
      destruct (lha_basic_reader_next_file mktime b) as [[h2 b2]| |] eqn:Eb; cbn [orel] in O; try contradiction.
      destruct O as [Eh Q2]. cbn [fst snd] in Eh, Q2. subst h2. eapply fut_later; [exact Eb|].
      eapply fut_equiv; [exact F'|exact (next_file_wf mktime _ _ _ W' E)|exact (next_file_wf mktime _ _ _ W Eb)|exact Q2].
  Qed.

  Lemma fut_reach b b' h : reach b b' -> br_wf b -> fut b' h -> fut b h.
  Proof. intros [sizes ->] W F. eapply fut_after_reads; eauto. Qed.

  (* ---------------------------------------------------------------- *)
  (* progress: a header that is returned has taken bytes of the stream *)

  Lemma decode_level1_progress h st h1 st1 : nlen (h_raw h) = 22 -> h_level h = 1 -> wf st ->
    decode_level1_header mktime h st = Ok (true, h1, st1) -> avail st1 + 2 <= avail st + 22.
  Proof.
    intros Hraw Hlv Hwf. unfold decode_level1_header.
    pose proof (decode_level0_header_ok mktime h st Hraw Hwf) as P.
    destruct (decode_level0_header mktime h st) as [[[ok0 ha] sa]| |]; cbn [bind]; try discriminate.
    cbn [okp l0_post] in P. destruct P as (Hwfa & Ha & Hok).
    destruct ok0; cbn [negb]; cbv beta iota; [|discriminate].
    destruct (Hok eq_refl) as [Hlva H2a]. rewrite Hlv in Hlva.
    pose proof (read_l1_extended_headers_okp (avail sa + nlen (h_raw ha)) ha sa H2a Hwfa (N.le_refl _) Hlva) as P2.
    destruct (read_l1_extended_headers ha sa) as [[[ok2 hb] sb]| |]; cbn [bind]; try discriminate.
    cbn [okp l1_post] in P2. destruct P2 as (_ & Hb & _ & HLb).
    destruct ok2; cbn [negb]; cbv beta iota; [|discriminate].
    match goal with |- bind ?m _ = _ -> _ => destruct m as [[ok3 hc]| |] end; cbn [bind]; try discriminate.
    cbv beta iota. intros Ed. injection Ed as _ _ Es. rewrite <- Es. lia.
  Qed.

  Lemma header_read_progress st h st' : wf st ->
    lha_file_header_read mktime st = Ok (Some h, st') -> wf st' /\ avail st' + 2 <= avail st.
  Proof.
    intros Hwf H.
    pose proof (lha_file_header_read_okp mktime st Hwf) as Pk. rewrite H in Pk. cbn [okp] in Pk.
    destruct Pk as [Hwf' _]. split; [exact Hwf'|].
    unfold lha_file_header_read in H.
    binv H x Er. destruct x as [r st1]. destruct r as [raw|]; [|discriminate].
    change hdr_COMMON_HEADER_LEN with 22 in Er.
    destruct (lha_input_stream_read_total st 22 Hwf) as (r' & st1' & E & Hwf1 & Hav1 & Hr).
    rewrite Er in E. injection E as <- <-. destruct Hr as [H22 Hav].
    binv H lvl El. cbv zeta in H.
    binv H x Ed. destruct x as [[ok h1] st2].
    destruct ok; cbn [negb] in H; cbv iota in H; [|discriminate].
    assert (Est : st' = st2).
    { destruct (header_post_processing_indep true h1) as [r' Hr']. cbn [negb] in Hr'.
      rewrite (Hr' st2) in H. inversion H. reflexivity. }
    subst st'. clear H.
    set (h0 := set_level (header0 raw) lvl) in Ed.
    assert (Hraw : nlen (h_raw h0) = 22) by exact H22.
    assert (Hlvl : h_level h0 = lvl) by reflexivity.
    revert Ed.
    destruct (N.eqb_spec lvl 0) as [E0|N0].
    { intros Ed. pose proof (decode_level0_header_ok mktime h0 st1 Hraw Hwf1) as P. rewrite Ed in P. cbn [okp l0_post] in P.
      destruct P as (_ & Ha & Hok). destruct (Hok eq_refl) as [_ H2]. lia. }
    destruct (N.eqb_spec lvl 1) as [E1|N1].
    { intros Ed. pose proof (decode_level1_progress h0 st1 h1 st2 Hraw (eq_trans Hlvl E1) Hwf1 Ed). lia. }
    destruct (N.eqb_spec lvl 2) as [E2|N2].
    { intros Ed. pose proof (decode_level2_header_ok h0 st1 Hraw (eq_trans Hlvl E2) Hwf1) as P. rewrite Ed in P.
      cbn [okp hdr_post] in P. destruct P as [_ Ha]. lia. }
    destruct (N.eqb_spec lvl 3) as [E3|N3].
    { intros Ed. pose proof (decode_level3_header_ok h0 st1 Hraw (eq_trans Hlvl E3) Hwf1) as P. rewrite Ed in P.
      cbn [okp hdr_post] in P. destruct P as [_ Ha]. lia. }
    intros Ed. inversion Ed.
  Qed.

  Lemma basic_next_progress b h b' : wf_reader b ->
    lha_basic_reader_next_file mktime b = Ok (Some h, b') -> wf_reader b' /\ ravail b' + 2 <= ravail b.
  Proof.
    intros Hwf H. unfold lha_basic_reader_next_file in H. binv H r1 E1.
    assert (W1 : wf_reader r1 /\ ravail r1 <= ravail b).
    { destruct (br_curr b).
      - binv E1 x Es. destruct x as [ok st1]. injection E1 as <-.
        pose proof (lha_input_stream_skip_okp (br_stream b) (br_remaining b) Hwf) as P. rewrite Es in P. cbn [okp] in P.
        unfold wf_reader, ravail. cbn [br_stream]. exact P.
      - injection E1 as <-. split; [exact Hwf|apply N.le_refl]. }
    destruct W1 as [W1 A1]. destruct (br_eof r1); [discriminate|].
    binv H x Eh. destruct x as [hh st2]. destruct hh as [hd|]; [|discriminate]. injection H as <- <-.
    destruct (header_read_progress _ _ _ W1 Eh) as [W2 A2]. unfold wf_reader, ravail in *. cbn [br_stream]. split; [exact W2|lia].
  Qed.

  (* the fuel of stream_headers is never exhausted *)
  Lemma fut_in_bheaders : forall fuel b h, wf_reader b -> ravail b < N.of_nat fuel -> fut b h -> In h (bheaders fuel b).
  Proof.
    induction fuel as [|k IH]; intros b h W A F; [lia|].
    cbn [bheaders]. inversion F as [a h1 a' E|a h1 h0 a' E F']; subst; rewrite E.
    - left. reflexivity.
    - right. destruct (basic_next_progress _ _ _ W E) as [W' A']. apply IH; [exact W'|lia|exact F'].
  Qed.

  Lemma bheaders_fut : forall fuel b h, In h (bheaders fuel b) -> fut b h.
  Proof.
    induction fuel as [|k IH]; intros b h Hin; [destruct Hin|].
    cbn [bheaders] in Hin. destruct (lha_basic_reader_next_file mktime b) as [[[h0|] b']| |] eqn:E; try destruct Hin.
    - subst h0. eapply fut_here; exact E.
    - eapply fut_later; [exact E|]. apply IH. assumption.
  Qed.

  (* the members of a stream are what the basic reader made on it can return *)
  Theorem stream_headers_spec strm h : wf strm ->
    (In h (stream_headers strm) <-> fut (lha_basic_reader_new strm) h).
  Proof.
    intros W. split; [apply bheaders_fut|]. apply fut_in_bheaders; [exact W|].
    unfold ravail, avail, nlen. cbn [lha_basic_reader_new br_stream]. lia.
  Qed.

  (* ---------------------------------------------------------------- *)
  (* 2. the reader: everything it holds and can still obtain is in M   *)

  Variable junk : N.
  Variable M : header -> Prop.

  Definition BI (b : breader) : Prop :=
    br_wf b /\ (forall h, fut b h -> M h) /\ (forall h, br_curr b = Some h -> M h).

  Definition RI (r : reader) : Prop :=
    BI (rd_br r) /\ (forall h, rd_curr r = Some h -> M h) /\
    (forall h, In h (rd_dir_stack r) -> M h) /\ (forall h, In h (rd_deferred r) -> M h).

  Lemma BI_reach b b' : reach b b' -> BI b -> BI b'.
  Proof.
    intros Hr (W & F & C). split; [eapply reach_wf; eauto|]. split.
    - intros h Hf. apply F. eapply fut_reach; eauto.
    - intros h Hc. apply C. destruct Hr as [sizes ->]. rewrite read_many_curr in Hc. exact Hc.
  Qed.

  Lemma BI_next b hh b' : BI b -> lha_basic_reader_next_file mktime b = Ok (hh, b') -> BI b'.
  Proof.
    intros (W & F & C) E. split; [eapply next_file_wf; eauto|].
    destruct (basic_next_curr mktime _ _ _ E) as [Ec Ee]. destruct hh as [h0|].
    - split.
      + intros h Hf. apply F. eapply fut_later; eauto.
      + intros h Hc. rewrite Ec in Hc. injection Hc as <-. apply F. eapply fut_here; eauto.
    - split.
      + intros h Hf. exfalso. eapply fut_at_end; [exact Ec|exact (Ee eq_refl)|exact Hf].
      + intros h Hc. rewrite Ec in Hc. discriminate.
  Qed.

  Lemma RI_new strm : BI (lha_basic_reader_new strm) -> RI (lha_reader_new strm).
  Proof.
    intros B. split; [exact B|]. unfold lha_reader_new. cbn [rd_curr rd_dir_stack rd_deferred].
    split; [discriminate|]. split; intros h [].
  Qed.

  (* lha_reader_next_file keeps the invariant and returns a member *)
  Lemma RI_next r h r' : RI r -> lha_reader_next_file mktime r = Ok (h, r') ->
    RI r' /\ (forall hd, h = Some hd -> M hd).
  Proof.
    intros (B & C & St & Df) H.
    destruct (curr_type_eq_dec (rd_type r) CT_EOF) as [Te|Te].
    { rewrite next_file_unfold, Te in H. injection H as <- <-. split; [|discriminate].
      split; [exact B|]. split; [exact C|]. split; assumption. }
    destruct (next_file_presented mktime r h r' Te H) as (br1 & Hb & Hp & Eb & _).
    assert (B1 : BI br1).
    { destruct (rd_type r); try (subst br1; exact B); destruct Hb as [hh Eh]; eapply BI_next; eauto. }
    rewrite <- Eb in B1.
    destruct Hp as [top rest r0 Es Ec Et Ed Edf _|hd r0 Ecb Ec Et Ed Edf _|l rest r0 Ecb Es Edd Ec Et Ed Edf|r0 Ecb Es Edd Ec Et Ed Edf].
    - assert (Mt : M top) by (apply St; rewrite Es; left; reflexivity).
      split; [|intros hd Eq; injection Eq as <-; exact Mt].
      split; [exact B1|]. split; [intros h0 E0; rewrite Ec in E0; injection E0 as <-; exact Mt|].
      split; [intros h0 Hi; apply St; rewrite Es; right; rewrite <- Ed; exact Hi|rewrite Edf; exact Df].
    - assert (Mh : M hd) by (destruct B1 as (_ & _ & Cb); apply Cb; rewrite Eb; exact Ecb).
      split; [|intros hd' Eq; injection Eq as <-; exact Mh].
      split; [exact B1|]. split; [intros h0 E0; rewrite Ec in E0; injection E0 as <-; exact Mh|].
      split; [rewrite Ed; exact St|rewrite Edf; exact Df].
    - assert (Ml : M l) by (apply Df; rewrite Edd; left; reflexivity).
      split; [|intros hd Eq; injection Eq as <-; exact Ml].
      split; [exact B1|]. split; [intros h0 E0; rewrite Ec in E0; injection E0 as <-; exact Ml|].
      split; [rewrite Ed; intros h0 []|intros h0 Hi; apply Df; rewrite Edd; right; rewrite <- Edf; exact Hi].
    - split; [|discriminate].
      split; [exact B1|]. split; [intros h0 E0; rewrite Ec in E0; discriminate|].
      split; [rewrite Ed; intros h0 []|rewrite Edf; intros h0 []].
  Qed.

  (* lha_reader_extract (and any operation framed like it) keeps the invariant *)
  Lemma RI_xframe r r' : RI r -> xframe r r' -> reach (rd_br r) (rd_br r') -> RI r'.
  Proof.
    intros (B & C & St & Df) (Ec & _ & _ & X) Hr.
    split; [eapply BI_reach; eauto|]. split; [rewrite Ec; exact C|].
    destruct X as [[Es Ed]|[(h & Ch & _ & _ & _ & _ & Es & Ed)|(h & Ch & _ & _ & Es & Ed)]].
    - rewrite Es, Ed. split; assumption.
    - rewrite Es, Ed. split; [|exact Df]. intros h0 [<-|Hi]; [apply C; exact Ch|apply St; exact Hi].
    - rewrite Es, Ed. split; [exact St|]. intros h0 Hi. apply insert_deferred_in in Hi.
      destruct Hi as [->|Hi]; [apply C; exact Ch|apply Df; exact Hi].
  Qed.

  Lemma RI_extract r f fn mon ok ev r' f' : RI r ->
    lha_reader_extract junk r f fn mon = Ok (ok, ev, r', f') -> RI r'.
  Proof.
    intros Hi H. eapply RI_xframe; [exact Hi|eapply lha_reader_extract_frame; eauto|eapply lha_reader_extract_reach; eauto].
  Qed.

  (* lha_filter_next_file *)
  Lemma RI_filter_next flt r h r' : RI r -> filter_next_file mktime flt r = Ok (h, r') ->
    RI r' /\ (forall hd, h = Some hd -> M hd).
  Proof.
    intros Hi. unfold filter_next_file. intros H.
    apply (P_CliSafe.loop_inv (filter_step mktime flt) RI (fun x => RI (snd x) /\ forall hd, fst x = Some hd -> M hd)) in H;
      [exact H| |exact Hi].
    clear. intros s x Hi Hs. unfold filter_step in Hs. binv Hs y En. destruct y as [h0 r0].
    destruct (RI_next _ _ _ Hi En) as [Hi' Hm].
    destruct h0 as [hd|]; [|injection Hs as <-; cbn [fst snd]; split; [exact Hi'|discriminate]].
    destruct (matches_filter flt hd); injection Hs as <-; [|exact Hi'].
    cbn [fst snd]. split; [exact Hi'|]. intros hd' Eq. injection Eq as <-. apply Hm. reflexivity.
  Qed.

  (* ---------------------------------------------------------------- *)
  (* 3. the tool                                                       *)

  (* the overwrite prompt cannot take bytes from the archive stream *)
  Definition no_shared_prompt (st : cli_state) : Prop :=
    cs_stdin_shared st = false \/ o_overwrite_policy (cs_opts st) <> LHA_OVERWRITE_PROMPT.

  Definition CI (st : cli_state) : Prop := RI (cs_reader st) /\ no_shared_prompt st.

  (* steps that leave the reader alone and keep no_shared_prompt *)
  Definition keeps (st st' : cli_state) : Prop :=
    cs_reader st' = cs_reader st /\ cs_stdin_shared st' = cs_stdin_shared st /\
    (o_overwrite_policy (cs_opts st') = LHA_OVERWRITE_PROMPT -> o_overwrite_policy (cs_opts st) = LHA_OVERWRITE_PROMPT).

  Lemma keeps_refl st : keeps st st.
  Proof. split; [reflexivity|]. split; [reflexivity|auto]. Qed.
  Lemma keeps_trans a b c : keeps a b -> keeps b c -> keeps a c.
  Proof. intros (A1 & A2 & A3) (B1 & B2 & B3). split; [congruence|]. split; [congruence|auto]. Qed.
  Lemma keeps_put_out st b : keeps st (put_out st b).
  Proof. split; [reflexivity|]. split; [reflexivity|auto]. Qed.
  Lemma keeps_put_err st b : keeps st (put_err st b).
  Proof. split; [reflexivity|]. split; [reflexivity|auto]. Qed.
  Lemma keeps_set_fs st f : keeps st (set_fs st f).
  Proof. split; [reflexivity|]. split; [reflexivity|auto]. Qed.

  Lemma CI_keeps st st' : keeps st st' -> CI st -> CI st'.
  Proof.
    intros (A & B & C) [Hr Hn]. split; [rewrite A; exact Hr|].
    destruct Hn as [Hn|Hn]; [left; congruence|right; intros E; apply Hn; apply C; exact E].
  Qed.

  Lemma file_exists_keeps filename st v st' : file_exists filename st = Ok (v, st') -> keeps st st'.
  Proof.
    unfold file_exists. destruct (arch_exists (cs_fs st) filename); intros H; injection H as _ <-;
      first [apply keeps_refl | apply keeps_put_err].
  Qed.

  Lemma set_stdin_data_keeps st d : cs_stdin_shared st = false -> keeps st (set_stdin_data st d).
  Proof. intros E. unfold set_stdin_data. rewrite E. split; [reflexivity|]. split; [reflexivity|auto]. Qed.

  Lemma prompt_user_keeps msg st v st' : cs_stdin_shared st = false ->
    prompt_user msg st = Ok (v, st') -> keeps st st'.
  Proof.
    intros Sh. unfold prompt_user. destruct (prompt_read _ 0) as [[c rest]|]; intros H; injection H as _ <-;
      (eapply keeps_trans; [apply (keeps_put_err st msg)|apply set_stdin_data_keeps; exact Sh]).
  Qed.

  Lemma set_overwrite_keeps st p : p <> LHA_OVERWRITE_PROMPT -> keeps st (set_opts st (set_overwrite (cs_opts st) p)).
  Proof. intros Hp. split; [reflexivity|]. split; [reflexivity|]. cbn. intros E. contradiction. Qed.

  Lemma confirm_file_overwrite_keeps filename st v st' : no_shared_prompt st ->
    confirm_file_overwrite filename st = Ok (v, st') -> keeps st st'.
  Proof.
    intros Hn. unfold confirm_file_overwrite. destruct (o_overwrite_policy (cs_opts st)) eqn:Ep.
    - destruct Hn as [Sh|Hn]; [|contradiction Hn; reflexivity].
      intros H.
      apply (P_CliSafe.loop_inv (confirm_step filename) (fun s => keeps st s) (fun r => keeps st (snd r))) in H;
        [exact H| |apply keeps_refl].
      clear H. intros s x Hi. unfold confirm_step. intros H.
      assert (Shs : cs_stdin_shared s = false) by (destruct Hi as (_ & E & _); congruence).
      apply bind_ok in H. destruct H as ([r st2] & Hp & H). apply prompt_user_keeps in Hp; [|exact Shs].
      assert (S2 : keeps st st2).
      { eapply keeps_trans; [exact Hi|]. eapply keeps_trans; [|exact Hp]. apply keeps_put_err. }
      destruct r as [response|c]; [|injection H as <-; exact S2].
      destruct (tolower response =? 121); [injection H as <-; exact S2|].
      destruct ((tolower response =? 110) || (tolower response =? 10)); [injection H as <-; exact S2|].
      destruct (tolower response =? 97);
        [injection H as <-; cbn [snd]; eapply keeps_trans; [exact S2|apply set_overwrite_keeps; discriminate]|].
      destruct (tolower response =? 115);
        [injection H as <-; cbn [snd]; eapply keeps_trans; [exact S2|apply set_overwrite_keeps; discriminate]|].
      injection H as <-. exact S2.
    - intros H. injection H as _ <-. apply keeps_refl.
    - intros H. injection H as _ <-. apply keeps_refl.
  Qed.

  Lemma no_shared_prompt_keeps st st' : keeps st st' -> no_shared_prompt st -> no_shared_prompt st'.
  Proof. intros (A & B & C) [Hn|Hn]; [left; congruence|right; intros E; apply Hn; apply C; exact E]. Qed.

  Lemma skip_block_keeps filename cond st v st' : no_shared_prompt st ->
    skip_block filename cond st = Ok (v, st') -> keeps st st'.
  Proof.
    intros Hn. unfold skip_block. destruct cond; [|intros H; injection H as _ <-; apply keeps_refl].
    intros H. apply cbind_ok in H. destruct H as [(c & H & _)|(ex & sta & He & H)].
    - eapply file_exists_keeps; exact H.
    - apply file_exists_keeps in He. pose proof (no_shared_prompt_keeps _ _ He Hn) as Hna.
      destruct ex; [|injection H as _ <-; exact He].
      apply cbind_ok in H. destruct H as [(c & H & _)|(yes & stb & Hc & H)].
      + eapply keeps_trans; [exact He|]. eapply confirm_file_overwrite_keeps; eauto.
      + injection H as _ <-. eapply keeps_trans; [exact He|]. eapply confirm_file_overwrite_keeps; eauto.
  Qed.

  (* make_parent_directories only sets the filesystem and stderr *)
  Lemma mpd_loop_shared rest : forall pre st, cs_stdin_shared (snd (mpd_loop pre rest st)) = cs_stdin_shared st.
  Proof.
    induction rest as [|c r IH]; intros pre st; cbn [mpd_loop snd]; [reflexivity|].
    destruct (c =? 47); [|apply IH].
    assert (K : cs_stdin_shared (snd (check_parent_directory (rev pre) st)) = cs_stdin_shared st).
    { unfold check_parent_directory. destruct (arch_exists (cs_fs st) (rev pre)); cbn [snd]; try reflexivity.
      destruct (arch_mkdir (cs_fs st) (rev pre) 493) as [ok f1]. destruct (negb ok); reflexivity. }
    destruct (check_parent_directory (rev pre) st) as [ok st1]. cbn [snd] in K.
    destruct (negb ok); cbn [snd]; [exact K|]. rewrite IH. exact K.
  Qed.

  Lemma mpd_keeps path st : keeps st (snd (make_parent_directories path st)).
  Proof.
    destruct (make_parent_directories_mkdir path st) as (_ & Er & Eo).
    split; [exact Er|]. split; [|rewrite Eo; auto].
    unfold make_parent_directories. destruct (leading_slashes (strip_trailing_slashes path)) as [lead rest].
    apply mpd_loop_shared.
  Qed.

  Lemma extract_archived_file_CI h st v st' :
    extract_archived_file junk h st = Ok (v, st') -> CI st -> CI st'.
  Proof.
    rewrite extract_archived_file_unfold. cbv zeta. intros H Hok.
    apply cbind_ok in H. destruct H as [(c & H & _)|(skip & st1 & Hs & H)].
    { apply skip_block_keeps in H; [|apply Hok]. eapply CI_keeps; eauto. }
    apply skip_block_keeps in Hs; [|apply Hok]. apply (CI_keeps _ _ Hs) in Hok. clear Hs.
    destruct skip.
    { injection H as _ <-. destruct (is_skip _); [eapply CI_keeps; [apply keeps_put_out|exact Hok]|exact Hok]. }
    destruct (negb (o_use_path (cs_opts st1)) && _); [injection H as _ <-; exact Hok|].
    pose proof (mpd_keeps (file_full_path h (cs_opts st)) st1) as Km.
    destruct (make_parent_directories (file_full_path h (cs_opts st)) st1) as [okp st2]. cbn [snd] in Km.
    apply (CI_keeps _ _ Km) in Hok. clear Km.
    destruct (negb okp); [injection H as _ <-; exact Hok|].
    binv H x Ex. destruct x as [[[success evs] r'] f'].
    destruct Hok as [Hr Hn]. apply (RI_extract _ _ _ _ _ _ _ _ Hr) in Ex.
    assert (K3 : CI (set_fs (set_reader st2 r') f')).
    { split; [exact Ex|exact Hn]. }
    injection H as _ <-.
    match goal with |- CI (if ?c then _ else _) => destruct c end;
      [|eapply CI_keeps; [apply keeps_put_out|exact K3]].
    destruct (invoked evs).
    - eapply CI_keeps; [|exact K3]. eapply keeps_trans; apply keeps_put_out.
    - destruct (h_symlink_target h).
      + eapply CI_keeps; [|exact K3]. eapply keeps_trans; apply keeps_put_out.
      + eapply CI_keeps; [apply keeps_put_out|exact K3].
  Qed.

  Lemma next_header_CI flt st h st' : CI st -> next_header mktime flt st = Ok (h, st') ->
    CI st' /\ (forall hd, h = Some hd -> M hd).
  Proof.
    intros [Hr Hn]. unfold next_header. intros H. binv H x En. destruct x as [h0 r']. injection H as <- <-.
    destruct (RI_filter_next _ _ _ _ Hr En) as [Hr' Hm]. split; [|exact Hm]. split; [exact Hr'|exact Hn].
  Qed.

  Lemma extract_archive_step_CI flt s s' : CI (snd s) ->
    extract_archive_step mktime junk flt s = Ok (inl s') -> CI (snd s').
  Proof.
    destruct s as [result st]. cbn [snd]. intros Hi. unfold extract_archive_step. intros H.
    binv H x En. destruct x as [h st1]. destruct (next_header_CI _ _ _ _ Hi En) as [Hi1 _].
    destruct h as [hd|]; [|discriminate].
    binv H y Ex. destruct y as [[ok|c] st2]; [|discriminate]. injection H as <-. cbn [snd].
    eapply extract_archived_file_CI; eauto.
  Qed.

  (* every header the extraction loop obtains is in M *)
  Theorem presents_in flt st0 hd : CI st0 -> presents mktime junk flt st0 hd -> M hd.
  Proof.
    intros Hi (n & b & st & st1 & Hit & Hn).
    assert (Hs : CI (snd (b, st))).
    { apply (P_CliSafe.iters_inv (extract_archive_step mktime junk flt) (fun s => CI (snd s))) with (n := n) (s := (true, st0));
        [|exact Hi|exact Hit].
      intros s s' Hc Hstep. eapply extract_archive_step_CI; eauto. }
    cbn [snd] in Hs. destruct (next_header_CI _ _ _ _ Hs Hn) as [_ Hm]. apply Hm. reflexivity.
  Qed.
End Members.

(* ------------------------------------------------------------------ *)
(* 4. the theorem                                                       *)

(* THE HEADERS THE EXTRACTION LOOP OBTAINS ARE HEADERS OF THE STREAM.
   Any options, any filter, any filesystem, any standard input; the reader is new on the stream
   strm (at most 24 bytes in its lead-in buffer -- none for lha_input_stream_new -- and less than
   2^40 bytes to deliver). *)
Theorem presents_are_stream_headers mktime junk flt st0 strm hd :
  cs_reader st0 = lha_reader_new strm -> wf strm -> avail strm < 1099511627776 ->
  no_shared_prompt st0 ->
  presents mktime junk flt st0 hd -> In hd (stream_headers mktime strm).
Proof.
  intros Er W A Hn Hp.
  apply (presents_in mktime junk (fun h => In h (stream_headers mktime strm)) flt st0 hd); [|exact Hp].
  split; [|exact Hn]. rewrite Er. apply RI_new.
  split.
  - unfold br_wf. cbn [lha_basic_reader_new br_stream br_curr br_eof br_remaining].
    split; [exact W|]. split; [exact A|]. right. reflexivity.
  - split.
    + intros h F. apply stream_headers_spec; assumption.
    + cbn [lha_basic_reader_new br_curr]. discriminate.
Qed.

Corollary presents_are_stream_headers_src mktime junk flt st0 k data hd :
  cs_reader st0 = lha_reader_new (lha_input_stream_new (mk_source k data)) -> nlen data < 1099511627776 ->
  no_shared_prompt st0 ->
  presents mktime junk flt st0 hd -> In hd (stream_headers mktime (lha_input_stream_new (mk_source k data))).
Proof.
  intros Er A. apply presents_are_stream_headers; [exact Er| |].
  - unfold wf. cbn [lha_input_stream_new is_leadin]. rewrite nlen_nil. lia.
  - unfold avail. cbn [lha_input_stream_new is_leadin is_src mk_source so_data]. rewrite nlen_nil. lia.
Qed.

Print Assumptions stream_headers_spec.
Print Assumptions header_read_progress.
Print Assumptions presents_in.
Print Assumptions presents_are_stream_headers.
Print Assumptions presents_are_stream_headers_src.

(* P_CliVerdict.v -- C07 at tool level: "a member is reported good only if its bytes
   match the recorded length and CRC-16", for lha t and lha x / lha e
   (src/extract.c, src/main.c; model CliExtract.v, CliMain.v).

   The library-level verdict theorems (P_ReaderCheck.v) are lifted to the tool:

   1. The loops of test_file_crc and extract_archive have the same shape
      ([member_step]): fetch the next selected header, run the body on it, clear the
      result flag when the body returns 0.  [visited s0 hd st1 ok st2] says: in the run
      started in s0 the member hd was fetched (leaving the process in st1) and the body
      returned ok, leaving st2.  [flag_spec]: the loop returns 1 iff every visited member
      returned 1.  main returns !result, and every exit() of the tool is exit(-1) = 255:
      the exit status is 0 iff every visited member returned 1, 1 iff the loop ended and
      some member returned 0 (lha_t_exit_status, lha_x_exit_status).
   2. lha t (no dry run): the body prints exactly the progress output and -- when the
      progress callback was invoked and quiet < 2 -- the line "<name>\t- Tested  " if
      lha_reader_check returned 1, "<name>\t- CRC error  " if it returned 0
      (test_member_spec).  With check_good_implies_match: a member reported good has
      decoded bytes of the header's length and CRC (t_good_implies_match); a member whose
      decoded bytes mismatch gets the CRC error line and the exit status is not 0
      (t_mismatch_implies_bad).
   3. lha x / e (no dry run): the body either does not call the library (existing file not
      overwritten; directory with option i), fails before calling it (parent directory),
      or calls lha_reader_extract once; then it prints the progress output and "Melted" /
      "Failure" according to the result (extract_member_spec).  A "Melted" line means
      extract_file returned 1, so the file holds the verified bytes
      (x_melted_implies_content); a mismatch gives "Failure", a non-zero exit status, and
      the filesystem is the opened file plus the writes: no time stamp
      (x_mismatch_implies_bad).

   Findings are listed at the end of the file (none contradicts C07). *)
From Lhasa Require Import Base ListN DecBase Loop Generated Crc16 InputStream Header BasicReader
  AnyDecoder Decoder MacBinary Fs FsRun Reader Glob ListOut CliFilter CliExtract CliMain
  P_ReaderCheck P_CliSafe P_CliOrder P_CliNoFault.
From Coq Require Import ZifyBool ZifyN ZifyNat.
Local Open Scope N_scope.

(* ------------------------------------------------------------------ *)
(* 1. the member loop                                                   *)

Section MemberLoop.
  Variable mktime : N -> N -> N -> N -> Z -> N -> N.
  Variable flt : lha_filter.
  Variable body : header -> cli_state -> outcome (res bool * cli_state).

  Definition member_step (s : bool * cli_state) : outcome ((bool * cli_state) + (res bool * cli_state)) :=
    let '(result, st) := s in
    '(h, st1) <- next_header mktime flt st ;;
    match h with
    | None => Ok (inr (RVal result, st1))
    | Some hd =>
      r <- body hd st1 ;;
      match r with
      | (RExit c, st2) => Ok (inr (RExit c, st2))
      | (RVal ok, st2) => Ok (inl (if ok then result else false, st2))
      end
    end.

  Lemma member_step_inv b st x : member_step (b, st) = Ok x ->
    (exists st1, next_header mktime flt st = Ok (None, st1) /\ x = inr (RVal b, st1)) \/
    (exists hd st1 c st2, next_header mktime flt st = Ok (Some hd, st1) /\ body hd st1 = Ok (RExit c, st2) /\
                          x = inr (RExit c, st2)) \/
    (exists hd st1 ok st2, next_header mktime flt st = Ok (Some hd, st1) /\ body hd st1 = Ok (RVal ok, st2) /\
                           x = inl (if ok then b else false, st2)).
  Proof.
    unfold member_step. intros H. apply bind_ok in H. destruct H as ([h st1] & Hn & H). cbv beta iota in H.
    destruct h as [hd|].
    - apply bind_ok in H. destruct H as ([[ok|c] st2] & Hb & H); injection H as <-.
      + right; right. exists hd, st1, ok, st2. auto.
      + right; left. exists hd, st1, c, st2. auto.
    - injection H as <-. left. exists st1. auto.
  Qed.

  (* member hd was fetched in the run from s0 (process then: st1); the body returned ok (process then: st2) *)
  Definition visited (s0 : bool * cli_state) (hd : header) (st1 : cli_state) (ok : bool) (st2 : cli_state) : Prop :=
    exists k b st, iters member_step k s0 (b, st) /\
                   next_header mktime flt st = Ok (Some hd, st1) /\ body hd st1 = Ok (RVal ok, st2).

  Lemma visited_later s s' hd st1 ok st2 :
    member_step s = Ok (inl s') -> visited s' hd st1 ok st2 -> visited s hd st1 ok st2.
  Proof.
    intros E (k & b & st & Hi & Hn & Hb). exists (S k), b, st. split; [|split; assumption].
    econstructor; eassumption.
  Qed.

  Lemma visited_cases s s' hd st1 ok st2 :
    member_step s = Ok (inl s') -> visited s hd st1 ok st2 ->
    (exists st, snd s = st /\ next_header mktime flt st = Ok (Some hd, st1) /\ body hd st1 = Ok (RVal ok, st2)) \/
    visited s' hd st1 ok st2.
  Proof.
    intros E (k & b & st & Hi & Hn & Hb). inversion Hi as [s9|n s9 s1 s2 E1 H1]; subst.
    - left. exists st. auto.
    - right. assert (s1 = s') by congruence. subst s1. exists n, b, st. auto.
  Qed.

  Lemma visited_none s x hd st1 ok st2 : member_step s = Ok (inr x) -> visited s hd st1 ok st2 ->
    exists st, snd s = st /\ next_header mktime flt st = Ok (Some hd, st1) /\ body hd st1 = Ok (RVal ok, st2).
  Proof.
    intros E (k & b & st & Hi & Hn & Hb). inversion Hi as [s9|n s9 s1 s2 E1 H1]; subst.
    - exists st. auto.
    - congruence.
  Qed.

  (* the result flag *)
  Lemma flag_spec n : forall b st v ste, loops member_step n (b, st) (v, ste) ->
    (v = RVal true -> b = true /\ forall hd st1 ok st2, visited (b, st) hd st1 ok st2 -> ok = true) /\
    (v = RVal false -> b = false \/ exists hd st1 st2, visited (b, st) hd st1 false st2) /\
    (forall c, v = RExit c -> exists hd st1, body hd st1 = Ok (RExit c, ste)).
  Proof.
    induction n as [|n IH]; intros b st v ste Hl; inversion Hl as [s9 r9 E|n9 s9 s' r9 E Hl']; subst.
    - pose proof E as E0. apply member_step_inv in E.
      destruct E as [(st1 & Hn & X)|[(hd & st1 & c & st2 & Hn & Hb & X)|(hd & st1 & ok & st2 & Hn & Hb & X)]];
        [| |discriminate]; injection X as -> ->.
      + split; [|split].
        * intros Hv. injection Hv as ->. split; [reflexivity|].
          intros hd st1' ok st2 Hvis. apply (visited_none _ _ _ _ _ _ E0) in Hvis.
          destruct Hvis as (st0 & <- & Hn' & _). cbn [snd] in Hn'. congruence.
        * intros Hv. injection Hv as ->. left. reflexivity.
        * intros c Hv. discriminate.
      + split; [|split]; try discriminate.
        intros c' Hv. injection Hv as <-. exists hd, st1. exact Hb.
    - pose proof E as E0. apply member_step_inv in E.
      destruct E as [(st1 & Hn & X)|[(hd & st1 & c & st2 & Hn & Hb & X)|(hd & st1 & ok & st2 & Hn & Hb & X)]];
        try discriminate. injection X as ->.
      destruct (IH _ _ _ _ Hl') as (A & B & C).
      split; [|split].
      + intros Hv. destruct (A Hv) as [Hb' Hall].
        assert (Hok : ok = true /\ b = true) by (destruct ok; [split; [reflexivity|exact Hb']|discriminate]).
        destruct Hok as [-> ->]. split; [reflexivity|].
        intros hd' st1' ok' st2' Hvis. apply (visited_cases _ _ _ _ _ _ E0) in Hvis.
        destruct Hvis as [(st0 & <- & Hn' & Hb2)|Hvis]; [|eapply Hall; exact Hvis].
        cbn [snd] in Hn'. congruence.
      + intros Hv. destruct (B Hv) as [Hb'|(hd' & st1' & st2' & Hvis)].
        * destruct ok; [left; exact Hb'|]. right. exists hd, st1, st2. exists O, b, st.
          split; [constructor|]. split; assumption.
        * right. exists hd', st1', st2'. eapply visited_later; eassumption.
      + exact C.
  Qed.

  (* a property of the process kept by next_header and by the body holds whenever a member is fetched *)
  Lemma visited_inv (J : cli_state -> Prop) :
    (forall st h st1, J st -> next_header mktime flt st = Ok (h, st1) -> J st1) ->
    (forall hd st1 ok st2, J st1 -> body hd st1 = Ok (RVal ok, st2) -> J st2) ->
    forall s0 hd st1 ok st2, J (snd s0) -> visited s0 hd st1 ok st2 -> J st1.
  Proof.
    intros Hn Hb s0 hd st1 ok st2 H0 (k & b & st & Hi & Hn1 & Hb1).
    apply (iters_inv member_step (fun s => J (snd s))) in Hi; [|clear - Hn Hb|exact H0].
    - cbn [snd] in Hi. eapply Hn; eassumption.
    - intros [b0 s] s' Hs E. cbn [snd] in Hs. apply member_step_inv in E.
      destruct E as [(st1 & Hn' & X)|[(hd & st1 & c & st2 & Hn' & Hb' & X)|(hd & st1 & ok & st2 & Hn' & Hb' & X)]];
        try discriminate. injection X as ->. cbn [snd]. eapply Hb; [|exact Hb']. eapply Hn; eassumption.
  Qed.
End MemberLoop.

(* ------------------------------------------------------------------ *)
(* 2. what lha_filter_next_file leaves: the header it returns is the    *)
(*    reader's current file                                             *)

Section Fetch.
  Variable mktime : N -> N -> N -> N -> Z -> N -> N.

  Lemma next_file_curr r0 h r' : lha_reader_next_file mktime r0 = Ok (Some h, r') -> rd_curr r' = Some h.
  Proof.
    intros H. apply next_file_cases in H.
    destruct H as [(_ & X & _)|(_ & br1 & linked & _ & H)]; [discriminate|].
    destruct H as [(top & rest & _ & E & ->)|[(hc & _ & E & ->)|[(_ & _ & l & rest & _ & E & ->)|(_ & _ & _ & E & _)]]];
      try discriminate; injection E as <-; reflexivity.
  Qed.

  Lemma filter_next_file_curr flt r h r' : filter_next_file mktime flt r = Ok (Some h, r') -> rd_curr r' = Some h.
  Proof.
    unfold filter_next_file. intros H.
    set (Q := fun x : option header * reader => forall hd, fst x = Some hd -> rd_curr (snd x) = Some hd).
    assert (G : Q (Some h, r')).
    { apply (loop_inv (filter_step mktime flt) (fun _ => True) Q) with (k := 40%nat) (s := r); [|exact I|exact H].
      unfold Q.
      intros s x _. unfold filter_step. intros H0.
      apply bind_ok in H0. destruct H0 as ([h0 r1] & Hn & H0). cbv beta iota in H0.
      destruct h0 as [hd|].
      + destruct (matches_filter flt hd); injection H0 as <-; [|exact I].
        cbn [fst snd]. intros hd' E. injection E as <-. eapply next_file_curr. exact Hn.
      + injection H0 as <-. cbn [fst]. discriminate. }
    apply G. reflexivity.
  Qed.

  Lemma next_header_spec flt st hd st1 : next_header mktime flt st = Ok (Some hd, st1) ->
    rd_curr (cs_reader st1) = Some hd /\ cs_fs st1 = cs_fs st /\ cs_opts st1 = cs_opts st /\ cs_out st1 = cs_out st.
  Proof.
    unfold next_header. intros H. apply bind_ok in H. destruct H as ([h' r'] & Hf & H).
    cbv beta iota in H. injection H as -> <-. apply filter_next_file_curr in Hf. repeat split. exact Hf.
  Qed.
End Fetch.

(* ------------------------------------------------------------------ *)
(* 3. lha t: one member                                                 *)

(* "\r<name>\t- Tested  \n" / "\r<name>\t- CRC error  \n" *)
Definition t_verdict_line (fn : list N) (ok : bool) : list N :=
  print_filename fn (if ok then s_tested else s_crc_error) ++ [10].

(* what test_archived_file_crc adds to stdout (newest chunk first) *)
Definition t_lines (o : lha_options) (fn : list N) (ok : bool) (evs : list (N * N)) : list (list N) :=
  (if invoked evs && (o_quiet o <? 2) then [t_verdict_line fn ok] else []) ++ [progress_output o fn s_testing evs].

(* the two verdict lines differ *)
Lemma t_verdict_lines_differ fn : t_verdict_line fn true <> t_verdict_line fn false.
Proof.
  unfold t_verdict_line, print_filename. intros E.
  rewrite <- !app_assoc in E. apply app_inv_head in E. apply app_inv_head in E. apply app_inv_head in E.
  cbv in E. discriminate.
Qed.

(* the progress callback is invoked as soon as a decoder is opened with a callback:
   lha_decoder_monitor reports block 0 *)
Lemma monitor_new_events {cbs st : Type} (bs : N) (s0 : st) (c : cbs) (len : N) :
  exists a l, snd (lha_decoder_monitor bs (lha_decoder_new s0 c len)) = a :: l.
Proof.
  unfold lha_decoder_monitor, check_progress, lha_decoder_new.
  cbn [snd d_last_block d_stream_pos d_total_blocks d_stream_length].
  unfold progress_events.
  assert (E : (0 + bs - 1) / bs = 0).
  { destruct (N.eq_dec bs 0) as [->|Hb]; [reflexivity|]. apply N.div_small. lia. }
  rewrite E. change (u32 0) with 0. change (u32 (0 + 4294967296 - 4294967295)) with 1.
  cbn [N.to_nat Pos.to_nat Pos.iter_op seq map]. eexists _, _. reflexivity.
Qed.

Lemma invoked_app a b : invoked a = true -> invoked (a ++ b) = true.
Proof. destruct a; [discriminate|reflexivity]. Qed.

Lemma t_lines_printed o fn ok evs : invoked evs = true -> o_quiet o < 2 ->
  t_lines o fn ok evs = [t_verdict_line fn ok; progress_output o fn s_testing evs].
Proof.
  intros Hi Hq. unfold t_lines. rewrite Hi. destruct (N.ltb_spec (o_quiet o) 2); [reflexivity|lia].
Qed.

Section TestMember.
  Variable junk : N.

  Lemma open_decoder_invoked r ev r1 : open_decoder junk r true = Ok (true, ev, r1) -> invoked ev = true.
  Proof.
    unfold open_decoder. destruct (rd_type r); try (intros H; discriminate).
    unfold lha_basic_reader_decode.
    destruct (br_curr (rd_br r)) as [h|]; [|intros H; discriminate].
    destruct (lha_decoder_for_name (cstr (h_method h))) as [dt|]; [|intros H; discriminate].
    destruct (dt_init dt) as [s0| |]; [|intros H; discriminate|intros H; discriminate].
    cbn [bind]. cbn [id_block_size id_dec].
    destruct (monitor_new_events (dt_block_size dt) s0 (rd_br r) (h_length h)) as (a & l & E).
    destruct (lha_decoder_monitor (dt_block_size dt) (lha_decoder_new s0 (rd_br r) (h_length h))) as [d' e].
    cbn [snd] in E. subst e.
    destruct (rd_curr r) as [ch|]; [|intros H; discriminate].
    destruct (h_os_type ch =? OS_TYPE_MACOS).
    - intros H. apply bind_ok in H. destruct H as ([ms w] & _ & H). cbv beta iota in H.
      destruct ms; [injection H as <- _; reflexivity|discriminate].
    - intros H. injection H as <- _. reflexivity.
  Qed.

  Lemma check_evs r ok evs r' h ev1 r1 :
    rd_type r = CT_NORMAL -> rd_curr r = Some h -> is_dir_method h = false ->
    open_decoder junk r true = Ok (true, ev1, r1) ->
    lha_reader_check junk r true = Ok (ok, evs, r') -> invoked evs = true.
  Proof.
    intros Ht Hc Hd Ho. rewrite (check_eq junk r true h Ht Hc Hd). intros H.
    apply bind_ok in H. destruct H as ([[okd ev] r1'] & Ho' & H). rewrite Ho in Ho'. injection Ho' as <- <- <-.
    cbv beta iota in H. apply bind_ok in H. destruct H as ([[[res ev2] r2] f2] & _ & H). cbv beta iota in H.
    injection H as _ <- _. apply invoked_app. eapply open_decoder_invoked. exact Ho.
  Qed.

  Lemma extract_evs r f name ok evs r' f' h ev1 r1 :
    rd_curr r = Some h -> open_decoder junk r true = Ok (true, ev1, r1) ->
    extract_file junk r f name true = Ok (ok, evs, r', f') -> invoked evs = true.
  Proof.
    intros Hc Ho. rewrite (extract_file_eq junk r f name true h Hc). intros H.
    apply bind_ok in H. destruct H as ([[okd ev] r1'] & Ho' & H). rewrite Ho in Ho'. injection Ho' as <- <- <-.
    cbv beta iota in H. cbn [negb] in H. pose proof (open_decoder_invoked _ _ _ Ho) as Hi.
    destruct (arch_fopen f (ex_fname h name) (ex_perms h)) as [[hd|] f1].
    - apply bind_ok in H. destruct H as ([[[res ev2] r2] f2] & _ & H). cbv beta iota zeta in H.
      injection H as _ <- _ _. apply invoked_app. exact Hi.
    - injection H as _ <- _ _. exact Hi.
  Qed.

  Lemma test_member_spec h st v st' : o_dry_run (cs_opts st) = false ->
    test_archived_file_crc junk h st = Ok (v, st') ->
    exists ok evs r', v = RVal ok /\ lha_reader_check junk (cs_reader st) true = Ok (ok, evs, r') /\
      cs_reader st' = r' /\ cs_fs st' = cs_fs st /\ cs_opts st' = cs_opts st /\
      cs_out st' = t_lines (cs_opts st) (file_full_path h (cs_opts st)) ok evs ++ cs_out st.
  Proof.
    unfold test_archived_file_crc. intros ->. intros H.
    apply bind_ok in H. destruct H as ([[ok evs] r'] & Hc & H). cbv beta iota zeta in H.
    injection H as <- <-. exists ok, evs, r'. split; [reflexivity|]. split; [exact Hc|].
    unfold t_lines, t_verdict_line. destruct (invoked evs && (o_quiet (cs_opts st) <? 2)); repeat split; reflexivity.
  Qed.

  (* with option n nothing is checked: "VERIFY <name>" and result 1 *)
  Lemma test_member_dry_run h st v st' : o_dry_run (cs_opts st) = true ->
    test_archived_file_crc junk h st = Ok (v, st') ->
    v = RVal true /\ cs_reader st' = cs_reader st /\
    cs_out st' = (if negb (is_dir_type h) then [safe_printf (s_verify ++ file_full_path h (cs_opts st)) ++ [10]] else [])
                 ++ cs_out st.
  Proof.
    unfold test_archived_file_crc. intros ->. intros H. injection H as <- <-.
    destruct (negb (is_dir_type h)); repeat split; reflexivity.
  Qed.

  (* lha_reader_check says 1 only for a member of the archive itself *)
  Lemma check_true_normal r mon evs r' : lha_reader_check junk r mon = Ok (true, evs, r') -> rd_type r = CT_NORMAL.
  Proof.
    unfold lha_reader_check. destruct (rd_type r); try (intros _; reflexivity); destruct (rd_curr r); intros H; discriminate.
  Qed.

  Lemma open_true_normal r mon ev r1 : open_decoder junk r mon = Ok (true, ev, r1) -> rd_type r = CT_NORMAL.
  Proof.
    unfold open_decoder. destruct (rd_type r); try (intros _; reflexivity); intros H; discriminate.
  Qed.

  (* reported good => the decoded bytes have the recorded length and CRC *)
  Theorem t_member_good_implies_match h st st' :
    o_dry_run (cs_opts st) = false -> rd_curr (cs_reader st) = Some h ->
    test_archived_file_crc junk h st = Ok (RVal true, st') ->
    is_dir_method h = false -> (h_os_type h =? OS_TYPE_MACOS) = false ->
    exists evs ev1 r1 chunks,
      lha_reader_check junk (cs_reader st) true = Ok (true, evs, cs_reader st') /\ invoked evs = true /\
      cs_out st' = t_lines (cs_opts st) (file_full_path h (cs_opts st)) true evs ++ cs_out st /\
      open_decoder junk (cs_reader st) true = Ok (true, ev1, r1) /\
      dd_run junk None r1 check_fs chunks (cs_reader st') check_fs /\
      let bs := concat chunks in
      nlen bs = h_length h /\ lha_crc16_buf 0 bs = h_crc h /\
      (Forall (fun b => b < 256) bs -> crc_bitwise 0 bs = h_crc h).
  Proof.
    intros Hdry Hc H Hnd Hnm.
    destruct (test_member_spec h st _ _ Hdry H) as (ok & evs & r' & Ev & Hchk & Er & _ & _ & Eo).
    injection Ev as <-. subst r'.
    pose proof (check_true_normal _ _ _ _ Hchk) as Ht.
    destruct (check_good_implies_match junk _ _ _ _ _ Hchk Ht Hc Hnd Hnm) as (ev1 & r1 & chunks & Ho & Hdd & Hm).
    exists evs, ev1, r1, chunks. split; [exact Hchk|]. split; [exact (check_evs _ _ _ _ _ _ _ Ht Hc Hnd Ho Hchk)|].
    split; [exact Eo|]. split; [exact Ho|]. split; [exact Hdd|exact Hm].
  Qed.

  (* the decoded bytes mismatch => result 0, and the line -- if one is printed -- is the CRC error line *)
  Theorem t_member_mismatch_implies_bad h st v st' ev1 r1 chunks r2 f2 :
    o_dry_run (cs_opts st) = false -> rd_curr (cs_reader st) = Some h ->
    test_archived_file_crc junk h st = Ok (v, st') ->
    is_dir_method h = false -> (h_os_type h =? OS_TYPE_MACOS) = false ->
    open_decoder junk (cs_reader st) true = Ok (true, ev1, r1) ->
    dd_run junk None r1 check_fs chunks r2 f2 ->
    nlen (concat chunks) <> h_length h \/ lha_crc16_buf 0 (concat chunks) <> h_crc h ->
    v = RVal false /\
    exists evs, invoked evs = true /\
                cs_out st' = t_lines (cs_opts st) (file_full_path h (cs_opts st)) false evs ++ cs_out st.
  Proof.
    intros Hdry Hc H Hnd Hnm Ho Hdd Hmis.
    destruct (test_member_spec h st _ _ Hdry H) as (ok & evs & r' & -> & Hchk & Er & _ & _ & Eo).
    pose proof (open_true_normal _ _ _ _ Ho) as Ht.
    assert (ok = false) by (eapply (check_mismatch_implies_bad junk); eassumption). subst ok.
    split; [reflexivity|]. exists evs. split; [exact (check_evs _ _ _ _ _ _ _ Ht Hc Hnd Ho Hchk)|exact Eo].
  Qed.
End TestMember.

(* ------------------------------------------------------------------ *)
(* 4. lha x / e: one member                                             *)

(* what extract_archived_file adds to stdout after lha_reader_extract (newest chunk first) *)
Definition x_verdict_line (fn : list N) (ok : bool) : list N :=
  print_filename fn (if ok then s_melted else s_failure) ++ [10].

Definition x_lines (o : lha_options) (fn : list N) (h : header) (ok : bool) (evs : list (N * N)) (r' : reader)
  : list (list N) :=
  (if negb (lha_reader_current_is_fake r') && (o_quiet o <? 2) then
     if invoked evs then [x_verdict_line fn ok]
     else match h_symlink_target h with Some t => [print_symlink_line fn t] | None => [] end
   else []) ++ [progress_output o fn s_melting evs].

Lemma x_verdict_lines_differ fn : x_verdict_line fn true <> x_verdict_line fn false.
Proof.
  unfold x_verdict_line, print_filename. intros E.
  rewrite <- !app_assoc in E. apply app_inv_head in E. apply app_inv_head in E. apply app_inv_head in E.
  cbv in E. discriminate.
Qed.

Lemma x_lines_printed o fn h ok evs r' :
  invoked evs = true -> lha_reader_current_is_fake r' = false -> o_quiet o < 2 ->
  x_lines o fn h ok evs r' = [x_verdict_line fn ok; progress_output o fn s_melting evs].
Proof.
  intros Hi Hf Hq. unfold x_lines. rewrite Hi, Hf. destruct (N.ltb_spec (o_quiet o) 2); [reflexivity|lia].
Qed.

(* steps that print nothing on stdout and keep q and n *)
Definition quiet_same (st st' : cli_state) : Prop :=
  cs_out st' = cs_out st /\ o_quiet (cs_opts st') = o_quiet (cs_opts st) /\
  o_dry_run (cs_opts st') = o_dry_run (cs_opts st).

Lemma quiet_same_refl st : quiet_same st st.
Proof. repeat split. Qed.
Lemma quiet_same_trans a b c : quiet_same a b -> quiet_same b c -> quiet_same a c.
Proof. intros (A1 & A2 & A3) (B1 & B2 & B3). repeat split; congruence. Qed.
Lemma quiet_same_put_err st b : quiet_same st (put_err st b).
Proof. repeat split. Qed.
Lemma quiet_same_set_overwrite st p : quiet_same st (set_opts st (set_overwrite (cs_opts st) p)).
Proof. repeat split. Qed.
Lemma quiet_same_set_stdin_data st d : quiet_same st (set_stdin_data st d).
Proof. unfold set_stdin_data. destruct (cs_stdin_shared st); repeat split. Qed.

Lemma file_exists_quiet filename st v st' : file_exists filename st = Ok (v, st') -> quiet_same st st'.
Proof.
  unfold file_exists. destruct (arch_exists (cs_fs st) filename); intros H; injection H as _ <-;
    first [apply quiet_same_refl | apply quiet_same_put_err].
Qed.

Lemma file_exists_exit filename st c st' : file_exists filename st = Ok (RExit c, st') -> c = exit_minus_1.
Proof.
  unfold file_exists. destruct (arch_exists (cs_fs st) filename); intros H; try discriminate.
  injection H as <- _. reflexivity.
Qed.

Lemma prompt_user_quiet msg st v st' : prompt_user msg st = Ok (v, st') -> quiet_same st st'.
Proof.
  unfold prompt_user. destruct (prompt_read _ 0) as [[c rest]|]; intros H; injection H as _ <-;
    (eapply quiet_same_trans; [apply (quiet_same_put_err st msg)|apply quiet_same_set_stdin_data]).
Qed.

Lemma prompt_user_exit msg st c st' : prompt_user msg st = Ok (RExit c, st') -> c = exit_minus_1.
Proof.
  unfold prompt_user. destruct (prompt_read _ 0) as [[c0 rest]|]; intros H; [discriminate|].
  injection H as <- _. reflexivity.
Qed.

Lemma confirm_file_overwrite_quiet filename st v st' :
  confirm_file_overwrite filename st = Ok (v, st') ->
  quiet_same st st' /\ (forall c, v = RExit c -> c = exit_minus_1).
Proof.
  unfold confirm_file_overwrite. destruct (o_overwrite_policy (cs_opts st)).
  - intros H.
    apply (loop_inv (confirm_step filename) (fun s => quiet_same st s)
             (fun r => quiet_same st (snd r) /\ (forall c, fst r = RExit c -> c = exit_minus_1))) in H.
    + exact H.
    + clear. intros s x Hi. unfold confirm_step. intros H.
      apply bind_ok in H. destruct H as ([r st2] & Hp & H). pose proof (prompt_user_quiet _ _ _ _ Hp) as Hq.
      assert (S2 : quiet_same st st2).
      { eapply quiet_same_trans; [exact Hi|]. eapply quiet_same_trans; [|exact Hq]. apply quiet_same_put_err. }
      destruct r as [response|c].
      2:{ injection H as <-. cbn [fst snd]. split; [exact S2|]. intros c' E. injection E as <-.
          eapply prompt_user_exit. exact Hp. }
      destruct (tolower response =? 121); [injection H as <-; cbn [fst snd]; split; [exact S2|discriminate]|].
      destruct ((tolower response =? 110) || (tolower response =? 10));
        [injection H as <-; cbn [fst snd]; split; [exact S2|discriminate]|].
      destruct (tolower response =? 97);
        [injection H as <-; cbn [fst snd]; split;
           [eapply quiet_same_trans; [exact S2|apply quiet_same_set_overwrite]|discriminate]|].
      destruct (tolower response =? 115);
        [injection H as <-; cbn [fst snd]; split;
           [eapply quiet_same_trans; [exact S2|apply quiet_same_set_overwrite]|discriminate]|].
      injection H as <-. exact S2.
    + apply quiet_same_refl.
  - intros H. injection H as <- <-. split; [apply quiet_same_refl|discriminate].
  - intros H. injection H as <- <-. split; [apply quiet_same_refl|discriminate].
Qed.

Lemma skip_block_quiet filename cond st v st' : skip_block filename cond st = Ok (v, st') ->
  quiet_same st st' /\ (forall c, v = RExit c -> c = exit_minus_1).
Proof.
  unfold skip_block. destruct cond; [|intros H; injection H as <- <-; split; [apply quiet_same_refl|discriminate]].
  intros H. apply cbind_ok in H. destruct H as [(c & H & ->)|(ex & sta & He & H)].
  - split; [eapply file_exists_quiet; exact H|]. intros c' E. injection E as <-. eapply file_exists_exit. exact H.
  - apply file_exists_quiet in He. destruct ex; [|injection H as <- <-; split; [exact He|discriminate]].
    apply cbind_ok in H. destruct H as [(c & H & ->)|(yes & stb & Hc & H)].
    + apply confirm_file_overwrite_quiet in H. destruct H as [Hq Hx].
      split; [eapply quiet_same_trans; eassumption|]. intros c' E. apply Hx. exact E.
    + injection H as <- <-. apply confirm_file_overwrite_quiet in Hc. destruct Hc as [Hq _].
      split; [eapply quiet_same_trans; eassumption|discriminate].
Qed.

(* make_parent_directories writes to stderr only *)
Lemma check_parent_directory_out path st : cs_out (snd (check_parent_directory path st)) = cs_out st.
Proof.
  unfold check_parent_directory. destruct (arch_exists (cs_fs st) path); cbn [snd]; try reflexivity.
  destruct (arch_mkdir (cs_fs st) path 493) as [ok f1]. destruct (negb ok); reflexivity.
Qed.

Lemma mpd_loop_out rest : forall pre st, cs_out (snd (mpd_loop pre rest st)) = cs_out st.
Proof.
  induction rest as [|c r IH]; intros pre st; cbn [mpd_loop]; [reflexivity|].
  destruct (c =? 47); [|apply IH].
  pose proof (check_parent_directory_out (rev pre) st) as K.
  destruct (check_parent_directory (rev pre) st) as [ok st1]. cbn [snd] in K.
  destruct (negb ok); cbn [snd]; [exact K|]. rewrite IH. exact K.
Qed.

Lemma make_parent_directories_out path st : cs_out (snd (make_parent_directories path st)) = cs_out st.
Proof.
  unfold make_parent_directories. destruct (leading_slashes (strip_trailing_slashes path)) as [lead rest].
  apply mpd_loop_out.
Qed.

Section ExtractMember.
  Variable junk : N.

  (* the process just before lha_reader_extract: the overwrite prompt and mkdir of parent
     directories have happened *)
  Definition x_pre (st st2 : cli_state) : Prop :=
    req (cs_reader st) (cs_reader st2) /\ kinds is_mkdir (cs_fs st) (cs_fs st2) /\ quiet_same st st2.

  (* the four ways extract_archived_file ends *)
  Inductive x_outcome (h : header) (st : cli_state) (v : res bool) (st' : cli_state) : Prop :=
  | X_exit c : v = RExit c -> c = exit_minus_1 -> cs_fs st' = cs_fs st -> x_outcome h st v st'
  | X_not_extracted :                       (* existing file kept, or a directory with option i *)
      v = RVal true -> cs_fs st' = cs_fs st -> req (cs_reader st) (cs_reader st') ->
      o_quiet (cs_opts st') = o_quiet (cs_opts st) -> o_dry_run (cs_opts st') = o_dry_run (cs_opts st) ->
      (cs_out st' = cs_out st \/
       cs_out st' = (safe_printf (file_full_path h (cs_opts st) ++ s_skipped) ++ [10]) :: cs_out st) ->
      x_outcome h st v st'
  | X_no_parent :                           (* make_parent_directories failed *)
      v = RVal false -> x_pre st st' -> x_outcome h st v st'
  | X_call st2 ok evs r' f' :               (* lha_reader_extract was called, once *)
      v = RVal ok -> x_pre st st2 ->
      lha_reader_extract junk (cs_reader st2) (cs_fs st2) (Some (file_full_path h (cs_opts st))) true
        = Ok (ok, evs, r', f') ->
      cs_fs st' = f' -> cs_reader st' = r' -> cs_opts st' = cs_opts st2 ->
      cs_out st' = x_lines (cs_opts st2) (file_full_path h (cs_opts st)) h ok evs r' ++ cs_out st ->
      x_outcome h st v st'.

  Theorem extract_member_spec h st v st' :
    extract_archived_file junk h st = Ok (v, st') -> x_outcome h st v st'.
  Proof.
    rewrite extract_archived_file_unfold. cbv zeta. intros H.
    apply cbind_ok in H. destruct H as [(c & H & ->)|(skip & st1 & Hs & H)].
    { pose proof (skip_block_same _ _ _ _ _ H) as (Ef & _).
      apply skip_block_quiet in H. destruct H as [_ Hx]. eapply X_exit; [reflexivity|apply Hx; reflexivity|exact Ef]. }
    pose proof (skip_block_same _ _ _ _ _ Hs) as (Ef1 & Hreq1 & _).
    apply skip_block_quiet in Hs. destruct Hs as [Hq1 _].
    destruct skip.
    { injection H as <- <-. destruct Hq1 as (Q1 & Q2 & Q3).
      destruct (is_skip (o_overwrite_policy (cs_opts st1))).
      - apply X_not_extracted; try assumption; try reflexivity. right. cbn [cs_out put_out]. rewrite Q1. reflexivity.
      - apply X_not_extracted; try assumption; try reflexivity. left. exact Q1. }
    match type of H with (if ?c then _ else _) = _ => destruct c end.
    { injection H as <- <-. destruct Hq1 as (Q1 & Q2 & Q3).
      apply X_not_extracted; try assumption; try reflexivity. left. exact Q1. }
    pose proof (make_parent_directories_mkdir (file_full_path h (cs_opts st)) st1) as Km.
    pose proof (make_parent_directories_out (file_full_path h (cs_opts st)) st1) as Ko.
    destruct (make_parent_directories (file_full_path h (cs_opts st)) st1) as [okd st2]. cbn [snd] in Km, Ko.
    destruct Km as (Km & Er & Eo).
    assert (Hpre : x_pre st st2).
    { split; [rewrite Er; exact Hreq1|]. split; [rewrite <- Ef1; exact Km|].
      destruct Hq1 as (Q1 & Q2 & Q3). unfold quiet_same. rewrite Eo, Ko. repeat split; assumption. }
    destruct (negb okd).
    { injection H as <- <-. apply X_no_parent; [reflexivity|exact Hpre]. }
    apply bind_ok in H. destruct H as ([[[success evs] r'] f'] & Hx & H). cbv beta iota zeta in H.
    injection H as <- <-.
    eapply (X_call h st _ _ st2 success evs r' f'); [reflexivity|exact Hpre|exact Hx| | | |].
    - match goal with |- cs_fs (if ?c then _ else _) = _ => destruct c end; [|reflexivity].
      destruct (invoked evs); [reflexivity|]. destruct (h_symlink_target h); reflexivity.
    - match goal with |- cs_reader (if ?c then _ else _) = _ => destruct c end; [|reflexivity].
      destruct (invoked evs); [reflexivity|]. destruct (h_symlink_target h); reflexivity.
    - match goal with |- cs_opts (if ?c then _ else _) = _ => destruct c end; [|reflexivity].
      destruct (invoked evs); [reflexivity|]. destruct (h_symlink_target h); reflexivity.
    - unfold x_lines, x_verdict_line. rewrite Eo. destruct Hpre as (_ & _ & (Q1 & _)).
      match goal with |- cs_out (if ?c then _ else _) = _ => destruct c end;
        [|cbn [cs_out put_out set_fs set_reader app]; rewrite Q1; reflexivity].
      destruct (invoked evs); [cbn [cs_out put_out set_fs set_reader app]; rewrite Q1; reflexivity|].
      destruct (h_symlink_target h); cbn [cs_out put_out set_fs set_reader app]; rewrite Q1; reflexivity.
  Qed.

  (* the options q and n never change *)
  Lemma extract_member_quiet h st ok st' : extract_archived_file junk h st = Ok (RVal ok, st') ->
    o_quiet (cs_opts st') = o_quiet (cs_opts st) /\ o_dry_run (cs_opts st') = o_dry_run (cs_opts st).
  Proof.
    intros H. apply extract_member_spec in H.
    destruct H as [c E _ _|_ _ _ Q2 Q3 _|_ (_ & _ & (_ & Q2 & Q3))|st2 ok2 evs r' f' _ (_ & _ & (_ & Q2 & Q3)) _ _ _ Eo _].
    - discriminate.
    - split; assumption.
    - split; assumption.
    - rewrite Eo. split; assumption.
  Qed.

  (* only extract_file reports progress: a call that invoked the callback was the
     extraction of a regular file of the archive *)
  Lemma extract_invoked_is_file r f name mon ok evs r' f' h :
    rd_curr r = Some h -> invoked evs = true ->
    lha_reader_extract junk r f name mon = Ok (ok, evs, r', f') ->
    rd_type r = CT_NORMAL /\ is_dir_method h = false /\ extract_file junk r f name mon = Ok (ok, evs, r', f').
  Proof.
    intros Hc Hi. unfold lha_reader_extract. rewrite Hc.
    destruct (rd_type r).
    - intros H. injection H as _ <- _ _. discriminate.
    - destruct (is_dir_method h); cbn [negb].
      + destruct (h_symlink_target h).
        * intros H. apply bind_ok in H. destruct H as ([[ok1 r1] f1] & _ & H). cbv beta iota in H.
          injection H as _ <- _ _. discriminate.
        * intros H. apply bind_ok in H. destruct H as ([[ok1 r1] f1] & _ & H). cbv beta iota in H.
          injection H as _ <- _ _. discriminate.
      + intros H. split; [reflexivity|]. split; [reflexivity|exact H].
    - destruct (match name with Some n => Some n | None => h_path h end) as [p|]; [|discriminate].
      destruct (set_directory_metadata f h p) as [x f1]. intros H. injection H as _ <- _ _. discriminate.
    - intros H. apply bind_ok in H. destruct H as ([[ok1 r1] f1] & _ & H). cbv beta iota in H.
      injection H as _ <- _ _. discriminate.
    - intros H. injection H as _ <- _ _. discriminate.
  Qed.

  (* "Melted" (the call succeeded and reported progress) => extract_file returned 1 and the
     file holds the verified bytes; the time stamp was set after the last write *)
  Theorem x_melted_implies_content h st st2 evs r' f' :
    rd_curr (cs_reader st) = Some h -> (h_os_type h =? OS_TYPE_MACOS) = false ->
    x_pre st st2 ->
    lha_reader_extract junk (cs_reader st2) (cs_fs st2) (Some (file_full_path h (cs_opts st))) true
      = Ok (true, evs, r', f') ->
    invoked evs = true ->
    let fn := file_full_path h (cs_opts st) in
    rd_type (cs_reader st2) = CT_NORMAL /\ is_dir_method h = false /\
    extract_file junk (cs_reader st2) (cs_fs st2) (Some fn) true = Ok (true, evs, r', f') /\
    (exists ev1 r1 hd f1 chunks,
       open_decoder junk (cs_reader st2) true = Ok (true, ev1, r1) /\
       arch_fopen (cs_fs st2) fn (ex_perms h) = (Some hd, f1) /\
       dd_run junk (Some hd) r1 f1 chunks r' (write_chunks hd chunks f1) /\
       nlen (concat chunks) = h_length h /\ lha_crc16_buf 0 (concat chunks) = h_crc h /\
       (Forall (fun b => b < 256) (concat chunks) -> crc_bitwise 0 (concat chunks) = h_crc h) /\
       f' = snd (set_timestamps_from_header (write_chunks hd chunks f1) fn h)) /\
    (exists hd f1 bs f2,
       arch_fopen (cs_fs st2) fn (ex_perms h) = (Some hd, f1) /\
       f' = snd (set_timestamps_from_header f2 fn h) /\
       nlen bs = h_length h /\ lha_crc16_buf 0 bs = h_crc h /\
       (file_data f1 hd = Some [] -> file_data f2 hd = Some bs)).
  Proof.
    intros Hc Hnm (Hreq & _ & _) Hx Hi. cbv zeta.
    assert (Hc2 : rd_curr (cs_reader st2) = Some h) by (destruct Hreq as (_ & E & _); rewrite E; exact Hc).
    destruct (extract_invoked_is_file _ _ _ _ _ _ _ _ _ Hc2 Hi Hx) as (Ht & Hd & Hf).
    split; [exact Ht|]. split; [exact Hd|]. split; [exact Hf|]. split.
    - destruct (extract_good_implies_match junk _ _ _ _ _ _ _ _ Hf Hc2 Hnm)
        as (ev1 & r1 & hd & f1 & chunks & Ho & Hop & Hdd & _ & Hm). cbv zeta in Hm.
      destruct Hm as (M1 & M2 & M3 & M4).
      exists ev1, r1, hd, f1, chunks. repeat split; assumption.
    - exact (extract_good_file_content junk _ _ _ _ _ _ _ _ Hf Hc2 Hnm).
  Qed.

  (* the bytes written mismatch => result 0 ("Failure"), and the filesystem is the opened file
     plus the writes: set_timestamps_from_header was not applied *)
  Theorem x_mismatch_implies_bad h st st2 ok evs r' f' ev1 r1 hd f1 chunks r2 f2 :
    rd_curr (cs_reader st) = Some h -> is_dir_method h = false -> (h_os_type h =? OS_TYPE_MACOS) = false ->
    x_pre st st2 ->
    let fn := file_full_path h (cs_opts st) in
    lha_reader_extract junk (cs_reader st2) (cs_fs st2) (Some fn) true = Ok (ok, evs, r', f') ->
    open_decoder junk (cs_reader st2) true = Ok (true, ev1, r1) ->
    arch_fopen (cs_fs st2) fn (ex_perms h) = (Some hd, f1) ->
    dd_run junk (Some hd) r1 f1 chunks r2 f2 ->
    nlen (concat chunks) <> h_length h \/ lha_crc16_buf 0 (concat chunks) <> h_crc h ->
    ok = false /\ f' = write_chunks hd chunks f1 /\ lha_reader_current_is_fake r' = false /\ invoked evs = true.
  Proof.
    intros Hc Hd Hnm (Hreq & _ & _). cbv zeta. intros Hx Ho Hop Hdd Hmis.
    assert (Hc2 : rd_curr (cs_reader st2) = Some h) by (destruct Hreq as (_ & E & _); rewrite E; exact Hc).
    pose proof (open_true_normal junk _ _ _ _ Ho) as Ht.
    rewrite (reader_extract_regular junk _ _ _ _ _ Ht Hc2 Hd) in Hx.
    destruct (extract_mismatch_implies_bad junk _ _ _ _ _ _ _ _ _ _ _ _ _ _ _ _ Hx Hc2 Hnm Ho Hop Hdd Hmis) as [E1 E2].
    split; [exact E1|]. split; [exact E2|].
    pose proof (extract_evs junk _ _ _ _ _ _ _ _ _ _ Hc2 Ho Hx) as Hi.
    apply extract_file_order in Hx. destruct Hx as [(Et & _) _].
    split; [|exact Hi]. unfold lha_reader_current_is_fake. rewrite Et, Ht. reflexivity.
  Qed.

  (* any result 0 of extract_file leaves the file without the header's time stamp *)
  Theorem x_bad_no_timestamp h st st2 evs r' f' :
    rd_curr (cs_reader st) = Some h -> is_dir_method h = false -> rd_type (cs_reader st2) = CT_NORMAL ->
    x_pre st st2 ->
    let fn := file_full_path h (cs_opts st) in
    lha_reader_extract junk (cs_reader st2) (cs_fs st2) (Some fn) true = Ok (false, evs, r', f') ->
    f' = cs_fs st2 \/
    (fst (arch_fopen (cs_fs st2) fn (ex_perms h)) = None /\ f' = snd (arch_fopen (cs_fs st2) fn (ex_perms h))) \/
    (exists hd chunks, fst (arch_fopen (cs_fs st2) fn (ex_perms h)) = Some hd /\
       f' = write_chunks hd chunks (snd (arch_fopen (cs_fs st2) fn (ex_perms h)))).
  Proof.
    intros Hc Hd Ht (Hreq & _ & _). cbv zeta. intros Hx.
    assert (Hc2 : rd_curr (cs_reader st2) = Some h) by (destruct Hreq as (_ & E & _); rewrite E; exact Hc).
    rewrite (reader_extract_regular junk _ _ _ _ _ Ht Hc2 Hd) in Hx.
    exact (extract_bad_no_timestamp junk _ _ _ _ _ _ _ _ Hx Hc2).
  Qed.
End ExtractMember.

(* ------------------------------------------------------------------ *)
(* 5. the whole tool: exit status                                        *)

Section Tool.
  Variable mktime : N -> N -> N -> N -> Z -> N -> N.
  Variable junk : N.
  Variable localtime : N -> tm.
  Variable now : N.
  Variable stdin_kind : skind.
  Variable strerror : bool -> list N.

  Notation main := (lha_main mktime junk localtime now stdin_kind strerror).
  Notation open_arc := (open_archive now stdin_kind strerror).
  Notation run := (run_mode mktime junk localtime now).

  (* main returns !do_command(...); exit(-1) is 255 for the parent *)
  Definition exit_code (v : res bool) : N :=
    match v with RVal true => 0 | RVal false => 1 | RExit c => c end.

  Lemma open_archive_inv file st0 v st : open_arc file st0 = Ok (v, st) ->
    cs_opts st = cs_opts st0 /\ cs_fs st = cs_fs st0 /\ cs_out st = cs_out st0 /\
    (forall c, v = RExit c -> c = exit_minus_1).
  Proof.
    unfold open_archive. destruct (is_dash file).
    - intros H. injection H as <- <-. repeat split. discriminate.
    - destruct (fs_fopen_rb (cs_fs st0) file); intros H; injection H as <- <-; repeat split; try discriminate.
      intros c E. injection E as <-. reflexivity.
  Qed.

  Lemma main_inv argv stdin s r : main argv stdin s = Ok r ->
    match parse_main (tl argv) with
    | None => cr_exit r = exit_minus_1
    | Some (mode, o, file, filters) =>
      (exists st, open_arc file (start_state s stdin o) = Ok (RExit exit_minus_1, st) /\
                  cr_exit r = exit_minus_1 /\ cr_fs r = s /\ cr_stdout r = []) \/
      (exists src mt shared st v ste,
         open_arc file (start_state s stdin o) = Ok (RVal (src, mt, shared), st) /\
         run mode filters mt (opened_state st src shared) = Ok (v, ste) /\
         cr_exit r = exit_code v /\ cr_stdout r = stdout_bytes ste /\ cr_stderr r = stderr_bytes ste /\
         cr_fs r = cs_fs ste)
    end.
  Proof.
    unfold lha_main. intros H. apply bind_ok in H. destruct H as ([v st] & Hc & H). cbv beta iota in H.
    injection H as <-. cbn [cr_exit cr_fs cr_stdout cr_stderr].
    destruct (parse_main (tl argv)) as [[[[mode o] file] filters]|].
    - rewrite do_command_eq in Hc. apply cbind_ok in Hc.
      destruct Hc as [(c & Ho & ->)|([[src mt] shared] & st1 & Ho & Hr)].
      + left. pose proof (open_archive_inv _ _ _ _ Ho) as (_ & Ef & Eo & Hx).
        rewrite (Hx c eq_refl) in *. exists st. split; [exact Ho|]. split; [reflexivity|]. split; [exact Ef|].
        unfold stdout_bytes. rewrite Eo. reflexivity.
      + right. exists src, mt, shared, st1, v, st. split; [exact Ho|]. split; [exact Hr|].
        split; [destruct v as [[|]|c]; reflexivity|]. repeat split.
    - unfold help_page in Hc. injection Hc as <- _. reflexivity.
  Qed.

  (* "in the run of lha <argv>, member hd was fetched (process: st1) and the body of the
     command's loop returned ok (process: st2)" *)
  Definition processed (mode : program_mode) (body : header -> cli_state -> outcome (res bool * cli_state))
             (argv : list (list N)) (stdin : list N) (s : fs)
             (hd : header) (st1 : cli_state) (ok : bool) (st2 : cli_state) : Prop :=
    exists o file filters src mt shared st,
      parse_main (tl argv) = Some (mode, o, file, filters) /\
      open_arc file (start_state s stdin o) = Ok (RVal (src, mt, shared), st) /\
      visited mktime (lha_filter_init filters) body (true, opened_state st src shared) hd st1 ok st2.

  (* the exit status of a command whose loop is member_step over [body] *)
  Lemma tool_exit_status mode body argv stdin s r o file filters :
    (forall hd st1 c st2, body hd st1 = Ok (RExit c, st2) -> c = exit_minus_1) ->
    (forall mt st1, cs_opts st1 = o ->
       run mode filters mt st1 = loop (member_step mktime (lha_filter_init filters) body) 40 (true, st1)) ->
    main argv stdin s = Ok r -> parse_main (tl argv) = Some (mode, o, file, filters) ->
    (cr_exit r = 0 \/ cr_exit r = 1 \/ cr_exit r = exit_minus_1) /\
    (cr_exit r = 0 -> forall hd st1 ok st2, processed mode body argv stdin s hd st1 ok st2 -> ok = true) /\
    (cr_exit r = 1 -> exists hd st1 st2, processed mode body argv stdin s hd st1 false st2).
  Proof.
    intros Hexit Hrun Hm Hp. apply main_inv in Hm. rewrite Hp in Hm.
    destruct Hm as [(st & Ho & Ee & _)|(src & mt & shared & st & v & ste & Ho & Hr & Ee & _)].
    { rewrite Ee. split; [right; right; reflexivity|]. split; intros X; discriminate. }
    pose proof (open_archive_inv _ _ _ _ Ho) as (Eopts & _).
    rewrite Hrun in Hr by (cbn [opened_state cs_opts]; exact Eopts).
    apply loop_sound in Hr. destruct Hr as (n & Hl & _).
    destruct (flag_spec mktime _ body n _ _ _ _ Hl) as (A & B & C).
    rewrite Ee. destruct v as [[|]|c]; cbn [exit_code].
    - split; [left; reflexivity|]. split; [|discriminate].
      intros _ hd st1 ok st2 (o' & file' & filters' & src' & mt' & shared' & st' & Hp' & Ho' & Hv).
      rewrite Hp in Hp'. injection Hp' as <- <- <-. rewrite Ho in Ho'. injection Ho' as <- <- <- <-.
      destruct (A eq_refl) as [_ Hall]. eapply Hall. exact Hv.
    - split; [right; left; reflexivity|]. split; [discriminate|]. intros _.
      destruct (B eq_refl) as [X|(hd & st1 & st2 & Hv)]; [discriminate|].
      exists hd, st1, st2. exists o, file, filters, src, mt, shared, st. auto.
    - destruct (C c eq_refl) as (hd & st1 & Hb). apply Hexit in Hb. subst c.
      split; [right; right; reflexivity|]. split; intros X; discriminate.
  Qed.

  (* ---- lha t ---- *)
  Lemma run_t filters mt st1 :
    run MODE_CRC_CHECK filters mt st1 =
    loop (member_step mktime (lha_filter_init filters) (test_archived_file_crc junk)) 40 (true, st1).
  Proof. reflexivity. Qed.

  Lemma test_member_no_exit h st c st' : test_archived_file_crc junk h st = Ok (RExit c, st') -> c = exit_minus_1.
  Proof.
    unfold test_archived_file_crc. destruct (o_dry_run (cs_opts st)); [discriminate|].
    intros H. apply bind_ok in H. destruct H as ([[ok evs] r'] & _ & H). cbv beta iota zeta in H. discriminate.
  Qed.

  Notation t_processed := (processed MODE_CRC_CHECK (test_archived_file_crc junk)).

  (* C07, lha t: the exit status.  0 iff every selected member was reported good; 1 iff the
     loop ran to the end and some member was reported bad; 255 only if the archive cannot
     be opened *)
  Theorem lha_t_exit_status argv stdin s r o file filters :
    main argv stdin s = Ok r -> parse_main (tl argv) = Some (MODE_CRC_CHECK, o, file, filters) ->
    (cr_exit r = 0 \/ cr_exit r = 1 \/ cr_exit r = exit_minus_1) /\
    (cr_exit r = 0 -> forall hd st1 ok st2, t_processed argv stdin s hd st1 ok st2 -> ok = true) /\
    (cr_exit r = 1 -> exists hd st1 st2, t_processed argv stdin s hd st1 false st2).
  Proof.
    apply tool_exit_status.
    - intros hd st1 c st2. apply test_member_no_exit.
    - intros mt st1 _. apply run_t.
  Qed.

  (* what is known about the process when a member is fetched by lha t *)
  Lemma t_processed_facts argv stdin s hd st1 ok st2 o file filters :
    parse_main (tl argv) = Some (MODE_CRC_CHECK, o, file, filters) ->
    t_processed argv stdin s hd st1 ok st2 ->
    cs_opts st1 = o /\ rd_curr (cs_reader st1) = Some hd /\
    test_archived_file_crc junk hd st1 = Ok (RVal ok, st2).
  Proof.
    intros Hp (o' & file' & filters' & src & mt & shared & st & Hp' & Ho & Hv).
    rewrite Hp in Hp'. injection Hp' as <- <- <-.
    pose proof (open_archive_inv _ _ _ _ Ho) as (Eopts & _).
    split.
    - eapply (visited_inv mktime _ _ (fun x => cs_opts x = o)); [| | |exact Hv].
      + intros x h x1 E Hn. apply next_header_opts in Hn. congruence.
      + intros h x1 b x2 E Hb. apply test_archived_file_crc_opts in Hb. congruence.
      + cbn [snd opened_state cs_opts]. exact Eopts.
    - destruct Hv as (k & b & x & _ & Hn & Hb). split; [|exact Hb].
      apply next_header_spec in Hn. destruct Hn as (E & _). exact E.
  Qed.

  (* C07, lha t, good direction: exit status 0 (or just: the member's result is 1, i.e. its
     line is the "Tested" line) => the bytes decoded for the member have the header's length
     and CRC-16 *)
  Theorem lha_t_good_implies_match argv stdin s o file filters hd st1 st2 :
    parse_main (tl argv) = Some (MODE_CRC_CHECK, o, file, filters) -> o_dry_run o = false ->
    t_processed argv stdin s hd st1 true st2 ->
    is_dir_method hd = false -> (h_os_type hd =? OS_TYPE_MACOS) = false ->
    exists evs ev1 r1 chunks,
      lha_reader_check junk (cs_reader st1) true = Ok (true, evs, cs_reader st2) /\ invoked evs = true /\
      cs_out st2 = t_lines o (file_full_path hd o) true evs ++ cs_out st1 /\
      open_decoder junk (cs_reader st1) true = Ok (true, ev1, r1) /\
      dd_run junk None r1 check_fs chunks (cs_reader st2) check_fs /\
      let bs := concat chunks in
      nlen bs = h_length hd /\ lha_crc16_buf 0 bs = h_crc hd /\
      (Forall (fun b => b < 256) bs -> crc_bitwise 0 bs = h_crc hd).
  Proof.
    intros Hp Hdry Hv Hd Hnm. destruct (t_processed_facts _ _ _ _ _ _ _ _ _ _ Hp Hv) as (Eo & Hc & Hb).
    subst o. eapply t_member_good_implies_match; eassumption.
  Qed.

  Corollary lha_t_exit0_implies_match argv stdin s r o file filters hd st1 ok st2 :
    main argv stdin s = Ok r -> parse_main (tl argv) = Some (MODE_CRC_CHECK, o, file, filters) ->
    o_dry_run o = false -> cr_exit r = 0 ->
    t_processed argv stdin s hd st1 ok st2 ->
    is_dir_method hd = false -> (h_os_type hd =? OS_TYPE_MACOS) = false ->
    ok = true /\
    exists evs ev1 r1 chunks,
      lha_reader_check junk (cs_reader st1) true = Ok (true, evs, cs_reader st2) /\ invoked evs = true /\
      cs_out st2 = t_lines o (file_full_path hd o) true evs ++ cs_out st1 /\
      open_decoder junk (cs_reader st1) true = Ok (true, ev1, r1) /\
      dd_run junk None r1 check_fs chunks (cs_reader st2) check_fs /\
      let bs := concat chunks in
      nlen bs = h_length hd /\ lha_crc16_buf 0 bs = h_crc hd /\
      (Forall (fun b => b < 256) bs -> crc_bitwise 0 bs = h_crc hd).
  Proof.
    intros Hm Hp Hdry He Hv Hd Hnm.
    destruct (lha_t_exit_status _ _ _ _ _ _ _ Hm Hp) as (_ & A & _).
    pose proof (A He _ _ _ _ Hv) as ->. split; [reflexivity|].
    eapply lha_t_good_implies_match; eassumption.
  Qed.

  (* C07, lha t, bad direction: the decoded bytes mismatch => the member's result is 0, its
     line (printed when the callback was invoked and quiet < 2) is the CRC error line, and
     the exit status of the run is not 0 *)
  Theorem lha_t_mismatch_implies_bad argv stdin s r o file filters hd st1 ok st2 ev1 r1 chunks r2 f2 :
    main argv stdin s = Ok r -> parse_main (tl argv) = Some (MODE_CRC_CHECK, o, file, filters) ->
    o_dry_run o = false ->
    t_processed argv stdin s hd st1 ok st2 ->
    is_dir_method hd = false -> (h_os_type hd =? OS_TYPE_MACOS) = false ->
    open_decoder junk (cs_reader st1) true = Ok (true, ev1, r1) ->
    dd_run junk None r1 check_fs chunks r2 f2 ->
    nlen (concat chunks) <> h_length hd \/ lha_crc16_buf 0 (concat chunks) <> h_crc hd ->
    ok = false /\
    (exists evs, invoked evs = true /\ cs_out st2 = t_lines o (file_full_path hd o) false evs ++ cs_out st1) /\
    cr_exit r <> 0.
  Proof.
    intros Hm Hp Hdry Hv Hd Hnm Ho Hdd Hmis.
    destruct (t_processed_facts _ _ _ _ _ _ _ _ _ _ Hp Hv) as (Eo & Hc & Hb). subst o.
    destruct (t_member_mismatch_implies_bad junk _ _ _ _ _ _ _ _ _ Hdry Hc Hb Hd Hnm Ho Hdd Hmis) as (Ev & Hout).
    injection Ev as ->. split; [reflexivity|]. split; [exact Hout|].
    intros He. destruct (lha_t_exit_status _ _ _ _ _ _ _ Hm Hp) as (_ & A & _).
    pose proof (A He _ _ _ _ Hv). discriminate.
  Qed.

  (* ---- lha x / e ---- *)
  Lemma run_x filters mt st1 : o_dry_run (cs_opts st1) = false ->
    run MODE_EXTRACT filters mt st1 =
    loop (member_step mktime (lha_filter_init filters) (extract_archived_file junk)) 40 (true, st1).
  Proof. intros H. unfold run_mode, extract_archive. rewrite H. reflexivity. Qed.

  Lemma extract_member_exit h st c st' : extract_archived_file junk h st = Ok (RExit c, st') -> c = exit_minus_1.
  Proof.
    intros H. apply extract_member_spec in H.
    destruct H as [c' E Ec _|E _ _ _ _ _|E _|st2 ok evs r' f' E _ _ _ _ _ _]; try discriminate.
    injection E as <-. exact Ec.
  Qed.

  Notation x_processed := (processed MODE_EXTRACT (extract_archived_file junk)).

  (* C07, lha x / e: the exit status.  255 also when stat of an existing file fails or
     standard input ends at the overwrite prompt (exit(-1) in the C) *)
  Theorem lha_x_exit_status argv stdin s r o file filters :
    main argv stdin s = Ok r -> parse_main (tl argv) = Some (MODE_EXTRACT, o, file, filters) ->
    o_dry_run o = false ->
    (cr_exit r = 0 \/ cr_exit r = 1 \/ cr_exit r = exit_minus_1) /\
    (cr_exit r = 0 -> forall hd st1 ok st2, x_processed argv stdin s hd st1 ok st2 -> ok = true) /\
    (cr_exit r = 1 -> exists hd st1 st2, x_processed argv stdin s hd st1 false st2).
  Proof.
    intros Hm Hp Hdry. revert Hm Hp. apply tool_exit_status.
    - intros hd st1 c st2. apply extract_member_exit.
    - intros mt st1 E. apply run_x. rewrite E. exact Hdry.
  Qed.

  Lemma x_processed_facts argv stdin s hd st1 ok st2 o file filters :
    parse_main (tl argv) = Some (MODE_EXTRACT, o, file, filters) ->
    x_processed argv stdin s hd st1 ok st2 ->
    o_quiet (cs_opts st1) = o_quiet o /\ o_dry_run (cs_opts st1) = o_dry_run o /\
    rd_curr (cs_reader st1) = Some hd /\
    extract_archived_file junk hd st1 = Ok (RVal ok, st2) /\ x_outcome junk hd st1 (RVal ok) st2.
  Proof.
    intros Hp (o' & file' & filters' & src & mt & shared & st & Hp' & Ho & Hv).
    rewrite Hp in Hp'. injection Hp' as <- <- <-.
    pose proof (open_archive_inv _ _ _ _ Ho) as (Eopts & _).
    assert (Q : o_quiet (cs_opts st1) = o_quiet o /\ o_dry_run (cs_opts st1) = o_dry_run o).
    { eapply (visited_inv mktime _ _ (fun x => o_quiet (cs_opts x) = o_quiet o /\ o_dry_run (cs_opts x) = o_dry_run o));
        [| | |exact Hv].
      - intros x h x1 E Hn. apply next_header_opts in Hn. rewrite Hn. exact E.
      - intros h x1 b x2 [E1 E2] Hb. apply extract_member_quiet in Hb. destruct Hb as [Q1 Q2]. split; congruence.
      - cbn [snd opened_state cs_opts]. rewrite Eopts. split; reflexivity. }
    destruct Q as [Q1 Q2]. split; [exact Q1|]. split; [exact Q2|].
    destruct Hv as (k & b & x & _ & Hn & Hb).
    apply next_header_spec in Hn. destruct Hn as (E & _). split; [exact E|]. split; [exact Hb|].
    apply extract_member_spec. exact Hb.
  Qed.

  (* C07, lha x / e, bad direction at tool level: a member whose result is 0 makes the exit
     status non-zero; with x_mismatch_implies_bad: bytes written that mismatch => "Failure",
     no time stamp, exit status not 0 *)
  Theorem lha_x_mismatch_implies_bad argv stdin s r o file filters hd st1 ok st2
          st' evs r' f' ev1 r1 fh f1 chunks r2 f2 :
    main argv stdin s = Ok r -> parse_main (tl argv) = Some (MODE_EXTRACT, o, file, filters) ->
    o_dry_run o = false ->
    x_processed argv stdin s hd st1 ok st2 ->
    is_dir_method hd = false -> (h_os_type hd =? OS_TYPE_MACOS) = false ->
    let fn := file_full_path hd (cs_opts st1) in
    (* the call of lha_reader_extract made for this member (X_call of x_outcome) *)
    x_pre st1 st' ->
    lha_reader_extract junk (cs_reader st') (cs_fs st') (Some fn) true = Ok (ok, evs, r', f') ->
    (* what it decoded *)
    open_decoder junk (cs_reader st') true = Ok (true, ev1, r1) ->
    arch_fopen (cs_fs st') fn (ex_perms hd) = (Some fh, f1) ->
    dd_run junk (Some fh) r1 f1 chunks r2 f2 ->
    nlen (concat chunks) <> h_length hd \/ lha_crc16_buf 0 (concat chunks) <> h_crc hd ->
    ok = false /\ f' = write_chunks fh chunks f1 /\ lha_reader_current_is_fake r' = false /\ invoked evs = true /\
    cr_exit r <> 0.
  Proof.
    intros Hm Hp Hdry Hv Hd Hnm. cbv zeta. intros Hpre Hx Ho Hop Hdd Hmis.
    destruct (x_processed_facts _ _ _ _ _ _ _ _ _ _ Hp Hv) as (_ & _ & Hc & _ & _).
    destruct (x_mismatch_implies_bad junk _ _ _ _ _ _ _ _ _ _ _ _ _ _ Hc Hd Hnm Hpre Hx Ho Hop Hdd Hmis) as (E1 & E2 & E3 & E4).
    split; [exact E1|]. split; [exact E2|]. split; [exact E3|]. split; [exact E4|].
    intros He. destruct (lha_x_exit_status _ _ _ _ _ _ _ Hm Hp Hdry) as (_ & A & _).
    pose proof (A He _ _ _ _ Hv). congruence.
  Qed.

  (* any member with result 0 (parent directory, fopen failure, unknown method, mismatch,
     failed symlink / mkdir): the exit status is not 0 *)
  Theorem lha_x_bad_exit_nonzero argv stdin s r o file filters hd st1 st2 :
    main argv stdin s = Ok r -> parse_main (tl argv) = Some (MODE_EXTRACT, o, file, filters) ->
    o_dry_run o = false -> x_processed argv stdin s hd st1 false st2 -> cr_exit r <> 0.
  Proof.
    intros Hm Hp Hdry Hv He. destruct (lha_x_exit_status _ _ _ _ _ _ _ Hm Hp Hdry) as (_ & A & _).
    pose proof (A He _ _ _ _ Hv). discriminate.
  Qed.

  Theorem lha_t_bad_exit_nonzero argv stdin s r o file filters hd st1 st2 :
    main argv stdin s = Ok r -> parse_main (tl argv) = Some (MODE_CRC_CHECK, o, file, filters) ->
    t_processed argv stdin s hd st1 false st2 -> cr_exit r <> 0.
  Proof.
    intros Hm Hp Hv He. destruct (lha_t_exit_status _ _ _ _ _ _ _ Hm Hp) as (_ & A & _).
    pose proof (A He _ _ _ _ Hv). discriminate.
  Qed.
End Tool.

(* ------------------------------------------------------------------ *)
(* 6. Non-vacuity: a two-member archive, one member with a wrong CRC     *)

From Coq Require Import Strings.String Strings.Ascii.
Import List ListNotations.
From Lhasa Require Import P_ListOut.

Module VerdictExample.
  Import P_ReaderCheck.Example.
  Local Open Scope N_scope.

  (* fox.txt: 90 stored bytes, CRC 0xCBC6 recorded; bad.txt: the same bytes, CRC 0xCBC7 recorded *)
  Definition bad_header : list N :=
    [29; 201; 45; 108; 104; 48; 45; 90; 0; 0; 0; 90; 0; 0; 0; 0; 0; 33; 40; 32; 0; 7;
     98; 97; 100; 46; 116; 120; 116; 199; 203].
  Definition archive : list N := ex_header 238 198 ++ ex_data ++ bad_header ++ ex_data ++ [0].
  Definition good_archive : list N := ex_header 238 198 ++ ex_data ++ [0].

  Definition arc_path : list N := [47;97;114;99;47;97;46;108;122;104].      (* /arc/a.lzh *)
  Definition argv (cmd : string) : list (list N) := [[108;104;97]; str cmd; arc_path].
  Definition fs0 (a : list N) : fs := cli_fs_init false a 1200000000 [].
  Notation run cmd a :=
    (lha_main mktime_utc 0 gmtime_utc 1300000000 KPipe (fun _ : bool => @nil N) (argv cmd) [] (fs0 a)).
  (* = cli_run mktime_utc gmtime_utc (fun _ => []) false 1300000000 1200000000 (argv cmd) a [] [] *)

  Definition summary (o : outcome cli_result) : option (list N * N) :=
    match o with Ok r => Some (cr_stdout r, cr_exit r) | _ => None end.

  Definition cr : string := String (ascii_of_nat 13) EmptyString.
  Definition tab : string := String (ascii_of_nat 9) EmptyString.
  Definition nl : string := String (ascii_of_nat 10) EmptyString.

  (* lha t: "Tested" for the first member, "CRC error" for the second, exit status 1 *)
  Example t_two_members :
    summary (run "t" archive) =
    Some (str (cr ++ "fox.txt" ++ tab ++ "- Testing  :  ." ++ cr ++ "fox.txt" ++ tab ++ "- Testing  :  o"
               ++ cr ++ "fox.txt" ++ tab ++ "- Tested  " ++ nl
               ++ cr ++ "bad.txt" ++ tab ++ "- Testing  :  ." ++ cr ++ "bad.txt" ++ tab ++ "- Testing  :  o"
               ++ cr ++ "bad.txt" ++ tab ++ "- CRC error  " ++ nl)%string, 1).
  Proof. vm_compute. reflexivity. Qed.

  (* the good member alone: exit status 0 *)
  Example t_good_member :
    summary (run "t" good_archive) =
    Some (str (cr ++ "fox.txt" ++ tab ++ "- Testing  :  ." ++ cr ++ "fox.txt" ++ tab ++ "- Testing  :  o"
               ++ cr ++ "fox.txt" ++ tab ++ "- Tested  " ++ nl)%string, 0).
  Proof. vm_compute. reflexivity. Qed.

  (* quiet level 2: no lines at all, the exit status still says so *)
  Example t_quiet : summary (run "tq2" archive) = Some ([], 1).
  Proof. vm_compute. reflexivity. Qed.

  (* FINDING 1 (not a violation of C07: nothing is called "Tested"): with option n, lha t checks
     nothing -- "VERIFY <name>" per member and exit status 0 for the archive with the bad CRC
     (src/extract.c test_archived_file_crc: if (options->dry_run) { ... return 1; }) *)
  Example t_dry_run_checks_nothing :
    summary (run "tn" archive) = Some (str ("VERIFY fox.txt" ++ nl ++ "VERIFY bad.txt" ++ nl)%string, 0).
  Proof. vm_compute. reflexivity. Qed.

  (* FINDING 2: a member reported bad need not get a "CRC error" line.  For a member whose
     method has no decoder, lha_reader_check returns 0 without ever invoking the progress
     callback, and test_archived_file_crc prints the verdict only "if (progress.invoked &&
     options->quiet < 2)" (src/extract.c): nothing at all is printed; only the exit status
     (1) reports the member.  Same for lha x: no "Failure" line. *)
  Definition unknown_header : list N :=
    [29; 241; 45; 108; 104; 51; 45; 90; 0; 0; 0; 90; 0; 0; 0; 0; 0; 33; 40; 32; 0; 7;
     102; 111; 120; 46; 116; 120; 116; 198; 203].                          (* method "-lh3-" *)
  Definition unknown_archive : list N := unknown_header ++ ex_data ++ [0].
  Example t_unknown_method_silent : summary (run "t" unknown_archive) = Some ([], 1).
  Proof. vm_compute. reflexivity. Qed.
  Example x_unknown_method_silent : summary (run "xf" unknown_archive) = Some ([], 1).
  Proof. vm_compute. reflexivity. Qed.

  (* lha x: "Melted" / "Failure", exit status 1 *)
  Example x_two_members :
    summary (run "xf" archive) =
    Some (str (cr ++ "fox.txt" ++ tab ++ "- Melting  :  ." ++ cr ++ "fox.txt" ++ tab ++ "- Melting  :  o"
               ++ cr ++ "fox.txt" ++ tab ++ "- Melted  " ++ nl
               ++ cr ++ "bad.txt" ++ tab ++ "- Melting  :  ." ++ cr ++ "bad.txt" ++ tab ++ "- Melting  :  o"
               ++ cr ++ "bad.txt" ++ tab ++ "- Failure  " ++ nl)%string, 1).
  Proof. vm_compute. reflexivity. Qed.

  (* ... and the trace of the filesystem (newest first): both files are created and written; only
     fox.txt gets its time stamp *)
  Definition is_utime (o : fsop) : bool := match o with OpUtime _ _ => true | _ => false end.
  Definition is_create_op (o : fsop) : bool := match o with OpCreate _ => true | _ => false end.
  Definition op_loc (o : fsop) : phys :=
    match o with
    | OpMkdir l _ | OpCreate l | OpUnlink l | OpSymlink l _ | OpChmod l _ | OpChown l | OpUtime l _ | OpWrite l _ => l
    end.
  Definition trace_of (o : outcome cli_result) : list fsop := match o with Ok r => fs_trace (cr_fs r) | _ => [] end.

  Example x_time_stamps :
    map (fun o => last (op_loc o) []) (filter is_create_op (trace_of (run "xf" archive))) = [str "bad.txt"; str "fox.txt"] /\
    map (fun o => last (op_loc o) []) (filter is_utime (trace_of (run "xf" archive))) = [str "fox.txt"].
  Proof. split; vm_compute; reflexivity. Qed.

  (* the theorems applied to these runs: a member reported bad exists (from the exit status) ... *)
  Lemma parse_t : parse_main (tl (argv "t")) = Some (MODE_CRC_CHECK, init_options, arc_path, []).
  Proof. vm_compute. reflexivity. Qed.

  Lemma summary_inv o out e : summary o = Some (out, e) -> exists r, o = Ok r /\ cr_exit r = e.
  Proof. destruct o as [r| |]; cbn [summary]; intros H; try discriminate. injection H as _ <-. eauto. Qed.

  Example t_some_member_bad :
    exists hd st1 st2,
      processed mktime_utc 1300000000 KPipe (fun _ => []) MODE_CRC_CHECK (test_archived_file_crc 0)
                (argv "t") [] (fs0 archive) hd st1 false st2.
  Proof.
    destruct (summary_inv _ _ _ t_two_members) as (r & E & X).
    exact (proj2 (proj2 (lha_t_exit_status mktime_utc 0 gmtime_utc 1300000000 KPipe (fun _ : bool => [])
                           (argv "t") [] (fs0 archive) r init_options arc_path [] E parse_t)) X).
  Qed.

  (* ... and the first member is processed with result 1 (so t_member_good_implies_match applies to it) *)
  Definition first_visit (flt : lha_filter) (body : header -> cli_state -> outcome (res bool * cli_state))
             (st0 : cli_state) : option (header * cli_state * bool * cli_state) :=
    match next_header mktime_utc flt st0 with
    | Ok (Some hd, st1) => match body hd st1 with Ok (RVal ok, st2) => Some (hd, st1, ok, st2) | _ => None end
    | _ => None
    end.

  Lemma first_visit_visited flt body st0 hd st1 ok st2 :
    first_visit flt body st0 = Some (hd, st1, ok, st2) -> visited mktime_utc flt body (true, st0) hd st1 ok st2.
  Proof.
    unfold first_visit. destruct (next_header mktime_utc flt st0) as [[[h|] s1]| |] eqn:En; try discriminate.
    destruct (body h s1) as [[[b|c] s2]| |] eqn:Eb; try discriminate.
    intros H. injection H as <- <- <- <-. exists O, true, st0. split; [constructor|]. split; assumption.
  Qed.

  Definition t_state0 : cli_state :=
    opened_state (start_state (fs0 archive) [] init_options) (mk_source KFile archive) false.

  Example t_first_member_good :
    exists hd st1 st2,
      processed mktime_utc 1300000000 KPipe (fun _ => []) MODE_CRC_CHECK (test_archived_file_crc 0)
                (argv "t") [] (fs0 archive) hd st1 true st2 /\
      is_dir_method hd = false /\ (h_os_type hd =? OS_TYPE_MACOS) = false /\ h_length hd = 90 /\ h_crc hd = 52166.
  Proof.
    assert (X : match first_visit (lha_filter_init []) (test_archived_file_crc 0) t_state0 with
                | Some (hd, _, ok, _) =>
                  ok = true /\ is_dir_method hd = false /\ (h_os_type hd =? OS_TYPE_MACOS) = false /\
                  h_length hd = 90 /\ h_crc hd = 52166
                | None => False
                end) by (vm_compute; repeat split; reflexivity).
    destruct (first_visit (lha_filter_init []) (test_archived_file_crc 0) t_state0) as [[[[hd st1] ok] st2]|] eqn:F;
      [|contradiction].
    destruct X as (-> & X). exists hd, st1, st2. split; [|exact X].
    exists init_options, arc_path, [], (mk_source KFile archive), 1200000000, false,
           (start_state (fs0 archive) [] init_options).
    split; [exact parse_t|]. split; [vm_compute; reflexivity|].
    apply first_visit_visited. exact F.
  Qed.
End VerdictExample.

Print Assumptions flag_spec.
Print Assumptions test_member_spec.
Print Assumptions t_member_good_implies_match.
Print Assumptions t_member_mismatch_implies_bad.
Print Assumptions extract_member_spec.
Print Assumptions x_melted_implies_content.
Print Assumptions x_mismatch_implies_bad.
Print Assumptions x_bad_no_timestamp.
Print Assumptions lha_t_exit_status.
Print Assumptions lha_t_good_implies_match.
Print Assumptions lha_t_exit0_implies_match.
Print Assumptions lha_t_mismatch_implies_bad.
Print Assumptions lha_t_bad_exit_nonzero.
Print Assumptions lha_x_exit_status.
Print Assumptions lha_x_mismatch_implies_bad.
Print Assumptions lha_x_bad_exit_nonzero.
Print Assumptions VerdictExample.t_two_members.
Print Assumptions VerdictExample.x_two_members.
Print Assumptions VerdictExample.x_time_stamps.
Print Assumptions VerdictExample.t_dry_run_checks_nothing.
Print Assumptions VerdictExample.t_unknown_method_silent.
Print Assumptions VerdictExample.t_some_member_bad.
Print Assumptions VerdictExample.t_first_member_good.

(* ------------------------------------------------------------------ *)
(* Findings and limits (model = C, read against src/extract.c, src/main.c)

   No case was found where a member whose decoded bytes mismatch is reported good, or where
   a bad member leaves the exit status at 0 (no dry run).  What the statements above do NOT
   say, because it is false of the tool:

   1. lha tn (dry run): test_archived_file_crc returns 1 without calling lha_reader_check
      ("VERIFY <name>"); the exit status is 0 whatever the archive holds
      (VerdictExample.t_dry_run_checks_nothing).  The word "Tested" is not printed.
   2. "bad => CRC error / Failure line" holds only when the progress callback was invoked and
      quiet < 2 (t_lines / x_lines).  The callback is invoked whenever a decoder could be
      opened (open_decoder_invoked, check_evs, extract_evs) -- so every length/CRC mismatch
      prints its line at quiet < 2 -- but a member without a decoder (unknown method, failed
      MacBinary set-up) or, for x, a failed fopen before decoding / failed parent directory
      gets result 0 and NO line: only the exit status 1 reports it
      (VerdictExample.t_unknown_method_silent, x_unknown_method_silent).
   3. lha x: an existing file the user does not overwrite (or policy Skip), and a directory
      with option i, give result 1 without any library call (X_not_extracted): exit status 0
      does not mean "every member was extracted and verified", only "no member failed".
   4. Directory and symbolic-link entries are good without decoding
      (P_ReaderCheck.check_dir_entry_always_good); they never get a "Tested" line (no events).
   5. MacOS members (MacBinary pass-through) are outside the good/mismatch statements, as in
      P_ReaderCheck: there the verdict is about the inner stream (check_good_implies_inner_match).
   6. Exit status values: 0, 1 (= !result), and 255 (= exit(-1): archive cannot be opened; for
      x also stat failure of an existing file and end of input at the overwrite prompt). *)

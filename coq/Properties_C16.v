(* Properties_C16.v -- C16: same members from file, pipe or callbacks, and after
   any self-extractor prefix.  Statements only; proofs in P_Sfx.v, where
   [match_at s q] (a method signature "-l??-" / "-pm?-" as the scanner tests it,
   at bytes q+2..q+6) and [marker_at s q] ("LHA-SFX" or "LhASFX V1.2," at q) are
   defined on byte lists independently of the scanner. *)
From Lhasa Require Import Base Generated InputStream P_Sfx.
From Lhasa Require Import Header BasicReader Fs Reader P_StreamEquiv P_BasicReaderIndep P_ReaderIndep P_KindIndep P_KindIndepReader P_KindIndepSfx.
Local Open Scope N_scope.

(* Any prefix P shorter than 262152 bytes (> the promised 255 KiB) with no match
   position and no marker position before |P| IN THE CONCATENATION P ++ A is
   skipped: the stream is left positioned exactly at A -- for all four stream
   kinds.  (The condition quantifies over positions of P ++ A because a signature
   can straddle the boundary; see sfx_literal_reading_refuted.) *)
Theorem sfx_prefix_skipped : forall k P A, nlen P < sfx_scan_limit ->
  13 <= nlen A -> match_at A 0 = true ->
  (forall q, q < nlen P -> match_at (P ++ A) q = false /\ marker_at (P ++ A) q = false) ->
  exists st', skip_sfx (lha_input_stream_new (mk_source k (P ++ A))) = Ok (true, st') /\
    is_leadin st' ++ so_data (is_src st') = A /\ is_state st' = IS_INIT.
Proof. exact P_Sfx.sfx_prefix_skipped. Qed.

(* A stub that embeds exactly one decoy header after exactly one SFX marker. *)
Theorem sfx_one_decoy : forall k P A m d, nlen P < sfx_scan_limit ->
  13 <= nlen A -> match_at A 0 = true -> m <= d -> d < nlen P ->
  (forall q, q < nlen P -> (marker_at (P ++ A) q = true <-> q = m)) ->
  (forall q, q < nlen P -> (match_at (P ++ A) q = true <-> q = d)) ->
  exists st', skip_sfx (lha_input_stream_new (mk_source k (P ++ A))) = Ok (true, st') /\
    is_leadin st' ++ so_data (is_src st') = A /\ is_state st' = IS_INIT.
Proof. exact P_Sfx.sfx_one_decoy. Qed.

(* The scan, and every later read, do not depend on the kind of stream. *)
Theorem scan_independent_of_kind : forall k k' data,
  skip_sfx (lha_input_stream_new (mk_source k' data)) =
  omap (fun r => (fst r, rekind_is k' (snd r))) (skip_sfx (lha_input_stream_new (mk_source k data))).
Proof. exact P_Sfx.skip_sfx_source_kind. Qed.

(* ... nor on how the underlying reads are chunked, for headers below 256 KiB *)
Theorem sfx_prefix_skipped_any_chunking : forall chunks P A, nlen P < MAX_SFX_HEADER_LEN ->
  13 <= nlen A -> match_at A 0 = true ->
  (forall q, q < nlen P -> match_at (P ++ A) q = false /\ marker_at (P ++ A) q = false) ->
  exists src' l, chunked_scan chunks (P ++ A) = Ok (true, src', l) /\ l ++ cs_data src' = A.
Proof. exact P_Sfx.sfx_prefix_skipped_chunked. Qed.

(* The literal reading of the property ("P itself contains no signature and no
   marker") is NOT sufficient: "zz-lh" followed by a valid archive whose second
   byte (the level-0 checksum) is '-' makes a match straddle the boundary; the scan
   stops 5 bytes early.  A known finding (inherent to signature scanning). *)
Theorem sfx_literal_reading_refuted : exists P A,
  nlen P < sfx_scan_limit /\ 13 <= nlen A /\ match_at A 0 = true /\
  (forall j, sig_at P j = false) /\
  (forall q, match_at P q = false /\ marker_at P q = false) /\
  (forall q, q <> 0 -> match_at A q = false) /\ (forall q, marker_at A q = false) /\
  forall k, exists st', skip_sfx (lha_input_stream_new (mk_source k (P ++ A))) = Ok (true, st') /\
    is_leadin st' ++ so_data (is_src st') = P ++ A /\ is_leadin st' ++ so_data (is_src st') <> A.
Proof. exact P_Sfx.sfx_literal_refuted. Qed.


(* ====== the whole iteration and the whole reader API across the four kinds ====== *)
(* (from Properties_C16_Kinds) -- C16, whole iteration: "The members an archive
   yields - headers, data and verdicts - are the same whether it is read from a
   seekable file, a non-seekable pipe (including '-' for standard input), or
   caller-supplied callbacks with or without skip support.  They are also
   unchanged when the first header is preceded by up to 255 KiB of bytes that
   contain neither an archive-method signature nor a self-extractor marker, as in
   self-extracting executables, and when such a stub embeds one decoy header after
   an 'LHA-SFX' or 'LhASFX V1.2,' marker."

   Statements only; proofs in P_KindIndep.v (stream, header parser, basic
   reader), P_AnyParam2.v (binary parametricity of the decoders),
   P_KindIndepReader.v (reader API), P_KindIndepSfx.v (prefixes).
   Properties_C16.v has the scan-level statements.

   [run_ops mktime junk (r, f) l] (P_ReaderIndep.v) runs a list of API calls
   OpNext / OpRead n / OpCheck monitor / OpExtract filename monitor from reader r
   and filesystem f and returns what each call returned ([obs]: entry + header +
   "is a fake entry", bytes, verdict); [observed] keeps those and the final
   filesystem; [reader_on k data p] is the reader made for a source of kind k
   over data, with directory policy p.  2^40 = 1099511627776 is the model's fuel
   for the read-based skip loops. *)


(* The basic reader: n calls of lha_basic_reader_next_file return the same
   headers (or end in the same Fault / OutOfFuel) for any two kinds of source. *)
Theorem headers_same_for_all_kinds : forall mktime data k1 k2 n, nlen data < 1099511627776 ->
  orel hn_rel
    (headers_n mktime n (lha_basic_reader_new (lha_input_stream_new (mk_source k1 data))))
    (headers_n mktime n (lha_basic_reader_new (lha_input_stream_new (mk_source k2 data)))).
Proof. exact P_KindIndep.headers_same_for_all_kinds. Qed.

(* Where the kinds differ: skipping more bytes than remain succeeds on a seekable
   file and fails on the other kinds; nothing is left either way, and a header
   read that follows reports "no header" on both. *)
Theorem skip_truncated_differs_in_flag_only : forall mktime a b m, kind_rel a b ->
  nlen (so_data (is_src a)) < m -> nlen (so_data (is_src a)) < 1099511627776 ->
  exists a' b',
    lha_input_stream_skip a m = Ok (is_file (so_kind (is_src a)), a') /\
    lha_input_stream_skip b m = Ok (is_file (so_kind (is_src b)), b') /\
    kind_rel a' b' /\ so_data (is_src a') = [] /\ so_data (is_src b') = [] /\
    (is_state a <> IS_INIT -> nlen (is_leadin a) < 22 ->
     (exists a'', lha_file_header_read mktime a' = Ok (None, a'')) /\
     (exists b'', lha_file_header_read mktime b' = Ok (None, b''))).
Proof. exact P_KindIndep.lha_input_stream_skip_kind_truncated. Qed.

(* The reader API: every sequence of calls, every policy, every filesystem: the
   same observations and the same final filesystem for any two kinds. *)
Theorem members_same_for_all_kinds : forall mktime junk data p f l k1 k2, nlen data < 1099511627776 ->
  observed (run_ops mktime junk (reader_on k1 data p, f) l) =
  observed (run_ops mktime junk (reader_on k2 data p, f) l).
Proof. exact P_KindIndepReader.members_same_for_all_kinds. Qed.

(* ... and behind a self-extractor prefix (quiet, or with one marker and one
   decoy header), through any kind, against the bare archive through any kind. *)
Theorem members_same_after_sfx_prefix : forall mktime junk P A p f l k1 k2,
  nlen P < sfx_scan_limit -> 13 <= nlen A -> match_at A 0 = true ->
  (forall q, q < nlen P -> match_at (P ++ A) q = false /\ marker_at (P ++ A) q = false) ->
  nlen A < 1099511627776 - sfx_scan_limit ->
  observed (run_ops mktime junk (reader_on k1 (P ++ A) p, f) l) =
  observed (run_ops mktime junk (reader_on k2 A p, f) l).
Proof. exact P_KindIndepSfx.members_same_after_sfx_prefix. Qed.

Theorem members_same_after_sfx_decoy : forall mktime junk P A m d p f l k1 k2,
  nlen P < sfx_scan_limit -> 13 <= nlen A -> match_at A 0 = true ->
  m <= d -> d < nlen P ->
  (forall q, q < nlen P -> (marker_at (P ++ A) q = true <-> q = m)) ->
  (forall q, q < nlen P -> (match_at (P ++ A) q = true <-> q = d)) ->
  nlen A < 1099511627776 - sfx_scan_limit ->
  observed (run_ops mktime junk (reader_on k1 (P ++ A) p, f) l) =
  observed (run_ops mktime junk (reader_on k2 A p, f) l).
Proof. exact P_KindIndepSfx.members_same_after_sfx_decoy. Qed.


(* ====== the command-line tool ====== *)
(* The same at the level of the TOOL (CliMain.v: lha_main, from argv, standard
   input and a filesystem to stdout, stderr, exit status and the final
   filesystem with its trace).  Proofs in P_CliKindIndep.v (a simulation through
   src/extract.c, src/filter.c, src/list.c and src/main.c over the per-call
   lemmas of P_KindIndepReader.v); instances and the two counterexamples in
   P_CliKindIndepEx.v.  [stdin_kind] is the fifth argument of lha_main: whether
   fseek works on standard input (KFile: a redirected file) or not (KPipe). *)
From Lhasa Require Import ListOut CliMain P_CliKindIndep.

(* A.  Every command line (l v t p x e, every option, every pattern), every
   filesystem: the result record is the same for any two kinds of standard
   input; the archive, when it is "-", below 2^40 bytes. *)
Theorem cli_stdin_kind_irrelevant : forall mktime junk localtime now strerror k1 k2 argv stdin s,
  nlen stdin < 1099511627776 ->
  lha_main mktime junk localtime now k1 strerror argv stdin s =
  lha_main mktime junk localtime now k2 strerror argv stdin s.
Proof. exact P_CliKindIndep.cli_stdin_kind_irrelevant. Qed.

(* B.  The archive by NAME (standard input S free) against "-" with the archive
   on standard input, same command, options and patterns, on the same
   filesystem s in which NAME opens as a readable file with contents A and
   modification time mt: the same result record (the tool prints the archive's
   name only when it cannot open it; the filesystems start equal, so they end
   equal, archive file included).  Provisos, both necessary
   (P_CliKindIndepEx.cx_mtime_needed, cx_prompt_needed):
   - l / v print the archive's modification time in the footer, and the model
     prints [now] for "-" (CliMain.v: the time of "-" is not modelled) and for
     mt = 0: so mt = 0 or mt = now;
   - with "-" the overwrite prompt reads its answer from the archive stream,
     not from S: so the run must not be able to prompt (not x/e, or dry run,
     or options f / q). *)
Theorem cli_named_file_vs_stdin : forall mktime junk localtime now strerror k k' argv1 argv2 mode o file filters S A mt s,
  parse_main (tl argv1) = Some (mode, o, file, filters) ->
  parse_main (tl argv2) = Some (mode, o, [45], filters) ->
  is_dash file = false ->
  fs_fopen_rb s file = OpenFile A mt ->
  nlen A < 1099511627776 ->
  (mode = MODE_LIST \/ mode = MODE_LIST_VERBOSE -> mt = 0 \/ mt = now) ->
  (mode = MODE_EXTRACT -> o_dry_run o = false -> o_overwrite_policy o <> LHA_OVERWRITE_PROMPT) ->
  lha_main mktime junk localtime now k strerror argv1 S s =
  lha_main mktime junk localtime now k' strerror argv2 A s.
Proof. exact P_CliKindIndep.cli_named_file_vs_stdin. Qed.

(* C.  The filesystem holds P ++ A under NAME1 and A under NAME2, P a quiet
   prefix (or, cli_sfx_decoy_irrelevant, a stub with one marker and one decoy
   header): the same result record for either name, prompts included (standard
   input is the same and is not the archive).  For l / v the time shown in the
   footer ([shown_mtime now mt] = now when mt = 0, else mt) must agree. *)
Theorem cli_sfx_prefix_irrelevant :
  ltac:(let t := type of P_CliKindIndep.cli_sfx_prefix_irrelevant in exact t).
Proof. exact P_CliKindIndep.cli_sfx_prefix_irrelevant. Qed.

Theorem cli_sfx_decoy_irrelevant :
  ltac:(let t := type of P_CliKindIndep.cli_sfx_decoy_irrelevant in exact t).
Proof. exact P_CliKindIndep.cli_sfx_decoy_irrelevant. Qed.

(* ... and with both on standard input through any two kinds, when the run
   cannot prompt *)
Theorem cli_sfx_prefix_stdin :
  ltac:(let t := type of P_CliKindIndep.cli_sfx_prefix_stdin in exact t).
Proof. exact P_CliKindIndep.cli_sfx_prefix_stdin. Qed.


Print Assumptions sfx_prefix_skipped.
Print Assumptions sfx_one_decoy.
Print Assumptions scan_independent_of_kind.
Print Assumptions sfx_prefix_skipped_any_chunking.
Print Assumptions sfx_literal_reading_refuted.
Print Assumptions headers_same_for_all_kinds.
Print Assumptions skip_truncated_differs_in_flag_only.
Print Assumptions members_same_for_all_kinds.
Print Assumptions members_same_after_sfx_prefix.
Print Assumptions members_same_after_sfx_decoy.
Print Assumptions cli_stdin_kind_irrelevant.
Print Assumptions cli_named_file_vs_stdin.
Print Assumptions cli_sfx_prefix_irrelevant.
Print Assumptions cli_sfx_decoy_irrelevant.
Print Assumptions cli_sfx_prefix_stdin.

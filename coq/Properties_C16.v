(* Properties_C16.v -- C16: same members from file, pipe or callbacks, and after
   any self-extractor prefix.  Statements only; proofs in P_Sfx.v, where
   [match_at s q] (a method signature "-l??-" / "-pm?-" as the scanner tests it,
   at bytes q+2..q+6) and [marker_at s q] ("LHA-SFX" or "LhASFX V1.2," at q) are
   defined on byte lists independently of the scanner. *)
From Lhasa Require Import Base Generated InputStream P_Sfx.
Local Open Scope N_scope.

(* Any prefix P shorter than 262152 bytes (> the promised 255 KiB) with no match
   position and no marker position before |P| IN THE CONCATENATION P ++ A is
   skipped: the stream is left positioned exactly at A -- for all four stream
   kinds.  (The condition quantifies over positions of P ++ A because a signature
   can straddle the boundary; see sfx_literal_reading_refuted.) *)
Theorem sfx_prefix_skipped : forall k P A, nlen P < sfx_scan_limit ->
  13 <= nlen A -> match_at A 0 = true ->
  (forall q, q < nlen P -> match_at (P ++ A) q = false /\ marker_at (P ++ A) q = false) ->
  exists st', skip_sfx (lha_input_stream_new (mk_source k (P ++ A))) = Ok (true, st') /\
    is_leadin st' ++ so_data (is_src st') = A /\ is_state st' = IS_INIT.
Proof. exact P_Sfx.sfx_prefix_skipped. Qed.

(* A stub that embeds exactly one decoy header after exactly one SFX marker. *)
Theorem sfx_one_decoy : forall k P A m d, nlen P < sfx_scan_limit ->
  13 <= nlen A -> match_at A 0 = true -> m <= d -> d < nlen P ->
  (forall q, q < nlen P -> (marker_at (P ++ A) q = true <-> q = m)) ->
  (forall q, q < nlen P -> (match_at (P ++ A) q = true <-> q = d)) ->
  exists st', skip_sfx (lha_input_stream_new (mk_source k (P ++ A))) = Ok (true, st') /\
    is_leadin st' ++ so_data (is_src st') = A /\ is_state st' = IS_INIT.
Proof. exact P_Sfx.sfx_one_decoy. Qed.

(* The scan, and every later read, do not depend on the kind of stream. *)
Theorem scan_independent_of_kind : forall k k' data,
  skip_sfx (lha_input_stream_new (mk_source k' data)) =
  omap (fun r => (fst r, rekind_is k' (snd r))) (skip_sfx (lha_input_stream_new (mk_source k data))).
Proof. exact P_Sfx.skip_sfx_source_kind. Qed.

(* ... nor on how the underlying reads are chunked, for headers below 256 KiB *)
Theorem sfx_prefix_skipped_any_chunking : forall chunks P A, nlen P < MAX_SFX_HEADER_LEN ->
  13 <= nlen A -> match_at A 0 = true ->
  (forall q, q < nlen P -> match_at (P ++ A) q = false /\ marker_at (P ++ A) q = false) ->
  exists src' l, chunked_scan chunks (P ++ A) = Ok (true, src', l) /\ l ++ cs_data src' = A.
Proof. exact P_Sfx.sfx_prefix_skipped_chunked. Qed.

(* The literal reading of the property ("P itself contains no signature and no
   marker") is NOT sufficient: "zz-lh" followed by a valid archive whose second
   byte (the level-0 checksum) is '-' makes a match straddle the boundary; the scan
   stops 5 bytes early.  A known finding (inherent to signature scanning). *)
Theorem sfx_literal_reading_refuted : exists P A,
  nlen P < sfx_scan_limit /\ 13 <= nlen A /\ match_at A 0 = true /\
  (forall j, sig_at P j = false) /\
  (forall q, match_at P q = false /\ marker_at P q = false) /\
  (forall q, q <> 0 -> match_at A q = false) /\ (forall q, marker_at A q = false) /\
  forall k, exists st', skip_sfx (lha_input_stream_new (mk_source k (P ++ A))) = Ok (true, st') /\
    is_leadin st' ++ so_data (is_src st') = P ++ A /\ is_leadin st' ++ so_data (is_src st') <> A.
Proof. exact P_Sfx.sfx_literal_refuted. Qed.

Print Assumptions sfx_prefix_skipped.
Print Assumptions sfx_one_decoy.
Print Assumptions scan_independent_of_kind.
Print Assumptions sfx_prefix_skipped_any_chunking.
Print Assumptions sfx_literal_reading_refuted.

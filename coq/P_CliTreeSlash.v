(* P_CliTreeSlash.v -- C06, "w=DIR/" (DIR written with a trailing slash): the
   tool builds the paths  DIR//d1/.../name  with a doubled slash; the kernel
   ignores it (Fs.split_path), make_parent_directories checks "DIR" and "DIR/"
   in turn.  The forest theorem once more, over these path strings, for DIR
   present. *)
From Lhasa Require Import Base ListN DecBase Loop Generated Crc16 InputStream Header BasicReader
  AnyDecoder Decoder MacBinary Fs FsRun Reader Glob ListOut CliFilter CliExtract
  P_ReaderCheck P_FsExtract P_ReaderExtract P_CliExtract P_CliTree P_FsReplace P_CliOverwrite P_CliExtractGen
  P_CliTreeGen P_CliWdir P_CliWdirN P_CliExtractFn.
From Coq Require Import ZifyBool ZifyN ZifyNat.
Local Open Scope N_scope.

Set Default Timeout 120.

Lemma nlen_cons1 {A} (x : A) l : nlen (x :: l) = 1 + nlen l.
Proof. unfold nlen. cbn [length]. lia. Qed.

Section Slash.
  Variables (b0 : list name) (bk : name).
  Notation bl := (b0 ++ [bk]).
  Hypothesis Hgbl : Forall good_name bl.

  (* "DIR//d1/.../dk/" *)
  Definition ps (dl : list name) : list N := dirstr bl ++ 47 :: dirstr dl.

  Lemma ps_snoc dl c : ps (dl ++ [c]) = ps dl ++ c ++ [47].
  Proof. unfold ps. rewrite (dirstr_snoc dl c), <- app_assoc. reflexivity. Qed.

  Lemma ps_head dl tl : exists b r, ps dl ++ tl = b :: r /\ b <> 47.
  Proof.
    apply Forall_app in Hgbl. destruct Hgbl as [H0 Hk]. inversion Hk as [|x l Hbk _]; subst.
    unfold ps. destruct b0 as [|d ds].
    - cbn [app dirstr map concat]. destruct (good_head bk Hbk) as (b & r & E & Hb). rewrite E. cbn [app]. eauto.
    - inversion H0 as [|x l Hd _]; subst. destruct (good_head d Hd) as (b & r & E & Hb).
      cbn [app]. rewrite dirstr_cons, E. cbn [app]. eauto.
  Qed.

  Lemma split_ps dl tl : Forall good_name dl ->
    split_path_aux (ps dl ++ tl) [] = bl ++ dl ++ split_path_aux tl [].
  Proof.
    intros Hg. unfold ps. rewrite <- app_assoc, (split_dirstr _ bl Hgbl). cbn [app split_path_aux].
    rewrite N.eqb_refl, (split_dirstr tl dl Hg). reflexivity.
  Qed.

  Lemma rel_path_ps_file dl (c : name) : Forall good_name dl -> good_name c -> nlen (ps dl ++ c) <= 4095 ->
    rel_path (ps dl ++ c) (bl ++ dl) c.
  Proof.
    intros Hg Hc Hlen. destruct (ps_head dl c) as (b & r & E & Hb).
    split; [rewrite E; discriminate|]. split; [eapply is_absolute_head; eauto|].
    split; [unfold path_max; apply N.ltb_ge; exact Hlen|].
    unfold split_path. rewrite (split_ps dl c Hg), (split_name c Hc). apply app_assoc.
  Qed.

  Lemma rel_path_ps_dir dl (c : name) : Forall good_name dl -> good_name c -> nlen (ps (dl ++ [c])) <= 4095 ->
    rel_path (ps (dl ++ [c])) (bl ++ dl) c.
  Proof.
    intros Hg Hc Hlen. destruct (ps_head (dl ++ [c]) []) as (b & r & E & Hb). rewrite app_nil_r in E.
    split; [rewrite E; discriminate|]. split; [eapply is_absolute_head; eauto|].
    split; [unfold path_max; apply N.ltb_ge; exact Hlen|].
    unfold split_path. rewrite <- (app_nil_r (ps (dl ++ [c]))), split_ps.
    - cbn [split_path_aux]. rewrite app_nil_r. apply app_assoc.
    - apply Forall_app. split; [exact Hg|constructor; [exact Hc|constructor]].
  Qed.

  (* make_parent_directories on  ps dl ++ c  or  ps dl ++ c ++ "/" *)
  Lemma mpd_unfold_ps dl (c : name) tail st : good_name c -> (tail = [] \/ tail = [47]) ->
    make_parent_directories (ps dl ++ c ++ tail) st = mpd_loop [] (ps dl ++ c) st.
  Proof.
    intros Hc Htail.
    assert (Hstrip : strip_trailing_slashes (ps dl ++ c ++ tail) = ps dl ++ c).
    { unfold strip_trailing_slashes. destruct (good_last c Hc) as (b & r & E & Hb).
      destruct Htail as [->| ->].
      - rewrite app_nil_r, rev_app_distr.
        rewrite (skip_slashes_id (rev c ++ rev (ps dl)) b (r ++ rev (ps dl))) by (try rewrite E; auto).
        rewrite <- rev_app_distr. apply rev_involutive.
      - rewrite app_assoc, rev_app_distr. cbn [rev app skip_slashes]. rewrite N.eqb_refl, rev_app_distr.
        rewrite (skip_slashes_id (rev c ++ rev (ps dl)) b (r ++ rev (ps dl))) by (try rewrite E; auto).
        rewrite <- rev_app_distr. apply rev_involutive. }
    unfold make_parent_directories. rewrite Hstrip.
    destruct (ps_head dl c) as (b' & r' & E' & Hb'). rewrite (leading_slashes_none _ b' r' E' Hb'). reflexivity.
  Qed.

  Lemma exists_in_ready s L o pm t ents p a (d : name) b : dir_ready s L o pm t ents -> L = a ++ d :: b ->
    rel_path p a d -> arch_exists s p = FT_DIRECTORY.
  Proof.
    intros (Hg & Hch & Hn & Hw) -> Hrel.
    apply Forall_app in Hg. destruct Hg as [Ha Hdb]. inversion Hdb as [|d0 bb Hd Hb]; subst.
    assert (Hat : at_path s p a d).
    { split; [exact Hrel|]. split; [apply good_names_plain; exact Ha|]. split; [apply Hd|]. eapply chain_prefix. exact Hch. }
    destruct (Hch (S (length a))) as (o1 & p1 & t1 & e1 & Hn1 & _).
    { rewrite app_length. cbn [length]. lia. }
    replace (firstn (S (length a)) (a ++ d :: b)) with (a ++ [d]) in Hn1.
    2:{ rewrite firstn_app. rewrite firstn_all2 by lia. replace (S (length a) - length a)%nat with 1%nat by lia. reflexivity. }
    rewrite app_assoc in Hn1. eapply exists_dir; eauto.
  Qed.

  Lemma nlen_ps_le dl x y : nlen (ps dl ++ x) <= nlen (ps dl ++ x ++ y).
  Proof. rewrite !nlen_app. apply N.add_le_mono_l. apply N.le_add_r. Qed.

  Lemma mpd_ps dl (c : name) tail st o pm t ents :
    dir_ready (cs_fs st) (bl ++ dl) o pm t ents -> good_name c -> (tail = [] \/ tail = [47]) ->
    nlen (ps dl ++ c) <= 4095 ->
    make_parent_directories (ps dl ++ c ++ tail) st = (true, st).
  Proof.
    intros Hready Hc Htail Hlen. pose proof Hready as (Hg & _).
    apply Forall_app in Hg. destruct Hg as [_ Hgdl].
    rewrite (mpd_unfold_ps dl c tail st Hc Htail). unfold ps. rewrite <- app_assoc.
    change (@nil N) with (rev (@nil N)).
    rewrite (mpd_dirs_cont _ bl [] st Hgbl).
    2:{ intros a d b E. cbn [app]. eapply (exists_in_ready _ _ _ _ _ _ _ a d (b ++ dl) Hready).
        - rewrite E, <- app_assoc. reflexivity.
        - assert (Hga : Forall good_name a /\ good_name d).
          { rewrite E in Hgbl. apply Forall_app in Hgbl. destruct Hgbl as [A B]. inversion B; subst. auto. }
          apply rel_path_file; try apply Hga.
          eapply N.le_trans; [|exact Hlen]. unfold ps. rewrite E, dirstr_app, dirstr_cons.
          repeat (rewrite ?nlen_app, ?nlen_cons1). repeat match goal with |- context [nlen ?x] => generalize (nlen x); intro end. lia. }
    cbn [app mpd_loop]. rewrite N.eqb_refl. unfold check_parent_directory. rewrite rev_involutive.
    assert (Hexbl : arch_exists (cs_fs st) (dirstr bl) = FT_DIRECTORY).
    { eapply (exists_in_ready _ _ _ _ _ _ _ b0 bk dl Hready); [rewrite <- app_assoc; reflexivity|].
      apply Forall_app in Hgbl. destruct Hgbl as [A B]. inversion B; subst.
      apply rel_path_dir; auto. eapply N.le_trans; [|exact Hlen]. unfold ps. rewrite <- app_assoc, nlen_app. apply N.le_add_r. }
    rewrite Hexbl. cbn [negb].
    replace (47 :: rev (dirstr bl)) with (rev (dirstr bl ++ [47])) by (rewrite rev_app_distr; reflexivity).
    rewrite (mpd_dirs_cont c dl (dirstr bl ++ [47]) st Hgdl).
    2:{ intros a d b E. replace ((dirstr bl ++ [47]) ++ dirstr a ++ d) with (ps a ++ d) by (unfold ps; rewrite <- !app_assoc; reflexivity).
        eapply (exists_in_ready _ _ _ _ _ _ _ (bl ++ a) d b Hready); [rewrite E; apply app_assoc|].
        assert (Hga : Forall good_name a /\ good_name d).
        { rewrite E in Hgdl. apply Forall_app in Hgdl. destruct Hgdl as [A B]. inversion B; subst. auto. }
        apply rel_path_ps_file; try apply Hga.
        eapply N.le_trans; [|exact Hlen]. unfold ps. rewrite E, (dirstr_app a (d :: b)), (dirstr_cons d b).
        repeat (rewrite ?nlen_app, ?nlen_cons1). repeat match goal with |- context [nlen ?x] => generalize (nlen x); intro end. lia. }
    apply mpd_tail. apply Hc.
  Qed.
End Slash.

(* the paths of the items are not longer than PATH_MAX - 1 *)
Fixpoint fitsS (b0 : list name) (bk : name) (dl : list name) (it : item) : Prop :=
  match it with
  | IFile c _ _ => nlen (ps b0 bk dl ++ c) <= 4095
  | ILink c _ _ => nlen (ps b0 bk dl ++ c) <= 4095
  | IDir c _ sub => nlen (ps b0 bk (dl ++ [c])) <= 4095 /\
                    (fix all (l : list item) : Prop :=
                       match l with [] => True | x :: r => fitsS b0 bk (dl ++ [c]) x /\ all r end) sub
  end.

Lemma fitsS_all b0 bk dl : forall l,
  (fix all (l : list item) : Prop := match l with [] => True | x :: r => fitsS b0 bk dl x /\ all r end) l <->
  Forall (fitsS b0 bk dl) l.
Proof.
  induction l as [|x r IH].
  - split; intros H; [constructor|exact I].
  - split; intros H.
    + destruct H as [H1 H2]. constructor; [exact H1|apply IH; exact H2].
    + inversion H; subst. split; [assumption|]. apply IH. assumption.
Qed.

(* options under which the stored path dl/name is extracted to DIR//dl/name *)
Definition sl_opts_gen (b0 : list name) (bk : name) (o : lha_options) : Prop :=
  o_use_path o = true /\ o_dry_run o = false /\
  forall h dl, Forall good_name dl -> opt_str (h_path h) = dirstr dl ->
    file_full_path h o = ps b0 bk dl ++ match h_filename h with Some f => skip_slashes f | None => [] end.

(* w=DIR/ *)
Lemma sl_opts_wdir b0 bk o e : o_use_path o = true -> o_dry_run o = false -> o_extract_path o = Some e ->
  e = dirstr (b0 ++ [bk]) -> sl_opts_gen b0 bk o.
Proof.
  intros A C He Hbl. split; [exact A|]. split; [exact C|].
  intros h dl Hg Hpath. unfold file_full_path, ps. rewrite He, A, Hbl, <- !app_assoc. cbn [app]. f_equal. f_equal. f_equal.
  destruct (h_path h) as [pp|]; cbn [opt_str] in Hpath.
  - rewrite Hpath. apply skip_slashes_dirstr. exact Hg.
  - exact Hpath.
Qed.

Section ForestSlash.
  Variable mktime : N -> N -> N -> N -> Z -> N -> N.
  Variable junk : N.
  Variable f : lha_filter.
  Hypothesis Hnofilter : f_filters f = [].
  Variables (u : N) (uid0 : bool).
  Hypothesis Humask : umask_ok u.
  Variables (b0 : list name) (bk : name).
  Notation bl := (b0 ++ [bk]).
  Hypothesis Hgbl : Forall good_name bl.

  Notation step := (extract_archive_step mktime junk f).
  Notation upcoming := (upcoming mktime junk).
  Notation positioned := (positioned mktime junk).
  Notation iters_one := (iters_one mktime junk f).
  Notation outside_child := (outside_child u uid0).
  Notation fitsS := (fitsS b0 bk).
  Notation sl_opts := (sl_opts_gen b0 bk).
  Notation ps_snoc := (ps_snoc b0 bk).

  Lemma forest_run_slash : forall n its, (sizes its <= n)%nat -> forall dl rest st b o pm t ents stk,
    Forall (wf_item u uid0 dl) its -> Forall (fitsS dl) its -> NoDup (map iname its) -> (forall c, In c (map iname its) -> lookup ents c = None) ->
    sl_opts (cs_opts st) -> fs_umask (cs_fs st) = u -> fs_uid0 (cs_fs st) = uid0 ->
    dir_ready (cs_fs st) (bl ++ dl) o pm t ents -> N.land pm 1024 = 0 ->
    rinv (cs_reader st) stk -> stack_ok stk dl ->
    upcoming (cs_reader st) (flat_map ser its ++ rest) -> outside dl rest ->
    exists st', iters step (sizes its) (b, st) (b, st') /\
      cs_opts st' = cs_opts st /\ same_env (cs_fs st) (cs_fs st') /\
      rinv (cs_reader st') stk /\ upcoming (cs_reader st') rest /\
      match its with
      | [] => st' = st
      | _ => fs_root (cs_fs st') = update_at (fs_root (cs_fs st)) (fs_cwd (cs_fs st) ++ bl ++ dl)
                                     (const_some (Dir o pm now (ents ++ builds u its)))
      end.
  Proof.
    induction n as [|n IHn]; intros its Hsz dl rest st b o pm t ents stk Hwf Hfit Hnd Hfresh Hopts Hum Huid Hready Hsg Hrinv Hso Hup Hout.
    - destruct its as [|it more].
      + exists st. split; [constructor|]. split; [reflexivity|]. split; [apply same_env_refl|]. auto.
      + exfalso. cbn [sizes fold_right] in Hsz. destruct it; cbn [size] in Hsz; lia.
    - destruct its as [|it more].
      + exists st. split; [constructor|]. split; [reflexivity|]. split; [apply same_env_refl|]. auto.
      + inversion Hwf as [|it0 more0 Hit Hmore]; subst it0 more0. inversion Hfit as [|it1 more1 Hfi Hfm]; subst it1 more1. cbn [map] in Hnd. inversion Hnd as [|c0 l0 Hnin Hnd']; subst c0 l0.
        assert (Hsz1 : (1 <= size it)%nat) by (destruct it; cbn [size]; lia).
        assert (Hszs : sizes (it :: more) = (size it + sizes more)%nat) by reflexivity.
        (* after the head item, the tail *)
        assert (Htail : forall st1, iters step (size it) (b, st) (b, st1) ->
                  cs_opts st1 = cs_opts st -> same_env (cs_fs st) (cs_fs st1) -> rinv (cs_reader st1) stk ->
                  upcoming (cs_reader st1) (flat_map ser more ++ rest) ->
                  fs_root (cs_fs st1) = update_at (fs_root (cs_fs st)) (fs_cwd (cs_fs st) ++ bl ++ dl)
                                          (const_some (Dir o pm now (ents ++ [(iname it, build u it)]))) ->
                  exists st', iters step (sizes (it :: more)) (b, st) (b, st') /\
                    cs_opts st' = cs_opts st /\ same_env (cs_fs st) (cs_fs st') /\
                    rinv (cs_reader st') stk /\ upcoming (cs_reader st') rest /\
                    fs_root (cs_fs st') = update_at (fs_root (cs_fs st)) (fs_cwd (cs_fs st) ++ bl ++ dl)
                                            (const_some (Dir o pm now (ents ++ builds u (it :: more))))).
        { intros st1 Hit1 Hopts1 Henv1 Hrinv1 Hup1 Hroot1.
          assert (Hready1 : dir_ready (cs_fs st1) (bl ++ dl) o pm now (ents ++ [(iname it, build u it)])).
          { eapply dir_ready_update; eauto. }
          destruct (IHn more ltac:(lia) dl rest st1 b o pm now (ents ++ [(iname it, build u it)]) stk) as
              (st' & Hit' & Hopts' & Henv' & Hrinv' & Hup' & Hroot'); auto.
          { intros c Hin. rewrite lookup_app_none by (apply Hfresh; right; exact Hin). cbn [lookup].
            rewrite name_eqb_neq; [reflexivity|]. intros E. subst c. contradiction. }
          { rewrite Hopts1. exact Hopts. }
          { destruct Henv1 as (_ & _ & E). congruence. }
          { destruct Henv1 as (_ & E & _). congruence. }
          exists st'. split; [rewrite Hszs; eapply iters_app; eauto|].
          split; [congruence|]. split; [exact (same_env_trans _ _ _ Henv1 Henv')|].
          split; [exact Hrinv'|]. split; [exact Hup'|].
          destruct more as [|x more'].
          - subst st'. rewrite Hroot1. reflexivity.
          - rewrite Hroot', Hroot1. destruct Henv1 as (Ec & _ & _). rewrite Ec, update_const_twice.
            cbn [builds map]. rewrite <- (app_assoc ents). reflexivity. }
        pose proof Hrinv as (Hpol & Hdef & Hstk & Htyne).
        pose proof Hopts as (Hu & Hdry & Hfull).
        assert (Hgdl : Forall good_name dl) by (destruct Hready as (Hg0 & _); apply Forall_app in Hg0; apply Hg0).
        destruct it as [c h bs|c h tgt|c h sub]; cbn [wf_item] in Hit; cbn [fitsS] in Hfi; cbn [iname build] in Htail; cbn [iname] in Hnin;
          cbn [flat_map ser app] in Hup.
        * (* a regular file *)
          destruct Hit as (Hc & Hlen & Hfh & Hmode). destruct Hfh as (Hp & Hf & Hdm & Hsl & Hos).
          assert (Hfn : file_full_path h (cs_opts st) = ps b0 bk dl ++ c) by (rewrite (Hfull h dl Hgdl Hp), Hf, (skip_slashes_name c Hc); reflexivity).
          assert (Hrel : rel_path (ps b0 bk dl ++ c) (bl ++ dl) c) by (apply rel_path_ps_file; auto).
          assert (Hts : trailing_slash (ps b0 bk dl ++ c) = false) by (apply trailing_slash_file; exact Hc).
          destruct (present_entry mktime junk (cs_reader st) stk dl _ (MFile h bs) (dirstr dl) Hrinv Hso Hup)
            as (br1 & Hpos & Hnext); [apply hpath_some; exact Hp|exact Hp|apply is_prefix_refl|].
          cbn [hdr] in Hnext. set (r1 := mk_reader br1 (Some h) CT_NORMAL stk false) in *.
          inversion Hpos as [|br0 h0 bs0 ms0 Hcur Hdec|]; subst br0 h0 bs0 ms0.
          destruct (Hdec r1 eq_refl eq_refl eq_refl) as (r2 & Hmem & x & br' & Hbn & Hpos').
          assert (Hl0 : lookup ents c = None) by (apply Hfresh; left; reflexivity).
          assert (Hmode' : fs_uid0 (cs_fs st) = true \/ drop_setid (file_mode (cs_fs st) h) = file_mode (cs_fs st) h).
          { rewrite file_mode_fmode, Hum. destruct Hmode as [Hm|Hm]; [left; congruence|right; exact Hm]. }
          assert (Hmpd : make_parent_directories (ps b0 bk dl ++ c) (set_reader st r1) = (true, set_reader st r1)).
          { rewrite <- (app_nil_r c) at 1. eapply (mpd_ps b0 bk Hgbl dl c []); cbn [cs_fs set_reader]; eauto. }
          destruct (fn_file junk h (set_reader st r1) (ps b0 bk dl ++ c) (bl ++ dl) c o pm t ents bs r2) as (st2 & Hex & Hrd2 & Hopts2 & Henv2 & Hroot2); auto.
          cbn [cs_fs set_reader cs_opts] in *.
          pose proof (member_ok_book junk r1 h bs r2 Hmem) as Hbook. unfold book in Hbook. cbn [r1 mk_reader rd_curr rd_type rd_policy rd_dir_stack rd_deferred rd_linked] in Hbook.
          injection Hbook as B1 B2 B3 B4 B5 B6.
          apply (Htail st2).
          { apply iters_one. eapply step_entry; eauto. }
          { exact Hopts2. } { exact Henv2. }
          { rewrite Hrd2. split; [exact B3|]. split; [exact B5|]. split; [exact B4|]. rewrite B2. discriminate. }
          { rewrite Hrd2. exists br'. split; [|exact Hpos']. unfold fetch. rewrite B2, Hbn. reflexivity. }
          { rewrite Hroot2, file_mode_fmode, Hum. reflexivity. }
        * (* a safe symbolic link *)
          destruct Hit as (Hc & Hlen & Hlh). destruct Hlh as (Hp & Hf & Hdm & Hsl & Hsafe & Htne & Htlen).
          assert (Hfn : file_full_path h (cs_opts st) = ps b0 bk dl ++ c) by (rewrite (Hfull h dl Hgdl Hp), Hf, (skip_slashes_name c Hc); reflexivity).
          assert (Hrel : rel_path (ps b0 bk dl ++ c) (bl ++ dl) c) by (apply rel_path_ps_file; auto).
          assert (Hts : trailing_slash (ps b0 bk dl ++ c) = false) by (apply trailing_slash_file; exact Hc).
          destruct (present_entry mktime junk (cs_reader st) stk dl _ (MOther h) (dirstr dl) Hrinv Hso Hup)
            as (br1 & Hpos & Hnext); [apply hpath_some; exact Hp|exact Hp|apply is_prefix_refl|].
          cbn [hdr] in Hnext. set (r1 := mk_reader br1 (Some h) CT_NORMAL stk false) in *.
          inversion Hpos as [| |br0 h0 ms0 x br' Hcur Hbn Hpos']; subst br0 h0 ms0.
          assert (Hl0 : lookup ents c = None) by (apply Hfresh; left; reflexivity).
          assert (Hmpd : make_parent_directories (ps b0 bk dl ++ c) (set_reader st r1) = (true, set_reader st r1)).
          { rewrite <- (app_nil_r c) at 1. eapply (mpd_ps b0 bk Hgbl dl c []); cbn [cs_fs set_reader]; eauto. }
          destruct (fn_link junk h (set_reader st r1) (ps b0 bk dl ++ c) (bl ++ dl) c o pm t ents tgt) as (st2 & Hex & Hopts2 & Hrd2 & Henv2 & Hroot2); auto.
          cbn [cs_fs set_reader cs_opts cs_reader] in *.
          apply (Htail st2).
          { apply iters_one. eapply step_entry; eauto. }
          { exact Hopts2. } { exact Henv2. }
          { rewrite Hrd2. repeat split; discriminate. }
          { rewrite Hrd2. exists br'. split; [|exact Hpos']. unfold fetch. cbn [r1 mk_reader rd_type rd_br]. rewrite Hbn. reflexivity. }
          { exact Hroot2. }
        * (* a directory, its contents, its fake entry *)
          destruct Hit as (Hc & Hlen & Hdh & Hndsub & Hwfsub). apply wf_all in Hwfsub. destruct Hdh as (Hp & Hf & Hdm & Hsl).
          destruct Hfi as (Hlenb & Hfitsub). apply fitsS_all in Hfitsub.
          assert (Hps : opt_str (h_path h) = dirstr (dl ++ [c])) by (rewrite Hp; reflexivity).
          assert (Hgdlc : Forall good_name (dl ++ [c])) by (apply Forall_app; split; [exact Hgdl|constructor; [exact Hc|constructor]]).
          assert (Hfn : file_full_path h (cs_opts st) = ps b0 bk (dl ++ [c])) by (rewrite (Hfull h (dl ++ [c]) Hgdlc Hps), Hf, app_nil_r; reflexivity).
          assert (Hrel : rel_path (ps b0 bk (dl ++ [c])) (bl ++ dl) c) by (apply rel_path_ps_dir; auto).
          assert (Hlenc : nlen (ps b0 bk dl ++ c) <= 4095) by (eapply N.le_trans; [apply (nlen_ps_le b0 bk dl c [47])|rewrite <- ps_snoc; exact Hlenb]).
          destruct (present_entry mktime junk (cs_reader st) stk dl _ (MOther h) (dirstr (dl ++ [c])) Hrinv Hso Hup)
            as (br1 & Hpos & Hnext); [left; exact Hp|exact Hps|rewrite dirstr_app; apply is_prefix_app|].
          cbn [hdr] in Hnext. set (r1 := mk_reader br1 (Some h) CT_NORMAL stk false) in *.
          inversion Hpos as [| |br0 h0 ms0 x br' Hcur Hbn Hpos']; subst br0 h0 ms0.
          assert (Hl0 : lookup ents c = None) by (apply Hfresh; left; reflexivity).
          assert (Hmpd : make_parent_directories (ps b0 bk (dl ++ [c])) (set_reader st r1) = (true, set_reader st r1)).
          { rewrite ps_snoc. eapply (mpd_ps b0 bk Hgbl dl c [47]); cbn [cs_fs set_reader]; eauto. }
          destruct (fn_dir junk h (set_reader st r1) (ps b0 bk (dl ++ [c])) (bl ++ dl) c o pm t ents) as (st2 & Hex & Hopts2 & Henv2 & Hrd2 & Hroot2); auto.
          cbn [cs_fs set_reader cs_opts cs_reader r1 mk_reader rd_br rd_curr rd_type rd_decoder rd_inner rd_policy rd_dir_stack rd_deferred] in *.
          rewrite Hum in Hroot2. set (m := dir_first_mode u h) in *.
          assert (Hready2 : dir_ready (cs_fs st2) (bl ++ dl) o pm now (ents ++ [(c, Dir true m now [])])).
          { eapply (dir_ready_update (cs_fs st) (cs_fs st2)); [exact Hready|exact Henv2|exact Hroot2]. }
          destruct (dir_req_bits h) as [R6 R7].
          destruct (mkdir_mode_owner u (dir_req h) (fs_uid0 (cs_fs st2)) now [] Humask R6 R7) as [Hsrch Hwrt].
          assert (Hready2' : dir_ready (cs_fs st2) (bl ++ dl ++ [c]) true m now []).
          { rewrite app_assoc. eapply dir_ready_enter; eauto. }
          rewrite <- app_assoc in Hpos'.
          destruct (IHn sub ltac:(cbn [sizes fold_right size] in Hsz; unfold sizes; lia) (dl ++ [c]) (flat_map ser more ++ rest) st2 b
                        true m now [] (h :: stk)) as (st3 & Hit3 & Hopts3 & Henv3 & Hrinv3 & Hup3 & Hroot3); auto.
          { rewrite Hopts2. exact Hopts. }
          { destruct Henv2 as (_ & _ & E). congruence. }
          { destruct Henv2 as (_ & E & _). congruence. }
          { apply mkdir_mode_nosgid. }
          { rewrite Hrd2. repeat split; discriminate. }
          { right. split; [destruct dl; discriminate|]. exists h, stk. split; [reflexivity|exact Hp]. }
          { rewrite Hrd2. exists br'. split; [|exact Hpos']. unfold fetch. cbn [rd_type rd_br]. rewrite Hbn. reflexivity. }
          { apply outside_child; auto. }
          (* the state after the contents, in terms of the state before the directory entry *)
          assert (Hcwd2 : fs_cwd (cs_fs st2) = fs_cwd (cs_fs st)) by apply Henv2.
          assert (Hroot3' : fs_root (cs_fs st3) = update_at (fs_root (cs_fs st)) (fs_cwd (cs_fs st) ++ bl ++ dl)
                              (const_some (Dir o pm now (ents ++ [(c, Dir true m now (builds u sub))])))).
          { destruct sub as [|y sub'].
            - subst st3. exact Hroot2.
            - rewrite Hroot3, Hcwd2, (app_assoc bl), app_assoc.
              destruct Hready2 as (_ & _ & Hn2 & _). rewrite Hcwd2 in Hn2.
              rewrite (update_loc_to_parent _ _ o pm now _ c _ Hn2), (set_ent_last _ _ _ _ Hl0), Hroot2.
              apply update_const_twice. }
          assert (Henv23 : same_env (cs_fs st) (cs_fs st3)) by exact (same_env_trans _ _ _ Henv2 Henv3).
          assert (Hready3 : dir_ready (cs_fs st3) (bl ++ dl) o pm now (ents ++ [(c, Dir true m now (builds u sub))])).
          { eapply (dir_ready_update (cs_fs st) (cs_fs st3)); [exact Hready|exact Henv23|exact Hroot3']. }
          (* the fake entry *)
          destruct (present_fake mktime junk (cs_reader st3) h stk dl c (flat_map ser more ++ rest) Hrinv3 Hp Hup3)
            as (br3 & Hpos3 & Hnext3); [apply outside_child; auto|].
          set (r4 := mk_reader br3 (Some h) CT_FAKE_DIR stk false) in *.
          assert (Hmpd3 : make_parent_directories (ps b0 bk (dl ++ [c])) (set_reader st3 r4) = (true, set_reader st3 r4)).
          { rewrite ps_snoc. eapply (mpd_ps b0 bk Hgbl dl c [47]); cbn [cs_fs set_reader]; eauto. }
          assert (Hfn3 : file_full_path h (cs_opts (set_reader st3 r4)) = ps b0 bk (dl ++ [c])).
          { cbn [cs_opts set_reader]. rewrite Hopts3, Hopts2. exact Hfn. }
          assert (Hu3 : o_use_path (cs_opts (set_reader st3 r4)) = true).
          { cbn [cs_opts set_reader]. rewrite Hopts3, Hopts2. exact Hu. }
          assert (Hl3 : lookup (ents ++ [(c, Dir true m now (builds u sub))]) c = Some (Dir true m now (builds u sub))).
          { apply lookup_last. exact Hl0. }
          destruct (fn_fake junk h (set_reader st3 r4) (ps b0 bk (dl ++ [c])) (bl ++ dl) c o pm now (ents ++ [(c, Dir true m now (builds u sub))]) m (builds u sub))
            as (st5 & Hex5 & Hopts5 & Hrd5 & Hmeta); auto.
          cbn [cs_fs set_reader cs_opts cs_reader] in *.
          destruct Hmeta as (Henv5 & _ & ents5 & Hn5 & Hl5 & Hcase).
          apply (Htail st5).
          { replace (size (IDir c h sub)) with (1 + (sizes sub + 1))%nat by (cbn [size]; unfold sizes; lia).
            eapply iters_app; [apply iters_one; eapply step_entry; eauto|].
            eapply iters_app; [exact Hit3|]. apply iters_one. eapply step_entry; eauto. }
          { congruence. }
          { exact (same_env_trans _ _ _ Henv23 Henv5). }
          { rewrite Hrd5. repeat split; discriminate. }
          { rewrite Hrd5. apply upcoming_mk. exact Hpos3. }
          { assert (Hcwd3 : fs_cwd (cs_fs st3) = fs_cwd (cs_fs st)) by apply Henv23.
            unfold dir_final_mode. fold m.
            destruct Hcase as [[Hr5 He5]|[Hr5 He5]].
            - subst ents5. rewrite (lookup_last _ _ _ Hl0) in Hl5. injection Hl5 as E1 E2.
              rewrite Hr5, Hroot3'. unfold builds. congruence.
            - rewrite Hr5, Hcwd3, Hroot3', update_const_twice, (set_ent_last _ _ _ _ Hl0). reflexivity. }
  Qed.

  (* the whole command, below bl (which exists) *)
  Theorem extract_archive_below_slash its st o pm t ents :
    let s := cs_fs st in
    Forall (wf_item u uid0 []) its -> Forall (fitsS []) its -> NoDup (map iname its) ->
    (forall c, In c (map iname its) -> lookup ents c = None) ->
    sl_opts (cs_opts st) -> fs_umask s = u -> fs_uid0 s = uid0 ->
    dir_ready s bl o pm t ents -> N.land pm 1024 = 0 ->
    rinv (cs_reader st) [] -> upcoming (cs_reader st) (flat_map ser its) ->
    N.of_nat (sizes its) < 2 ^ 40 ->
    exists st', extract_archive mktime junk f st = Ok (RVal true, st') /\
      same_env s (cs_fs st') /\ cs_opts st' = cs_opts st /\
      match its with
      | [] => cs_fs st' = s
      | _ => fs_root (cs_fs st') = update_at (fs_root s) (fs_cwd s ++ bl) (const_some (Dir o pm now (ents ++ builds u its)))
      end.
  Proof.
    intros s Hwf Hfit Hnd Hfresh Hopts Hum Huid Hready Hsg Hrinv Hup Hsz.
    rewrite <- (app_nil_r (flat_map ser its)) in Hup. rewrite <- (app_nil_r bl) in Hready.
    destruct (forest_run_slash (sizes its) its (le_n _) [] [] st true o pm t ents []
                Hwf Hfit Hnd Hfresh Hopts Hum Huid Hready Hsg Hrinv (or_introl eq_refl) Hup I)
      as (st1 & Hit & Hopts1 & Henv1 & Hrinv1 & Hup1 & Hroot1).
    destruct Hrinv1 as (Hpol1 & Hdef1 & Hstk1 & Hty1). destruct Hup1 as (br1 & Hf1 & Hpos1).
    assert (Hcur1 : br_curr br1 = None) by (inversion Hpos1; assumption).
    assert (Hnext : exists r', lha_reader_next_file mktime (cs_reader st1) = Ok (None, r')).
    { rewrite (next_file_eq mktime _ Hty1), Hf1. cbn [bind]. rewrite (present_end _ br1 false Hstk1 Hdef1 Hcur1). eauto. }
    destruct Hnext as [r' Hnext].
    pose proof (step_end mktime junk f Hnofilter true st1 r' Hnext) as Hend.
    assert (Hloops : loops (extract_archive_step mktime junk f) (sizes its + 0) (true, st) (RVal true, set_reader st1 r')).
    { eapply loops_after_iters; [exact Hit|]. constructor. exact Hend. }
    exists (set_reader st1 r'). split.
    - unfold extract_archive. destruct Hopts as (_ & Hd & _). rewrite Hd.
      eapply loop_complete_N; [exact Hloops|]. rewrite Nat.add_0_r. exact Hsz.
    - cbn [cs_fs set_reader cs_opts]. split; [exact Henv1|]. split; [exact Hopts1|].
      destruct its as [|it more]; [subst st1; reflexivity|].
      rewrite Hroot1, !app_nil_r. reflexivity.
  Qed.
End ForestSlash.

Print Assumptions forest_run_slash.
Print Assumptions extract_archive_below_slash.

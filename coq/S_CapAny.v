(* S_CapAny.v -- vocabulary of the end-to-end CONFINEMENT statement (C10 from
   archive bytes): the tree descriptions of S_Capstone.v whose symbolic links
   may point ANYWHERE (absolute targets, targets climbing with ".."), and the
   headers such a description stands for.  Definitions only. *)
From Lhasa Require Import Base ListN Generated Header Fs Reader P_CliExtract S_Capstone.
Local Open Scope N_scope.

(* S_Capstone.wf_desc without the clause [safe_target tgt = true]: a link target is any
   non-empty string of at most 4095 bytes in 1..254 (a C string; 0xFF is the separator of
   the path header) *)
Fixpoint wf_desc_any (uid0 : bool) (dl : list name) (d : desc) : Prop :=
  match d with
  | DFile c m t bs =>
      name_ok c /\ nlen (dirstr dl ++ c) <= 4095 /\ m < 4096 /\ t < 4294967296 /\
      nlen bs < 4294967296 /\ Forall (fun b => b < 256) bs /\
      (uid0 = true \/ drop_setid m = m)
  | DLink c t tgt =>
      name_ok c /\ nlen (dirstr dl ++ c) <= 4095 /\ t < 4294967296 /\
      tgt <> [] /\ nlen tgt <= 4095 /\ Forall tgt_byte tgt
  | DDir c m t sub =>
      name_ok c /\ nlen (dirstr (dl ++ [c])) <= 4095 /\ m < 4096 /\ t < 4294967296 /\
      NoDup (map dname sub) /\
      (fix all (l : list desc) : Prop :=
         match l with [] => True | x :: r => wf_desc_any uid0 (dl ++ [c]) x /\ all r end) sub
  end.

Definition wf_descs_any (uid0 : bool) (ds : list desc) : Prop :=
  Forall (wf_desc_any uid0 []) ds /\ NoDup (map dname ds).

(* the headers of the members of the archive, in archive order *)
Fixpoint hdrs_of (dl : list name) (d : desc) : list header :=
  match d with
  | DFile c m t bs => [file_header dl c m t bs]
  | DLink c t tgt => [link_header dl c t tgt]
  | DDir c m t sub => dir_header dl c m t :: flat_map (hdrs_of (dl ++ [c])) sub
  end.

Definition headers_of (ds : list desc) : list header := flat_map (hdrs_of []) ds.

(* [h] is the header of a member of archive_of ds *)
Definition member_of (ds : list desc) (h : header) : Prop := In h (headers_of ds).

(* the links described, with the path (components below the extraction directory) they stand at *)
Fixpoint dlinks (dl : list name) (d : desc) : list (list name * list N) :=
  match d with
  | DFile _ _ _ _ => []
  | DLink c _ tgt => [(dl ++ [c], tgt)]
  | DDir c _ _ sub => flat_map (dlinks (dl ++ [c])) sub
  end.

Definition links_of_descs (ds : list desc) : list (list name * list N) := flat_map (dlinks []) ds.

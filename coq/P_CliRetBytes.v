(* P_CliRetBytes.v -- C13 at the level of the tool, part 1: what the header parser
   guarantees about sizes when the archive consists of bytes.

   The model's type of a byte is N; dec_u32 does not mask, so a "byte" above 255
   in the stream would make header->length arbitrarily large, and the decode
   loops (fuel 2^64 reads) would not cover it.  Real archives consist of bytes:
   [SB st] says that everything the stream still holds is below 256.  It is kept
   by every stream operation, and a header parsed from such a stream declares a
   length below 2^32.

   Also here: a header that is returned has consumed at least 22 bytes (the
   strict form of P_HeaderSafe.lha_file_header_read_okp), which is what makes the
   loops over the members of an archive end.

   Lemmas and theorems only. *)
From Lhasa Require Import Base ListN Loop Generated Crc16 InputStream Header BasicReader
  P_HeaderSafe P_Intact P_StreamEquiv P_Header.
From Coq Require Import ZifyBool ZifyN ZifyNat.
Local Open Scope N_scope.

(* ------------------------------------------------------------------ *)
(* 0. lists of bytes                                                    *)

Definition bytes_ok (l : list N) : Prop := Forall (fun b => b < 256) l.

Lemma bytes_ok_nil : bytes_ok [].
Proof. constructor. Qed.

Lemma bytes_ok_app a b : bytes_ok a -> bytes_ok b -> bytes_ok (a ++ b).
Proof. intros A B. apply Forall_app. split; assumption. Qed.

Lemma bytes_ok_firstn n l : bytes_ok l -> bytes_ok (firstn_N n l).
Proof. intros H. unfold bytes_ok in *. rewrite <- (firstn_skipn_N n l) in H. apply Forall_app in H. apply H. Qed.

Lemma bytes_ok_skipn n l : bytes_ok l -> bytes_ok (skipn_N n l).
Proof. intros H. unfold bytes_ok in *. rewrite <- (firstn_skipn_N n l) in H. apply Forall_app in H. apply H. Qed.

Lemma bytes_ok_nth l i b : bytes_ok l -> nth_N l i = Some b -> b < 256.
Proof.
  intros H E. unfold nth_N in E. apply nth_error_In in E.
  unfold bytes_ok in H. rewrite Forall_forall in H. apply H. exact E.
Qed.

(* a loop whose step keeps an invariant ends in a state satisfying it *)
Lemma loop_keeps {S R : Type} (step : S -> outcome (S + R)) (I : S -> Prop) (Q : R -> Prop) :
  (forall s x, I s -> step s = Ok x -> match x with inl s' => I s' | inr r => Q r end) ->
  forall k s r, I s -> loop step k s = Ok r -> Q r.
Proof.
  intros Hs k s r Hi H. apply loop_sound in H. destruct H as (n & Hl & _).
  induction Hl as [s r E|n s s' r E Hl IH].
  - exact (Hs s (inr r) Hi E).
  - apply IH. exact (Hs s (inl s') Hi E).
Qed.

(* ------------------------------------------------------------------ *)
(* 1. the stream                                                        *)

Definition SB (st : istream) : Prop := bytes_ok (is_leadin st) /\ bytes_ok (so_data (is_src st)).

Lemma new_stream_SB k data : bytes_ok data -> SB (lha_input_stream_new (mk_source k data)).
Proof. intros H. split; [apply bytes_ok_nil|exact H]. Qed.

Lemma read_ready_SB st n : SB st ->
  SB (snd (read_ready st n)) /\
  match fst (read_ready st n) with Some b => bytes_ok b | None => True end.
Proof.
  intros [Hl Hd]. unfold read_ready.
  destruct (is_state st); try (cbn [fst snd]; split; [split; assumption|exact I]).
  - cbv zeta. unfold raw_read. cbv beta iota.
    destruct (nlen (firstn_N n (is_leadin st)) <? n).
    + destruct (nlen (firstn_N n (is_leadin st)) +
                nlen (firstn_N (n - nlen (firstn_N n (is_leadin st))) (so_data (is_src st))) =? n);
        cbn [fst snd]; unfold SB; cbn [is_leadin is_src so_data].
      * split; [split; apply bytes_ok_skipn; assumption|].
        apply bytes_ok_app; apply bytes_ok_firstn; assumption.
      * split; [split; apply bytes_ok_skipn; assumption|exact I].
    + cbn [fst snd]. unfold SB; cbn [is_leadin is_src so_data].
      split; [split; [apply bytes_ok_skipn; assumption|assumption]|apply bytes_ok_firstn; assumption].
  - cbv zeta. unfold raw_read. cbv beta iota.
    destruct (nlen (firstn_N n (is_leadin st)) <? n).
    + destruct (nlen (firstn_N n (is_leadin st)) +
                nlen (firstn_N (n - nlen (firstn_N n (is_leadin st))) (so_data (is_src st))) =? n);
        cbn [fst snd]; unfold SB; cbn [is_leadin is_src so_data].
      * split; [split; apply bytes_ok_skipn; assumption|].
        apply bytes_ok_app; apply bytes_ok_firstn; assumption.
      * split; [split; apply bytes_ok_skipn; assumption|exact I].
    + cbn [fst snd]. unfold SB; cbn [is_leadin is_src so_data].
      split; [split; [apply bytes_ok_skipn; assumption|assumption]|apply bytes_ok_firstn; assumption].
Qed.

(* the self-extractor scan *)
Definition sfxB (s : sfx_st) : Prop := bytes_ok (sx_leadin s) /\ bytes_ok (so_data (sx_src s)).

Lemma sfx_step_SB s x : sfxB s -> sfx_step s = Ok x ->
  match x with
  | inl s' => sfxB s'
  | inr (_, src', l) => bytes_ok l /\ bytes_ok (so_data src')
  end.
Proof.
  unfold sfx_step. intros [Hl Hd] E.
  destruct (sx_filepos s <? MAX_SFX_HEADER_LEN).
  2:{ inversion E; subst. split; assumption. }
  unfold raw_read in E. cbv beta iota in E.
  set (n := LEADIN_BUFFER_LEN - nlen (sx_leadin s)) in *.
  pose proof (bytes_ok_firstn n _ Hd) as Hg. pose proof (bytes_ok_skipn n _ Hd) as Hr.
  destruct (firstn_N n (so_data (sx_src s))) as [|g gs] eqn:Eg.
  { inversion E; subst. cbn [so_data]. split; assumption. }
  assert (HL : bytes_ok (sx_leadin s ++ g :: gs)) by (apply bytes_ok_app; assumption).
  destruct (leadin_extent <? nlen (sx_leadin s ++ g :: gs)); [discriminate|].
  bind_inv E as [[found i] skip'] Es.
  destruct found as [i0|]; inversion E; subst.
  - cbn [so_data]. split; [apply bytes_ok_skipn; exact HL|exact Hr].
  - unfold sfxB. cbn [sx_leadin sx_src so_data]. split; [apply bytes_ok_skipn; exact HL|exact Hr].
Qed.

Lemma skip_sfx_SB st ok st' : SB st -> skip_sfx st = Ok (ok, st') -> SB st'.
Proof.
  unfold skip_sfx. intros [Hl Hd] E. bind_inv E as [[ok0 src'] l] El. inversion E; subst.
  assert (G : bytes_ok l /\ bytes_ok (so_data src')).
  { apply (loop_keeps sfx_step sfxB (fun r => let '(_, src', l) := r in bytes_ok l /\ bytes_ok (so_data src'))
             sfx_step_SB _ _ _ (conj Hl Hd : sfxB {| sx_src := is_src st; sx_leadin := is_leadin st; sx_filepos := 0; sx_skip := 0 |}) El). }
  destruct G as [A B]. split; assumption.
Qed.

Lemma stream_read_SB st n r st' : SB st -> lha_input_stream_read st n = Ok (r, st') ->
  SB st' /\ match r with Some b => bytes_ok b | None => True end.
Proof.
  unfold lha_input_stream_read. intros Hs E. bind_inv E as st1 E1.
  assert (H1 : SB st1).
  { destruct (is_state st).
    - bind_inv E1 as [ok st0] Ex. inversion E1; subst. apply skip_sfx_SB in Ex; [|exact Hs].
      destruct Ex as [A B]. split; assumption.
    - inversion E1; subst. exact Hs.
    - inversion E1; subst. exact Hs. }
  pose proof (read_ready_SB st1 n H1) as G. inversion E as [E2]. rewrite E2 in G. exact G.
Qed.

Lemma stream_skip_SB st m ok st' :
  m < 1099511627776 \/ nlen (so_data (is_src st)) < 1099511627776 ->
  SB st -> lha_input_stream_skip st m = Ok (ok, st') -> SB st'.
Proof.
  intros Hb [Hl Hd] E.
  destruct (lha_input_stream_skip_spec st m Hb) as (src' & E' & _ & D). rewrite E' in E. inversion E; subst.
  split; [exact Hl|]. cbn [is_src]. rewrite D. apply bytes_ok_skipn. exact Hd.
Qed.

(* ------------------------------------------------------------------ *)
(* 2. a 32-bit field of bytes                                           *)

Lemma lor_lt a b n : a < 2 ^ n -> b < 2 ^ n -> N.lor a b < 2 ^ n.
Proof.
  intros A B.
  destruct (N.eq_dec (N.lor a b) 0) as [Z|NZ]; [rewrite Z; apply N.neq_0_lt_0; apply N.pow_nonzero; discriminate|].
  apply N.log2_lt_pow2; [apply N.neq_0_lt_0; exact NZ|].
  rewrite N.log2_lor.
  destruct (N.eq_dec a 0) as [Za|Na].
  - subst a. rewrite N.lor_0_l in NZ. change (N.log2 0) with 0. rewrite N.max_0_l.
    apply N.log2_lt_pow2; [apply N.neq_0_lt_0; exact NZ|exact B].
  - destruct (N.eq_dec b 0) as [Zb|Nb].
    + subst b. change (N.log2 0) with 0. rewrite N.max_0_r.
      apply N.log2_lt_pow2; [apply N.neq_0_lt_0; exact Na|exact A].
    + apply N.max_lub_lt; apply N.log2_lt_pow2; try (apply N.neq_0_lt_0; assumption); assumption.
Qed.

Lemma shiftl_lt b k n : b < 2 ^ n -> N.shiftl b k < 2 ^ (n + k).
Proof. intros H. rewrite N.shiftl_mul_pow2, N.pow_add_r. apply N.mul_lt_mono_pos_r; [|exact H]. apply N.neq_0_lt_0. apply N.pow_nonzero. discriminate. Qed.

Lemma dec_u32_lt site raw i v : bytes_ok raw -> dec_u32 site raw i = Ok v -> v < 4294967296.
Proof.
  unfold dec_u32. intros Hb E.
  bind_inv E as b0 E0. bind_inv E as b1 E1. bind_inv E as b2 E2. bind_inv E as b3 E3.
  apply raw_at_inv in E0, E1, E2, E3.
  apply (bytes_ok_nth _ _ _ Hb) in E0, E1, E2, E3. inversion E; subst. clear E.
  change 4294967296 with (2 ^ 32).
  assert (A0 : b0 < 2 ^ 32) by (change (2 ^ 32) with 4294967296; lia).
  assert (A1 : N.shiftl b1 8 < 2 ^ 32).
  { eapply N.lt_le_trans; [apply (shiftl_lt b1 8 8); exact E1|]. change (2 ^ (8 + 8)) with 65536. change (2 ^ 32) with 4294967296. lia. }
  assert (A2 : N.shiftl b2 16 < 2 ^ 32).
  { eapply N.lt_le_trans; [apply (shiftl_lt b2 16 8); exact E2|]. change (2 ^ (8 + 16)) with 16777216. change (2 ^ 32) with 4294967296. lia. }
  assert (A3 : N.shiftl b3 24 < 2 ^ 32).
  { eapply N.lt_le_trans; [apply (shiftl_lt b3 24 8); exact E3|]. change (2 ^ (8 + 24)) with 4294967296. change (2 ^ 32) with 4294967296. lia. }
  apply lor_lt; apply lor_lt; assumption.
Qed.

(* ------------------------------------------------------------------ *)
(* 3. the declared length of a parsed header                            *)

Notation LEN32 := 4294967296.

Lemma split_header_filename_len h : h_length (split_header_filename h) = h_length h.
Proof.
  unfold split_header_filename. destruct (h_filename h) as [f|]; [|reflexivity].
  destruct (last_index f 47 0 None); reflexivity.
Qed.

Lemma process_level0_path_len h d : h_length (process_level0_path h d) = h_length h.
Proof. unfold process_level0_path. destruct d; [reflexivity|]. rewrite split_header_filename_len. reflexivity. Qed.

Lemma ext_header_decode_len h num start dl h' :
  lha_ext_header_decode h num start dl = Ok h' -> h_length h' = h_length h.
Proof.
  unfold lha_ext_header_decode.
  destruct (find_ext ext_header_nums ext_header_min_lens ext_header_decoder_ids num) as [[m id]|] eqn:E.
  2:{ intros H. inversion H. reflexivity. }
  apply find_ext_in in E.
  destruct (dl <? m); [intros H; inversion H; reflexivity|].
  unfold ext_header_min_lens, ext_header_decoder_ids in E. cbn [combine In] in E.
  unfold ext_decode.
  repeat (destruct E as [E|E]; [inversion E; subst m id; clear E; cbv beta iota zeta|]);
    try contradiction; intros H; fin H; reflexivity.
Qed.

Lemma ext_step_len fs s x : ext_step fs s = Ok x ->
  match x with
  | inl s' => h_length (fst (fst s')) = h_length (fst (fst s))
  | inr r => h_length (snd r) = h_length (fst (fst s))
  end.
Proof.
  destruct s as [[h off] av]. unfold ext_step. cbn [fst snd].
  destruct (off <=? usub64 (nlen (h_raw h)) fs); [|intros H; inversion H; reflexivity].
  intros H. bind_inv H as len El.
  destruct (len =? 0); [inversion H; reflexivity|].
  destruct ((len <? fs + 1) || (av <? len)); [inversion H; reflexivity|].
  bind_inv H as num En. bind_inv H as h' Eh. inversion H; subst. cbn [fst].
  eapply ext_header_decode_len. exact Eh.
Qed.

Lemma decode_extended_headers_len h off ok h' :
  decode_extended_headers h off = Ok (ok, h') -> h_length h' = h_length h.
Proof.
  unfold decode_extended_headers. intros H.
  apply (loop_keeps _ (fun s => h_length (fst (fst s)) = h_length h) (fun r => h_length (snd r) = h_length h)) in H.
  - exact H.
  - intros s x Hi E. pose proof (ext_step_len _ _ _ E) as G. destruct x; congruence.
  - reflexivity.
Qed.

(* bytes, well-formedness and a bound on what is left, together *)
Definition SW (a : N) (st : istream) : Prop := SB st /\ wf st /\ avail st <= a.

Lemma stream_read_SW a st n r st' : SW a st -> lha_input_stream_read st n = Ok (r, st') ->
  SW a st' /\ match r with Some b => bytes_ok b /\ nlen b = n /\ avail st' + n <= avail st | None => True end.
Proof.
  intros (Hs & Hw & Ha) E.
  destruct (lha_input_stream_read_total st n Hw) as (r0 & st0 & E0 & Hw0 & Ha0 & Hr0).
  rewrite E0 in E. inversion E; subst r0 st0. clear E.
  apply stream_read_SB in E0; [|exact Hs]. destruct E0 as [Hs' Hb].
  split; [split; [exact Hs'|split; [exact Hw0|lia]]|].
  destruct r; [|exact I]. split; [exact Hb|exact Hr0].
Qed.

Section SWa.
Variable lim : N.

Lemma extend_SB h st n r st' : SW lim st -> extend_raw_data h st n = Ok (r, st') ->
  SW lim st' /\ match r with
            | Some h1 => (bytes_ok (h_raw h) -> bytes_ok (h_raw h1)) /\ h_length h1 = h_length h
            | None => True
            end.
Proof.
  unfold extend_raw_data. intros Hs H.
  destruct (hdr_LEVEL_3_MAX_HEADER_LEN <? n); [inversion H; subst; split; [exact Hs|exact I]|].
  bind_inv H as [r1 st1] E. apply (stream_read_SW lim) in E; [|exact Hs]. destruct E as [Hs1 Hr].
  destruct r1 as [bytes|]; inversion H; subst; split; try exact Hs1; try exact I.
  split; [|reflexivity]. intros Hb. cbn [h_raw set_raw]. apply bytes_ok_app; [exact Hb|apply Hr].
Qed.

(* read_l1_extended_headers *)
Lemma l1_step_SB L s x : SW lim (snd s) /\ h_length (fst s) = L ->
  l1_step s = Ok x ->
  match x with
  | inl s' => SW lim (snd s') /\ h_length (fst s') = L
  | inr (_, h', st') => SW lim st' /\ h_length h' = L
  end.
Proof.
  destruct s as [h st]. cbn [fst snd]. unfold l1_step. intros (Hs & Hl) H.
  bind_inv H as len El. destruct (len =? 0); [inversion H; subst; split; [assumption|reflexivity]|].
  bind_inv H as [r st1] Ex. apply extend_SB in Ex; [|exact Hs]. destruct Ex as [Hs1 Hr].
  destruct r as [h1|]; [|inversion H; subst; split; [assumption|reflexivity]].
  destruct Hr as [_ Hl1].
  destruct (h_compressed_length h1 <? len); [inversion H; subst; split; [exact Hs1|congruence]|].
  destruct (len <? 3); inversion H; subst; cbn [fst snd]; (split; [exact Hs1|]); cbn [h_length set_clen]; congruence.
Qed.

Lemma read_l1_SB h st ok h' st' : SW lim st ->
  read_l1_extended_headers h st = Ok (ok, h', st') -> SW lim st' /\ h_length h' = h_length h.
Proof.
  unfold read_l1_extended_headers. intros Hs H.
  apply (loop_keeps l1_step (fun s => SW lim (snd s) /\ h_length (fst s) = h_length h)
           (fun r => let '(_, h', st') := r in SW lim st' /\ h_length h' = h_length h)
           (l1_step_SB (h_length h))) in H.
  - exact H.
  - cbn [fst snd]. split; [exact Hs|reflexivity].
Qed.

Lemma process_level0_extended_area_len h start len h' :
  process_level0_extended_area h start len = Ok h' -> h_length h' = h_length h.
Proof.
  unfold process_level0_extended_area, process_level0_unix_area, process_level0_os9_area.
  intros H. fin H; reflexivity.
Qed.

Section Len.
  Variable mktime : N -> N -> N -> N -> Z -> N -> N.

  Lemma decode_level0_header_SB h st ok h1 st1 : SW lim st -> bytes_ok (h_raw h) -> h_length h < LEN32 ->
    decode_level0_header mktime h st = Ok (ok, h1, st1) -> SW lim st1 /\ h_length h1 < LEN32.
  Proof.
    unfold decode_level0_header. intros Hs Hb Hl H.
    bind_inv H as hl E0. bind_inv H as csum E1. cbv zeta in H.
    destruct (negb ((h_level h =? 0) || (h_level h =? 1))); [inversion H; subst; auto|].
    match type of H with (if ?c then _ else _) = _ => destruct c end; [inversion H; subst; auto|].
    bind_inv H as [r st2] Ex. apply extend_SB in Ex; [|exact Hs]. destruct Ex as [Hs2 Hr].
    destruct r as [h2|]; [|inversion H; subst; auto]. destruct Hr as [Hb2 Hl2]. specialize (Hb2 Hb).
    bind_inv H as body Eb.
    match type of H with (if ?c then _ else _) = _ => destruct c end;
      [inversion H; subst; split; [exact Hs2|lia]|].
    bind_inv H as m Em. bind_inv H as clen Ec. bind_inv H as len Elen. bind_inv H as ft Eft.
    apply dec_u32_lt in Elen; [|exact Hb2].
    bind_inv H as path_len Ep.
    match type of H with (if ?c then _ else _) = _ => destruct c end;
      [inversion H; subst; split; [exact Hs2|exact Elen]|].
    bind_inv H as os Eos. bind_inv H as pdata Epd. bind_inv H as crc Ecrc.
    match type of H with (if ?c then _ else _) = _ => destruct c end.
    - bind_inv H as h6 E6. inversion H; subst.
      apply process_level0_extended_area_len in E6.
      split; [exact Hs2|]. rewrite E6. cbn [h_length set_crc]. rewrite process_level0_path_len. exact Elen.
    - inversion H; subst. split; [exact Hs2|].
      cbn [h_length set_crc]. rewrite process_level0_path_len. exact Elen.
  Qed.

  Lemma decode_level1_header_SB h st ok h1 st1 : SW lim st -> bytes_ok (h_raw h) -> h_length h < LEN32 ->
    decode_level1_header mktime h st = Ok (ok, h1, st1) -> SW lim st1 /\ h_length h1 < LEN32.
  Proof.
    unfold decode_level1_header. intros Hs Hb Hl H.
    bind_inv H as [[ok0 h0] st0] E0. apply decode_level0_header_SB in E0; try assumption.
    destruct E0 as [Hs0 Hl0].
    destruct (negb ok0); [inversion H; subst; auto|].
    bind_inv H as [[ok2 h2] st2] E2. apply read_l1_SB in E2; [|exact Hs0]. destruct E2 as [Hs2 Hl2].
    destruct (negb ok2); [inversion H; subst; split; [exact Hs2|lia]|].
    bind_inv H as [ok3 h3] E3. apply decode_extended_headers_len in E3.
    inversion H; subst. split; [exact Hs2|lia].
  Qed.

  Lemma decode_l23_fields_len h h' : bytes_ok (h_raw h) -> decode_l23_fields h = Ok h' ->
    h_length h' < LEN32.
  Proof.
    unfold decode_l23_fields. intros Hb H.
    bind_inv H as m Em. bind_inv H as clen Ec. bind_inv H as len Elen. bind_inv H as ts Ets.
    bind_inv H as crc Ecrc. bind_inv H as os Eos. inversion H; subst.
    apply dec_u32_lt in Elen; [|exact Hb]. exact Elen.
  Qed.

  Lemma decode_level2_header_SB h st ok h1 st1 : SW lim st -> bytes_ok (h_raw h) -> h_length h < LEN32 ->
    decode_level2_header h st = Ok (ok, h1, st1) -> SW lim st1 /\ h_length h1 < LEN32.
  Proof.
    unfold decode_level2_header. intros Hs Hb Hl H.
    bind_inv H as hl E0.
    match type of H with (if ?c then _ else _) = _ => destruct c end; [inversion H; subst; auto|].
    bind_inv H as [r st2] Ex. apply extend_SB in Ex; [|exact Hs]. destruct Ex as [Hs2 Hr].
    destruct r as [h2|]; [|inversion H; subst; auto]. destruct Hr as [Hb2 Hl2]. specialize (Hb2 Hb).
    bind_inv H as h3 E3. apply decode_l23_fields_len in E3; [|exact Hb2].
    bind_inv H as [r3 st3] Ex3.
    assert (G : SW lim st3 /\ match r3 with Some h4 => h_length h4 = h_length h3 | None => True end).
    { destruct (h_os_type h3 =? OS_TYPE_OS9_68K).
      - apply extend_SB in Ex3; [|exact Hs2]. destruct Ex3 as [A B]. split; [exact A|].
        destruct r3; [apply B|exact I].
      - inversion Ex3; subst. split; [exact Hs2|reflexivity]. }
    destruct G as [Hs3 Hr3].
    destruct r3 as [h4|]; [|inversion H; subst; auto].
    bind_inv H as [ok4 h5] E5. apply decode_extended_headers_len in E5. inversion H; subst.
    split; [exact Hs3|lia].
  Qed.

  Lemma decode_level3_header_SB h st ok h1 st1 : SW lim st -> bytes_ok (h_raw h) -> h_length h < LEN32 ->
    decode_level3_header h st = Ok (ok, h1, st1) -> SW lim st1 /\ h_length h1 < LEN32.
  Proof.
    unfold decode_level3_header. intros Hs Hb Hl H.
    bind_inv H as ws E0.
    destruct (negb (ws =? 4)); [inversion H; subst; auto|].
    bind_inv H as [r st2] Ex. apply extend_SB in Ex; [|exact Hs]. destruct Ex as [Hs2 Hr].
    destruct r as [h2|]; [|inversion H; subst; auto]. destruct Hr as [Hb2 Hl2]. specialize (Hb2 Hb).
    bind_inv H as hlen E3.
    match type of H with (if ?c then _ else _) = _ => destruct c end;
      [inversion H; subst; split; [exact Hs2|lia]|].
    bind_inv H as [r3 st3] Ex3. apply extend_SB in Ex3; [|exact Hs2]. destruct Ex3 as [Hs3 Hr3].
    destruct r3 as [h3|]; [|inversion H; subst; split; [exact Hs3|lia]].
    destruct Hr3 as [Hb3 Hl3]. specialize (Hb3 Hb2).
    bind_inv H as h4 E4. apply decode_l23_fields_len in E4; [|exact Hb3].
    bind_inv H as [ok5 h5] E5. apply decode_extended_headers_len in E5. inversion H; subst.
    split; [exact Hs3|lia].
  Qed.

  (* the common tail keeps the declared length *)
  Lemma parse_symlink_len h h' : parse_symlink h = Some h' -> h_length h' = h_length h.
  Proof.
    unfold parse_symlink. destruct (first_index (full_path h) 124 0); [|discriminate].
    intros E. injection E as <-. rewrite split_header_filename_len. reflexivity.
  Qed.

  Lemma post_len h1 st2 h st' : post h1 st2 = Ok (Some h, st') -> h_length h = h_length h1.
  Proof.
    rewrite post_stages. destruct (m_kind (m_amiga h1)) as [h3|] eqn:Ek; [|discriminate].
    cbv zeta. match goal with |- (if ?c then _ else _) = _ -> _ => destruct c end; [discriminate|].
    intros E. injection E as <- _.
    assert (A : h_length (m_amiga h1) = h_length h1).
    { unfold m_amiga. match goal with |- h_length (if ?c then _ else _) = _ => destruct c end; reflexivity. }
    assert (K : h_length h3 = h_length h1).
    { revert Ek. unfold m_kind. destruct (negb (method_is (m_amiga h1) COMPRESS_TYPE_DIR)).
      - destruct (h_filename (m_amiga h1)); [|discriminate]. intros E. injection E as <-. exact A.
      - match goal with |- (if ?c then _ else _) = _ -> _ => destruct c end.
        + intros E. apply parse_symlink_len in E. congruence.
        + destruct (h_path (m_amiga h1)); [|discriminate]. intros E. injection E as <-. exact A. }
    assert (C : h_length (m_case h3) = h_length h3).
    { unfold m_case. match goal with |- h_length (if ?c then _ else _) = _ => destruct c end; [|reflexivity].
      unfold fix_msdos_allcaps. match goal with |- h_length (if ?c then _ else _) = _ => destruct c end; reflexivity. }
    assert (O : forall x, h_length (m_os9 x) = h_length x).
    { intros x. unfold m_os9.
      match goal with |- h_length (if have_extra ?y _ then _ else _) = _ => assert (Y : h_length y = h_length x) end.
      { match goal with |- h_length (if ?c then _ else _) = _ => destruct c end; reflexivity. }
      match goal with |- h_length (if ?c then _ else _) = _ => destruct c end; [|exact Y].
      unfold os9_to_unix_permissions. cbv zeta. cbn [h_length set_unix_perms add_flag]. exact Y. }
    unfold m_lhark. match goal with |- h_length (if ?c then _ else _) = _ => destruct c end;
      cbn [h_length set_method]; rewrite O; unfold m_collapse; cbn [h_length set_path]; congruence.
  Qed.

End Len.
End SWa.

Section Read.
  Variable mktime : N -> N -> N -> N -> Z -> N -> N.

  (* a header parsed from a stream of bytes declares a length below 2^32 and has
     consumed at least 22 bytes; the stream still consists of bytes *)
  Theorem header_read_SW st oh st' : SB st -> wf st ->
    lha_file_header_read mktime st = Ok (oh, st') ->
    SB st' /\ wf st' /\ avail st' <= avail st /\
    forall h, oh = Some h -> h_length h < LEN32 /\ avail st' + 22 <= avail st.
  Proof.
    rewrite lha_file_header_read_unfold. intros Hs Hw H.
    bind_inv H as [r st1] Er. apply (stream_read_SW (avail st)) in Er; [|split; [exact Hs|split; [exact Hw|lia]]].
    destruct Er as [(Hs1 & Hw1 & Ha1) Hr]. change hdr_COMMON_HEADER_LEN with 22 in Hr.
    destruct r as [raw|]; [|inversion H; subst; split; [exact Hs1|split; [exact Hw1|split; [exact Ha1|discriminate]]]].
    destruct Hr as (Hb & Hn & Ha22).
    bind_inv H as lvl El. cbv zeta in H.
    bind_inv H as [[ok h1] st2] Ed.
    assert (G : SW (avail st1) st2 /\ h_length h1 < LEN32).
    { assert (Hb' : bytes_ok (h_raw (set_level (header0 raw) lvl))) by exact Hb.
      assert (Hl : h_length (set_level (header0 raw) lvl) < LEN32) by (cbn [h_length set_level header0]; lia).
      assert (S1 : SW (avail st1) st1) by (split; [exact Hs1|split; [exact Hw1|lia]]).
      destruct (lvl =? 0); [eapply decode_level0_header_SB; eauto|].
      destruct (lvl =? 1); [eapply decode_level1_header_SB; eauto|].
      destruct (lvl =? 2); [eapply decode_level2_header_SB; eauto|].
      destruct (lvl =? 3); [eapply decode_level3_header_SB; eauto|].
      inversion Ed; subst. split; assumption. }
    destruct G as [(Hs2 & Hw2 & Ha2) Hl1].
    destruct (negb ok); [inversion H; subst; split; [exact Hs2|split; [exact Hw2|split; [lia|discriminate]]]|].
    assert (E' : st' = st2).
    { rewrite post_stages in H. destruct (m_kind (m_amiga h1)); [|inversion H; reflexivity].
      cbv zeta in H. match type of H with (if ?c then _ else _) = _ => destruct c end; inversion H; reflexivity. }
    subst st'. split; [exact Hs2|]. split; [exact Hw2|]. split; [lia|]. intros h Eh. subst oh.
    apply post_len in H. split; lia.
  Qed.
End Read.

Print Assumptions header_read_SW.

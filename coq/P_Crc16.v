(* P_Crc16.v -- the table-driven routine equals the bitwise CRC-16/ARC. *)
From Lhasa Require Import Base Generated Sweep Crc16.
From Coq Require Import ZifyBool ZifyN ZifyNat.
Local Open Scope N_scope.

Lemma crc16_table_has_256 : crc16_table_len = 256.
Proof. reflexivity. Qed.

Definition table_entry_ok (x : N) : bool :=
  N.land (N.lxor (N.shiftr x 8) (nth (N.to_nat (N.land x 255)) crc16_table 0)) 65535
  =? bit_step8 x.

Lemma table_sweep : sweep 16 table_entry_ok 0 = true.
Proof. vm_compute. reflexivity. Qed.

Lemma table_entry_ok_all x : x < 65536 -> table_entry_ok x = true.
Proof. intros H. apply (sweep_below 16 _ table_sweep). exact H. Qed.

Lemma shiftr8_xor_byte c b : b < 256 -> N.shiftr (N.lxor c b) 8 = N.shiftr c 8.
Proof.
  intros Hb. rewrite N.shiftr_lxor.
  assert (N.shiftr b 8 = 0).
  { rewrite N.shiftr_div_pow2. apply N.div_small. exact Hb. }
  rewrite H. apply N.lxor_0_r.
Qed.

Lemma lxor_lt_pow2 a b n : a < 2 ^ n -> b < 2 ^ n -> N.lxor a b < 2 ^ n.
Proof.
  intros Ha Hb.
  destruct (N.eq_dec (N.lxor a b) 0) as [E|E]; [rewrite E; apply N.neq_0_lt_0; apply N.pow_nonzero; lia|].
  apply N.log2_lt_pow2; [lia|].
  eapply N.le_lt_trans; [apply N.log2_lxor|].
  destruct (N.eq_dec a 0) as [->|Ha0]; destruct (N.eq_dec b 0) as [->|Hb0].
  - simpl in E. congruence.
  - rewrite N.max_r by (simpl; lia). apply N.log2_lt_pow2; lia.
  - rewrite N.max_l by (simpl; lia). apply N.log2_lt_pow2; lia.
  - apply N.max_lub_lt; apply N.log2_lt_pow2; lia.
Qed.

Lemma crc_step_is_byte_step c b : c < 65536 -> b < 256 -> crc_step c b = byte_step c b.
Proof.
  intros Hc Hb. unfold crc_step, byte_step.
  assert (Hx : N.lxor c b < 65536).
  { change 65536 with (2 ^ 16). apply lxor_lt_pow2; change (2 ^ 16) with 65536; lia. }
  pose proof (table_entry_ok_all _ Hx) as H. unfold table_entry_ok in H.
  apply N.eqb_eq in H. rewrite shiftr8_xor_byte in H by exact Hb. exact H.
Qed.

Lemma crc_step_range c b : crc_step c b < 65536.
Proof.
  unfold crc_step. change 65535 with (N.ones 16). rewrite N.land_ones.
  change 65536 with (2 ^ 16). apply N.mod_lt. discriminate.
Qed.

Theorem crc16_is_arc_proof : forall bs c, c < 65536 -> Forall (fun b => b < 256) bs ->
  lha_crc16_buf c bs = crc_bitwise c bs.
Proof.
  unfold lha_crc16_buf, crc_bitwise.
  induction bs as [|b bs IH]; intros c Hc Hbs; [reflexivity|].
  cbn [fold_left]. inversion Hbs as [|? ? Hb Hrest]; subst.
  rewrite <- crc_step_is_byte_step by assumption.
  apply IH; [apply crc_step_range|assumption].
Qed.

Theorem crc16_split_proof : forall c xs ys,
  lha_crc16_buf c (xs ++ ys) = lha_crc16_buf (lha_crc16_buf c xs) ys.
Proof. intros. unfold lha_crc16_buf. apply fold_left_app. Qed.

Theorem crc_bitwise_split : forall c xs ys,
  crc_bitwise c (xs ++ ys) = crc_bitwise (crc_bitwise c xs) ys.
Proof. intros. unfold crc_bitwise. apply fold_left_app. Qed.

Lemma lha_crc16_buf_range bs : forall c, c < 65536 -> lha_crc16_buf c bs < 65536.
Proof.
  unfold lha_crc16_buf. induction bs as [|b bs IH]; intros c Hc; [exact Hc|].
  cbn [fold_left]. apply IH. apply crc_step_range.
Qed.

(* every split into any number of pieces *)
Theorem crc16_pieces_proof : forall pieces c,
  fold_left lha_crc16_buf pieces c = lha_crc16_buf c (concat pieces).
Proof.
  induction pieces as [|p ps IH]; intros c; [reflexivity|].
  cbn [fold_left concat]. rewrite IH. symmetry. apply crc16_split_proof.
Qed.

(* P_CliExtract.v -- C06, tool level (src/extract.c, CliExtract.v): extraction
   of one regular file, one directory entry, the "fake" entry that closes a
   directory, a safe symbolic link; and the whole loop of extract_archive on a
   well-formed archive (a forest of directories, each followed contiguously by
   its contents). *)
From Lhasa Require Import Base ListN DecBase Loop Generated Crc16 InputStream Header BasicReader
  AnyDecoder Decoder MacBinary Fs FsRun Reader Glob ListOut CliFilter CliExtract
  P_ReaderCheck P_FsExtract P_ReaderExtract.
From Coq Require Import ZifyBool ZifyN ZifyNat.
Local Open Scope N_scope.

Set Default Timeout 60.

(* ------------------------------------------------------------------ *)
(* path strings *)

Definition slashfree (c : list N) : Prop := Forall (fun b => b <> 47) c.
(* a name an archive member can have: not empty, no '/', not "." or "..", at most NAME_MAX bytes *)
Definition good_name (c : name) : Prop := c <> [] /\ slashfree c /\ plain c.
(* "d1/d2/.../dk/" *)
Definition dirstr (comps : list name) : list N := concat (map (fun c => c ++ [47]) comps).

Lemma dirstr_cons d ds : dirstr (d :: ds) = d ++ 47 :: dirstr ds.
Proof. unfold dirstr. cbn [map concat]. rewrite <- app_assoc. reflexivity. Qed.

Lemma dirstr_app a b : dirstr (a ++ b) = dirstr a ++ dirstr b.
Proof. unfold dirstr. rewrite map_app, concat_app. reflexivity. Qed.

Lemma dirstr_snoc a c : dirstr (a ++ [c]) = dirstr a ++ c ++ [47].
Proof. rewrite dirstr_app. unfold dirstr at 2. cbn [map concat]. rewrite app_nil_r. reflexivity. Qed.

Lemma split_aux_name : forall c r cur, slashfree c -> split_path_aux (c ++ r) cur = split_path_aux r (rev c ++ cur).
Proof.
  induction c as [|b c IH]; intros r cur H; [reflexivity|].
  inversion H as [|b0 c0 Hb Hc]; subst. cbn [app split_path_aux rev].
  destruct (b =? 47) eqn:E; [apply N.eqb_eq in E; contradiction|].
  rewrite (IH r (b :: cur) Hc), <- app_assoc. reflexivity.
Qed.

Lemma rev_nonnil {A} (c : list A) : c <> [] -> exists x r, rev c = x :: r.
Proof.
  intros H. destruct (rev c) as [|x r] eqn:E; [|eauto].
  apply (f_equal (@rev A)) in E. rewrite rev_involutive in E. contradiction.
Qed.

Lemma split_dirstr tail : forall comps, Forall good_name comps ->
  split_path_aux (dirstr comps ++ tail) [] = comps ++ split_path_aux tail [].
Proof.
  induction comps as [|d ds IH]; intros H; [reflexivity|].
  inversion H as [|d0 ds0 (Hne & Hsf & _) Hds]; subst.
  rewrite dirstr_cons, <- app_assoc, (split_aux_name d _ [] Hsf). cbn [app split_path_aux]. rewrite N.eqb_refl, app_nil_r.
  destruct (rev_nonnil d Hne) as (x & r & E). rewrite E, <- E, rev_involutive, (IH Hds). reflexivity.
Qed.

Lemma split_name c : good_name c -> split_path_aux c [] = [c].
Proof.
  intros (Hne & Hsf & _). rewrite <- (app_nil_r c) at 1. rewrite (split_aux_name c [] [] Hsf). cbn [split_path_aux].
  rewrite app_nil_r. destruct (rev_nonnil c Hne) as (x & r & E). rewrite E, <- E, rev_involutive. reflexivity.
Qed.

Lemma split_path_file comps c : Forall good_name comps -> good_name c -> split_path (dirstr comps ++ c) = comps ++ [c].
Proof. intros H Hc. unfold split_path. rewrite (split_dirstr c comps H), (split_name c Hc). reflexivity. Qed.

Lemma split_path_dir comps : Forall good_name comps -> split_path (dirstr comps) = comps.
Proof.
  intros H. unfold split_path. rewrite <- (app_nil_r (dirstr comps)), (split_dirstr [] comps H). cbn [split_path_aux].
  apply app_nil_r.
Qed.

Lemma good_head c : good_name c -> exists b r, c = b :: r /\ b <> 47.
Proof.
  intros (Hne & Hsf & _). destruct c as [|b r]; [contradiction Hne; reflexivity|].
  inversion Hsf; subst. eauto.
Qed.

Lemma path_head comps c : Forall good_name comps -> good_name c -> exists b r, dirstr comps ++ c = b :: r /\ b <> 47.
Proof.
  intros H Hc. destruct comps as [|d ds].
  - destruct (good_head c Hc) as (b & r & E & Hb). exists b, r. split; [exact E|exact Hb].
  - inversion H as [|d0 ds0 Hd Hds]; subst. destruct (good_head d Hd) as (b & r & E & Hb).
    exists b. rewrite dirstr_cons, E. cbn [app]. eexists. split; [reflexivity|exact Hb].
Qed.

Lemma good_last c : good_name c -> exists b r, rev c = b :: r /\ b <> 47.
Proof.
  intros (Hne & Hsf & _). destruct (rev_nonnil c Hne) as (x & r & E). exists x, r. split; [exact E|].
  assert (Hin : In x (rev c)) by (rewrite E; left; reflexivity).
  apply in_rev in Hin. unfold slashfree in Hsf. rewrite Forall_forall in Hsf. apply Hsf. exact Hin.
Qed.

Lemma trailing_slash_file X c : good_name c -> trailing_slash (X ++ c) = false.
Proof.
  intros Hc. unfold trailing_slash. rewrite rev_app_distr. destruct (good_last c Hc) as (b & r & E & Hb). rewrite E.
  cbn [app]. destruct b as [|pb]; [reflexivity|].
  destruct (N.eq_dec (N.pos pb) 47) as [E47|N47]; [contradiction|].
  destruct pb as [[[[[[q|q|]|[q|q|]|]|[q|q|]|]|[q|q|]|]|[q|q|]|]|[[[[[q|q|]|[q|q|]|]|[q|q|]|]|[q|q|]|]|[q|q|]|]|]; try reflexivity.
  contradiction N47. reflexivity.
Qed.

Lemma skip_slashes_id p b r : p = b :: r -> b <> 47 -> skip_slashes p = p.
Proof. intros -> H. cbn [skip_slashes]. destruct (b =? 47) eqn:E; [apply N.eqb_eq in E; contradiction|reflexivity]. Qed.

Lemma skip_slashes_name c : good_name c -> skip_slashes c = c.
Proof. intros H. destruct (good_head c H) as (b & r & E & Hb). eapply skip_slashes_id; eauto. Qed.

Lemma skip_slashes_dirstr comps : Forall good_name comps -> skip_slashes (dirstr comps) = dirstr comps.
Proof.
  intros H. destruct comps as [|d ds]; [reflexivity|].
  inversion H as [|d0 ds0 Hd Hds]; subst. destruct (good_head d Hd) as (b & r & E & Hb).
  rewrite dirstr_cons, E. cbn [app]. eapply skip_slashes_id; eauto.
Qed.

Lemma is_absolute_head p b r : p = b :: r -> b <> 47 -> is_absolute p = false.
Proof.
  intros -> H. unfold is_absolute. destruct b as [|pb]; [reflexivity|].
  destruct pb as [[[[[[q|q|]|[q|q|]|]|[q|q|]|]|[q|q|]|]|[q|q|]|]|[[[[[q|q|]|[q|q|]|]|[q|q|]|]|[q|q|]|]|[q|q|]|]|]; try reflexivity.
  contradiction H. reflexivity.
Qed.

(* the relative path  d1/.../dk/c  *)
Lemma rel_path_file comps c : Forall good_name comps -> good_name c -> nlen (dirstr comps ++ c) <= 4095 ->
  rel_path (dirstr comps ++ c) comps c.
Proof.
  intros H Hc Hlen. destruct (path_head comps c H Hc) as (b & r & E & Hb).
  split; [rewrite E; discriminate|]. split; [eapply is_absolute_head; eauto|].
  split; [unfold path_max; apply N.ltb_ge; exact Hlen|]. apply split_path_file; assumption.
Qed.

(* the same with a trailing slash (a directory entry) *)
Lemma rel_path_dir comps c : Forall good_name comps -> good_name c -> nlen (dirstr (comps ++ [c])) <= 4095 ->
  rel_path (dirstr (comps ++ [c])) comps c.
Proof.
  intros H Hc Hlen. rewrite dirstr_snoc in *. destruct (path_head comps c H Hc) as (b & r & E & Hb).
  split; [rewrite app_assoc, E; discriminate|]. split; [rewrite app_assoc, E; eapply is_absolute_head; [reflexivity|exact Hb]|].
  split; [unfold path_max; apply N.ltb_ge; exact Hlen|].
  rewrite <- dirstr_snoc. apply split_path_dir. apply Forall_app. split; [exact H|constructor; [exact Hc|constructor]].
Qed.

Lemma good_names_plain comps : Forall good_name comps -> Forall plain comps.
Proof. intros H. eapply Forall_impl; [|exact H]. intros c (_ & _ & Hp). exact Hp. Qed.

(* ------------------------------------------------------------------ *)
(* make_parent_directories when every parent exists *)

Lemma mpd_name : forall c pre rest st, slashfree c -> mpd_loop pre (c ++ rest) st = mpd_loop (rev c ++ pre) rest st.
Proof.
  induction c as [|b c IH]; intros pre rest st H; [reflexivity|].
  inversion H as [|b0 c0 Hb Hc]; subst. cbn [app mpd_loop rev].
  destruct (b =? 47) eqn:E; [apply N.eqb_eq in E; contradiction|].
  rewrite (IH (b :: pre) rest st Hc), <- app_assoc. reflexivity.
Qed.

Lemma mpd_tail c pre st : slashfree c -> mpd_loop pre c st = (true, st).
Proof. intros H. rewrite <- (app_nil_r c), (mpd_name c pre [] st H). reflexivity. Qed.

Lemma mpd_dirs tail : forall comps S st, Forall good_name comps -> slashfree tail ->
  (forall a d b, comps = a ++ d :: b -> arch_exists (cs_fs st) (S ++ dirstr a ++ d) = FT_DIRECTORY) ->
  mpd_loop (rev S) (dirstr comps ++ tail) st = (true, st).
Proof.
  induction comps as [|d ds IH]; intros S st H Ht Hex.
  - cbn [dirstr map concat app]. apply mpd_tail. exact Ht.
  - inversion H as [|d0 ds0 (Hne & Hsf & Hpl) Hds]; subst.
    rewrite dirstr_cons, <- app_assoc, (mpd_name d _ _ st Hsf). cbn [app mpd_loop]. rewrite N.eqb_refl.
    unfold check_parent_directory. rewrite rev_app_distr, !rev_involutive.
    pose proof (Hex [] d ds eq_refl) as E0. cbn [dirstr map concat app] in E0. rewrite E0. cbn [negb].
    replace (47 :: rev d ++ rev S) with (rev (S ++ d ++ [47])).
    2:{ rewrite !rev_app_distr. reflexivity. }
    apply IH; [exact Hds|exact Ht|].
    intros a d' b E. specialize (Hex (d :: a) d' b). rewrite dirstr_cons in Hex.
    rewrite <- !app_assoc. cbn [app]. rewrite <- !app_assoc in Hex. cbn [app] in Hex. apply Hex. rewrite E. reflexivity.
Qed.

Lemma leading_slashes_none p b r : p = b :: r -> b <> 47 -> leading_slashes p = ([], p).
Proof. intros -> H. cbn [leading_slashes]. destruct (b =? 47) eqn:E; [apply N.eqb_eq in E; contradiction|reflexivity]. Qed.

Lemma mpd_file comps c st : Forall good_name comps -> good_name c ->
  (forall a d b, comps = a ++ d :: b -> arch_exists (cs_fs st) (dirstr a ++ d) = FT_DIRECTORY) ->
  make_parent_directories (dirstr comps ++ c) st = (true, st).
Proof.
  intros H Hc Hex. unfold make_parent_directories, strip_trailing_slashes.
  rewrite rev_app_distr. destruct (good_last c Hc) as (b & r & E & Hb).
  rewrite (skip_slashes_id (rev c ++ rev (dirstr comps)) b (r ++ rev (dirstr comps))) by (try rewrite E; auto).
  rewrite <- rev_app_distr, rev_involutive.
  destruct (path_head comps c H Hc) as (b' & r' & E' & Hb'). rewrite (leading_slashes_none _ b' r' E' Hb').
  change (rev []) with (@rev N []). apply (mpd_dirs c comps [] st H); [apply Hc|exact Hex].
Qed.

Lemma mpd_dir comps c st : Forall good_name comps -> good_name c ->
  (forall a d b, comps = a ++ d :: b -> arch_exists (cs_fs st) (dirstr a ++ d) = FT_DIRECTORY) ->
  make_parent_directories (dirstr (comps ++ [c])) st = (true, st).
Proof.
  intros H Hc Hex. unfold make_parent_directories, strip_trailing_slashes.
  rewrite dirstr_snoc, app_assoc, rev_app_distr. cbn [rev app skip_slashes]. rewrite N.eqb_refl.
  rewrite rev_app_distr. destruct (good_last c Hc) as (b & r & E & Hb).
  rewrite (skip_slashes_id (rev c ++ rev (dirstr comps)) b (r ++ rev (dirstr comps))) by (try rewrite E; auto).
  rewrite <- rev_app_distr, rev_involutive.
  destruct (path_head comps c H Hc) as (b' & r' & E' & Hb'). rewrite (leading_slashes_none _ b' r' E' Hb').
  change (rev []) with (@rev N []). apply (mpd_dirs c comps [] st H); [apply Hc|exact Hex].
Qed.

(* ------------------------------------------------------------------ *)
(* the directory that is being filled *)

Definition dir_ready (s : fs) (dl : list name) (o : bool) (pm t : N) (ents : list (name * node)) : Prop :=
  Forall good_name dl /\ chain (fs_root s) (fs_uid0 s) (fs_cwd s) dl /\
  node_at (fs_root s) (fs_cwd s ++ dl) = Some (Dir o pm t ents) /\
  can_write_dir (fs_uid0 s) (Dir o pm t ents) = true.

Lemma nlen_dirstr_split a d b : nlen (dirstr a ++ d) <= nlen (dirstr (a ++ d :: b)).
Proof. rewrite dirstr_app, dirstr_cons. rewrite !nlen_app. apply N.add_le_mono_l. apply N.le_add_r. Qed.

Lemma parents_exist s dl o pm t ents : dir_ready s dl o pm t ents -> nlen (dirstr dl) <= 4095 ->
  forall a d b, dl = a ++ d :: b -> arch_exists s (dirstr a ++ d) = FT_DIRECTORY.
Proof.
  intros (Hg & Hch & Hn & Hw) Hlen a d b E. subst dl.
  apply Forall_app in Hg. destruct Hg as [Ha Hdb]. inversion Hdb as [|d0 b0 Hd Hb]; subst.
  pose proof (nlen_dirstr_split a d b) as Hl.
  assert (Hat : at_path s (dirstr a ++ d) a d).
  { split; [apply rel_path_file; [exact Ha|exact Hd|exact (N.le_trans _ _ _ Hl Hlen)]|]. split; [apply good_names_plain; exact Ha|]. split; [apply Hd|].
    eapply chain_prefix. exact Hch. }
  destruct (Hch (S (length a))) as (o1 & p1 & t1 & e1 & Hn1 & _).
  { rewrite app_length. cbn [length]. lia. }
  replace (firstn (S (length a)) (a ++ d :: b)) with (a ++ [d]) in Hn1.
  2:{ rewrite firstn_app. rewrite firstn_all2 by lia. replace (S (length a) - length a)%nat with 1%nat by lia. reflexivity. }
  rewrite app_assoc in Hn1. eapply exists_dir; eauto.
Qed.

Lemma at_path_in_dir s dl o pm t ents c : dir_ready s dl o pm t ents -> good_name c ->
  nlen (dirstr dl ++ c) <= 4095 -> at_path s (dirstr dl ++ c) dl c.
Proof.
  intros (Hg & Hch & Hn & Hw) Hc Hlen.
  split; [apply rel_path_file; auto|]. split; [apply good_names_plain; exact Hg|]. split; [apply Hc|exact Hch].
Qed.

Lemma at_path_dir_in_dir s dl o pm t ents c : dir_ready s dl o pm t ents -> good_name c ->
  nlen (dirstr (dl ++ [c])) <= 4095 -> at_path s (dirstr (dl ++ [c])) dl c.
Proof.
  intros (Hg & Hch & Hn & Hw) Hc Hlen.
  split; [apply rel_path_dir; auto|]. split; [apply good_names_plain; exact Hg|]. split; [apply Hc|exact Hch].
Qed.

(* ------------------------------------------------------------------ *)
(* headers of a well-formed archive *)

(* a regular member c of the directory dl *)
Definition file_hdr (dl : list name) (c : name) (h : header) : Prop :=
  opt_str (h_path h) = dirstr dl /\ h_filename h = Some c /\ is_dir_method h = false /\
  h_symlink_target h = None /\ (h_os_type h =? OS_TYPE_MACOS) = false.
(* the entry of the directory c of dl *)
Definition dir_hdr (dl : list name) (c : name) (h : header) : Prop :=
  h_path h = Some (dirstr (dl ++ [c])) /\ h_filename h = None /\ is_dir_method h = true /\
  h_symlink_target h = None.
(* a symbolic link c in dl whose target is relative and free of ".." *)
Definition link_hdr (dl : list name) (c : name) (h : header) (tgt : list N) : Prop :=
  opt_str (h_path h) = dirstr dl /\ h_filename h = Some c /\ is_dir_method h = true /\
  h_symlink_target h = Some tgt /\ is_dangerous_symlink h = false /\ tgt <> [] /\ nlen tgt <= 4095.

(* the options of a plain "lha x": paths used, no w=, not a dry run *)
Definition plain_opts (o : lha_options) : Prop :=
  o_use_path o = true /\ o_extract_path o = None /\ o_dry_run o = false.

Lemma full_path_eq h o dl : plain_opts o -> Forall good_name dl -> opt_str (h_path h) = dirstr dl ->
  file_full_path h o = dirstr dl ++ match h_filename h with Some f => skip_slashes f | None => [] end.
Proof.
  intros (Hu & He & _) Hg Hp. unfold file_full_path. rewrite He, Hu. cbn [app]. f_equal.
  destruct (h_path h) as [pp|]; cbn [opt_str] in Hp.
  - rewrite Hp. apply skip_slashes_dirstr. exact Hg.
  - exact Hp.
Qed.

(* the mode a new file gets *)
Definition file_mode (s : fs) (h : header) : N :=
  match ex_perms h with Some x => N.land x 4095 | None => apply_umask s 384 end.

Section CliFile.
  Variable junk : N.

  Lemma file_exists_none fn st : arch_exists (cs_fs st) fn = FT_NONE -> file_exists fn st = Ok (RVal false, st).
  Proof. intros H. unfold file_exists. rewrite H. reflexivity. Qed.

  (* B. one regular member, nothing at its place yet *)
  Theorem cli_extract_file h st dl c o pm t ents bs r2 :
    let s := cs_fs st in
    plain_opts (cs_opts st) -> dir_ready s dl o pm t ents -> good_name c -> nlen (dirstr dl ++ c) <= 4095 ->
    lookup ents c = None -> file_hdr dl c h ->
    rd_type (cs_reader st) = CT_NORMAL -> rd_curr (cs_reader st) = Some h ->
    member_ok junk (cs_reader st) h bs r2 ->
    (fs_uid0 s = true \/ drop_setid (file_mode s h) = file_mode s h) ->
    exists st', extract_archived_file junk h st = Ok (RVal true, st') /\
      cs_reader st' = r2 /\ cs_opts st' = cs_opts st /\ same_env s (cs_fs st') /\
      fs_root (cs_fs st') = update_at (fs_root s) (fs_cwd s ++ dl)
        (const_some (Dir o pm now (ents ++ [(c, File true (file_mode s h) (h_timestamp h) bs)]))).
  Proof.
    intros s Hopts Hready Hc Hlen Hfresh (Hp & Hf & Hdm & Hsl & Hos) Hty Hcur Hmem Hmode.
    pose proof Hready as (Hg & Hch & Hn & Hw).
    assert (Hfn : file_full_path h (cs_opts st) = dirstr dl ++ c).
    { rewrite (full_path_eq h _ dl Hopts Hg Hp), Hf, (skip_slashes_name c Hc). reflexivity. }
    assert (Hat : at_path s (dirstr dl ++ c) dl c) by (eapply at_path_in_dir; eauto).
    assert (Hnone : node_at (fs_root s) ((fs_cwd s ++ dl) ++ [c]) = None).
    { rewrite (child_lookup _ _ _ _ _ _ c Hn). exact Hfresh. }
    assert (Hts : trailing_slash (dirstr dl ++ c) = false) by (apply trailing_slash_file; exact Hc).
    destruct (fs_file_extracted s (dirstr dl ++ c) dl c (ex_perms h)) with (ts := h_timestamp h) (chunks := @nil (list N))
      (po := o) (pp := pm) (pt := t) (pe := ents) as (s1 & _ & Hop & _); auto.
    destruct (extract_file_total junk (cs_reader st) s (dirstr dl ++ c) h bs r2 _ s1 Hcur Hos Hmem Hop)
      as (ev & chunks & Hbs & Hex).
    destruct (fs_file_extracted s (dirstr dl ++ c) dl c (ex_perms h) chunks (h_timestamp h) o pm t ents
                Hat Hts Hnone Hn Hw Hmode) as (s1' & s3 & Hop' & Hut & Henv & Hroot & Henv2 & Hroot2).
    rewrite Hop in Hop'. inversion Hop'; subst s1'. clear Hop'.
    unfold extract_archived_file. rewrite Hfn, Hsl.
    change (is_dir_type h) with (is_dir_method h). rewrite Hdm. cbn [andb negb].
    rewrite (file_exists_none _ st (exists_none s _ dl c Hat Hnone)). cbn [cbind].
    destruct Hopts as (Hu & He & Hd). rewrite Hu. cbn [negb andb].
    rewrite (mpd_file dl c st Hg Hc).
    2:{ eapply parents_exist; [exact Hready|]. rewrite nlen_app in Hlen. lia. }
    cbn [negb].
    fold s. rewrite (reader_extract_regular junk (cs_reader st) s (Some (dirstr dl ++ c)) true h Hty Hcur Hdm).
    rewrite Hex. cbn [bind].
    assert (Hfinal : exists s4, snd (set_timestamps_from_header (write_chunks ((fs_cwd s ++ dl) ++ [c]) chunks s1) (dirstr dl ++ c) h) = s4 /\
                     same_env s s4 /\
                     fs_root s4 = update_at (fs_root s) (fs_cwd s ++ dl)
                       (const_some (Dir o pm now (ents ++ [(c, File true (file_mode s h) (h_timestamp h) bs)])))).
    { unfold set_timestamps_from_header. destruct (h_timestamp h =? 0) eqn:Et; cbn [negb].
      - apply N.eqb_eq in Et. eexists. split; [reflexivity|]. split; [exact Henv2|]. cbn [snd]. rewrite Hroot2, Et, Hbs. reflexivity.
      - rewrite Hut. eexists. split; [reflexivity|]. split; [exact Henv|]. cbn [snd]. rewrite Hroot, Hbs. reflexivity. }
    destruct Hfinal as (s4 & Hs4 & Henv4 & Hroot4). rewrite Hs4.
    destruct (negb (lha_reader_current_is_fake r2) && (o_quiet (cs_opts st) <? 2)); [destruct (invoked ev)|];
      (eexists; split; [reflexivity|]; cbn [cs_reader cs_opts cs_fs put_out set_fs set_reader]; auto).
  Qed.
End CliFile.

(* ------------------------------------------------------------------ *)
(* directory entries *)

Lemma dir_ready_update s s' dl o pm t e t' e' :
  dir_ready s dl o pm t e -> same_env s s' ->
  fs_root s' = update_at (fs_root s) (fs_cwd s ++ dl) (const_some (Dir o pm t' e')) ->
  dir_ready s' dl o pm t' e'.
Proof.
  intros (Hg & Hch & Hn & Hw) (E1 & E2 & E3) Hr. split; [exact Hg|]. rewrite Hr, E1, E2.
  split; [eapply chain_update; eauto|]. split; [eapply node_at_update_const_same; exact Hn|exact Hw].
Qed.

(* the mode a new directory gets first, and the one it ends with *)
Definition dir_req (h : header) : N := if have_extra h FILE_UNIX_PERMS then 448 else 511.
Definition dir_first_mode (u : N) (h : header) : N := mkdir_mode u (dir_req h).
Definition dir_final_mode (u : N) (h : header) : N :=
  if have_extra h FILE_UNIX_PERMS then N.land (h_unix_perms h) 4095 else dir_first_mode u h.

Lemma dir_req_bits h : N.testbit (dir_req h) 6 = true /\ N.testbit (dir_req h) 7 = true.
Proof. unfold dir_req. destruct (have_extra h FILE_UNIX_PERMS); split; reflexivity. Qed.

(* entering the new directory *)
Lemma dir_ready_enter s' dl o pm t ents c m :
  dir_ready s' dl o pm t (ents ++ [(c, Dir true m now [])]) -> good_name c -> lookup ents c = None ->
  can_search (fs_uid0 s') (Dir true m now []) = true -> can_write_dir (fs_uid0 s') (Dir true m now []) = true ->
  dir_ready s' (dl ++ [c]) true m now [].
Proof.
  intros (Hg & Hch & Hn & Hw) Hc Hl Hs Hwr.
  assert (Hn' : node_at (fs_root s') (fs_cwd s' ++ dl ++ [c]) = Some (Dir true m now [])).
  { rewrite app_assoc, (child_lookup _ _ _ _ _ _ c Hn). apply lookup_last. exact Hl. }
  split; [apply Forall_app; split; [exact Hg|constructor; [exact Hc|constructor]]|].
  split; [apply chain_snoc; [exact Hch|]; exists true, m, now, []; split; [exact Hn'|exact Hs]|].
  split; [exact Hn'|exact Hwr].
Qed.

Section CliDir.
  Variable junk : N.

  (* a directory entry: created with the owner's bits only, pushed on the stack *)
  Theorem cli_extract_dir h st dl c o pm t ents :
    let s := cs_fs st in
    let r := cs_reader st in
    plain_opts (cs_opts st) -> dir_ready s dl o pm t ents -> good_name c -> nlen (dirstr (dl ++ [c])) <= 4095 ->
    lookup ents c = None -> dir_hdr dl c h -> N.land pm 1024 = 0 ->
    rd_type r = CT_NORMAL -> rd_curr r = Some h -> rd_policy r = DIR_END_OF_DIR -> rd_linked r = false ->
    exists st', extract_archived_file junk h st = Ok (RVal true, st') /\
      cs_opts st' = cs_opts st /\ same_env s (cs_fs st') /\
      cs_reader st' = {| rd_br := rd_br r; rd_curr := rd_curr r; rd_type := rd_type r; rd_decoder := rd_decoder r;
                         rd_inner := rd_inner r; rd_policy := rd_policy r; rd_dir_stack := h :: rd_dir_stack r;
                         rd_deferred := rd_deferred r; rd_linked := true |} /\
      fs_root (cs_fs st') = update_at (fs_root s) (fs_cwd s ++ dl)
        (const_some (Dir o pm now (ents ++ [(c, Dir true (dir_first_mode (fs_umask s) h) now [])]))).
  Proof.
    intros s r Hopts Hready Hc Hlen Hfresh (Hp & Hf & Hdm & Hsl) Hsg Hty Hcur Hpol Hlk.
    pose proof Hready as (Hg & Hch & Hn & Hw).
    assert (Hps : opt_str (h_path h) = dirstr (dl ++ [c])) by (rewrite Hp; reflexivity).
    assert (Hg' : Forall good_name (dl ++ [c])) by (apply Forall_app; split; [exact Hg|constructor; [exact Hc|constructor]]).
    assert (Hfn : file_full_path h (cs_opts st) = dirstr (dl ++ [c])).
    { rewrite (full_path_eq h _ (dl ++ [c]) Hopts Hg' Hps), Hf. apply app_nil_r. }
    assert (Hat : at_path s (dirstr (dl ++ [c])) dl c) by (eapply at_path_dir_in_dir; eauto).
    assert (Hnone : node_at (fs_root s) ((fs_cwd s ++ dl) ++ [c]) = None).
    { rewrite (child_lookup _ _ _ _ _ _ c Hn). exact Hfresh. }
    destruct (mkdir_fresh s _ dl c Hat (dir_req h) o pm t ents Hnone Hn Hw) as (s1 & Hmk & Henv & Hroot).
    rewrite (mkdir_mode_eq s _ pm Hsg), (set_ent_fresh _ _ _ Hfresh) in Hroot.
    unfold extract_archived_file. rewrite Hfn, Hsl.
    change (is_dir_type h) with (is_dir_method h). rewrite Hdm. cbn [andb negb cbind].
    destruct Hopts as (Hu & He & Hd). rewrite Hu. cbn [negb andb].
    rewrite (mpd_dir dl c st Hg Hc).
    2:{ eapply parents_exist; [exact Hready|]. rewrite dirstr_snoc, nlen_app in Hlen.
        eapply N.le_trans; [apply N.le_add_r|exact Hlen]. }
    cbn [negb]. fold s r. unfold lha_reader_extract. rewrite Hty, Hcur, Hdm, Hsl. cbn [negb].
    unfold extract_directory. rewrite Hcur. fold (dir_req h). rewrite Hmk. cbn [negb]. rewrite Hpol.
    unfold link_curr. rewrite Hlk. cbn [bind].
    rewrite Hty. cbn [lha_reader_current_is_fake rd_type negb andb invoked].
    assert (E : forall (b : bool) (x : cli_state), (if b then x else x) = x) by (intros [|] x; reflexivity).
    rewrite E.
    eexists. split; [reflexivity|]. cbn [cs_reader cs_opts cs_fs put_out set_fs set_reader].
    split; [reflexivity|]. split; [exact Henv|]. split; [rewrite Hcur, Hpol; reflexivity|exact Hroot].
  Qed.
End CliDir.

(* ------------------------------------------------------------------ *)
(* set_directory_metadata on the child c of the directory being filled *)
Section Metadata.
  Variables (s : fs) (p : list N) (dl : list name) (c : name) (o : bool) (pm t : N) (ents0 : list (name * node)).
  Let P := fs_cwd s ++ dl.

  (* after some of the three calls: the child is D, everything else as in s *)
  Definition meta_state (s' : fs) (D : node) : Prop :=
    same_env s s' /\ at_path s' p dl c /\
    exists ents', node_at (fs_root s') P = Some (Dir o pm t ents') /\ lookup ents' c = Some D /\
      ((fs_root s' = fs_root s /\ ents' = ents0) \/
       (fs_root s' = update_at (fs_root s) P (const_some (Dir o pm t (set_ent ents0 c D))) /\ ents' = set_ent ents0 c D)).

  Hypothesis Hn0 : node_at (fs_root s) P = Some (Dir o pm t ents0).

  Lemma meta_step s1 D s2 D' : meta_state s1 D -> same_env s1 s2 ->
    fs_root s2 = update_at (fs_root s1) (P ++ [c]) (const_some D') -> meta_state s2 D'.
  Proof.
    intros (Henv & Hat & ents' & Hn & Hl & Hcase) Henv2 Hr.
    assert (Hcwd : fs_cwd s1 = fs_cwd s) by apply Henv.
    rewrite (update_loc_to_parent _ P o pm t ents' c D' Hn) in Hr.
    split; [exact (same_env_trans _ _ _ Henv Henv2)|].
    split. { eapply at_path_update; [exact Hat|exact Henv2|rewrite Hcwd; exact Hn|rewrite Hcwd; exact Hr]. }
    exists (set_ent ents' c D'). split; [rewrite Hr; eapply node_at_update_const_same; exact Hn|].
    split; [apply lookup_set_ent_same|]. right.
    destruct Hcase as [[Hroot ->]|[Hroot ->]].
    - split; [rewrite Hr, Hroot; reflexivity|reflexivity].
    - rewrite set_ent_set_ent. split; [|reflexivity]. rewrite Hr, Hroot, set_ent_set_ent. apply update_const_twice.
  Qed.

  Lemma meta_loc s1 D : meta_state s1 D -> fs_cwd s1 = fs_cwd s /\ node_at (fs_root s1) ((fs_cwd s1 ++ dl) ++ [c]) = Some D.
  Proof.
    intros (Henv & Hat & ents' & Hn & Hl & _). assert (Hcwd : fs_cwd s1 = fs_cwd s) by apply Henv.
    split; [exact Hcwd|]. rewrite Hcwd. fold P. rewrite (child_lookup _ _ _ _ _ _ c Hn). exact Hl.
  Qed.

  Theorem set_directory_metadata_at h m e :
    at_path s p dl c -> lookup ents0 c = Some (Dir true m now e) ->
    let fm := if have_extra h FILE_UNIX_PERMS then N.land (h_unix_perms h) 4095 else m in
    meta_state (snd (set_directory_metadata s h p)) (Dir true fm (h_timestamp h) e).
  Proof.
    intros Hat Hl fm.
    assert (H0 : meta_state s (Dir true m now e)).
    { split; [apply same_env_refl|]. split; [exact Hat|]. exists ents0. split; [exact Hn0|]. split; [exact Hl|]. left. auto. }
    unfold set_directory_metadata, set_timestamps_from_header.
    (* utime *)
    assert (H1 : exists s1, snd (if negb (h_timestamp h =? 0) then fs_utime s p (h_timestamp h) else (true, s)) = s1 /\
                 meta_state s1 (Dir true m (h_timestamp h) e)).
    { destruct (h_timestamp h =? 0) eqn:Et; cbn [negb].
      - apply N.eqb_eq in Et. rewrite Et. exists s. split; [reflexivity|exact H0].
      - destruct (meta_loc _ _ H0) as [_ Hloc].
        destruct (utime_dir s p dl c Hat (h_timestamp h) true m now e Hloc (orb_true_r _)) as (s1 & Hu & Henv1 & Hr1).
        rewrite Hu. exists s1. split; [reflexivity|]. eapply meta_step; eauto. }
    destruct H1 as (s1 & E1 & H1).
    destruct (if negb (h_timestamp h =? 0) then fs_utime s p (h_timestamp h) else (true, s)) as [b1 s1'].
    cbn [snd] in E1. subst s1'.
    (* chown *)
    assert (H2 : exists s2, (if have_extra h FILE_UNIX_UID_GID then snd (fs_chown s1 p) else s1) = s2 /\
                 meta_state s2 (Dir true m (h_timestamp h) e)).
    { destruct (have_extra h FILE_UNIX_UID_GID); [|exists s1; split; [reflexivity|exact H1]].
      destruct (meta_loc _ _ H1) as [_ Hloc]. destruct H1 as (Henv1 & Hat1 & Hrest).
      destruct (chown_dir s1 p dl c Hat1 true m (h_timestamp h) e Hloc) as (s2 & Hc & Henv2 & [Hr2|Hr2]).
      - exists s2. split; [exact Hc|]. split; [exact (same_env_trans _ _ _ Henv1 Henv2)|].
        destruct Henv2 as (C1 & C2 & C3). destruct Hat1 as (A & B & C & D).
        split. { split; [exact A|]. split; [exact B|]. split; [exact C|]. rewrite Hr2, C1, C2. exact D. }
        rewrite Hr2. exact Hrest.
      - exists s2. split; [exact Hc|]. eapply (meta_step s1 _ s2); [split; [exact Henv1|split; [exact Hat1|exact Hrest]]|exact Henv2|].
        rewrite Hr2. unfold P. rewrite (proj1 Henv1). reflexivity. }
    destruct H2 as (s2 & E2 & H2). rewrite E2.
    (* chmod *)
    unfold fm. destruct (have_extra h FILE_UNIX_PERMS); [|exact H2].
    destruct (meta_loc _ _ H2) as [_ Hloc]. pose proof H2 as (Henv2 & Hat2 & _).
    destruct (chmod_dir s2 p dl c Hat2 (h_unix_perms h) true m (h_timestamp h) e Hloc (orb_true_r _)) as (s3 & Hc & Henv3 & Hr3).
    rewrite Hc. cbn [snd]. eapply meta_step; [exact H2|exact Henv3|].
    rewrite Hr3. unfold P. rewrite (proj1 Henv2). reflexivity.
  Qed.
End Metadata.

Section CliFakeLink.
  Variable junk : N.

  (* the fake entry that closes the directory c of dl: time, owner, mode *)
  Theorem cli_extract_fake h st dl c o pm t ents m e :
    let s := cs_fs st in
    let r := cs_reader st in
    plain_opts (cs_opts st) -> dir_ready s dl o pm t ents -> good_name c -> nlen (dirstr (dl ++ [c])) <= 4095 ->
    lookup ents c = Some (Dir true m now e) -> dir_hdr dl c h ->
    rd_type r = CT_FAKE_DIR -> rd_curr r = Some h ->
    let fm := if have_extra h FILE_UNIX_PERMS then N.land (h_unix_perms h) 4095 else m in
    exists st', extract_archived_file junk h st = Ok (RVal true, st') /\
      cs_opts st' = cs_opts st /\ cs_reader st' = r /\
      meta_state s (dirstr (dl ++ [c])) dl c o pm t ents (cs_fs st') (Dir true fm (h_timestamp h) e).
  Proof.
    intros s r Hopts Hready Hc Hlen Hl (Hp & Hf & Hdm & Hsl) Hty Hcur fm.
    pose proof Hready as (Hg & Hch & Hn & Hw).
    assert (Hps : opt_str (h_path h) = dirstr (dl ++ [c])) by (rewrite Hp; reflexivity).
    assert (Hg' : Forall good_name (dl ++ [c])) by (apply Forall_app; split; [exact Hg|constructor; [exact Hc|constructor]]).
    assert (Hfn : file_full_path h (cs_opts st) = dirstr (dl ++ [c])).
    { rewrite (full_path_eq h _ (dl ++ [c]) Hopts Hg' Hps), Hf. apply app_nil_r. }
    assert (Hat : at_path s (dirstr (dl ++ [c])) dl c) by (eapply at_path_dir_in_dir; eauto).
    pose proof (set_directory_metadata_at s (dirstr (dl ++ [c])) dl c o pm t ents Hn h m e Hat Hl) as Hmeta.
    unfold extract_archived_file. rewrite Hfn, Hsl.
    change (is_dir_type h) with (is_dir_method h). rewrite Hdm. cbn [andb negb cbind].
    destruct Hopts as (Hu & He & Hd). rewrite Hu. cbn [negb andb].
    rewrite (mpd_dir dl c st Hg Hc).
    2:{ eapply parents_exist; [exact Hready|]. rewrite dirstr_snoc, nlen_app in Hlen.
        eapply N.le_trans; [apply N.le_add_r|exact Hlen]. }
    cbn [negb]. fold s r. unfold lha_reader_extract. rewrite Hty, Hcur.
    destruct (set_directory_metadata s h (dirstr (dl ++ [c]))) as [b f1]. cbn [snd] in Hmeta. cbn [bind].
    unfold lha_reader_current_is_fake. rewrite Hty. cbn [negb andb].
    eexists. split; [reflexivity|]. cbn [cs_reader cs_opts cs_fs put_out set_fs set_reader].
    split; [reflexivity|]. split; [reflexivity|exact Hmeta].
  Qed.

  (* a symbolic link with a relative target free of ".." *)
  Theorem cli_extract_link h st dl c o pm t ents tgt :
    let s := cs_fs st in
    let r := cs_reader st in
    plain_opts (cs_opts st) -> dir_ready s dl o pm t ents -> good_name c -> nlen (dirstr dl ++ c) <= 4095 ->
    lookup ents c = None -> link_hdr dl c h tgt ->
    rd_type r = CT_NORMAL -> rd_curr r = Some h ->
    exists st', extract_archived_file junk h st = Ok (RVal true, st') /\
      cs_opts st' = cs_opts st /\ cs_reader st' = r /\ same_env s (cs_fs st') /\
      fs_root (cs_fs st') = update_at (fs_root s) (fs_cwd s ++ dl) (const_some (Dir o pm now (ents ++ [(c, Link tgt)]))).
  Proof.
    intros s r Hopts Hready Hc Hlen Hfresh (Hp & Hf & Hdm & Hsl & Hsafe & Htne & Htlen) Hty Hcur.
    pose proof Hready as (Hg & Hch & Hn & Hw).
    assert (Hfn : file_full_path h (cs_opts st) = dirstr dl ++ c).
    { rewrite (full_path_eq h _ dl Hopts Hg Hp), Hf, (skip_slashes_name c Hc). reflexivity. }
    assert (Hat : at_path s (dirstr dl ++ c) dl c) by (eapply at_path_in_dir; eauto).
    assert (Hnone : node_at (fs_root s) ((fs_cwd s ++ dl) ++ [c]) = None).
    { rewrite (child_lookup _ _ _ _ _ _ c Hn). exact Hfresh. }
    assert (Hts : trailing_slash (dirstr dl ++ c) = false) by (apply trailing_slash_file; exact Hc).
    destruct (symlink_fresh s _ dl c Hat tgt o pm t ents Hts Htne) as (s1 & Hsy & Henv & Hroot); auto.
    { unfold path_max. apply N.ltb_ge. exact Htlen. }
    rewrite (set_ent_fresh _ _ _ Hfresh) in Hroot.
    unfold extract_archived_file. rewrite Hfn, Hsl.
    change (is_dir_type h) with (is_dir_method h). rewrite Hdm. cbn [andb negb cbind].
    destruct Hopts as (Hu & He & Hd). rewrite Hu. cbn [negb andb].
    rewrite (mpd_file dl c st Hg Hc).
    2:{ eapply parents_exist; [exact Hready|]. rewrite nlen_app in Hlen. eapply N.le_trans; [apply N.le_add_r|exact Hlen]. }
    cbn [negb]. fold s r. unfold lha_reader_extract. rewrite Hty, Hcur, Hdm, Hsl. cbn [negb].
    unfold extract_symlink. rewrite Hcur, Hty, Hsafe, Hsl. cbn [andb]. rewrite Hsy. cbn [bind].
    unfold lha_reader_current_is_fake. rewrite Hty. cbn [negb andb invoked].
    destruct (o_quiet (cs_opts st) <? 2); (eexists; split; [reflexivity|]);
      cbn [cs_reader cs_opts cs_fs put_out set_fs set_reader]; auto.
  Qed.
End CliFakeLink.

Print Assumptions cli_extract_file.
Print Assumptions cli_extract_dir.
Print Assumptions cli_extract_fake.
Print Assumptions cli_extract_link.

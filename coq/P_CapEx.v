(* P_CapEx.v -- non-vacuity of the end-to-end theorem (Properties_E2E.v).

   1. The description of Properties_C06.extraction_instance (d/ 0555, d/a.txt
      "hello world\n" 0644, the link d/l -> a.txt) is well formed, and archive_of of it
      is byte for byte the archive of that instance (built there by the independent
      Python builder).
   2. A description with a nested read-only directory, two files and a link whose
      target crosses a directory: the hypotheses hold, the theorem applies, and the
      tree it promises is the tree obtained by running cli_run (vm_compute). *)
From Lhasa Require Import Base ListN Generated Crc16 InputStream Header S_Header BasicReader Fs FsRun Reader
  P_ReaderCheck P_ReaderExtract Glob ListOut CliFilter CliExtract CliMain P_FsExtract P_CliExtract P_CliTree
  S_Capstone P_CapHeader P_CapItems P_CapMember P_CapReader P_Capstone P_CapCli Properties_E2E Properties_C06.
From Coq Require Import ZifyBool ZifyN ZifyNat.
Local Open Scope N_scope.

Ltac name_ok_tac :=
  split; [split; [discriminate|split; [repeat constructor; discriminate|repeat split; vm_compute; reflexivity]]
         |repeat constructor; unfold name_byte; lia].

Ltac bytes_tac := repeat constructor; unfold tgt_byte; lia.

(* ---- 1 ---- *)
Definition n_d : name := [100].
Definition n_a : name := [97; 46; 116; 120; 116].
Definition n_l : name := [108].
Definition hello : list N := [104; 101; 108; 108; 111; 32; 119; 111; 114; 108; 100; 10].

Definition ex1 : list desc :=
  [DDir n_d 365 1262304000 [DFile n_a 420 1000000000 hello; DLink n_l 31622400 n_a]].

Example ex1_bytes : archive_of ex1 = Properties_C06.ex_archive.
Proof. vm_compute. reflexivity. Qed.

Example ex1_wf : wf_descs false ex1.
Proof.
  split; [|repeat constructor; intros []].
  constructor; [|constructor]. cbn [wf_desc].
  split; [name_ok_tac|]. split; [vm_compute; discriminate|]. split; [lia|]. split; [lia|].
  split; [repeat constructor; cbn; intuition discriminate|].
  split.
  - split; [name_ok_tac|]. split; [vm_compute; discriminate|]. split; [lia|]. split; [lia|].
    split; [vm_compute; reflexivity|]. split; [repeat constructor; lia|]. right. vm_compute. reflexivity.
  - split; [|exact I]. split; [name_ok_tac|]. split; [vm_compute; discriminate|]. split; [lia|].
    split; [discriminate|]. split; [vm_compute; discriminate|]. split; [bytes_tac|vm_compute; reflexivity].
Qed.

(* ---- 2 ---- *)
Definition n_ro : name := [114; 111].                                  (* ro *)
Definition n_b : name := [98; 46; 98; 105; 110].                       (* b.bin *)
Definition n_top : name := [82; 69; 65; 68; 77; 69].                   (* README *)
Definition t_ro_b : list N := [114; 111; 47; 98; 46; 98; 105; 110].    (* ro/b.bin *)
Definition bin : list N := [0; 1; 2; 253; 254; 255].

Definition ex2 : list desc :=
  [DDir n_d 493 1262304000
     [DFile n_a 420 1000000000 hello;
      DDir n_ro 365 1100000000 [DFile n_b 256 1200000001 bin];          (* ro 0555, b.bin 0400 *)
      DLink n_l 31622400 t_ro_b];                                        (* d/l -> ro/b.bin *)
   DFile n_top 384 999999999 []].                                        (* an empty file, 0600 *)

Example ex2_wf : wf_descs false ex2.
Proof.
  split; [|repeat constructor; cbn; intuition discriminate].
  constructor; [|constructor; [|constructor]].
  - cbn [wf_desc].
    split; [name_ok_tac|]. split; [vm_compute; discriminate|]. split; [lia|]. split; [lia|].
    split; [repeat constructor; cbn; intuition discriminate|].
    split; [|split; [|split; [|exact I]]].
    + split; [name_ok_tac|]. split; [vm_compute; discriminate|]. split; [lia|]. split; [lia|].
      split; [vm_compute; reflexivity|]. split; [repeat constructor; lia|]. right. vm_compute. reflexivity.
    + split; [name_ok_tac|]. split; [vm_compute; discriminate|]. split; [lia|]. split; [lia|].
      split; [repeat constructor; intros []|]. split; [|exact I].
      split; [name_ok_tac|]. split; [vm_compute; discriminate|]. split; [lia|]. split; [lia|].
      split; [vm_compute; reflexivity|]. split; [repeat constructor; lia|]. right. vm_compute. reflexivity.
    + split; [name_ok_tac|]. split; [vm_compute; discriminate|]. split; [lia|].
      split; [discriminate|]. split; [vm_compute; discriminate|]. split; [bytes_tac|vm_compute; reflexivity].
  - cbn [wf_desc]. split; [name_ok_tac|]. split; [vm_compute; discriminate|]. split; [lia|]. split; [lia|].
    split; [vm_compute; reflexivity|]. split; [constructor|]. right. vm_compute. reflexivity.
Qed.

(* what the theorem promises for ex2 *)
Example ex2_tree :
  trees_of ex2 =
  [(n_d, Dir true 493 1262304000
           [(n_a, File true 420 1000000000 hello);
            (n_ro, Dir true 365 1100000000 [(n_b, File true 256 1200000001 bin)]);
            (n_l, Link t_ro_b)]);
   (n_top, File true 384 999999999 [])].
Proof. reflexivity. Qed.

Definition ex2_run : outcome cli_result :=
  cli_run mktime_utc gmtime_utc (fun _ => []) false 1300000000 1200000000 argv_x (archive_of ex2) [] [].

(* the theorem applies ... *)
Example ex2_theorem :
  exists r, ex2_run = Ok r /\ cr_exit r = 0 /\
    Fs.node_at (fs_root (cr_fs r)) [bytes_root] = Some (Dir true 493 0 (trees_of ex2)) /\
    Fs.node_at (fs_root (cr_fs r)) [bytes_root; n_d; n_ro; n_b] = Some (File true 256 1200000001 bin) /\
    Fs.node_at (fs_root (cr_fs r)) [bytes_root; n_d; n_l] = Some (Link t_ro_b).
Proof.
  destruct (e2e_cli_run_found mktime_utc gmtime_utc (fun _ => []) false 1300000000 1200000000 ex2 ex2_wf)
    as (r & Hr & He & Hn & Hfind); [vm_compute; reflexivity|].
  exists r. split; [exact Hr|]. split; [exact He|]. split; [exact Hn|].
  split; [exact (Hfind [n_d; n_ro; n_b] (DFile n_b 256 1200000001 bin) eq_refl)|exact (Hfind [n_d; n_l] (DLink n_l 31622400 t_ro_b) eq_refl)].
Qed.

(* ... and running the model on the bytes gives that very tree *)
Example ex2_computed :
  match ex2_run with
  | Ok r => cr_exit r = 0 /\ Fs.node_at (fs_root (cr_fs r)) [bytes_root] = Some (Dir true 493 0 (trees_of ex2))
  | _ => False
  end.
Proof. vm_compute. split; reflexivity. Qed.

(* ---- 3. why the serialisation is what it is, and what the covered descriptions exclude ----
   (a) "name|target" entirely in the file-name header does not survive when the target
       contains '/': the parser replaces '/' by '_' there (S_Header.norm_ext, type 1).
       archive_of therefore cuts "dir/name|target" after its LAST '/', as LHa for UNIX does. *)
Definition w_a_fields : fields := mk_fields lhd 0 0 31622400 (n_l ++ 124 :: t_ro_b) (dirstr [n_d]) LINK_MODE.
Example w_a : wf_fields w_a_fields = true /\
  option_map h_symlink_target (normalise mktime_utc w_a_fields) = Some (Some [114; 111; 95; 98; 46; 98; 105; 110]).   (* ro_b.bin *)
Proof. split; vm_compute; reflexivity. Qed.

(* (b) a '|' in the name of a directory that holds a link: the parser cuts at the FIRST '|'
       of "path/name|target" (S_Header.norm_kind), so the entry comes back as the link
       "a" -> "b/l|x" instead of "a|b/l" -> "x"; hence name_byte excludes '|'. *)
Definition n_ab : name := [97; 124; 98].
Example w_b : wf_fields (link_fields [n_ab] n_l 1 [120]) = true /\
  option_map (fun h => (h_path h, h_filename h, h_symlink_target h)) (normalise mktime_utc (link_fields [n_ab] n_l 1 [120])) =
  Some (None, Some [97], Some [98; 47; 108; 124; 120]).
Proof. split; vm_compute; reflexivity. Qed.

(* (c) 0xFF in a directory name is the path header's separator: "x\255y/" comes back as "x/y/" *)
Definition n_xy : name := [120; 255; 121].
Example w_c : wf_fields (dir_fields [] n_xy 493 1) = true /\
  option_map h_path (normalise mktime_utc (dir_fields [] n_xy 493 1)) = Some (Some [120; 47; 121; 47]).
Proof. split; vm_compute; reflexivity. Qed.

Print Assumptions ex1_bytes.
Print Assumptions ex2_theorem.
Print Assumptions ex2_computed.

(* Properties_E2E.v -- END TO END: from archive bytes to the extracted tree.

   The per-layer theorems are composed by the kernel:
     C05  header round trip (S_Header.encode_header / normalise, P_Header)
     C15/C12/C16  the basic reader over any kind of stream (P_StreamEquiv, P_KindIndep,
          P_Sfx for the first read through the self-extractor scan)
     C03  stored members come out unchanged (re-proved for the reader's own
          callback with existence of the run: P_CapMember.stored_member_ok)
     C17  the CRC the header carries is CRC-16/ARC (P_Crc16.crc16_is_arc_proof)
     C07  the verdict on length and CRC is "good" (member_ok)
     C06  extraction reproduces the tree (P_CliTree.extract_archive_reproduces_tree)
   and the wrapper main/do_command (CliMain).

   desc        the description of a tree: DFile name mode time bytes | DLink name time
               target | DDir name mode time entries
   archive_of  its serialisation into archive BYTES (S_Capstone.v)
   wf_descs    the descriptions covered (S_Capstone.wf_desc): names non-empty, at most 255
               bytes, not "." / "..", bytes in 1..254 other than '/' and '|', distinct
               within a directory; paths at most 4095 bytes; modes below 010000, without
               set-id bits on files unless the tool runs as root; times and file lengths
               below 2^32; file bytes are bytes; link targets non-empty, at most 4095
               bytes in 1..254, relative and without a ".." component
   trees_of    the nodes described: File own mode time bytes / Link target /
               Dir own mode time entries
   Statements only; proofs in P_CapHeader, P_CapItems, P_CapMember, P_CapReader,
   P_Capstone, P_CapCli. *)
From Lhasa Require Import Base ListN Generated Crc16 InputStream Header S_Header BasicReader Fs FsRun Reader
  P_ReaderCheck P_ReaderExtract Glob ListOut CliFilter CliExtract CliMain P_FsExtract P_CliExtract P_CliTree
  S_Capstone P_CapHeader P_CapItems P_CapMember P_CapReader P_Capstone P_CapCli.
From Lhasa Require S_CapAny P_CapAnyRun P_FsConfine P_CapConfine.
Import S_CapAny.
From Coq Require Import ZifyBool ZifyN ZifyNat.
Local Open Scope N_scope.

(* ---- 1. the headers survive: every field record of the serialisation is well formed
   and is parsed back to exactly the header the description stands for ---- *)
Theorem e2e_headers : forall mktime uid0 d dl, Forall name_ok dl -> wf_desc uid0 dl d ->
  Forall (fun s => wf_fields (sg_f s) = true /\ normalise mktime (sg_f s) = Some (sg_h s)) (segs_of dl d).
Proof.
  intros mktime uid0 d dl Hdl H. pose proof (segs_ok mktime uid0 d dl Hdl H) as Hok.
  eapply Forall_impl; [|exact Hok]. intros s (H1 & H2 & _). split; assumption.
Qed.

(* ---- 2. the reader (over any kind of source) delivers exactly the described headers in
   order, and every file decodes to its bytes with matching length and CRC ---- *)
Theorem e2e_upcoming : forall mktime junk k uid0 ds, Forall (wf_desc uid0 []) ds ->
  upcoming mktime junk (lha_reader_new (lha_input_stream_new (mk_source k (archive_of ds))))
           (flat_map ser (items_of ds)).
Proof. exact upcoming_archive_of. Qed.

(* ---- 3. extract_archive ---- *)
Theorem e2e_extract_archive : forall mktime junk (f : lha_filter) k u uid0 ds st o pm t ents,
  let s := cs_fs st in
  f_filters f = [] -> umask_ok u -> wf_descs uid0 ds ->
  cs_reader st = lha_reader_new (lha_input_stream_new (mk_source k (archive_of ds))) ->
  (forall c, In c (map dname ds) -> lookup ents c = None) ->
  plain_opts (cs_opts st) -> fs_umask s = u -> fs_uid0 s = uid0 ->
  dir_ready s [] o pm t ents -> N.land pm 1024 = 0 ->
  N.of_nat (dsizes ds) < 2 ^ 40 ->
  exists st', extract_archive mktime junk f st = Ok (RVal true, st') /\
    same_env s (cs_fs st') /\
    match ds with
    | [] => cs_fs st' = s
    | _ => fs_root (cs_fs st') = update_at (fs_root s) (fs_cwd s) (const_some (Dir o pm Fs.now (ents ++ trees_of ds)))
    end.
Proof. exact extract_archive_of. Qed.

(* ---- 4. the tool: lha x /arc/a.lzh ---- *)
Theorem e2e_cli_run : forall mktime localtime strerror uid0 tnow mt ds,
  wf_descs uid0 ds -> N.of_nat (dsizes ds) < 2 ^ 40 ->
  exists r, cli_run mktime localtime strerror uid0 tnow mt argv_x (archive_of ds) [] [] = Ok r /\
    cr_exit r = 0 /\
    fs_root (cr_fs r) =
      update_at (fs_root (cli_fs_init uid0 (archive_of ds) mt [])) [bytes_root]
                (const_some (Dir true 493 0 (trees_of ds))).
Proof. exact cli_run_archive_of. Qed.

(* the same with the archive on standard input (a pipe): lha x - *)
Theorem e2e_cli_run_stdin : forall mktime localtime strerror uid0 tnow mt A ds,
  wf_descs uid0 ds -> N.of_nat (dsizes ds) < 2 ^ 40 ->
  exists r, cli_run mktime localtime strerror uid0 tnow mt argv_x_stdin A (archive_of ds) [] = Ok r /\
    cr_exit r = 0 /\
    fs_root (cr_fs r) =
      update_at (fs_root (cli_fs_init uid0 A mt [])) [bytes_root] (const_some (Dir true 493 0 (trees_of ds))).
Proof. exact cli_run_archive_of_stdin. Qed.

(* reading the result: whatever the description has at a path is in the working
   directory /root at that path: files with contents, mode and time, links with their
   target, directories with mode, time and entries *)
Fixpoint dlookup (ds : list desc) (c : name) : option desc :=
  match ds with
  | [] => None
  | d :: r => if name_eqb (dname d) c then Some d else dlookup r c
  end.

Fixpoint dfind (ds : list desc) (path : list name) : option desc :=
  match path with
  | [] => None
  | c :: rest =>
    match dlookup ds c with
    | None => None
    | Some d =>
      match rest with
      | [] => Some d
      | _ => match d with DDir _ _ _ sub => dfind sub rest | _ => None end
      end
    end
  end.

Lemma lookup_trees ds c : lookup (trees_of ds) c = option_map tree_of (dlookup ds c).
Proof.
  induction ds as [|d ds IH]; [reflexivity|]. cbn [trees_of map lookup dlookup]. fold (trees_of ds).
  destruct (name_eqb (dname d) c); [reflexivity|exact IH].
Qed.

Lemma found_in_tree : forall path ds d o p t, dfind ds path = Some d ->
  Fs.node_at (Dir o p t (trees_of ds)) path = Some (tree_of d).
Proof.
  induction path as [|c rest IH]; intros ds d o p t H; [discriminate|].
  cbn [dfind] in H. rewrite node_at_cons, lookup_trees.
  destruct (dlookup ds c) as [d1|]; [|discriminate]. cbn [option_map].
  destruct rest as [|c2 rest'].
  - injection H as <-. reflexivity.
  - destruct d1 as [? ? ? ?|? ? ?|c1 m1 t1 sub]; try discriminate.
    cbn [tree_of]. fold (trees_of sub). apply IH. exact H.
Qed.

Theorem e2e_cli_run_found : forall mktime localtime strerror uid0 tnow mt ds,
  wf_descs uid0 ds -> N.of_nat (dsizes ds) < 2 ^ 40 ->
  exists r, cli_run mktime localtime strerror uid0 tnow mt argv_x (archive_of ds) [] [] = Ok r /\
    cr_exit r = 0 /\
    Fs.node_at (fs_root (cr_fs r)) [bytes_root] = Some (Dir true 493 0 (trees_of ds)) /\
    forall path d, dfind ds path = Some d ->
      Fs.node_at (fs_root (cr_fs r)) (bytes_root :: path) = Some (tree_of d).
Proof.
  intros mktime localtime strerror uid0 tnow mt ds Hwf Hsz.
  destruct (cli_run_archive_of_tree mktime localtime strerror uid0 tnow mt ds Hwf Hsz) as (r & Hr & He & Hn).
  exists r. split; [exact Hr|]. split; [exact He|]. split; [exact Hn|].
  intros path d Hf. change (bytes_root :: path) with ([bytes_root] ++ path).
  rewrite P_FsExtract.node_at_app, Hn. apply found_in_tree. exact Hf.
Qed.

(* the bound on the number of entries (the fuel of the model's extraction loop) follows
   from the size of the archive: every entry has a header *)
Theorem e2e_entries_bound : forall ds, N.of_nat (dsizes ds) <= nlen (archive_of ds).
Proof. exact dsizes_le_archive. Qed.

Corollary e2e_cli_run_by_size : forall mktime localtime strerror uid0 tnow mt ds,
  wf_descs uid0 ds -> nlen (archive_of ds) < 2 ^ 40 ->
  exists r, cli_run mktime localtime strerror uid0 tnow mt argv_x (archive_of ds) [] [] = Ok r /\
    cr_exit r = 0 /\
    Fs.node_at (fs_root (cr_fs r)) [bytes_root] = Some (Dir true 493 0 (trees_of ds)) /\
    forall path d, dfind ds path = Some d ->
      Fs.node_at (fs_root (cr_fs r)) (bytes_root :: path) = Some (tree_of d).
Proof.
  intros mktime localtime strerror uid0 tnow mt ds Hwf Hsz. apply e2e_cli_run_found; [exact Hwf|].
  pose proof (dsizes_le_archive ds). lia.
Qed.

(* ---- 5. confinement (C10) from the bytes, link targets ARBITRARY ----
   wf_descs_any (S_CapAny.v): wf_descs without "link targets are relative and free of '..'".
   The tool returns; every operation of the run, the final phase that creates the dangerous links
   included, resolved below the working directory /root; every symbolic link below it at the end is
   a described link at its own path with its own target.  (With dangerous links the tree is not
   promised: their directories' time stamps are lost, and a link whose directory was closed
   read-only is not made -- P_CapConfineEx.exit_status_not_zero.) *)
Theorem e2e_confined : forall mktime localtime strerror uid0 tnow mt ds,
  wf_descs_any uid0 ds -> N.of_nat (2 * dsizes ds) < 2 ^ 40 ->
  exists r, cli_run mktime localtime strerror uid0 tnow mt argv_x (archive_of ds) [] [] = Ok r /\
    (cr_exit r = 0 \/ cr_exit r = 1) /\
    (forall op, In op (fs_trace (cr_fs r)) -> P_FsConfine.below_op [bytes_root] op) /\
    (forall suf t, Fs.node_at (fs_root (cr_fs r)) (bytes_root :: suf) = Some (Link t) -> In (suf, t) (links_of_descs ds)).
Proof. exact P_CapConfine.e2e_confined. Qed.

(* the descriptions of e2e_cli_run are among them *)
Theorem e2e_wf_descs_is_any : forall uid0 ds, wf_descs uid0 ds -> wf_descs_any uid0 ds.
Proof. exact P_CapAnyRun.wf_descs_is_any. Qed.

(* the headers survive, whatever the targets *)
Theorem e2e_headers_any : forall mktime uid0 d dl, Forall name_ok dl -> wf_desc_any uid0 dl d ->
  Forall (fun s => wf_fields (sg_f s) = true /\ normalise mktime (sg_f s) = Some (sg_h s)) (segs_of dl d).
Proof. exact P_CapAnyRun.headers_any. Qed.

Print Assumptions e2e_headers.
Print Assumptions e2e_upcoming.
Print Assumptions e2e_extract_archive.
Print Assumptions e2e_cli_run.
Print Assumptions e2e_cli_run_stdin.
Print Assumptions e2e_cli_run_found.
Print Assumptions e2e_cli_run_by_size.
Print Assumptions e2e_confined.
Print Assumptions e2e_wf_descs_is_any.
Print Assumptions e2e_headers_any.
(* ---- 6. the member list of the bytes (P_MembersAll.v): plain iteration over archive_of ds
   (any kind of source) yields exactly the described headers, in order ---- *)
From Lhasa Require P_MembersAll.
Theorem e2e_stream_headers : ltac:(let t := type of P_MembersAll.stream_headers_of_archive_of in exact t).
Proof. exact P_MembersAll.stream_headers_of_archive_of. Qed.
Theorem e2e_stream_headers_any : ltac:(let t := type of P_MembersAll.stream_headers_of_archive_any in exact t).
Proof. exact P_MembersAll.stream_headers_of_archive_any. Qed.
Theorem e2e_upcoming_stream_headers : ltac:(let t := type of P_MembersAll.upcoming_stream_headers in exact t).
Proof. exact P_MembersAll.upcoming_stream_headers. Qed.
Print Assumptions e2e_stream_headers.
Print Assumptions e2e_stream_headers_any.
Print Assumptions e2e_upcoming_stream_headers.

(* P_Pm2Rt.v -- partial round trip for -pm2- (C04): literal-only streams with a
   single table segment (fewer than 1024 bytes of output).

   pm2_literals_roundtrip_gen : for ANY code table ct whose header the decoder
       reads into a tree that decodes ct's codes (premise code_tree_ok ct),
       the decoder started on pm2_serialise d ++ tail yields the bytes one chunk
       per byte; through the public read API it returns exactly the bytes.
   code_tree_ok_single        : the premise holds for the single-code tables
       (CTSingle n): no bits per code symbol, every byte coded as its
       move-to-front position inside class n - 1.
   pm2_roundtrip_partial      : the two combined (no premise left).

   What the history list contributes is Stage 1 (P_PmaCommon): the byte found
   at the coded position is the byte the specification coded
   (find_mtf_index), and the list after the output is the specification's
   move-to-front list (update_history_list_mtf). *)
From Lhasa Require Import Base ListN DecBase BitReader Loop Sweep Tree PmaCommon Generated Pm2
  S_Larc S_Pm Decoder P_Decoder P_DecoderInv P_BitReader P_Tree P_PmaCommon P_Pm2.
From Coq Require Import ZifyBool ZifyN ZifyNat.
Local Open Scope N_scope.

(* ------------------------------------------------------------------ *)
(* A. pm_pack packs what the bit reader unpacks                        *)

Lemma val_single b : val [b] = N.b2n b.
Proof. rewrite val_cons, val_nil. change (nlen (@nil bool)) with 0. rewrite N.pow_0_r. lia. Qed.

Lemma bits_of_snoc k cur b : cur < 2 ^ N.of_nat k ->
  bits_of (S k) (2 * cur + N.b2n b) = bits_of k cur ++ [b].
Proof.
  intros H.
  assert (E : val (bits_of k cur ++ [b]) = 2 * cur + N.b2n b).
  { rewrite val_app, val_single, val_bits_of_small by exact H.
    change (nlen [b]) with 1. rewrite N.pow_1_r. lia. }
  rewrite <- E. apply bits_of_val_n. rewrite app_length, length_bits_of. cbn [length]. lia.
Qed.

Lemma nlen_repeat {A} (x : A) m : nlen (repeat x m) = N.of_nat m.
Proof. unfold nlen. rewrite repeat_length. reflexivity. Qed.

Lemma bits_of_pad k m cur : cur < 2 ^ N.of_nat k ->
  bits_of (k + m) (cur * 2 ^ N.of_nat m) = bits_of k cur ++ repeat false m.
Proof.
  intros H.
  assert (E : val (bits_of k cur ++ repeat false m) = cur * 2 ^ N.of_nat m).
  { rewrite val_app, val_repeat_false, val_bits_of_small by exact H. rewrite nlen_repeat. lia. }
  rewrite <- E. apply bits_of_val_n. rewrite app_length, length_bits_of, repeat_length. reflexivity.
Qed.

Lemma pack_bits_nil cur k acc :
  pack_bits [] cur k acc = rev_append (if k =? 0 then acc else (cur * 2 ^ (8 - k)) :: acc) [].
Proof. reflexivity. Qed.

Lemma pack_bits_cons b r cur k acc :
  pack_bits (b :: r) cur k acc =
  if k =? 7 then pack_bits r 0 0 ((2 * cur + N.b2n b) :: acc)
  else pack_bits r (2 * cur + N.b2n b) (k + 1) acc.
Proof. destruct b; reflexivity. Qed.

Lemma pack_bits_spec l : forall cur k acc, k < 8 -> cur < 2 ^ k ->
  exists X pad, pack_bits l cur k acc = rev acc ++ X /\ (pad < 8)%nat /\
    bytes_bits X = bits_of (N.to_nat k) cur ++ l ++ repeat false pad /\
    Forall (fun b => b < 256) X.
Proof.
  induction l as [|b r IH]; intros cur k acc Hk Hc.
  - rewrite pack_bits_nil, rev_append_rev, app_nil_r.
    destruct (N.eqb_spec k 0) as [->|Hk0].
    + exists [], 0%nat. rewrite app_nil_r. split; [reflexivity|]. split; [lia|]. split; [reflexivity|constructor].
    + exists [cur * 2 ^ (8 - k)], (N.to_nat (8 - k)). cbn [rev]. split; [reflexivity|]. split; [lia|].
      split.
      * rewrite bytes_bits_cons, bytes_bits_nil, app_nil_r. cbn [app].
        replace 8%nat with (N.to_nat k + N.to_nat (8 - k))%nat by lia.
        pose proof (bits_of_pad (N.to_nat k) (N.to_nat (8 - k)) cur) as X. rewrite !N2Nat.id in X.
        apply X. exact Hc.
      * constructor; [|constructor].
        assert (E : 2 ^ 8 = 2 ^ k * 2 ^ (8 - k)) by (rewrite <- N.pow_add_r; f_equal; lia).
        change (2 ^ 8) with 256 in E. pose proof (pow2_pos (8 - k)). nia.
  - rewrite pack_bits_cons. set (cur' := 2 * cur + N.b2n b).
    assert (Hc' : cur' < 2 ^ (k + 1)).
    { rewrite pow2_succ. unfold cur'. destruct b; cbn [N.b2n]; lia. }
    destruct (N.eqb_spec k 7) as [->|Hk7].
    + destruct (IH 0 0 (cur' :: acc)) as (X & pad & E & Hp & Hb & Hf); [lia|cbn; lia|].
      exists (cur' :: X), pad. rewrite E. cbn [rev]. rewrite <- app_assoc. split; [reflexivity|].
      split; [exact Hp|]. split.
      * rewrite bytes_bits_cons, Hb. change (bits_of (N.to_nat 0) 0) with (@nil bool). cbn [app].
        change (N.to_nat 7) with 7%nat. unfold cur'. rewrite (bits_of_snoc 7) by exact Hc.
        rewrite <- app_assoc. reflexivity.
      * constructor; [|exact Hf]. change (2 ^ (7 + 1)) with 256 in Hc'. exact Hc'.
    + destruct (IH cur' (k + 1) acc) as (X & pad & E & Hp & Hb & Hf); [lia|exact Hc'|].
      exists X, pad. split; [exact E|]. split; [exact Hp|]. split; [|exact Hf].
      rewrite Hb. replace (N.to_nat (k + 1)) with (S (N.to_nat k)) by lia.
      unfold cur'. rewrite bits_of_snoc by (rewrite N2Nat.id; exact Hc).
      rewrite <- app_assoc. reflexivity.
Qed.

Theorem pending_pm_pack l tail : Forall (fun b => b < 256) tail ->
  exists k, (k < 8)%nat /\
    src_ok {| src_data := pm_pack l ++ tail; src_chunks := [] |} /\
    pending bsr_init {| src_data := pm_pack l ++ tail; src_chunks := [] |} =
    l ++ repeat false k ++ bytes_bits tail.
Proof.
  intros Ht. unfold pm_pack.
  destruct (pack_bits_spec l 0 0 []) as (X & pad & E & Hp & Hb & Hf); [lia|cbn; lia|].
  rewrite E. cbn [rev app]. exists pad. split; [exact Hp|]. split.
  - split; [reflexivity|]. cbn [src_data]. apply Forall_app. split; assumption.
  - rewrite (pending_holds _ _ [] holds_init). cbn [src_data app].
    rewrite bytes_bits_app, Hb. change (bits_of (N.to_nat 0) 0) with (@nil bool). cbn [app].
    rewrite <- app_assoc. reflexivity.
Qed.

(* ------------------------------------------------------------------ *)
(* B. The serialisation of a single-segment literal stream             *)

Fixpoint lit_bits (ct : option codetab) (ot : list N) (st : pst) (bs : list N) : list bool :=
  match bs with
  | [] => []
  | b :: r => obits (pm2_cmd_code ct ot (ps_mtf st) (PByte b)) ++ lit_bits ct ot (pst_out st b) r
  end.

Lemma pm2_cmds_bits_lits ct ot : forall bs st acc,
  snd (pm2_cmds_bits ct ot st (map PByte bs) acc) = rev (lit_bits ct ot st bs) ++ acc.
Proof.
  induction bs as [|b r IH]; intros st acc; [reflexivity|].
  cbn [map pm2_cmds_bits lit_bits]. rewrite IH. rewrite rev_append_rev, rev_app_distr, <- app_assoc.
  reflexivity.
Qed.

Definition lit_stream (f : bool) (ct : codetab) (off : option (list N)) (bs : list N) : pm2_stream :=
  {| p2_first := f;
     p2_segs := [{| sg_code := Some ct; sg_off := off; sg_cmds := map PByte bs |}] |}.

Definition off_hdr (off : option (list N)) : list bool :=
  match off with Some ol => off_bits ol | None => [] end.
Definition off_tab (off : option (list N)) : list N :=
  match off with Some l => l | None => [] end.

Lemma pm2_bits_lit_stream f ct off bs :
  pm2_bits (lit_stream f ct off bs) =
  f :: ct_bits ct ++ off_hdr off ++ lit_bits (Some ct) (off_tab off) pst0 bs.
Proof.
  unfold pm2_bits, lit_stream. cbn [p2_segs p2_first pm2_segs_bits].
  set (sg := {| sg_code := Some ct; sg_off := off; sg_cmds := map PByte bs |}).
  change (seg_ct None sg) with (Some ct). change (seg_ot [] sg) with (off_tab off).
  change (sg_cmds sg) with (map PByte bs).
  pose proof (pm2_cmds_bits_lits (Some ct) (off_tab off) bs pst0 (rev_append (pm2_hdr_bits 0 sg) [f])) as E.
  destruct (pm2_cmds_bits (Some ct) (off_tab off) pst0 (map PByte bs) (rev_append (pm2_hdr_bits 0 sg) [f]))
    as [st' acc']. cbn [snd] in E. rewrite E.
  rewrite !rev_append_rev, app_nil_r, !rev_app_distr, !rev_involutive. cbn [rev app].
  unfold pm2_hdr_bits, sg. cbn [sg_code sg_off]. change (3 <=? 0) with false. cbn [app].
  unfold off_hdr. rewrite <- app_assoc. reflexivity.
Qed.

(* well-formedness of the literals, one by one *)
Fixpoint lits_ok (ct : option codetab) (ot : list N) (st : pst) (bs : list N) : Prop :=
  match bs with
  | [] => True
  | b :: r => b < 256 /\ is_some (pm2_cmd_code ct ot (ps_mtf st) (PByte b)) = true /\
              lits_ok ct ot (pst_out st b) r
  end.

Lemma wf_pm2_cmds_lits k ct ot : forall bs st st',
  wf_pm2_cmds k ct ot true st (map PByte bs) = Some st' -> lits_ok ct ot st bs.
Proof.
  induction bs as [|b r IH]; intros st st' H; [exact I|].
  cbn [map wf_pm2_cmds] in H.
  destruct (wf_pm2_cmd ct ot st (PByte b)) eqn:Ew; [|discriminate].
  unfold wf_pm2_cmd in Ew. apply andb_true_iff in Ew. destruct Ew as [E1 E2].
  cbn [lits_ok]. split; [lia|]. split; [exact E2|].
  change (pst_cmd pm2_window st (PByte b)) with (pst_out st b) in H.
  destruct r as [|b2 r2]; [exact I|].
  cbn [map] in H. destruct (ps_pos (pst_out st b) <? pm2_seg_end k); [|discriminate].
  apply (IH _ _ H).
Qed.

Lemma wf_lit_stream f ct off bs : wf_pm2 (lit_stream f ct off bs) = true ->
  wf_codetab ct = true /\
  lits_ok (Some ct) (off_tab off) pst0 bs /\
  match off with
  | Some ol => ct_need_off ct = true /\ nlen ol = 5 /\ wf_offtab ol = true
  | None => ct_need_off ct = false
  end.
Proof.
  unfold wf_pm2, lit_stream. cbn [p2_segs wf_pm2_segs].
  set (sg := {| sg_code := Some ct; sg_off := off; sg_cmds := map PByte bs |}).
  change (seg_ct None sg) with (Some ct). change (seg_ot [] sg) with (off_tab off).
  change (sg_cmds sg) with (map PByte bs).
  intros H. apply andb_true_iff in H. destruct H as [Hh Hc].
  destruct (wf_pm2_cmds 0 (Some ct) (off_tab off) true pst0 (map PByte bs)) as [st'|] eqn:Ec; [|discriminate].
  apply wf_pm2_cmds_lits in Ec.
  unfold wf_pm2_hdr, sg in Hh. cbn [sg_code sg_off seg_ct is_some] in Hh.
  change (0 =? 0) with true in Hh. change (0 <? 4) with true in Hh. cbn [andb orb] in Hh.
  apply andb_true_iff in Hh. destruct Hh as [Hw Ho].
  split; [exact Hw|]. split; [exact Ec|].
  destruct off as [ol|].
  - rewrite andb_true_r in Ho. apply andb_true_iff in Ho. destruct Ho as [Ho Ho3].
    apply andb_true_iff in Ho. destruct Ho as [Ho1 Ho2].
    split; [exact Ho1|]. split; [|exact Ho3]. unfold pm2_noffs in Ho2.
    change (0 <? 3) with true in Ho2. cbv iota in Ho2. apply N.eqb_eq in Ho2. lia.
  - rewrite andb_true_r in Ho. apply negb_true_iff in Ho. exact Ho.
Qed.

(* ------------------------------------------------------------------ *)
(* C. What the decoder must make of a code table                       *)

(* the tree decodes the table's codes, over the list source *)
Definition tree_decodes (t : arr) (ct : codetab) : Prop :=
  forall sym code r (c : src) rest, ct_code ct sym = Some code -> bsr_wf r -> src_ok c ->
    pending r c = code ++ rest ->
    exists r' c', read_from_tree 128 src_cb t r c = Ok (Some sym, r', c') /\ bsr_wf r' /\ src_ok c' /\
                  pending r' c' = rest.

(* read_code_tree, run on the table's header bits, consumes exactly them,
   builds such a tree, sets need_offset_tree as the specification says and
   leaves the rest of the decoder alone *)
Definition code_tree_ok (ct : codetab) : Prop :=
  forall (s : pm2_state) (c : src) rest,
    bsr_wf (pm2_bsr s) -> src_ok c -> closed 128 (pm2_code_tree s) pm2_code_tree_extent ->
    pending (pm2_bsr s) c = ct_bits ct ++ rest ->
    exists b s' c', read_code_tree src_cb s c = Ok (b, s', c') /\
      bsr_wf (pm2_bsr s') /\ src_ok c' /\ pending (pm2_bsr s') c' = rest /\
      tree_decodes (pm2_code_tree s') ct /\
      pm2_need_offset_tree s' = ct_need_off ct /\
      pm2_ringbuf s' = pm2_ringbuf s /\ pm2_ringbuf_pos s' = pm2_ringbuf_pos s /\
      pm2_history_list s' = pm2_history_list s /\ pm2_offset_tree s' = pm2_offset_tree s.

Lemma loop_n_done {S R} (step : S -> outcome (S + R)) s x : step s = Ok (inr x) ->
  forall k, loop_n step k s = Ok (inr x).
Proof.
  intros H. induction k as [|k IH]; [exact H|]. cbn [loop_n]. rewrite IH. reflexivity.
Qed.

Lemma loop_done {S R} (step : S -> outcome (S + R)) s x k : step s = Ok (inr x) -> loop step k s = Ok x.
Proof. intros H. unfold loop. rewrite (loop_n_done step s x H). reflexivity. Qed.

Lemma single_leaf_sweep :
  sweep 5 (fun n => (n =? 0) ||
                    (is_leaf 128 (N.lor (elem 128 (u8 (n + 255))) 128) &&
                     (N.land (N.lor (elem 128 (u8 (n + 255))) 128) 127 =? n - 1))) 0 = true.
Proof. vm_compute. reflexivity. Qed.

Lemma nbits_eq w v : nbits w v = bits_of (N.to_nat w) v.
Proof. reflexivity. Qed.

Theorem code_tree_ok_single n : 1 <= n -> n <= 31 -> code_tree_ok (CTSingle n).
Proof.
  intros Hn1 Hn2 s c rest Hr Hc Hcl Hp.
  cbn [ct_bits] in Hp. rewrite <- !app_assoc in Hp. rewrite !nbits_eq in Hp.
  change (N.to_nat 5) with 5%nat in Hp. change (N.to_nat 3) with 3%nat in Hp.
  unfold read_code_tree.
  destruct (read_bits_src_prefix (pm2_bsr s) c 5 n (bits_of 3 0 ++ rest) Hr Hc) as (r1 & c1 & E1 & W1 & S1 & P1);
    [cbn; lia|change (2 ^ N.of_nat 5) with 32; lia|exact Hp|].
  change (N.of_nat 5) with 5 in E1. rewrite E1. cbn [bind]. cbv beta iota.
  destruct (read_bits_src_prefix r1 c1 3 0 rest W1 S1) as (r2 & c2 & E2 & W2 & S2 & P2);
    [cbn; lia|cbn; lia|exact P1|].
  change (N.of_nat 3) with 3 in E2. rewrite E2. cbn [bind]. cbv beta iota zeta.
  change (0 =? 0) with true. cbv iota.
  pose proof (closed_alen _ _ _ Hcl) as Hal. unfold pm2_code_tree_extent in Hal.
  unfold set_tree_single, pm2_TREE_NODE_LEAF.
  change (pm2_code_tree (pm2_set_need_offset_tree (pm2_set_bsr s r2)
            ((10 <=? n) && negb ((n =? 29) && true)))) with (pm2_code_tree s).
  rewrite wr_ok by lia. cbn [bind].
  eexists _, _, c2. split; [reflexivity|].
  cbn [pm2_set_code_tree pm2_set_need_offset_tree pm2_set_bsr pm2_bsr pm2_code_tree pm2_need_offset_tree
       pm2_ringbuf pm2_ringbuf_pos pm2_history_list pm2_offset_tree].
  split; [exact W2|]. split; [exact S2|]. split; [exact P2|].
  split.
  - intros sym code r0 c0 rest0 Hcode Hr0 Hc0 Hp0.
    cbn [ct_code] in Hcode.
    destruct ((1 <=? n) && (sym =? n - 1)) eqn:Ecs; [|discriminate]. injection Hcode as <-.
    apply andb_true_iff in Ecs. destruct Ecs as [_ Es]. apply N.eqb_eq in Es. subst sym.
    cbn [app] in Hp0.
    assert (Hn32 : n < 2 ^ N.of_nat 5) by (change (2 ^ N.of_nat 5) with 32; lia).
    pose proof (sweep_below 5 _ single_leaf_sweep n Hn32) as X. cbv beta in X.
    apply orb_true_iff in X. destruct X as [X|X]; [apply N.eqb_eq in X; lia|].
    apply andb_true_iff in X. destruct X as [X1 X2]. apply N.eqb_eq in X2.
    exists r0, c0. split; [|split; [exact Hr0|split; [exact Hc0|exact Hp0]]].
    unfold read_from_tree. rewrite rd_ok by (rewrite alen_aset; lia). cbn [bind].
    rewrite aget_aset_eq. apply loop_done. unfold tree_step. rewrite X1.
    change (128 - 1) with 127. rewrite X2. reflexivity.
  - split; [cbn [ct_need_off]; rewrite andb_true_r; reflexivity|].
    split; [reflexivity|]. split; [reflexivity|]. split; reflexivity.
Qed.

(* ------------------------------------------------------------------ *)
(* D. One literal                                                      *)

Lemma lit_code_inv ct ot mtf b : is_some (pm2_cmd_code (Some ct) ot mtf (PByte b)) = true ->
  exists p cls base w code, mtf_index mtf b = Some p /\ vl_find pm2_lit_tbl 0 p = Some (cls, base, w) /\
    ct_code ct cls = Some code /\
    obits (pm2_cmd_code (Some ct) ot mtf (PByte b)) = code ++ nbits w (p - base).
Proof.
  unfold pm2_cmd_code, pm2_plan.
  destruct (mtf_index mtf b) as [p|]; [|discriminate].
  destruct (vl_find pm2_lit_tbl 0 p) as [[[cls base] w]|] eqn:E2; [|discriminate].
  destruct (ct_code ct cls) as [code|] eqn:E3; [|discriminate].
  intros _. exists p, cls, base, w, code. split; [reflexivity|]. split; [exact E2|]. split; [exact E3|].
  cbn [obits]. rewrite app_nil_r. reflexivity.
Qed.

Definition lit_tbl_check (p : N) : bool :=
  match vl_find pm2_lit_tbl 0 p with
  | Some (cls, base, w) =>
    (cls <? 8) && (aget (vl_offset pm2_history_decode) cls =? base) &&
    (aget (vl_bits pm2_history_decode) cls =? w) && (base <=? p) && (p <? base + 2 ^ w) && (w <=? 6)
  | None => false
  end.

Lemma lit_tbl_sweep : sweep 8 lit_tbl_check 0 = true.
Proof. vm_compute. reflexivity. Qed.

Lemma lit_tbl_facts p cls base w : p < 256 -> vl_find pm2_lit_tbl 0 p = Some (cls, base, w) ->
  cls < 8 /\ aget (vl_offset pm2_history_decode) cls = base /\
  aget (vl_bits pm2_history_decode) cls = w /\ base <= p /\ p < base + 2 ^ w /\ w <= 6.
Proof.
  intros Hp E. pose proof (sweep_below 8 _ lit_tbl_sweep p Hp) as X. unfold lit_tbl_check in X.
  rewrite E in X.
  apply andb_true_iff in X. destruct X as [X X6].
  apply andb_true_iff in X. destruct X as [X X5].
  apply andb_true_iff in X. destruct X as [X X4].
  apply andb_true_iff in X. destruct X as [X X3].
  apply andb_true_iff in X. destruct X as [X1 X2].
  apply N.eqb_eq in X2. apply N.eqb_eq in X3. repeat split; try assumption; lia.
Qed.

Lemma history_decode_alen :
  alen (vl_bits pm2_history_decode) = 8 /\ alen (vl_offset pm2_history_decode) = 8.
Proof. split; vm_compute; reflexivity. Qed.

Lemma dvl_lit r (c : src) cls base w v rest : bsr_wf r -> src_ok c -> cls < 8 ->
  aget (vl_offset pm2_history_decode) cls = base -> aget (vl_bits pm2_history_decode) cls = w ->
  w <= 6 -> v < 2 ^ w -> pending r c = nbits w v ++ rest ->
  exists r' c', decode_variable_length src_cb pm2_history_decode r c cls = Ok (Some (base + v), r', c') /\
    bsr_wf r' /\ src_ok c' /\ pending r' c' = rest.
Proof.
  intros Hr Hc Hcls Eb Ew Hw Hv Hp. destruct history_decode_alen as [A1 A2].
  unfold decode_variable_length. rewrite rd_ok by lia. cbn [bind]. rewrite Ew.
  rewrite nbits_eq in Hp.
  destruct (read_bits_src_prefix r c (N.to_nat w) v rest Hr Hc) as (r' & c' & E & W & S & P);
    [lia|rewrite N2Nat.id; exact Hv|exact Hp|].
  rewrite N2Nat.id in E. rewrite E. cbn [bind]. cbv beta iota.
  rewrite rd_ok by lia. cbn [bind]. rewrite Eb.
  exists r', c'. split; [reflexivity|]. split; [exact W|]. split; [exact S|exact P].
Qed.

Definition pm2_read_body {cbs} (cb : callback cbs) (s1 : pm2_state) (c1 : cbs)
  : outcome (list N * pm2_state * cbs) :=
  '(code, r2, c2) <- read_from_tree pm2_TREE_NODE_LEAF cb (pm2_code_tree s1) (pm2_bsr s1) c1 ;;
  let s2 := pm2_set_bsr s1 r2 in
  match code with
  | None => Ok ([], s2, c2)
  | Some cv =>
    '(s3, c3, o) <- (if cv <? 8 then read_single_byte cb s2 c2 ob_empty cv
                     else copy_from_history cb s2 c2 ob_empty (cv - 8)) ;;
    Ok (ob_bytes o, s3, c3)
  end.

Lemma pm2_read_eq {cbs} (cb : callback cbs) s c :
  pm2_read cb s c =
  ('(s1, c1) <- (match pm2_tree_state s with
                 | PM2_REBUILD_UNBUILT =>
                   '(_, r, c') <- read_bit cb (pm2_bsr s) c ;;
                   rebuild_tree cb (pm2_set_bsr s r) c'
                 | _ => Ok (s, c)
                 end) ;;
   pm2_read_body cb s1 c1).
Proof. reflexivity. Qed.

(* decoder state while literals are being decoded; [left] bytes may still be
   output before the segment counter would reach 0 *)
Definition dec_ok (ct : codetab) (s : pm2_state) (c : src) (mtf : list N) (pend : list bool) (left : N)
  : Prop :=
  alen (pm2_ringbuf s) = pm2_ringbuf_extent /\ pm2_ringbuf_pos s < pm2_RING_BUFFER_SIZE /\
  bsr_wf (pm2_bsr s) /\ src_ok c /\ hl_wf (pm2_history_list s) /\
  hl_list (pm2_history_list s) = mtf /\ tree_decodes (pm2_code_tree s) ct /\
  pm2_tree_state s = PM2_REBUILD_BUILD1 /\ left < pm2_tree_rebuild_remaining s /\
  pending (pm2_bsr s) c = pend.

Lemma body_lit ct s c mtf b p cls base w code rest left :
  dec_ok ct s c mtf (code ++ nbits w (p - base) ++ rest) (left + 1) -> b < 256 ->
  mtf_index mtf b = Some p -> vl_find pm2_lit_tbl 0 p = Some (cls, base, w) ->
  ct_code ct cls = Some code ->
  exists s' c', pm2_read_body src_cb s c = Ok ([b], s', c') /\ dec_ok ct s' c' (mtf_front mtf b) rest left.
Proof.
  intros (A & B & Hr & Hc & Hh & Hm & Ht & Hst & Hrem & Hp) Hb Emtf Etbl Ecode.
  subst mtf. destruct (find_mtf_index _ _ _ Hh Emtf) as [Hp256 Efind].
  destruct (lit_tbl_facts p cls base w Hp256 Etbl) as (F1 & F2 & F3 & F4 & F5 & F6).
  unfold pm2_read_body, pm2_TREE_NODE_LEAF.
  destruct (Ht cls code _ c _ Ecode Hr Hc Hp) as (r2 & c2 & E2 & W2 & S2 & P2).
  rewrite E2. cbn [bind]. cbv beta iota zeta.
  destruct (N.ltb_spec cls 8) as [_|X]; [|lia].
  unfold read_single_byte.
  change (pm2_bsr (pm2_set_bsr s r2)) with r2.
  destruct (dvl_lit r2 c2 cls base w (p - base) rest W2 S2 F1 F2 F3 F6) as (r3 & c3 & E3 & W3 & S3 & P3);
    [lia|exact P2|].
  rewrite E3. cbn [bind]. cbv beta iota zeta.
  replace (base + (p - base)) with p by lia.
  change (pm2_history_list (pm2_set_bsr (pm2_set_bsr s r2) r3)) with (pm2_history_list s).
  rewrite (u8_small p Hp256), Efind. cbn [bind].
  unfold output_byte. cbv zeta. rewrite (u8_small b Hb).
  change (pm2_ringbuf (pm2_set_bsr (pm2_set_bsr s r2) r3)) with (pm2_ringbuf s).
  change (pm2_ringbuf_pos (pm2_set_bsr (pm2_set_bsr s r2) r3)) with (pm2_ringbuf_pos s).
  change (pm2_history_list (pm2_set_bsr (pm2_set_bsr s r2) r3)) with (pm2_history_list s).
  change (pm2_tree_rebuild_remaining (pm2_set_bsr (pm2_set_bsr s r2) r3)) with (pm2_tree_rebuild_remaining s).
  rewrite wr_ok by (rewrite A; unfold pm2_ringbuf_extent, pm2_RING_BUFFER_SIZE in *; lia). cbn [bind].
  change (ob_push 934 pm2_max_read ob_empty b) with (Ok {| ob_rev := [b]; ob_len := 0 + 1 |}). cbn [bind].
  destruct (update_history_list_mtf (pm2_history_list s) b Hh) as (h' & Eh & Wh & Lh).
  rewrite (u8_small b Hb) in Lh. rewrite Eh. cbn [bind].
  destruct (N.eqb_spec (pm2_tree_rebuild_remaining s) 0) as [X|_]; [lia|].
  destruct (N.eqb_spec (pm2_tree_rebuild_remaining s - 1) 0) as [X|_]; [lia|].
  cbn [bind]. cbv beta iota.
  eexists _, c3. split; [reflexivity|].
  unfold dec_ok.
  cbn [pm2_ringbuf pm2_ringbuf_pos pm2_bsr pm2_history_list pm2_code_tree pm2_tree_state
       pm2_tree_rebuild_remaining pm2_set_bsr].
  split; [rewrite alen_aset; exact A|]. split; [apply pm2_ring_mod_lt|].
  split; [exact W3|]. split; [exact S3|]. split; [exact Wh|]. split; [exact Lh|].
  split; [exact Ht|]. split; [exact Hst|]. split; [lia|exact P3].
Qed.

Corollary read_lit ct ot s c st b r rest left :
  dec_ok ct s c (ps_mtf st) (lit_bits (Some ct) ot st (b :: r) ++ rest) (left + 1) ->
  b < 256 -> is_some (pm2_cmd_code (Some ct) ot (ps_mtf st) (PByte b)) = true ->
  exists s' c', pm2_read_body src_cb s c = Ok ([b], s', c') /\
    dec_ok ct s' c' (ps_mtf (pst_out st b)) (lit_bits (Some ct) ot (pst_out st b) r ++ rest) left.
Proof.
  intros Hd Hb Hs. destruct (lit_code_inv ct ot _ b Hs) as (p & cls & base & w & code & E1 & E2 & E3 & E4).
  cbn [lit_bits] in Hd. rewrite E4 in Hd. rewrite <- !app_assoc in Hd.
  apply (body_lit ct s c (ps_mtf st) b p cls base w code _ left Hd Hb E1 E2 E3).
Qed.

(* ------------------------------------------------------------------ *)
(* E. The first read: the tables                                       *)

Lemma read_offset_lengths_src ls : forall off ol so nc r (c : src) rest,
  bsr_wf r -> src_ok c -> Forall (fun l => l < 8) ls -> off + nlen ls <= alen ol ->
  (forall j, aget ol j < 256) -> pending r c = flat_map (nbits 3) ls ++ rest ->
  exists ol' so' nc' r' c',
    read_offset_lengths src_cb (length ls) off ol so nc r c = Ok (Some (ol', so', nc'), r', c') /\
    bsr_wf r' /\ src_ok c' /\ pending r' c' = rest /\ alen ol' = alen ol /\ (forall j, aget ol' j < 256).
Proof.
  induction ls as [|l ls IH]; intros off ol so nc r c rest Hr Hc Hls Hoff Hol Hp.
  - exists ol, so, nc, r, c. split; [reflexivity|]. split; [exact Hr|]. split; [exact Hc|].
    split; [exact Hp|]. split; [reflexivity|exact Hol].
  - inversion Hls as [|? ? Hl Hls']; subst. rewrite nlen_cons in Hoff.
    cbn [flat_map] in Hp. rewrite <- app_assoc in Hp. rewrite nbits_eq in Hp.
    change (N.to_nat 3) with 3%nat in Hp.
    cbn [length]. rewrite read_offset_lengths_S.
    destruct (read_bits_src_prefix r c 3 l (flat_map (nbits 3) ls ++ rest) Hr Hc) as (r1 & c1 & E1 & W1 & S1 & P1);
      [cbn; lia|change (2 ^ N.of_nat 3) with 8; exact Hl|exact Hp|].
    change (N.of_nat 3) with 3 in E1. rewrite E1. cbn [bind]. cbv beta iota.
    rewrite wr_ok by lia. cbn [bind].
    assert (Hol' : forall j, aget (aset ol off (u8 l)) j < 256).
    { intros j. rewrite aget_aset. destruct (off =? j); [apply u8_lt|apply Hol]. }
    destruct (l =? 0).
    + destruct (IH (off + 1) (aset ol off (u8 l)) so nc r1 c1 rest W1 S1 Hls') as
        (ol' & so' & nc' & r' & c' & E & W & S & P & A & V); try assumption; [rewrite alen_aset; lia|].
      exists ol', so', nc', r', c'. rewrite alen_aset in A.
      split; [exact E|]. split; [exact W|]. split; [exact S|]. split; [exact P|]. split; [exact A|exact V].
    + destruct (IH (off + 1) (aset ol off (u8 l)) off (u32 (nc + 1)) r1 c1 rest W1 S1 Hls') as
        (ol' & so' & nc' & r' & c' & E & W & S & P & A & V); try assumption; [rewrite alen_aset; lia|].
      exists ol', so', nc', r', c'. rewrite alen_aset in A.
      split; [exact E|]. split; [exact W|]. split; [exact S|]. split; [exact P|]. split; [exact A|exact V].
Qed.

Lemma read_offset_tree_none {cbs} (cb : callback cbs) s c n : pm2_need_offset_tree s = false ->
  read_offset_tree cb s c n = Ok (true, s, c).
Proof. intros H. unfold read_offset_tree. rewrite H. reflexivity. Qed.

Lemma read_offset_tree_src s (c : src) ol rest : pm2_need_offset_tree s = true ->
  bsr_wf (pm2_bsr s) -> src_ok c -> closed 128 (pm2_offset_tree s) pm2_offset_tree_extent ->
  nlen ol <= 8 -> Forall (fun l => l < 8) ol -> pending (pm2_bsr s) c = off_bits ol ++ rest ->
  exists b s' c', read_offset_tree src_cb s c (nlen ol) = Ok (b, s', c') /\
    bsr_wf (pm2_bsr s') /\ src_ok c' /\ pending (pm2_bsr s') c' = rest /\
    pm2_ringbuf s' = pm2_ringbuf s /\ pm2_ringbuf_pos s' = pm2_ringbuf_pos s /\
    pm2_history_list s' = pm2_history_list s /\ pm2_code_tree s' = pm2_code_tree s.
Proof.
  intros Hneed Hr Hc Hcl Hn Hol Hp. unfold read_offset_tree. rewrite Hneed. cbn [negb].
  replace (N.to_nat (nlen ol)) with (length ol) by (unfold nlen; lia).
  destruct (read_offset_lengths_src ol 0 (mk_arr pm2_offset_lengths_extent 0) 0 0 (pm2_bsr s) c rest Hr Hc Hol)
    as (ol' & so' & nc' & r' & c' & E & W & S & P & A & V).
  { cbn [mk_arr alen]. unfold pm2_offset_lengths_extent. lia. }
  { intros j. rewrite aget_mk. lia. }
  { exact Hp. }
  rewrite E. cbn [bind]. cbv beta iota zeta.
  change (pm2_offset_tree (pm2_set_bsr s r')) with (pm2_offset_tree s). unfold pm2_TREE_NODE_LEAF.
  cbn [mk_arr alen] in A.
  destruct (nc' =? 1).
  - destruct (set_tree_single_closed 128 7 eq_refl (pm2_offset_tree s) pm2_offset_tree_extent (u8 so') Hcl)
      as (t & Et & _); [unfold pm2_offset_tree_extent; lia|].
    rewrite Et. cbn [bind]. eexists _, _, c'. split; [reflexivity|].
    cbn [pm2_set_offset_tree pm2_set_bsr pm2_bsr pm2_ringbuf pm2_ringbuf_pos pm2_history_list pm2_code_tree].
    split; [exact W|]. split; [exact S|]. split; [exact P|]. repeat split.
  - destruct (build_tree_closed_u8 (pm2_offset_tree s) pm2_offset_tree_extent ol' (nlen ol) Hcl)
      as (t & Et & _); try (unfold pm2_offset_tree_extent; lia).
    { rewrite A. unfold pm2_offset_lengths_extent. exact Hn. }
    { intros j _. apply V. }
    rewrite Et. cbn [bind]. eexists _, _, c'. split; [reflexivity|].
    cbn [pm2_set_offset_tree pm2_set_bsr pm2_bsr pm2_ringbuf pm2_ringbuf_pos pm2_history_list pm2_code_tree].
    split; [exact W|]. split; [exact S|]. split; [exact P|]. repeat split.
Qed.

Lemma pm2_init_facts : exists s0, pm2_init = Ok s0 /\
  pm2_bsr s0 = bsr_init /\ pm2_tree_state s0 = PM2_REBUILD_UNBUILT /\
  alen (pm2_ringbuf s0) = pm2_ringbuf_extent /\ pm2_ringbuf_pos s0 = 0 /\
  hl_wf (pm2_history_list s0) /\ hl_list (pm2_history_list s0) = pm_mtf0 /\
  closed 128 (pm2_code_tree s0) pm2_code_tree_extent /\
  closed 128 (pm2_offset_tree s0) pm2_offset_tree_extent.
Proof.
  unfold pm2_init, pm2_TREE_NODE_LEAF.
  destruct (N.leb_spec pm2_RING_BUFFER_SIZE pm2_ringbuf_extent) as [_|H];
    [|unfold pm2_RING_BUFFER_SIZE, pm2_ringbuf_extent in H; lia].
  destruct init_history_list_wf as (h & Eh & Wh & Lh). rewrite Eh. cbn [bind].
  destruct (init_tree_closed 128 7 eq_refl (mk_arr pm2_code_tree_extent 0) pm2_CODE_TREE_ELEMENTS)
    as (ct & Ect & Cct & _); [cbn [mk_arr alen]; unfold pm2_code_tree_extent, pm2_CODE_TREE_ELEMENTS; lia|].
  rewrite Ect. cbn [bind].
  destruct (init_tree_closed 128 7 eq_refl (mk_arr pm2_offset_tree_extent 0) pm2_OFFSET_TREE_ELEMENTS)
    as (ot & Eot & Cot & _);
    [cbn [mk_arr alen]; unfold pm2_offset_tree_extent, pm2_OFFSET_TREE_ELEMENTS; lia|].
  rewrite Eot. cbn [bind].
  eexists. split; [reflexivity|].
  cbn [pm2_ringbuf pm2_ringbuf_pos pm2_bsr pm2_history_list pm2_code_tree pm2_offset_tree pm2_tree_state].
  split; [reflexivity|]. split; [reflexivity|]. split; [reflexivity|]. split; [reflexivity|].
  split; [exact Wh|]. split; [exact Lh|]. split; [exact Cct|exact Cot].
Qed.

(* the first pm2_read on a stream: the ignored bit, the code table, the offset
   table if there is one; then the decoder is ready for literals *)
Lemma prelude_ok f ct off s0 (c : src) rest :
  code_tree_ok ct ->
  match off with
  | Some ol => ct_need_off ct = true /\ nlen ol = 5 /\ wf_offtab ol = true
  | None => ct_need_off ct = false
  end ->
  pm2_bsr s0 = bsr_init -> pm2_tree_state s0 = PM2_REBUILD_UNBUILT ->
  alen (pm2_ringbuf s0) = pm2_ringbuf_extent -> pm2_ringbuf_pos s0 = 0 ->
  hl_wf (pm2_history_list s0) -> hl_list (pm2_history_list s0) = pm_mtf0 ->
  closed 128 (pm2_code_tree s0) pm2_code_tree_extent ->
  closed 128 (pm2_offset_tree s0) pm2_offset_tree_extent ->
  src_ok c -> pending bsr_init c = f :: ct_bits ct ++ off_hdr off ++ rest ->
  exists s1 c1,
    ('(_, r, c') <- read_bit src_cb (pm2_bsr s0) c ;; rebuild_tree src_cb (pm2_set_bsr s0 r) c') = Ok (s1, c1) /\
    dec_ok ct s1 c1 pm_mtf0 rest 1023.
Proof.
  intros Hct Hoff E0 Est A B Hh Hl Cc Co Hc Hp.
  rewrite E0.
  destruct (read_bit_src bsr_init c f _ bsr_init_wf Hc Hp) as (r & c' & Eb & Wr & Sc & Pr).
  rewrite Eb. cbn [bind]. cbv beta iota.
  unfold rebuild_tree. change (pm2_tree_state (pm2_set_bsr s0 r)) with (pm2_tree_state s0). rewrite Est.
  destruct (Hct (pm2_set_bsr s0 r) c' (off_hdr off ++ rest) Wr Sc Cc Pr)
    as (b1 & s1 & c1 & E1 & W1 & S1 & P1 & T1 & N1 & F1 & F2 & F3 & F4).
  rewrite E1. cbn [bind]. cbv beta iota.
  cbn [pm2_set_bsr pm2_ringbuf pm2_ringbuf_pos pm2_history_list pm2_offset_tree] in F1, F2, F3, F4.
  assert (X : exists b2 s2 c2, read_offset_tree src_cb s1 c1 5 = Ok (b2, s2, c2) /\
            bsr_wf (pm2_bsr s2) /\ src_ok c2 /\ pending (pm2_bsr s2) c2 = rest /\
            pm2_ringbuf s2 = pm2_ringbuf s1 /\ pm2_ringbuf_pos s2 = pm2_ringbuf_pos s1 /\
            pm2_history_list s2 = pm2_history_list s1 /\ pm2_code_tree s2 = pm2_code_tree s1).
  { destruct off as [ol|].
    - destruct Hoff as (Hn & Hlen & Hwf). cbn [off_hdr] in P1.
      unfold wf_offtab in Hwf. apply andb_true_iff in Hwf. destruct Hwf as [Hwf _].
      assert (Hall : Forall (fun l => l < 8) ol).
      { apply Forall_forall. intros x Hx. rewrite forallb_forall in Hwf. specialize (Hwf x Hx). lia. }
      rewrite <- Hlen. apply read_offset_tree_src; try assumption.
      + rewrite N1. exact Hn.
      + rewrite F4. exact Co.
      + lia.
    - cbn [off_hdr app] in P1. rewrite read_offset_tree_none by (rewrite N1; exact Hoff).
      exists true, s1, c1. split; [reflexivity|]. split; [exact W1|]. split; [exact S1|]. split; [exact P1|].
      repeat split. }
  destruct X as (b2 & s2 & c2 & E2 & W2 & S2 & P2 & G1 & G2 & G3 & G4).
  rewrite E2. cbn [bind]. cbv beta iota.
  eexists _, c2. split; [reflexivity|].
  unfold dec_ok.
  cbn [pm2_set_tree_state pm2_ringbuf pm2_ringbuf_pos pm2_bsr pm2_history_list pm2_code_tree
       pm2_tree_state pm2_tree_rebuild_remaining].
  rewrite G1, G2, G3, G4, F1, F2, F3.
  split; [exact A|]. split; [rewrite B; unfold pm2_RING_BUFFER_SIZE; lia|].
  split; [exact W2|]. split; [exact S2|]. split; [exact Hh|]. split; [exact Hl|].
  split; [exact T1|]. split; [reflexivity|]. split; [lia|exact P2].
Qed.

(* ------------------------------------------------------------------ *)
(* F. All literals: the chunks the decoder yields                      *)

Lemma chunks_lits ct ot : forall bs s c st rest left,
  dec_ok ct s c (ps_mtf st) (lit_bits (Some ct) ot st bs ++ rest) left -> nlen bs <= left ->
  lits_ok (Some ct) ot st bs ->
  chunks_from (pm2_read src_cb) pm2_max_read s c (map (fun b => [b]) bs).
Proof.
  induction bs as [|b r IH]; intros s c st rest left Hd Hl Hok; [constructor|].
  cbn [lits_ok] in Hok. destruct Hok as (Hb & Hs & Hr).
  rewrite nlen_cons in Hl.
  replace left with ((left - 1) + 1) in Hd by lia.
  destruct (read_lit ct ot s c st b r rest (left - 1) Hd Hb Hs) as (s' & c' & E & Hd').
  pose proof Hd as (_ & _ & _ & _ & _ & _ & _ & Est & _).
  cbn [map]. econstructor.
  - rewrite pm2_read_eq, Est. cbn [bind]. exact E.
  - discriminate.
  - change (nlen [b]) with 1. unfold pm2_max_read. lia.
  - apply (IH s' c' (pst_out st b) rest (left - 1) Hd'); [lia|exact Hr].
Qed.

Theorem pm2_literals_chunks_gen f ct off bs tail s0 :
  code_tree_ok ct -> wf_pm2 (lit_stream f ct off bs) = true -> nlen bs < 1024 ->
  Forall (fun b => b < 256) tail -> pm2_init = Ok s0 ->
  chunks_from (pm2_read src_cb) pm2_max_read s0
    {| src_data := pm2_serialise (lit_stream f ct off bs) ++ tail; src_chunks := [] |}
    (map (fun b => [b]) bs).
Proof.
  intros Hct Hwf Hlen Htail Hinit.
  destruct bs as [|b r]; [constructor|].
  destruct (wf_lit_stream f ct off (b :: r) Hwf) as (_ & Hok & Hoff).
  destruct pm2_init_facts as (s0' & E0 & I1 & I2 & I3 & I4 & I5 & I6 & I7 & I8).
  rewrite Hinit in E0. injection E0 as <-.
  unfold pm2_serialise.
  destruct (pending_pm_pack (pm2_bits (lit_stream f ct off (b :: r))) tail Htail) as (k & _ & Hsrc & Hpend).
  set (src0 := {| src_data := pm_pack (pm2_bits (lit_stream f ct off (b :: r))) ++ tail; src_chunks := [] |}) in *.
  rewrite pm2_bits_lit_stream in Hpend.
  rewrite <- app_comm_cons, <- !app_assoc in Hpend.
  destruct (prelude_ok f ct off s0 src0 _ Hct Hoff I1 I2 I3 I4 I5 I6 I7 I8 Hsrc Hpend) as (s1 & c1 & E1 & D1).
  cbn [lits_ok] in Hok. destruct Hok as (Hb & Hs & Hr).
  change pm_mtf0 with (ps_mtf pst0) in D1. change 1023 with (1022 + 1) in D1.
  destruct (read_lit ct (off_tab off) s1 c1 pst0 b r _ 1022 D1 Hb Hs) as (s' & c' & E & Hd').
  rewrite nlen_cons in Hlen.
  cbn [map]. econstructor.
  - rewrite pm2_read_eq, I2, E1. cbn [bind]. exact E.
  - discriminate.
  - change (nlen [b]) with 1. unfold pm2_max_read. lia.
  - apply (chunks_lits ct (off_tab off) r s' c' (pst_out pst0 b) _ 1022 Hd'); [lia|exact Hr].
Qed.

(* what the stream denotes: the bytes *)
Lemma expand_lits w fill : forall bs h acc,
  snd (fold_left (pm_cmd w fill) (map PByte bs) (h, acc)) = rev bs ++ acc.
Proof.
  induction bs as [|b r IH]; intros h acc; [reflexivity|].
  cbn [map fold_left pm_cmd]. rewrite IH. cbn [rev]. rewrite <- app_assoc. reflexivity.
Qed.

Lemma pm2_denote_lit_stream f ct off bs : pm2_denote (lit_stream f ct off bs) = bs.
Proof.
  unfold pm2_denote, pm2_cmds, lit_stream. cbn [p2_segs flat_map sg_cmds]. rewrite app_nil_r.
  unfold pm_expand, pm_expand_fill. rewrite expand_lits, app_nil_r, rev_append_rev, app_nil_r.
  apply rev_involutive.
Qed.

Lemma concat_singletons (bs : list N) : concat (map (fun b => [b]) bs) = bs.
Proof. induction bs as [|b r IH]; [reflexivity|]. cbn [map concat app]. rewrite IH. reflexivity. Qed.

Lemma src_cb_len_bounded_pm : cb_len_bounded src_cb.
Proof.
  intros s n. unfold src_cb. destruct (src_chunks s); cbn [fst]; rewrite nlen_firstn_N; lia.
Qed.

(* Through the public read API: any read schedule asking for at least the
   declared length returns exactly the bytes the stream denotes. *)
Theorem pm2_literals_roundtrip_gen : forall f ct off bs tail s0 ks os d',
  code_tree_ok ct -> wf_pm2 (lit_stream f ct off bs) = true -> nlen bs < 1024 ->
  Forall (fun b => b < 256) tail -> pm2_init = Ok s0 ->
  let src := {| src_data := pm2_serialise (lit_stream f ct off bs) ++ tail; src_chunks := [] |} in
  let L := nlen (pm2_denote (lit_stream f ct off bs)) in
  L <= sum_N ks -> sum_N ks < 2 ^ 62 ->
  run_reads (pm2_read src_cb) pm2_max_read pm2_block_size (lha_decoder_new s0 src L) ks = Ok (os, d') ->
  concat os = pm2_denote (lit_stream f ct off bs).
Proof.
  intros f ct off bs tail s0 ks os d' Hct Hwf Hlen Htail Hinit src L HL Hs Hr.
  pose proof (pm2_literals_chunks_gen f ct off bs tail s0 Hct Hwf Hlen Htail Hinit) as Hch.
  fold src in Hch.
  assert (Hi : pm2_inv_ok s0).
  { destruct pm2_init_ok_ok as (s & E & Hi). rewrite Hinit in E. injection E as <-. exact Hi. }
  unfold L in *. rewrite pm2_denote_lit_stream in *.
  rewrite (decode_of_chunks_inv (pm2_read src_cb) pm2_max_read pm2_block_size pm2_inv_ok
             (pm2_never_faults_len DecBase.src src_cb src_cb_len_bounded_pm)
             (map (fun b => [b]) bs) s0 src (nlen bs) ks os d' Hi Hch); try assumption.
  - rewrite concat_singletons. apply firstn_N_all. lia.
  - rewrite concat_singletons. lia.
Qed.

(* ... and the reads do return *)
Corollary pm2_literals_roundtrip_gen_total : forall f ct off bs tail s0 ks,
  code_tree_ok ct -> wf_pm2 (lit_stream f ct off bs) = true -> nlen bs < 1024 ->
  Forall (fun b => b < 256) tail -> pm2_init = Ok s0 ->
  let src := {| src_data := pm2_serialise (lit_stream f ct off bs) ++ tail; src_chunks := [] |} in
  let L := nlen (pm2_denote (lit_stream f ct off bs)) in
  L <= sum_N ks -> sum_N ks < 2 ^ 62 ->
  exists os d',
    run_reads (pm2_read src_cb) pm2_max_read pm2_block_size (lha_decoder_new s0 src L) ks = Ok (os, d') /\
    concat os = pm2_denote (lit_stream f ct off bs).
Proof.
  intros f ct off bs tail s0 ks Hct Hwf Hlen Htail Hinit src L HL Hs.
  assert (Hi : pm2_inv_ok s0).
  { destruct pm2_init_ok_ok as (s & E & Hi). rewrite Hinit in E. injection E as <-. exact Hi. }
  destruct (run_reads_inv_ok (pm2_read src_cb) pm2_max_read pm2_block_size pm2_inv_ok
              (pm2_never_faults_len DecBase.src src_cb src_cb_len_bounded_pm) ks s0 src L Hi Hs) as (os & d' & E).
  exists os, d'. split; [exact E|].
  exact (pm2_literals_roundtrip_gen f ct off bs tail s0 ks os d' Hct Hwf Hlen Htail Hinit HL Hs E).
Qed.

(* ------------------------------------------------------------------ *)
(* G. The unconditional instance: single-code tables                   *)

(* Every byte of [bs] is coded as its move-to-front position inside class
   n - 1 of pm2_lit_tbl (the code symbol itself takes no bits).  The premise
   wf_pm2 says exactly that each byte's position at its turn lies in that
   class. *)
Theorem pm2_roundtrip_partial : forall f n bs tail s0 ks,
  wf_pm2 (lit_stream f (CTSingle n) None bs) = true -> nlen bs < 1024 ->
  Forall (fun b => b < 256) tail -> pm2_init = Ok s0 ->
  let d := lit_stream f (CTSingle n) None bs in
  let src := {| src_data := pm2_serialise d ++ tail; src_chunks := [] |} in
  let L := nlen (pm2_denote d) in
  L <= sum_N ks -> sum_N ks < 2 ^ 62 ->
  pm2_denote d = bs /\
  exists os d',
    run_reads (pm2_read src_cb) pm2_max_read pm2_block_size (lha_decoder_new s0 src L) ks = Ok (os, d') /\
    concat os = pm2_denote d.
Proof.
  intros f n bs tail s0 ks Hwf Hlen Htail Hinit d src L HL Hs.
  split; [apply pm2_denote_lit_stream|].
  destruct (wf_lit_stream f (CTSingle n) None bs Hwf) as (Hct & _ & _).
  cbn [wf_codetab] in Hct. apply andb_true_iff in Hct. destruct Hct as [H1 H2].
  apply (pm2_literals_roundtrip_gen_total f (CTSingle n) None bs tail s0 ks); try assumption.
  apply code_tree_ok_single; lia.
Qed.

(* non-vacuity: a concrete stream satisfying the premises, decoded by evaluation *)
Example pm2_roundtrip_example :
  let bs := [32; 33; 32; 34; 39; 33] in
  let d := lit_stream true (CTSingle 1) None bs in
  wf_pm2 d = true /\
  match pm2_init with
  | Ok s0 =>
    match run_reads (pm2_read src_cb) pm2_max_read pm2_block_size
            (lha_decoder_new s0 {| src_data := pm2_serialise d ++ [255; 0]; src_chunks := [] |} (nlen bs)) [4; 100] with
    | Ok (os, _) => concat os = bs
    | _ => False
    end
  | _ => False
  end.
Proof. vm_compute. split; reflexivity. Qed.

Print Assumptions pending_pm_pack.
Print Assumptions code_tree_ok_single.
Print Assumptions pm2_literals_chunks_gen.
Print Assumptions pm2_literals_roundtrip_gen.
Print Assumptions pm2_literals_roundtrip_gen_total.
Print Assumptions pm2_roundtrip_partial.
Print Assumptions pm2_roundtrip_example.

(* Sweep.v -- exhaustive checks over [base, base + 2^n) by binary splitting,
   evaluated with vm_compute and lifted to a universally quantified
   statement by sweep_spec. *)
From Coq Require Import NArith List Bool Lia.
Local Open Scope N_scope.

Fixpoint sweep (n : nat) (f : N -> bool) (base : N) : bool :=
  match n with
  | O => f base
  | S k => sweep k f base && sweep k f (base + 2 ^ N.of_nat k)
  end.

Lemma sweep_spec n : forall f base,
  sweep n f base = true -> forall x, base <= x < base + 2 ^ N.of_nat n -> f x = true.
Proof.
  induction n as [|k IH]; intros f base H x Hx.
  - simpl in *. change (2 ^ N.of_nat 0) with 1 in Hx. assert (x = base) by lia. subst. exact H.
  - cbn [sweep] in H. apply andb_true_iff in H. destruct H as [H1 H2].
    assert (E : 2 ^ N.of_nat (S k) = 2 ^ N.of_nat k + 2 ^ N.of_nat k).
    { rewrite Nat2N.inj_succ, N.pow_succ_r by lia. lia. }
    rewrite E in Hx.
    destruct (N.lt_ge_cases x (base + 2 ^ N.of_nat k)).
    + apply (IH f base H1). lia.
    + apply (IH f _ H2). lia.
Qed.

Lemma sweep_below n f : sweep n f 0 = true -> forall x, x < 2 ^ N.of_nat n -> f x = true.
Proof. intros H x Hx. apply (sweep_spec n f 0 H). lia. Qed.

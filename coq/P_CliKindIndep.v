(* P_CliKindIndep.v -- property C16 at the level of the command-line TOOL
   (CliMain.v: lha_main / do_command over CliExtract.v, CliFilter.v, ListOut.v).

   C16 (properties.jsonl): "The members an archive yields - headers, data and
   verdicts - are the same whether it is read from a seekable file, a
   non-seekable pipe (including '-' for standard input), or caller-supplied
   callbacks with or without skip support.  They are also unchanged when the
   first header is preceded by up to 255 KiB of bytes that contain neither an
   archive-method signature nor a self-extractor marker [...]"

   The reader-level statements are in P_KindIndepReader.v / P_KindIndepSfx.v.
   Here they are carried through the tool by a simulation: [cli_rel BR] relates
   two processes (cli_state) that have the same filesystem (with its trace), the
   same options, the same stdout and stderr, and readers related by [rd_rel BR]
   whose basic readers satisfy [br_wf]; every function of src/extract.c, the
   filter, the header collection of the list commands and do_command preserve
   it, using the per-call lemmas lha_reader_next_file_rel / _read_rel /
   _check_rel / _extract_rel of P_KindIndepReader.v.

   Standard input.  The only consumer of standard input in the tool is the
   overwrite prompt (confirm_file_overwrite -> prompt_user), which is reached
   only by the command x/e without the dry-run option and only while the
   overwrite policy is still "prompt".  When the archive is "-", getchar()
   takes its bytes from the archive stream itself (CliExtract.v: stdin_data).
   The relation therefore says: IF the run may prompt (section variable [MP])
   and the policy is "prompt" THEN the two processes have the same private
   standard input and the same "shared" flag, and when it is shared the
   relation BR between basic readers keeps the undelivered source bytes equal
   (section variable [SH] with hypothesis [SH_ok]; true of br_rel, not of the
   self-extractor relation, which forgets how the remaining bytes are split
   between lead-in buffer and source).

   Results:
     cli_stdin_kind_irrelevant   A. lha_main does not depend on stdin_kind:
                                    any argv, any standard input < 2^40 bytes,
                                    any filesystem; equality of the whole result
                                    (stdout, stderr, exit status, filesystem and
                                    trace; same Fault / OutOfFuel).
     cli_named_file_vs_stdin     B. "lha CMD NAME ..." with standard input S
                                    against "lha CMD - ..." with the archive on
                                    standard input, on the SAME filesystem (in
                                    which NAME opens as a readable file with
                                    contents A): equality of the whole result,
                                    provided (1) for l / v the time the footer
                                    prints is the same (the model prints [now]
                                    for "-": mt = 0 or mt = now), and (2) the
                                    run cannot prompt (not x/e, or dry run, or
                                    the policy is not "prompt": options f / q).
                                    Both provisos are necessary
                                    (P_CliKindIndepEx.v has the two
                                    counterexamples).  The tool never prints
                                    the archive's name once it is open.
     cli_sfx_scan_irrelevant     C. NAME1 holds X, NAME2 holds A in the same
       cli_sfx_prefix_irrelevant    filesystem, X scans to A (quiet prefix / one
       cli_sfx_decoy_irrelevant     marker and one decoy): "lha CMD NAME1 ..." =
                                    "lha CMD NAME2 ..." (same standard input,
                                    same effective time for l / v).
     cli_sfx_scan_stdin          C'. the same with both archives given on
       cli_sfx_prefix_stdin         standard input ("-"), any two kinds, when
       cli_sfx_decoy_stdin          the run cannot prompt.

   Lemmas and theorems only. *)
From Lhasa Require Import Base DecBase ListN Loop Generated Crc16 InputStream Header BasicReader AnyDecoder Decoder
  MacBinary Fs FsRun Reader Glob ListOut CliFilter CliExtract CliMain P_Sfx P_HeaderSafe P_Intact P_StreamEquiv
  P_BasicReaderIndep P_ReaderIndep P_ReaderIndepFull P_AnyParam2 P_KindIndep P_KindIndepReader P_KindIndepSfx.
From Coq Require Import ZifyBool ZifyN ZifyNat.
Local Open Scope N_scope.

Ltac csimp := cbn [cs_fs cs_reader cs_opts cs_stdin cs_stdin_shared cs_out cs_err
                   set_fs set_reader set_opts set_stdin put_out put_err] in *.

(* ------------------------------------------------------------------ *)
(* The source bytes of a basic reader (the overwrite prompt on "-")    *)

Definition br_set_src_data (b : breader) (d : list N) : breader :=
  let s := br_stream b in
  let so := is_src s in
  {| br_stream := {| is_src := {| so_kind := so_kind so; so_data := d; so_reads := so_reads so;
                                  so_skips := so_skips so |};
                     is_state := is_state s; is_leadin := is_leadin s |};
     br_curr := br_curr b; br_remaining := br_remaining b; br_eof := br_eof b |}.

Lemma rd_br_set_src r d : rd_br (reader_set_src_data r d) = br_set_src_data (rd_br r) d.
Proof. reflexivity. Qed.

Lemma br_set_src_wf b d : br_wf b -> nlen d <= nlen (so_data (is_src (br_stream b))) ->
  br_wf (br_set_src_data b d).
Proof.
  unfold br_wf, wf, avail, br_set_src_data.
  cbn [br_stream br_curr br_remaining br_eof is_src is_state is_leadin so_data].
  intros (W & A & C) L. split; [exact W|]. split; [lia|exact C].
Qed.

Lemma prompt_read_len : forall inp result c rest,
  prompt_read inp result = Some (c, rest) -> nlen rest <= nlen inp.
Proof.
  induction inp as [|x inp IH]; intros result c rest H; cbn [prompt_read] in H; [discriminate|].
  assert (L : nlen inp <= nlen (x :: inp)) by (unfold nlen; cbn [length]; lia).
  destruct (x =? 10).
  - inversion H; subst. exact L.
  - apply IH in H. lia.
Qed.

(* br_rel keeps the undelivered source bytes equal, and replacing them on both sides keeps it *)
Lemma br_rel_src a b : br_rel a b ->
  so_data (is_src (br_stream a)) = so_data (is_src (br_stream b)) /\
  forall d, br_rel (br_set_src_data a d) (br_set_src_data b d).
Proof.
  intros ((S & L & D) & C & R & E). split; [exact D|]. intros d.
  unfold br_rel, kind_rel, br_set_src_data.
  cbn [br_stream br_curr br_remaining br_eof is_src is_state is_leadin so_data]. auto 10.
Qed.

(* ------------------------------------------------------------------ *)
(* The simulation, generic in the relation between basic readers       *)

Section CliRel.
Variable BR : breader -> breader -> Prop.
Hypothesis BR_ok : br_compat BR.
(* SH: BR is fine enough for a shared standard input *)
Variable SH : Prop.
Hypothesis SH_ok : SH -> forall a b, BR a b ->
  so_data (is_src (br_stream a)) = so_data (is_src (br_stream b)) /\
  forall d, BR (br_set_src_data a d) (br_set_src_data b d).
(* MP: the run may reach the overwrite prompt *)
Variable MP : Prop.

(* related readers, both with the invariant of P_BasicReaderIndep.v *)
Definition rw_rel (r1 r2 : reader) : Prop := rd_rel BR r1 r2 /\ br_wf (rd_br r1) /\ br_wf (rd_br r2).

Definition sin_same (st1 st2 : cli_state) : Prop :=
  cs_stdin st1 = cs_stdin st2 /\ cs_stdin_shared st1 = cs_stdin_shared st2 /\
  (cs_stdin_shared st1 = true -> SH).

Definition cli_rel (st1 st2 : cli_state) : Prop :=
  cs_fs st1 = cs_fs st2 /\ rw_rel (cs_reader st1) (cs_reader st2) /\ cs_opts st1 = cs_opts st2 /\
  cs_out st1 = cs_out st2 /\ cs_err st1 = cs_err st2 /\
  (MP -> o_overwrite_policy (cs_opts st1) = LHA_OVERWRITE_PROMPT -> sin_same st1 st2).

Definition res_rel {A} (x y : A * cli_state) : Prop := fst x = fst y /\ cli_rel (snd x) (snd y).

Lemma cli_rel_put_out st1 st2 b : cli_rel st1 st2 -> cli_rel (put_out st1 b) (put_out st2 b).
Proof.
  intros (F & R & O & Ou & E & S). unfold cli_rel, sin_same in *. csimp.
  do 5 (split; [first [assumption|congruence]|]). exact S.
Qed.

Lemma cli_rel_put_err st1 st2 b : cli_rel st1 st2 -> cli_rel (put_err st1 b) (put_err st2 b).
Proof.
  intros (F & R & O & Ou & E & S). unfold cli_rel, sin_same in *. csimp.
  do 5 (split; [first [assumption|congruence]|]). exact S.
Qed.

Lemma cli_rel_set_reader st1 st2 r1 r2 : cli_rel st1 st2 -> rw_rel r1 r2 ->
  cli_rel (set_reader st1 r1) (set_reader st2 r2).
Proof.
  intros (F & R & O & Ou & E & S) Hr. unfold cli_rel, sin_same in *. csimp.
  do 5 (split; [first [assumption|congruence]|]). exact S.
Qed.

Lemma cli_rel_set_fs st1 st2 f : cli_rel st1 st2 -> cli_rel (set_fs st1 f) (set_fs st2 f).
Proof.
  intros (F & R & O & Ou & E & S). unfold cli_rel, sin_same in *. csimp.
  do 5 (split; [first [assumption|congruence]|]). exact S.
Qed.

Lemma cli_rel_set_opts st1 st2 o : cli_rel st1 st2 -> o_overwrite_policy o <> LHA_OVERWRITE_PROMPT ->
  cli_rel (set_opts st1 o) (set_opts st2 o).
Proof.
  intros (F & R & O & Ou & E & S) Ho. unfold cli_rel, sin_same in *. csimp.
  do 5 (split; [first [assumption|congruence]|]). intros _ P. contradiction.
Qed.

(* sequencing of steps that may exit *)
Lemma orel_cbind {A B} (m1 m2 : outcome (res A * cli_state)) (k1 k2 : A -> cli_state -> outcome (res B * cli_state)) :
  orel res_rel m1 m2 ->
  (forall a s1 s2, cli_rel s1 s2 -> orel res_rel (k1 a s1) (k2 a s2)) ->
  orel res_rel (cbind m1 k1) (cbind m2 k2).
Proof.
  intros H K. destruct m1 as [[v1 s1]| |], m2 as [[v2 s2]| |]; cbn [orel] in H; try contradiction; cbn [cbind orel]; auto.
  destruct H as [E Hs]. cbn [fst snd] in E, Hs. subst v2. destruct v1 as [a|c].
  - apply K. exact Hs.
  - cbn [orel]. split; [reflexivity|exact Hs].
Qed.

(* ------------------------------------------------------------------ *)
(* The reader API with the invariant                                   *)

Definition rwres_rel {A} (x y : A * reader) : Prop := fst x = fst y /\ rw_rel (snd x) (snd y).

Lemma next_file_rw mktime r1 r2 : rw_rel r1 r2 ->
  orel rwres_rel (lha_reader_next_file mktime r1) (lha_reader_next_file mktime r2).
Proof.
  intros (H & W1 & W2). eapply orel_weaken.
  - apply (orel_with_inv (rres_rel BR) (fun x => br_wf (rd_br (snd x))) (fun x => br_wf (rd_br (snd x)))).
    + apply lha_reader_next_file_rel; assumption.
    + intros [h r'] E. cbn [snd]. eapply lha_reader_next_file_wf; [exact W1|exact E].
    + intros [h r'] E. cbn [snd]. eapply lha_reader_next_file_wf; [exact W2|exact E].
  - intros [h r'] [h' r''] ((E & R) & Wa & Wb). cbn [fst snd] in *. split; [exact E|]. split; [exact R|]. split; assumption.
Qed.

Lemma read_rw junk r1 r2 n : rw_rel r1 r2 ->
  orel rwres_rel (lha_reader_read junk r1 n) (lha_reader_read junk r2 n).
Proof.
  pose proof (decoders_use_callback_only_holds junk) as Hdec.
  intros (H & W1 & W2). eapply orel_weaken.
  - apply (orel_with_inv (rres_rel BR) (fun x => br_wf (rd_br (snd x))) (fun x => br_wf (rd_br (snd x)))).
    + apply lha_reader_read_rel; assumption.
    + intros [[o e] r'] E. cbn [snd]. eapply reach_wf; [eapply lha_reader_read_reach; eauto|exact W1].
    + intros [[o e] r'] E. cbn [snd]. eapply reach_wf; [eapply lha_reader_read_reach; eauto|exact W2].
  - intros [h r'] [h' r''] ((E & R) & Wa & Wb). cbn [fst snd] in *. split; [exact E|]. split; [exact R|]. split; assumption.
Qed.

Lemma check_rw junk r1 r2 mon : rw_rel r1 r2 ->
  orel rwres_rel (lha_reader_check junk r1 mon) (lha_reader_check junk r2 mon).
Proof.
  pose proof (decoders_use_callback_only_holds junk) as Hdec.
  intros (H & W1 & W2). eapply orel_weaken.
  - apply (orel_with_inv (rres_rel BR) (fun x => br_wf (rd_br (snd x))) (fun x => br_wf (rd_br (snd x)))).
    + apply lha_reader_check_rel; assumption.
    + intros [[o e] r'] E. cbn [snd]. eapply reach_wf; [eapply lha_reader_check_reach; eauto|exact W1].
    + intros [[o e] r'] E. cbn [snd]. eapply reach_wf; [eapply lha_reader_check_reach; eauto|exact W2].
  - intros [h r'] [h' r''] ((E & R) & Wa & Wb). cbn [fst snd] in *. split; [exact E|]. split; [exact R|]. split; assumption.
Qed.

Definition xres_rel (x y : bool * list (N * N) * reader * fs) : Prop :=
  fst (fst x) = fst (fst y) /\ rw_rel (snd (fst x)) (snd (fst y)) /\ snd x = snd y.

Lemma extract_rw junk r1 r2 f fn mon : rw_rel r1 r2 ->
  orel xres_rel (lha_reader_extract junk r1 f fn mon) (lha_reader_extract junk r2 f fn mon).
Proof.
  intros (H & W1 & W2). eapply orel_weaken.
  - apply (orel_with_inv (ddres_rel BR) (fun x => br_wf (rd_br (snd (fst x)))) (fun x => br_wf (rd_br (snd (fst x))))).
    + apply lha_reader_extract_rel; assumption.
    + intros [[[o e] r'] g] E. cbn [fst snd]. eapply reach_wf; [eapply lha_reader_extract_reach; eauto|exact W1].
    + intros [[[o e] r'] g] E. cbn [fst snd]. eapply reach_wf; [eapply lha_reader_extract_reach; eauto|exact W2].
  - intros [[x1 r'] g1] [[x2 r''] g2] ((E & R & G) & Wa & Wb). cbn [fst snd] in *.
    split; [exact E|]. split; [|exact G]. split; [exact R|]. split; assumption.
Qed.

(* ------------------------------------------------------------------ *)
(* src/filter.c                                                        *)

Lemma filter_step_rw mktime f r1 r2 : rw_rel r1 r2 ->
  orel (sum_rel rw_rel rwres_rel) (filter_step mktime f r1) (filter_step mktime f r2).
Proof.
  intros H. unfold filter_step.
  eapply orel_bind; [apply next_file_rw; exact H|].
  intros [h1 a1] [h2 a2] [E Ha]. cbn [fst snd] in *. subst h2. cbv beta iota.
  destruct h1 as [hd|].
  - destruct (matches_filter f hd); cbn [orel sum_rel]; [split; [reflexivity|exact Ha]|exact Ha].
  - cbn [orel sum_rel]. split; [reflexivity|exact Ha].
Qed.

Lemma filter_next_file_rw mktime f r1 r2 : rw_rel r1 r2 ->
  orel rwres_rel (filter_next_file mktime f r1) (filter_next_file mktime f r2).
Proof.
  intros H. unfold filter_next_file.
  apply (orel_loop _ _ rw_rel rwres_rel (filter_step_rw mktime f)). exact H.
Qed.

Lemma next_header_rel mktime f st1 st2 : cli_rel st1 st2 ->
  orel res_rel (next_header mktime f st1) (next_header mktime f st2).
Proof.
  intros H. pose proof H as (F & R & _). unfold next_header.
  eapply orel_bind; [apply filter_next_file_rw; exact R|].
  intros [h1 a1] [h2 a2] [E Ha]. cbn [fst snd] in *. subst h2. cbv beta iota.
  cbn [orel]. split; [reflexivity|]. cbn [snd]. apply cli_rel_set_reader; assumption.
Qed.

(* ------------------------------------------------------------------ *)
(* src/extract.c: test                                                 *)

Lemma test_archived_file_crc_rel junk h st1 st2 : cli_rel st1 st2 ->
  orel res_rel (test_archived_file_crc junk h st1) (test_archived_file_crc junk h st2).
Proof.
  intros H. pose proof H as (F & R & O & _). unfold test_archived_file_crc. cbv zeta. rewrite <- O.
  destruct (o_dry_run (cs_opts st1)).
  - destruct (negb (is_dir_type h)); cbn [orel]; (split; [reflexivity|]); cbn [snd]; [apply cli_rel_put_out|]; exact H.
  - eapply orel_bind; [apply check_rw; exact R|].
    intros [[s1 e1] a1] [[s2 e2] a2] [Eq Ra]. cbn [fst snd] in *. inversion Eq; subst s2 e2. cbv beta iota.
    cbn [orel]. split; [reflexivity|]. cbn [snd].
    destruct (invoked e1 && (o_quiet (cs_opts st1) <? 2)); repeat apply cli_rel_put_out;
      apply cli_rel_set_reader; assumption.
Qed.

Definition bst_rel (s t : bool * cli_state) : Prop := fst s = fst t /\ cli_rel (snd s) (snd t).

Lemma test_file_crc_step_rel mktime junk f s t : bst_rel s t ->
  orel (sum_rel bst_rel res_rel) (test_file_crc_step mktime junk f s) (test_file_crc_step mktime junk f t).
Proof.
  destruct s as [b1 st1], t as [b2 st2]. intros [E H]. cbn [fst snd] in *. subst b2. unfold test_file_crc_step.
  eapply orel_bind; [apply next_header_rel; exact H|].
  intros [h1 a1] [h2 a2] [Eh Ha]. cbn [fst snd] in *. subst h2. cbv beta iota.
  destruct h1 as [hd|]; [|cbn [orel sum_rel]; split; [reflexivity|exact Ha]].
  eapply orel_bind; [apply test_archived_file_crc_rel; exact Ha|].
  intros [v1 c1] [v2 c2] [Ev Hc]. cbn [fst snd] in *. subst v2. cbv beta iota.
  destruct v1 as [ok|c]; cbn [orel sum_rel]; (split; [reflexivity|exact Hc]).
Qed.

Lemma test_file_crc_rel mktime junk f st1 st2 : cli_rel st1 st2 ->
  orel res_rel (test_file_crc mktime junk f st1) (test_file_crc mktime junk f st2).
Proof.
  intros H. unfold test_file_crc.
  apply (orel_loop _ _ bst_rel res_rel (test_file_crc_step_rel mktime junk f)). split; [reflexivity|exact H].
Qed.

(* ------------------------------------------------------------------ *)
(* src/extract.c: parent directories                                   *)

Definition pst_rel (x y : bool * cli_state) : Prop := fst x = fst y /\ cli_rel (snd x) (snd y).

Lemma check_parent_directory_rel path st1 st2 : cli_rel st1 st2 ->
  pst_rel (check_parent_directory path st1) (check_parent_directory path st2).
Proof.
  intros H. pose proof H as (F & _). unfold check_parent_directory. rewrite <- F.
  destruct (arch_exists (cs_fs st1) path).
  - destruct (arch_mkdir (cs_fs st1) path 493) as [ok f1].
    destruct (negb ok); split; cbn [fst snd]; try reflexivity.
    + apply cli_rel_put_err. apply cli_rel_set_fs. exact H.
    + apply cli_rel_set_fs. exact H.
  - split; cbn [fst snd]; [reflexivity|]. apply cli_rel_put_err. exact H.
  - split; cbn [fst snd]; [reflexivity|exact H].
  - split; cbn [fst snd]; [reflexivity|]. apply cli_rel_put_err. exact H.
Qed.

Lemma mpd_loop_rel : forall rest pre st1 st2, cli_rel st1 st2 ->
  pst_rel (mpd_loop pre rest st1) (mpd_loop pre rest st2).
Proof.
  induction rest as [|c r IH]; intros pre st1 st2 H; cbn [mpd_loop].
  - split; [reflexivity|exact H].
  - destruct (c =? 47); [|apply IH; exact H].
    pose proof (check_parent_directory_rel (rev pre) st1 st2 H) as [Eb Hc].
    destruct (check_parent_directory (rev pre) st1) as [ok1 a1], (check_parent_directory (rev pre) st2) as [ok2 a2].
    cbn [fst snd] in *. subst ok2.
    destruct (negb ok1); [split; [reflexivity|exact Hc]|apply IH; exact Hc].
Qed.

Lemma make_parent_directories_rel p st1 st2 : cli_rel st1 st2 ->
  pst_rel (make_parent_directories p st1) (make_parent_directories p st2).
Proof.
  intros H. unfold make_parent_directories. cbv zeta.
  destruct (leading_slashes (strip_trailing_slashes p)) as [lead rest]. apply mpd_loop_rel. exact H.
Qed.

(* ------------------------------------------------------------------ *)
(* src/extract.c: the overwrite prompt                                 *)

Lemma stdin_data_same st1 st2 : cli_rel st1 st2 -> sin_same st1 st2 -> stdin_data st1 = stdin_data st2.
Proof.
  intros (_ & ((B & _) & _) & _) (Ed & Es & Hs). unfold stdin_data. rewrite <- Es.
  destruct (cs_stdin_shared st1); [|exact Ed].
  unfold reader_src_data. apply (SH_ok (Hs eq_refl)). exact B.
Qed.

Lemma reader_set_src_rw r1 r2 d : SH -> rw_rel r1 r2 -> nlen d <= nlen (reader_src_data r1) ->
  rw_rel (reader_set_src_data r1 d) (reader_set_src_data r2 d).
Proof.
  intros Sh ((B & C & T & D & Ir & P & S & Df & L) & W1 & W2) Ln.
  destruct (SH_ok Sh _ _ B) as [Ed Hset]. unfold reader_src_data in Ln.
  split; [|split].
  - unfold rd_rel. rewrite !rd_br_set_src. split; [apply Hset|].
    unfold reader_set_src_data. cbn [rd_curr rd_type rd_decoder rd_inner rd_policy rd_dir_stack rd_deferred rd_linked].
    auto 10.
  - rewrite rd_br_set_src. apply br_set_src_wf; assumption.
  - rewrite rd_br_set_src. apply br_set_src_wf; [assumption|]. rewrite <- Ed. exact Ln.
Qed.

Definition cs_rel (st1 st2 : cli_state) : Prop := cli_rel st1 st2 /\ sin_same st1 st2.

Lemma set_stdin_data_rel st1 st2 d : cs_rel st1 st2 -> nlen d <= nlen (stdin_data st1) ->
  cs_rel (set_stdin_data st1 d) (set_stdin_data st2 d).
Proof.
  intros [H Hs] Ln. pose proof H as (F & R & O & Ou & E & S). pose proof Hs as (Ed & Es & Hsh).
  unfold set_stdin_data, stdin_data in *. rewrite <- Es.
  destruct (cs_stdin_shared st1) eqn:Sh1.
  - split.
    + apply cli_rel_set_reader; [exact H|]. apply reader_set_src_rw; auto.
    + unfold sin_same. csimp. auto.
  - split.
    + unfold cli_rel, sin_same in *. csimp. do 5 (split; [first [assumption|congruence]|]).
      intros _ _. split; [reflexivity|]. split; [congruence|]. intros X. congruence.
    + unfold sin_same. csimp. split; [reflexivity|]. split; [congruence|]. intros X. congruence.
Qed.

Lemma cs_rel_put_err st1 st2 b : cs_rel st1 st2 -> cs_rel (put_err st1 b) (put_err st2 b).
Proof. intros [H Hs]. split; [apply cli_rel_put_err; exact H|]. unfold sin_same in *. csimp. exact Hs. Qed.

Definition ress_rel {A} (x y : A * cli_state) : Prop := fst x = fst y /\ cs_rel (snd x) (snd y).

Lemma prompt_user_rel msg st1 st2 : cs_rel st1 st2 ->
  orel ress_rel (prompt_user msg st1) (prompt_user msg st2).
Proof.
  intros H. unfold prompt_user. cbv zeta.
  pose proof (cs_rel_put_err st1 st2 msg H) as H1.
  assert (Ed : stdin_data (put_err st1 msg) = stdin_data (put_err st2 msg)).
  { destruct H1 as [Ha Hb]. apply stdin_data_same; assumption. }
  rewrite <- Ed.
  destruct (prompt_read (stdin_data (put_err st1 msg)) 0) as [[c rest]|] eqn:Ep.
  - cbn [orel]. split; [reflexivity|]. cbn [snd]. apply set_stdin_data_rel; [exact H1|].
    eapply prompt_read_len. exact Ep.
  - cbn [orel]. split; [reflexivity|]. cbn [snd]. apply set_stdin_data_rel; [exact H1|].
    unfold nlen. cbn [length]. lia.
Qed.

Lemma confirm_step_rel filename st1 st2 : cs_rel st1 st2 ->
  orel (sum_rel cs_rel res_rel) (confirm_step filename st1) (confirm_step filename st2).
Proof.
  intros H. unfold confirm_step. cbv zeta.
  eapply orel_bind; [apply prompt_user_rel; apply cs_rel_put_err; exact H|].
  intros [v1 a1] [v2 a2] [Ev [Ha Hs]]. cbn [fst snd] in *. subst v2. cbv beta iota.
  destruct v1 as [response|c]; [|cbn [orel sum_rel]; split; [reflexivity|exact Ha]].
  pose proof Ha as (_ & _ & O & _). rewrite <- O.
  destruct (tolower response =? 121); [cbn [orel sum_rel]; split; [reflexivity|exact Ha]|].
  destruct ((tolower response =? 110) || (tolower response =? 10)); [cbn [orel sum_rel]; split; [reflexivity|exact Ha]|].
  destruct (tolower response =? 97).
  { cbn [orel sum_rel]. split; [reflexivity|]. cbn [snd]. apply cli_rel_set_opts; [exact Ha|].
    cbn [set_overwrite o_overwrite_policy]. discriminate. }
  destruct (tolower response =? 115).
  { cbn [orel sum_rel]. split; [reflexivity|]. cbn [snd]. apply cli_rel_set_opts; [exact Ha|].
    cbn [set_overwrite o_overwrite_policy]. discriminate. }
  cbn [orel sum_rel]. split; assumption.
Qed.

Lemma confirm_file_overwrite_rel filename st1 st2 : MP -> cli_rel st1 st2 ->
  orel res_rel (confirm_file_overwrite filename st1) (confirm_file_overwrite filename st2).
Proof.
  intros Mp H. pose proof H as (F & R & O & Ou & E & S). unfold confirm_file_overwrite. rewrite <- O.
  destruct (o_overwrite_policy (cs_opts st1)) eqn:Ep.
  - apply (orel_loop _ _ cs_rel res_rel (confirm_step_rel filename)). split; [exact H|]. apply S; [exact Mp|reflexivity].
  - cbn [orel]. split; [reflexivity|exact H].
  - cbn [orel]. split; [reflexivity|exact H].
Qed.

Lemma file_exists_rel filename st1 st2 : cli_rel st1 st2 ->
  orel res_rel (file_exists filename st1) (file_exists filename st2).
Proof.
  intros H. pose proof H as (F & _). unfold file_exists. rewrite <- F.
  destruct (arch_exists (cs_fs st1) filename); cbn [orel]; (split; [reflexivity|]); cbn [snd];
    first [exact H|apply cli_rel_put_err; exact H].
Qed.

(* ------------------------------------------------------------------ *)
(* src/extract.c: extract                                              *)

Lemma extract_archived_file_rel junk h st1 st2 : MP -> cli_rel st1 st2 ->
  orel res_rel (extract_archived_file junk h st1) (extract_archived_file junk h st2).
Proof.
  intros Mp H. pose proof H as (F & R & O & _). unfold extract_archived_file. cbv zeta. rewrite <- O.
  set (filename := file_full_path h (cs_opts st1)).
  apply orel_cbind.
  - match goal with |- orel _ (if ?c then _ else _) _ => destruct c end;
      [|cbn [orel]; split; [reflexivity|exact H]].
    apply orel_cbind; [apply file_exists_rel; exact H|].
    intros ex a1 a2 Ha. destruct ex; [|cbn [orel]; split; [reflexivity|exact Ha]].
    apply orel_cbind; [apply confirm_file_overwrite_rel; assumption|].
    intros yes b1 b2 Hb. cbn [orel]. split; [reflexivity|exact Hb].
  - intros skip a1 a2 Ha. pose proof Ha as (_ & _ & Oa & _). rewrite <- Oa.
    destruct skip.
    { destruct (is_skip (o_overwrite_policy (cs_opts a1))); cbn [orel]; (split; [reflexivity|]); cbn [snd];
        [apply cli_rel_put_out|]; exact Ha. }
    match goal with |- orel _ (if ?c then _ else _) _ => destruct c end;
      [cbn [orel]; split; [reflexivity|exact Ha]|].
    pose proof (make_parent_directories_rel filename a1 a2 Ha) as [Eb Hc].
    destruct (make_parent_directories filename a1) as [ok1 c1], (make_parent_directories filename a2) as [ok2 c2].
    cbn [fst snd] in *. subst ok2.
    destruct (negb ok1); [cbn [orel]; split; [reflexivity|exact Hc]|].
    pose proof Hc as (Fc & Rc & _). rewrite <- Fc.
    eapply orel_bind; [apply extract_rw; exact Rc|].
    intros [[[s1 e1] x1] g1] [[[s2 e2] x2] g2] (Eq & Rx & Eg). cbn [fst snd] in *. inversion Eq; subst s2 e2 g2.
    cbv beta iota. cbn [orel]. split; [reflexivity|]. cbn [snd].
    assert (Tf : lha_reader_current_is_fake x1 = lha_reader_current_is_fake x2).
    { destruct Rx as ((_ & _ & T & _) & _). unfold lha_reader_current_is_fake. rewrite T. reflexivity. }
    rewrite <- Tf.
    assert (H3 : cli_rel (put_out (set_fs (set_reader c1 x1) g1) (progress_output (cs_opts a1) filename s_melting e1))
                         (put_out (set_fs (set_reader c2 x2) g1) (progress_output (cs_opts a1) filename s_melting e1))).
    { apply cli_rel_put_out. apply cli_rel_set_fs. apply cli_rel_set_reader; assumption. }
    destruct (negb (lha_reader_current_is_fake x1) && (o_quiet (cs_opts a1) <? 2)); [|exact H3].
    destruct (invoked e1); [apply cli_rel_put_out; exact H3|].
    destruct (h_symlink_target h); [apply cli_rel_put_out; exact H3|exact H3].
Qed.

Lemma extract_archive_step_rel mktime junk f s t : MP -> bst_rel s t ->
  orel (sum_rel bst_rel res_rel) (extract_archive_step mktime junk f s) (extract_archive_step mktime junk f t).
Proof.
  destruct s as [b1 st1], t as [b2 st2]. intros Mp [E H]. cbn [fst snd] in *. subst b2. unfold extract_archive_step.
  eapply orel_bind; [apply next_header_rel; exact H|].
  intros [h1 a1] [h2 a2] [Eh Ha]. cbn [fst snd] in *. subst h2. cbv beta iota.
  destruct h1 as [hd|]; [|cbn [orel sum_rel]; split; [reflexivity|exact Ha]].
  eapply orel_bind; [apply extract_archived_file_rel; assumption|].
  intros [v1 c1] [v2 c2] [Ev Hc]. cbn [fst snd] in *. subst v2. cbv beta iota.
  destruct v1 as [ok|c]; cbn [orel sum_rel]; (split; [reflexivity|exact Hc]).
Qed.

Lemma dry_run_step_rel mktime f s t : bst_rel s t ->
  orel (sum_rel bst_rel res_rel) (dry_run_step mktime f s) (dry_run_step mktime f t).
Proof.
  destruct s as [b1 st1], t as [b2 st2]. intros [E H]. cbn [fst snd] in *. subst b2. unfold dry_run_step.
  eapply orel_bind; [apply next_header_rel; exact H|].
  intros [h1 a1] [h2 a2] [Eh Ha]. cbn [fst snd] in *. subst h2. cbv beta iota.
  destruct h1 as [hd|]; [|cbn [orel sum_rel]; split; [reflexivity|exact Ha]].
  cbv zeta. pose proof Ha as (_ & _ & Oa & _). rewrite <- Oa.
  set (filename := file_full_path hd (cs_opts a1)).
  assert (H2 : cli_rel (put_out a1 (safe_printf (s_extract ++ filename))) (put_out a2 (safe_printf (s_extract ++ filename))))
    by (apply cli_rel_put_out; exact Ha).
  eapply orel_bind with (R := @res_rel (res unit)).
  - destruct (h_symlink_target hd).
    + cbn [orel]. split; [reflexivity|]. cbn [snd]. apply cli_rel_put_out. exact H2.
    + destruct (is_dir_type hd).
      * cbn [orel]. split; [reflexivity|]. cbn [snd]. apply cli_rel_put_out. exact H2.
      * apply orel_cbind; [apply file_exists_rel; exact H2|].
        intros ex c1 c2 Hc. cbn [orel]. split; [reflexivity|]. cbn [snd].
        destruct ex; [apply cli_rel_put_out|]; exact Hc.
  - intros [v1 c1] [v2 c2] [Ev Hc]. cbn [fst snd] in *. subst v2. cbv beta iota.
    destruct v1 as [u|c]; cbn [orel sum_rel]; (split; [reflexivity|]); cbn [snd]; [apply cli_rel_put_out|]; exact Hc.
Qed.

Lemma extract_archive_dry_run_rel mktime f st1 st2 : cli_rel st1 st2 ->
  orel res_rel (extract_archive_dry_run mktime f st1) (extract_archive_dry_run mktime f st2).
Proof.
  intros H. unfold extract_archive_dry_run.
  apply (orel_loop _ _ bst_rel res_rel (dry_run_step_rel mktime f)). split; [reflexivity|exact H].
Qed.

Lemma extract_archive_rel mktime junk f st1 st2 : (o_dry_run (cs_opts st1) = false -> MP) -> cli_rel st1 st2 ->
  orel res_rel (extract_archive mktime junk f st1) (extract_archive mktime junk f st2).
Proof.
  intros Mp H. pose proof H as (_ & _ & O & _). unfold extract_archive. rewrite <- O.
  destruct (o_dry_run (cs_opts st1)).
  - apply extract_archive_dry_run_rel. exact H.
  - apply (orel_loop _ _ bst_rel res_rel (fun s t => extract_archive_step_rel mktime junk f s t (Mp eq_refl))).
    split; [reflexivity|exact H].
Qed.

(* ------------------------------------------------------------------ *)
(* src/extract.c: print                                                *)

Lemma print_file_step_rel junk st1 st2 : cli_rel st1 st2 ->
  orel (sum_rel cli_rel cli_rel) (print_file_step junk st1) (print_file_step junk st2).
Proof.
  intros H. pose proof H as (_ & R & _). unfold print_file_step.
  eapply orel_bind; [apply read_rw; exact R|].
  intros [[o1 e1] a1] [[o2 e2] a2] [Eq Ra]. cbn [fst snd] in *. inversion Eq; subst o2 e2. cbv beta iota.
  destruct o1; cbn [orel sum_rel]; [|apply cli_rel_put_out]; apply cli_rel_set_reader; assumption.
Qed.

Lemma print_archived_file_rel junk st1 st2 : cli_rel st1 st2 ->
  orel pst_rel (print_archived_file junk st1) (print_archived_file junk st2).
Proof.
  intros H. unfold print_archived_file.
  eapply orel_bind; [apply (orel_loop _ _ cli_rel cli_rel (print_file_step_rel junk)); exact H|].
  intros a1 a2 Ha. cbn [orel]. split; [reflexivity|exact Ha].
Qed.

Lemma print_archive_step_rel mktime junk f st1 st2 : cli_rel st1 st2 ->
  orel (sum_rel cli_rel res_rel) (print_archive_step mktime junk f st1) (print_archive_step mktime junk f st2).
Proof.
  intros H. unfold print_archive_step.
  eapply orel_bind; [apply next_header_rel; exact H|].
  intros [h1 a1] [h2 a2] [Eh Ha]. cbn [fst snd] in *. subst h2. cbv beta iota.
  destruct h1 as [hd|]; [|cbn [orel sum_rel]; split; [reflexivity|exact Ha]].
  cbv zeta. pose proof Ha as (_ & _ & Oa & _). rewrite <- Oa.
  match goal with
  | |- orel _ (if ?c then bind (print_archived_file _ ?x) _ else _) (if _ then bind (print_archived_file _ ?y) _ else _) =>
    assert (H2 : cli_rel x y)
  end.
  { destruct (o_quiet (cs_opts a1) <? 2); [|exact Ha].
    destruct (h_symlink_target hd); [apply cli_rel_put_out; exact Ha|].
    destruct (negb (is_dir_type hd)); [apply cli_rel_put_out; exact Ha|exact Ha]. }
  destruct (negb (is_dir_type hd)); [|cbn [orel sum_rel]; exact H2].
  eapply orel_bind; [apply print_archived_file_rel; exact H2|].
  intros [ok1 c1] [ok2 c2] [Eo Hc]. cbn [fst snd] in *. subst ok2. cbv beta iota.
  destruct (negb ok1); cbn [orel sum_rel]; [split; [reflexivity|exact Hc]|exact Hc].
Qed.

Lemma print_archive_rel mktime junk f st1 st2 : cli_rel st1 st2 ->
  orel res_rel (print_archive mktime junk f st1) (print_archive mktime junk f st2).
Proof.
  intros H. pose proof H as (_ & _ & O & _). unfold print_archive. rewrite <- O.
  destruct (o_dry_run (cs_opts st1)).
  - apply extract_archive_dry_run_rel. exact H.
  - apply (orel_loop _ _ cli_rel res_rel (print_archive_step_rel mktime junk f)). exact H.
Qed.

(* ------------------------------------------------------------------ *)
(* src/main.c: the headers for the list commands                       *)

Definition ah_rel (s t : reader * list header) : Prop := rw_rel (fst s) (fst t) /\ snd s = snd t.

Lemma all_headers_step_rel mktime s t : ah_rel s t ->
  orel (sum_rel ah_rel ah_rel) (all_headers_step mktime s) (all_headers_step mktime t).
Proof.
  destruct s as [r1 acc1], t as [r2 acc2]. intros [H E]. cbn [fst snd] in *. subst acc2. unfold all_headers_step.
  eapply orel_bind; [apply next_file_rw; exact H|].
  intros [h1 a1] [h2 a2] [Eh Ha]. cbn [fst snd] in *. subst h2. cbv beta iota.
  destruct h1; cbn [orel sum_rel]; split; cbn [fst snd]; auto.
Qed.

Lemma all_headers_rel mktime r1 r2 : rw_rel r1 r2 -> orel ah_rel (all_headers mktime r1) (all_headers mktime r2).
Proof.
  intros H. unfold all_headers.
  apply (orel_loop _ _ ah_rel ah_rel (all_headers_step_rel mktime)). split; [exact H|reflexivity].
Qed.

(* ------------------------------------------------------------------ *)
(* src/main.c: do_command after the archive is open                    *)

Definition open_state (src : source) (shared : bool) (st : cli_state) : cli_state :=
  {| cs_fs := cs_fs st; cs_reader := lha_reader_new (lha_input_stream_new src); cs_opts := cs_opts st;
     cs_stdin := if shared then [] else cs_stdin st; cs_stdin_shared := shared;
     cs_out := cs_out st; cs_err := cs_err st |}.

Definition run_mode mktime junk localtime now (mode : program_mode) (filters : list (list N)) (mtime : N)
           (st1 : cli_state) : outcome (res bool * cli_state) :=
  let filter := lha_filter_init filters in
  match mode with
  | MODE_LIST =>
    '(r', hs) <- all_headers mktime (cs_reader st1) ;;
    txt <- list_file_basic localtime filter (cs_opts st1) now mtime hs ;;
    Ok (RVal true, put_out (set_reader st1 r') txt)
  | MODE_LIST_VERBOSE =>
    '(r', hs) <- all_headers mktime (cs_reader st1) ;;
    txt <- list_file_verbose localtime filter (cs_opts st1) now mtime hs ;;
    Ok (RVal true, put_out (set_reader st1 r') txt)
  | MODE_CRC_CHECK => test_file_crc mktime junk filter st1
  | MODE_EXTRACT => extract_archive mktime junk filter st1
  | MODE_PRINT => print_archive mktime junk filter st1
  | MODE_UNKNOWN => Ok (RVal true, st1)
  end.

Lemma run_mode_rel mktime junk localtime now mode filters mtime st1 st2 :
  (mode = MODE_EXTRACT -> o_dry_run (cs_opts st1) = false -> MP) -> cli_rel st1 st2 ->
  orel res_rel (run_mode mktime junk localtime now mode filters mtime st1)
               (run_mode mktime junk localtime now mode filters mtime st2).
Proof.
  intros Mp H. pose proof H as (_ & R & O & _). unfold run_mode. cbv zeta. destruct mode.
  - cbn [orel]. split; [reflexivity|exact H].
  - eapply orel_bind; [apply all_headers_rel; exact R|].
    intros [a1 hs1] [a2 hs2] [Ha E]. cbn [fst snd] in *. subst hs2. cbv beta iota. rewrite <- O.
    apply orel_bind_same. intros txt. cbn [orel]. split; [reflexivity|]. cbn [snd].
    apply cli_rel_put_out. apply cli_rel_set_reader; assumption.
  - eapply orel_bind; [apply all_headers_rel; exact R|].
    intros [a1 hs1] [a2 hs2] [Ha E]. cbn [fst snd] in *. subst hs2. cbv beta iota. rewrite <- O.
    apply orel_bind_same. intros txt. cbn [orel]. split; [reflexivity|]. cbn [snd].
    apply cli_rel_put_out. apply cli_rel_set_reader; assumption.
  - apply test_file_crc_rel. exact H.
  - apply extract_archive_rel; [apply Mp; reflexivity|exact H].
  - apply print_archive_rel. exact H.
Qed.

(* what the caller of do_command keeps of its result *)
Definition cli_result_of (r : res bool * cli_state) : cli_result :=
  let '(v, st) := r in
  {| cr_stdout := stdout_bytes st; cr_stderr := stderr_bytes st;
     cr_exit := match v with RVal true => 0 | RVal false => 1 | RExit c => c end;
     cr_fs := cs_fs st |}.

Lemma result_of_rel (m1 m2 : outcome (res bool * cli_state)) : orel res_rel m1 m2 ->
  (r <- m1 ;; Ok (cli_result_of r)) = (r <- m2 ;; Ok (cli_result_of r)).
Proof.
  destruct m1 as [[v1 s1]| |], m2 as [[v2 s2]| |]; cbn [orel]; intros H; try contradiction; cbn [bind].
  - destruct H as [Ev (F & _ & _ & Ou & E & _)]. cbn [fst snd] in *. subst v2.
    unfold cli_result_of, stdout_bytes, stderr_bytes. rewrite F, Ou, E. reflexivity.
  - subst. reflexivity.
  - reflexivity.
Qed.

Lemma rw_rel_new st1 st2 : BR (lha_basic_reader_new st1) (lha_basic_reader_new st2) ->
  br_wf (lha_basic_reader_new st1) -> br_wf (lha_basic_reader_new st2) ->
  rw_rel (lha_reader_new st1) (lha_reader_new st2).
Proof.
  intros H W1 W2. split; [|split; assumption].
  unfold rd_rel, lha_reader_new. rdsimp. cbn [opt_rel iref_rel]. split; [exact H|]. repeat split.
Qed.
End CliRel.

(* ------------------------------------------------------------------ *)
(* do_command and lha_main in terms of run_mode                        *)

Definition open_archive (now : N) (stdin_kind : skind) (strerror : bool -> list N) (filename : list N) (st0 : cli_state)
  : outcome (res (source * N * bool) * cli_state) :=
  if is_dash filename then Ok (RVal (mk_source stdin_kind (cs_stdin st0), now, true), st0)
  else match fs_fopen_rb (cs_fs st0) filename with
       | OpenFail e => Ok (RExit exit_minus_1, put_err st0 (s_lha_error ++ filename ++ [32] ++ strerror e ++ [10]))
       | OpenDir => Ok (RVal (mk_source KFile [], now, false), st0)
       | OpenFile data mt => Ok (RVal (mk_source KFile data, if mt =? 0 then now else mt, false), st0)
       end.

Lemma do_command_eq mktime junk localtime now stdin_kind strerror mode filename filters st0 :
  do_command mktime junk localtime now stdin_kind strerror mode filename filters st0 =
  cbind (open_archive now stdin_kind strerror filename st0)
        (fun opened st => run_mode mktime junk localtime now mode filters (snd (fst opened))
                            (open_state (fst (fst opened)) (snd opened) st)).
Proof.
  unfold do_command, open_archive.
  destruct (is_dash filename).
  - cbn [cbind]. reflexivity.
  - destruct (fs_fopen_rb (cs_fs st0) filename); cbn [cbind]; reflexivity.
Qed.

Lemma lha_main_eq mktime junk localtime now stdin_kind strerror argv stdin s :
  lha_main mktime junk localtime now stdin_kind strerror argv stdin s =
  (r <- (match parse_main (tl argv) with
         | Some (mode, o, file, filters) =>
           do_command mktime junk localtime now stdin_kind strerror mode file filters (start_state s stdin o)
         | None => help_page (match argv with p :: _ => p | [] => [] end) (start_state s stdin init_options)
         end) ;;
   Ok (cli_result_of r)).
Proof.
  unfold lha_main. cbv zeta.
  match goal with |- bind ?m _ = _ => destruct m as [[v st]| |] end; reflexivity.
Qed.

(* the list commands are the only ones that look at the archive's time *)
Lemma run_mode_mtime mktime junk localtime now mode filters mt1 mt2 st :
  (mode = MODE_LIST \/ mode = MODE_LIST_VERBOSE -> mt1 = mt2) ->
  run_mode mktime junk localtime now mode filters mt1 st = run_mode mktime junk localtime now mode filters mt2 st.
Proof.
  intros H. unfold run_mode. destruct mode;
    [reflexivity|rewrite (H (or_introl eq_refl)); reflexivity|rewrite (H (or_intror eq_refl)); reflexivity
    |reflexivity|reflexivity|reflexivity].
Qed.

(* the state made by do_command for an open archive: related as soon as the readers are *)
Lemma open_state_rel BR (SH MP : Prop) src1 (sh1 : bool) src2 (sh2 : bool) st1 st2 :
  rw_rel BR (lha_reader_new (lha_input_stream_new src1)) (lha_reader_new (lha_input_stream_new src2)) ->
  cs_fs st1 = cs_fs st2 -> cs_opts st1 = cs_opts st2 -> cs_out st1 = cs_out st2 -> cs_err st1 = cs_err st2 ->
  (MP -> o_overwrite_policy (cs_opts st1) = LHA_OVERWRITE_PROMPT ->
   sh1 = sh2 /\ (if sh1 then @nil N else cs_stdin st1) = (if sh2 then @nil N else cs_stdin st2) /\ (sh1 = true -> SH)) ->
  cli_rel BR SH MP (open_state src1 sh1 st1) (open_state src2 sh2 st2).
Proof.
  intros R F O Ou E S. unfold cli_rel, open_state, sin_same. csimp.
  do 5 (split; [assumption|]).
  intros Mp P. destruct (S Mp P) as (Es & Ed & Sh). auto.
Qed.

Lemma is_dash_dash : is_dash [45] = true.
Proof. reflexivity. Qed.

(* ================================================================== *)
(* The theorems                                                        *)

Section Tool.
Variable mktime : N -> N -> N -> N -> Z -> N -> N.
Variable junk : N.
Variable localtime : N -> tm.
Variable now : N.
Variable strerror : bool -> list N.

Lemma rw_rel_kinds k1 k2 data : nlen data < 1099511627776 ->
  rw_rel br_rel (lha_reader_new (lha_input_stream_new (mk_source k1 data)))
                (lha_reader_new (lha_input_stream_new (mk_source k2 data))).
Proof.
  intros Hb. apply rw_rel_new; [apply br_rel_new|apply br_wf_new; exact Hb|apply br_wf_new; exact Hb].
Qed.

(* the archive argument of the command line is "-" *)
Definition archive_is_stdin (argv : list (list N)) : bool :=
  match parse_main (tl argv) with
  | Some (_, _, file, _) => is_dash file
  | None => false
  end.

(* ---- A.  The kind of standard input (seekable redirect or pipe) is not
   observable: for every command line (every command l v t p x e, every
   option, every pattern; also the malformed ones that print the help page),
   every standard input, every filesystem, the tool returns the same result
   record -- standard output, standard error, exit status, final filesystem
   with its trace of operations -- or stops with the same Fault / OutOfFuel.
   When the archive is "-", it must be shorter than 2^40 bytes (the model's
   fuel for the read-based skip loops). ---- *)
Theorem cli_stdin_kind_irrelevant_gen k1 k2 argv stdin s :
  (archive_is_stdin argv = true -> nlen stdin < 1099511627776) ->
  lha_main mktime junk localtime now k1 strerror argv stdin s =
  lha_main mktime junk localtime now k2 strerror argv stdin s.
Proof.
  intros Hb. rewrite !lha_main_eq. unfold archive_is_stdin in Hb.
  destruct (parse_main (tl argv)) as [[[[mode o] file] filters]|]; [|reflexivity].
  destruct (is_dash file) eqn:Ed.
  - apply (result_of_rel br_rel True True).
    rewrite !do_command_eq. unfold open_archive. rewrite Ed. cbn [cbind fst snd].
    apply (run_mode_rel br_rel br_rel_compat True (fun _ => br_rel_src) True); [auto|].
    apply open_state_rel; try reflexivity.
    + apply rw_rel_kinds. cbn [start_state cs_stdin]. apply Hb. reflexivity.
    + intros _ _. auto.
  - assert (E : do_command mktime junk localtime now k1 strerror mode file filters (start_state s stdin o) =
                do_command mktime junk localtime now k2 strerror mode file filters (start_state s stdin o)).
    { unfold do_command. rewrite Ed. reflexivity. }
    rewrite E. reflexivity.
Qed.

Theorem cli_stdin_kind_irrelevant k1 k2 argv stdin s : nlen stdin < 1099511627776 ->
  lha_main mktime junk localtime now k1 strerror argv stdin s =
  lha_main mktime junk localtime now k2 strerror argv stdin s.
Proof. intros Hb. apply cli_stdin_kind_irrelevant_gen. intros _. exact Hb. Qed.

(* ---- B.  The archive by name against the archive on standard input, on the
   same filesystem s, in which the name opens as a readable regular file with
   contents A and modification time mt.  [argv1] is the command line with the
   name, [argv2] the same command line with "-" (same command and options, same
   patterns); S is whatever standard input the named run has.

   Provisos, both necessary (counterexamples in P_CliKindIndepEx.v):
   * l / v print the archive file's modification time in the footer; for "-"
     the C prints whatever fstat gives for standard input, which the model
     takes to be [now] (CliMain.v: "Not modelled: the modification time of
     "-""), and for a file with mt = 0 it prints [now] too.  So: mt = 0 or
     mt = now.  The other commands never look at it.
   * when the archive is "-" the overwrite prompt reads its answer from the
     archive stream, not from S.  So the run must not be able to prompt: the
     command is not x/e, or it is a dry run, or the policy is not "prompt"
     (options f, q).
   The tool prints the archive's name only when it cannot open it, so the
   outputs are equal without exception; and since both runs start from the
   same filesystem the final filesystems (and traces) are equal, the archive
   file included. ---- *)
Theorem cli_named_file_vs_stdin k k' argv1 argv2 mode o file filters S A mt s :
  parse_main (tl argv1) = Some (mode, o, file, filters) ->
  parse_main (tl argv2) = Some (mode, o, [45], filters) ->
  is_dash file = false ->
  fs_fopen_rb s file = OpenFile A mt ->
  nlen A < 1099511627776 ->
  (mode = MODE_LIST \/ mode = MODE_LIST_VERBOSE -> mt = 0 \/ mt = now) ->
  (mode = MODE_EXTRACT -> o_dry_run o = false -> o_overwrite_policy o <> LHA_OVERWRITE_PROMPT) ->
  lha_main mktime junk localtime now k strerror argv1 S s =
  lha_main mktime junk localtime now k' strerror argv2 A s.
Proof.
  intros P1 P2 Ed Eo Hb Hmt Hp. rewrite !lha_main_eq, P1, P2.
  apply (result_of_rel br_rel False (mode = MODE_EXTRACT /\ o_dry_run o = false)).
  rewrite !do_command_eq. unfold open_archive. rewrite Ed, is_dash_dash.
  cbn [start_state cs_fs cs_stdin]. rewrite Eo. cbn [cbind fst snd].
  rewrite (run_mode_mtime mktime junk localtime now mode filters (if mt =? 0 then now else mt) now).
  2:{ intros Hl. destruct (Hmt Hl) as [->| ->]; [reflexivity|]. destruct (now =? 0); reflexivity. }
  apply (run_mode_rel br_rel br_rel_compat False (fun F => False_ind _ F)).
  - cbn [open_state cs_opts]. auto.
  - apply open_state_rel; try reflexivity.
    + apply rw_rel_kinds. exact Hb.
    + cbn [cs_opts]. intros [Em Edr] Pp. exfalso. exact (Hp Em Edr Pp).
Qed.

(* the usual shape of the two command lines *)
Corollary cli_named_file_vs_stdin_argv k k' prog cmd file filters mode o S A mt s :
  parse_command_line cmd = Some (mode, o) ->
  is_dash file = false ->
  fs_fopen_rb s file = OpenFile A mt ->
  nlen A < 1099511627776 ->
  (mode = MODE_LIST \/ mode = MODE_LIST_VERBOSE -> mt = 0 \/ mt = now) ->
  (mode = MODE_EXTRACT -> o_dry_run o = false -> o_overwrite_policy o <> LHA_OVERWRITE_PROMPT) ->
  lha_main mktime junk localtime now k strerror (prog :: cmd :: file :: filters) S s =
  lha_main mktime junk localtime now k' strerror (prog :: cmd :: [45] :: filters) A s.
Proof.
  intros Pc. apply (cli_named_file_vs_stdin k k' _ _ mode o file filters S A mt s); cbn [tl parse_main]; rewrite Pc; reflexivity.
Qed.

(* "lha NAME" = "lha l NAME" *)
Corollary cli_named_file_vs_stdin_bare k k' prog file S A mt s :
  is_dash file = false ->
  fs_fopen_rb s file = OpenFile A mt ->
  nlen A < 1099511627776 ->
  mt = 0 \/ mt = now ->
  lha_main mktime junk localtime now k strerror [prog; file] S s =
  lha_main mktime junk localtime now k' strerror [prog; [45]] A s.
Proof.
  intros Ed Eo Hb Hmt. apply (cli_named_file_vs_stdin k k' _ _ MODE_LIST init_options file [] S A mt s);
    try reflexivity; try assumption.
  - intros _. exact Hmt.
  - intros X. discriminate X.
Qed.

(* ---- C.  Self-extractor prefixes.  The same filesystem holds X under NAME1 and
   the bare archive A under NAME2, and the self-extractor scan over X stops
   exactly at A: the tool gives the same result on either name -- same output,
   same exit status, same final filesystem and trace.  For l / v the time
   printed in the footer must be the same for the two files. ---- *)
Definition shown_mtime (mt : N) : N := if mt =? 0 then now else mt.

Lemma sfx_SH_ok : False -> forall a b, sfx_br_rel a b ->
  so_data (is_src (br_stream a)) = so_data (is_src (br_stream b)) /\
  forall d, sfx_br_rel (br_set_src_data a d) (br_set_src_data b d).
Proof. intros []. Qed.

Lemma rw_rel_scan k X A : scans_to X A -> scans_to A A ->
  nlen X < 1099511627776 -> nlen A < 1099511627776 ->
  rw_rel sfx_br_rel (lha_reader_new (lha_input_stream_new (mk_source k X)))
                    (lha_reader_new (lha_input_stream_new (mk_source k A))).
Proof.
  intros HX HA BX BA. apply rw_rel_new; [right; apply sfx_fresh_new; assumption| |]; apply br_wf_new; assumption.
Qed.

Theorem cli_sfx_scan_irrelevant k k' argv1 argv2 mode o file1 file2 filters stdin X A mt1 mt2 s :
  parse_main (tl argv1) = Some (mode, o, file1, filters) ->
  parse_main (tl argv2) = Some (mode, o, file2, filters) ->
  is_dash file1 = false -> is_dash file2 = false ->
  fs_fopen_rb s file1 = OpenFile X mt1 -> fs_fopen_rb s file2 = OpenFile A mt2 ->
  scans_to X A -> scans_to A A -> nlen X < 1099511627776 -> nlen A < 1099511627776 ->
  (mode = MODE_LIST \/ mode = MODE_LIST_VERBOSE -> shown_mtime mt1 = shown_mtime mt2) ->
  lha_main mktime junk localtime now k strerror argv1 stdin s =
  lha_main mktime junk localtime now k' strerror argv2 stdin s.
Proof.
  intros P1 P2 Ed1 Ed2 Eo1 Eo2 HX HA BX BA Hmt. rewrite !lha_main_eq, P1, P2.
  apply (result_of_rel sfx_br_rel False True).
  rewrite !do_command_eq. unfold open_archive. rewrite Ed1, Ed2.
  cbn [start_state cs_fs cs_stdin]. rewrite Eo1, Eo2. cbn [cbind fst snd].
  fold (shown_mtime mt1). fold (shown_mtime mt2).
  rewrite (run_mode_mtime mktime junk localtime now mode filters (shown_mtime mt1) (shown_mtime mt2) _ Hmt).
  apply (run_mode_rel sfx_br_rel sfx_br_rel_compat False sfx_SH_ok True); [auto|].
  apply open_state_rel; try reflexivity.
  - apply rw_rel_scan; assumption.
  - intros _ _. split; [reflexivity|]. split; [reflexivity|]. intros X0. discriminate X0.
Qed.

(* C'.  Both on standard input, through any two kinds: when the run cannot prompt.
   (With a prompt the answer is read from the archive stream, and how much of
   it the scan has already taken into the lead-in buffer differs.) *)
Theorem cli_sfx_scan_stdin k1 k2 argv mode o file filters X A s :
  parse_main (tl argv) = Some (mode, o, file, filters) ->
  is_dash file = true ->
  scans_to X A -> scans_to A A -> nlen X < 1099511627776 -> nlen A < 1099511627776 ->
  (mode = MODE_EXTRACT -> o_dry_run o = false -> o_overwrite_policy o <> LHA_OVERWRITE_PROMPT) ->
  lha_main mktime junk localtime now k1 strerror argv X s =
  lha_main mktime junk localtime now k2 strerror argv A s.
Proof.
  intros P1 Ed HX HA BX BA Hp.
  rewrite (cli_stdin_kind_irrelevant k1 k2 argv X s BX).
  rewrite !lha_main_eq, P1.
  apply (result_of_rel sfx_br_rel False (mode = MODE_EXTRACT /\ o_dry_run o = false)).
  rewrite !do_command_eq. unfold open_archive. rewrite Ed. cbn [start_state cs_stdin cbind fst snd].
  apply (run_mode_rel sfx_br_rel sfx_br_rel_compat False sfx_SH_ok).
  - cbn [open_state cs_opts]. auto.
  - apply open_state_rel; try reflexivity.
    + apply rw_rel_scan; assumption.
    + cbn [cs_opts]. intros [Em Edr] Pp. exfalso. exact (Hp Em Edr Pp).
Qed.

(* the two shapes of prefix of C16 *)
Lemma quiet_prefix_scans P A : nlen P < sfx_scan_limit -> 13 <= nlen A -> match_at A 0 = true ->
  (forall q, q < nlen P -> match_at (P ++ A) q = false /\ marker_at (P ++ A) q = false) ->
  nlen A < 1099511627776 - sfx_scan_limit ->
  scans_to (P ++ A) A /\ scans_to A A /\ nlen (P ++ A) < 1099511627776 /\ nlen A < 1099511627776.
Proof.
  intros HP HA Hm Hq Hb. unfold sfx_scan_limit in *. split; [|split; [|split]].
  - intros k. destruct (P_Sfx.sfx_prefix_skipped k P A HP HA Hm Hq) as (st' & E & R & _). exists st'. auto.
  - apply scans_to_self; assumption.
  - rewrite nlen_app. lia.
  - lia.
Qed.

Lemma decoy_prefix_scans P A m d : nlen P < sfx_scan_limit -> 13 <= nlen A -> match_at A 0 = true ->
  m <= d -> d < nlen P ->
  (forall q, q < nlen P -> (marker_at (P ++ A) q = true <-> q = m)) ->
  (forall q, q < nlen P -> (match_at (P ++ A) q = true <-> q = d)) ->
  nlen A < 1099511627776 - sfx_scan_limit ->
  scans_to (P ++ A) A /\ scans_to A A /\ nlen (P ++ A) < 1099511627776 /\ nlen A < 1099511627776.
Proof.
  intros HP HA Hm Hmd Hd Hmark Hmatch Hb. unfold sfx_scan_limit in *. split; [|split; [|split]].
  - intros k. destruct (P_Sfx.sfx_one_decoy k P A m d HP HA Hm Hmd Hd Hmark Hmatch) as (st' & E & R & _).
    exists st'. auto.
  - apply scans_to_self; assumption.
  - rewrite nlen_app. lia.
  - lia.
Qed.

Theorem cli_sfx_prefix_irrelevant k k' argv1 argv2 mode o file1 file2 filters stdin P A mt1 mt2 s :
  parse_main (tl argv1) = Some (mode, o, file1, filters) ->
  parse_main (tl argv2) = Some (mode, o, file2, filters) ->
  is_dash file1 = false -> is_dash file2 = false ->
  fs_fopen_rb s file1 = OpenFile (P ++ A) mt1 -> fs_fopen_rb s file2 = OpenFile A mt2 ->
  nlen P < sfx_scan_limit -> 13 <= nlen A -> match_at A 0 = true ->
  (forall q, q < nlen P -> match_at (P ++ A) q = false /\ marker_at (P ++ A) q = false) ->
  nlen A < 1099511627776 - sfx_scan_limit ->
  (mode = MODE_LIST \/ mode = MODE_LIST_VERBOSE -> shown_mtime mt1 = shown_mtime mt2) ->
  lha_main mktime junk localtime now k strerror argv1 stdin s =
  lha_main mktime junk localtime now k' strerror argv2 stdin s.
Proof.
  intros P1 P2 Ed1 Ed2 Eo1 Eo2 HP HA Hm Hq Hb Hmt.
  destruct (quiet_prefix_scans P A HP HA Hm Hq Hb) as (S1 & S2 & B1 & B2).
  eapply cli_sfx_scan_irrelevant; eassumption.
Qed.

Theorem cli_sfx_decoy_irrelevant k k' argv1 argv2 mode o file1 file2 filters stdin P A m d mt1 mt2 s :
  parse_main (tl argv1) = Some (mode, o, file1, filters) ->
  parse_main (tl argv2) = Some (mode, o, file2, filters) ->
  is_dash file1 = false -> is_dash file2 = false ->
  fs_fopen_rb s file1 = OpenFile (P ++ A) mt1 -> fs_fopen_rb s file2 = OpenFile A mt2 ->
  nlen P < sfx_scan_limit -> 13 <= nlen A -> match_at A 0 = true ->
  m <= d -> d < nlen P ->
  (forall q, q < nlen P -> (marker_at (P ++ A) q = true <-> q = m)) ->
  (forall q, q < nlen P -> (match_at (P ++ A) q = true <-> q = d)) ->
  nlen A < 1099511627776 - sfx_scan_limit ->
  (mode = MODE_LIST \/ mode = MODE_LIST_VERBOSE -> shown_mtime mt1 = shown_mtime mt2) ->
  lha_main mktime junk localtime now k strerror argv1 stdin s =
  lha_main mktime junk localtime now k' strerror argv2 stdin s.
Proof.
  intros P1 P2 Ed1 Ed2 Eo1 Eo2 HP HA Hm Hmd Hd Hmark Hmatch Hb Hmt.
  destruct (decoy_prefix_scans P A m d HP HA Hm Hmd Hd Hmark Hmatch Hb) as (S1 & S2 & B1 & B2).
  eapply cli_sfx_scan_irrelevant; eassumption.
Qed.

Theorem cli_sfx_prefix_stdin k1 k2 argv mode o file filters P A s :
  parse_main (tl argv) = Some (mode, o, file, filters) ->
  is_dash file = true ->
  nlen P < sfx_scan_limit -> 13 <= nlen A -> match_at A 0 = true ->
  (forall q, q < nlen P -> match_at (P ++ A) q = false /\ marker_at (P ++ A) q = false) ->
  nlen A < 1099511627776 - sfx_scan_limit ->
  (mode = MODE_EXTRACT -> o_dry_run o = false -> o_overwrite_policy o <> LHA_OVERWRITE_PROMPT) ->
  lha_main mktime junk localtime now k1 strerror argv (P ++ A) s =
  lha_main mktime junk localtime now k2 strerror argv A s.
Proof.
  intros P1 Ed HP HA Hm Hq Hb Hp.
  destruct (quiet_prefix_scans P A HP HA Hm Hq Hb) as (S1 & S2 & B1 & B2).
  eapply cli_sfx_scan_stdin; eassumption.
Qed.

Theorem cli_sfx_decoy_stdin k1 k2 argv mode o file filters P A m d s :
  parse_main (tl argv) = Some (mode, o, file, filters) ->
  is_dash file = true ->
  nlen P < sfx_scan_limit -> 13 <= nlen A -> match_at A 0 = true ->
  m <= d -> d < nlen P ->
  (forall q, q < nlen P -> (marker_at (P ++ A) q = true <-> q = m)) ->
  (forall q, q < nlen P -> (match_at (P ++ A) q = true <-> q = d)) ->
  nlen A < 1099511627776 - sfx_scan_limit ->
  (mode = MODE_EXTRACT -> o_dry_run o = false -> o_overwrite_policy o <> LHA_OVERWRITE_PROMPT) ->
  lha_main mktime junk localtime now k1 strerror argv (P ++ A) s =
  lha_main mktime junk localtime now k2 strerror argv A s.
Proof.
  intros P1 Ed HP HA Hm Hmd Hd Hmark Hmatch Hb Hp.
  destruct (decoy_prefix_scans P A m d HP HA Hm Hmd Hd Hmark Hmatch Hb) as (S1 & S2 & B1 & B2).
  eapply cli_sfx_scan_stdin; eassumption.
Qed.
End Tool.

(* the test-case form of CliMain.v (cli_run: KPipe, the filesystem of the
   differential harness with the archive at /arc/a.lzh): B on it *)
Corollary cli_run_named_file_vs_stdin mktime localtime strerror uid0 now mtime prog cmd file filters mode o
          archive stdin setup mt :
  parse_command_line cmd = Some (mode, o) ->
  is_dash file = false ->
  fs_fopen_rb (cli_fs_init uid0 archive mtime setup) file = OpenFile archive mt ->
  nlen archive < 1099511627776 ->
  (mode = MODE_LIST \/ mode = MODE_LIST_VERBOSE -> mt = 0 \/ mt = now) ->
  (mode = MODE_EXTRACT -> o_dry_run o = false -> o_overwrite_policy o <> LHA_OVERWRITE_PROMPT) ->
  cli_run mktime localtime strerror uid0 now mtime (prog :: cmd :: file :: filters) archive stdin setup =
  cli_run mktime localtime strerror uid0 now mtime (prog :: cmd :: [45] :: filters) archive archive setup.
Proof. intros. unfold cli_run. eapply cli_named_file_vs_stdin_argv; eassumption. Qed.

Print Assumptions cli_stdin_kind_irrelevant_gen.
Print Assumptions cli_stdin_kind_irrelevant.
Print Assumptions cli_named_file_vs_stdin.
Print Assumptions cli_named_file_vs_stdin_argv.
Print Assumptions cli_named_file_vs_stdin_bare.
Print Assumptions cli_run_named_file_vs_stdin.
Print Assumptions cli_sfx_scan_irrelevant.
Print Assumptions cli_sfx_scan_stdin.
Print Assumptions cli_sfx_prefix_irrelevant.
Print Assumptions cli_sfx_decoy_irrelevant.
Print Assumptions cli_sfx_prefix_stdin.
Print Assumptions cli_sfx_decoy_stdin.

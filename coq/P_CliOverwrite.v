(* P_CliOverwrite.v -- C06, the overwrite half: extract_archived_file for a
   regular member at whose place a regular file (or a symbolic link) already
   exists.

   The decision (src/extract.c: file_exists, confirm_file_overwrite):
     policy ALL  (options f, q, q0..q9; or an earlier answer 'a')  -> replace
     policy SKIP (an earlier answer 's')                            -> keep, print "<name> : Skipped..."
     policy PROMPT: "<name> OverWrite ?(Yes/[No]/All/Skip) " on stderr, one line read from
       standard input, its first byte decides (case-insensitive):
       y -> replace;  a -> replace, policy := ALL;
       n or an empty line -> keep (nothing printed);  s -> keep, policy := SKIP, skip line printed;
       anything else -> asked again;  end of input -> exit(-1), nothing touched.
   Replace = the old entry is unlinked and a new file is created: archived
   contents, recorded mode and time.  Keep = the filesystem is not touched at
   all (same contents, mode, time, owner).  *)
From Lhasa Require Import Base ListN DecBase Loop Generated Crc16 InputStream Header BasicReader
  AnyDecoder Decoder MacBinary Fs FsRun Reader Glob ListOut CliFilter CliExtract
  P_ReaderCheck P_FsExtract P_ReaderExtract P_CliExtract P_FsReplace.
From Coq Require Import ZifyBool ZifyN ZifyNat.
Local Open Scope N_scope.

Set Default Timeout 60.

Section Overwrite.
  Variable junk : N.

  (* the first half of extract_archived_file: skip this member? *)
  Definition eaf_decide (h : header) (st : cli_state) : outcome (res bool * cli_state) :=
    let filename := file_full_path h (cs_opts st) in
    let is_symlink := match h_symlink_target h with Some _ => true | None => false end in
    let is_dir := is_dir_type h && negb is_symlink in
    if negb is_dir && negb is_symlink then
      LET ex, sta <== file_exists filename st ;;
      if ex then LET yes, stb <== confirm_file_overwrite filename sta ;; Ok (RVal (negb yes), stb)
      else Ok (RVal false, sta)
    else Ok (RVal false, st).

  (* the second half *)
  Definition eaf_tail (h : header) (filename : list N) (st1 : cli_state) : outcome (res bool * cli_state) :=
    let is_symlink := match h_symlink_target h with Some _ => true | None => false end in
    let is_dir := is_dir_type h && negb is_symlink in
    let o := cs_opts st1 in
    if negb (o_use_path o) && is_dir then Ok (RVal true, st1) else
    let '(ok, st2) := make_parent_directories filename st1 in
    if negb ok then Ok (RVal false, st2) else
    '(success, evs, r', f') <- lha_reader_extract junk (cs_reader st2) (cs_fs st2) (Some filename) true ;;
    let st3 := put_out (set_fs (set_reader st2 r') f') (progress_output o filename s_melting evs) in
    let st4 :=
      if negb (lha_reader_current_is_fake r') && (o_quiet o <? 2) then
        if invoked evs then put_out st3 (print_filename filename (if success then s_melted else s_failure) ++ [10])
        else match h_symlink_target h with
             | Some t => put_out st3 (print_symlink_line filename t)
             | None => st3
             end
      else st3 in
    Ok (RVal success, st4).

  Lemma eaf_eq h st : extract_archived_file junk h st =
    cbind (eaf_decide h st) (fun skip st1 =>
      let filename := file_full_path h (cs_opts st) in
      if skip then
        Ok (RVal true, if is_skip (o_overwrite_policy (cs_opts st1))
                       then put_out st1 (safe_printf (filename ++ s_skipped) ++ [10]) else st1)
      else eaf_tail h filename st1).
  Proof. reflexivity. Qed.

  (* ---- the tail for a regular member, given what lha_arch_fopen + writes + utime do at its place ---- *)
  Definition place_ok (s : fs) (p : list N) (loc parent : phys) (perms : option N) (ts : N)
             (o : bool) (pm : N) (ents' : list (name * node)) (c : name) (m : N) : Prop :=
    forall chunks, exists s1 s3,
      arch_fopen s p perms = (Some loc, s1) /\
      fs_utime (write_chunks loc chunks s1) p ts = (true, s3) /\
      same_env s s3 /\
      fs_root s3 = update_at (fs_root s) parent (const_some (Dir o pm now (ents' ++ [(c, File true m ts (concat chunks))]))) /\
      same_env s (write_chunks loc chunks s1) /\
      fs_root (write_chunks loc chunks s1) =
        update_at (fs_root s) parent (const_some (Dir o pm now (ents' ++ [(c, File true m now (concat chunks))]))).

  Lemma eaf_tail_file h st dl c o pm t ents ents' bs r2 :
    let s := cs_fs st in
    o_use_path (cs_opts st) = true -> dir_ready s dl o pm t ents -> good_name c -> nlen (dirstr dl ++ c) <= 4095 ->
    is_dir_method h = false -> h_symlink_target h = None -> (h_os_type h =? OS_TYPE_MACOS) = false ->
    rd_type (cs_reader st) = CT_NORMAL -> rd_curr (cs_reader st) = Some h ->
    member_ok junk (cs_reader st) h bs r2 ->
    place_ok s (dirstr dl ++ c) ((fs_cwd s ++ dl) ++ [c]) (fs_cwd s ++ dl) (ex_perms h) (h_timestamp h) o pm ents' c (file_mode s h) ->
    exists st', eaf_tail h (dirstr dl ++ c) st = Ok (RVal true, st') /\
      cs_reader st' = r2 /\ cs_opts st' = cs_opts st /\ same_env s (cs_fs st') /\
      fs_root (cs_fs st') = update_at (fs_root s) (fs_cwd s ++ dl)
        (const_some (Dir o pm now (ents' ++ [(c, File true (file_mode s h) (h_timestamp h) bs)]))).
  Proof.
    intros s Hu Hready Hc Hlen Hdm Hsl Hos Hty Hcur Hmem Hplace.
    pose proof Hready as (Hg & Hch & Hn & Hw).
    destruct (Hplace []) as (s1 & _ & Hop & _).
    destruct (extract_file_total junk (cs_reader st) s (dirstr dl ++ c) h bs r2 _ s1 Hcur Hos Hmem Hop)
      as (ev & chunks & Hbs & Hex).
    destruct (Hplace chunks) as (s1' & s3 & Hop' & Hut & Henv & Hroot & Henv2 & Hroot2).
    rewrite Hop in Hop'. inversion Hop'; subst s1'. clear Hop'.
    unfold eaf_tail. rewrite Hsl, Hu.
    change (is_dir_type h) with (is_dir_method h). rewrite Hdm. cbn [andb negb].
    rewrite (mpd_file dl c st Hg Hc).
    2:{ eapply parents_exist; [exact Hready|]. rewrite nlen_app in Hlen. eapply N.le_trans; [apply N.le_add_r|exact Hlen]. }
    cbn [negb].
    fold s. rewrite (reader_extract_regular junk (cs_reader st) s (Some (dirstr dl ++ c)) true h Hty Hcur Hdm).
    rewrite Hex. cbn [bind].
    assert (Hfinal : exists s4, snd (set_timestamps_from_header (write_chunks ((fs_cwd s ++ dl) ++ [c]) chunks s1) (dirstr dl ++ c) h) = s4 /\
                     same_env s s4 /\
                     fs_root s4 = update_at (fs_root s) (fs_cwd s ++ dl)
                       (const_some (Dir o pm now (ents' ++ [(c, File true (file_mode s h) (h_timestamp h) bs)])))).
    { unfold set_timestamps_from_header. destruct (h_timestamp h =? 0) eqn:Et; cbn [negb].
      - apply N.eqb_eq in Et. eexists. split; [reflexivity|]. split; [exact Henv2|]. cbn [snd]. rewrite Hroot2, Et, Hbs. reflexivity.
      - rewrite Hut. eexists. split; [reflexivity|]. split; [exact Henv|]. cbn [snd]. rewrite Hroot, Hbs. reflexivity. }
    destruct Hfinal as (s4 & Hs4 & Henv4 & Hroot4). rewrite Hs4.
    destruct (negb (lha_reader_current_is_fake r2) && (o_quiet (cs_opts st) <? 2)); [destruct (invoked ev)|];
      (eexists; split; [reflexivity|]; cbn [cs_reader cs_opts cs_fs put_out set_fs set_reader]; auto).
  Qed.

  (* ---- the decision ---- *)
  Definition regular (h : header) : Prop := is_dir_method h = false /\ h_symlink_target h = None.

  Lemma decide_regular h st : regular h ->
    eaf_decide h st =
    (LET ex, sta <== file_exists (file_full_path h (cs_opts st)) st ;;
     if ex then LET yes, stb <== confirm_file_overwrite (file_full_path h (cs_opts st)) sta ;; Ok (RVal (negb yes), stb)
     else Ok (RVal false, sta)).
  Proof.
    intros (Hdm & Hsl). unfold eaf_decide. rewrite Hsl. change (is_dir_type h) with (is_dir_method h). rewrite Hdm.
    reflexivity.
  Qed.

  Lemma file_exists_file fn st : arch_exists (cs_fs st) fn = FT_FILE -> file_exists fn st = Ok (RVal true, st).
  Proof. intros H. unfold file_exists. rewrite H. reflexivity. Qed.

  (* what the prompt leaves behind: the two messages on stderr, one line consumed *)
  Definition prompted (fn : list N) (st : cli_state) (rest : list N) : cli_state :=
    set_stdin (put_err (put_err st (safe_printf (fn ++ [32]))) s_overwrite_prompt) rest.

  Lemma prompted_fs fn st rest : cs_fs (prompted fn st rest) = cs_fs st.
  Proof. reflexivity. Qed.
  Lemma prompted_reader fn st rest : cs_reader (prompted fn st rest) = cs_reader st.
  Proof. reflexivity. Qed.
  Lemma prompted_opts fn st rest : cs_opts (prompted fn st rest) = cs_opts st.
  Proof. reflexivity. Qed.
  Lemma prompted_out fn st rest : cs_out (prompted fn st rest) = cs_out st.
  Proof. reflexivity. Qed.

  Inductive answer := AYes | ANo | AAll | ASkip | AOther.
  Definition classify (c : N) : answer :=
    let c := tolower c in
    if c =? 121 then AYes else if (c =? 110) || (c =? 10) then ANo else if c =? 97 then AAll
    else if c =? 115 then ASkip else AOther.

  Lemma confirm_step_read fn st c rest : cs_stdin_shared st = false ->
    prompt_read (cs_stdin st) 0 = Some (c, rest) ->
    confirm_step fn st =
    match classify c with
    | AYes => Ok (inr (RVal true, prompted fn st rest))
    | ANo => Ok (inr (RVal false, prompted fn st rest))
    | AAll => Ok (inr (RVal true, set_opts (prompted fn st rest) (set_overwrite (cs_opts st) LHA_OVERWRITE_ALL)))
    | ASkip => Ok (inr (RVal false, set_opts (prompted fn st rest) (set_overwrite (cs_opts st) LHA_OVERWRITE_SKIP)))
    | AOther => Ok (inl (prompted fn st rest))
    end.
  Proof.
    intros Hsh Hrd. unfold confirm_step, prompt_user, stdin_data, set_stdin_data.
    cbn [put_err cs_stdin_shared cs_stdin]. rewrite Hsh, Hrd. cbn [bind]. unfold classify.
    destruct (tolower c =? 121); [reflexivity|].
    destruct ((tolower c =? 110) || (tolower c =? 10)); [reflexivity|].
    destruct (tolower c =? 97); [reflexivity|].
    destruct (tolower c =? 115); reflexivity.
  Qed.

  Lemma confirm_step_eof fn st : cs_stdin_shared st = false -> prompt_read (cs_stdin st) 0 = None ->
    confirm_step fn st = Ok (inr (RExit exit_minus_1, prompted fn st [])).
  Proof.
    intros Hsh Hrd. unfold confirm_step, prompt_user, stdin_data, set_stdin_data.
    cbn [put_err cs_stdin_shared cs_stdin]. rewrite Hsh, Hrd. reflexivity.
  Qed.

  (* the prompt loop: k undecided lines, then a decisive one (or the end of input) *)
  Inductive prompt_run (fn : list N) : cli_state -> nat -> res bool * cli_state -> Prop :=
  | pr_done st x : confirm_step fn st = Ok (inr x) -> prompt_run fn st O x
  | pr_again st st1 k x : confirm_step fn st = Ok (inl st1) -> prompt_run fn st1 k x -> prompt_run fn st (S k) x.

  Lemma prompt_run_loops fn st k x : prompt_run fn st k x -> loops (confirm_step fn) k st x.
  Proof. induction 1; [constructor; assumption|econstructor; eauto]. Qed.

  Lemma confirm_prompt fn st k x : o_overwrite_policy (cs_opts st) = LHA_OVERWRITE_PROMPT ->
    prompt_run fn st k x -> N.of_nat k < 2 ^ 40 -> confirm_file_overwrite fn st = Ok x.
  Proof.
    intros Hp Hr Hk. unfold confirm_file_overwrite. rewrite Hp.
    eapply loop_complete_N; [apply prompt_run_loops; exact Hr|exact Hk].
  Qed.

  (* [asked fn st k st']: k lines that decide nothing have been consumed *)
  Inductive asked (fn : list N) : cli_state -> nat -> cli_state -> Prop :=
  | asked_0 st : asked fn st O st
  | asked_S st c rest k st' : prompt_read (cs_stdin st) 0 = Some (c, rest) -> classify c = AOther ->
      asked fn (prompted fn st rest) k st' -> asked fn st (S k) st'.

  Lemma asked_keeps fn st k st' : asked fn st k st' ->
    cs_fs st' = cs_fs st /\ cs_reader st' = cs_reader st /\ cs_opts st' = cs_opts st /\ cs_out st' = cs_out st /\
    cs_stdin_shared st' = cs_stdin_shared st.
  Proof. induction 1 as [st|st c rest k st' Hrd Hcl _ IH]; [auto|]. destruct IH as (A & B & C & D & E). auto. Qed.

  Lemma asked_run fn st k st' x : cs_stdin_shared st = false -> asked fn st k st' ->
    confirm_step fn st' = Ok (inr x) -> prompt_run fn st k x.
  Proof.
    intros Hsh Ha. induction Ha as [st|st c rest k st' Hrd Hcl _ IH]; intros Hx; [constructor; exact Hx|].
    eapply pr_again; [rewrite (confirm_step_read fn st c rest Hsh Hrd), Hcl; reflexivity|].
    apply IH; [exact Hsh|exact Hx].
  Qed.

  (* ---- B, overwrite half ---- *)
  Section Place.
    Variables (h : header) (st : cli_state) (dl : list name) (c : name) (o : bool) (pm t : N)
              (ents : list (name * node)) (victim : node).
    Let s := cs_fs st.
    Hypothesis Hopts : plain_opts (cs_opts st).
    Hypothesis Hready : dir_ready s dl o pm t ents.
    Hypothesis Hc : good_name c.
    Hypothesis Hlen : nlen (dirstr dl ++ c) <= 4095.
    Hypothesis Hfh : file_hdr dl c h.
    (* a regular file is there *)
    Hypothesis Hvic : lookup ents c = Some victim.
    Hypothesis Hfile : exists fo fp ft fd, victim = File fo fp ft fd.

    Lemma ow_fn : file_full_path h (cs_opts st) = dirstr dl ++ c.
    Proof.
      destruct Hfh as (Hp & Hf & _). destruct Hready as (Hg & _).
      rewrite (full_path_eq h _ dl Hopts Hg Hp), Hf, (skip_slashes_name c Hc). reflexivity.
    Qed.

    Lemma ow_at : at_path s (dirstr dl ++ c) dl c.
    Proof. eapply at_path_in_dir; eauto. Qed.

    Lemma ow_exists : file_exists (dirstr dl ++ c) st = Ok (RVal true, st).
    Proof.
      apply file_exists_file. destruct Hfile as (fo & fp & ft & fd & Ev). destruct Hready as (_ & _ & Hn & _).
      eapply (exists_file s _ dl c ow_at); [apply trailing_slash_file; exact Hc|].
      rewrite (child_lookup _ _ _ _ _ _ c Hn), Hvic, Ev. reflexivity.
    Qed.

    Lemma ow_regular : regular h.
    Proof. destruct Hfh as (_ & _ & A & B & _). split; assumption. Qed.

    (* the member is skipped: nothing at all happens to the filesystem or the reader *)
    Theorem overwrite_kept_by x st1 :
      confirm_file_overwrite (dirstr dl ++ c) st = Ok (RVal false, st1) ->
      x = (if is_skip (o_overwrite_policy (cs_opts st1))
           then put_out st1 (safe_printf ((dirstr dl ++ c) ++ s_skipped) ++ [10]) else st1) ->
      extract_archived_file junk h st = Ok (RVal true, x).
    Proof.
      intros Hcf ->. rewrite eaf_eq, (decide_regular h st ow_regular), ow_fn, ow_exists. cbn [cbind].
      rewrite Hcf. reflexivity.
    Qed.

    (* the member is extracted over the old file *)
    Theorem overwrite_replaced_by st1 bs r2 :
      confirm_file_overwrite (dirstr dl ++ c) st = Ok (RVal true, st1) ->
      cs_fs st1 = s -> cs_reader st1 = cs_reader st -> o_use_path (cs_opts st1) = true ->
      can_delete (fs_uid0 s) (Dir o pm t ents) victim = true -> nodup_names ents ->
      rd_type (cs_reader st) = CT_NORMAL -> rd_curr (cs_reader st) = Some h ->
      member_ok junk (cs_reader st) h bs r2 ->
      (fs_uid0 s = true \/ drop_setid (file_mode s h) = file_mode s h) ->
      exists st', extract_archived_file junk h st = Ok (RVal true, st') /\
        cs_reader st' = r2 /\ cs_opts st' = cs_opts st1 /\ same_env s (cs_fs st') /\
        fs_root (cs_fs st') = update_at (fs_root s) (fs_cwd s ++ dl)
          (const_some (Dir o pm now (remove_ent ents c ++ [(c, File true (file_mode s h) (h_timestamp h) bs)]))).
    Proof.
      intros Hcf Hfs1 Hrd1 Hu1 Hdel Hnodup Hty Hcur Hmem Hmode.
      rewrite eaf_eq, (decide_regular h st ow_regular), ow_fn, ow_exists. cbn [cbind].
      rewrite Hcf. cbn [cbind negb].
      destruct Hfh as (Hp & Hf & Hdm & Hsl & Hos). pose proof Hready as (Hg & Hch & Hn & Hw).
      destruct (eaf_tail_file h st1 dl c o pm t ents (remove_ent ents c) bs r2) as (st' & Htl & A & B & C & D).
      all: try rewrite Hfs1; try rewrite Hrd1; auto.
      - intros chunks. destruct Hfile as (fo & fp & ft & fd & Ev).
        eapply (fs_file_replaced s _ dl c ow_at victim (ex_perms h) chunks (h_timestamp h) o pm t ents); auto.
        + apply trailing_slash_file. exact Hc.
        + fold s. rewrite (child_lookup _ _ _ _ _ _ c Hn). exact Hvic.
        + rewrite Ev. discriminate.
      - exists st'. rewrite Hfs1 in *. auto.
    Qed.
  End Place.
End Overwrite.

(* ------------------------------------------------------------------ *)
(* the policies *)
Section Policies.
  Variable junk : N.

  Lemma confirm_all fn st : o_overwrite_policy (cs_opts st) = LHA_OVERWRITE_ALL ->
    confirm_file_overwrite fn st = Ok (RVal true, st).
  Proof. intros H. unfold confirm_file_overwrite. rewrite H. reflexivity. Qed.

  Lemma confirm_skip fn st : o_overwrite_policy (cs_opts st) = LHA_OVERWRITE_SKIP ->
    confirm_file_overwrite fn st = Ok (RVal false, st).
  Proof. intros H. unfold confirm_file_overwrite. rewrite H. reflexivity. Qed.

  (* the answer that decides, after k lines that do not *)
  Definition decided (a : answer) (fn : list N) (st' : cli_state) (rest : list N) : res bool * cli_state :=
    match a with
    | AYes => (RVal true, prompted fn st' rest)
    | ANo | AOther => (RVal false, prompted fn st' rest)
    | AAll => (RVal true, set_opts (prompted fn st' rest) (set_overwrite (cs_opts st') LHA_OVERWRITE_ALL))
    | ASkip => (RVal false, set_opts (prompted fn st' rest) (set_overwrite (cs_opts st') LHA_OVERWRITE_SKIP))
    end.

  Lemma confirm_answer fn st k st' c rest :
    o_overwrite_policy (cs_opts st) = LHA_OVERWRITE_PROMPT -> cs_stdin_shared st = false ->
    asked fn st k st' -> prompt_read (cs_stdin st') 0 = Some (c, rest) -> classify c <> AOther ->
    N.of_nat k < 2 ^ 40 ->
    confirm_file_overwrite fn st = Ok (decided (classify c) fn st' rest).
  Proof.
    intros Hp Hsh Ha Hrd Hcl Hk. eapply confirm_prompt; [exact Hp| |exact Hk].
    eapply asked_run; [exact Hsh|exact Ha|].
    destruct (asked_keeps fn st k st' Ha) as (_ & _ & _ & _ & Hsh'). rewrite Hsh in Hsh'.
    rewrite (confirm_step_read fn st' c rest Hsh' Hrd).
    destruct (classify c); try reflexivity. contradiction Hcl. reflexivity.
  Qed.

  Lemma confirm_eof fn st k st' :
    o_overwrite_policy (cs_opts st) = LHA_OVERWRITE_PROMPT -> cs_stdin_shared st = false ->
    asked fn st k st' -> prompt_read (cs_stdin st') 0 = None -> N.of_nat k < 2 ^ 40 ->
    confirm_file_overwrite fn st = Ok (RExit exit_minus_1, prompted fn st' []).
  Proof.
    intros Hp Hsh Ha Hrd Hk. eapply confirm_prompt; [exact Hp| |exact Hk].
    eapply asked_run; [exact Hsh|exact Ha|].
    destruct (asked_keeps fn st k st' Ha) as (_ & _ & _ & _ & Hsh'). rewrite Hsh in Hsh'.
    apply confirm_step_eof; assumption.
  Qed.

  Section AtPlace.
    Variables (h : header) (st : cli_state) (dl : list name) (c : name) (o : bool) (pm t : N)
              (ents : list (name * node)) (victim : node).
    Let s := cs_fs st.
    Let fn := dirstr dl ++ c.
    Hypothesis Hopts : plain_opts (cs_opts st).
    Hypothesis Hready : dir_ready s dl o pm t ents.
    Hypothesis Hc : good_name c.
    Hypothesis Hlen : nlen (dirstr dl ++ c) <= 4095.
    Hypothesis Hfh : file_hdr dl c h.
    Hypothesis Hvic : lookup ents c = Some victim.
    Hypothesis Hfile : exists fo fp ft fd, victim = File fo fp ft fd.

    (* what "replaced" means *)
    Definition replaced (bs : list N) (r2 : reader) (st' : cli_state) : Prop :=
      cs_reader st' = r2 /\ same_env s (cs_fs st') /\
      fs_root (cs_fs st') = update_at (fs_root s) (fs_cwd s ++ dl)
        (const_some (Dir o pm now (remove_ent ents c ++ [(c, File true (file_mode s h) (h_timestamp h) bs)]))).

    (* hypotheses needed only when the member is extracted *)
    Definition can_replace (bs : list N) (r2 : reader) : Prop :=
      can_delete (fs_uid0 s) (Dir o pm t ents) victim = true /\ nodup_names ents /\
      rd_type (cs_reader st) = CT_NORMAL /\ rd_curr (cs_reader st) = Some h /\
      member_ok junk (cs_reader st) h bs r2 /\
      (fs_uid0 s = true \/ drop_setid (file_mode s h) = file_mode s h).

    (* option f, option q (any level), or an earlier answer "all" *)
    Theorem overwrite_all bs r2 : o_overwrite_policy (cs_opts st) = LHA_OVERWRITE_ALL -> can_replace bs r2 ->
      exists st', extract_archived_file junk h st = Ok (RVal true, st') /\ replaced bs r2 st' /\ cs_opts st' = cs_opts st.
    Proof.
      intros Hp (A & B & C & D & E & F).
      destruct (overwrite_replaced_by junk h st dl c o pm t ents victim Hopts Hready Hc Hlen Hfh Hvic Hfile st bs r2)
        as (st' & Hex & R1 & R2 & R3 & R4); auto.
      - apply confirm_all. exact Hp.
      - apply Hopts.
      - exists st'. split; [exact Hex|]. split; [exact (conj R1 (conj R3 R4))|exact R2].
    Qed.

    (* an earlier answer "skip": kept, and the skip line is printed *)
    Theorem overwrite_skip : o_overwrite_policy (cs_opts st) = LHA_OVERWRITE_SKIP ->
      extract_archived_file junk h st = Ok (RVal true, put_out st (safe_printf (fn ++ s_skipped) ++ [10])).
    Proof.
      intros Hp. eapply (overwrite_kept_by junk h st dl c o pm t ents victim Hopts Hready Hc Hlen Hfh Hvic Hfile _ st).
      - apply confirm_skip. exact Hp.
      - rewrite Hp. reflexivity.
    Qed.

    (* the prompt *)
    Section Prompt.
      Variables (k : nat) (stq : cli_state).
      Hypothesis Hp : o_overwrite_policy (cs_opts st) = LHA_OVERWRITE_PROMPT.
      Hypothesis Hsh : cs_stdin_shared st = false.
      Hypothesis Hask : asked fn st k stq.
      Hypothesis Hk : N.of_nat k < 2 ^ 40.

      Theorem overwrite_answer_yes ch rest bs r2 :
        prompt_read (cs_stdin stq) 0 = Some (ch, rest) -> classify ch = AYes -> can_replace bs r2 ->
        exists st', extract_archived_file junk h st = Ok (RVal true, st') /\ replaced bs r2 st' /\ cs_opts st' = cs_opts st.
      Proof.
        intros Hrd Hcl (A & B & C & D & E & F).
        destruct (asked_keeps fn st k stq Hask) as (K1 & K2 & K3 & K4 & K5).
        destruct (overwrite_replaced_by junk h st dl c o pm t ents victim Hopts Hready Hc Hlen Hfh Hvic Hfile
                    (prompted fn stq rest) bs r2) as (st' & Hex & R1 & R2 & R3 & R4); auto.
        - fold fn. rewrite (confirm_answer fn st k stq ch rest Hp Hsh Hask Hrd) by (try rewrite Hcl; try discriminate; assumption).
          rewrite Hcl. reflexivity.
        - rewrite prompted_opts, K3. apply Hopts.
        - exists st'. split; [exact Hex|]. split; [exact (conj R1 (conj R3 R4))|]. rewrite R2, prompted_opts. exact K3.
      Qed.

      Theorem overwrite_answer_all ch rest bs r2 :
        prompt_read (cs_stdin stq) 0 = Some (ch, rest) -> classify ch = AAll -> can_replace bs r2 ->
        exists st', extract_archived_file junk h st = Ok (RVal true, st') /\ replaced bs r2 st' /\
          cs_opts st' = set_overwrite (cs_opts st) LHA_OVERWRITE_ALL.
      Proof.
        intros Hrd Hcl (A & B & C & D & E & F).
        destruct (asked_keeps fn st k stq Hask) as (K1 & K2 & K3 & K4 & K5).
        destruct (overwrite_replaced_by junk h st dl c o pm t ents victim Hopts Hready Hc Hlen Hfh Hvic Hfile
                    (set_opts (prompted fn stq rest) (set_overwrite (cs_opts stq) LHA_OVERWRITE_ALL)) bs r2)
          as (st' & Hex & R1 & R2 & R3 & R4); auto.
        - fold fn. rewrite (confirm_answer fn st k stq ch rest Hp Hsh Hask Hrd) by (try rewrite Hcl; try discriminate; assumption).
          rewrite Hcl. reflexivity.
        - cbn [cs_opts set_opts set_overwrite o_use_path]. rewrite K3. apply Hopts.
        - exists st'. split; [exact Hex|]. split; [exact (conj R1 (conj R3 R4))|]. rewrite R2. cbn [cs_opts set_opts]. rewrite K3. reflexivity.
      Qed.

      (* n, N or an empty line: kept, nothing printed on standard output *)
      Theorem overwrite_answer_no ch rest :
        prompt_read (cs_stdin stq) 0 = Some (ch, rest) -> classify ch = ANo ->
        extract_archived_file junk h st = Ok (RVal true, prompted fn stq rest) /\
        cs_fs (prompted fn stq rest) = s /\ cs_out (prompted fn stq rest) = cs_out st.
      Proof.
        intros Hrd Hcl. destruct (asked_keeps fn st k stq Hask) as (K1 & K2 & K3 & K4 & K5).
        split; [|split; [exact K1|exact K4]].
        eapply (overwrite_kept_by junk h st dl c o pm t ents victim Hopts Hready Hc Hlen Hfh Hvic Hfile _ (prompted fn stq rest)).
        - fold fn. rewrite (confirm_answer fn st k stq ch rest Hp Hsh Hask Hrd) by (try rewrite Hcl; try discriminate; assumption).
          rewrite Hcl. reflexivity.
        - rewrite prompted_opts, K3, Hp. reflexivity.
      Qed.

      (* s or S: kept, the policy becomes "skip", the skip line is printed *)
      Theorem overwrite_answer_skip ch rest :
        prompt_read (cs_stdin stq) 0 = Some (ch, rest) -> classify ch = ASkip ->
        let st1 := set_opts (prompted fn stq rest) (set_overwrite (cs_opts stq) LHA_OVERWRITE_SKIP) in
        extract_archived_file junk h st = Ok (RVal true, put_out st1 (safe_printf (fn ++ s_skipped) ++ [10])) /\
        cs_fs st1 = s.
      Proof.
        intros Hrd Hcl st1. destruct (asked_keeps fn st k stq Hask) as (K1 & K2 & K3 & K4 & K5).
        split; [|exact K1].
        eapply (overwrite_kept_by junk h st dl c o pm t ents victim Hopts Hready Hc Hlen Hfh Hvic Hfile _ st1).
        - fold fn. rewrite (confirm_answer fn st k stq ch rest Hp Hsh Hask Hrd) by (try rewrite Hcl; try discriminate; assumption).
          rewrite Hcl. reflexivity.
        - reflexivity.
      Qed.

      (* end of input at the prompt: exit(-1); the file is as it was *)
      Theorem overwrite_answer_eof :
        prompt_read (cs_stdin stq) 0 = None ->
        extract_archived_file junk h st = Ok (RExit exit_minus_1, prompted fn stq []) /\ cs_fs (prompted fn stq []) = s.
      Proof.
        intros Hrd. destruct (asked_keeps fn st k stq Hask) as (K1 & K2 & K3 & K4 & K5). split; [|exact K1].
        assert (Hreg : regular h) by (destruct Hfh as (_ & _ & A & B & _); split; assumption).
        assert (Hfn : file_full_path h (cs_opts st) = fn) by (eapply ow_fn; eauto).
        assert (Hexi : file_exists fn st = Ok (RVal true, st)) by (eapply ow_exists; eauto).
        rewrite eaf_eq, (decide_regular h st Hreg), Hfn, Hexi.
        cbn [cbind]. rewrite (confirm_eof fn st k stq Hp Hsh Hask Hrd Hk). reflexivity.
      Qed.
    End Prompt.
  End AtPlace.

  (* what the letters are *)
  Example classify_letters :
    classify 121 = AYes /\ classify 89 = AYes /\ classify 110 = ANo /\ classify 78 = ANo /\ classify 10 = ANo /\
    classify 97 = AAll /\ classify 65 = AAll /\ classify 115 = ASkip /\ classify 83 = ASkip /\ classify 120 = AOther.
  Proof. repeat split. Qed.

  (* f, q, q0, q1, q2 on the command line all mean: overwrite without asking *)
  Example options_force :
    forall cmd, In cmd [[120;102]; [120;113]; [120;113;48]; [120;113;49]; [120;113;50]; [101;102]] ->
    exists o, parse_command_line cmd = Some (MODE_EXTRACT, o) /\ o_overwrite_policy o = LHA_OVERWRITE_ALL.
  Proof.
    intros cmd H. repeat (destruct H as [<-|H]; [eexists; split; reflexivity|]). destruct H.
  Qed.
  Example options_default : exists o, parse_command_line [120] = Some (MODE_EXTRACT, o) /\
    o_overwrite_policy o = LHA_OVERWRITE_PROMPT.
  Proof. eexists. split; reflexivity. Qed.
End Policies.

Print Assumptions overwrite_all.
Print Assumptions overwrite_skip.
Print Assumptions overwrite_answer_yes.
Print Assumptions overwrite_answer_all.
Print Assumptions overwrite_answer_no.
Print Assumptions overwrite_answer_skip.
Print Assumptions overwrite_answer_eof.

(* LhNew.v -- model of lib/lh_new_decoder.c, the template behind
   lh5_decoder.c (-lh4-, -lh5-), lh6_decoder.c, lh7_decoder.c, lhx_decoder.c
   and lk7_decoder.c (LHARK variant, the code under #ifdef LHARK).

   One model, parameterised by the record [lhnew_params]; the six
   instantiations at the end take every value from Generated.v.

   Conventions (see docs/MODEL_GUIDE.md):
   - a C function that only touches the bit reader and one tree takes and
     returns exactly those parts ([bsr], the tree as [arr]) instead of the
     whole decoder struct; the functions that work on the struct
     (start_new_block, output_byte, copy_from_history, read) take and return
     [lhnew_state];
   - a C "int" result that is tested with "< 0" is [option N] (None = the
     negative value), a C "return 0 / return 1" success flag is [bool];
   - checked accesses use sites 700-799 (the tree code of Tree.v has its own
     sites 601-607);
   - the local arrays  uint8_t code_lengths[MAX_TEMP_CODES / NUM_CODES /
     MAX_OFFSET_CODES]  are not initialised by the C; they are created with
     contents 0 here, and every entry below n is written before build_tree
     reads it. *)
From Lhasa Require Import Base DecBase BitReader Loop Tree Generated.
Local Open Scope N_scope.

(* ------------------------------------------------------------------ *)
(* Per-variant parameters: the macros of the including file and of the
   template, the LHADecoderType entries, the extents of the struct arrays. *)

Record lhnew_params := {
  p_HISTORY_BITS : N;          (* HISTORY_BITS *)
  p_OFFSET_BITS : N;           (* OFFSET_BITS *)
  p_RING_BUFFER_SIZE : N;      (* RING_BUFFER_SIZE = 1 << HISTORY_BITS *)
  p_NUM_CODES : N;             (* NUM_CODES; also the extent of read_code_table's code_lengths[] *)
  p_TEMP_CODE_BITS : N;        (* TEMP_CODE_BITS *)
  p_MAX_TEMP_CODES : N;        (* MAX_TEMP_CODES; also the extent of read_temp_table's code_lengths[] *)
  p_MAX_OFFSET_CODES : N;      (* MAX_OFFSET_CODES; also the extent of read_offset_table's code_lengths[] *)
  p_COPY_THRESHOLD : N;        (* COPY_THRESHOLD *)
  p_max_read : N;              (* LHADecoderType.max_read = OUTPUT_BUFFER_SIZE: size of buf *)
  p_ringbuf_extent : N;        (* sizeof ringbuf *)
  p_temp_tree_extent : N;      (* elements of temp_tree[] *)
  p_code_tree_extent : N;      (* elements of code_tree[] *)
  p_offset_tree_extent : N;    (* elements of offset_tree[] *)
  p_leaf : N;                  (* TREE_NODE_LEAF for TreeElement = uint16_t *)
  p_lhark : bool               (* #ifdef LHARK *)
}.

(* typedef struct { BitStreamReader bit_stream_reader; uint8_t ringbuf[RING_BUFFER_SIZE];
     unsigned int ringbuf_pos; unsigned int block_remaining;
     TreeElement temp_tree[MAX_TEMP_CODES * 2]; TreeElement code_tree[NUM_CODES * 2];
     TreeElement offset_tree[MAX_OFFSET_CODES * 2]; } LHANewDecoder; *)
Record lhnew_state := {
  ln_bsr : bsr;
  ln_ring : arr;
  ln_pos : N;
  ln_block_remaining : N;
  ln_temp_tree : arr;
  ln_code_tree : arr;
  ln_offset_tree : arr
}.

Definition ln_set_bsr (s : lhnew_state) (r : bsr) : lhnew_state :=
  {| ln_bsr := r; ln_ring := ln_ring s; ln_pos := ln_pos s;
     ln_block_remaining := ln_block_remaining s; ln_temp_tree := ln_temp_tree s;
     ln_code_tree := ln_code_tree s; ln_offset_tree := ln_offset_tree s |}.
Definition ln_set_block_remaining (s : lhnew_state) (n : N) : lhnew_state :=
  {| ln_bsr := ln_bsr s; ln_ring := ln_ring s; ln_pos := ln_pos s;
     ln_block_remaining := n; ln_temp_tree := ln_temp_tree s;
     ln_code_tree := ln_code_tree s; ln_offset_tree := ln_offset_tree s |}.
Definition ln_set_temp_tree (s : lhnew_state) (t : arr) : lhnew_state :=
  {| ln_bsr := ln_bsr s; ln_ring := ln_ring s; ln_pos := ln_pos s;
     ln_block_remaining := ln_block_remaining s; ln_temp_tree := t;
     ln_code_tree := ln_code_tree s; ln_offset_tree := ln_offset_tree s |}.
Definition ln_set_code_tree (s : lhnew_state) (t : arr) : lhnew_state :=
  {| ln_bsr := ln_bsr s; ln_ring := ln_ring s; ln_pos := ln_pos s;
     ln_block_remaining := ln_block_remaining s; ln_temp_tree := ln_temp_tree s;
     ln_code_tree := t; ln_offset_tree := ln_offset_tree s |}.
Definition ln_set_offset_tree (s : lhnew_state) (t : arr) : lhnew_state :=
  {| ln_bsr := ln_bsr s; ln_ring := ln_ring s; ln_pos := ln_pos s;
     ln_block_remaining := ln_block_remaining s; ln_temp_tree := ln_temp_tree s;
     ln_code_tree := ln_code_tree s; ln_offset_tree := t |}.
Definition ln_set_ring (s : lhnew_state) (ring : arr) (pos : N) : lhnew_state :=
  {| ln_bsr := ln_bsr s; ln_ring := ring; ln_pos := pos;
     ln_block_remaining := ln_block_remaining s; ln_temp_tree := ln_temp_tree s;
     ln_code_tree := ln_code_tree s; ln_offset_tree := ln_offset_tree s |}.

Section LhNew.
  Context {cbs : Type}.
  Variable cb : callback cbs.
  Variable P : lhnew_params.

  Definition ln_leaf : N := p_leaf P.       (* TREE_NODE_LEAF *)
  Notation leaf := ln_leaf.

  (* x % RING_BUFFER_SIZE.  RING_BUFFER_SIZE = 1 << HISTORY_BITS is a power of
     two, so the remainder is the low HISTORY_BITS bits: N.land with
     RING_BUFFER_SIZE - 1 (N.land_ones), cheaper than N.modulo in the
     per-byte path. *)
  Definition ln_ring_mod (x : N) : N := N.land x (p_RING_BUFFER_SIZE P - 1).

  (* ---------------------------------------------------------------- *)
  (* init_ring_buffer + lha_lh_new_init:
       memset(decoder->ringbuf, ' ', RING_BUFFER_SIZE); decoder->ringbuf_pos = 0;
       decoder->block_remaining = 0;
       init_tree(decoder->code_tree, NUM_CODES * 2);
       init_tree(decoder->offset_tree, MAX_OFFSET_CODES * 2);
       init_tree(decoder->temp_tree, MAX_TEMP_CODES * 2);
     The memset writes RING_BUFFER_SIZE bytes into an array of
     p_ringbuf_extent bytes; init_tree's stores are checked (site 601). *)
  Definition lhnew_init : outcome lhnew_state :=
    if p_RING_BUFFER_SIZE P <=? p_ringbuf_extent P then
      ct <- init_tree leaf (mk_arr (p_code_tree_extent P) 0) (p_NUM_CODES P * 2) ;;
      ot <- init_tree leaf (mk_arr (p_offset_tree_extent P) 0) (p_MAX_OFFSET_CODES P * 2) ;;
      tmpt <- init_tree leaf (mk_arr (p_temp_tree_extent P) 0) (p_MAX_TEMP_CODES P * 2) ;;
      Ok {| ln_bsr := bsr_init;
            ln_ring := mk_arr (p_ringbuf_extent P) 32;
            ln_pos := 0;
            ln_block_remaining := 0;
            ln_temp_tree := tmpt; ln_code_tree := ct; ln_offset_tree := ot |}
    else Fault 701.

  (* ---------------------------------------------------------------- *)
  (* read_length_value:
       len = read_bits(3); if (len < 0) return -1;
       if (len == 7) { for (;;) { i = read_bit(); if (i < 0) return -1;
                                  else if (i == 0) break; ++len; } }
       return len;
     The for(;;) loop consumes one input bit per iteration; with fuel 2^30
     iterations "++len" cannot overflow the int. *)
  Definition ln_rlv_step (st : N * bsr * cbs)
    : outcome ((N * bsr * cbs) + (option N * bsr * cbs)) :=
    let '(len, r, c) := st in
    '(i, r', c') <- read_bit cb r c ;;
    match i with
    | None => Ok (inr (None, r', c'))
    | Some iv =>
      if iv =? 0 then Ok (inr (Some len, r', c'))
      else Ok (inl (len + 1, r', c'))
    end.

  Definition ln_read_length_value (r : bsr) (c : cbs) : outcome (option N * bsr * cbs) :=
    '(len, r1, c1) <- read_bits cb r c 3 ;;
    match len with
    | None => Ok (None, r1, c1)
    | Some l =>
      if l =? 7 then loop ln_rlv_step 30 (l, r1, c1)
      else Ok (Some l, r1, c1)
    end.

  (* ---------------------------------------------------------------- *)
  (* read_temp_table.  Result: (success flag, temp_tree, reader, callback). *)

  (* for (j = 0; j < len; ++j) { ++i; code_lengths[i] = 0; }   -- returns the new i *)
  Fixpoint ln_rtt_skip (k : nat) (cl : arr) (i : N) : outcome (arr * N) :=
    match k with
    | O => Ok (cl, i)
    | S k' =>
      cl' <- wr 712 cl (i + 1) 0 ;;
      ln_rtt_skip k' cl' (i + 1)
    end.

  (* for (i = 0; i < n; ++i) {
       len = read_length_value(decoder); if (len < 0) return 0;
       code_lengths[i] = len;                       -- store into uint8_t
       if (i == 2) { len = read_bits(2); if (len < 0) return 0;
                     for (j = 0; j < len; ++j) { ++i; code_lengths[i] = 0; } }
     }
     i grows by at least one per iteration and n <= MAX_TEMP_CODES, so
     MAX_TEMP_CODES iterations of fuel suffice.  None = "return 0". *)
  Fixpoint ln_rtt_loop (fuel : nat) (cl : arr) (i n : N) (r : bsr) (c : cbs)
    : outcome (option arr * bsr * cbs) :=
    if i <? n then
      match fuel with
      | O => OutOfFuel
      | S f =>
        '(len, r1, c1) <- ln_read_length_value r c ;;
        match len with
        | None => Ok (None, r1, c1)
        | Some l =>
          cl1 <- wr 711 cl i (u8 l) ;;
          if i =? 2 then
            '(len2, r2, c2) <- read_bits cb r1 c1 2 ;;
            match len2 with
            | None => Ok (None, r2, c2)
            | Some k =>
              '(cl2, i2) <- ln_rtt_skip (N.to_nat k) cl1 i ;;
              ln_rtt_loop f cl2 (i2 + 1) n r2 c2
            end
          else ln_rtt_loop f cl1 (i + 1) n r1 c1
        end
      end
    else Ok (Some cl, r, c).

  (* n = read_bits(TEMP_CODE_BITS); if (n < 0) return 0;
     if (n == 0) { code = read_bits(5); if (code < 0) return 0;
                   set_tree_single(decoder->temp_tree, code); return 1; }
     if (n > MAX_TEMP_CODES) n = MAX_TEMP_CODES;
     for (...) ...
     build_tree(decoder->temp_tree, MAX_TEMP_CODES * 2, code_lengths, n); return 1; *)
  Definition ln_read_temp_table (tmpt : arr) (r : bsr) (c : cbs)
    : outcome (bool * arr * bsr * cbs) :=
    '(n, r1, c1) <- read_bits cb r c (p_TEMP_CODE_BITS P) ;;
    match n with
    | None => Ok (false, tmpt, r1, c1)
    | Some nv =>
      if nv =? 0 then
        '(code, r2, c2) <- read_bits cb r1 c1 5 ;;
        match code with
        | None => Ok (false, tmpt, r2, c2)
        | Some cv =>
          tmpt' <- set_tree_single leaf tmpt cv ;;
          Ok (true, tmpt', r2, c2)
        end
      else
        let nv := if p_MAX_TEMP_CODES P <? nv then p_MAX_TEMP_CODES P else nv in
        '(cl, r2, c2) <- ln_rtt_loop (N.to_nat (p_MAX_TEMP_CODES P))
                                     (mk_arr (p_MAX_TEMP_CODES P) 0) 0 nv r1 c1 ;;
        match cl with
        | None => Ok (false, tmpt, r2, c2)
        | Some cl' =>
          tmpt' <- build_tree leaf tmpt (p_MAX_TEMP_CODES P * 2) cl' nv ;;
          Ok (true, tmpt', r2, c2)
        end
    end.

  (* ---------------------------------------------------------------- *)
  (* read_skip_count(decoder, skiprange):
       if (skiprange == 0) result = 1;
       else if (skiprange == 1) { result = read_bits(4); if (result < 0) return -1; result += 3; }
       else { result = read_bits(9); if (result < 0) return -1; result += 20; }
       return result; *)
  Definition ln_read_skip_count (r : bsr) (c : cbs) (skiprange : N)
    : outcome (option N * bsr * cbs) :=
    if skiprange =? 0 then Ok (Some 1, r, c)
    else if skiprange =? 1 then
      '(res, r1, c1) <- read_bits cb r c 4 ;;
      match res with
      | None => Ok (None, r1, c1)
      | Some v => Ok (Some (v + 3), r1, c1)
      end
    else
      '(res, r1, c1) <- read_bits cb r c 9 ;;
      match res with
      | None => Ok (None, r1, c1)
      | Some v => Ok (Some (v + 20), r1, c1)
      end.

  (* ---------------------------------------------------------------- *)
  (* read_code_table.  Result: (success flag, code_tree, reader, callback). *)

  (* for (j = 0; j < skip_count && i < n; ++j) { code_lengths[i] = 0; ++i; } *)
  Fixpoint ln_rct_skip (k : nat) (cl : arr) (i n : N) : outcome (arr * N) :=
    match k with
    | O => Ok (cl, i)
    | S k' =>
      if i <? n then
        cl' <- wr 721 cl i 0 ;;
        ln_rct_skip k' cl' (i + 1) n
      else Ok (cl, i)
    end.

  (* while (i < n) {
       code = read_from_tree(reader, decoder->temp_tree); if (code < 0) return 0;
       if (code <= 2) { skip_count = read_skip_count(decoder, code);
                        if (skip_count < 0) return 0;
                        for (j ...) ... }
       else { code_lengths[i] = code - 2; ++i; }       -- store into uint8_t
     }
     i grows by at least one per iteration (skip_count >= 1), n <= NUM_CODES. *)
  Definition ln_rct_step (tmpt : arr) (n : N) (st : arr * N * bsr * cbs)
    : outcome ((arr * N * bsr * cbs) + (option arr * bsr * cbs)) :=
    let '(cl, i, r, c) := st in
    if i <? n then
      '(code, r1, c1) <- read_from_tree leaf cb tmpt r c ;;
      match code with
      | None => Ok (inr (None, r1, c1))
      | Some cv =>
        if cv <=? 2 then
          '(sk, r2, c2) <- ln_read_skip_count r1 c1 cv ;;
          match sk with
          | None => Ok (inr (None, r2, c2))
          | Some k =>
            '(cl', i') <- ln_rct_skip (N.to_nat k) cl i n ;;
            Ok (inl (cl', i', r2, c2))
          end
        else
          cl' <- wr 722 cl i (u8 (cv - 2)) ;;
          Ok (inl (cl', i + 1, r1, c1))
      end
    else Ok (inr (Some cl, r, c)).

  (* n = read_bits(9); if (n < 0) return 0;
     if (n == 0) { code = read_bits(9); if (code < 0) return 0;
                   set_tree_single(decoder->code_tree, code); return 1; }
     if (n > NUM_CODES) n = NUM_CODES;
     i = 0; while (i < n) ...
     build_tree(decoder->code_tree, NUM_CODES * 2, code_lengths, n); return 1;
     At most NUM_CODES + 1 <= 1024 evaluations of the loop test. *)
  Definition ln_read_code_table (tmpt ct : arr) (r : bsr) (c : cbs)
    : outcome (bool * arr * bsr * cbs) :=
    '(n, r1, c1) <- read_bits cb r c 9 ;;
    match n with
    | None => Ok (false, ct, r1, c1)
    | Some nv =>
      if nv =? 0 then
        '(code, r2, c2) <- read_bits cb r1 c1 9 ;;
        match code with
        | None => Ok (false, ct, r2, c2)
        | Some cv =>
          ct' <- set_tree_single leaf ct cv ;;
          Ok (true, ct', r2, c2)
        end
      else
        let nv := if p_NUM_CODES P <? nv then p_NUM_CODES P else nv in
        '(cl, r2, c2) <- loop (ln_rct_step tmpt nv) 10 (mk_arr (p_NUM_CODES P) 0, 0, r1, c1) ;;
        match cl with
        | None => Ok (false, ct, r2, c2)
        | Some cl' =>
          ct' <- build_tree leaf ct (p_NUM_CODES P * 2) cl' nv ;;
          Ok (true, ct', r2, c2)
        end
    end.

  (* ---------------------------------------------------------------- *)
  (* read_offset_table.  Result: (success flag, offset_tree, reader, callback). *)

  (* for (i = 0; i < n; ++i) { len = read_length_value(decoder); if (len < 0) return 0;
                               code_lengths[i] = len; }     -- store into uint8_t
     [k] iterations left; n <= MAX_OFFSET_CODES <= 63. *)
  Fixpoint ln_rot_loop (k : nat) (cl : arr) (i : N) (r : bsr) (c : cbs)
    : outcome (option arr * bsr * cbs) :=
    match k with
    | O => Ok (Some cl, r, c)
    | S k' =>
      '(len, r1, c1) <- ln_read_length_value r c ;;
      match len with
      | None => Ok (None, r1, c1)
      | Some l =>
        cl' <- wr 731 cl i (u8 l) ;;
        ln_rot_loop k' cl' (i + 1) r1 c1
      end
    end.

  (* n = read_bits(OFFSET_BITS); if (n < 0) return 0;
     if (n == 0) { code = read_bits(OFFSET_BITS); if (code < 0) return 0;
                   set_tree_single(decoder->offset_tree, code); return 1; }
     if (n > MAX_OFFSET_CODES) n = MAX_OFFSET_CODES;
     for (...) ...
     build_tree(decoder->offset_tree, MAX_OFFSET_CODES * 2, code_lengths, n); return 1; *)
  Definition ln_read_offset_table (ot : arr) (r : bsr) (c : cbs)
    : outcome (bool * arr * bsr * cbs) :=
    '(n, r1, c1) <- read_bits cb r c (p_OFFSET_BITS P) ;;
    match n with
    | None => Ok (false, ot, r1, c1)
    | Some nv =>
      if nv =? 0 then
        '(code, r2, c2) <- read_bits cb r1 c1 (p_OFFSET_BITS P) ;;
        match code with
        | None => Ok (false, ot, r2, c2)
        | Some cv =>
          ot' <- set_tree_single leaf ot cv ;;
          Ok (true, ot', r2, c2)
        end
      else
        let nv := if p_MAX_OFFSET_CODES P <? nv then p_MAX_OFFSET_CODES P else nv in
        '(cl, r2, c2) <- ln_rot_loop (N.to_nat nv) (mk_arr (p_MAX_OFFSET_CODES P) 0) 0 r1 c1 ;;
        match cl with
        | None => Ok (false, ot, r2, c2)
        | Some cl' =>
          ot' <- build_tree leaf ot (p_MAX_OFFSET_CODES P * 2) cl' nv ;;
          Ok (true, ot', r2, c2)
        end
    end.

  (* ---------------------------------------------------------------- *)
  (* start_new_block:
       len = read_bits(16); if (len < 0) return 0;
       decoder->block_remaining = (size_t) len;
       if (!read_temp_table(decoder)) return 0;
       if (!read_code_table(decoder)) return 0;
       if (!read_offset_table(decoder)) return 0;
       return 1;
     block_remaining is already stored when a table fails to read. *)
  Definition ln_start_new_block (s : lhnew_state) (c : cbs)
    : outcome (bool * lhnew_state * cbs) :=
    '(len, r1, c1) <- read_bits cb (ln_bsr s) c 16 ;;
    match len with
    | None => Ok (false, ln_set_bsr s r1, c1)
    | Some l =>
      let s1 := ln_set_block_remaining (ln_set_bsr s r1) l in
      '(ok2, tmpt, r2, c2) <- ln_read_temp_table (ln_temp_tree s1) r1 c1 ;;
      let s2 := ln_set_temp_tree (ln_set_bsr s1 r2) tmpt in
      if negb ok2 then Ok (false, s2, c2) else
      '(ok3, ct, r3, c3) <- ln_read_code_table (ln_temp_tree s2) (ln_code_tree s2) r2 c2 ;;
      let s3 := ln_set_code_tree (ln_set_bsr s2 r3) ct in
      if negb ok3 then Ok (false, s3, c3) else
      '(ok4, ot, r4, c4) <- ln_read_offset_table (ln_offset_tree s3) r3 c3 ;;
      let s4 := ln_set_offset_tree (ln_set_bsr s3 r4) ot in
      if negb ok4 then Ok (false, s4, c4) else
      Ok (true, s4, c4)
    end.

  (* read_code: return read_from_tree(&decoder->bit_stream_reader, decoder->code_tree); *)
  Definition ln_read_code (ct : arr) (r : bsr) (c : cbs) : outcome (option N * bsr * cbs) :=
    read_from_tree leaf cb ct r c.

  (* ---------------------------------------------------------------- *)
  (* #ifdef LHARK
     lhark_read_offset_code(decoder, code):
       if (code < 4) return code;
       num_low_bits = (code - 2) / 2;
       low_bits = read_bits(num_low_bits); if (low_bits < 0) return -1;
       return ((2 + (code % 2)) << num_low_bits) + low_bits;
     The result is an int.  code comes from the offset tree (at most 63 for
     -lk7-), so num_low_bits <= 30; for code 62 and 63 the shift yields
     2^31 resp. 3 * 2^30, which does not fit an int: the value is reduced to
     32 bits and, having its top bit set, is negative -- the caller's
     "offset < 0" test takes it for a failure (None).
     A shift count above 31 would be undefined: Fault 741. *)
  Definition ln_lhark_read_offset_code (r : bsr) (c : cbs) (code : N)
    : outcome (option N * bsr * cbs) :=
    if code <? 4 then Ok (Some code, r, c)
    else
      let num_low_bits := (code - 2) / 2 in
      if 31 <? num_low_bits then Fault 741 else
      '(low_bits, r1, c1) <- read_bits cb r c num_low_bits ;;
      match low_bits with
      | None => Ok (None, r1, c1)
      | Some lb =>
        let v := u32 (N.shiftl (2 + code mod 2) num_low_bits + lb) in
        Ok (if v <? 2147483648 then Some v else None, r1, c1)
      end.

  (* read_offset_code:
       bits = read_from_tree(reader, decoder->offset_tree); if (bits < 0) return -1;
       if (bits == 0) return 0; else if (bits == 1) return 1;
     #ifdef LHARK
       else return lhark_read_offset_code(decoder, bits);
     #else
       else { result = read_bits(bits - 1); if (result < 0) return -1;
              return result + (1 << (bits - 1)); }
     #endif
     bits comes from the offset tree (at most 31 without LHARK), so
     bits - 1 <= 30 and the sum is below 2^31.  "1 << 31" and larger shift
     counts would be undefined: Fault 742. *)
  Definition ln_read_offset_code (ot : arr) (r : bsr) (c : cbs)
    : outcome (option N * bsr * cbs) :=
    '(bits, r1, c1) <- read_from_tree leaf cb ot r c ;;
    match bits with
    | None => Ok (None, r1, c1)
    | Some b =>
      if b =? 0 then Ok (Some 0, r1, c1)
      else if b =? 1 then Ok (Some 1, r1, c1)
      else if p_lhark P then ln_lhark_read_offset_code r1 c1 b
      else
        if 30 <? b - 1 then Fault 742 else
        '(res, r2, c2) <- read_bits cb r1 c1 (b - 1) ;;
        match res with
        | None => Ok (None, r2, c2)
        | Some v => Ok (Some (v + N.shiftl 1 (b - 1)), r2, c2)
        end
    end.

  (* ---------------------------------------------------------------- *)
  (* output_byte:
       buf[*buf_len] = b; ++*buf_len;
       decoder->ringbuf[decoder->ringbuf_pos] = b;
       decoder->ringbuf_pos = (decoder->ringbuf_pos + 1) % RING_BUFFER_SIZE; *)
  Definition ln_output_byte (s : lhnew_state) (o : obuf) (b : N) : outcome (lhnew_state * obuf) :=
    o' <- ob_push 751 (p_max_read P) o b ;;
    ring' <- wr 752 (ln_ring s) (ln_pos s) b ;;
    Ok (ln_set_ring s ring' (ln_ring_mod (ln_pos s + 1)), o').

  (* for (i = 0; i < count; ++i)
       output_byte(decoder, buf, buf_len, decoder->ringbuf[(start + i) % RING_BUFFER_SIZE]);
     start and i are unsigned int: start + i wraps at 2^32. *)
  Fixpoint ln_cfh_loop (k : nat) (s : lhnew_state) (o : obuf) (start i : N)
    : outcome (lhnew_state * obuf) :=
    match k with
    | O => Ok (s, o)
    | S k' =>
      b <- rd 753 (ln_ring s) (ln_ring_mod (u32 (start + i))) ;;
      '(s', o') <- ln_output_byte s o b ;;
      ln_cfh_loop k' s' o' start (i + 1)
    end.

  (* copy_from_history(decoder, buf, buf_len, count):
       offset = read_offset_code(decoder); if (offset < 0) return;
       start = decoder->ringbuf_pos + RING_BUFFER_SIZE - (unsigned int) offset - 1;
       for (...) ...
     unsigned int arithmetic: offset < 2^31 may exceed ringbuf_pos +
     RING_BUFFER_SIZE - 1, the difference then wraps modulo 2^32. *)
  Definition ln_copy_from_history (s : lhnew_state) (o : obuf) (c : cbs) (count : N)
    : outcome (lhnew_state * obuf * cbs) :=
    '(offset, r1, c1) <- ln_read_offset_code (ln_offset_tree s) (ln_bsr s) c ;;
    let s1 := ln_set_bsr s r1 in
    match offset with
    | None => Ok (s1, o, c1)
    | Some off =>
      let start := u32 (ln_pos s1 + p_RING_BUFFER_SIZE P + 4294967296 - off - 1) in
      '(s2, o') <- ln_cfh_loop (N.to_nat count) s1 o start 0 ;;
      Ok (s2, o', c1)
    end.

  (* #ifdef LHARK
     lhark_decode_copy_count(decoder, code):
       if (code < 264) return code - 256 + COPY_THRESHOLD;
       else if (code < 288) { num_low_bits = (code - 260) / 4;
                              low_bits = read_bits(num_low_bits); if (low_bits < 0) return -1;
                              return ((4 + (code % 4)) << num_low_bits) + low_bits + 3; }
       else return 514;
     Called with code >= 256 only. *)
  Definition ln_lhark_decode_copy_count (r : bsr) (c : cbs) (code : N)
    : outcome (option N * bsr * cbs) :=
    if code <? 264 then Ok (Some (code - 256 + p_COPY_THRESHOLD P), r, c)
    else if code <? 288 then
      let num_low_bits := (code - 260) / 4 in
      '(low_bits, r1, c1) <- read_bits cb r c num_low_bits ;;
      match low_bits with
      | None => Ok (None, r1, c1)
      | Some lb => Ok (Some (N.shiftl (4 + code mod 4) num_low_bits + lb + 3), r1, c1)
      end
    else Ok (Some 514, r, c).

  (* ---------------------------------------------------------------- *)
  (* lha_lh_new_read:
       while (decoder->block_remaining == 0) { if (!start_new_block(decoder)) return 0; }
       --decoder->block_remaining;
       result = 0;
       code = read_code(decoder); if (code < 0) return 0;
       if (code < 256) output_byte(decoder, buf, &result, (uint8_t) code);
       else {
     #ifdef LHARK
         copy_count = lhark_decode_copy_count(decoder, code); if (copy_count < 0) return 0;
     #else
         copy_count = code - 256 + COPY_THRESHOLD;
     #endif
         copy_from_history(decoder, buf, &result, copy_count);
       }
       return result; *)

  (* the while loop; every iteration consumes at least 16 input bits.
     exit value: false = "return 0" inside the loop. *)
  Definition ln_block_step (st : lhnew_state * cbs)
    : outcome ((lhnew_state * cbs) + (bool * lhnew_state * cbs)) :=
    let '(s, c) := st in
    if ln_block_remaining s =? 0 then
      '(ok, s', c') <- ln_start_new_block s c ;;
      if ok then Ok (inl (s', c')) else Ok (inr (false, s', c'))
    else Ok (inr (true, s, c)).

  Definition lhnew_read (s : lhnew_state) (c : cbs) : outcome (list N * lhnew_state * cbs) :=
    '(ok, s1, c1) <- loop ln_block_step 32 (s, c) ;;
    if negb ok then Ok ([], s1, c1) else
    let s2 := ln_set_block_remaining s1 (ln_block_remaining s1 - 1) in
    '(code, r3, c3) <- ln_read_code (ln_code_tree s2) (ln_bsr s2) c1 ;;
    let s3 := ln_set_bsr s2 r3 in
    match code with
    | None => Ok ([], s3, c3)
    | Some cv =>
      if cv <? 256 then
        '(s4, o) <- ln_output_byte s3 ob_empty (u8 cv) ;;
        Ok (ob_bytes o, s4, c3)
      else if p_lhark P then
        '(copy_count, r4, c4) <- ln_lhark_decode_copy_count (ln_bsr s3) c3 cv ;;
        let s4 := ln_set_bsr s3 r4 in
        match copy_count with
        | None => Ok ([], s4, c4)
        | Some cc =>
          '(s5, o, c5) <- ln_copy_from_history s4 ob_empty c4 cc ;;
          Ok (ob_bytes o, s5, c5)
        end
      else
        let copy_count := cv - 256 + p_COPY_THRESHOLD P in
        '(s5, o, c5) <- ln_copy_from_history s3 ob_empty c3 copy_count ;;
        Ok (ob_bytes o, s5, c5)
    end.
End LhNew.

(* ------------------------------------------------------------------ *)
(* The six decoders.  lh4 and lh5 are the same code (lh5_decoder.c defines
   DECODER_NAME and DECODER2_NAME); they differ in block_size only, which
   is used by lha_decoder.c, not here. *)

Definition lh5_params : lhnew_params :=
  {| p_HISTORY_BITS := lh5_HISTORY_BITS; p_OFFSET_BITS := lh5_OFFSET_BITS;
     p_RING_BUFFER_SIZE := lh5_RING_BUFFER_SIZE; p_NUM_CODES := lh5_NUM_CODES;
     p_TEMP_CODE_BITS := lh5_TEMP_CODE_BITS; p_MAX_TEMP_CODES := lh5_MAX_TEMP_CODES;
     p_MAX_OFFSET_CODES := lh5_MAX_OFFSET_CODES; p_COPY_THRESHOLD := lh5_COPY_THRESHOLD;
     p_max_read := lh5_max_read; p_ringbuf_extent := lh5_ringbuf_extent;
     p_temp_tree_extent := lh5_temp_tree_extent; p_code_tree_extent := lh5_code_tree_extent;
     p_offset_tree_extent := lh5_offset_tree_extent; p_leaf := lh5_TREE_NODE_LEAF;
     p_lhark := false |}.

Definition lh4_params : lhnew_params :=
  {| p_HISTORY_BITS := lh5_HISTORY_BITS; p_OFFSET_BITS := lh5_OFFSET_BITS;
     p_RING_BUFFER_SIZE := lh5_RING_BUFFER_SIZE; p_NUM_CODES := lh5_NUM_CODES;
     p_TEMP_CODE_BITS := lh5_TEMP_CODE_BITS; p_MAX_TEMP_CODES := lh5_MAX_TEMP_CODES;
     p_MAX_OFFSET_CODES := lh5_MAX_OFFSET_CODES; p_COPY_THRESHOLD := lh5_COPY_THRESHOLD;
     p_max_read := lh4_max_read; p_ringbuf_extent := lh5_ringbuf_extent;
     p_temp_tree_extent := lh5_temp_tree_extent; p_code_tree_extent := lh5_code_tree_extent;
     p_offset_tree_extent := lh5_offset_tree_extent; p_leaf := lh5_TREE_NODE_LEAF;
     p_lhark := false |}.

Definition lh6_params : lhnew_params :=
  {| p_HISTORY_BITS := lh6_HISTORY_BITS; p_OFFSET_BITS := lh6_OFFSET_BITS;
     p_RING_BUFFER_SIZE := lh6_RING_BUFFER_SIZE; p_NUM_CODES := lh6_NUM_CODES;
     p_TEMP_CODE_BITS := lh6_TEMP_CODE_BITS; p_MAX_TEMP_CODES := lh6_MAX_TEMP_CODES;
     p_MAX_OFFSET_CODES := lh6_MAX_OFFSET_CODES; p_COPY_THRESHOLD := lh6_COPY_THRESHOLD;
     p_max_read := lh6_max_read; p_ringbuf_extent := lh6_ringbuf_extent;
     p_temp_tree_extent := lh6_temp_tree_extent; p_code_tree_extent := lh6_code_tree_extent;
     p_offset_tree_extent := lh6_offset_tree_extent; p_leaf := lh6_TREE_NODE_LEAF;
     p_lhark := false |}.

Definition lh7_params : lhnew_params :=
  {| p_HISTORY_BITS := lh7_HISTORY_BITS; p_OFFSET_BITS := lh7_OFFSET_BITS;
     p_RING_BUFFER_SIZE := lh7_RING_BUFFER_SIZE; p_NUM_CODES := lh7_NUM_CODES;
     p_TEMP_CODE_BITS := lh7_TEMP_CODE_BITS; p_MAX_TEMP_CODES := lh7_MAX_TEMP_CODES;
     p_MAX_OFFSET_CODES := lh7_MAX_OFFSET_CODES; p_COPY_THRESHOLD := lh7_COPY_THRESHOLD;
     p_max_read := lh7_max_read; p_ringbuf_extent := lh7_ringbuf_extent;
     p_temp_tree_extent := lh7_temp_tree_extent; p_code_tree_extent := lh7_code_tree_extent;
     p_offset_tree_extent := lh7_offset_tree_extent; p_leaf := lh7_TREE_NODE_LEAF;
     p_lhark := false |}.

Definition lhx_params : lhnew_params :=
  {| p_HISTORY_BITS := lhx_HISTORY_BITS; p_OFFSET_BITS := lhx_OFFSET_BITS;
     p_RING_BUFFER_SIZE := lhx_RING_BUFFER_SIZE; p_NUM_CODES := lhx_NUM_CODES;
     p_TEMP_CODE_BITS := lhx_TEMP_CODE_BITS; p_MAX_TEMP_CODES := lhx_MAX_TEMP_CODES;
     p_MAX_OFFSET_CODES := lhx_MAX_OFFSET_CODES; p_COPY_THRESHOLD := lhx_COPY_THRESHOLD;
     p_max_read := lhx_max_read; p_ringbuf_extent := lhx_ringbuf_extent;
     p_temp_tree_extent := lhx_temp_tree_extent; p_code_tree_extent := lhx_code_tree_extent;
     p_offset_tree_extent := lhx_offset_tree_extent; p_leaf := lhx_TREE_NODE_LEAF;
     p_lhark := false |}.

Definition lk7_params : lhnew_params :=
  {| p_HISTORY_BITS := lk7_HISTORY_BITS; p_OFFSET_BITS := lk7_OFFSET_BITS;
     p_RING_BUFFER_SIZE := lk7_RING_BUFFER_SIZE; p_NUM_CODES := lk7_NUM_CODES;
     p_TEMP_CODE_BITS := lk7_TEMP_CODE_BITS; p_MAX_TEMP_CODES := lk7_MAX_TEMP_CODES;
     p_MAX_OFFSET_CODES := lk7_MAX_OFFSET_CODES; p_COPY_THRESHOLD := lk7_COPY_THRESHOLD;
     p_max_read := lk7_max_read; p_ringbuf_extent := lk7_ringbuf_extent;
     p_temp_tree_extent := lk7_temp_tree_extent; p_code_tree_extent := lk7_code_tree_extent;
     p_offset_tree_extent := lk7_offset_tree_extent; p_leaf := lk7_TREE_NODE_LEAF;
     p_lhark := true |}.

Definition lh4_init : outcome lhnew_state := lhnew_init lh4_params.
Definition lh5_init : outcome lhnew_state := lhnew_init lh5_params.
Definition lh6_init : outcome lhnew_state := lhnew_init lh6_params.
Definition lh7_init : outcome lhnew_state := lhnew_init lh7_params.
Definition lhx_init : outcome lhnew_state := lhnew_init lhx_params.
Definition lk7_init : outcome lhnew_state := lhnew_init lk7_params.

Definition lh4_read {cbs} (cb : callback cbs) := lhnew_read cb lh4_params.
Definition lh5_read {cbs} (cb : callback cbs) := lhnew_read cb lh5_params.
Definition lh6_read {cbs} (cb : callback cbs) := lhnew_read cb lh6_params.
Definition lh7_read {cbs} (cb : callback cbs) := lhnew_read cb lh7_params.
Definition lhx_read {cbs} (cb : callback cbs) := lhnew_read cb lhx_params.
Definition lk7_read {cbs} (cb : callback cbs) := lhnew_read cb lk7_params.

(* BasicReader.v -- model of lib/lha_basic_reader.c *)
From Lhasa Require Import Base Loop Generated InputStream Header.
Local Open Scope N_scope.

Record breader := {
  br_stream : istream;
  br_curr : option header;
  br_remaining : N;
  br_eof : bool
}.

Definition lha_basic_reader_new (st : istream) : breader :=
  {| br_stream := st; br_curr := None; br_remaining := 0; br_eof := false |}.

Definition lha_basic_reader_curr_file (r : breader) : option header := br_curr r.

Section WithTime.
  Variable mktime : N -> N -> N -> N -> Z -> N -> N.

  Definition lha_basic_reader_next_file (r : breader) : outcome (option header * breader) :=
    r1 <- match br_curr r with
          | Some _ =>
            '(ok, st') <- lha_input_stream_skip (br_stream r) (br_remaining r) ;;
            Ok {| br_stream := st'; br_curr := None; br_remaining := br_remaining r;
                  br_eof := if ok then br_eof r else true |}
          | None => Ok r
          end ;;
    if br_eof r1 then Ok (None, r1) else
    '(h, st2) <- lha_file_header_read mktime (br_stream r1) ;;
    match h with
    | None => Ok (None, {| br_stream := st2; br_curr := None; br_remaining := br_remaining r1; br_eof := true |})
    | Some hd => Ok (Some hd, {| br_stream := st2; br_curr := Some hd;
                                 br_remaining := h_compressed_length hd; br_eof := false |})
    end.
End WithTime.

(* lha_basic_reader_read_compressed.  It is only called once a header has been
   returned, i.e. when the input stream has left its INIT state, so the pure
   read_ready applies; in INIT state (unreachable) it reports end of data. *)
Definition lha_basic_reader_read_compressed (r : breader) (buf_len : N) : list N * breader :=
  if br_eof r || (br_remaining r =? 0) then ([], r) else
  let bytes := if br_remaining r <? buf_len then br_remaining r else buf_len in
  match is_state (br_stream r) with
  | IS_INIT => ([], r)
  | _ =>
    let '(res, st') := read_ready (br_stream r) bytes in
    match res with
    | None => ([], {| br_stream := st'; br_curr := br_curr r; br_remaining := br_remaining r; br_eof := true |})
    | Some bs => (bs, {| br_stream := st'; br_curr := br_curr r; br_remaining := br_remaining r - bytes;
                         br_eof := br_eof r |})
    end
  end.

(* decoder_callback *)
Definition decoder_callback : breader -> N -> list N * breader := lha_basic_reader_read_compressed.
